import IwModel.Lemmas.JsonPatchWF
import IwModel.Lemmas.JsonMerge
import IwModel.Model.JsonRfc
/-! Refinement lemmas for C15: on well-formed trees the model's pointer-position machinery computes what RFC 6901/6902
prescribe on the erased document. -/
namespace IwModel.Patch
open IwModel

/-- erasure of a member list / element list -/
def eraseMs (ms : List (Bytes × Node)) : Rfc.Members := ms.map fun p => (p.1, erase p.2)
def eraseXs (xs : List (Int × Node)) : List JVal := xs.map fun p => erase p.2

@[simp] theorem erase_obj (ms : List (Bytes × Node)) : erase (.obj ms) = .obj (eraseMs ms) := by
  rw [erase]; rfl
@[simp] theorem erase_arr (xs : List (Int × Node)) : erase (.arr xs) = .arr (eraseXs xs) := by
  rw [erase]; rfl

/-- the model's index parser agrees with the RFC grammar on this token (true for every token of at most 9 bytes) -/
def IdxAgree (seg : Bytes) : Prop := canonIdx seg = Rfc.arrayIndex seg

theorem arrayIndex_dash : Rfc.arrayIndex dash = none := by decide

/-! ### objects: first member with a key -/

theorem lookup_eraseMs (ms : List (Bytes × Node)) (k : Bytes) (c' : JVal) (h : (eraseMs ms).lookup k = some c') :
    ∃ i p, ms.findIdx? (fun q => q.1 == k) = some i ∧ ms[i]? = some p ∧ p.1 = k ∧ erase p.2 = c' := by
  induction ms with
  | nil => simp [eraseMs] at h
  | cons q r ih =>
    obtain ⟨k', c⟩ := q
    simp only [eraseMs, List.map_cons, List.lookup] at h
    by_cases hk : k == k'
    · simp only [hk] at h
      have e : k = k' := by simpa using hk
      subst e
      refine ⟨0, (k, c), ?_, rfl, rfl, by simpa using h⟩
      simp [List.findIdx?_cons]
    · simp only [hk] at h
      obtain ⟨i, p, h1, h2, h3, h4⟩ := ih h
      have hk' : (k' == k) = false := Merge.beq_false_symm (by simpa using hk)
      refine ⟨i + 1, p, ?_, by simpa using h2, h3, h4⟩
      simp [List.findIdx?_cons, hk', h1]

theorem lookup_eraseMs_none (ms : List (Bytes × Node)) (k : Bytes) (h : (eraseMs ms).lookup k = none) :
    ms.findIdx? (fun q => q.1 == k) = none := by
  induction ms with
  | nil => rfl
  | cons q r ih =>
    obtain ⟨k', c⟩ := q
    simp only [eraseMs, List.map_cons, List.lookup] at h
    by_cases hk : k == k'
    · simp [hk] at h
    · simp only [hk] at h
      have hk' : (k' == k) = false := Merge.beq_false_symm (by simpa using hk)
      simp [List.findIdx?_cons, hk', ih h]

/-- rewriting the first member named `k` in place = `put` on the erased list -/
theorem eraseMs_modify (ms : List (Bytes × Node)) (k : Bytes) (i : Nat) (n' : Node)
    (h : ms.findIdx? (fun q => q.1 == k) = some i) :
    eraseMs (ms.modify i fun p => (p.1, n')) = Rfc.put (eraseMs ms) k (erase n') := by
  induction ms generalizing i with
  | nil => simp at h
  | cons q r ih =>
    obtain ⟨k', c⟩ := q
    simp only [List.findIdx?_cons] at h
    by_cases hk : k' == k
    · simp only [hk, ↓reduceIte, Option.some.injEq] at h
      subst h
      have e : k' = k := by simpa using hk
      subst e
      simp [eraseMs, Rfc.put]
    · simp only [hk, Bool.false_eq_true, ↓reduceIte, Option.map_eq_some_iff] at h
      obtain ⟨j, hj, rfl⟩ := h
      have := ih j hj
      simp only [eraseMs, List.modify_succ_cons, List.map_cons, Rfc.put, hk, Bool.false_eq_true, ↓reduceIte,
        List.cons.injEq, true_and] at this ⊢
      exact this

theorem eraseMs_append_new (ms : List (Bytes × Node)) (k : Bytes) (n' : Node)
    (h : ms.findIdx? (fun q => q.1 == k) = none) :
    eraseMs (ms ++ [(k, n')]) = Rfc.put (eraseMs ms) k (erase n') := by
  induction ms with
  | nil => simp [eraseMs, Rfc.put]
  | cons q r ih =>
    obtain ⟨k', c⟩ := q
    simp only [List.findIdx?_cons] at h
    by_cases hk : k' == k
    · simp [hk] at h
    · simp only [hk, Bool.false_eq_true, ↓reduceIte, Option.map_eq_none_iff] at h
      have := ih h
      simp only [eraseMs, List.cons_append, List.map_cons, Rfc.put, hk, Bool.false_eq_true, ↓reduceIte,
        List.cons.injEq, true_and] at this ⊢
      exact this

theorem eraseMs_eraseIdx (ms : List (Bytes × Node)) (k : Bytes) (i : Nat)
    (h : ms.findIdx? (fun q => q.1 == k) = some i) :
    eraseMs (ms.eraseIdx i) = Rfc.remove (eraseMs ms) k := by
  induction ms generalizing i with
  | nil => simp at h
  | cons q r ih =>
    obtain ⟨k', c⟩ := q
    simp only [List.findIdx?_cons] at h
    by_cases hk : k' == k
    · simp only [hk, ↓reduceIte, Option.some.injEq] at h
      subst h
      simp [eraseMs, Rfc.remove, hk]
    · simp only [hk, Bool.false_eq_true, ↓reduceIte, Option.map_eq_some_iff] at h
      obtain ⟨j, hj, rfl⟩ := h
      have := ih j hj
      simp only [eraseMs, List.eraseIdx_cons_succ, List.map_cons, Rfc.remove, hk, Bool.false_eq_true, ↓reduceIte,
        List.cons.injEq, true_and] at this ⊢
      exact this

/-! ### arrays -/

theorem eraseXs_getElem? (xs : List (Int × Node)) (i : Nat) (c' : JVal) (h : (eraseXs xs)[i]? = some c') :
    ∃ p, xs[i]? = some p ∧ erase p.2 = c' := by
  simp only [eraseXs, List.getElem?_map, Option.map_eq_some_iff] at h
  exact h

theorem eraseXs_modify (xs : List (Int × Node)) (i : Nat) (n' : Node) :
    eraseXs (xs.modify i fun p => (p.1, n')) = (eraseXs xs).set i (erase n') := by
  induction xs generalizing i with
  | nil => simp [eraseXs]
  | cons a r ih =>
    cases i with
    | zero => simp [eraseXs]
    | succ j =>
      have := ih j
      simp only [eraseXs, List.modify_succ_cons, List.map_cons, List.set_cons_succ, List.cons.injEq, true_and] at this ⊢
      exact this

end IwModel.Patch

namespace IwModel.Patch
open IwModel

theorem childIdx_arr_idx (xs : List (Int × Node)) (k : Bytes) (i : Nat) (hn : NumFrom 0 xs) (hi : IdxAgree k)
    (ha : Rfc.arrayIndex k = some i) :
    childIdx (.arr xs) k = if i < xs.length then some i else none := by
  have hd : (k == dash) = false := by
    rw [beq_eq_false_iff_ne]; intro e; rw [e, arrayIndex_dash] at ha; cases ha
  simp only [childIdx, hd, Bool.false_eq_true, ↓reduceIte]
  rw [hi, ha]
  simp only
  have := numFrom_findIdx 0 xs hn i
  simpa using this

/-- RFC 6901 evaluation succeeds ⇒ `_jbl_node_find` finds the same node -/
theorem locate_of_getAt (t : Node) (p : Ptr) (v : JVal) (h : WF t) (hi : ∀ s ∈ p, IdxAgree s)
    (hg : Rfc.getAt (erase t) p = some v) :
    ∃ ps n, locate t p = some ps ∧ getP t ps = some n ∧ erase n = v := by
  induction p generalizing t with
  | nil =>
    simp only [Rfc.getAt, Option.some.injEq] at hg
    exact ⟨[], t, rfl, rfl, hg⟩
  | cons k r ih =>
    have hir : ∀ s ∈ r, IdxAgree s := fun s hs => hi s (by simp [hs])
    cases t with
    | obj ms =>
      simp only [erase_obj, Rfc.getAt] at hg
      split at hg
      · rename_i c' hl
        obtain ⟨i, p, h1, h2, _, h4⟩ := lookup_eraseMs ms k c' hl
        have hc : child? (.obj ms) i = some p.2 := by simp [child?, h2]
        obtain ⟨ps', n, g1, g2, g3⟩ := ih p.2 (wf_child _ i _ h hc) hir (by rw [h4]; exact hg)
        refine ⟨i :: ps', n, ?_, ?_, g3⟩
        · simp only [locate, childIdx, h1, hc, g1, Option.map_some]
        · simp only [getP, hc, g2]
      · cases hg
    | arr xs =>
      obtain ⟨hn, _⟩ := (wf_arr_iff xs).mp h
      simp only [erase_arr, Rfc.getAt] at hg
      split at hg
      · rename_i i ha
        split at hg
        · rename_i c' hx
          obtain ⟨p, h2, h4⟩ := eraseXs_getElem? xs i c' hx
          have hlt : i < xs.length := by
            rcases Nat.lt_or_ge i xs.length with h | h
            · exact h
            · simp [List.getElem?_eq_none h] at h2
          have hci : childIdx (.arr xs) k = some i := by
            rw [childIdx_arr_idx xs k i hn (hi k (by simp)) ha]; simp [hlt]
          have hc : child? (.arr xs) i = some p.2 := by simp [child?, h2]
          obtain ⟨ps', n, g1, g2, g3⟩ := ih p.2 (wf_child _ i _ h hc) hir (by rw [h4]; exact hg)
          refine ⟨i :: ps', n, ?_, ?_, g3⟩
          · simp only [locate, hci, hc, g1, Option.map_some]
          · simp only [getP, hc, g2]
        · cases hg
      · cases hg
    | none => simp [erase, Rfc.getAt] at hg
    | null => simp [erase, Rfc.getAt] at hg
    | bool b => simp [erase, Rfc.getAt] at hg
    | int b => simp [erase, Rfc.getAt] at hg
    | f64 b => simp [erase, Rfc.getAt] at hg
    | str b => simp [erase, Rfc.getAt] at hg

theorem setP_cons_obj (ms : List (Bytes × Node)) (i : Nat) (ps : List Nat) (n' : Node) :
    setP (.obj ms) (i :: ps) n' = .obj (ms.modify i fun p => (p.1, setP p.2 ps n')) := by
  simp [setP, modP]

theorem setP_cons_arr (xs : List (Int × Node)) (i : Nat) (ps : List Nat) (n' : Node) :
    setP (.arr xs) (i :: ps) n' = .arr (xs.modify i fun p => (p.1, setP p.2 ps n')) := by
  simp [setP, modP]

theorem modify_congr_at {α} (xs : List α) (i : Nat) (a : α) (f g : α → α) (h : xs[i]? = some a) (e : f a = g a) :
    xs.modify i f = xs.modify i g := by
  induction xs generalizing i with
  | nil => simp at h
  | cons x r ih =>
    cases i with
    | zero => simp at h; subst h; simp [e]
    | succ j => simp only [List.modify_succ_cons, List.cons.injEq, true_and]; exact ih j (by simpa using h)

/-- RFC-level "rewrite the value at a location" succeeds ⇒ the model locates the same node, the rewriting function
    was applied to its erasure, and putting any node with the new erasure there gives the new document -/
theorem locate_of_updAt (t : Node) (p : Ptr) (f : JVal → Option JVal) (d' : JVal) (h : WF t)
    (hi : ∀ s ∈ p, IdxAgree s) (hu : Rfc.updAt (erase t) p f = some d') :
    ∃ ps parent x, locate t p = some ps ∧ getP t ps = some parent ∧ WF parent ∧ f (erase parent) = some x ∧
      Rfc.getAt (erase t) p = some (erase parent) ∧
      ∀ n', erase n' = x → erase (setP t ps n') = d' := by
  induction p generalizing t d' with
  | nil =>
    simp only [Rfc.updAt] at hu
    exact ⟨[], t, d', rfl, rfl, h, hu, rfl, fun n' e => by simpa [setP, modP] using e⟩
  | cons k r ih =>
    have hir : ∀ s ∈ r, IdxAgree s := fun s hs => hi s (by simp [hs])
    cases t with
    | obj ms =>
      simp only [erase_obj, Rfc.updAt] at hu
      split at hu
      · rename_i c' hl
        obtain ⟨i, p, h1, h2, _, h4⟩ := lookup_eraseMs ms k c' hl
        have hc : child? (.obj ms) i = some p.2 := by simp [child?, h2]
        simp only [Option.map_eq_some_iff] at hu
        obtain ⟨c'', hu1, rfl⟩ := hu
        obtain ⟨ps', parent, x, g1, g2, g3, g4, g6, g5⟩ := ih p.2 c'' (wf_child _ i _ h hc) hir (by rw [h4]; exact hu1)
        refine ⟨i :: ps', parent, x, ?_, ?_, g3, g4, ?_, ?_⟩
        · simp only [locate, childIdx, h1, hc, g1, Option.map_some]
        · simp only [getP, hc, g2]
        · simp only [erase_obj, Rfc.getAt, hl, ← h4, g6]
        · intro n' e
          rw [setP_cons_obj, erase_obj]
          have hm : ms.modify i (fun q => (q.1, setP q.2 ps' n')) = ms.modify i (fun q => (q.1, setP p.2 ps' n')) :=
            modify_congr_at ms i p _ _ h2 rfl
          rw [hm, eraseMs_modify ms k i _ h1, g5 n' e]
      · cases hu
    | arr xs =>
      obtain ⟨hn, _⟩ := (wf_arr_iff xs).mp h
      simp only [erase_arr, Rfc.updAt] at hu
      split at hu
      · rename_i i ha
        split at hu
        · rename_i c' hx
          obtain ⟨p, h2, h4⟩ := eraseXs_getElem? xs i c' hx
          have hlt : i < xs.length := by
            rcases Nat.lt_or_ge i xs.length with h | h
            · exact h
            · simp [List.getElem?_eq_none h] at h2
          have hci : childIdx (.arr xs) k = some i := by
            rw [childIdx_arr_idx xs k i hn (hi k (by simp)) ha]; simp [hlt]
          have hc : child? (.arr xs) i = some p.2 := by simp [child?, h2]
          simp only [Option.map_eq_some_iff] at hu
          obtain ⟨c'', hu1, rfl⟩ := hu
          obtain ⟨ps', parent, x, g1, g2, g3, g4, g6, g5⟩ := ih p.2 c'' (wf_child _ i _ h hc) hir (by rw [h4]; exact hu1)
          refine ⟨i :: ps', parent, x, ?_, ?_, g3, g4, ?_, ?_⟩
          · simp only [locate, hci, hc, g1, Option.map_some]
          · simp only [getP, hc, g2]
          · simp only [erase_arr, Rfc.getAt, ha, hx, ← h4, g6]
          · intro n' e
            rw [setP_cons_arr, erase_arr]
            have hm : xs.modify i (fun q => (q.1, setP q.2 ps' n')) = xs.modify i (fun q => (q.1, setP p.2 ps' n')) :=
              modify_congr_at xs i p _ _ h2 rfl
            rw [hm, eraseXs_modify, g5 n' e]
        · cases hu
      · cases hu
    | none => simp [erase, Rfc.updAt] at hu
    | null => simp [erase, Rfc.updAt] at hu
    | bool b => simp [erase, Rfc.updAt] at hu
    | int b => simp [erase, Rfc.updAt] at hu
    | f64 b => simp [erase, Rfc.updAt] at hu
    | str b => simp [erase, Rfc.updAt] at hu

end IwModel.Patch

namespace IwModel.Patch
open IwModel

theorem dash_eq : dash = Rfc.dash := rfl

theorem eraseXs_append (a b : List (Int × Node)) : eraseXs (a ++ b) = eraseXs a ++ eraseXs b := by
  simp [eraseXs]

theorem eraseXs_map_kl (xs : List (Int × Node)) (f : Int → Int) :
    eraseXs (xs.map fun p => (f p.1, p.2)) = eraseXs xs := by
  simp [eraseXs, List.map_map, Function.comp_def]

theorem eraseXs_map_add (xs : List (Int × Node)) : eraseXs (xs.map fun p => (p.1 + 1, p.2)) = eraseXs xs :=
  eraseXs_map_kl xs (· + 1)

theorem eraseXs_map_sub (xs : List (Int × Node)) : eraseXs (xs.map fun p => (p.1 - 1, p.2)) = eraseXs xs :=
  eraseXs_map_kl xs (· - 1)

theorem eraseXs_cons (k : Int) (v : Node) (r : List (Int × Node)) : eraseXs ((k, v) :: r) = erase v :: eraseXs r := rfl

theorem eraseXs_take (xs : List (Int × Node)) (i : Nat) : eraseXs (xs.take i) = (eraseXs xs).take i := by
  simp [eraseXs, List.map_take]

theorem eraseXs_drop (xs : List (Int × Node)) (i : Nat) : eraseXs (xs.drop i) = (eraseXs xs).drop i := by
  simp [eraseXs, List.map_drop]

theorem eraseXs_length (xs : List (Int × Node)) : (eraseXs xs).length = xs.length := by simp [eraseXs]

theorem insertIdx_take_drop {α} (xs : List α) (i : Nat) (v : α) (h : i ≤ xs.length) :
    xs.insertIdx i v = xs.take i ++ v :: xs.drop i := by
  induction xs generalizing i with
  | nil => simp at h; subst h; simp
  | cons a r ih =>
    cases i with
    | zero => simp
    | succ j => simp [List.insertIdx_succ_cons, ih j (by simpa using h)]

/-- the array / object branches of `add` in `_jbl_target_apply_patch` do what RFC 6902 4.1 says -/
theorem insertPlain_of_addChild (parent : Node) (last : Bytes) (op : OpK) (v : Node) (x : JVal)
    (h : WF parent) (hop : (op == OpK.increment) = false) (hi : IdxAgree last)
    (ha : Rfc.addChild (erase parent) last (erase v) = some x) :
    (insertPlain parent last op v).2 = .ok ∧ erase (insertPlain parent last op v).1 = x := by
  cases parent with
  | obj ms =>
    simp only [erase_obj, Rfc.addChild, Option.some.injEq] at ha
    subst ha
    simp only [insertPlain, hop, Bool.false_eq_true, ↓reduceIte]
    cases hc : childIdx (.obj ms) last with
    | none =>
      simp only [childIdx] at hc
      simp only [erase_obj, true_and]
      rw [eraseMs_append_new ms last v hc]
    | some i =>
      simp only [childIdx] at hc
      simp only [setChild, erase_obj, true_and]
      rw [eraseMs_modify ms last i v hc]
  | arr xs =>
    obtain ⟨hn, _⟩ := (wf_arr_iff xs).mp h
    simp only [erase_arr, Rfc.addChild] at ha
    simp only [insertPlain, hop, Bool.false_eq_true, ↓reduceIte]
    by_cases hd : last == dash
    · have hd' : (last == Rfc.dash) = true := hd
      simp only [hd', ↓reduceIte, Option.some.injEq] at ha
      subst ha
      simp only [hd, ↓reduceIte, addItem, erase_arr, eraseXs_append, true_and]
      simp [eraseXs]
    · have hd' : (last == Rfc.dash) = false := by
        have := hd; rw [dash_eq] at this; simpa using this
      simp only [hd', Bool.false_eq_true, ↓reduceIte] at ha
      simp only [hd, Bool.false_eq_true, ↓reduceIte]
      rw [hi]
      split at ha
      · rename_i i hai
        split at ha
        · rename_i hle
          simp only [Option.some.injEq] at ha
          subst ha
          rw [eraseXs_length] at hle
          rw [hai]
          have h1 : ¬ i > xs.length := by omega
          simp only [h1, ↓reduceIte]
          by_cases hlt : i < xs.length
          · simp only [hlt, ↓reduceIte, erase_arr, true_and]
            rw [eraseXs_append, eraseXs_take, eraseXs_cons, eraseXs_map_add, eraseXs_drop]
            rw [insertIdx_take_drop _ _ _ (by rw [eraseXs_length]; omega)]
          · have e : i = xs.length := by omega
            subst e
            simp only [Nat.lt_irrefl, ↓reduceIte, addItem, erase_arr, eraseXs_append, true_and]
            rw [insertIdx_take_drop _ _ _ (by simp [eraseXs])]
            have e1 : List.take xs.length (eraseXs xs) = eraseXs xs := by
              rw [← eraseXs_length xs]; exact List.take_length
            have e2 : List.drop xs.length (eraseXs xs) = [] := by
              rw [← eraseXs_length xs]; exact List.drop_length
            rw [e1, e2]; simp [eraseXs]
        · cases ha
      · cases ha
  | none => simp [erase, Rfc.addChild] at ha
  | null => simp [erase, Rfc.addChild] at ha
  | bool b => simp [erase, Rfc.addChild] at ha
  | int b => simp [erase, Rfc.addChild] at ha
  | f64 b => simp [erase, Rfc.addChild] at ha
  | str b => simp [erase, Rfc.addChild] at ha

theorem eraseIdx_take_drop {α} (xs : List α) (i : Nat) : xs.eraseIdx i = xs.take i ++ xs.drop (i + 1) := by
  induction xs generalizing i with
  | nil => simp
  | cons a r ih =>
    cases i with
    | zero => simp
    | succ j => simp [ih j]

/-- `_jbl_node_find` + `_jbn_remove_item` with renumbering = RFC 6902 4.2 inside the parent -/
theorem removeChild_of_spec (parent : Node) (last : Bytes) (x : JVal) (h : WF parent) (hi : IdxAgree last)
    (hr : Rfc.removeChild (erase parent) last = some x) :
    ∃ i c, childIdx parent last = some i ∧ child? parent i = some c ∧ erase (removeChild parent i) = x ∧
      Rfc.getAt (erase parent) [last] = some (erase c) := by
  cases parent with
  | obj ms =>
    simp only [erase_obj, Rfc.removeChild] at hr
    split at hr
    · rename_i hs
      simp only [Option.some.injEq] at hr
      subst hr
      obtain ⟨c', hl⟩ := Option.isSome_iff_exists.mp hs
      obtain ⟨i, p, h1, h2, _, h4⟩ := lookup_eraseMs ms last c' hl
      refine ⟨i, p.2, by simpa [childIdx] using h1, by simp [child?, h2], ?_, ?_⟩
      · simp only [removeChild, erase_obj]; rw [eraseMs_eraseIdx ms last i h1]
      · simp only [erase_obj, Rfc.getAt, hl, h4]
    · cases hr
  | arr xs =>
    obtain ⟨hn, _⟩ := (wf_arr_iff xs).mp h
    simp only [erase_arr, Rfc.removeChild] at hr
    split at hr
    · rename_i i hai
      split at hr
      · rename_i hlt
        simp only [Option.some.injEq] at hr
        subst hr
        rw [eraseXs_length] at hlt
        have hci : childIdx (.arr xs) last = some i := by
          rw [childIdx_arr_idx xs last i hn hi hai]; simp [hlt]
        refine ⟨i, (xs[i]).2, hci, by simp [child?, hlt], ?_, ?_⟩
        · simp only [removeChild, erase_arr]
          rw [eraseXs_append, eraseXs_map_sub, eraseXs_take, eraseXs_drop, eraseIdx_take_drop]
        · simp only [erase_arr, Rfc.getAt, hai]
          have : (eraseXs xs)[i]? = some (erase (xs[i]).2) := by simp [eraseXs, hlt]
          simp [this]
      · cases hr
    · cases hr
  | none => simp [erase, Rfc.removeChild] at hr
  | null => simp [erase, Rfc.removeChild] at hr
  | bool b => simp [erase, Rfc.removeChild] at hr
  | int b => simp [erase, Rfc.removeChild] at hr
  | f64 b => simp [erase, Rfc.removeChild] at hr
  | str b => simp [erase, Rfc.removeChild] at hr

end IwModel.Patch

namespace IwModel.Patch
open IwModel

theorem modP_eq_setP (t : Node) (ps : List Nat) (g : Node → Node) (parent : Node) (h : getP t ps = some parent) :
    modP t ps g = setP t ps (g parent) := by
  induction ps generalizing t with
  | nil => simp only [getP, Option.some.injEq] at h; subst h; simp [setP, modP]
  | cons i r ih =>
    simp only [getP] at h
    split at h
    · rename_i c hc
      cases t with
      | arr xs =>
        simp only [child?, Option.map_eq_some_iff] at hc
        obtain ⟨p, hp, rfl⟩ := hc
        simp only [setP, modP]
        congr 1
        exact modify_congr_at xs i p _ _ hp (by rw [ih p.2 h]; rfl)
      | obj ms =>
        simp only [child?, Option.map_eq_some_iff] at hc
        obtain ⟨p, hp, rfl⟩ := hc
        simp only [setP, modP]
        congr 1
        exact modify_congr_at ms i p _ _ hp (by rw [ih p.2 h]; rfl)
      | _ => simp [child?] at hc
    · cases h

theorem getAt_append (doc : JVal) (a b : Rfc.Ptr) :
    Rfc.getAt doc (a ++ b) = (Rfc.getAt doc a).bind (Rfc.getAt · b) := by
  induction a generalizing doc with
  | nil => simp [Rfc.getAt]
  | cons k r ih =>
    cases doc with
    | obj ms =>
      simp only [List.cons_append, Rfc.getAt]
      split
      · exact ih _
      · rfl
    | arr xs =>
      simp only [List.cons_append, Rfc.getAt]
      split
      · split
        · exact ih _
        · rfl
      · rfl
    | _ => simp [Rfc.getAt]

theorem dropLast_append_getLast {α} (l : List α) (x : α) (h : l.getLast? = some x) : l.dropLast ++ [x] = l := by
  obtain ⟨ys, rfl⟩ := List.getLast?_eq_some_iff.mp h
  simp

/-- RFC `remove` succeeds ⇒ `_jbl_node_detach` detaches that very value and leaves the RFC result -/
theorem detach_of_removeAt (t : Node) (path : Ptr) (d' : JVal) (h : WF t) (hi : ∀ s ∈ path, IdxAgree s)
    (hr : Rfc.removeAt (erase t) path = some d') :
    ∃ t' v ps, detach t path = some (t', v, ps) ∧ erase t' = d' ∧ Rfc.getAt (erase t) path = some (erase v) := by
  simp only [Rfc.removeAt] at hr
  split at hr
  · cases hr
  · rename_i last hl
    have hmem : ∀ s ∈ path.dropLast, IdxAgree s := fun s hs => hi s (List.dropLast_subset _ hs)
    have hlast : IdxAgree last := hi last (List.mem_of_getLast? hl)
    obtain ⟨pp, parent, x, g1, g2, g3, g4, g6, g5⟩ := locate_of_updAt t path.dropLast _ d' h hmem hr
    obtain ⟨i, c, c1, c2, c3, c4⟩ := removeChild_of_spec parent last x g3 hlast g4
    refine ⟨modP t pp (removeChild · i), c, pp ++ [i], ?_, ?_, ?_⟩
    · simp only [detach, hl, g1, g2, c1, c2]
    · rw [modP_eq_setP t pp _ parent g2]; exact g5 _ c3
    · have e := dropLast_append_getLast path last hl
      rw [← e, getAt_append, g6]; exact c4

/-- RFC `add` at a non-root location succeeds ⇒ the common tail of `_jbl_target_apply_patch` succeeds with the RFC
    result (for every operation that ends in an insertion: add, replace, move, copy, add_create, …) -/
theorem place_of_add (t : Node) (op : OpK) (path : Ptr) (v : Node) (d' : JVal) (h : WF t)
    (hop : (op == OpK.increment) = false) (hne : path ≠ []) (hi : ∀ s ∈ path, IdxAgree s)
    (ha : Rfc.add (erase t) path (erase v) = some d') :
    (place t op path v).2 = .ok ∧ erase (place t op path v).1 = d' := by
  simp only [Rfc.add] at ha
  split at ha
  · rename_i hl
    exact absurd (List.getLast?_eq_none_iff.mp hl) hne
  · rename_i last hl
    have hmem : ∀ s ∈ path.dropLast, IdxAgree s := fun s hs => hi s (List.dropLast_subset _ hs)
    have hlast : IdxAgree last := hi last (List.mem_of_getLast? hl)
    obtain ⟨pp, parent, x, g1, g2, g3, g4, _, g5⟩ := locate_of_updAt t path.dropLast _ d' h hmem ha
    obtain ⟨r1, r2⟩ := insertPlain_of_addChild parent last op v x g3 hop hlast g4
    simp only [place, hl, g1, g2]
    exact ⟨r1, g5 _ r2⟩

/-- RFC 6901 evaluation succeeds ⇒ `_jbl_node_find` returns a node denoting that value -/
theorem find_of_getAt (t : Node) (p : Ptr) (v : JVal) (h : WF t) (hi : ∀ s ∈ p, IdxAgree s)
    (hg : Rfc.getAt (erase t) p = some v) : ∃ n, find t p = some n ∧ erase n = v := by
  obtain ⟨ps, n, h1, h2, h3⟩ := locate_of_getAt t p v h hi hg
  exact ⟨n, by simp [find, h1, h2], h3⟩

end IwModel.Patch

namespace IwModel.Patch
open IwModel

theorem number_map_snd (ys : List Node) : (number ys).map (·.2) = ys := by
  simp only [number, List.map_map]
  have : ((fun x : Int × Node => x.snd) ∘ fun x : Node × Nat => ((x.2 : Int), x.1)) = fun x : Node × Nat => x.1 := by
    funext x; rfl
  rw [this]
  exact List.zipIdx_map_fst 0 ys

theorem erase_ofJ (v : JVal) : erase (ofJ v) = v := by
  induction v using JVal.induct with
  | null => simp [ofJ, erase]
  | bool b => simp [ofJ, erase]
  | int i => simp [ofJ, erase]
  | f64 b => simp [ofJ, erase]
  | str s => simp [ofJ, erase]
  | arr xs ih =>
    rw [ofJ, erase_arr]
    congr 1
    have : eraseXs (number (xs.map ofJ)) = ((number (xs.map ofJ)).map (·.2)).map erase := by
      simp [eraseXs, List.map_map, Function.comp_def]
    rw [this, number_map_snd, List.map_map]
    conv => rhs; rw [← List.map_id xs]
    exact List.map_congr_left (fun x hx => ih x hx)
  | obj ms ih =>
    rw [ofJ, erase_obj]
    congr 1
    simp only [eraseMs, List.map_map]
    conv => rhs; rw [← List.map_id ms]
    exact List.map_congr_left (fun p hp => by simp [ih p hp])

/-- the decoded form of an RFC 6902 operation object -/
def toPOp : Rfc.Op → POp
  | .add p v => { op := .add, path := p, frm := none, value := some (ofJ v) }
  | .remove p => { op := .remove, path := p, frm := none, value := none }
  | .replace p v => { op := .replace, path := p, frm := none, value := some (ofJ v) }
  | .move f p => { op := .move, path := p, frm := some f, value := none }
  | .copy f p => { op := .copy, path := p, frm := some f, value := none }
  | .test p v => { op := .test, path := p, frm := none, value := some (ofJ v) }

def opPath : Rfc.Op → Ptr
  | .add p _ => p | .remove p => p | .replace p _ => p | .move _ p => p | .copy _ p => p | .test p _ => p

def opFrom : Rfc.Op → Ptr
  | .move f _ => f | .copy f _ => f | _ => []

/-- side conditions under which the model is compared with the RFC: index tokens are read the same way (true for all
    tokens of at most 9 bytes) and the path is not iowow's root spelling `/` (open finding C15-slash-root) -/
structure OpOk (o : Rfc.Op) : Prop where
  idxPath : ∀ s ∈ opPath o, IdxAgree s
  idxFrom : ∀ s ∈ opFrom o, IdxAgree s
  noSlash : opPath o ≠ [[]]

theorem OpK.beq_eq (a b : OpK) : (a == b) = decide (a = b) := by
  cases a <;> cases b <;> rfl

theorem oproot_false (p : Ptr) (h1 : p ≠ []) (h2 : p ≠ [[]]) : (p == [] || p == [[]]) = false := by
  simp [h1, h2]

theorem applyOp_add (t : Node) (p : Ptr) (v : JVal) (d' : JVal) (h : WF t) (hok : OpOk (.add p v))
    (hs : Rfc.step (erase t) (.add p v) = some d') :
    ∃ t', applyOp t (toPOp (.add p v)) = (t', .ok) ∧ erase t' = d' := by
  simp only [Rfc.step] at hs
  by_cases hp : p = []
  · subst hp
    simp only [Rfc.add, List.getLast?_nil, Option.some.injEq] at hs
    subst hs
    exact ⟨ofJ v, by simp [applyOp, toPOp, OpK.beq_eq], erase_ofJ v⟩
  · have hr := oproot_false p hp hok.noSlash
    rw [← erase_ofJ v] at hs
    obtain ⟨r1, r2⟩ := place_of_add t .add p (ofJ v) d' h (by decide) hp hok.idxPath hs
    refine ⟨(place t .add p (ofJ v)).1, ?_, r2⟩
    simp only [applyOp, toPOp, hr]
    simp [OpK.beq_eq, ← r1]

end IwModel.Patch

namespace IwModel.Patch
open IwModel

theorem applyOp_remove (t : Node) (p : Ptr) (d' : JVal) (h : WF t) (hok : OpOk (.remove p))
    (hs : Rfc.step (erase t) (.remove p) = some d') :
    ∃ t', applyOp t (toPOp (.remove p)) = (t', .ok) ∧ erase t' = d' := by
  simp only [Rfc.step] at hs
  have hp : p ≠ [] := by
    intro e; subst e; simp [Rfc.removeAt] at hs
  have hr := oproot_false p hp hok.noSlash
  obtain ⟨t', v, ps, g1, g2, _⟩ := detach_of_removeAt t p d' h hok.idxPath hs
  refine ⟨t', ?_, g2⟩
  simp only [applyOp, toPOp, hr]
  simp [OpK.beq_eq, g1]

theorem applyOp_replace (t : Node) (p : Ptr) (v : JVal) (d' : JVal) (h : WF t) (hok : OpOk (.replace p v))
    (hs : Rfc.step (erase t) (.replace p v) = some d') :
    ∃ t', applyOp t (toPOp (.replace p v)) = (t', .ok) ∧ erase t' = d' := by
  simp only [Rfc.step] at hs
  split at hs
  · cases hs
  · by_cases hp : p = []
    · subst hp
      simp only [beq_self_eq_true, ↓reduceIte, Option.some.injEq] at hs
      subst hs
      exact ⟨ofJ v, by simp [applyOp, toPOp, OpK.beq_eq], erase_ofJ v⟩
    · have hpb : (p == []) = false := by simpa using hp
      simp only [hpb, Bool.false_eq_true, ↓reduceIte, Option.bind_eq_some_iff] at hs
      obtain ⟨d1, hs1, hs2⟩ := hs
      have hr := oproot_false p hp hok.noSlash
      obtain ⟨t1, w, ps, g1, g2, _⟩ := detach_of_removeAt t p d1 h hok.idxPath hs1
      have ht1 : WF t1 := (wf_detach t p t1 w ps h g1).1
      rw [← g2, ← erase_ofJ v] at hs2
      obtain ⟨r1, r2⟩ := place_of_add t1 .replace p (ofJ v) d' ht1 (by decide) hp hok.idxPath hs2
      refine ⟨(place t1 .replace p (ofJ v)).1, ?_, r2⟩
      simp only [applyOp, toPOp, hr]
      simp [OpK.beq_eq, g1, ← r1]

theorem applyOp_copy (t : Node) (f p : Ptr) (d' : JVal) (h : WF t) (hok : OpOk (.copy f p))
    (hs : Rfc.step (erase t) (.copy f p) = some d') :
    ∃ t', applyOp t (toPOp (.copy f p)) = (t', .ok) ∧ erase t' = d' := by
  simp only [Rfc.step] at hs
  split at hs
  · cases hs
  · rename_i w hw
    obtain ⟨n, hn1, hn2⟩ := find_of_getAt t f w h hok.idxFrom hw
    by_cases hp : p = []
    · subst hp
      simp only [Rfc.add, List.getLast?_nil, Option.some.injEq] at hs
      subst hs
      exact ⟨n, by simp [applyOp, toPOp, OpK.beq_eq, hn1], hn2⟩
    · have hr := oproot_false p hp hok.noSlash
      rw [← hn2] at hs
      obtain ⟨r1, r2⟩ := place_of_add t .copy p n d' h (by decide) hp hok.idxPath hs
      refine ⟨(place t .copy p n).1, ?_, r2⟩
      simp only [applyOp, toPOp, hr]
      simp [OpK.beq_eq, hn1, ← r1]

theorem properPrefix_eq (f p : Ptr) : properPrefix f p = Rfc.properPrefix f p := rfl

theorem applyOp_move (t : Node) (f p : Ptr) (d' : JVal) (h : WF t) (hok : OpOk (.move f p))
    (hs : Rfc.step (erase t) (.move f p) = some d') :
    ∃ t', applyOp t (toPOp (.move f p)) = (t', .ok) ∧ erase t' = d' := by
  simp only [Rfc.step] at hs
  split at hs
  · cases hs
  · rename_i hpp
    have hpp' : properPrefix f p = false := by rw [properPrefix_eq]; simpa using hpp
    split at hs
    · cases hs
    · rename_i w hw
      obtain ⟨n, hn1, hn2⟩ := find_of_getAt t f w h hok.idxFrom hw
      by_cases hf : f = []
      · -- from = "" and not a proper prefix: path = "" as well, nothing moves
        subst hf
        have hp : p = [] := by
          cases p with
          | nil => rfl
          | cons a r => simp [properPrefix] at hpp'
        subst hp
        simp only [beq_self_eq_true, ↓reduceIte, Option.some.injEq] at hs
        subst hs
        simp only [Rfc.getAt, Option.some.injEq] at hw
        exact ⟨n, by simp [applyOp, toPOp, OpK.beq_eq, hpp', hn1], by rw [hn2, hw]⟩
      · have hfb : (f == []) = false := by simpa using hf
        simp only [hfb, Bool.false_eq_true, ↓reduceIte, Option.bind_eq_some_iff] at hs
        obtain ⟨d1, hs1, hs2⟩ := hs
        by_cases hp : p = []
        · subst hp
          simp only [Rfc.add, List.getLast?_nil, Option.some.injEq] at hs2
          subst hs2
          exact ⟨n, by simp [applyOp, toPOp, OpK.beq_eq, hpp', hn1], hn2⟩
        · have hr := oproot_false p hp hok.noSlash
          obtain ⟨t1, vn, ps, g1, g2, g3⟩ := detach_of_removeAt t f d1 h hok.idxFrom hs1
          obtain ⟨ht1, hvn⟩ := wf_detach t f t1 vn ps h g1
          have hwv : w = erase vn := by rw [hw] at g3; exact Option.some.inj g3
          rw [← g2, hwv] at hs2
          obtain ⟨r1, r2⟩ := place_of_add t1 .move p vn d' ht1 (by decide) hp hok.idxPath hs2
          refine ⟨(place t1 .move p vn).1, ?_, r2⟩
          simp only [applyOp, toPOp, hr]
          simp [OpK.beq_eq, hpp', g1, ← r1]

end IwModel.Patch

namespace IwModel.Patch
open IwModel

def isTest : Rfc.Op → Bool
  | .test _ _ => true
  | _ => false

theorem toPOp_WFv (o : Rfc.Op) : (toPOp o).WFv := by
  intro v hv
  cases o <;> simp [toPOp] at hv <;> (subst hv; exact wf_ofJ _)

/-- one structural operation (add, remove, replace, move, copy): RFC success ⇒ same result in the model -/
theorem applyOp_of_step (t : Node) (o : Rfc.Op) (d' : JVal) (h : WF t) (hok : OpOk o) (hnt : isTest o = false)
    (hs : Rfc.step (erase t) o = some d') :
    ∃ t', applyOp t (toPOp o) = (t', .ok) ∧ erase t' = d' := by
  cases o with
  | add p v => exact applyOp_add t p v d' h hok hs
  | remove p => exact applyOp_remove t p d' h hok hs
  | replace p v => exact applyOp_replace t p v d' h hok hs
  | move f p => exact applyOp_move t f p d' h hok hs
  | copy f p => exact applyOp_copy t f p d' h hok hs
  | test p v => simp [isTest] at hnt

theorem runOps_of_run (t : Node) (ops : List Rfc.Op) (d' : JVal) (h : WF t)
    (hok : ∀ o ∈ ops, OpOk o ∧ isTest o = false) (hr : Rfc.run (erase t) ops = some d') :
    ∃ t', runOps t (ops.map toPOp) = (t', .ok) ∧ erase t' = d' ∧ WF t' := by
  induction ops generalizing t with
  | nil =>
    simp only [Rfc.run, Option.some.injEq] at hr
    exact ⟨t, rfl, hr, h⟩
  | cons o r ih =>
    simp only [Rfc.run, Option.bind_eq_some_iff] at hr
    obtain ⟨d1, hs, hr'⟩ := hr
    obtain ⟨hoo, hot⟩ := hok o (by simp)
    obtain ⟨t1, a1, a2⟩ := applyOp_of_step t o d1 h hoo hot hs
    have hw : WF t1 := by
      have := wf_applyOp t (toPOp o) h (toPOp_WFv o)
      rw [a1] at this; exact this
    obtain ⟨t', b1, b2, b3⟩ := ih t1 hw (fun o' ho' => hok o' (by simp [ho'])) (by rw [a2]; exact hr')
    refine ⟨t', ?_, b2, b3⟩
    simp only [List.map_cons, runOps, a1, b1]

def isContainer : JVal → Bool
  | .arr _ => true
  | .obj _ => true
  | _ => false

theorem finishBinary_ok (doc : JVal) (t : Node) (hc : isContainer (erase t) = true) :
    finishBinary doc (t, .ok) = (some (erase t), .ok) := by
  cases t <;> simp [finishBinary, erase, isContainer] at hc ⊢

/-- whatever the tree patch returned: if it is an error, the binary document is what it was -/
theorem finishBinary_err (doc : JVal) (r : Node × Err) (h : r.2 ≠ .ok) : finishBinary doc r = (some doc, r.2) := by
  obtain ⟨t, e⟩ := r
  cases e <;> first | exact absurd rfl h | (cases t <;> rfl)

theorem finishBinary_snd (doc : JVal) (r : Node × Err) : (finishBinary doc r).2 = r.2 := by
  obtain ⟨t, e⟩ := r
  cases e <;> cases t <;> rfl

end IwModel.Patch

namespace IwModel.Patch
open IwModel

theorem idxAcc_eq (s : Bytes) (acc k : Nat) (hk : s.length + k = 9) (ha : acc < 10 ^ k) :
    idxAcc s acc = if s.all Rfc.isDigit then some (Rfc.digitsVal s acc) else none := by
  induction s generalizing acc k with
  | nil => simp [idxAcc, Rfc.digitsVal]
  | cons c r ih =>
    simp only [List.length_cons] at hk
    have hk8 : k ≤ 8 := by omega
    have hp : 10 ^ k ≤ 10 ^ 8 := Nat.pow_le_pow_right (by decide) hk8
    have hacc : ¬ acc > 214748363 := by
      have : (10 : Nat) ^ 8 = 100000000 := by decide
      omega
    simp only [idxAcc, List.all_cons, Rfc.isDigit, Rfc.digitsVal]
    by_cases hc : c < 48 ∨ c > 57
    · have : (decide (48 ≤ c) && decide (c ≤ 57)) = false := by
        rcases hc with h | h <;> simp <;> omega
      have hcond : (c < 48 ∨ c > 57 ∨ acc > 214748363) := by omega
      simp only [hcond, ↓reduceIte, this, Bool.false_and, Bool.false_eq_true]
    · have hd : (decide (48 ≤ c) && decide (c ≤ 57)) = true := by simp; omega
      have hcond : ¬ (c < 48 ∨ c > 57 ∨ acc > 214748363) := by omega
      simp only [hcond, ↓reduceIte, hd, Bool.true_and]
      have hs : (10 : Nat) ^ (k + 1) = 10 ^ k * 10 := Nat.pow_succ 10 k
      exact ih (acc * 10 + (c - 48)) (k + 1) (by omega) (by omega)

/-- every token of at most nine bytes is read by `_jbl_ptr_array_index` exactly as RFC 6901's `array-index` -/
theorem idxAgree_small (seg : Bytes) (h : seg.length ≤ 9) : IdxAgree seg := by
  unfold IdxAgree
  match seg, h with
  | [], _ => rfl
  | [48], _ => rfl
  | 48 :: c :: r, _ => rfl
  | c :: r, h =>
    by_cases h48 : c = 48
    · subst h48
      cases r with
      | nil => rfl
      | cons d r' => rfl
    · have e1 : canonIdx (c :: r) = idxAcc (c :: r) 0 := by
        simp only [canonIdx]
        split <;> simp_all
      have e2 : Rfc.arrayIndex (c :: r) = if (c :: r).all Rfc.isDigit then some (Rfc.digitsVal (c :: r) 0) else none := by
        simp only [Rfc.arrayIndex]
        split <;> simp_all
      rw [e1, e2]
      exact idxAcc_eq (c :: r) 0 (9 - (c :: r).length) (by omega) (Nat.pow_pos (by decide))

end IwModel.Patch
