import IwModel.Model.KvBlk
import IwModel.Lemmas.Vnum
/-! Invariant of the data-block writer model (Model/KvBlk.lean) and its preservation by every operation.
Core Lean only. Statements for the property file are re-exported in Props/C06.lean. -/
namespace IwModel.KvBlk
open IwModel IwModel.FormatEnc

/-! ### `IW_VNUMSIZE` -/

theorem vn_cases (n : Nat) :
    (n < 128 ∧ vn n = 1) ∨ (128 ≤ n ∧ n < 16384 ∧ vn n = 2) ∨ (16384 ≤ n ∧ n < 2097152 ∧ vn n = 3) ∨
    (2097152 ≤ n ∧ n < 268435456 ∧ vn n = 4) ∨ (268435456 ≤ n ∧ n < 34359738368 ∧ vn n = 5) ∨
    (34359738368 ≤ n ∧ n < 4398046511104 ∧ vn n = 6) ∨ (4398046511104 ≤ n ∧ n < 562949953421312 ∧ vn n = 7) ∨
    (562949953421312 ≤ n ∧ n < 72057594037927936 ∧ vn n = 8) ∨
    (72057594037927936 ≤ n ∧ n < 9223372036854775808 ∧ vn n = 9) ∨ (9223372036854775808 ≤ n ∧ vn n = 10) := by
  simp only [vn, Vnum.size, Gen.vnumThresholds, Gen.vnumSizes, Vnum.sizeAux]
  repeat' split
  all_goals omega

theorem vn_mono {a b : Nat} (h : a ≤ b) : vn a ≤ vn b := by
  rcases vn_cases a with h1 | h1 | h1 | h1 | h1 | h1 | h1 | h1 | h1 | h1 <;>
  rcases vn_cases b with h2 | h2 | h2 | h2 | h2 | h2 | h2 | h2 | h2 | h2 <;> omega

theorem vn_pos (n : Nat) : 1 ≤ vn n := by
  simp only [vn, Vnum.size, Gen.vnumThresholds, Gen.vnumSizes, Vnum.sizeAux]
  repeat' split
  all_goals omega

theorem vn_le (n : Nat) : vn n ≤ 10 := by
  simp only [vn, Vnum.size, Gen.vnumThresholds, Gen.vnumSizes, Vnum.sizeAux]
  repeat' split
  all_goals omega

theorem vn_zero : vn 0 = 1 := by decide

theorem recSize_pos (k v : Bytes) : 0 < recSize k v := by
  have := vn_pos k.length
  simp only [recSize]; omega

/-! ### slot access -/

/-- slot `i` of the table; beyond the table: a free slot -/
abbrev sl (l : List Slot) (i : Nat) : Slot := l.getD i Slot.free

theorem sl_set_eq (l : List Slot) (r : Nat) (x : Slot) (h : r < l.length) : sl (l.set r x) r = x := by
  simp [sl, List.getD_eq_getElem?_getD, List.getElem?_set, h]

theorem sl_set_ne (l : List Slot) (r i : Nat) (x : Slot) (h : r ≠ i) : sl (l.set r x) i = sl l i := by
  simp [sl, List.getD_eq_getElem?_getD, List.getElem?_set, h]

theorem sl_ge (l : List Slot) (i : Nat) (h : l.length ≤ i) : sl l i = Slot.free := by
  simp [sl, List.getD_eq_getElem?_getD, List.getElem?_eq_none h]

theorem sl_cons_zero (s : Slot) (l : List Slot) : sl (s :: l) 0 = s := rfl
theorem sl_cons_succ (s : Slot) (l : List Slot) (i : Nat) : sl (s :: l) (i + 1) = sl l i := rfl

/-- a list is determined by its length and its slots -/
theorem ext_sl {l m : List Slot} (hl : l.length = m.length) (h : ∀ i, i < l.length → sl l i = sl m i) : l = m := by
  apply List.ext_getElem hl
  intro i h1 h2
  have := h i h1
  simpa [sl, List.getD_eq_getElem?_getD, List.getElem?_eq_getElem h1, List.getElem?_eq_getElem h2] using this

/-! ### list functionals -/

theorem idxBytes_set (l : List Slot) (r : Nat) (x : Slot) (h : r < l.length) :
    idxBytes (l.set r x) + (vn (sl l r).off + vn (sl l r).len) = idxBytes l + (vn x.off + vn x.len) := by
  induction l generalizing r with
  | nil => simp at h
  | cons s t ih =>
    cases r with
    | zero => simp only [List.set_cons_zero, idxBytes, sl_cons_zero]; omega
    | succ r =>
      have := ih r (by simpa using h)
      simp only [List.set_cons_succ, idxBytes, sl_cons_succ]; omega

theorem sumLen_set (l : List Slot) (r : Nat) (x : Slot) (h : r < l.length) :
    sumLen (l.set r x) + (sl l r).len = sumLen l + x.len := by
  induction l generalizing r with
  | nil => simp at h
  | cons s t ih =>
    cases r with
    | zero => simp only [List.set_cons_zero, sumLen, sl_cons_zero]; omega
    | succ r =>
      have := ih r (by simpa using h)
      simp only [List.set_cons_succ, sumLen, sl_cons_succ]; omega

theorem idxBytes_replicate_free (n : Nat) : idxBytes (List.replicate n Slot.free) = 2 * n := by
  induction n with
  | zero => rfl
  | succ n ih =>
    have e : vn Slot.free.off + vn Slot.free.len = 2 := by simp [Slot.free, vn_zero]
    simp only [List.replicate_succ, idxBytes, ih, e]; omega

theorem maxOff_ge (l : List Slot) (i : Nat) : (sl l i).off ≤ maxOff l := by
  induction l generalizing i with
  | nil => simp [sl, Slot.free]
  | cons s t ih =>
    cases i with
    | zero => simp only [sl_cons_zero, maxOff]; omega
    | succ i => have := ih i; simp only [sl_cons_succ, maxOff]; omega

theorem maxOff_attained (l : List Slot) : maxOff l = 0 ∨ ∃ i, i < l.length ∧ (sl l i).off = maxOff l := by
  induction l with
  | nil => left; rfl
  | cons s t ih =>
    by_cases h : maxOff t ≤ s.off
    · right; exact ⟨0, by simp, by simp only [sl_cons_zero, maxOff]; omega⟩
    · rcases ih with h0 | ⟨i, hi, e⟩
      · omega
      · right; exact ⟨i + 1, by simpa using hi, by simp only [sl_cons_succ, maxOff, e]; omega⟩

/-- characterisation of the maximum: an upper bound that is 0 or attained -/
theorem maxOff_eq (l : List Slot) (m : Nat) (hub : ∀ i, (sl l i).off ≤ m) (hat : m = 0 ∨ ∃ i, (sl l i).off = m) :
    maxOff l = m := by
  have h1 : maxOff l ≤ m := by
    rcases maxOff_attained l with h | ⟨i, _, e⟩
    · omega
    · rw [← e]; exact hub i
  rcases hat with h | ⟨i, e⟩
  · omega
  · have := maxOff_ge l i; omega

theorem firstFree_some (l : List Slot) (z : Nat) :
    firstFree l = some z ↔ z < l.length ∧ (sl l z).len = 0 ∧ ∀ j, j < z → (sl l j).len ≠ 0 := by
  induction l generalizing z with
  | nil => simp [firstFree]
  | cons s t ih =>
    simp only [firstFree, List.findIdx?_cons] at ih ⊢
    by_cases hs : s.len = 0
    · simp only [hs, decide_true, if_true, Option.some.injEq]
      constructor
      · intro e; subst e; exact ⟨by simp, by simp [sl_cons_zero, hs], by intro j hj; omega⟩
      · rintro ⟨_, _, h3⟩
        cases z with
        | zero => rfl
        | succ z => exact absurd (by simp [sl_cons_zero, hs]) (h3 0 (by omega))
    · simp only [hs, decide_false, Bool.false_eq_true, if_false, Option.map_eq_some_iff]
      constructor
      · rintro ⟨a, ha, rfl⟩
        obtain ⟨h1, h2, h3⟩ := (ih a).1 ha
        refine ⟨by simpa using h1, by simpa [sl_cons_succ] using h2, ?_⟩
        intro j hj
        cases j with
        | zero => simpa [sl_cons_zero] using hs
        | succ j => simpa [sl_cons_succ] using h3 j (by omega)
      · rintro ⟨h1, h2, h3⟩
        cases z with
        | zero => exact absurd (by simpa [sl_cons_zero] using h2) hs
        | succ z =>
          refine ⟨z, (ih z).2 ⟨by simpa using h1, by simpa [sl_cons_succ] using h2, ?_⟩, rfl⟩
          intro j hj
          simpa [sl_cons_succ] using h3 (j + 1) (by omega)

theorem firstFree_none (l : List Slot) : firstFree l = none ↔ ∀ i, i < l.length → (sl l i).len ≠ 0 := by
  induction l with
  | nil => simp [firstFree]
  | cons s t ih =>
    simp only [firstFree, List.findIdx?_cons] at ih ⊢
    by_cases hs : s.len = 0
    · simp only [hs, decide_true, if_true, reduceCtorEq, false_iff]
      intro h; exact h 0 (by simp) (by simp [sl_cons_zero, hs])
    · simp only [hs, decide_false, Bool.false_eq_true, if_false, Option.map_eq_none_iff, ih]
      constructor
      · intro h i hi
        cases i with
        | zero => simpa [sl_cons_zero] using hs
        | succ i => simpa [sl_cons_succ] using h i (by simpa using hi)
      · intro h i hi
        simpa [sl_cons_succ] using h (i + 1) (by simpa using hi)

theorem prevOff_ge (l : List Slot) (koff i : Nat) (h : (sl l i).off < koff) : (sl l i).off ≤ prevOff l koff := by
  induction l generalizing i with
  | nil => simp [sl, Slot.free]
  | cons s t ih =>
    cases i with
    | zero =>
      simp only [sl_cons_zero] at h ⊢
      simp only [prevOff, h, if_true]; omega
    | succ i =>
      have := ih i (by simpa [sl_cons_succ] using h)
      simp only [sl_cons_succ, prevOff]
      split <;> omega

/-! ### the invariant -/

/-- two records do not overlap, in offsets from the block end: one ends before the other starts -/
def Disj (a c : Slot) : Prop := a.off + c.len ≤ c.off ∨ c.off + a.len ≤ a.off

theorem Disj.symm {a c : Slot} (h : Disj a c) : Disj c a := Or.symm h

/-- the slot table alone: used slots have `0 < len ≤ off`, free slots are `(0, 0)`, used slots are pairwise
disjoint, and the length of a used slot is exactly the size of its record -/
structure Tab (l : List Slot) : Prop where
  lenoff : ∀ i, (sl l i).len ≤ (sl l i).off
  freeoff : ∀ i, (sl l i).len = 0 → (sl l i).off = 0
  disj : ∀ i j, i ≠ j → (sl l i).len ≠ 0 → (sl l j).len ≠ 0 → Disj (sl l i) (sl l j)
  fit : ∀ i, (sl l i).len ≠ 0 → (sl l i).len = recSize (sl l i).key (sl l i).val

/-- geometry of a block state: holds after every raw operation, synced or not -/
structure Geo (b : KvBlk) : Prop where
  n32 : b.slots.length = Gen.KVBLK_IDXNUM
  tab : Tab b.slots
  maxoff : b.maxoff = maxOff b.slots
  room : Gen.KVBLK_HDRSZ + idxBytes b.slots + b.maxoff ≤ 2 ^ b.szpow
  zidx : b.zidx = firstFree b.slots

/-- the invariant between operations: geometry, and the cached index size is not below the real one and still
leaves room for the data -/
structure BlkInv (b : KvBlk) : Prop extends Geo b where
  idxge : idxBytes b.slots ≤ b.idxsz
  room' : Gen.KVBLK_HDRSZ + b.idxsz + b.maxoff ≤ 2 ^ b.szpow

theorem Tab.set {l : List Slot} (h : Tab l) (r : Nat) (x : Slot)
    (h1 : x.len ≤ x.off) (h2 : x.len = 0 → x.off = 0) (h3 : x.len ≠ 0 → x.len = recSize x.key x.val)
    (h4 : ∀ j, j ≠ r → (sl l j).len ≠ 0 → x.len ≠ 0 → Disj x (sl l j)) : Tab (l.set r x) := by
  by_cases hr : r < l.length
  · have e := sl_set_eq l r x hr
    refine ⟨?_, ?_, ?_, ?_⟩
    · intro i
      by_cases hi : r = i
      · subst hi; rw [e]; exact h1
      · rw [sl_set_ne l r i x hi]; exact h.lenoff i
    · intro i
      by_cases hi : r = i
      · subst hi; rw [e]; exact h2
      · rw [sl_set_ne l r i x hi]; exact h.freeoff i
    · intro i j hij
      by_cases hi : r = i
      · subst hi
        rw [e, sl_set_ne l r j x hij]
        intro a c; exact h4 j (Ne.symm hij) c a
      · by_cases hj : r = j
        · subst hj
          rw [e, sl_set_ne l r i x hi]
          intro a c; exact (h4 i (Ne.symm hi) a c).symm
        · rw [sl_set_ne l r i x hi, sl_set_ne l r j x hj]; exact h.disj i j hij
    · intro i
      by_cases hi : r = i
      · subst hi; rw [e]; exact h3
      · rw [sl_set_ne l r i x hi]; exact h.fit i
  · rw [List.set_eq_of_length_le (by omega)]; exact h

theorem tab_replicate (n : Nat) : Tab (List.replicate n Slot.free) := by
  have e : ∀ i, sl (List.replicate n Slot.free) i = Slot.free := by
    intro i
    simp only [sl, List.getD_eq_getElem?_getD, List.getElem?_replicate]
    split <;> rfl
  refine ⟨?_, ?_, ?_, ?_⟩ <;> intros <;> simp_all [Slot.free]

/-! ### create, sync -/

theorem maxOff_replicate_free (n : Nat) : maxOff (List.replicate n Slot.free) = 0 := by
  induction n with
  | zero => rfl
  | succ n ih => simp only [List.replicate_succ, maxOff, ih]; rfl

theorem blkInv_create (p : Nat) (hp : Gen.KVBLK_HDRSZ + 2 * Gen.KVBLK_IDXNUM ≤ 2 ^ p) (h0 : 0 < Gen.KVBLK_IDXNUM) :
    BlkInv (create p) := by
  have hi : idxBytes (create p).slots = 2 * Gen.KVBLK_IDXNUM := idxBytes_replicate_free _
  have hm : maxOff (create p).slots = 0 := maxOff_replicate_free _
  refine { n32 := by simp [create], tab := tab_replicate _, maxoff := by rw [hm]; rfl, room := ?_, zidx := ?_, idxge := ?_, room' := ?_ }
  · rw [hi]; simp only [create]; omega
  · show some 0 = firstFree (create p).slots
    symm; rw [firstFree_some]
    refine ⟨by simpa [create] using h0, ?_, by intro j hj; omega⟩
    simp [create, sl, List.getD_eq_getElem?_getD, h0, Slot.free]
  · rw [hi]; simp only [create, vn_zero]; omega
  · simp only [create, vn_zero]; omega

theorem blkInv_sync {b : KvBlk} (h : Geo b) : BlkInv (sync b) :=
  { n32 := h.n32, tab := h.tab, maxoff := h.maxoff, room := h.room, zidx := h.zidx, idxge := Nat.le_refl _, room' := h.room }

theorem BlkInv.geo {b : KvBlk} (h : BlkInv b) : Geo b := h.toGeo

/-! ### sums over slot numbers -/

/-- sum of `g` over the slots numbered in `R` -/
def sumAt (l : List Slot) (g : Slot → Nat) (R : List Nat) : Nat := (R.map fun r => g (sl l r)).sum

theorem sumAt_nil (l : List Slot) (g : Slot → Nat) : sumAt l g [] = 0 := rfl
theorem sumAt_cons (l : List Slot) (g : Slot → Nat) (r : Nat) (R : List Nat) :
    sumAt l g (r :: R) = g (sl l r) + sumAt l g R := by simp [sumAt]

theorem sumAt_congr {l l' : List Slot} {g g' : Slot → Nat} {R : List Nat}
    (h : ∀ r ∈ R, g (sl l r) = g' (sl l' r)) : sumAt l g R = sumAt l' g' R := by
  induction R with
  | nil => rfl
  | cons r R ih =>
    rw [sumAt_cons, sumAt_cons, h r (by simp), ih (fun r hr => h r (by simp [hr]))]

theorem sumAt_perm {l : List Slot} {g : Slot → Nat} {R R' : List Nat} (h : R.Perm R') : sumAt l g R = sumAt l g R' :=
  (h.map _).sum_nat

theorem map_eq_range (l : List Slot) (g : Slot → Nat) : l.map g = (List.range l.length).map fun i => g (sl l i) := by
  apply List.ext_getElem (by simp)
  intro i h1 h2
  simp only [List.length_map] at h1
  simp [sl, List.getD_eq_getElem?_getD, List.getElem?_eq_getElem h1]

theorem sum_split (is : List Nat) (h : Nat → Nat) (c : Nat) (p : Nat → Bool) (hc : ∀ i ∈ is, p i = false → h i = c) :
    (is.map h).sum = ((is.filter p).map h).sum + c * (is.filter fun i => !p i).length := by
  induction is with
  | nil => simp
  | cons a t ih =>
    have := ih (fun i hi => hc i (by simp [hi]))
    by_cases hp : p a = true
    · simp only [List.map_cons, List.sum_cons, List.filter_cons, hp, if_true, Bool.not_true, Bool.false_eq_true, if_false]
      omega
    · have hp' : p a = false := by simpa using hp
      have := hc a (by simp) hp'
      simp only [List.map_cons, List.sum_cons, List.filter_cons, hp', Bool.false_eq_true, if_false, Bool.not_false, if_true,
        List.length_cons, Nat.mul_add]
      omega

theorem filter_length_compl (is : List Nat) (p : Nat → Bool) :
    (is.filter p).length + (is.filter fun i => !p i).length = is.length := by
  induction is with
  | nil => rfl
  | cons a t ih =>
    by_cases hp : p a = true
    · simp only [List.filter_cons, hp, if_true, Bool.not_true, Bool.false_eq_true, if_false, List.length_cons]; omega
    · have hp' : p a = false := by simpa using hp
      simp only [List.filter_cons, hp', Bool.false_eq_true, if_false, Bool.not_false, if_true, List.length_cons]; omega

/-- a sum over all slots = the sum over the slot numbers satisfying `p` + a constant for each of the others -/
theorem total_split (l : List Slot) (g : Slot → Nat) (c : Nat) (p : Nat → Bool)
    (hc : ∀ i, i < l.length → p i = false → g (sl l i) = c) :
    (l.map g).sum + c * ((List.range l.length).filter p).length =
      sumAt l g ((List.range l.length).filter p) + c * l.length := by
  rw [map_eq_range, sum_split (List.range l.length) (fun i => g (sl l i)) c p (fun i hi => hc i (List.mem_range.1 hi))]
  have := filter_length_compl (List.range l.length) p
  simp only [List.length_range] at this
  simp only [sumAt]
  have e : c * l.length = c * ((List.range l.length).filter p).length + c * ((List.range l.length).filter fun i => !p i).length := by
    rw [← Nat.mul_add, this]
  omega

theorem sumLen_eq (l : List Slot) : sumLen l = (l.map (·.len)).sum := by
  induction l with
  | nil => rfl
  | cons s t ih => simp [sumLen, ih]

theorem idxBytes_eq (l : List Slot) : idxBytes l = (l.map fun s => vn s.off + vn s.len).sum := by
  induction l with
  | nil => rfl
  | cons s t ih => simp [idxBytes, ih]

theorem map_congr_sl {l l' : List Slot} (g : Slot → Nat) (hl : l'.length = l.length) (h : ∀ i, g (sl l' i) = g (sl l i)) :
    l'.map g = l.map g := by
  rw [map_eq_range, map_eq_range l, hl]
  exact List.map_congr_left (fun i _ => h i)

theorem map_le_sl {l l' : List Slot} (g : Slot → Nat) (hl : l'.length = l.length) (h : ∀ i, g (sl l' i) ≤ g (sl l i)) :
    (l'.map g).sum ≤ (l.map g).sum := by
  rw [map_eq_range, map_eq_range l, hl]
  generalize List.range l.length = is
  induction is with
  | nil => simp
  | cons a t ih => simp only [List.map_cons, List.sum_cons]; have := h a; omega

/-! ### compaction -/

/-- loop invariant of `_kvblk_compact_mm`: `R` = slots still to be moved, `coff` = bytes placed so far -/
structure CInv (l : List Slot) (R : List Nat) (coff : Nat) : Prop where
  tab : Tab l
  nodup : R.Nodup
  inR : ∀ r ∈ R, r < l.length ∧ (sl l r).len ≠ 0
  sorted : R.Pairwise (fun i j => (sl l i).off ≤ (sl l j).off)
  done : ∀ i, (sl l i).len ≠ 0 → i ∉ R → (sl l i).off ≤ coff
  todo : ∀ r ∈ R, coff + (sl l r).len ≤ (sl l r).off
  att : coff = 0 ∨ ∃ i, i ∉ R ∧ (sl l i).off = coff

structure CRes (l : List Slot) (R : List Nat) (coff isz : Nat) (res : List Slot × Nat × Nat) : Prop where
  len : res.1.length = l.length
  tab : Tab res.1
  same : ∀ i, (sl res.1 i).len = (sl l i).len ∧ (sl res.1 i).key = (sl l i).key ∧ (sl res.1 i).val = (sl l i).val ∧
    (sl res.1 i).off ≤ (sl l i).off
  keep : ∀ i, i ∉ R → sl res.1 i = sl l i
  ub : ∀ i, (sl res.1 i).len ≠ 0 → (sl res.1 i).off ≤ res.2.1
  att : res.2.1 = 0 ∨ ∃ i, (sl res.1 i).off = res.2.1
  coff : res.2.1 = coff + sumAt l (·.len) R
  isz : res.2.2 = isz + sumAt res.1 (fun s => vn s.off + vn s.len) R

theorem compactGo_spec (l : List Slot) (R : List Nat) (coff isz : Nat) (h : CInv l R coff) :
    CRes l R coff isz (compactGo l R coff isz) := by
  induction R generalizing l coff isz with
  | nil =>
    simp only [compactGo]
    refine ⟨rfl, h.tab, fun i => ⟨rfl, rfl, rfl, Nat.le_refl _⟩, fun i _ => rfl, fun i hi => h.done i hi (by simp), ?_, by simp [sumAt_nil], by simp [sumAt_nil]⟩
    rcases h.att with e | ⟨i, _, e⟩
    · exact Or.inl e
    · exact Or.inr ⟨i, e⟩
  | cons r rs ih =>
    obtain ⟨hrl, hru⟩ := h.inR r (by simp)
    have htodo := h.todo r (by simp)
    have hnd := List.nodup_cons.1 h.nodup
    have hsorted := List.pairwise_cons.1 h.sorted
    -- the slot after the move
    let s' : Slot := if (sl l r).off > coff + (sl l r).len then { sl l r with off := coff + (sl l r).len } else sl l r
    have hs'off : s'.off = coff + (sl l r).len := by
      show (if (sl l r).off > coff + (sl l r).len then { sl l r with off := coff + (sl l r).len } else sl l r).off = _
      split
      · rfl
      · omega
    have hs'len : s'.len = (sl l r).len := by
      show (if (sl l r).off > coff + (sl l r).len then { sl l r with off := coff + (sl l r).len } else sl l r).len = _
      split <;> rfl
    have hs'key : s'.key = (sl l r).key := by
      show (if (sl l r).off > coff + (sl l r).len then { sl l r with off := coff + (sl l r).len } else sl l r).key = _
      split <;> rfl
    have hs'val : s'.val = (sl l r).val := by
      show (if (sl l r).off > coff + (sl l r).len then { sl l r with off := coff + (sl l r).len } else sl l r).val = _
      split <;> rfl
    have hstep : compactGo l (r :: rs) coff isz =
        compactGo (l.set r s') rs (coff + (sl l r).len) (isz + vn s'.off + vn (sl l r).len) := rfl
    have hr1 : sl (l.set r s') r = s' := sl_set_eq l r s' hrl
    have hne : ∀ i, i ≠ r → sl (l.set r s') i = sl l i := fun i hi => sl_set_ne l r i s' (Ne.symm hi)
    have hrs : ∀ j ∈ rs, j ≠ r := fun j hj e => hnd.1 (e ▸ hj)
    -- a slot still to be moved lies beyond the moved one
    have hbeyond : ∀ j ∈ rs, (sl l r).off + (sl l j).len ≤ (sl l j).off := by
      intro j hj
      have h1 := hsorted.1 j hj
      have hju := (h.inR j (by simp [hj])).2
      rcases h.tab.disj r j (Ne.symm (hrs j hj)) hru hju with d | d
      · exact d
      · omega
    have hinv : CInv (l.set r s') rs (coff + (sl l r).len) := by
      refine ⟨?_, hnd.2, ?_, ?_, ?_, ?_, ?_⟩
      · apply h.tab.set r s'
        · omega
        · intro e; omega
        · intro _; rw [hs'len, hs'key, hs'val]; exact h.tab.fit r hru
        · intro j hj hju _
          by_cases hjr : j ∈ rs
          · left; have := hbeyond j hjr; omega
          · right; have := h.done j hju (by simp [hj, hjr]); omega
      · intro j hj
        rw [hne j (hrs j hj), List.length_set]
        exact h.inR j (by simp [hj])
      · refine hsorted.2.imp_of_mem ?_
        intro a c ha hc hac
        rw [hne a (hrs a ha), hne c (hrs c hc)]; exact hac
      · intro i hi hir
        by_cases e : i = r
        · subst e; rw [hr1]; omega
        · rw [hne i e] at hi ⊢
          have := h.done i hi (by simp [e, hir]); omega
      · intro j hj
        rw [hne j (hrs j hj)]
        have := hbeyond j hj; omega
      · right; exact ⟨r, hnd.1, by rw [hr1, hs'off]⟩
    have res := ih (l.set r s') (coff + (sl l r).len) (isz + vn s'.off + vn (sl l r).len) hinv
    rw [hstep]
    refine ⟨by rw [res.len, List.length_set], res.tab, ?_, ?_, res.ub, res.att, ?_, ?_⟩
    · intro i
      obtain ⟨a1, a2, a3, a4⟩ := res.same i
      by_cases e : i = r
      · subst e; rw [hr1] at a1 a2 a3 a4
        exact ⟨by rw [a1, hs'len], by rw [a2, hs'key], by rw [a3, hs'val], by omega⟩
      · rw [hne i e] at a1 a2 a3 a4; exact ⟨a1, a2, a3, a4⟩
    · intro i hi
      have hi' : i ≠ r ∧ i ∉ rs := by simpa using hi
      rw [res.keep i hi'.2, hne i hi'.1]
    · rw [res.coff, sumAt_cons, sumAt_congr (l' := l) (g' := (·.len))]
      · omega
      · intro j hj; rw [hne j (hrs j hj)]
    · rw [res.isz, sumAt_cons, res.keep r hnd.1, hr1, hs'len]; omega

theorem map_eq_range' {β : Type} (l : List Slot) (g : Slot → β) : l.map g = (List.range l.length).map fun i => g (sl l i) := by
  apply List.ext_getElem (by simp)
  intro i h1 h2
  simp only [List.length_map] at h1
  simp [sl, List.getD_eq_getElem?_getD, List.getElem?_eq_getElem h1]

theorem map_congr_sl' {β : Type} {l l' : List Slot} (g : Slot → β) (hl : l'.length = l.length) (h : ∀ i, g (sl l' i) = g (sl l i)) :
    l'.map g = l.map g := by
  rw [map_eq_range', map_eq_range' l, hl]
  exact List.map_congr_left (fun i _ => h i)

theorem sortedUsed_perm (l : List Slot) :
    (sortedUsed l).Perm ((List.range l.length).filter fun i => decide ((sl l i).off ≠ 0)) :=
  List.mergeSort_perm _ _

theorem mem_sortedUsed (l : List Slot) (r : Nat) : r ∈ sortedUsed l ↔ r < l.length ∧ (sl l r).off ≠ 0 := by
  rw [(sortedUsed_perm l).mem_iff]; simp [List.mem_filter]

theorem cinv_init (l : List Slot) (h : Tab l) : CInv l (sortedUsed l) 0 := by
  refine ⟨h, ?_, ?_, ?_, ?_, ?_, Or.inl rfl⟩
  · rw [(sortedUsed_perm l).nodup_iff]
    exact List.Pairwise.filter _ List.nodup_range
  · intro r hr
    obtain ⟨h1, h2⟩ := (mem_sortedUsed l r).1 hr
    exact ⟨h1, fun e => h2 (h.freeoff r e)⟩
  · have := List.pairwise_mergeSort (le := fun i j => decide ((sl l i).off ≤ (sl l j).off))
      (by intro a b c; simp only [decide_eq_true_eq]; omega)
      (by intro a b; simp only [Bool.or_eq_true, decide_eq_true_eq]; omega)
      ((List.range l.length).filter fun i => decide ((sl l i).off ≠ 0))
    exact this.imp (by intro a b; simp)
  · intro i hi hn
    exfalso; apply hn
    rw [mem_sortedUsed]
    have := h.lenoff i
    refine ⟨?_, by omega⟩
    apply Classical.byContradiction; intro hge
    rw [sl_ge l i (by omega)] at hi
    exact hi rfl
  · intro r _; have := h.lenoff r; omega

/-- what `_kvblk_compact_mm` achieves when it has work to do -/
theorem compactGo_init (l : List Slot) (h : Tab l) :
    CRes l (sortedUsed l) 0 0 (compactGo l (sortedUsed l) 0 0) := compactGo_spec l _ 0 0 (cinv_init l h)

theorem compact_slots_same (b : KvBlk) (h : Tab b.slots) :
    (compact b).slots.length = b.slots.length ∧ (compact b).szpow = b.szpow ∧
    ∀ i, (sl (compact b).slots i).len = (sl b.slots i).len ∧ (sl (compact b).slots i).key = (sl b.slots i).key ∧
      (sl (compact b).slots i).val = (sl b.slots i).val ∧ (sl (compact b).slots i).off ≤ (sl b.slots i).off := by
  simp only [compact]
  split
  · exact ⟨rfl, rfl, fun i => ⟨rfl, rfl, rfl, Nat.le_refl _⟩⟩
  · exact ⟨(compactGo_init b.slots h).len, rfl, (compactGo_init b.slots h).same⟩

theorem sumLen_congr {l l' : List Slot} (hl : l'.length = l.length) (h : ∀ i, (sl l' i).len = (sl l i).len) :
    sumLen l' = sumLen l := by
  rw [sumLen_eq, sumLen_eq, map_congr_sl (·.len) hl h]

theorem idxBytes_le {l l' : List Slot} (hl : l'.length = l.length)
    (h : ∀ i, (sl l' i).len = (sl l i).len ∧ (sl l' i).off ≤ (sl l i).off) : idxBytes l' ≤ idxBytes l := by
  rw [idxBytes_eq, idxBytes_eq]
  apply map_le_sl _ hl
  intro i
  have := vn_mono (h i).2
  rw [(h i).1]; omega

theorem compactGo_sum (l : List Slot) (h : Tab l) : (compactGo l (sortedUsed l) 0 0).2.1 = sumLen l := by
  have res := compactGo_init l h
  rw [res.coff, sumAt_perm (sortedUsed_perm l), sumLen_eq]
  have := total_split l (·.len) 0 (fun i => decide ((sl l i).off ≠ 0)) (by
    intro i _ hp
    have := h.lenoff i
    simp only [ne_eq, decide_not, Bool.not_eq_eq_eq_not, Bool.not_false, decide_eq_true_eq] at hp
    omega)
  omega

theorem compactGo_idx (l : List Slot) (h : Tab l) :
    (compactGo l (sortedUsed l) 0 0).2.2 + (l.length - (sortedUsed l).length) * 2 = idxBytes (compactGo l (sortedUsed l) 0 0).1 := by
  have res := compactGo_init l h
  rw [res.isz, sumAt_perm (sortedUsed_perm l), idxBytes_eq]
  have := total_split (compactGo l (sortedUsed l) 0 0).1 (fun s => vn s.off + vn s.len) 2 (fun i => decide ((sl l i).off ≠ 0)) (by
    intro i _ hp
    have h1 := h.lenoff i
    obtain ⟨a1, _, _, a4⟩ := res.same i
    simp only [ne_eq, decide_not, Bool.not_eq_eq_eq_not, Bool.not_false, decide_eq_true_eq] at hp
    have e1 : (sl (compactGo l (sortedUsed l) 0 0).1 i).off = 0 := by omega
    have e2 : (sl (compactGo l (sortedUsed l) 0 0).1 i).len = 0 := by omega
    show vn (sl (compactGo l (sortedUsed l) 0 0).1 i).off + vn (sl (compactGo l (sortedUsed l) 0 0).1 i).len = 2
    rw [e1, e2, vn_zero])
  rw [res.len] at this
  have hl := (sortedUsed_perm l).length_eq
  have hle : ((List.range l.length).filter fun i => decide ((sl l i).off ≠ 0)).length ≤ l.length := by
    have := List.length_filter_le (fun i => decide ((sl l i).off ≠ 0)) (List.range l.length)
    simpa using this
  omega

theorem blkInv_compact_go {b : KvBlk} (h : Geo b) (hne : compactedOffset b ≠ b.maxoff) : BlkInv (compact b) := by
  have res := compactGo_init b.slots h.tab
  have hidx := compactGo_idx b.slots h.tab
  rw [h.n32] at hidx
  have hroom := h.room
  have hmo := h.maxoff
  have hfree := h.tab.freeoff
  have hn32 := h.n32
  simp only [compact, hne, if_false]
  generalize compactGo b.slots (sortedUsed b.slots) 0 0 = r at res hidx ⊢
  have hub : ∀ i, (sl r.1 i).off ≤ r.2.1 := by
    intro i
    by_cases hz : (sl r.1 i).len = 0
    · obtain ⟨a1, _, _, a4⟩ := res.same i
      have := hfree i (by omega)
      omega
    · exact res.ub i hz
  have hmax : r.2.1 = maxOff r.1 := (maxOff_eq _ _ hub res.att).symm
  have hcle : r.2.1 ≤ b.maxoff := by
    rcases res.att with e0 | ⟨i, ei⟩
    · omega
    · have := (res.same i).2.2.2
      have := maxOff_ge b.slots i
      omega
  have hile := idxBytes_le res.len (fun i => ⟨(res.same i).1, (res.same i).2.2.2⟩)
  refine { n32 := ?_, tab := res.tab, maxoff := hmax, zidx := rfl, room := ?_, idxge := ?_, room' := ?_ }
  · show r.1.length = _; rw [res.len, hn32]
  · show Gen.KVBLK_HDRSZ + idxBytes r.1 + r.2.1 ≤ 2 ^ b.szpow; omega
  · show idxBytes r.1 ≤ r.2.2 + (Gen.KVBLK_IDXNUM - (sortedUsed b.slots).length) * 2; omega
  · show Gen.KVBLK_HDRSZ + (r.2.2 + (Gen.KVBLK_IDXNUM - (sortedUsed b.slots).length) * 2) + r.2.1 ≤ 2 ^ b.szpow; omega

/-- `_kvblk_compact_mm` preserves the invariant -/
theorem blkInv_compact {b : KvBlk} (h : BlkInv b) : BlkInv (compact b) := by
  by_cases hc : compactedOffset b = b.maxoff
  · have : compact b = b := by simp only [compact, hc, if_true]
    rw [this]; exact h
  · exact blkInv_compact_go h.toGeo hc

/-- after compaction the data area is exactly as long as the records: `_kvblk_compacted_offset(kb) == kb->maxoff` -/
theorem compact_compacted {b : KvBlk} (h : Geo b) : compactedOffset (compact b) = (compact b).maxoff := by
  by_cases hc : compactedOffset b = b.maxoff
  · have : compact b = b := by simp only [compact, hc, if_true]
    rw [this]; exact hc
  · have res := compactGo_init b.slots h.tab
    have hs := compactGo_sum b.slots h.tab
    have e1 : (compact b).maxoff = (compactGo b.slots (sortedUsed b.slots) 0 0).2.1 := by simp only [compact, hc, if_false]
    have e2 : (compact b).slots = (compactGo b.slots (sortedUsed b.slots) 0 0).1 := by simp only [compact, hc, if_false]
    simp only [compactedOffset]
    rw [e1, e2, hs]
    exact sumLen_congr res.len (fun i => (res.same i).1)

/-! ### `_kvblk_addkv` -/

/-- the tail of `_kvblk_addkv`: a record placed in a free slot beyond `maxoff` when there is room for it -/
theorem geo_place {b : KvBlk} (h : Geo b) (z : Nat) (hz : z < b.slots.length) (hfree : (sl b.slots z).len = 0)
    (key val : Bytes)
    (hroom : Gen.KVBLK_HDRSZ + idxBytes b.slots + b.maxoff + rsz b (recSize key val) ≤ 2 ^ b.szpow) :
    Geo (place b z key val (recSize key val)) := by
  have hpos := recSize_pos key val
  have hmo := h.maxoff
  have e := sl_set_eq b.slots z ⟨b.maxoff + recSize key val, recSize key val, key, val⟩ hz
  have hne : ∀ i, i ≠ z → sl (b.slots.set z ⟨b.maxoff + recSize key val, recSize key val, key, val⟩) i = sl b.slots i :=
    fun i hi => sl_set_ne _ z i _ (Ne.symm hi)
  refine { n32 := ?_, tab := ?_, maxoff := ?_, room := ?_, zidx := rfl }
  · show (b.slots.set z _).length = _; rw [List.length_set, h.n32]
  · apply h.tab.set z
    · show recSize key val ≤ b.maxoff + recSize key val; omega
    · intro e0; exact absurd e0 (by show recSize key val ≠ 0; omega)
    · intro _; rfl
    · intro j _ _ _
      right
      have := maxOff_ge b.slots j
      show (sl b.slots j).off + recSize key val ≤ b.maxoff + recSize key val; omega
  · show b.maxoff + recSize key val = maxOff (b.slots.set z _)
    symm; apply maxOff_eq
    · intro i
      by_cases hi : i = z
      · subst hi; rw [e]; exact Nat.le_refl _
      · rw [hne i hi]; have := maxOff_ge b.slots i; omega
    · right; exact ⟨z, by rw [e]⟩
  · have hs := idxBytes_set b.slots z ⟨b.maxoff + recSize key val, recSize key val, key, val⟩ hz
    have hoff := h.tab.freeoff z hfree
    rw [hoff, hfree, vn_zero] at hs
    dsimp only at hs
    simp only [rsz] at hroom
    show Gen.KVBLK_HDRSZ + idxBytes (b.slots.set z _) + (b.maxoff + recSize key val) ≤ 2 ^ b.szpow
    omega

theorem growPow_spec (fuel p nsz : Nat) (h : nsz ≤ 2 ^ (p + fuel)) : nsz ≤ 2 ^ growPow fuel p nsz := by
  induction fuel generalizing p with
  | zero => simpa [growPow] using h
  | succ f ih =>
    simp only [growPow]
    split
    · exact ih (p + 1) (by rw [Nat.add_assoc, Nat.add_comm 1 f]; exact h)
    · omega

theorem grow_spec (b : KvBlk) (psz : Nat) (hroom : Gen.KVBLK_HDRSZ + b.idxsz + b.maxoff ≤ 2 ^ b.szpow) (hlt : msz b < rsz b psz) :
    Gen.KVBLK_HDRSZ + b.idxsz + b.maxoff + rsz b psz ≤ 2 ^ (grow b psz).szpow := by
  have hfuel : rsz b psz - msz b + 2 ^ b.szpow ≤ 2 ^ (b.szpow + 1 + (rsz b psz - msz b + 2 ^ b.szpow)) := by
    have h1 : (rsz b psz - msz b + 2 ^ b.szpow) < 2 ^ (rsz b psz - msz b + 2 ^ b.szpow) := Nat.lt_two_pow_self
    have h2 : 2 ^ (rsz b psz - msz b + 2 ^ b.szpow) ≤ 2 ^ (b.szpow + 1 + (rsz b psz - msz b + 2 ^ b.szpow)) :=
      Nat.pow_le_pow_right (by decide) (by omega)
    omega
  have := growPow_spec _ _ _ hfuel
  simp only [grow]
  simp only [msz] at hlt this ⊢
  omega

theorem blkInv_grow {b : KvBlk} (h : BlkInv b) (psz : Nat) (hlt : msz b < rsz b psz) : BlkInv (grow b psz) := by
  have := grow_spec b psz h.room' hlt
  have h1 := h.idxge
  exact { n32 := h.n32, tab := h.tab, maxoff := h.maxoff, zidx := h.zidx, idxge := h.idxge,
          room := by show Gen.KVBLK_HDRSZ + idxBytes b.slots + b.maxoff ≤ 2 ^ (grow b psz).szpow; omega
          room' := by show Gen.KVBLK_HDRSZ + b.idxsz + b.maxoff ≤ 2 ^ (grow b psz).szpow; omega }

/-- same records in the same slots (offsets may differ) -/
def SameRecs (c b : KvBlk) : Prop :=
  c.slots.length = b.slots.length ∧
  ∀ i, (sl c.slots i).len = (sl b.slots i).len ∧ (sl c.slots i).key = (sl b.slots i).key ∧ (sl c.slots i).val = (sl b.slots i).val

theorem SameRecs.refl (b : KvBlk) : SameRecs b b := ⟨rfl, fun _ => ⟨rfl, rfl, rfl⟩⟩

theorem sameRecs_compact (b : KvBlk) (h : Tab b.slots) : SameRecs (compact b) b :=
  ⟨(compact_slots_same b h).1, fun i => ⟨((compact_slots_same b h).2.2 i).1, ((compact_slots_same b h).2.2 i).2.1, ((compact_slots_same b h).2.2 i).2.2.1⟩⟩

theorem sameRecs_grow (c b : KvBlk) (psz : Nat) (h : SameRecs c b) : SameRecs (grow c psz) b := h

/-- the state `_kvblk_addkv` places the record into: invariant holds and there is room for `psz` -/
theorem addkv_prepared {b : KvBlk} (h : BlkInv b) (psz : Nat) :
    let b1 := if ¬ msz b < rsz b psz then b
      else if compactedOffset b ≠ b.maxoff then
        (if ¬ msz (compact b) < rsz (compact b) psz then compact b else grow (compact b) psz)
      else grow b psz
    BlkInv b1 ∧ Gen.KVBLK_HDRSZ + b1.idxsz + b1.maxoff + rsz b1 psz ≤ 2 ^ b1.szpow ∧ SameRecs b1 b := by
  intro b1
  have fits : ∀ c : KvBlk, BlkInv c → ¬ msz c < rsz c psz → Gen.KVBLK_HDRSZ + c.idxsz + c.maxoff + rsz c psz ≤ 2 ^ c.szpow := by
    intro c hc hf
    have := hc.room'
    simp only [msz] at hf; omega
  have grows : ∀ c : KvBlk, BlkInv c → msz c < rsz c psz →
      BlkInv (grow c psz) ∧ Gen.KVBLK_HDRSZ + (grow c psz).idxsz + (grow c psz).maxoff + rsz (grow c psz) psz ≤ 2 ^ (grow c psz).szpow :=
    fun c hc hl => ⟨blkInv_grow hc psz hl, grow_spec c psz hc.room' hl⟩
  have hsc := sameRecs_compact b h.tab
  show BlkInv b1 ∧ _
  by_cases h1 : msz b < rsz b psz
  · by_cases h2 : compactedOffset b ≠ b.maxoff
    · by_cases h3 : msz (compact b) < rsz (compact b) psz
      · have e : b1 = grow (compact b) psz := by simp only [b1, h1, h2, h3, not_true_eq_false, if_false, if_true, ne_eq, not_false_eq_true]
        rw [e]; exact ⟨(grows _ (blkInv_compact h) h3).1, (grows _ (blkInv_compact h) h3).2, hsc⟩
      · have e : b1 = compact b := by simp only [b1, h1, h2, h3, not_true_eq_false, if_false, if_true, ne_eq, not_false_eq_true]
        rw [e]; exact ⟨blkInv_compact h, fits _ (blkInv_compact h) h3, hsc⟩
    · have e : b1 = grow b psz := by simp only [b1, h1, h2, not_true_eq_false, if_false]
      rw [e]; exact ⟨(grows _ h h1).1, (grows _ h h1).2, SameRecs.refl b⟩
  · have e : b1 = b := by simp only [b1, h1, not_false_eq_true, if_true]
    rw [e]; exact ⟨h, fits _ h h1, SameRecs.refl b⟩

/-- `_kvblk_addkv` preserves the geometry, whatever branch it takes (fits / compaction / growth); the new record
sits in the returned slot, at the top of the data area, and all other slots keep their records -/
theorem geo_addkv {b : KvBlk} (h : BlkInv b) (key val : Bytes) (b' : KvBlk) (idx : Nat)
    (e : addkv b key val = .ok b' idx) :
    Geo b' ∧ idx < b.slots.length ∧ (sl b.slots idx).len = 0 ∧ b'.slots.length = b.slots.length ∧
    sl b'.slots idx = ⟨b'.maxoff, recSize key val, key, val⟩ ∧
    ∀ i, i ≠ idx → (sl b'.slots i).len = (sl b.slots i).len ∧ (sl b'.slots i).key = (sl b.slots i).key ∧
      (sl b'.slots i).val = (sl b.slots i).val := by
  simp only [addkv] at e
  split at e
  · exact absurd e (by simp)
  · rename_i z hz
    split at e
    · exact absurd e (by simp)
    · obtain ⟨hb1, hroom, hsame⟩ := addkv_prepared h (recSize key val)
      simp only [AddRes.ok.injEq] at e
      generalize (if ¬ msz b < rsz b (recSize key val) then b
        else if compactedOffset b ≠ b.maxoff then
          (if ¬ msz (compact b) < rsz (compact b) (recSize key val) then compact b else grow (compact b) (recSize key val))
        else grow b (recSize key val)) = b1 at e hb1 hroom hsame
      obtain ⟨e1, e2⟩ := e
      -- the block still has a free slot: growth keeps the table, compaction keeps the lengths
      have hzfree : z < b.slots.length ∧ (sl b.slots z).len = 0 := by
        have := (firstFree_some b.slots z).1 (by rw [← h.zidx, hz])
        exact ⟨this.1, this.2.1⟩
      have hsome : ∃ z1, b1.zidx = some z1 := by
        cases hq : b1.zidx with
        | some z1 => exact ⟨z1, rfl⟩
        | none =>
          exfalso
          have := (firstFree_none b1.slots).1 (by rw [← hb1.zidx, hq]) z (by rw [hsame.1]; exact hzfree.1)
          rw [(hsame.2 z).1] at this
          exact this hzfree.2
      obtain ⟨z1, hz1⟩ := hsome
      rw [hz1] at e1 e2
      simp only [Option.getD_some] at e1 e2
      subst e2
      have hz1free := (firstFree_some b1.slots z1).1 (by rw [← hb1.zidx, hz1])
      have hi := hb1.idxge
      have hg := geo_place hb1.toGeo z1 hz1free.1 hz1free.2.1 key val (by omega)
      rw [e1] at hg
      subst e1
      refine ⟨hg, by rw [← hsame.1]; exact hz1free.1, by rw [← (hsame.2 z1).1]; exact hz1free.2.1, ?_, ?_, ?_⟩
      · show (b1.slots.set z1 _).length = _; rw [List.length_set, hsame.1]
      · exact sl_set_eq _ _ _ hz1free.1
      · intro i hi
        have e3 : sl (place b1 z1 key val (recSize key val)).slots i = sl b1.slots i := sl_set_ne _ z1 i _ (Ne.symm hi)
        rw [e3]
        exact hsame.2 i

/-! ### `_kvblk_rmkv` -/

theorem maxOff_congr {l l' : List Slot} (h : ∀ i, (sl l' i).off = (sl l i).off) : maxOff l' = maxOff l := by
  apply maxOff_eq
  · intro i; rw [h i]; exact maxOff_ge l i
  · rcases maxOff_attained l with e | ⟨i, _, e⟩
    · exact Or.inl e
    · exact Or.inr ⟨i, by rw [h i, e]⟩

theorem firstFree_congr {l l' : List Slot} (hl : l'.length = l.length) (h : ∀ i, (sl l' i).len = 0 ↔ (sl l i).len = 0) :
    firstFree l' = firstFree l := by
  cases hq : firstFree l with
  | none =>
    rw [firstFree_none] at hq ⊢
    intro i hi hz
    exact hq i (by omega) ((h i).1 hz)
  | some z =>
    rw [firstFree_some] at hq ⊢
    exact ⟨by omega, (h z).2 hq.2.1, fun j hj hz => hq.2.2 j hj ((h j).1 hz)⟩

/-- the state after `pidx[idx]` was cleared and `maxoff`, `zidx` adjusted -/
def cleared (b : KvBlk) (idx : Nat) : KvBlk :=
  { b with slots := b.slots.set idx Slot.free,
           maxoff := if (b.slots.getD idx Slot.free).off ≥ b.maxoff then maxOff (b.slots.set idx Slot.free) else b.maxoff,
           zidx := match b.zidx with
             | none => some idx
             | some z => if idx < z then some idx else some z }

theorem cleared_sl (b : KvBlk) (idx : Nat) (hidx : idx < b.slots.length) :
    sl (cleared b idx).slots idx = Slot.free ∧ ∀ i, i ≠ idx → sl (cleared b idx).slots i = sl b.slots i :=
  ⟨sl_set_eq _ _ _ hidx, fun i hi => sl_set_ne _ idx i _ (Ne.symm hi)⟩

theorem blkInv_cleared {b : KvBlk} (h : BlkInv b) (idx : Nat) (hidx : idx < b.slots.length) : BlkInv (cleared b idx) := by
  obtain ⟨e0, ene⟩ := cleared_sl b idx hidx
  have hmo := h.maxoff
  have hoff : ∀ i, (sl (cleared b idx).slots i).off ≤ (sl b.slots i).off := by
    intro i
    by_cases hi : i = idx
    · subst hi; rw [e0]; exact Nat.zero_le _
    · rw [ene i hi]; exact Nat.le_refl _
  have hmle : maxOff (cleared b idx).slots ≤ maxOff b.slots := by
    rcases maxOff_attained (cleared b idx).slots with e | ⟨i, _, e⟩
    · omega
    · have := hoff i; have := maxOff_ge b.slots i; omega
  have hmax : (cleared b idx).maxoff = maxOff (cleared b idx).slots := by
    show (if (sl b.slots idx).off ≥ b.maxoff then maxOff (b.slots.set idx Slot.free) else b.maxoff) = maxOff (b.slots.set idx Slot.free)
    split
    · rfl
    · rename_i hlt
      symm; apply maxOff_eq
      · intro i; have := hoff i; have := maxOff_ge b.slots i
        show (sl (cleared b idx).slots i).off ≤ b.maxoff; omega
      · rcases maxOff_attained b.slots with e | ⟨i, _, e⟩
        · left; omega
        · right
          have hi : i ≠ idx := by intro hi; subst hi; omega
          exact ⟨i, by show (sl (cleared b idx).slots i).off = b.maxoff; rw [ene i hi]; omega⟩
  have hmaxle : (cleared b idx).maxoff ≤ b.maxoff := by rw [hmax]; omega
  have hidxle : idxBytes (cleared b idx).slots ≤ idxBytes b.slots := by
    have := idxBytes_set b.slots idx Slot.free hidx
    have := vn_pos (sl b.slots idx).off
    have := vn_pos (sl b.slots idx).len
    have e : vn Slot.free.off + vn Slot.free.len = 2 := by simp [Slot.free, vn_zero]
    show idxBytes (b.slots.set idx Slot.free) ≤ _
    omega
  have hr := h.room'
  have hi := h.idxge
  refine { n32 := ?_, tab := ?_, maxoff := hmax, room := ?_, zidx := ?_, idxge := ?_, room' := ?_ }
  · show (b.slots.set idx Slot.free).length = _; rw [List.length_set, h.n32]
  · apply h.tab.set idx Slot.free (Nat.le_refl _) (fun _ => rfl) (fun hne => absurd rfl hne)
    intro j _ _ hne; exact absurd rfl hne
  · show Gen.KVBLK_HDRSZ + idxBytes (cleared b idx).slots + (cleared b idx).maxoff ≤ 2 ^ b.szpow; omega
  · have hz := h.zidx
    have hlen : (cleared b idx).slots.length = b.slots.length := List.length_set
    show (match b.zidx with
      | none => some idx
      | some z => if idx < z then some idx else some z) = firstFree (cleared b idx).slots
    symm
    cases hq : b.zidx with
    | none =>
      rw [hq] at hz
      have hall := (firstFree_none b.slots).1 hz.symm
      rw [firstFree_some]
      refine ⟨by omega, by rw [e0]; rfl, ?_⟩
      intro j hj; rw [ene j (by omega)]; exact hall j (by omega)
    | some z =>
      rw [hq] at hz
      obtain ⟨z1, z2, z3⟩ := (firstFree_some b.slots z).1 hz.symm
      show firstFree (cleared b idx).slots = if idx < z then some idx else some z
      split
      · rw [firstFree_some]
        refine ⟨by omega, by rw [e0]; rfl, ?_⟩
        intro j hj; rw [ene j (by omega)]; exact z3 j (by omega)
      · rw [firstFree_some]
        refine ⟨by omega, ?_, ?_⟩
        · by_cases hzi : z = idx
          · rw [hzi, e0]; rfl
          · rw [ene z hzi]; exact z2
        · intro j hj; rw [ene j (by omega)]; exact z3 j hj
  · show idxBytes (cleared b idx).slots ≤ b.idxsz; omega
  · show Gen.KVBLK_HDRSZ + b.idxsz + (cleared b idx).maxoff ≤ 2 ^ b.szpow; omega

theorem shrinkPow_spec (n dsz : Nat) (h : dsz ≤ 2 ^ n) : dsz ≤ 2 ^ shrinkPow n dsz := by
  induction n with
  | zero => simpa [shrinkPow] using h
  | succ n ih =>
    simp only [shrinkPow]
    split
    · rename_i hc; exact ih hc.2
    · exact h

theorem rmkv_eq (b : KvBlk) (idx : Nat) (nr : Bool) :
    rmkv b idx nr =
      if !nr ∧ b.szpow > Gen.KVBLK_INISZPOW then
        if 2 ^ b.szpow ≥ 2 * compactedDsize (cleared b idx) then
          sync { compact (cleared b idx) with szpow := shrinkPow (b.szpow - 1) (compactedDsize (cleared b idx)) }
        else cleared b idx
      else cleared b idx := rfl

/-- `_kvblk_rmkv` preserves the invariant, with or without the shrink -/
theorem blkInv_rmkv {b : KvBlk} (h : BlkInv b) (idx : Nat) (hidx : idx < b.slots.length) (nr : Bool) :
    BlkInv (rmkv b idx nr) := by
  have hc := blkInv_cleared h idx hidx
  rw [rmkv_eq]
  split
  · rename_i hcond
    split
    · rename_i hbig
      apply blkInv_sync
      have hcc := blkInv_compact hc
      have hcomp := compact_compacted hc.toGeo
      have hsame := compact_slots_same (cleared b idx) hc.tab
      have hsum : sumLen (compact (cleared b idx)).slots = sumLen (cleared b idx).slots :=
        sumLen_congr hsame.1 (fun i => (hsame.2.2 i).1)
      have hidxle : idxBytes (compact (cleared b idx)).slots ≤ idxBytes (cleared b idx).slots :=
        idxBytes_le hsame.1 (fun i => ⟨(hsame.2.2 i).1, (hsame.2.2 i).2.2.2⟩)
      have hpow : 2 ^ b.szpow = 2 * 2 ^ (b.szpow - 1) := by
        have : b.szpow = (b.szpow - 1) + 1 := by omega
        rw [this, Nat.pow_succ]; simp; omega
      have hsp := shrinkPow_spec (b.szpow - 1) (compactedDsize (cleared b idx)) (by omega)
      simp only [compactedOffset] at hcomp
      simp only [compactedDsize] at hsp
      exact { n32 := hcc.n32, tab := hcc.tab, maxoff := hcc.maxoff, zidx := hcc.zidx
              room := by
                show Gen.KVBLK_HDRSZ + idxBytes (compact (cleared b idx)).slots + (compact (cleared b idx)).maxoff ≤
                  2 ^ shrinkPow (b.szpow - 1) (compactedDsize (cleared b idx))
                simp only [compactedDsize]
                omega }
    · exact hc
  · exact hc

/-- what `_kvblk_rmkv` does to the records: slot `idx` becomes free, all others keep their record -/
theorem rmkv_recs {b : KvBlk} (h : BlkInv b) (idx : Nat) (hidx : idx < b.slots.length) (nr : Bool) :
    (rmkv b idx nr).slots.length = b.slots.length ∧ (sl (rmkv b idx nr).slots idx).len = 0 ∧
    ∀ i, i ≠ idx → (sl (rmkv b idx nr).slots i).len = (sl b.slots i).len ∧ (sl (rmkv b idx nr).slots i).key = (sl b.slots i).key ∧
      (sl (rmkv b idx nr).slots i).val = (sl b.slots i).val := by
  have hc := blkInv_cleared h idx hidx
  obtain ⟨e0, ene⟩ := cleared_sl b idx hidx
  have hlen : (cleared b idx).slots.length = b.slots.length := List.length_set
  have base : (cleared b idx).slots.length = b.slots.length ∧ (sl (cleared b idx).slots idx).len = 0 ∧
      ∀ i, i ≠ idx → (sl (cleared b idx).slots i).len = (sl b.slots i).len ∧ (sl (cleared b idx).slots i).key = (sl b.slots i).key ∧
        (sl (cleared b idx).slots i).val = (sl b.slots i).val :=
    ⟨hlen, by rw [e0]; rfl, fun i hi => by rw [ene i hi]; exact ⟨rfl, rfl, rfl⟩⟩
  rw [rmkv_eq]
  split
  · split
    · have hsame := compact_slots_same (cleared b idx) hc.tab
      refine ⟨?_, ?_, ?_⟩
      · show (compact (cleared b idx)).slots.length = _; rw [hsame.1, hlen]
      · show (sl (compact (cleared b idx)).slots idx).len = 0; rw [(hsame.2.2 idx).1, e0]; rfl
      · intro i hi
        show (sl (compact (cleared b idx)).slots i).len = _ ∧ (sl (compact (cleared b idx)).slots i).key = _ ∧
          (sl (compact (cleared b idx)).slots i).val = _
        rw [(hsame.2.2 i).1, (hsame.2.2 i).2.1, (hsame.2.2 i).2.2.1, ene i hi]; exact ⟨rfl, rfl, rfl⟩
    · exact base
  · exact base

/-! ### `_kvblk_updatev` -/

/-- the in-place branches of `_kvblk_updatev`: slot `idx` keeps its offset and key, gets a new length and value -/
def newSlot (b : KvBlk) (idx : Nat) (val : Bytes) : Slot :=
  ⟨(sl b.slots idx).off, recSize (sl b.slots idx).key val, (sl b.slots idx).key, val⟩

def inplace (b : KvBlk) (idx : Nat) (val : Bytes) : KvBlk :=
  { b with slots := b.slots.set idx (newSlot b idx val) }

theorem inplace_sl (b : KvBlk) (idx : Nat) (val : Bytes) (hidx : idx < b.slots.length) :
    sl (inplace b idx val).slots idx = newSlot b idx val ∧
    ∀ i, i ≠ idx → sl (inplace b idx val).slots i = sl b.slots i :=
  ⟨sl_set_eq _ _ _ hidx, fun i hi => sl_set_ne _ idx i _ (Ne.symm hi)⟩

/-- common part of both in-place branches: the new length fits the offset, stays disjoint from the others, and the
index still has room -/
theorem geo_inplace {b : KvBlk} (h : Geo b) (idx : Nat) (val : Bytes) (hidx : idx < b.slots.length)
    (hused : (sl b.slots idx).len ≠ 0)
    (h1 : recSize (sl b.slots idx).key val ≤ (sl b.slots idx).off)
    (h4 : ∀ j, j ≠ idx → (sl b.slots j).len ≠ 0 →
      (sl b.slots idx).off + (sl b.slots j).len ≤ (sl b.slots j).off ∨ (sl b.slots j).off + recSize (sl b.slots idx).key val ≤ (sl b.slots idx).off)
    (hroom : Gen.KVBLK_HDRSZ + idxBytes b.slots + vn (recSize (sl b.slots idx).key val) + b.maxoff ≤ 2 ^ b.szpow + vn (sl b.slots idx).len) :
    Geo (inplace b idx val) := by
  obtain ⟨e0, ene⟩ := inplace_sl b idx val hidx
  have hpos := recSize_pos (sl b.slots idx).key val
  have hoff : ∀ i, (sl (inplace b idx val).slots i).off = (sl b.slots i).off := by
    intro i
    by_cases hi : i = idx
    · subst hi; rw [e0]; rfl
    · rw [ene i hi]
  refine { n32 := ?_, tab := ?_, maxoff := ?_, room := ?_, zidx := ?_ }
  · show (b.slots.set idx _).length = _; rw [List.length_set, h.n32]
  · apply h.tab.set idx
    · exact h1
    · intro e; exact absurd e (by show recSize (sl b.slots idx).key val ≠ 0; omega)
    · intro _; rfl
    · intro j hj hju _; exact h4 j hj hju
  · show b.maxoff = maxOff (inplace b idx val).slots
    rw [maxOff_congr hoff]; exact h.maxoff
  · have hs := idxBytes_set b.slots idx (newSlot b idx val) hidx
    have e1 : (newSlot b idx val).off = (sl b.slots idx).off := rfl
    have e2 : (newSlot b idx val).len = recSize (sl b.slots idx).key val := rfl
    rw [e1, e2] at hs
    show Gen.KVBLK_HDRSZ + idxBytes (b.slots.set idx (newSlot b idx val)) + b.maxoff ≤ 2 ^ b.szpow
    omega
  · show b.zidx = firstFree (inplace b idx val).slots
    rw [firstFree_congr (l := b.slots) (l' := (inplace b idx val).slots) List.length_set, h.zidx]
    intro i
    by_cases hi : i = idx
    · subst hi; rw [e0]
      constructor
      · intro e; exact absurd e (by show recSize (sl b.slots i).key val ≠ 0; omega)
      · intro e; exact absurd e hused
    · rw [ene i hi]

theorem updatevGrow_eq (b : KvBlk) (idx : Nat) (val : Bytes) :
    updatevGrow b idx val =
      if (sl b.slots idx).off - prevOff b.slots (sl b.slots idx).off ≥ recSize (sl b.slots idx).key val ∧
          ¬ (2 ^ b.szpow - Gen.KVBLK_HDRSZ - b.idxsz - b.maxoff + vn (sl b.slots idx).len < vn (recSize (sl b.slots idx).key val)) then
        .ok (inplace b idx val) idx
      else match addkv (rmkv b idx true) (sl b.slots idx).key val with
        | .ok b' i => .ok b' i
        | e => .failed (rmkv b idx true) e := rfl

theorem updatev_eq (b : KvBlk) (idx : Nat) (val : Bytes) :
    updatev b idx val =
      if recSize (sl b.slots idx).key val ≤ (sl b.slots idx).len then .ok (inplace b idx val) idx
      else if recSize (sl b.slots idx).key val > Gen.IWKV_MAX_KVSZ then .failed b .maxkvsz
      else updatevGrow b idx val := rfl

theorem updatevOld_eq (b : KvBlk) (idx : Nat) (val : Bytes) :
    updatevOld b idx val =
      if recSize (sl b.slots idx).key val ≤ (sl b.slots idx).len then .ok (inplace b idx val) idx
      else updatevGrow b idx val := rfl

/-- the growing branches preserve the geometry (grown into the gap; removed and added, including a failing add) -/
theorem geo_updatevGrow {b : KvBlk} (h : BlkInv b) (idx : Nat) (hidx : idx < b.slots.length) (val : Bytes)
    (hgt : ¬ recSize (sl b.slots idx).key val ≤ (sl b.slots idx).len) : Geo (updatevGrow b idx val).blk := by
  rw [updatevGrow_eq]
  have hpos := recSize_pos (sl b.slots idx).key val
  have hlo := h.tab.lenoff idx
  have hr := h.room'
  have hi := h.idxge
  split
  · rename_i hgap
    have hoffpos : (sl b.slots idx).off ≠ 0 := by omega
    have hused : (sl b.slots idx).len ≠ 0 := fun e => hoffpos (h.tab.freeoff idx e)
    apply geo_inplace h.toGeo idx val hidx hused (by omega)
    · intro j hj hju
      by_cases hlt : (sl b.slots j).off < (sl b.slots idx).off
      · right; have := prevOff_ge b.slots (sl b.slots idx).off j hlt; omega
      · left
        rcases h.tab.disj idx j (Ne.symm hj) hused hju with d | d
        · exact d
        · omega
    · omega
  · have hrm := blkInv_rmkv h idx hidx true
    cases hq : addkv (rmkv b idx true) (sl b.slots idx).key val with
    | ok b' i => exact (geo_addkv hrm _ _ b' i hq).1
    | full => exact hrm.toGeo
    | maxkvsz => exact hrm.toGeo

theorem geo_updatev_inplace {b : KvBlk} (h : BlkInv b) (idx : Nat) (hidx : idx < b.slots.length) (val : Bytes)
    (hle : recSize (sl b.slots idx).key val ≤ (sl b.slots idx).len) : Geo (inplace b idx val) := by
  have hpos := recSize_pos (sl b.slots idx).key val
  have hlo := h.tab.lenoff idx
  have hused : (sl b.slots idx).len ≠ 0 := by omega
  apply geo_inplace h.toGeo idx val hidx hused (by omega)
  · intro j hj hju
    rcases h.tab.disj idx j (Ne.symm hj) hused hju with d | d
    · exact Or.inl d
    · right; omega
  · have := vn_mono hle; have := h.room; omega

/-- `_kvblk_updatev` preserves the geometry in all branches (in place, refused, grown into the gap, removed and added) -/
theorem geo_updatev {b : KvBlk} (h : BlkInv b) (idx : Nat) (hidx : idx < b.slots.length) (val : Bytes) :
    Geo (updatev b idx val).blk := by
  rw [updatev_eq]
  split
  · rename_i hle; exact geo_updatev_inplace h idx hidx val hle
  · rename_i hgt
    split
    · exact h.toGeo
    · exact geo_updatevGrow h idx hidx val hgt

/-- the same for the historical algorithm -/
theorem geo_updatevOld {b : KvBlk} (h : BlkInv b) (idx : Nat) (hidx : idx < b.slots.length) (val : Bytes) :
    Geo (updatevOld b idx val).blk := by
  rw [updatevOld_eq]
  split
  · rename_i hle; exact geo_updatev_inplace h idx hidx val hle
  · rename_i hgt; exact geo_updatevGrow h idx hidx val hgt

/-! ### histories -/

theorem blkInv_step {b : KvBlk} (h : BlkInv b) (op : Op) : BlkInv (step b op) := by
  cases op with
  | add k v =>
    simp only [step]
    cases hq : addkv b k v with
    | ok b' i => exact blkInv_sync (geo_addkv h k v b' i hq).1
    | full => exact h
    | maxkvsz => exact h
  | rm i =>
    simp only [step]
    split
    · rename_i hi; exact blkInv_sync (blkInv_rmkv h i (by rw [h.n32]; exact hi) false).toGeo
    · exact h
  | upd i v =>
    simp only [step]
    split
    · rename_i hi; exact blkInv_sync (geo_updatev h i (by rw [h.n32]; exact hi) v)
    · exact h
  | compact => exact blkInv_sync (blkInv_compact h).toGeo

theorem blkInv_run {b : KvBlk} (h : BlkInv b) (ops : List Op) : BlkInv (run b ops) := by
  induction ops generalizing b with
  | nil => exact h
  | cons op ops ih => exact ih (blkInv_step h op)

/-! ### contents: the records of a block as a multiset -/

theorem filterMap_set (l : List Slot) (idx : Nat) (x : Slot) (h : idx < l.length) :
    (l.set idx x).filterMap recOf =
      (l.take idx).filterMap recOf ++ ((recOf x).toList ++ (l.drop (idx + 1)).filterMap recOf) := by
  rw [List.set_eq_take_append_cons_drop, if_pos h, List.filterMap_append, List.filterMap_cons]
  cases recOf x <;> rfl

theorem filterMap_congr_sl {l l' : List Slot} (hl : l'.length = l.length) (h : ∀ i, recOf (sl l' i) = recOf (sl l i)) :
    l'.filterMap recOf = l.filterMap recOf := by
  have := map_congr_sl' recOf hl h
  have e : ∀ m : List Slot, m.filterMap recOf = (m.map recOf).filterMap id := by
    intro m; rw [List.filterMap_map]; rfl
  rw [e l', e l, this]

/-- two tables that agree (as records) outside slot `idx`: their record lists are the record of slot `idx`
plus a common rest -/
theorem recs_split (l l' : List Slot) (idx : Nat) (hl : l'.length = l.length) (hidx : idx < l.length)
    (h : ∀ i, i ≠ idx → recOf (sl l' i) = recOf (sl l i)) :
    ∃ rest, (l'.filterMap recOf).Perm ((recOf (sl l' idx)).toList ++ rest) ∧
      (l.filterMap recOf).Perm ((recOf (sl l idx)).toList ++ rest) := by
  refine ⟨(l.take idx).filterMap recOf ++ (l.drop (idx + 1)).filterMap recOf, ?_, ?_⟩
  · have e : l'.filterMap recOf = (l.set idx (sl l' idx)).filterMap recOf := by
      apply filterMap_congr_sl (by rw [List.length_set, hl])
      intro i
      by_cases hi : i = idx
      · subst hi; rw [sl_set_eq _ _ _ hidx]
      · rw [sl_set_ne _ idx i _ (Ne.symm hi)]; exact h i hi
    rw [e, filterMap_set l idx _ hidx, ← List.append_assoc, ← List.append_assoc]
    exact (List.perm_append_comm).append_right _
  · have e : l.filterMap recOf = (l.set idx (sl l idx)).filterMap recOf := by
      apply filterMap_congr_sl (by rw [List.length_set])
      intro i
      by_cases hi : i = idx
      · subst hi; rw [sl_set_eq _ _ _ hidx]
      · rw [sl_set_ne _ idx i _ (Ne.symm hi)]
    rw [e, filterMap_set l idx _ hidx, ← List.append_assoc, ← List.append_assoc]
    exact (List.perm_append_comm).append_right _

theorem recOf_used (s : Slot) (h : s.len ≠ 0) : recOf s = some (s.key, s.val) := by simp [recOf, h]
theorem recOf_free (s : Slot) (h : s.len = 0) : recOf s = none := by simp [recOf, h]

theorem recOf_eq {s t : Slot} (h : s.len = t.len ∧ s.key = t.key ∧ s.val = t.val) : recOf s = recOf t := by
  simp only [recOf, h.1, h.2.1, h.2.2]

/-- `_kvblk_addkv` adds exactly the new record -/
theorem addkv_recs {b : KvBlk} (h : BlkInv b) (key val : Bytes) (b' : KvBlk) (idx : Nat)
    (e : addkv b key val = .ok b' idx) : (recs b').Perm ((key, val) :: recs b) := by
  obtain ⟨_, h1, h2, h3, h4, h5⟩ := geo_addkv h key val b' idx e
  obtain ⟨rest, p1, p2⟩ := recs_split b.slots b'.slots idx h3 h1 (fun i hi => recOf_eq (h5 i hi))
  have e1 : recOf (sl b'.slots idx) = some (key, val) := by
    rw [h4]; have := recSize_pos key val
    exact recOf_used _ (by show recSize key val ≠ 0; omega)
  have e2 : recOf (sl b.slots idx) = none := recOf_free _ h2
  rw [e1] at p1; rw [e2] at p2
  exact p1.trans (List.Perm.cons _ p2.symm)

/-- `_kvblk_rmkv` removes exactly the record of the slot -/
theorem rmkv_recs_perm {b : KvBlk} (h : BlkInv b) (idx : Nat) (hidx : idx < b.slots.length) (nr : Bool)
    (hused : (sl b.slots idx).len ≠ 0) :
    (recs b).Perm (((sl b.slots idx).key, (sl b.slots idx).val) :: recs (rmkv b idx nr)) := by
  obtain ⟨h1, h2, h3⟩ := rmkv_recs h idx hidx nr
  obtain ⟨rest, p1, p2⟩ := recs_split b.slots (rmkv b idx nr).slots idx h1 hidx (fun i hi => recOf_eq (h3 i hi))
  have e1 : recOf (sl (rmkv b idx nr).slots idx) = none := recOf_free _ h2
  have e2 : recOf (sl b.slots idx) = some ((sl b.slots idx).key, (sl b.slots idx).val) := recOf_used _ hused
  rw [e1] at p1; rw [e2] at p2
  exact p2.trans (List.Perm.cons _ p1.symm)

theorem inplace_recs {b : KvBlk} (idx : Nat) (hidx : idx < b.slots.length) (val : Bytes) (hused : (sl b.slots idx).len ≠ 0) :
    ∃ rest, (recs b).Perm (((sl b.slots idx).key, (sl b.slots idx).val) :: rest) ∧
      (recs (inplace b idx val)).Perm (((sl b.slots idx).key, val) :: rest) := by
  obtain ⟨e0, ene⟩ := inplace_sl b idx val hidx
  obtain ⟨rest, p1, p2⟩ := recs_split b.slots (inplace b idx val).slots idx List.length_set hidx
    (fun i hi => by rw [ene i hi])
  have e1 : recOf (sl (inplace b idx val).slots idx) = some ((sl b.slots idx).key, val) := by
    rw [e0]; have := recSize_pos (sl b.slots idx).key val
    exact recOf_used (newSlot b idx val) (by show recSize (sl b.slots idx).key val ≠ 0; omega)
  have e2 : recOf (sl b.slots idx) = some ((sl b.slots idx).key, (sl b.slots idx).val) := recOf_used _ hused
  rw [e1] at p1; rw [e2] at p2
  exact ⟨rest, p2, p1⟩

theorem updatevGrow_recs {b : KvBlk} (h : BlkInv b) (idx : Nat) (hidx : idx < b.slots.length) (val : Bytes)
    (hused : (sl b.slots idx).len ≠ 0) (b' : KvBlk) (i' : Nat) (e : updatevGrow b idx val = .ok b' i') :
    ∃ rest, (recs b).Perm (((sl b.slots idx).key, (sl b.slots idx).val) :: rest) ∧
      (recs b').Perm (((sl b.slots idx).key, val) :: rest) := by
  rw [updatevGrow_eq] at e
  split at e
  · simp only [UpdRes.ok.injEq] at e; rw [← e.1]; exact inplace_recs idx hidx val hused
  · have hrm := blkInv_rmkv h idx hidx true
    cases hq : addkv (rmkv b idx true) (sl b.slots idx).key val with
    | ok b2 i2 =>
      rw [hq] at e
      simp only [UpdRes.ok.injEq] at e
      rw [← e.1]
      exact ⟨recs (rmkv b idx true), rmkv_recs_perm h idx hidx true hused, addkv_recs hrm _ _ b2 i2 hq⟩
    | full => rw [hq] at e; exact absurd e (by simp)
    | maxkvsz => rw [hq] at e; exact absurd e (by simp)

/-- `_kvblk_updatev` replaces exactly the value of the slot's record (wherever the record ends up) -/
theorem updatev_recs {b : KvBlk} (h : BlkInv b) (idx : Nat) (hidx : idx < b.slots.length) (val : Bytes)
    (hused : (sl b.slots idx).len ≠ 0) (b' : KvBlk) (i' : Nat) (e : updatev b idx val = .ok b' i') :
    ∃ rest, (recs b).Perm (((sl b.slots idx).key, (sl b.slots idx).val) :: rest) ∧
      (recs b').Perm (((sl b.slots idx).key, val) :: rest) := by
  rw [updatev_eq] at e
  split at e
  · simp only [UpdRes.ok.injEq] at e; rw [← e.1]; exact inplace_recs idx hidx val hused
  · split at e
    · exact absurd e (by simp)
    · exact updatevGrow_recs h idx hidx val hused b' i' e

/-- the failure path of the growing branches: `_kvblk_addkv` can only fail with `IWKV_ERROR_MAXKVSZ` (a slot was just freed),
and then the old record is gone -/
theorem updatevGrow_failed {b : KvBlk} (h : BlkInv b) (idx : Nat) (hidx : idx < b.slots.length) (val : Bytes)
    (hused : (sl b.slots idx).len ≠ 0) (b' : KvBlk) (err : AddRes) (e : updatevGrow b idx val = .failed b' err) :
    err = .maxkvsz ∧ recSize (sl b.slots idx).key val > Gen.IWKV_MAX_KVSZ ∧
    (recs b).Perm (((sl b.slots idx).key, (sl b.slots idx).val) :: recs b') := by
  rw [updatevGrow_eq] at e
  split at e
  · exact absurd e (by simp)
  · have hrm := blkInv_rmkv h idx hidx true
    have hfree := (rmkv_recs h idx hidx true).2.1
    have hlen := (rmkv_recs h idx hidx true).1
    cases hq : addkv (rmkv b idx true) (sl b.slots idx).key val with
    | ok b2 i2 => rw [hq] at e; exact absurd e (by simp)
    | full =>
      exfalso
      simp only [addkv] at hq
      split at hq
      · rename_i hz
        have := (firstFree_none _).1 (by rw [← hrm.zidx, hz]) idx (by rw [hlen]; exact hidx)
        exact this hfree
      · split at hq <;> exact absurd hq (by simp)
    | maxkvsz =>
      rw [hq] at e
      simp only [UpdRes.failed.injEq] at e
      refine ⟨e.2.symm, ?_, ?_⟩
      · simp only [addkv] at hq
        split at hq
        · exact absurd hq (by simp)
        · split at hq
          · rename_i hbig; exact hbig
          · exact absurd hq (by simp)
      · rw [← e.1]; exact rmkv_recs_perm h idx hidx true hused

/-- **A failing `_kvblk_updatev` leaves the block unchanged**: the only failure is `IWKV_ERROR_MAXKVSZ` (record larger than
`IWKV_MAX_KVSZ`), decided before anything is touched -/
theorem updatev_failed_keeps {b : KvBlk} (h : BlkInv b) (idx : Nat) (hidx : idx < b.slots.length) (val : Bytes)
    (hused : (sl b.slots idx).len ≠ 0) (b' : KvBlk) (err : AddRes) (e : updatev b idx val = .failed b' err) :
    b' = b ∧ err = .maxkvsz ∧ recSize (sl b.slots idx).key val > Gen.IWKV_MAX_KVSZ := by
  rw [updatev_eq] at e
  split at e
  · exact absurd e (by simp)
  · split at e
    · rename_i hbig
      simp only [UpdRes.failed.injEq] at e
      exact ⟨e.1.symm, e.2.symm, hbig⟩
    · rename_i hsmall
      exact absurd (updatevGrow_failed h idx hidx val hused b' err e).2.1 hsmall

/-- HISTORICAL witness of finding C06-MAXKV: the algorithm before fix ade5254 failed only with `IWKV_ERROR_MAXKVSZ`, and then the old
record had already been removed -/
theorem updatevOld_failed {b : KvBlk} (h : BlkInv b) (idx : Nat) (hidx : idx < b.slots.length) (val : Bytes)
    (hused : (sl b.slots idx).len ≠ 0) (b' : KvBlk) (err : AddRes) (e : updatevOld b idx val = .failed b' err) :
    err = .maxkvsz ∧ recSize (sl b.slots idx).key val > Gen.IWKV_MAX_KVSZ ∧
    (recs b).Perm (((sl b.slots idx).key, (sl b.slots idx).val) :: recs b') := by
  rw [updatevOld_eq] at e
  split at e
  · exact absurd e (by simp)
  · exact updatevGrow_failed h idx hidx val hused b' err e

end IwModel.KvBlk
