import IwModel.Model.KvApiSpec
import IwModel.Lemmas.KvApi
import IwModel.Lemmas.KvBridge
/-! Helper lemmas for the API-level refinement of C01 (`Model/KvApiSpec.lean`): the store invariant,
the abstraction commutes with `getDb`/`setDb`, one-step refinement of a single database under the
comparator of the store, the empty lookup key. The property theorems are in `Props/C01.lean` §6. -/
namespace IwModel.Kv
section
variable {K V : Type} {P : K → Prop} {gt : K → K → Bool}

/-! ### one call on one database, comparator a strict total order on the keys satisfying `P` -/

theorem get_refines_on (st : StrictTotalOn P gt) (d : Db K V) (inv : NodeInv gt d.nodes)
    (hd : KeysOn P (flatten d.nodes)) (k : K) (hk : P k) :
    get gt d k = specGet gt (flatten d.nodes) k := by
  have h := run_refines_on st [.get k] (by intro op hop; simp at hop; subst hop; exact hk) d inv hd
  simpa [runNode, runSpec, stepNode, stepSpec] using h.1

theorem put_refines_on (st : StrictTotalOn P gt) (d : Db K V) (inv : NodeInv gt d.nodes)
    (hd : KeysOn P (flatten d.nodes)) (k : K) (hk : P k) (v : V) (lvl : Nat) :
    flatten (put gt d k v false lvl).1.nodes = specPut gt (flatten d.nodes) k v ∧
    NodeInv gt (put gt d k v false lvl).1.nodes ∧ KeysOn P (flatten (put gt d k v false lvl).1.nodes) := by
  have h := run_refines_on st [.put k v lvl] (by intro op hop; simp at hop; subst hop; exact hk) d inv hd
  simpa [runNode, runSpec, stepNode, stepSpec] using h.2

theorem del_refines_on (st : StrictTotalOn P gt) (d : Db K V) (inv : NodeInv gt d.nodes)
    (hd : KeysOn P (flatten d.nodes)) (k : K) (hk : P k) :
    (del gt d k).2 = (specGet gt (flatten d.nodes) k).isSome ∧
    flatten (del gt d k).1.nodes = specDel gt (flatten d.nodes) k ∧
    NodeInv gt (del gt d k).1.nodes ∧ KeysOn P (flatten (del gt d k).1.nodes) := by
  have h := run_refines_on st [.del k] (by intro op hop; simp at hop; subst hop; exact hk) d inv hd
  simpa [runNode, runSpec, stepNode, stepSpec] using h

/-! ### a lookup key below every stored key (no order facts needed) -/

theorem findPos_of_allGt {k : K} {l : List (K × V)} (h : AllGt gt k l) : findPos gt k l = l.length := by
  have := findPos_append_of_allGt (gt := gt) [] h
  simpa [findPos] using this

theorem specGet_of_allGt {k : K} {m : List (K × V)} (h : AllGt gt k m) : specGet gt m k = none := by
  simp [specGet, findPos_of_allGt h]

theorem specDel_of_allGt {k : K} {m : List (K × V)} (h : AllGt gt k m) : specDel gt m k = m := by
  simp [specDel, findPos_of_allGt h]

theorem findPi_of_allGt {k : K} {l : List (K × V)} (h : AllGt gt k l) : findPi gt k l = (false, l.length) := by
  simp [findPi, findPos_of_allGt h]

theorem allGt_node {k : K} {ns : List (Node K V)} (h : AllGt gt k (flatten ns)) {i : Nat} {n : Node K V}
    (hn : ns[i]? = some n) : AllGt gt k n.recs := by
  intro x hx
  refine h x ?_
  simp only [flatten, List.mem_flatMap]
  exact ⟨n, List.mem_of_getElem? hn, hx⟩

theorem get_of_allGt (d : Db K V) {k : K} (h : AllGt gt k (flatten d.nodes)) : get gt d k = none := by
  simp only [get]
  split
  · rfl
  · split
    · rfl
    · rename_i lower hl
      simp [findPi_of_allGt (allGt_node h hl)]

theorem del_of_allGt (d : Db K V) {k : K} (h : AllGt gt k (flatten d.nodes)) : del gt d k = (d, false) := by
  simp only [del]
  split
  · rfl
  · split
    · rfl
    · rename_i lower hl
      simp [findPi_of_allGt (allGt_node h hl)]

end
end IwModel.Kv

namespace IwModel.KvApiSpec
open IwModel Kv KvApi

/-- invariant of one database: valid chain under the comparator of ITS flags, valid keys only -/
def DbInv (d : DbSt) : Prop :=
  NodeInv (gtE d.flags) d.db.nodes ∧ KeysOn (Valid d.flags) (flatten d.db.nodes)

/-- invariant of the store: every database satisfies `DbInv` -/
def StoreInv (s : Store) : Prop := ∀ x ∈ s.dbs, DbInv x.2

/-- the reference store is well formed: every list is strictly descending and holds valid keys -/
def SpecInv (t : SpecStore) : Prop :=
  ∀ x ∈ t.dbs, Desc (gtE x.2.flags) x.2.recs ∧ KeysOn (Valid x.2.flags) x.2.recs

theorem storeInv_empty : StoreInv Store.empty := by intro x hx; cases hx

theorem specInv_abs {s : Store} (h : StoreInv s) : SpecInv (absStore s) := by
  intro x hx
  simp only [absStore, List.mem_map] at hx
  obtain ⟨y, hy, rfl⟩ := hx
  exact ⟨(h y hy).1.2, (h y hy).2⟩

/-! ### the abstraction commutes with the store plumbing -/

theorem sgetDb_abs (s : Store) (id : Nat) : sgetDb (absStore s) id = (getDb s id).map absDb := by
  simp only [sgetDb, absStore, getDb, List.find?_map, Option.map_map]
  rfl

theorem abs_setDb (s : Store) (id : Nat) (d : DbSt) : absStore (setDb s id d) = ssetDb (absStore s) id (absDb d) := by
  simp only [absStore, setDb, ssetDb, List.map_map, SpecStore.mk.injEq, and_true]
  apply List.map_congr_left
  intro x _
  simp only [Function.comp]
  split <;> rfl

theorem getDb_mem {s : Store} {id : Nat} {d : DbSt} (h : getDb s id = some d) : ∃ x ∈ s.dbs, x.2 = d := by
  simp only [getDb, Option.map_eq_some_iff] at h
  obtain ⟨x, hx, rfl⟩ := h
  exact ⟨x, List.mem_of_find?_eq_some hx, rfl⟩

theorem dbInv_of_getDb {s : Store} (inv : StoreInv s) {id : Nat} {d : DbSt} (h : getDb s id = some d) : DbInv d := by
  obtain ⟨x, hx, rfl⟩ := getDb_mem h
  exact inv x hx

theorem storeInv_setDb {s : Store} (inv : StoreInv s) (id : Nat) {d : DbSt} (hd : DbInv d) : StoreInv (setDb s id d) := by
  intro x hx
  simp only [setDb, List.mem_map] at hx
  obtain ⟨y, hy, rfl⟩ := hx
  split
  · exact hd
  · exact inv y hy

/-! ### effective keys -/

/-- `toEffective_valid` without the non-empty hypothesis where it is not needed: only a database with
    real-number AND compound keys has an invalid effective key, the one of the empty caller key -/
theorem toEffective_valid' (flags : Nat) (key : Bytes) (comp : Nat) (ek : EKey)
    (hne : modeOf flags = .real → isCompound flags = true → key ≠ [])
    (h : toEffective flags key comp = .ok ek) : Valid flags ek := by
  by_cases hk : key = []
  · subst hk
    by_cases hm : modeOf flags = .vnum
    · simp [toEffective, hm] at h
    · simp only [toEffective, hm, if_false] at h
      cases h
      exact ⟨fun hc => by simp [hc], fun hv => absurd hv hm, fun h1 h2 => absurd rfl (hne h1 h2)⟩
  · exact toEffective_valid flags key comp ek hk h

/-- in a database with real-number and compound keys, every valid (non-empty) stored key is greater
    than an empty lookup key, whatever the compound parts: `_cmp_keys_prefix` sees a stored body of
    length 0 and answers with the length of the other key -/
theorem gtE_empty_real_compound (flags : Nat) (hm : modeOf flags = .real) (hc : isCompound flags = true)
    (a : EKey) (ha : Valid flags a) (c : Nat) : gtE flags a ([], c) = true := by
  have hne := ha.2.2 hm hc
  have hpos : 0 < a.1.length := List.length_pos_iff.mpr hne
  simp only [gtE, hm, hc, Cmp.stored, if_true, List.append_nil, Cmp.cmpKeys, Cmp.cmpPrefix]
  have hd := Cmp.dec_stored [] c
  rw [List.append_nil] at hd
  simp only [hd]
  simp
  omega

theorem allGt_empty_real_compound {d : DbSt} (inv : DbInv d) (hm : modeOf d.flags = .real)
    (hc : isCompound d.flags = true) (c : Nat) : AllGt (gtE d.flags) ([], c) (flatten d.db.nodes) :=
  fun x hx => gtE_empty_real_compound d.flags hm hc x.1 (inv.2 x hx) c

/-- a lookup (`_lx_get_lr`) through the API's effective key returns what the reference list holds —
    also for the one invalid effective key (empty key, real-number + compound database) -/
theorem db_get_refines {d : DbSt} (inv : DbInv d) (key : Bytes) (comp : Nat) (ek : EKey)
    (h : toEffective d.flags key comp = .ok ek) :
    Kv.get (gtE d.flags) d.db ek = specGet (gtE d.flags) (flatten d.db.nodes) ek := by
  by_cases hv : modeOf d.flags = .real → isCompound d.flags = true → key ≠ []
  · exact get_refines_on (gtE_strictTotalOn d.flags) d.db inv.1 inv.2 ek (toEffective_valid' _ _ _ _ hv h)
  · simp only [Classical.not_imp, ne_eq, Classical.not_not] at hv
    obtain ⟨hm, hc, hk⟩ := hv
    have hnv : modeOf d.flags ≠ .vnum := by rw [hm]; decide
    simp only [toEffective, hnv, if_false, hc, if_true, hk] at h
    cases h
    have ha := allGt_empty_real_compound inv hm hc comp
    rw [get_of_allGt d.db ha, specGet_of_allGt ha]

theorem db_del_refines {d : DbSt} (inv : DbInv d) (key : Bytes) (comp : Nat) (ek : EKey)
    (h : toEffective d.flags key comp = .ok ek) :
    (Kv.del (gtE d.flags) d.db ek).2 = (specGet (gtE d.flags) (flatten d.db.nodes) ek).isSome ∧
    flatten (Kv.del (gtE d.flags) d.db ek).1.nodes = specDel (gtE d.flags) (flatten d.db.nodes) ek ∧
    DbInv { d with db := (Kv.del (gtE d.flags) d.db ek).1 } := by
  by_cases hv : modeOf d.flags = .real → isCompound d.flags = true → key ≠ []
  · have r := del_refines_on (gtE_strictTotalOn d.flags) d.db inv.1 inv.2 ek (toEffective_valid' _ _ _ _ hv h)
    exact ⟨r.1, r.2.1, r.2.2.1, r.2.2.2⟩
  · simp only [Classical.not_imp, ne_eq, Classical.not_not] at hv
    obtain ⟨hm, hc, hk⟩ := hv
    have hnv : modeOf d.flags ≠ .vnum := by rw [hm]; decide
    simp only [toEffective, hnv, if_false, hc, if_true, hk] at h
    cases h
    have ha := allGt_empty_real_compound inv hm hc comp
    rw [del_of_allGt d.db ha, specGet_of_allGt ha, specDel_of_allGt ha]
    exact ⟨rfl, rfl, inv⟩

theorem db_put_refines {d : DbSt} (inv : DbInv d) (key : Bytes) (comp : Nat) (ek : EKey) (hne : key ≠ [])
    (h : toEffective d.flags key comp = .ok ek) (v : Bytes) (lvl : Nat) :
    flatten (Kv.put (gtE d.flags) d.db ek v false lvl).1.nodes = specPut (gtE d.flags) (flatten d.db.nodes) ek v ∧
    DbInv { d with db := (Kv.put (gtE d.flags) d.db ek v false lvl).1 } := by
  have r := put_refines_on (gtE_strictTotalOn d.flags) d.db inv.1 inv.2 ek (toEffective_valid _ _ _ _ hne h) v lvl
  exact ⟨r.1, r.2.1, r.2.2⟩

/-! ### one API call against the reference -/

theorem absDb_put {d : DbSt} (inv : DbInv d) (key : Bytes) (comp : Nat) (ek : EKey) (hne : key ≠ [])
    (h : toEffective d.flags key comp = .ok ek) (v : Bytes) (lvl : Nat) :
    absDb { d with db := (Kv.put (gtE d.flags) d.db ek v false lvl).1 } = (absDb d).insert ek v := by
  simp only [absDb, SpecDb.insert]
  rw [(db_put_refines inv key comp ek hne h v lvl).1]

theorem putR_refines (s : Store) (inv : StoreInv s) (id : Nat) (key : Bytes) (comp : Nat) (val : Bytes)
    (fl lvl ph : Nat) :
    (putR s id key comp val fl lvl ph).2 = (sputR (absStore s) id key comp val fl ph).2 ∧
    absStore (putR s id key comp val fl lvl ph).1 = (sputR (absStore s) id key comp val fl ph).1 ∧
    StoreInv (putR s id key comp val fl lvl ph).1 := by
  simp only [putR, sputR, sgetDb_abs]
  cases hg : getDb s id with
  | none => exact ⟨rfl, rfl, inv⟩
  | some d =>
    have dinv := dbInv_of_getDb inv hg
    have hro : (absStore s).readonly = s.readonly := rfl
    have hf : (absDb d).flags = d.flags := rfl
    simp only [Option.map_some, hro, hf]
    cases hk : key.isEmpty with
    | true => exact ⟨rfl, rfl, inv⟩
    | false =>
      have hne : key ≠ [] := by intro e; subst e; simp at hk
      cases hr : s.readonly with
      | true => exact ⟨rfl, rfl, inv⟩
      | false =>
        simp only [Bool.false_eq_true, if_false]
        cases he : toEffective d.flags key comp with
        | error e => exact ⟨rfl, rfl, inv⟩
        | ok ek =>
          have hl : (absDb d).lookup ek = specGet (gtE d.flags) (flatten d.db.nodes) ek := rfl
          simp only [hl, db_get_refines dinv key comp ek he]
          have hput := fun v => db_put_refines dinv key comp ek hne he v lvl
          have hins := fun v => absDb_put dinv key comp ek hne he v lvl
          cases specGet (gtE d.flags) (flatten d.db.nodes) ek with
          | none =>
            by_cases hp : ph = 2
            · simp only [hp, if_true]; exact ⟨trivial, trivial, inv⟩
            · simp only [hp, if_false]
              exact ⟨trivial, by rw [abs_setDb, hins], storeInv_setDb inv id (hput val).2⟩
          | some ov =>
            simp only []
            generalize (hasFlag fl Gen.IWKV_NO_OVERWRITE && !hasFlag fl Gen.IWKV_VAL_INCREMENT) = no
            generalize (if hasFlag fl Gen.IWKV_VAL_INCREMENT = true then increment ov val else some val) = r
            cases no with
            | true => exact ⟨rfl, rfl, inv⟩
            | false =>
              cases r with
              | none => exact ⟨rfl, rfl, inv⟩
              | some nv =>
                simp only [Bool.false_eq_true, if_false]
                by_cases hp : ph = 2
                · simp only [hp, if_true]; exact ⟨trivial, trivial, inv⟩
                · simp only [hp, if_false]
                  exact ⟨trivial, by rw [abs_setDb, hins], storeInv_setDb inv id (hput nv).2⟩

/-! ### the reference alone: which calls change what -/

theorem sputR_cases (t : SpecStore) (id : Nat) (key : Bytes) (comp : Nat) (val : Bytes) (fl ph : Nat) :
    ((sputR t id key comp val fl ph).1 = t ∧ (sputR t id key comp val fl ph).2.isOk = false) ∨
    (∃ d, (sputR t id key comp val fl ph).1 = ssetDb t id d ∧ (sputR t id key comp val fl ph).2.isOk = true) := by
  simp only [sputR]
  repeat' split
  all_goals first
    | exact Or.inl ⟨rfl, rfl⟩
    | exact Or.inr ⟨_, rfl, rfl⟩

theorem sdel_cases (t : SpecStore) (id : Nat) (key : Bytes) (comp : Nat) :
    (sdel t id key comp).1 = t ∨ (∃ d, (sdel t id key comp).1 = ssetDb t id d ∧ (sdel t id key comp).2 = "del ok") := by
  simp only [sdel]
  repeat' split
  all_goals first
    | exact Or.inl rfl
    | exact Or.inr ⟨_, rfl, rfl⟩

theorem smetaSet_cases (t : SpecStore) (id : Nat) (m : Bytes) :
    (smetaSet t id m).1 = t ∨ (∃ d, (smetaSet t id m).1 = ssetDb t id d ∧ (smetaSet t id m).2 = "mset ok") := by
  simp only [smetaSet]
  repeat' split
  all_goals first
    | exact Or.inl rfl
    | exact Or.inr ⟨_, rfl, rfl⟩

theorem sopenDb_cases (t : SpecStore) (id flags : Nat) :
    (sopenDb t id flags).1 = t ∨
    ((sopenDb t id flags).1 = { t with dbs := t.dbs ++ [(id, ⟨flags, [], []⟩)] } ∧ (sopenDb t id flags).2 = "db ok") := by
  simp only [sopenDb]
  repeat' split
  all_goals first
    | exact Or.inl rfl
    | exact Or.inr ⟨rfl, rfl⟩

theorem sdestroyDb_cases (t : SpecStore) (id : Nat) :
    (sdestroyDb t id).1 = t ∨
    ((sdestroyDb t id).1 = { t with dbs := t.dbs.filter (·.1 ≠ id) } ∧ (sdestroyDb t id).2 = "dbdestroy ok") := by
  simp only [sdestroyDb]
  repeat' split
  all_goals first
    | exact Or.inl rfl
    | exact Or.inr ⟨rfl, rfl⟩

theorem sgetDb_ssetDb_ne (t : SpecStore) (id j : Nat) (d : SpecDb) (h : j ≠ id) :
    sgetDb (ssetDb t id d) j = sgetDb t j := by
  simp only [sgetDb, ssetDb]
  congr 1
  induction t.dbs with
  | nil => rfl
  | cons x tl ih =>
    obtain ⟨i, y⟩ := x
    simp only [List.map_cons, List.find?_cons]
    by_cases hi : i = id
    · subst hi
      have hj : ¬ (i = j) := fun e => h e.symm
      simp only [if_true, hj, decide_false, ih]
    · simp only [hi, if_false]
      rw [ih]

theorem sgetDb_append_ne (t : SpecStore) (id j : Nat) (d : SpecDb) (h : j ≠ id) :
    sgetDb { t with dbs := t.dbs ++ [(id, d)] } j = sgetDb t j := by
  simp only [sgetDb]
  congr 1
  have hj : ¬ (id = j) := fun e => h e.symm
  simp [List.find?_append, hj]

theorem sgetDb_filter_ne (t : SpecStore) (id j : Nat) (h : j ≠ id) :
    sgetDb { t with dbs := t.dbs.filter (·.1 ≠ id) } j = sgetDb t j := by
  simp only [sgetDb, List.find?_filter]
  congr 2
  funext a
  by_cases hj : a.1 = j
  · have hi : ¬ (a.1 = id) := fun e => h (by rw [← hj, e])
    simp [hj, h]
  · simp [hj]

end IwModel.KvApiSpec
