import IwModel.Model.TreeClone
/-! `jbn_clone`'s level-driven rebuild reproduces the source tree. -/
namespace IwModel.TreeClone

theorem run_append (a b : List (Nat × Option Bytes × JVal)) (st : List Frame × Nat) :
    run (a ++ b) st = (run a st).bind (run b) := by
  induction a generalizing st with
  | nil => rfl
  | cons e a ih =>
    simp only [List.cons_append, run]
    cases visit st e with
    | none => rfl
    | some st' => exact ih st'

theorem popN_add (a b : Nat) (fs : List Frame) : popN (a + b) fs = (popN a fs).bind (popN b) := by
  induction a generalizing fs with
  | zero => simp [popN]
  | succ a ih =>
    rw [Nat.add_right_comm]
    simp only [popN]
    cases pop1 fs with
    | none => rfl
    | some fs' => exact ih fs'

/-- the frame stack, popped back to level `lvl`, is `target` -/
def Normal (fs : List Frame) (pos lvl : Nat) (target : List Frame) : Prop :=
  lvl ≤ pos ∧ popN (pos - lvl) fs = some target

/-- a visitor call at the level of an open frame appends the shallow copy to that frame -/
theorem visit_normal (fs : List Frame) (pos L : Nat) (F : Frame) (rest : List Frame) (k : Option Bytes) (sh : JVal)
    (h : Normal fs pos L (F :: rest)) : visit (fs, pos) (L, k, sh) = some (addKid F k sh :: rest, L) := by
  obtain ⟨hle, hp⟩ := h
  unfold visit
  simp only []
  by_cases hlt : L < pos
  · simp [hlt, hp]
  · have he : pos = L := by omega
    subst he
    simp only [Nat.sub_self, popN, Option.some.injEq] at hp
    subst hp
    simp

theorem normal_refl (fs : List Frame) (pos : Nat) : Normal fs pos pos fs := ⟨Nat.le_refl _, by simp [popN]⟩

/-- going one more level up -/
theorem normal_up (fs : List Frame) (pos L : Nat) (t t' : List Frame) (h : Normal fs pos (L + 1) t)
    (hp : pop1 t = some t') : Normal fs pos L t' := by
  obtain ⟨hle, hpn⟩ := h
  refine ⟨by omega, ?_⟩
  have : pos - L = (pos - (L + 1)) + 1 := by omega
  rw [this, popN_add, hpn]
  simp [popN, hp]

theorem frame_kids_eq (par : Frame) (ks : List (Option Bytes × JVal)) (h : par.kids = ks) :
    ({ par with kids := ks } : Frame) = par := by
  cases par; simp_all

theorem shallow_scalar (x : JVal) (h : ∀ xs, x ≠ .arr xs) (h2 : ∀ ms, x ≠ .obj ms) : shallow x = x ∧ events 0 x = [] := by
  cases x <;> simp_all [shallow, events]

mutual
  /-- the events below a node just linked as the last child of `par` turn that placeholder into the node -/
  theorem sub_ok (x : JVal) (lvl : Nat) (par : Frame) (rest : List Frame) (ks : List (Option Bytes × JVal))
      (k' : Option Bytes) (hk : par.kids = ks ++ [(k', shallow x)]) :
      ∃ fs' pos', run (events (lvl + 1) x) (par :: rest, lvl) = some (fs', pos') ∧
        Normal fs' pos' lvl ({ par with kids := ks ++ [(k', x)] } :: rest) := by
    match x with
    | .null => exact ⟨_, _, rfl, by rw [frame_kids_eq par _ (by simpa [shallow] using hk)]; exact normal_refl _ _⟩
    | .bool _ => exact ⟨_, _, rfl, by rw [frame_kids_eq par _ (by simpa [shallow] using hk)]; exact normal_refl _ _⟩
    | .int _ => exact ⟨_, _, rfl, by rw [frame_kids_eq par _ (by simpa [shallow] using hk)]; exact normal_refl _ _⟩
    | .f64 _ => exact ⟨_, _, rfl, by rw [frame_kids_eq par _ (by simpa [shallow] using hk)]; exact normal_refl _ _⟩
    | .str _ => exact ⟨_, _, rfl, by rw [frame_kids_eq par _ (by simpa [shallow] using hk)]; exact normal_refl _ _⟩
    | .arr [] => exact ⟨_, _, rfl, by rw [frame_kids_eq par _ (by simpa [shallow] using hk)]; exact normal_refl _ _⟩
    | .obj [] => exact ⟨_, _, rfl, by rw [frame_kids_eq par _ (by simpa [shallow] using hk)]; exact normal_refl _ _⟩
    | .arr (c :: cs) =>
      simp only [shallow] at hk
      -- first event: push, then link the shallow copy of c
      have hlast : par.kids.getLast? = some (k', .arr []) := by rw [hk]; simp
      have hv : visit (par :: rest, lvl) (lvl + 1, none, shallow c) =
          some (⟨k', false, [(none, shallow c)]⟩ :: par :: rest, lvl + 1) := by
        unfold visit
        have h1 : ¬ lvl + 1 < lvl := by omega
        have h2 : lvl + 1 > lvl := by omega
        simp [h1, h2, push, hlast, addKid]
      obtain ⟨fs1, pos1, hr1, hn1⟩ := sub_ok c (lvl + 1) ⟨k', false, [(none, shallow c)]⟩ (par :: rest) [] none rfl
      obtain ⟨fs2, pos2, hr2, hn2⟩ := kids_arr cs (lvl + 1) fs1 pos1 ⟨k', false, [(none, c)]⟩ (par :: rest) rfl
        (by simpa using hn1)
      refine ⟨fs2, pos2, ?_, ?_⟩
      · simp only [events, eventsArr, run, hv, run_append, hr1, Option.bind_some, hr2]
      · apply normal_up fs2 pos2 lvl _ _ hn2
        simp only [pop1, hk, List.dropLast_concat, Frame.close, Bool.false_eq_true, if_false, List.map_append,
          List.map_cons, List.map_nil, List.map_map]
        congr 4
        simp [Function.comp_def]
    | .obj ((kc, c) :: cs) =>
      simp only [shallow] at hk
      have hlast : par.kids.getLast? = some (k', .obj []) := by rw [hk]; simp
      have hv : visit (par :: rest, lvl) (lvl + 1, some kc, shallow c) =
          some (⟨k', true, [(some kc, shallow c)]⟩ :: par :: rest, lvl + 1) := by
        unfold visit
        have h1 : ¬ lvl + 1 < lvl := by omega
        have h2 : lvl + 1 > lvl := by omega
        simp [h1, h2, push, hlast, addKid]
      obtain ⟨fs1, pos1, hr1, hn1⟩ := sub_ok c (lvl + 1) ⟨k', true, [(some kc, shallow c)]⟩ (par :: rest) [] (some kc) rfl
      obtain ⟨fs2, pos2, hr2, hn2⟩ := kids_obj cs (lvl + 1) fs1 pos1 ⟨k', true, [(some kc, c)]⟩ (par :: rest) rfl
        (by simpa using hn1)
      refine ⟨fs2, pos2, ?_, ?_⟩
      · simp only [events, eventsObj, run, hv, run_append, hr1, Option.bind_some, hr2]
      · apply normal_up fs2 pos2 lvl _ _ hn2
        simp only [pop1, hk, List.dropLast_concat, Frame.close, if_true, List.map_append,
          List.map_cons, List.map_nil, List.map_map]
        congr 4
        simp [Function.comp_def]
  theorem kids_arr (xs : List JVal) (L : Nat) (fs : List Frame) (pos : Nat) (F : Frame) (rest : List Frame)
      (hF : F.isObj = false) (hn : Normal fs pos L (F :: rest)) :
      ∃ fs' pos', run (eventsArr L xs) (fs, pos) = some (fs', pos') ∧
        Normal fs' pos' L ({ F with kids := F.kids ++ xs.map fun x => (none, x) } :: rest) := by
    match xs with
    | [] => exact ⟨fs, pos, rfl, by simpa using hn⟩
    | x :: xs =>
      have hv := visit_normal fs pos L F rest none (shallow x) hn
      obtain ⟨fs1, pos1, hr1, hn1⟩ := sub_ok x L (addKid F none (shallow x)) rest F.kids none (by simp [addKid, hF])
      obtain ⟨fs2, pos2, hr2, hn2⟩ := kids_arr xs L fs1 pos1 { addKid F none (shallow x) with kids := F.kids ++ [(none, x)] } rest
        (by simp [addKid, hF]) hn1
      refine ⟨fs2, pos2, ?_, ?_⟩
      · simp only [eventsArr, run, hv, run_append, hr1, Option.bind_some, hr2]
      · simpa [addKid, List.append_assoc] using hn2
  theorem kids_obj (ms : List (Bytes × JVal)) (L : Nat) (fs : List Frame) (pos : Nat) (F : Frame) (rest : List Frame)
      (hF : F.isObj = true) (hn : Normal fs pos L (F :: rest)) :
      ∃ fs' pos', run (eventsObj L ms) (fs, pos) = some (fs', pos') ∧
        Normal fs' pos' L ({ F with kids := F.kids ++ ms.map fun m => (some m.1, m.2) } :: rest) := by
    match ms with
    | [] => exact ⟨fs, pos, rfl, by simpa using hn⟩
    | (k, x) :: ms =>
      have hv := visit_normal fs pos L F rest (some k) (shallow x) hn
      obtain ⟨fs1, pos1, hr1, hn1⟩ := sub_ok x L (addKid F (some k) (shallow x)) rest F.kids (some k) (by simp [addKid, hF])
      obtain ⟨fs2, pos2, hr2, hn2⟩ := kids_obj ms L fs1 pos1 { addKid F (some k) (shallow x) with kids := F.kids ++ [(some k, x)] } rest
        (by simp [addKid, hF]) hn1
      refine ⟨fs2, pos2, ?_, ?_⟩
      · simp only [eventsObj, run, hv, run_append, hr1, Option.bind_some, hr2]
      · simpa [addKid, List.append_assoc] using hn2
end

/-- `jbn_clone` returns a tree equal to its source -/
theorem clone_eq (v : JVal) : clone v = some v := by
  match v with
  | .null => rfl
  | .bool _ => rfl
  | .int _ => rfl
  | .f64 _ => rfl
  | .str _ => rfl
  | .arr xs =>
    obtain ⟨fs', pos', hr, hn⟩ := kids_arr xs 0 [⟨none, false, []⟩] 0 ⟨none, false, []⟩ [] rfl (normal_refl _ _)
    simp only [clone, events, hr]
    have := hn.2
    simp only [Nat.sub_zero] at this
    simp [this, Frame.close, Function.comp_def]
  | .obj ms =>
    obtain ⟨fs', pos', hr, hn⟩ := kids_obj ms 0 [⟨none, true, []⟩] 0 ⟨none, true, []⟩ [] rfl (normal_refl _ _)
    simp only [clone, events, hr]
    have := hn.2
    simp only [Nat.sub_zero] at this
    simp [this, Frame.close, Function.comp_def]

end IwModel.TreeClone
