import IwModel.Lemmas.Binn
/-! Well-formedness of documents for the binary form, nesting depth, and the round trip
`_jbl_node_from_binn ∘ _jbl_from_node_impl` on the model. -/
namespace IwModel.Binn
open IwModel.Gen.Binn

mutual
  /-- documents the binary form can hold faithfully: integers in `int64_t`, doubles are 64-bit patterns,
      strings and keys are NUL free, keys fit one length byte and are unique ignoring ASCII case -/
  def wf : JVal → Bool
    | .null => true
    | .bool _ => true
    | .int i => decide (-2 ^ 63 ≤ i ∧ i < 2 ^ 63)
    | .f64 b => decide (b < 2 ^ 64)
    | .str s => s.all (· ≠ 0)
    | .arr xs => wfList xs
    | .obj ms => wfMembers [] ms
  def wfList : List JVal → Bool
    | [] => true
    | x :: xs => wf x && wfList xs
  def wfMembers (seen : List Bytes) : List (Bytes × JVal) → Bool
    | [] => true
    | (k, v) :: ms =>
      decide (k.length ≤ 255) && k.all (· ≠ 0) && !dupKey seen k && wf v && wfMembers (k :: seen) ms
end

mutual
  def depth : JVal → Nat
    | .arr xs => depthList xs + 1
    | .obj ms => depthMembers ms + 1
    | _ => 0
  def depthList : List JVal → Nat
    | [] => 0
    | x :: xs => max (depth x) (depthList xs)
  def depthMembers : List (Bytes × JVal) → Nat
    | [] => 0
    | (_, v) :: ms => max (depth v) (depthMembers ms)
end

/-! ## the writer accepts every well-formed document -/
mutual
  theorem enc_isSome (v : JVal) (h : wf v = true) : ∃ bs, enc v = some bs := by
    match v with
    | .null => exact ⟨_, rfl⟩
    | .bool _ => exact ⟨_, rfl⟩
    | .int _ => exact ⟨_, rfl⟩
    | .f64 _ => exact ⟨_, rfl⟩
    | .str _ => exact ⟨_, rfl⟩
    | .arr xs =>
      simp only [wf] at h
      obtain ⟨b, hb⟩ := encList_isSome xs h
      exact ⟨container BINN_LIST xs.length b, by simp [enc, hb]⟩
    | .obj ms =>
      simp only [wf] at h
      obtain ⟨b, hb⟩ := encMembers_isSome [] ms h
      exact ⟨container BINN_OBJECT ms.length b, by simp [enc, hb]⟩
  theorem encList_isSome (xs : List JVal) (h : wfList xs = true) : ∃ b, encList xs = some b := by
    match xs with
    | [] => exact ⟨_, rfl⟩
    | x :: xs =>
      simp only [wfList, Bool.and_eq_true] at h
      obtain ⟨a, ha⟩ := enc_isSome x h.1
      obtain ⟨b, hb⟩ := encList_isSome xs h.2
      exact ⟨a ++ b, by simp [encList, ha, hb]⟩
  theorem encMembers_isSome (seen : List Bytes) (ms : List (Bytes × JVal)) (h : wfMembers seen ms = true) :
      ∃ b, encMembers seen ms = some b := by
    match ms with
    | [] => exact ⟨_, rfl⟩
    | (k, v) :: ms =>
      simp only [wfMembers, Bool.and_eq_true, decide_eq_true_eq, Bool.not_eq_true'] at h
      obtain ⟨⟨⟨⟨hk, _⟩, hd⟩, hv⟩, hm⟩ := h
      obtain ⟨a, ha⟩ := enc_isSome v hv
      obtain ⟨b, hb⟩ := encMembers_isSome (k :: seen) ms hm
      refine ⟨k.length :: (k ++ a ++ b), ?_⟩
      simp only [encMembers, ha, hb, MAX_BIN_KEY_LEN, hd]
      rw [if_neg (by simp; omega)]
end

theorem all_ne_zero (s : Bytes) (h : s.all (· ≠ 0) = true) : ∀ b ∈ s, b ≠ 0 := by
  intro b hb
  have := List.all_eq_true.mp h b hb
  simpa using this

/-! ## reading back what the writer produced -/
mutual
  theorem toNode_view (v : JVal) (fuel : Nat) (bs : Bytes) (hw : wf v = true) (he : enc v = some bs)
      (hs : bs.length + 9 < 2 ^ 31) (hd : depth v < fuel) : toNode fuel (viewOf v) = some v := by
    match v with
    | .null => cases fuel <;> simp [viewOf, toNode]
    | .bool _ => cases fuel <;> simp [viewOf, toNode]
    | .int i =>
      simp only [wf, decide_eq_true_eq] at hw
      cases fuel <;> simp [viewOf, toNode, wrap64_id i hw]
    | .f64 b =>
      simp only [wf, decide_eq_true_eq] at hw
      cases fuel <;> simp [viewOf, toNode, Nat.mod_eq_of_lt hw]
    | .str s =>
      simp only [wf] at hw
      cases fuel <;> simp [viewOf, toNode, cstr_id s (all_ne_zero s hw)]
    | .arr xs =>
      simp only [wf] at hw
      have hv : viewOf (.arr xs) = .cont bs := by simp [viewOf, he]
      simp only [enc, Option.map_eq_some_iff] at he
      obtain ⟨body, hb, rfl⟩ := he
      have hlen := encList_length xs body hb
      have hcl := container_length BINN_LIST xs.length body
      obtain ⟨h, hi, hty, hcnt⟩ := iterInit_container BINN_LIST xs.length body (Or.inl rfl) (by omega) (by omega)
      match fuel with
      | 0 => simp [depth] at hd
      | f + 1 =>
        simp only [depth] at hd
        rw [hv]
        simp only [toNode, hi, hty, hcnt, if_true]
        rw [listItems_encList xs body hb (by omega), toNode_viewList xs f body hw hb (by omega) (by omega)]
        rfl
    | .obj ms =>
      simp only [wf] at hw
      have hv : viewOf (.obj ms) = .cont bs := by simp [viewOf, he]
      simp only [enc, Option.map_eq_some_iff] at he
      obtain ⟨body, hb, rfl⟩ := he
      have hlen := encMembers_length [] ms body hb
      have hcl := container_length BINN_OBJECT ms.length body
      obtain ⟨h, hi, hty, hcnt⟩ := iterInit_container BINN_OBJECT ms.length body (Or.inr rfl) (by omega) (by omega)
      match fuel with
      | 0 => simp [depth] at hd
      | f + 1 =>
        simp only [depth] at hd
        rw [hv]
        have hne : ¬ (BINN_OBJECT = BINN_LIST) := by decide
        simp only [toNode, hi, hty, hcnt, if_true, if_neg hne]
        rw [objItems_encMembers [] ms body hb (by omega), toNode_viewMembers [] ms f body hw hb (by omega) (by omega)]
        rfl
  theorem toNode_viewList (xs : List JVal) (f : Nat) (body : Bytes) (hw : wfList xs = true)
      (he : encList xs = some body) (hs : body.length + 9 < 2 ^ 31) (hd : depthList xs < f) :
      allSome ((xs.map viewOf).map (toNode f)) = some xs := by
    match xs with
    | [] => rfl
    | x :: xs =>
      simp only [wfList, Bool.and_eq_true] at hw
      unfold encList at he
      split at he
      · rename_i a b ha hb
        simp only [Option.some.injEq] at he; subst he
        simp only [List.length_append] at hs
        simp only [depthList] at hd
        simp only [List.map_cons, allSome]
        rw [toNode_view x f a hw.1 ha (by omega) (by omega)]
        simp only [allSome]
        rw [toNode_viewList xs f b hw.2 hb (by omega) (by omega)]
        rfl
      · simp at he
  theorem toNode_viewMembers (seen : List Bytes) (ms : List (Bytes × JVal)) (f : Nat) (body : Bytes)
      (hw : wfMembers seen ms = true) (he : encMembers seen ms = some body) (hs : body.length + 9 < 2 ^ 31)
      (hd : depthMembers ms < f) :
      allSome ((ms.map fun m => (m.1, viewOf m.2)).map fun (k, v) => (toNode f v).map fun j => (k, j)) = some ms := by
    match ms with
    | [] => rfl
    | (k, v) :: ms =>
      simp only [wfMembers, Bool.and_eq_true] at hw
      obtain ⟨⟨_, hv⟩, hm⟩ := hw
      unfold encMembers at he
      split at he
      · simp at he
      · rename_i a ha
        split at he
        · simp at he
        · split at he
          · simp at he
          · rename_i b hb
            simp only [Option.some.injEq] at he; subst he
            simp only [List.length_cons, List.length_append] at hs
            simp only [depthMembers] at hd
            simp only [List.map_cons, allSome]
            rw [toNode_view v f a hv ha (by omega) (by omega)]
            simp only [Option.map_some, allSome]
            rw [toNode_viewMembers (k :: seen) ms f b hm hb (by omega) (by omega)]
            rfl
end

/-! ## the nesting depth is bounded by the encoded length (so `bs.length + 1` is enough fuel) -/
mutual
  theorem depth_le (v : JVal) (bs : Bytes) (he : enc v = some bs) : depth v ≤ bs.length := by
    match v with
    | .null => simp [depth]
    | .bool _ => simp [depth]
    | .int _ => simp [depth]
    | .f64 _ => simp [depth]
    | .str _ => simp [depth]
    | .arr xs =>
      simp only [enc, Option.map_eq_some_iff] at he
      obtain ⟨body, hb, rfl⟩ := he
      have := depthList_le xs body hb
      have := container_length BINN_LIST xs.length body
      simp only [depth]; omega
    | .obj ms =>
      simp only [enc, Option.map_eq_some_iff] at he
      obtain ⟨body, hb, rfl⟩ := he
      have := depthMembers_le [] ms body hb
      have := container_length BINN_OBJECT ms.length body
      simp only [depth]; omega
  theorem depthList_le (xs : List JVal) (body : Bytes) (he : encList xs = some body) : depthList xs ≤ body.length := by
    match xs with
    | [] => simp [depthList]
    | x :: xs =>
      unfold encList at he
      split at he
      · rename_i a b ha hb
        simp only [Option.some.injEq] at he; subst he
        have := depth_le x a ha
        have := depthList_le xs b hb
        simp only [depthList, List.length_append]; omega
      · simp at he
  theorem depthMembers_le (seen : List Bytes) (ms : List (Bytes × JVal)) (body : Bytes)
      (he : encMembers seen ms = some body) : depthMembers ms ≤ body.length := by
    match ms with
    | [] => simp [depthMembers]
    | (k, v) :: ms =>
      unfold encMembers at he
      split at he
      · simp at he
      · rename_i a ha
        split at he
        · simp at he
        · split at he
          · simp at he
          · rename_i b hb
            simp only [Option.some.injEq] at he; subst he
            have := depth_le v a ha
            have := depthMembers_le (k :: seen) ms b hb
            simp only [depthMembers, List.length_cons, List.length_append]; omega
end

/-- under `wf` the holder of a document is the view of its encoding -/
theorem fromNode_eq_viewOf (v : JVal) (hw : wf v = true) : fromNode v = some (viewOf v) := by
  obtain ⟨bs, he⟩ := enc_isSome v hw
  cases v with
  | null => rfl
  | bool _ => rfl
  | int _ => rfl
  | f64 b =>
    simp only [wf, decide_eq_true_eq] at hw
    simp [fromNode, viewOf, Nat.mod_eq_of_lt hw]
  | str _ => rfl
  | arr xs => simp [fromNode, viewOf, he]
  | obj ms => simp [fromNode, viewOf, he]

/-! ## elements of a well-formed document are well-formed and no longer than the document -/

theorem wfList_getElem (xs : List JVal) (i : Nat) (c : JVal) (hw : wfList xs = true) (h : xs[i]? = some c) :
    wf c = true := by
  induction xs generalizing i with
  | nil => simp at h
  | cons x xs ih =>
    simp only [wfList, Bool.and_eq_true] at hw
    cases i with
    | zero => simp at h; subst h; exact hw.1
    | succ i => simp at h; exact ih i hw.2 h

theorem encList_getElem (xs : List JVal) (i : Nat) (c : JVal) (body : Bytes) (he : encList xs = some body)
    (h : xs[i]? = some c) : ∃ a, enc c = some a ∧ a.length ≤ body.length := by
  induction xs generalizing i body with
  | nil => simp at h
  | cons x xs ih =>
    unfold encList at he
    split at he
    · rename_i a b ha hb
      simp only [Option.some.injEq] at he; subst he
      cases i with
      | zero => simp at h; subst h; exact ⟨a, ha, by simp⟩
      | succ i =>
        simp at h
        obtain ⟨a', ha', hl⟩ := ih i b hb h
        exact ⟨a', ha', by simp; omega⟩
    · simp at he

end IwModel.Binn
