import IwModel.Model.Bkp
/-! Event semantics over the backup model, the coherence invariant and its preservation. -/
namespace IwModel.Bkp

variable {M R : Type}

/-- what can happen to the store as far as the backup is concerned -/
inductive Evt (R : Type) where
  | write (r : R)        -- a store operation of some client thread (logged, applied to the mapping)
  | grow                 -- the file must grow inside an operation (`_onresize`)
  | checkpoint           -- explicit checkpoint or the checkpoint thread (under the exclusive lock)
  | savepoint            -- iwkv_sync or the checkpoint thread's savepoint (under the exclusive lock)
  | bkpStart | bkpCleanup | bkpCopyMain | bkpFinalSavepoint | bkpFinish

/-- One event. Events that need the exclusive lock or a database lock cannot happen while the backup holds
    the exclusive lock (stage 5); backup stages happen in their order; a crashed store does nothing. -/
def step (app : R → M → M) (s : St M R) : Evt R → St M R
  | .write r => if s.crashed || s.stage == 5 then s else write app r s
  | .grow => if s.crashed || s.stage == 5 then s else grow app s
  | .checkpoint => if s.crashed || s.stage == 5 then s else checkpoint app false s
  | .savepoint => if s.crashed || s.stage == 5 then s else savepoint s
  | .bkpStart => if s.crashed then s else (bkpStart s).1
  | .bkpCleanup => if s.crashed || s.stage != 1 then s else bkpCleanup app s
  | .bkpCopyMain => if s.crashed || s.stage != 3 then s else bkpCopyMain s
  | .bkpFinalSavepoint => if s.crashed || s.stage != 4 then s else bkpFinalSavepoint s
  | .bkpFinish => if s.crashed || s.stage != 5 then s else bkpFinish s

def run (app : R → M → M) (s : St M R) (es : List (Evt R)) : St M R := es.foldl (step app) s

/-- the store operations that took effect during a run, in order -/
def writesDone (app : R → M → M) : St M R → List (Evt R) → List R
  | _, [] => []
  | s, e :: es =>
    (match e with
     | .write r => if s.crashed || s.stage == 5 then [] else [r]
     | _ => []) ++ writesDone app (step app s e) es

theorem opsOf_append (a b : List (Rec R)) : opsOf (a ++ b) = opsOf a ++ opsOf b := by
  induction a with
  | nil => rfl
  | cons x t ih => cases x <;> simp [opsOf, ih]

theorem replay_append (app : R → M → M) (a b : List R) (m : M) :
    replay app (a ++ b) m = replay app b (replay app a m) := by
  induction a generalizing m with
  | nil => rfl
  | cons x t ih => simp [replay, ih]

theorem lastSp_go_append_sp (l : List (Rec R)) (i best : Nat) :
    lastSp.go i best (l ++ [Rec.sp]) = i + l.length + 1 := by
  induction l generalizing i best with
  | nil => simp [lastSp.go]
  | cons x t ih =>
    cases x <;> simp [lastSp.go, ih] <;> omega

/-- a log that ends in a savepoint is replayed completely when an image is opened -/
theorem lastSp_append_sp (l : List (Rec R)) : lastSp (l ++ [Rec.sp]) = (l ++ [Rec.sp]).length := by
  cases l with
  | nil => simp [lastSp, lastSp.go]
  | cons x t =>
    have := lastSp_go_append_sp (x :: t) 0 0
    simp only [List.cons_append] at this ⊢
    simp only [lastSp]
    rw [this]; simp

/-- The invariant of the model.
    * `coh`: the mapping equals the main file plus the part of the log that has not been rolled forward;
    * stage 3: the main file is the base of the image and the whole log leads from it to the mapping;
    * stage 4/5: the copied main part is that base; in stage 5 the log ends with the final savepoint and is
      flushed completely. -/
structure BInv (app : R → M → M) (s : St M R) : Prop where
  coh : s.mem = replay app (opsOf (s.log.drop s.rfo)) s.main
  rfo_le : s.rfo ≤ s.log.length
  stages : s.stage = 0 ∨ s.stage = 1 ∨ s.stage = 3 ∨ s.stage = 4 ∨ s.stage = 5
  st3 : s.stage = 3 → s.mem = replay app (opsOf s.log) s.main
  st4 : s.stage = 4 → ∃ b, s.imgMain = some b ∧ s.mem = replay app (opsOf s.log) b
  st5 : s.stage = 5 → ∃ b l, s.imgMain = some b ∧ s.log = l ++ [Rec.sp] ∧ s.flushed = s.log.length ∧
          s.mem = replay app (opsOf s.log) b

/-- a freshly opened store: nothing logged, mapping = main file, no backup -/
def Fresh (s : St M R) : Prop :=
  s.mem = s.main ∧ s.log = [] ∧ s.rfo = 0 ∧ s.stage = 0 ∧ s.crashed = false

theorem binv_fresh (app : R → M → M) {s : St M R} (h : Fresh s) : BInv app s := by
  obtain ⟨h1, h2, h3, h4, _⟩ := h
  refine ⟨by simp [h1, h2, opsOf, replay], by simp [h2, h3], Or.inl h4, ?_, ?_, ?_⟩ <;> intro hc <;> omega

/-- appending a record that is not a data record -/
theorem binv_append_marker (app : R → M → M) {s : St M R} (h : BInv app s) (r : Rec R) (hr : opsOf [r] = [])
    (hst : s.stage ≠ 5) : BInv app (append s r) := by
  have hdrop : (s.log ++ [r]).drop s.rfo = s.log.drop s.rfo ++ [r] := by
    rw [List.drop_append_of_le_length h.rfo_le]
  refine ⟨?_, ?_, h.stages, ?_, ?_, ?_⟩
  · show s.mem = replay app (opsOf ((s.log ++ [r]).drop s.rfo)) s.main
    rw [hdrop, opsOf_append, hr, List.append_nil]; exact h.coh
  · show s.rfo ≤ (s.log ++ [r]).length
    have := h.rfo_le; simp; omega
  · intro h3
    show s.mem = replay app (opsOf (s.log ++ [r])) s.main
    rw [opsOf_append, hr, List.append_nil]; exact h.st3 h3
  · intro h4
    obtain ⟨b, hb, hm⟩ := h.st4 h4
    exact ⟨b, hb, by show s.mem = replay app (opsOf (s.log ++ [r])) b; rw [opsOf_append, hr, List.append_nil]; exact hm⟩
  · intro h5; exact absurd h5 hst

theorem binv_flush (app : R → M → M) {s : St M R} (h : BInv app s) (hst : s.stage ≠ 5) : BInv app (flush s) :=
  ⟨h.coh, h.rfo_le, h.stages, h.st3, h.st4, fun h5 => absurd h5 hst⟩

theorem binv_write (app : R → M → M) {s : St M R} (h : BInv app s) (r : R) (hst : s.stage ≠ 5) :
    BInv app (write app r s) := by
  have hdrop : (s.log ++ [Rec.op r]).drop s.rfo = s.log.drop s.rfo ++ [Rec.op r] := by
    rw [List.drop_append_of_le_length h.rfo_le]
  refine ⟨?_, ?_, h.stages, ?_, ?_, ?_⟩
  · show app r s.mem = replay app (opsOf ((s.log ++ [Rec.op r]).drop s.rfo)) s.main
    rw [hdrop, opsOf_append, replay_append, ← h.coh]; rfl
  · show s.rfo ≤ (s.log ++ [Rec.op r]).length
    have := h.rfo_le; simp; omega
  · intro h3
    show app r s.mem = replay app (opsOf (s.log ++ [Rec.op r])) s.main
    rw [opsOf_append, replay_append, ← h.st3 h3]; rfl
  · intro h4
    obtain ⟨b, hb, hm⟩ := h.st4 h4
    refine ⟨b, hb, ?_⟩
    show app r s.mem = replay app (opsOf (s.log ++ [Rec.op r])) b
    rw [opsOf_append, replay_append, ← hm]; rfl
  · intro h5; exact absurd h5 hst

/-- roll-forward outside the main copy and outside stage 5 -/
theorem binv_rollforward (app : R → M → M) {s : St M R} (h : BInv app s) (hst : s.stage ≠ 5) (h3 : s.stage ≠ 3) :
    BInv app (rollforward app s) := by
  unfold rollforward
  by_cases hemp : s.log.isEmpty = true
  · simp only [hemp, if_true]; exact h
  · simp only [hemp, Bool.false_eq_true, if_false]
    have hmain : replay app (opsOf (s.log.drop s.rfo)) s.main = s.mem := h.coh.symm
    by_cases htr : (s.stage == 0 || s.stage == 2) = true
    · simp only [htr, if_true]
      have hs0 : s.stage = 0 := by
        rcases h.stages with h' | h' | h' | h' | h' <;> simp [h'] at htr ⊢
      refine ⟨?_, ?_, Or.inl hs0, ?_, ?_, ?_⟩
      · show s.mem = replay app (opsOf (([] : List (Rec R)).drop 0)) (replay app (opsOf (s.log.drop s.rfo)) s.main)
        simp [opsOf, replay, hmain]
      · show 0 ≤ ([] : List (Rec R)).length
        simp
      · intro hc; change s.stage = 3 at hc; omega
      · intro hc; change s.stage = 4 at hc; omega
      · intro hc; change s.stage = 5 at hc; omega
    · simp only [htr, Bool.false_eq_true, if_false]
      have hs14 : s.stage = 1 ∨ s.stage = 4 := by
        rcases h.stages with h' | h' | h' | h' | h'
        · simp [h'] at htr
        · exact Or.inl h'
        · exact absurd h' h3
        · exact Or.inr h'
        · exact absurd h' hst
      refine ⟨?_, ?_, h.stages, ?_, ?_, ?_⟩
      · show s.mem = replay app (opsOf ((s.log ++ [Rec.reset]).drop s.log.length)) (replay app (opsOf (s.log.drop s.rfo)) s.main)
        rw [List.drop_append_of_le_length (Nat.le_refl _), List.drop_length]
        simp [opsOf, replay, hmain]
      · show s.log.length ≤ (s.log ++ [Rec.reset]).length
        simp
      · intro hc; change s.stage = 3 at hc; exact absurd hc h3
      · intro hc
        change s.stage = 4 at hc
        obtain ⟨b, hb, hm⟩ := h.st4 hc
        refine ⟨b, hb, ?_⟩
        show s.mem = replay app (opsOf (s.log ++ [Rec.reset])) b
        rw [opsOf_append]; simpa [opsOf] using hm
      · intro hc; change s.stage = 5 at hc; exact absurd hc hst

theorem binv_checkpoint (app : R → M → M) {s : St M R} (h : BInv app s) (noFix : Bool) (hst : s.stage ≠ 5) :
    BInv app (checkpoint app noFix s) := by
  unfold checkpoint
  by_cases h3 : (s.stage == 3) = true
  · simp only [h3, if_true]; exact h
  · simp only [h3, Bool.false_eq_true, if_false]
    have h3' : s.stage ≠ 3 := by simpa using h3
    cases noFix with
    | true =>
      simp only [if_true]
      exact binv_rollforward app (binv_flush app h hst) hst h3'
    | false =>
      simp only [Bool.false_eq_true, if_false]
      have h1 : BInv app (append s Rec.sp) := binv_append_marker app h _ rfl hst
      have h2 : BInv app ({ append s Rec.sp with forceCp := false }) :=
        ⟨h1.coh, h1.rfo_le, h1.stages, h1.st3, h1.st4, h1.st5⟩
      exact binv_rollforward app (binv_flush app h2 hst) hst h3'

theorem binv_savepoint (app : R → M → M) {s : St M R} (h : BInv app s) (hst : s.stage ≠ 5) : BInv app (savepoint s) :=
  binv_flush app (binv_append_marker app h _ rfl hst) hst

/-- stage 2 of the backup: checkpoint with truncation, then MAIN_COPY -/
theorem binv_bkpCleanup (app : R → M → M) {s : St M R} (h : BInv app s) : BInv app (bkpCleanup app s) := by
  have hne : ((s.log ++ [Rec.sp]).isEmpty) = false := by simp
  have hdrop : (s.log ++ [Rec.sp]).drop s.rfo = s.log.drop s.rfo ++ [Rec.sp] := by
    rw [List.drop_append_of_le_length h.rfo_le]
  have hmain : replay app (opsOf ((s.log ++ [Rec.sp]).drop s.rfo)) s.main = s.mem := by
    rw [hdrop, opsOf_append]; simpa [opsOf] using h.coh.symm
  have hst : bkpCleanup app s =
      { s with main := s.mem, log := [], flushed := 0, rfo := 0, stage := 3, forceCp := false } := by
    simp [bkpCleanup, checkpoint, rollforward, flush, append, hne, hmain]
  rw [hst]
  refine ⟨?_, ?_, Or.inr (Or.inr (Or.inl rfl)), ?_, ?_, ?_⟩
  · simp [opsOf, replay]
  · simp
  · intro _; simp [opsOf, replay]
  · intro hc; simp at hc
  · intro hc; simp at hc

theorem binv_step (app : R → M → M) {s : St M R} (h : BInv app s) (e : Evt R) : BInv app (step app s e) := by
  cases e with
  | write r =>
    simp only [step]
    by_cases hg : (s.crashed || s.stage == 5) = true
    · simp only [hg, if_true]; exact h
    · simp only [hg, Bool.false_eq_true, if_false]
      exact binv_write app h r (by intro hc; simp [hc] at hg)
  | grow =>
    simp only [step]
    by_cases hg : (s.crashed || s.stage == 5) = true
    · simp only [hg, if_true]; exact h
    · simp only [hg, Bool.false_eq_true, if_false]
      have hst : s.stage ≠ 5 := by intro hc; simp [hc] at hg
      have h1 : BInv app (append s Rec.resize) := binv_append_marker app h _ rfl hst
      unfold grow
      by_cases h3 : ((append s Rec.resize).stage == 3) = true
      · simp only [h3, if_true]
        exact ⟨h1.coh, h1.rfo_le, h1.stages, h1.st3, h1.st4, h1.st5⟩
      · simp only [h3, Bool.false_eq_true, if_false]
        exact binv_checkpoint app h1 true hst
  | checkpoint =>
    simp only [step]
    by_cases hg : (s.crashed || s.stage == 5) = true
    · simp only [hg, if_true]; exact h
    · simp only [hg, Bool.false_eq_true, if_false]
      exact binv_checkpoint app h false (by intro hc; simp [hc] at hg)
  | savepoint =>
    simp only [step]
    by_cases hg : (s.crashed || s.stage == 5) = true
    · simp only [hg, if_true]; exact h
    · simp only [hg, Bool.false_eq_true, if_false]
      exact binv_savepoint app h (by intro hc; simp [hc] at hg)
  | bkpStart =>
    simp only [step]
    by_cases hg : s.crashed = true
    · simp only [hg, if_true]; exact h
    · simp only [hg, Bool.false_eq_true, if_false, bkpStart]
      by_cases h0 : (s.stage != 0) = true
      · simp only [h0, if_true]; exact h
      · simp only [h0, Bool.false_eq_true, if_false]
        refine ⟨h.coh, h.rfo_le, Or.inr (Or.inl rfl), ?_, ?_, ?_⟩ <;> intro hc <;> simp at hc
  | bkpCleanup =>
    simp only [step]
    by_cases hg : (s.crashed || s.stage != 1) = true
    · simp only [hg, if_true]; exact h
    · simp only [hg, Bool.false_eq_true, if_false]
      exact binv_bkpCleanup app h
  | bkpCopyMain =>
    simp only [step]
    by_cases hg : (s.crashed || s.stage != 3) = true
    · simp only [hg, if_true]; exact h
    · simp only [hg, Bool.false_eq_true, if_false]
      have h3 : s.stage = 3 := by
        simp only [Bool.or_eq_true, bne_iff_ne, ne_eq, not_or, Decidable.not_not] at hg; exact hg.2
      refine ⟨h.coh, h.rfo_le, Or.inr (Or.inr (Or.inr (Or.inl rfl))), ?_, ?_, ?_⟩
      · intro hc; simp [bkpCopyMain, flush] at hc
      · intro _; exact ⟨s.main, rfl, h.st3 h3⟩
      · intro hc; simp [bkpCopyMain, flush] at hc
  | bkpFinalSavepoint =>
    simp only [step]
    by_cases hg : (s.crashed || s.stage != 4) = true
    · simp only [hg, if_true]; exact h
    · simp only [hg, Bool.false_eq_true, if_false]
      have h4 : s.stage = 4 := by
        simp only [Bool.or_eq_true, bne_iff_ne, ne_eq, not_or, Decidable.not_not] at hg; exact hg.2
      obtain ⟨b, hb, hm⟩ := h.st4 h4
      have hdrop : (s.log ++ [Rec.sp]).drop s.rfo = s.log.drop s.rfo ++ [Rec.sp] := by
        rw [List.drop_append_of_le_length h.rfo_le]
      refine ⟨?_, ?_, Or.inr (Or.inr (Or.inr (Or.inr rfl))), ?_, ?_, ?_⟩
      · show s.mem = replay app (opsOf ((s.log ++ [Rec.sp]).drop s.rfo)) s.main
        rw [hdrop, opsOf_append]; simpa [opsOf] using h.coh
      · show s.rfo ≤ (s.log ++ [Rec.sp]).length
        have := h.rfo_le; simp; omega
      · intro hc; simp [bkpFinalSavepoint, savepoint, flush, append] at hc
      · intro hc; simp [bkpFinalSavepoint, savepoint, flush, append] at hc
      · intro _
        refine ⟨b, s.log, hb, rfl, rfl, ?_⟩
        show s.mem = replay app (opsOf (s.log ++ [Rec.sp])) b
        rw [opsOf_append]; simpa [opsOf] using hm
  | bkpFinish =>
    simp only [step]
    by_cases hg : (s.crashed || s.stage != 5) = true
    · simp only [hg, if_true]; exact h
    · simp only [hg, Bool.false_eq_true, if_false, bkpFinish]
      cases him : s.imgMain with
      | none => refine ⟨h.coh, h.rfo_le, Or.inl rfl, ?_, ?_, ?_⟩ <;> intro hc <;> simp at hc
      | some m => refine ⟨h.coh, h.rfo_le, Or.inl rfl, ?_, ?_, ?_⟩ <;> intro hc <;> simp at hc

theorem binv_run (app : R → M → M) {s : St M R} (h : BInv app s) (es : List (Evt R)) : BInv app (run app s es) := by
  induction es generalizing s with
  | nil => exact h
  | cons e es ih => exact ih (binv_step app h e)

theorem run_append (app : R → M → M) (s : St M R) (a b : List (Evt R)) :
    run app s (a ++ b) = run app (run app s a) b := by
  simp [run, List.foldl_append]

end IwModel.Bkp
