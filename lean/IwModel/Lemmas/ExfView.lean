import IwModel.Lemmas.ExfLay
/-! How the two-layer view changes with every call: what a later read returns, byte by byte. -/
namespace IwModel.Exf
open IwModel

/-! ## pages -/

theorem div_eq_iff_page (ps q p : Nat) (hps : 0 < ps) : q / ps = p ↔ p * ps ≤ q ∧ q < p * ps + ps := by
  constructor
  · intro h
    subst h
    exact ⟨Nat.div_mul_le_self q ps, Nat.lt_div_mul_add hps⟩
  · intro ⟨h1, h2⟩
    exact Nat.div_eq_of_lt_le h1 (by rw [Nat.succ_mul]; exact h2)

theorem page_inside (ps L p : Nat) (hps : 0 < ps) (hL : L % ps = 0) (h : p * ps < L) : p * ps + ps ≤ L := by
  have h1 := Nat.div_add_mod L ps
  rw [hL, Nat.add_zero] at h1
  have h2 : p < L / ps := by
    apply Nat.lt_of_mul_lt_mul_left (a := ps)
    rw [h1, Nat.mul_comm]; exact h
  have h3 : (p + 1) * ps ≤ (L / ps) * ps := Nat.mul_le_mul_right _ h2
  rw [Nat.succ_mul, Nat.mul_comm (L / ps)] at h3
  omega

theorem slotLen_aligned (ps : Nat) (s : Slot) (fsize : Nat) (h1 : s.off % ps = 0) (h2 : s.maxlen % ps = 0) (h3 : fsize % ps = 0) :
    slotLen s fsize % ps = 0 := by
  unfold slotLen
  split
  · exact Nat.zero_mod _
  · have hsub : (fsize - s.off) % ps = 0 :=
      Nat.mod_eq_zero_of_dvd (Nat.dvd_sub (Nat.dvd_of_mod_eq_zero h3) (Nat.dvd_of_mod_eq_zero h1))
    by_cases hm : s.maxlen ≤ fsize - s.off
    · rw [Nat.min_eq_left hm]; exact h2
    · rw [Nat.min_eq_right (by omega)]; exact hsub

/-! ## what a process sees through one window -/

/-- the byte at slot-relative `q` as seen through window `s` -/
def slotVal (ps : Nat) (file : Bytes) (s : Slot) (q : Nat) : Nat :=
  if s.priv && s.cow.contains (q / ps) then s.ovl.getD q 0 else file.getD (s.off + q) 0

theorem readAt_getD (f : Bytes) (o n k : Nat) (hk : k < n) : (readAt f o n).getD k 0 = f.getD (o + k) 0 := by
  simp only [List.getD_eq_getElem?_getD, getElem?_readAt, hk, if_true]

theorem cowPage_ovl (ps : Nat) (file : Bytes) (s : Slot) (p q : Nat) (hpage : s.off + p * ps + ps ≤ file.length) :
    (cowPage ps file s p).ovl.getD q 0 =
      if s.cow.contains p = false ∧ p * ps ≤ q ∧ q < p * ps + ps then file.getD (s.off + q) 0 else s.ovl.getD q 0 := by
  unfold cowPage
  by_cases hc : s.cow.contains p = true
  · rw [if_pos hc, if_neg (by intro hx; rw [hc] at hx; exact absurd hx.1 (by simp))]
  · have hc' : s.cow.contains p = false := by simpa using hc
    rw [if_neg hc]
    simp only [hc', true_and]
    have hl : (readAt file (s.off + p * ps) ps).length = ps := by rw [length_readAt]; omega
    rw [writeAt_getD, hl]
    by_cases hin : p * ps ≤ q ∧ q < p * ps + ps
    · rw [if_pos hin, if_pos hin, readAt_getD _ _ _ _ (by omega)]
      congr 1; omega
    · rw [if_neg hin, if_neg hin]

theorem cowPage_val (ps : Nat) (hps : 0 < ps) (file : Bytes) (s : Slot) (p q : Nat) (hp : s.priv = true)
    (hpage : s.off + p * ps + ps ≤ file.length) : slotVal ps file (cowPage ps file s p) q = slotVal ps file s q := by
  have hg := cowPage_geom ps file s p
  unfold slotVal
  rw [hg.1, hg.2.2.1, hp, cowPage_ovl ps file s p q hpage]
  simp only [Bool.true_and, List.contains_iff_mem, cowPage_mem]
  by_cases hq : q / ps = p
  · have hr := (div_eq_iff_page ps q p hps).mp hq
    by_cases hc : p ∈ s.cow
    · have : s.cow.contains p = true := by simpa using hc
      simp [hq, hc]
    · have : s.cow.contains p = false := by simpa using hc
      simp [hq, hc, hr.1, hr.2]
  · have hr : ¬ (p * ps ≤ q ∧ q < p * ps + ps) := fun h => hq ((div_eq_iff_page ps q p hps).mpr h)
    simp [hq, hr]

theorem cowFold_val (ps : Nat) (hps : 0 < ps) (file : Bytes) (p0 q : Nat) : ∀ (cnt : Nat) (s : Slot), s.priv = true →
    (∀ k, k < cnt → s.off + (p0 + k) * ps + ps ≤ file.length) →
    slotVal ps file ((List.range cnt).foldl (fun s k => cowPage ps file s (p0 + k)) s) q = slotVal ps file s q
  | 0, _, _, _ => rfl
  | cnt + 1, s, hp, hpg => by
    simp only [List.range_succ, List.foldl_append, List.foldl_cons, List.foldl_nil]
    have hg := cowFold_geom ps file p0 cnt s
    simp only [] at hg
    rw [cowPage_val ps hps file _ _ q (by rw [hg.2.2.1]; exact hp) (by rw [hg.1]; exact hpg cnt (by omega))]
    exact cowFold_val ps hps file p0 q cnt s hp (fun k hk => hpg k (by omega))

/-- **a store through a window, seen through that window**: the stored bytes where they were stored, everything else as
    before (copy-on-write snapshots the rest of the touched pages from the file) -/
theorem slotWrite_val (ps : Nat) (hps : 0 < ps) (file : Bytes) (s : Slot) (r : Nat) (d : Bytes) (q : Nat) (hp : s.priv = true)
    (hpg : ∀ p, p * ps < r + d.length → s.off + p * ps + ps ≤ file.length) :
    slotVal ps file (slotWrite ps file s r d).1 q =
      if r ≤ q ∧ q < r + d.length then d.getD (q - r) 0 else slotVal ps file s q := by
  cases hd : d with
  | nil => simp [slotWrite]; omega
  | cons x xs =>
    rw [← hd]
    have hne : d ≠ [] := by rw [hd]; simp
    have hlen : 0 < d.length := List.length_pos_iff.mpr hne
    have hw : (slotWrite ps file s r d).1 =
        { (List.range ((r + d.length - 1) / ps + 1 - r / ps)).foldl (fun s k => cowPage ps file s (r / ps + k)) s with
            ovl := writeAt ((List.range ((r + d.length - 1) / ps + 1 - r / ps)).foldl (fun s k => cowPage ps file s (r / ps + k)) s).ovl r d } := by
      rw [hd]; simp [slotWrite, hp]
    have hg := cowFold_geom ps file (r / ps) ((r + d.length - 1) / ps + 1 - r / ps) s
    simp only [] at hg
    have hpages : ∀ k, k < (r + d.length - 1) / ps + 1 - r / ps → s.off + (r / ps + k) * ps + ps ≤ file.length := by
      intro k hk
      apply hpg
      have h1 : r / ps + k ≤ (r + d.length - 1) / ps := by omega
      have h2 := Nat.div_mul_le_self (r + d.length - 1) ps
      have h3 : (r / ps + k) * ps ≤ (r + d.length - 1) / ps * ps := Nat.mul_le_mul_right _ h1
      omega
    have hfold := cowFold_val ps hps file (r / ps) q _ s hp hpages
    rw [hw]
    unfold slotVal at hfold ⊢
    simp only [hg.1, hg.2.2.1, hp, Bool.true_and] at hfold ⊢
    rw [writeAt_getD]
    by_cases hin : r ≤ q ∧ q < r + d.length
    · have hmem : (q / ps) ∈ ((List.range ((r + d.length - 1) / ps + 1 - r / ps)).foldl (fun s k => cowPage ps file s (r / ps + k)) s).cow := by
        rw [cowFold_mem]
        left
        have h1 : r / ps ≤ q / ps := Nat.div_le_div_right hin.1
        have h2 : q / ps ≤ (r + d.length - 1) / ps := Nat.div_le_div_right (by omega)
        omega
      have : ((List.range ((r + d.length - 1) / ps + 1 - r / ps)).foldl (fun s k => cowPage ps file s (r / ps + k)) s).cow.contains (q / ps) = true := by
        simpa using hmem
      rw [this, if_pos rfl, if_pos hin, if_pos hin]
    · rw [if_neg hin, if_neg hin]
      exact hfold

end IwModel.Exf
