import IwModel.Lemmas.ExfLay
/-! How the two-layer view changes with every call: what a later read returns, byte by byte. -/
namespace IwModel.Exf
open IwModel

/-! ## pages -/

theorem div_eq_iff_page (ps q p : Nat) (hps : 0 < ps) : q / ps = p ↔ p * ps ≤ q ∧ q < p * ps + ps := by
  constructor
  · intro h
    subst h
    exact ⟨Nat.div_mul_le_self q ps, Nat.lt_div_mul_add hps⟩
  · intro ⟨h1, h2⟩
    exact Nat.div_eq_of_lt_le h1 (by rw [Nat.succ_mul]; exact h2)

theorem page_inside (ps L p : Nat) (hps : 0 < ps) (hL : L % ps = 0) (h : p * ps < L) : p * ps + ps ≤ L := by
  have h1 := Nat.div_add_mod L ps
  rw [hL, Nat.add_zero] at h1
  have h2 : p < L / ps := by
    apply Nat.lt_of_mul_lt_mul_left (a := ps)
    rw [h1, Nat.mul_comm]; exact h
  have h3 : (p + 1) * ps ≤ (L / ps) * ps := Nat.mul_le_mul_right _ h2
  rw [Nat.succ_mul, Nat.mul_comm (L / ps)] at h3
  omega

theorem slotLen_aligned (ps : Nat) (s : Slot) (fsize : Nat) (h1 : s.off % ps = 0) (h2 : s.maxlen % ps = 0) (h3 : fsize % ps = 0) :
    slotLen s fsize % ps = 0 := by
  unfold slotLen
  split
  · exact Nat.zero_mod _
  · have hsub : (fsize - s.off) % ps = 0 :=
      Nat.mod_eq_zero_of_dvd (Nat.dvd_sub (Nat.dvd_of_mod_eq_zero h3) (Nat.dvd_of_mod_eq_zero h1))
    by_cases hm : s.maxlen ≤ fsize - s.off
    · rw [Nat.min_eq_left hm]; exact h2
    · rw [Nat.min_eq_right (by omega)]; exact hsub

/-! ## what a process sees through one window -/

/-- the byte at slot-relative `q` as seen through window `s` -/
def slotVal (ps : Nat) (file : Bytes) (s : Slot) (q : Nat) : Nat :=
  if s.priv && s.cow.contains (q / ps) then s.ovl.getD q 0 else file.getD (s.off + q) 0

theorem readAt_getD (f : Bytes) (o n k : Nat) (hk : k < n) : (readAt f o n).getD k 0 = f.getD (o + k) 0 := by
  simp only [List.getD_eq_getElem?_getD, getElem?_readAt, hk, if_true]

theorem cowPage_ovl (ps : Nat) (file : Bytes) (s : Slot) (p q : Nat) (hpage : s.off + p * ps + ps ≤ file.length) :
    (cowPage ps file s p).ovl.getD q 0 =
      if s.cow.contains p = false ∧ p * ps ≤ q ∧ q < p * ps + ps then file.getD (s.off + q) 0 else s.ovl.getD q 0 := by
  unfold cowPage
  by_cases hc : s.cow.contains p = true
  · rw [if_pos hc, if_neg (by intro hx; rw [hc] at hx; exact absurd hx.1 (by simp))]
  · have hc' : s.cow.contains p = false := by simpa using hc
    rw [if_neg hc]
    simp only [hc', true_and]
    have hl : (readAt file (s.off + p * ps) ps).length = ps := by rw [length_readAt]; omega
    rw [writeAt_getD, hl]
    by_cases hin : p * ps ≤ q ∧ q < p * ps + ps
    · rw [if_pos hin, if_pos hin, readAt_getD _ _ _ _ (by omega)]
      congr 1; omega
    · rw [if_neg hin, if_neg hin]

theorem cowPage_val (ps : Nat) (hps : 0 < ps) (file : Bytes) (s : Slot) (p q : Nat) (hp : s.priv = true)
    (hpage : s.off + p * ps + ps ≤ file.length) : slotVal ps file (cowPage ps file s p) q = slotVal ps file s q := by
  have hg := cowPage_geom ps file s p
  unfold slotVal
  rw [hg.1, hg.2.2.1, hp, cowPage_ovl ps file s p q hpage]
  simp only [Bool.true_and, List.contains_iff_mem, cowPage_mem]
  by_cases hq : q / ps = p
  · have hr := (div_eq_iff_page ps q p hps).mp hq
    by_cases hc : p ∈ s.cow
    · have : s.cow.contains p = true := by simpa using hc
      simp [hq, hc]
    · have : s.cow.contains p = false := by simpa using hc
      simp [hq, hc, hr.1, hr.2]
  · have hr : ¬ (p * ps ≤ q ∧ q < p * ps + ps) := fun h => hq ((div_eq_iff_page ps q p hps).mpr h)
    simp [hq, hr]

theorem cowFold_val (ps : Nat) (hps : 0 < ps) (file : Bytes) (p0 q : Nat) : ∀ (cnt : Nat) (s : Slot), s.priv = true →
    (∀ k, k < cnt → s.off + (p0 + k) * ps + ps ≤ file.length) →
    slotVal ps file ((List.range cnt).foldl (fun s k => cowPage ps file s (p0 + k)) s) q = slotVal ps file s q
  | 0, _, _, _ => rfl
  | cnt + 1, s, hp, hpg => by
    simp only [List.range_succ, List.foldl_append, List.foldl_cons, List.foldl_nil]
    have hg := cowFold_geom ps file p0 cnt s
    simp only [] at hg
    rw [cowPage_val ps hps file _ _ q (by rw [hg.2.2.1]; exact hp) (by rw [hg.1]; exact hpg cnt (by omega))]
    exact cowFold_val ps hps file p0 q cnt s hp (fun k hk => hpg k (by omega))

/-- **a store through a window, seen through that window**: the stored bytes where they were stored, everything else as
    before (copy-on-write snapshots the rest of the touched pages from the file) -/
theorem slotWrite_val (ps : Nat) (hps : 0 < ps) (file : Bytes) (s : Slot) (r : Nat) (d : Bytes) (q : Nat) (hp : s.priv = true)
    (hpg : ∀ p, 0 < d.length → p * ps < r + d.length → s.off + p * ps + ps ≤ file.length) :
    slotVal ps file (slotWrite ps file s r d).1 q =
      if r ≤ q ∧ q < r + d.length then d.getD (q - r) 0 else slotVal ps file s q := by
  cases hd : d with
  | nil => simp [slotWrite]; omega
  | cons x xs =>
    rw [← hd]
    have hne : d ≠ [] := by rw [hd]; simp
    have hlen : 0 < d.length := List.length_pos_iff.mpr hne
    have hw : (slotWrite ps file s r d).1 =
        { (List.range ((r + d.length - 1) / ps + 1 - r / ps)).foldl (fun s k => cowPage ps file s (r / ps + k)) s with
            ovl := writeAt ((List.range ((r + d.length - 1) / ps + 1 - r / ps)).foldl (fun s k => cowPage ps file s (r / ps + k)) s).ovl r d } := by
      rw [hd]; simp [slotWrite, hp]
    have hg := cowFold_geom ps file (r / ps) ((r + d.length - 1) / ps + 1 - r / ps) s
    simp only [] at hg
    have hpages : ∀ k, k < (r + d.length - 1) / ps + 1 - r / ps → s.off + (r / ps + k) * ps + ps ≤ file.length := by
      intro k hk
      apply hpg _ hlen
      have h1 : r / ps + k ≤ (r + d.length - 1) / ps := by omega
      have h2 := Nat.div_mul_le_self (r + d.length - 1) ps
      have h3 : (r / ps + k) * ps ≤ (r + d.length - 1) / ps * ps := Nat.mul_le_mul_right _ h1
      omega
    have hfold := cowFold_val ps hps file (r / ps) q _ s hp hpages
    rw [hw]
    unfold slotVal at hfold ⊢
    simp only [hg.1, hg.2.2.1, hp, Bool.true_and] at hfold ⊢
    rw [writeAt_getD]
    by_cases hin : r ≤ q ∧ q < r + d.length
    · have hmem : (q / ps) ∈ ((List.range ((r + d.length - 1) / ps + 1 - r / ps)).foldl (fun s k => cowPage ps file s (r / ps + k)) s).cow := by
        rw [cowFold_mem]
        left
        have h1 : r / ps ≤ q / ps := Nat.div_le_div_right hin.1
        have h2 : q / ps ≤ (r + d.length - 1) / ps := Nat.div_le_div_right (by omega)
        omega
      have : ((List.range ((r + d.length - 1) / ps + 1 - r / ps)).foldl (fun s k => cowPage ps file s (r / ps + k)) s).cow.contains (q / ps) = true := by
        simpa using hmem
      rw [this, if_pos rfl, if_pos hin, if_pos hin]
    · rw [if_neg hin, if_neg hin]
      exact hfold

/-! ## the view through the window that maps a byte -/

theorem view_at_val (ps : Nat) (file : Bytes) (slots : List Slot) (fsize : Nat) (hw : WInv slots fsize) (s : Slot)
    (hs : s ∈ slots) (i : Nat) (hc : covers s i = true) : view ps file slots i = slotVal ps file s (i - s.off) := by
  rw [view_at ps file slots fsize hw s hs i hc]
  unfold slotVal
  simp only [covers, Bool.and_eq_true, decide_eq_true_eq] at hc
  rw [show s.off + (i - s.off) = i by omega]

/-- byte `i` sits in the overlay of some private window -/
def inAnyOvl (ps : Nat) (slots : List Slot) (i : Nat) : Bool := slots.any fun s => inOvl ps s i

/-- … of a window whose mapping is redone when the file gets size `fs'` (its length changes), which drops the overlay -/
def droppedAt (ps : Nat) (slots : List Slot) (fs' : Nat) (i : Nat) : Bool :=
  slots.any fun s => inOvl ps s i && (slotLen s fs' != s.len)

/-- … of the window that starts at `o` -/
def inOvlOf (ps : Nat) (slots : List Slot) (o : Nat) (i : Nat) : Bool :=
  match slots.find? (fun s => s.off == o) with
  | some s => inOvl ps s i
  | none => false

theorem inOvl_covers (ps : Nat) (s : Slot) (i : Nat) (h : inOvl ps s i = true) : covers s i = true := by
  simp only [inOvl, Bool.and_eq_true] at h; exact h.1.2

theorem inOvl_unique (ps : Nat) (slots : List Slot) (fsize : Nat) (hw : WInv slots fsize) (s t : Slot) (hs : s ∈ slots)
    (ht : t ∈ slots) (i : Nat) (h1 : inOvl ps s i = true) (h2 : inOvl ps t i = true) : s = t :=
  cover_unique slots fsize hw s t hs ht i (inOvl_covers ps s i h1) (inOvl_covers ps t i h2)

/-- the view of a byte: either the overlay that holds it, or the file -/
theorem view_cases (ps : Nat) (file : Bytes) (slots : List Slot) (i : Nat) :
    (inAnyOvl ps slots i = false ∧ (∀ t ∈ slots, inOvl ps t i = false) ∧ view ps file slots i = file.getD i 0) ∨
    (inAnyOvl ps slots i = true ∧ ∃ s ∈ slots, inOvl ps s i = true ∧ slots.find? (fun s => inOvl ps s i) = some s ∧
      view ps file slots i = s.ovl.getD (i - s.off) 0) := by
  unfold view inAnyOvl
  cases h : slots.find? (fun s => inOvl ps s i) with
  | none =>
    left
    have hn := List.find?_eq_none.mp h
    refine ⟨?_, fun t ht => by simpa using hn t ht, rfl⟩
    simp only [List.any_eq_false]
    intro t ht; exact hn t ht
  | some s =>
    right
    have hp := List.find?_some h
    have hm := List.mem_of_find?_eq_some h
    exact ⟨List.any_eq_true.mpr ⟨s, hm, hp⟩, s, hm, hp, rfl, rfl⟩

/-- when only the file layer changes, bytes held in an overlay keep their value, all others show the new file -/
theorem view_file_only (ps : Nat) (file file' : Bytes) (slots : List Slot) (i : Nat) :
    view ps file' slots i = if inAnyOvl ps slots i then view ps file slots i else file'.getD i 0 := by
  rcases view_cases ps file slots i with ⟨h1, _, _⟩ | ⟨h1, s, _, _, hf, hv⟩
  · rcases view_cases ps file' slots i with ⟨_, _, h3⟩ | ⟨h2, _⟩
    · rw [h1, h3]; simp
    · rw [h1] at h2; cases h2
  · rw [h1, if_pos rfl, hv]
    unfold view; rw [hf]

theorem view_not_inOvl (ps : Nat) (file : Bytes) (slots : List Slot) (i : Nat) (h : inAnyOvl ps slots i = false) :
    view ps file slots i = file.getD i 0 := by
  rcases view_cases ps file slots i with ⟨_, _, h3⟩ | ⟨h2, _⟩
  · exact h3
  · rw [h] at h2; cases h2

/-- the view is decided by the one window whose overlay holds the byte -/
theorem view_of_unique (ps : Nat) (file : Bytes) (L : List Slot) (i : Nat) (c : Slot) (hc : c ∈ L) (hin : inOvl ps c i = true)
    (hu : ∀ t ∈ L, inOvl ps t i = true → t = c) : view ps file L i = c.ovl.getD (i - c.off) 0 := by
  unfold view
  rw [find_unique L (fun s => inOvl ps s i) c hu hc, hin]
  rfl

theorem view_of_none (ps : Nat) (file : Bytes) (L : List Slot) (i : Nat) (h : ∀ t ∈ L, inOvl ps t i = false) :
    view ps file L i = file.getD i 0 := by
  apply view_not_inOvl
  simp only [inAnyOvl, List.any_eq_false]
  intro t ht; simp [h t ht]

/-! ## size changes: every window whose length changes is mapped anew -/

theorem inOvl_remap (ps fs' : Nat) (s : Slot) (i : Nat) :
    inOvl ps (remapSlot fs' s) i = (inOvl ps s i && (slotLen s fs' == s.len)) := by
  unfold remapSlot
  simp only []
  by_cases h : slotLen s fs' = s.len
  · simp [h]
  · rw [if_neg h]
    simp [inOvl, h]

theorem view_remapAll (ps : Nat) (file file' : Bytes) (slots : List Slot) (fsize fs' i : Nat) (hw : WInv slots fsize)
    (hfi : file'.getD i 0 = file.getD i 0) :
    view ps file' (remapAll fs' slots) i = if droppedAt ps slots fs' i then file.getD i 0 else view ps file slots i := by
  rcases view_cases ps file slots i with ⟨_, hall, hv⟩ | ⟨_, c, hc, hin, _, hv⟩
  · have hd : droppedAt ps slots fs' i = false := by
      simp only [droppedAt, List.any_eq_false]
      intro t ht; simp [hall t ht]
    rw [hd, hv, view_of_none, hfi]
    · simp
    · intro t ht
      simp only [remapAll, List.mem_map] at ht
      obtain ⟨t0, ht0, rfl⟩ := ht
      rw [inOvl_remap, hall t0 ht0]; rfl
  · by_cases hch : slotLen c fs' = c.len
    · have hd : droppedAt ps slots fs' i = false := by
        simp only [droppedAt, List.any_eq_false]
        intro t ht hx
        simp only [Bool.and_eq_true, bne_iff_ne, ne_eq] at hx
        have := inOvl_unique ps slots fsize hw t c ht hc i hx.1 hin
        subst this
        exact hx.2 hch
      have hcc : remapSlot fs' c = c := by unfold remapSlot; simp [hch]
      rw [hd, hv]
      simp only [Bool.false_eq_true, if_false]
      apply view_of_unique ps file' _ i c
      · simp only [remapAll, List.mem_map]; exact ⟨c, hc, hcc⟩
      · exact hin
      · intro t ht hx
        simp only [remapAll, List.mem_map] at ht
        obtain ⟨t0, ht0, rfl⟩ := ht
        rw [inOvl_remap] at hx
        simp only [Bool.and_eq_true] at hx
        have := inOvl_unique ps slots fsize hw t0 c ht0 hc i hx.1 hin
        subst this; exact hcc
    · have hd : droppedAt ps slots fs' i = true := by
        simp only [droppedAt, List.any_eq_true]
        exact ⟨c, hc, by simp [hin, hch]⟩
      rw [hd, if_pos rfl, view_of_none, hfi]
      intro t ht
      simp only [remapAll, List.mem_map] at ht
      obtain ⟨t0, ht0, rfl⟩ := ht
      rw [inOvl_remap]
      by_cases hx : inOvl ps t0 i = true
      · have := inOvl_unique ps slots fsize hw t0 c ht0 hc i hx hin
        subst this; simp [hch]
      · simp [hx]

theorem droppedAt_same (ps : Nat) (slots : List Slot) (fsize i : Nat) (hw : WInv slots fsize) :
    droppedAt ps slots fsize i = false := by
  simp only [droppedAt, List.any_eq_false]
  intro t ht
  have := (hw.2 t ht).2
  simp [this]

theorem resize_getD (f : Bytes) (n i : Nat) (h : i < n) : (resize f n).getD i 0 = f.getD i 0 := by
  simp only [List.getD_eq_getElem?_getD, getElem?_resize, h, if_true, Option.getD_some]

/-- **after a size change** (below both sizes): bytes held by an overlay whose window had to be mapped anew show the file
    again; everything else is as before -/
theorem view_truncate (st : St) (size i : Nat) (hw : WInv st.slots st.fsize) (hi : i < (truncate st size).2.fsize) :
    view (truncate st size).2.psize (truncate st size).2.file (truncate st size).2.slots i =
      if droppedAt st.psize st.slots (truncate st size).2.fsize i then st.file.getD i 0
      else view st.psize st.file st.slots i := by
  rcases truncate_cases st size with ⟨e, _⟩ | ⟨e, _⟩ | ⟨e, _⟩ <;> rw [e] at hi ⊢
  · rw [droppedAt_same _ _ _ _ hw]; simp
  · rw [droppedAt_same _ _ _ _ hw]; simp
  · exact view_remapAll _ _ _ _ _ _ _ hw (resize_getD _ _ _ hi)

theorem view_ensureSize (st : St) (sz i : Nat) (hw : WInv st.slots st.fsize) (hi : i < (ensureSize st sz).2.fsize) :
    view (ensureSize st sz).2.psize (ensureSize st sz).2.file (ensureSize st sz).2.slots i =
      if droppedAt st.psize st.slots (ensureSize st sz).2.fsize i then st.file.getD i 0
      else view st.psize st.file st.slots i := by
  rcases ensureSize_cases st sz with ⟨_, e⟩ | ⟨_, e | e | ⟨T, _, e, _, _⟩⟩ <;> rw [e] at hi ⊢
  · rw [droppedAt_same _ _ _ _ hw]; simp
  · rw [droppedAt_same _ _ _ _ hw]; simp
  · rw [droppedAt_same _ _ _ _ hw]; simp
  · exact view_truncate { st with prev := (policy st.psize st.pol st.prev sz st.fsize).2 } T i hw hi

end IwModel.Exf
