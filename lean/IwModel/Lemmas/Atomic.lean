import IwModel.Model.Atomic
/-! Forward simulation from the fine-grained to the atomic semantics of lock-protected calls. -/
namespace IwModel.Atomic

variable {S X : Type}

@[simp] theorem upd_same {α : Type} (f : Nat → α) (i : Nat) (v : α) : upd f i v i = v := by simp [upd]
theorem upd_other {α : Type} (f : Nat → α) (i j : Nat) (v : α) (h : j ≠ i) : upd f i v j = f j := by simp [upd, h]

theorem runM_append (a b : List (S × X → S × X)) (p : S × X) : runM (a ++ b) p = runM b (runM a p) := by
  simp [runM, List.foldl_append]

theorem runM_readOnly (ms : List (S × X → S × X)) (h : ∀ m ∈ ms, ∀ p, (m p).1 = p.1) (p : S × X) :
    (runM ms p).1 = p.1 := by
  induction ms generalizing p with
  | nil => rfl
  | cons m t ih =>
    have : runM (m :: t) p = runM t (m p) := rfl
    rw [this, ih (fun m' hm' => h m' (List.mem_cons_of_mem _ hm')) (m p), h m List.mem_cons_self p]

/-- The invariant of fine-grained runs. `j1`: a running call has executed a prefix of its micro-steps from its
    starting point; `j2`: the database lock excludes writers from everybody else; `j3`/`j4`: the ghost `base` is
    the contents as of the start of the running writer, or the current contents when no writer runs. -/
structure AInv (cf : Cfg S X) : Prop where
  j1 : ∀ i k, (cf.thr i).cur = some k →
        ∃ done, done ++ k.rest = k.call.micro ∧ runM done (k.s0, k.x0) = (cf.sh k.call.db, (cf.thr i).x)
  j2 : ∀ i j ki kj, i ≠ j → (cf.thr i).cur = some ki → (cf.thr j).cur = some kj → ki.call.db = kj.call.db →
        ki.call.excl = false ∧ kj.call.excl = false
  j3 : ∀ i k, (cf.thr i).cur = some k → k.s0 = cf.base k.call.db
  j4 : ∀ d, (∀ i k, (cf.thr i).cur = some k → k.call.db = d → k.call.excl = false) → cf.base d = cf.sh d
  j5 : ∀ i, (∀ c ∈ (cf.thr i).todo, c.excl = false → c.readOnly) ∧
        (∀ k, (cf.thr i).cur = some k → k.call.excl = false → k.call.readOnly)
  j6 : ∀ i, cf.n ≤ i → (cf.thr i).cur = none

theorem ainv_initial {cf : Cfg S X} (hi : Initial cf) (hr : ReadersReadOnly cf) : AInv cf := by
  obtain ⟨hc, hb⟩ := hi
  refine ⟨?_, ?_, ?_, ?_, ?_, ?_⟩
  · intro i k h; rw [hc i] at h; cases h
  · intro i j ki kj _ h; rw [hc i] at h; cases h
  · intro i k h; rw [hc i] at h; cases h
  · intro d _; rw [hb]
  · intro i; exact ⟨hr i, fun k h => by rw [hc i] at h; cases h⟩
  · intro i _; exact hc i

/-- the view of a thread in the atomic semantics: a running call has not happened yet -/
def absT (t : TS S X) : ATS S X :=
  match t.cur with
  | none => ⟨t.todo, t.x⟩
  | some k => ⟨k.call :: t.todo, k.x0⟩

def Sim (cf : Cfg S X) (a : ACfg S X) : Prop := a.n = cf.n ∧ a.sh = cf.base ∧ ∀ i, a.thr i = absT (cf.thr i)

theorem sim_begin {cf : Cfg S X} {i : Nat} {c : Call S X} {rest : List (Call S X)} (hinv : AInv cf)
    (hi : i < cf.n) (htodo : (cf.thr i).todo = c :: rest) (hcur : (cf.thr i).cur = none) (hlock : lockFree cf i c)
    {a : ACfg S X} (hsim : Sim cf a) : AInv (cfBegin cf i c rest) ∧ Sim (cfBegin cf i c rest) a := by
  -- everybody else who is inside a call on the same database is a reader, and then so is `c`
  have others : ∀ j k, j ≠ i → (cf.thr j).cur = some k → k.call.db = c.db → c.excl = false ∧ k.call.excl = false := by
    intro j k hji hk hdb
    by_cases hj : j < cf.n
    · exact hlock j hj hji k hk hdb
    · have := hinv.j6 j (Nat.le_of_not_lt hj); rw [this] at hk; cases hk
  have thr_i : (cfBegin cf i c rest).thr i = ⟨rest, some ⟨c, c.micro, (cf.thr i).x, cf.sh c.db⟩, (cf.thr i).x⟩ := by
    simp [cfBegin]
  have thr_o : ∀ j, j ≠ i → (cfBegin cf i c rest).thr j = cf.thr j := by
    intro j hj; simp [cfBegin, upd_other _ _ _ _ hj]
  have hbase : cf.base c.db = cf.sh c.db := by
    apply hinv.j4
    intro j k hk hdb
    by_cases hji : j = i
    · subst hji; rw [hcur] at hk; cases hk
    · exact (others j k hji hk hdb).2
  constructor
  · refine ⟨?_, ?_, ?_, ?_, ?_, ?_⟩
    · intro j k hk
      by_cases hji : j = i
      · subst hji
        rw [thr_i] at hk ⊢
        simp only [Option.some.injEq] at hk
        subst hk
        exact ⟨[], rfl, rfl⟩
      · rw [thr_o j hji] at hk ⊢
        exact hinv.j1 j k hk
    · intro j1 j2 k1 k2 hne h1 h2 hdb
      by_cases h1i : j1 = i
      · subst h1i
        rw [thr_i] at h1; simp only [Option.some.injEq] at h1; subst h1
        rw [thr_o j2 (Ne.symm hne)] at h2
        exact others j2 k2 (Ne.symm hne) h2 hdb.symm
      · rw [thr_o j1 h1i] at h1
        by_cases h2i : j2 = i
        · subst h2i
          rw [thr_i] at h2; simp only [Option.some.injEq] at h2; subst h2
          have := others j1 k1 h1i h1 hdb
          exact ⟨this.2, this.1⟩
        · rw [thr_o j2 h2i] at h2
          exact hinv.j2 j1 j2 k1 k2 hne h1 h2 hdb
    · intro j k hk
      by_cases hji : j = i
      · subst hji
        rw [thr_i] at hk; simp only [Option.some.injEq] at hk; subst hk
        exact hbase.symm
      · rw [thr_o j hji] at hk; exact hinv.j3 j k hk
    · intro d hd
      show cf.base d = cf.sh d
      apply hinv.j4
      intro j k hk hdb
      have hji : j ≠ i := by intro h; subst h; rw [hcur] at hk; cases hk
      exact hd j k (by rw [thr_o j hji]; exact hk) hdb
    · intro j
      by_cases hji : j = i
      · subst hji
        rw [thr_i]
        have h5 := (hinv.j5 j).1
        rw [htodo] at h5
        refine ⟨fun c' hc' => h5 c' (List.mem_cons_of_mem _ hc'), ?_⟩
        intro k hk
        simp only [Option.some.injEq] at hk; subst hk
        exact h5 c List.mem_cons_self
      · rw [thr_o j hji]; exact hinv.j5 j
    · intro j hj
      have hj' : cf.n ≤ j := hj
      have hji : j ≠ i := by intro h; subst h; omega
      rw [thr_o j hji]; exact hinv.j6 j hj'
  · obtain ⟨hn, hsh, hthr⟩ := hsim
    refine ⟨hn, hsh, ?_⟩
    intro j
    by_cases hji : j = i
    · subst hji
      rw [hthr j, thr_i]
      simp [absT, hcur, htodo]
    · rw [thr_o j hji]; exact hthr j

theorem sim_micro {cf : Cfg S X} {i : Nat} {k : Cur S X} {m : S × X → S × X} {ms : List (S × X → S × X)}
    (hinv : AInv cf) (hcur : (cf.thr i).cur = some k) (hrest : k.rest = m :: ms)
    {a : ACfg S X} (hsim : Sim cf a) : AInv (cfMicro cf i k m ms) ∧ Sim (cfMicro cf i k m ms) a := by
  have thr_i : (cfMicro cf i k m ms).thr i =
      ⟨(cf.thr i).todo, some ⟨k.call, ms, k.x0, k.s0⟩, (m (cf.sh k.call.db, (cf.thr i).x)).2⟩ := by
    simp [cfMicro]
  have thr_o : ∀ j, j ≠ i → (cfMicro cf i k m ms).thr j = cf.thr j := by
    intro j hj; simp [cfMicro, upd_other _ _ _ _ hj]
  obtain ⟨done, hdone, hrun⟩ := hinv.j1 i k hcur
  have hmem : m ∈ k.call.micro := by rw [← hdone, hrest]; simp
  -- the contents of a database other than the call's, or of the call's when it is a reader, do not change
  have sh_keep : ∀ d, (d ≠ k.call.db ∨ k.call.excl = false) → (cfMicro cf i k m ms).sh d = cf.sh d := by
    intro d hd
    by_cases hdd : d = k.call.db
    · subst hdd
      rcases hd with hd | hd
      · exact absurd rfl hd
      · have hro := (hinv.j5 i).2 k hcur hd
        simp only [cfMicro, upd_same]
        exact hro m hmem _
    · simp [cfMicro, upd_other _ _ _ _ hdd]
  have sh_i : (cfMicro cf i k m ms).sh k.call.db = (m (cf.sh k.call.db, (cf.thr i).x)).1 := by simp [cfMicro]
  -- who is inside a call, and in which, is unchanged
  have cur_same : ∀ j kj, ((cfMicro cf i k m ms).thr j).cur = some kj →
      ∃ kj', (cf.thr j).cur = some kj' ∧ kj'.call = kj.call ∧ kj'.s0 = kj.s0 ∧ kj'.x0 = kj.x0 := by
    intro j kj h
    by_cases hji : j = i
    · subst hji
      rw [thr_i] at h; simp only [Option.some.injEq] at h; subst h
      exact ⟨k, hcur, rfl, rfl, rfl⟩
    · rw [thr_o j hji] at h; exact ⟨kj, h, rfl, rfl, rfl⟩
  constructor
  · refine ⟨?_, ?_, ?_, ?_, ?_, ?_⟩
    · intro j kj hk
      by_cases hji : j = i
      · subst hji
        rw [thr_i] at hk ⊢
        simp only [Option.some.injEq] at hk; subst hk
        refine ⟨done ++ [m], ?_, ?_⟩
        · simp only [List.append_assoc, List.singleton_append]; rw [← hrest]; exact hdone
        · show runM (done ++ [m]) (k.s0, k.x0) = _
          rw [runM_append, hrun, sh_i]; rfl
      · rw [thr_o j hji] at hk ⊢
        obtain ⟨dj, hdj, hrj⟩ := hinv.j1 j kj hk
        refine ⟨dj, hdj, ?_⟩
        rw [hrj]
        have : (cfMicro cf i k m ms).sh kj.call.db = cf.sh kj.call.db := by
          apply sh_keep
          by_cases hdb : kj.call.db = k.call.db
          · exact Or.inr (hinv.j2 i j k kj (Ne.symm hji) hcur hk hdb.symm).1
          · exact Or.inl hdb
        rw [this]
    · intro j1 j2 k1 k2 hne h1 h2 hdb
      obtain ⟨k1', h1', e1, _, _⟩ := cur_same j1 k1 h1
      obtain ⟨k2', h2', e2, _, _⟩ := cur_same j2 k2 h2
      rw [← e1, ← e2] at hdb ⊢
      exact hinv.j2 j1 j2 k1' k2' hne h1' h2' hdb
    · intro j kj hk
      obtain ⟨kj', hk', e, es, _⟩ := cur_same j kj hk
      rw [← e, ← es]
      exact hinv.j3 j kj' hk'
    · intro d hd
      have hb : cf.base d = cf.sh d := by
        apply hinv.j4
        intro j kj hk hdb
        by_cases hji : j = i
        · subst hji
          rw [hcur] at hk; simp only [Option.some.injEq] at hk; subst hk
          exact hd j ⟨k.call, ms, k.x0, k.s0⟩ (by rw [thr_i]) hdb
        · exact hd j kj (by rw [thr_o j hji]; exact hk) hdb
      show cf.base d = (cfMicro cf i k m ms).sh d
      rw [hb]
      symm
      apply sh_keep
      by_cases hdd : d = k.call.db
      · exact Or.inr (hd i ⟨k.call, ms, k.x0, k.s0⟩ (by rw [thr_i]) hdd.symm)
      · exact Or.inl hdd
    · intro j
      by_cases hji : j = i
      · subst hji
        rw [thr_i]
        refine ⟨(hinv.j5 j).1, ?_⟩
        intro kj hk
        simp only [Option.some.injEq] at hk; subst hk
        exact (hinv.j5 j).2 k hcur
      · rw [thr_o j hji]; exact hinv.j5 j
    · intro j hj
      have hj' : cf.n ≤ j := hj
      by_cases hji : j = i
      · subst hji; rw [hinv.j6 j hj'] at hcur; cases hcur
      · rw [thr_o j hji]; exact hinv.j6 j hj'
  · obtain ⟨hn, hsh, hthr⟩ := hsim
    refine ⟨hn, hsh, ?_⟩
    intro j
    by_cases hji : j = i
    · subst hji
      rw [hthr j, thr_i]
      simp [absT, hcur]
    · rw [thr_o j hji]; exact hthr j

theorem sim_finish {cf : Cfg S X} {i : Nat} {k : Cur S X} (hinv : AInv cf) (hi : i < cf.n)
    (hcur : (cf.thr i).cur = some k) (hrest : k.rest = [])
    {a : ACfg S X} (hsim : Sim cf a) :
    AInv (cfFinish cf i k) ∧ ∃ a', AStep a a' ∧ Sim (cfFinish cf i k) a' := by
  have thr_i : (cfFinish cf i k).thr i = ⟨(cf.thr i).todo, none, (cf.thr i).x⟩ := by simp [cfFinish]
  have thr_o : ∀ j, j ≠ i → (cfFinish cf i k).thr j = cf.thr j := by
    intro j hj; simp [cfFinish, upd_other _ _ _ _ hj]
  have base_d : (cfFinish cf i k).base k.call.db = cf.sh k.call.db := by simp [cfFinish]
  have base_o : ∀ d, d ≠ k.call.db → (cfFinish cf i k).base d = cf.base d := by
    intro d hd; simp [cfFinish, upd_other _ _ _ _ hd]
  obtain ⟨done, hdone, hrun⟩ := hinv.j1 i k hcur
  rw [hrest, List.append_nil] at hdone
  subst hdone
  have hs0 := hinv.j3 i k hcur
  -- whoever else is inside a call on the same database: everybody there is a reader, so base = contents
  have shared_db : ∀ j kj, j ≠ i → (cf.thr j).cur = some kj → kj.call.db = k.call.db → cf.base k.call.db = cf.sh k.call.db := by
    intro j kj hji hk hdb
    apply hinv.j4
    intro l kl hl hdl
    by_cases hli : l = i
    · subst hli
      rw [hcur] at hl; simp only [Option.some.injEq] at hl; subst hl
      exact (hinv.j2 l j k kj (Ne.symm hji) hcur hk hdb.symm).1
    · exact (hinv.j2 i l k kl (Ne.symm hli) hcur hl hdl.symm).2
  constructor
  · refine ⟨?_, ?_, ?_, ?_, ?_, ?_⟩
    · intro j kj hk
      by_cases hji : j = i
      · subst hji; rw [thr_i] at hk; cases hk
      · rw [thr_o j hji] at hk ⊢; exact hinv.j1 j kj hk
    · intro j1 j2 k1 k2 hne h1 h2 hdb
      have h1i : j1 ≠ i := by intro h; subst h; rw [thr_i] at h1; cases h1
      have h2i : j2 ≠ i := by intro h; subst h; rw [thr_i] at h2; cases h2
      rw [thr_o j1 h1i] at h1; rw [thr_o j2 h2i] at h2
      exact hinv.j2 j1 j2 k1 k2 hne h1 h2 hdb
    · intro j kj hk
      have hji : j ≠ i := by intro h; subst h; rw [thr_i] at hk; cases hk
      rw [thr_o j hji] at hk
      by_cases hdb : kj.call.db = k.call.db
      · rw [hdb, base_d, hinv.j3 j kj hk, hdb]
        exact shared_db j kj hji hk hdb
      · rw [base_o _ hdb]; exact hinv.j3 j kj hk
    · intro d hd
      show (cfFinish cf i k).base d = cf.sh d
      by_cases hdd : d = k.call.db
      · subst hdd; exact base_d
      · rw [base_o d hdd]
        apply hinv.j4
        intro j kj hk hdb
        by_cases hji : j = i
        · subst hji
          rw [hcur] at hk; simp only [Option.some.injEq] at hk; subst hk
          exact absurd hdb.symm hdd
        · exact hd j kj (by rw [thr_o j hji]; exact hk) hdb
    · intro j
      by_cases hji : j = i
      · subst hji
        rw [thr_i]
        exact ⟨(hinv.j5 j).1, fun kj hk => by cases hk⟩
      · rw [thr_o j hji]; exact hinv.j5 j
    · intro j hj
      have hj' : cf.n ≤ j := hj
      by_cases hji : j = i
      · subst hji; rw [thr_i]
      · rw [thr_o j hji]; exact hinv.j6 j hj'
  · obtain ⟨hn, hsh, hthr⟩ := hsim
    have hai : a.thr i = ⟨k.call :: (cf.thr i).todo, k.x0⟩ := by rw [hthr i]; simp [absT, hcur]
    have hres : runM k.call.micro (a.sh k.call.db, (a.thr i).x) = (cf.sh k.call.db, (cf.thr i).x) := by
      rw [hsh, hai, ← hs0]; exact hrun
    refine ⟨⟨a.n, upd a.sh k.call.db (cf.sh k.call.db),
             fun j => if j = i then ⟨(cf.thr i).todo, (cf.thr i).x⟩ else a.thr j⟩, ?_, ?_⟩
    · refine AStep.mk i k.call (cf.thr i).todo (by rw [hn]; exact hi) (by rw [hai]) rfl ?_ ?_
      · show upd a.sh k.call.db (cf.sh k.call.db) = _
        rw [hres]
      · intro j
        show (if j = i then _ else _) = _
        rw [hres]
    · refine ⟨hn, ?_, ?_⟩
      · show upd a.sh k.call.db (cf.sh k.call.db) = (cfFinish cf i k).base
        rw [hsh]; rfl
      · intro j
        show (if j = i then _ else _) = _
        by_cases hji : j = i
        · subst hji; rw [if_pos rfl, thr_i]; simp [absT]
        · rw [if_neg hji, thr_o j hji]; exact hthr j

/-- every fine-grained run is matched, step by step, by an atomic run -/
theorem sim_run {c0 c1 : Cfg S X} (hrun : CRun c0 c1) (hinv : AInv c0) {a0 : ACfg S X} (hsim : Sim c0 a0) :
    AInv c1 ∧ ∃ a1, ARun a0 a1 ∧ Sim c1 a1 := by
  induction hrun with
  | refl => exact ⟨hinv, a0, ARun.refl a0, hsim⟩
  | step _ hst ih =>
    obtain ⟨hinv1, a1, har, hs1⟩ := ih
    cases hst with
    | begin i c rest hi htodo hcur hlock =>
      obtain ⟨h1, h2⟩ := sim_begin hinv1 hi htodo hcur hlock hs1
      exact ⟨h1, a1, har, h2⟩
    | micro i k m ms hi hcur hrest =>
      obtain ⟨h1, h2⟩ := sim_micro hinv1 hcur hrest hs1
      exact ⟨h1, a1, har, h2⟩
    | finish i k hi hcur hrest =>
      obtain ⟨h1, a2, hst2, h2⟩ := sim_finish hinv1 hi hcur hrest hs1
      exact ⟨h1, a2, ARun.step har hst2, h2⟩

/-- example data for the non-vacuity check in Props/C07 -/
def exInc : Call Nat Nat := ⟨0, true, [fun p => (p.1, p.1), fun p => (p.2 + 1, p.2)]⟩
def exRd : Call Nat Nat := ⟨1, false, [fun p => (p.1, p.1)]⟩
def exCfg : Cfg Nat Nat :=
  ⟨2, fun _ => 5, fun _ => 5, fun i => if i = 0 then ⟨[exInc], none, 0⟩ else ⟨[exRd], none, 0⟩⟩


end IwModel.Atomic
