import IwModel.Model.Fsm
/-! The free-extent index as an ordered list: membership and order facts for `ins`, `erase`, and the bound look-ups. -/
namespace IwModel.Fsm

theorem KeyLt.irrefl (a : Ext) : ¬ KeyLt a a := by
  unfold KeyLt; omega

theorem KeyLt.trans {a b c : Ext} (h1 : KeyLt a b) (h2 : KeyLt b c) : KeyLt a c := by
  unfold KeyLt at *; omega

theorem KeyLt.total (a b : Ext) : KeyLt a b ∨ a = b ∨ KeyLt b a := by
  unfold KeyLt
  have : a = b ↔ a.1 = b.1 ∧ a.2 = b.2 := by
    constructor
    · intro h; subst h; exact ⟨rfl, rfl⟩
    · intro ⟨h1, h2⟩; exact Prod.ext h1 h2
  rw [this]; omega

theorem KeyLt.asymm {a b : Ext} (h : KeyLt a b) : ¬ KeyLt b a := by
  unfold KeyLt at *; omega

theorem KeyLt.ne {a b : Ext} (h : KeyLt a b) : a ≠ b := by
  intro e; subst e; exact KeyLt.irrefl a h

theorem mem_ins (x y : Ext) (t : List Ext) : y ∈ ins x t ↔ y = x ∨ y ∈ t := by
  induction t with
  | nil => simp [ins]
  | cons z zs ih =>
    simp only [ins]
    by_cases h1 : x = z
    · subst h1; simp
    · by_cases h2 : KeyLt x z
      · simp [h1, h2]
      · simp only [h1, h2, if_false, List.mem_cons, ih]
        constructor
        · rintro (h | h | h)
          · exact Or.inr (Or.inl h)
          · exact Or.inl h
          · exact Or.inr (Or.inr h)
        · rintro (h | h | h)
          · exact Or.inr (Or.inl h)
          · exact Or.inl h
          · exact Or.inr (Or.inr h)

theorem sorted_ins (x : Ext) (t : List Ext) (h : t.Pairwise KeyLt) : (ins x t).Pairwise KeyLt := by
  induction t with
  | nil => simp [ins]
  | cons z zs ih =>
    simp only [ins]
    rw [List.pairwise_cons] at h
    by_cases h1 : x = z
    · simp only [h1, if_true]; exact List.pairwise_cons.mpr h
    · by_cases h2 : KeyLt x z
      · simp only [h1, h2, if_false, if_true]
        refine List.pairwise_cons.mpr ⟨?_, List.pairwise_cons.mpr h⟩
        intro a ha
        rcases List.mem_cons.mp ha with e | e
        · subst e; exact h2
        · exact KeyLt.trans h2 (h.1 a e)
      · simp only [h1, h2, if_false]
        refine List.pairwise_cons.mpr ⟨?_, ih h.2⟩
        intro a ha
        rcases (mem_ins x a zs).mp ha with e | e
        · subst e
          rcases KeyLt.total a z with c | c | c
          · exact absurd c h2
          · exact absurd c h1
          · exact c
        · exact h.1 a e

theorem nodup_of_sorted {t : List Ext} (h : t.Pairwise KeyLt) : t.Nodup := by
  unfold List.Nodup
  exact h.imp (fun hab => KeyLt.ne hab)

theorem mem_erase_sorted {t : List Ext} (h : t.Pairwise KeyLt) (x y : Ext) :
    y ∈ t.erase x ↔ y ≠ x ∧ y ∈ t :=
  List.Nodup.mem_erase_iff (nodup_of_sorted h)

theorem sorted_erase {t : List Ext} (h : t.Pairwise KeyLt) (x : Ext) : (t.erase x).Pairwise KeyLt :=
  h.sublist List.erase_sublist

/-- two strictly ordered lists with the same members are equal -/
theorem sorted_ext {t u : List Ext} (ht : t.Pairwise KeyLt) (hu : u.Pairwise KeyLt)
    (h : ∀ x, x ∈ t ↔ x ∈ u) : t = u := by
  induction t generalizing u with
  | nil =>
    cases u with
    | nil => rfl
    | cons y ys => exact absurd ((h y).mpr (List.mem_cons_self ..)) (by simp)
  | cons x xs ih =>
    cases u with
    | nil => exact absurd ((h x).mp (List.mem_cons_self ..)) (by simp)
    | cons y ys =>
      rw [List.pairwise_cons] at ht hu
      have hxy : x = y := by
        rcases List.mem_cons.mp ((h x).mp (List.mem_cons_self ..)) with e | e
        · exact e
        · rcases List.mem_cons.mp ((h y).mpr (List.mem_cons_self ..)) with e2 | e2
          · exact e2.symm
          · exact absurd (ht.1 y e2) (KeyLt.asymm (hu.1 x e))
      subst hxy
      congr 1
      apply ih ht.2 hu.2
      intro z
      constructor
      · intro hz
        rcases List.mem_cons.mp ((h z).mp (List.mem_cons_of_mem _ hz)) with e | e
        · subst e; exact absurd (ht.1 z hz) (KeyLt.irrefl z)
        · exact e
      · intro hz
        rcases List.mem_cons.mp ((h z).mpr (List.mem_cons_of_mem _ hz)) with e | e
        · subst e; exact absurd (hu.1 z hz) (KeyLt.irrefl z)
        · exact e

/-! ### bound look-ups -/

theorem lowerB_mem {k z : Ext} {t : List Ext} (h : lowerB k t = some z) : z ∈ t := by
  induction t with
  | nil => simp [lowerB] at h
  | cons y ys ih =>
    simp only [lowerB] at h
    by_cases h1 : KeyLt k y
    · simp [h1] at h
    · simp only [h1, if_false] at h
      cases hl : lowerB k ys with
      | some w => rw [hl] at h; simp at h; subst h; exact List.mem_cons_of_mem _ (ih hl)
      | none => rw [hl] at h; simp at h; subst h; exact List.mem_cons_self ..

theorem upperB_mem {k z : Ext} {t : List Ext} (h : upperB k t = some z) : z ∈ t := by
  induction t with
  | nil => simp [upperB] at h
  | cons y ys ih =>
    simp only [upperB] at h
    by_cases h1 : KeyLt y k
    · simp only [h1, if_true] at h; exact List.mem_cons_of_mem _ (ih h)
    · simp only [h1, if_false, Option.some.injEq] at h; subst h; exact List.mem_cons_self ..

theorem lowerB_le {k z : Ext} {t : List Ext} (h : lowerB k t = some z) : ¬ KeyLt k z := by
  induction t with
  | nil => simp [lowerB] at h
  | cons y ys ih =>
    simp only [lowerB] at h
    by_cases h1 : KeyLt k y
    · simp [h1] at h
    · simp only [h1, if_false] at h
      cases hl : lowerB k ys with
      | some w => rw [hl] at h; simp at h; subst h; exact ih hl
      | none => rw [hl] at h; simp at h; subst h; exact h1

theorem upperB_ge {k z : Ext} {t : List Ext} (h : upperB k t = some z) : ¬ KeyLt z k := by
  induction t with
  | nil => simp [upperB] at h
  | cons y ys ih =>
    simp only [upperB] at h
    by_cases h1 : KeyLt y k
    · simp only [h1, if_true] at h; exact ih h
    · simp only [h1, if_false, Option.some.injEq] at h; subst h; exact h1

/-- what `_fsm_find_matching_fblock_lw` returns is an index entry at least as long as asked -/
theorem findMatching_spec {t : List Ext} {hint len : Nat} {z : Ext} (h : findMatching t hint len = some z) :
    z ∈ t ∧ len ≤ z.2 := by
  unfold findMatching at h
  simp only at h
  cases hl : lowerB (hint, len) t with
  | none =>
    cases hu : upperB (hint, len) t with
    | none => simp [hl, hu] at h
    | some u =>
      simp only [hl, hu] at h
      have hm := upperB_mem hu
      split at h
      · simp at h
      · split at h
        · simp at h; subst h; exact ⟨hm, by omega⟩
        · split at h
          · simp at h
          · split at h
            · simp at h; subst h; exact ⟨hm, by omega⟩
            · simp at h
  | some l =>
    have hlm := lowerB_mem hl
    cases hu : upperB (hint, len) t with
    | none =>
      simp only [hl, hu] at h
      split at h
      · simp at h; subst h; exact ⟨hlm, by omega⟩
      · split at h
        · simp at h
        · split at h
          · simp at h; subst h; exact ⟨hlm, by omega⟩
          · split at h <;> simp at h
    | some u =>
      simp only [hl, hu] at h
      have hm := upperB_mem hu
      split at h
      · simp at h; subst h; exact ⟨hlm, by omega⟩
      · split at h
        · simp at h; subst h; exact ⟨hm, by omega⟩
        · split at h
          · simp at h; subst h; exact ⟨hlm, by omega⟩
          · split at h
            · simp at h; subst h; exact ⟨hm, by omega⟩
            · simp at h

end IwModel.Fsm
