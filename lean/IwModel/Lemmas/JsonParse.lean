import IwModel.Lemmas.JsonNum
import IwModel.Lemmas.JsonStr
/-! The parser model on concrete syntax trees: `parseValue sd f lvl (pre ++ c.text ++ rest) = ok (c.value, rest)`. -/
namespace IwModel.Json
open IwModel

/-- bytes skipped at value position (white space and commas) -/
def sepOk (w : Bytes) : Bool := w.all isSep

theorem isWsByte_isSep (c : Nat) (h : isWsByte c = true) : isSep c = true := by
  simp only [isWsByte, Bool.or_eq_true, decide_eq_true_eq] at h
  simp only [isSep, Bool.decide_or, Bool.or_eq_true, decide_eq_true_eq]
  omega

theorem wsOk_sepOk (w : Bytes) (h : wsOk w = true) : sepOk w = true := by
  simp only [wsOk, sepOk, List.all_eq_true] at *
  exact fun c hc => isWsByte_isSep c (h c hc)

theorem sepOk_append (a b : Bytes) : sepOk (a ++ b) = (sepOk a && sepOk b) := by
  simp [sepOk]

theorem sepOk_nil : sepOk [] = true := rfl

theorem sepOk_comma : sepOk [44] = true := by decide

theorem dropWhile_sep (pre : Bytes) (x : Nat) (r : Bytes) (hp : sepOk pre = true) (hx : isSep x = false) :
    (pre ++ x :: r).dropWhile isSep = x :: r := by
  induction pre with
  | nil => simp [hx]
  | cons a as ih =>
    simp only [sepOk, List.all_cons, Bool.and_eq_true] at hp
    simp only [List.cons_append, List.dropWhile, hp.1]
    exact ih hp.2

theorem parseValue_succ (sd : SD) (f lvl : Nat) (p : Bytes) :
    parseValue sd (f + 1) lvl p =
      if lvl > maxNesting then .error .nesting else
      match p.dropWhile isSep with
      | [] => .error .json
      | c :: r =>
        if c = 0 then .error .json
        else if c = 110 then (if startsWith (c :: r) litNull then .ok (some .null, r.drop 3) else .error .json)
        else if c = 116 then (if startsWith (c :: r) litTrue then .ok (some (.bool true), r.drop 3) else .error .json)
        else if c = 102 then (if startsWith (c :: r) litFalse then .ok (some (.bool false), r.drop 4) else .error .json)
        else if c = 39 then .error .json
        else if c = 34 then
          match parseStr 34 r false with
          | .error e => .error e
          | .ok (s, rest) => .ok (some (.str s), rest)
        else if c = 123 then parseObj sd f lvl r []
        else if c = 91 then parseArr sd f lvl r []
        else if c = 93 then .ok (none, c :: r)
        else if c = 46 then .error .json
        else if c = 45 ∨ (48 ≤ c ∧ c ≤ 57) then
          match parseNumber sd (c :: r) with
          | .error e => .error e
          | .ok (v, rest) => .ok (some v, rest)
        else .error .json := by
  rw [parseValue]; rfl

theorem parseArr_succ (sd : SD) (f lvl : Nat) (p : Bytes) (acc : List JVal) :
    parseArr sd (f + 1) lvl p acc =
      match parseValue sd f (lvl + 1) p with
      | .error e => .error e
      | .ok (ov, p') =>
        match p' with
        | 93 :: r => .ok (some (.arr (pushOpt acc ov)), r)
        | _ => parseArr sd f lvl p' (pushOpt acc ov) := by
  rw [parseArr]; rfl

theorem parseObj_succ (sd : SD) (f lvl : Nat) (p : Bytes) (acc : List (Bytes × JVal)) :
    parseObj sd (f + 1) lvl p acc =
      match parseKey p with
      | .error e => .error e
      | .ok (ok, p') =>
        match p' with
        | 125 :: r => .ok (some (.obj acc), r)
        | _ =>
          match ok with
          | none => .error .json
          | some k =>
            match parseValue sd f (lvl + 1) p' with
            | .error e => .error e
            | .ok (ov, p'') => parseObj sd f lvl p'' (pushOpt acc (ov.map fun v => (k, v))) := by
  rw [parseObj]; rfl

/-- first byte of a value -/
def valueHead (b : Nat) : Prop :=
  b = 110 ∨ b = 116 ∨ b = 102 ∨ b = 34 ∨ b = 91 ∨ b = 123 ∨ b = 45 ∨ (48 ≤ b ∧ b ≤ 57)

theorem valueHead_not_sep (b : Nat) (h : valueHead b) : isSep b = false := by
  simp only [isSep, Bool.decide_or, Bool.or_eq_false_iff, decide_eq_false_iff_not]
  unfold valueHead at h
  omega

theorem signDigits_head (neg : Bool) (n : Nat) (tl : Bytes) :
    ∃ b r, signText neg ++ Conv.digits n ++ tl = b :: r ∧ (b = 45 ∨ (48 ≤ b ∧ b ≤ 57)) := by
  obtain ⟨c, r, hd, h1, h2, -⟩ := digits_head n
  cases neg
  · exact ⟨c, r ++ tl, by simp [signText, hd], Or.inr ⟨h1, h2⟩⟩
  · exact ⟨45, Conv.digits n ++ tl, by simp [signText], Or.inl rfl⟩

theorem Cst.text_head (c : Cst) : ∃ b r, c.text = b :: r ∧ valueHead b := by
  cases c with
  | null => exact ⟨110, _, rfl, by simp [valueHead]⟩
  | tru => exact ⟨116, _, rfl, by simp [valueHead]⟩
  | fals => exact ⟨102, _, rfl, by simp [valueHead]⟩
  | int neg n =>
    obtain ⟨b, r, h, hb⟩ := signDigits_head neg n []
    refine ⟨b, r, by simpa [Cst.text] using h, ?_⟩
    unfold valueHead; omega
  | dbl t =>
    obtain ⟨b, r, h, hb⟩ := signDigits_head t.neg t.ip t.tail
    refine ⟨b, r, by simpa [Cst.text, NumTok.text] using h, ?_⟩
    unfold valueHead; omega
  | str s => exact ⟨34, _, rfl, by simp [valueHead]⟩
  | arr ws0 items => exact ⟨91, _, rfl, by simp [valueHead]⟩
  | obj ws0 ms => exact ⟨123, _, rfl, by simp [valueHead]⟩

/-- closing bracket after separators: one more round of the loop -/
theorem parseArr_close (sd : SD) (f lvl : Nat) (w rest : Bytes) (acc : List JVal)
    (hw : sepOk w = true) (hl : lvl + 1 ≤ maxNesting) :
    parseArr sd (f + 2) lvl (w ++ 93 :: rest) acc = .ok (some (.arr acc), rest) := by
  rw [parseArr_succ, parseValue_succ, if_neg (by omega), dropWhile_sep w 93 rest hw (by decide)]
  simp [pushOpt]

theorem parseKey_skip (w p : Bytes) (hw : sepOk w = true) : parseKey (w ++ p) = parseKey p := by
  induction w with
  | nil => rfl
  | cons c cs ih =>
    simp only [sepOk, List.all_cons, Bool.and_eq_true] at hw
    have hc := hw.1
    simp only [isSep, Bool.decide_or, Bool.or_eq_true, decide_eq_true_eq] at hc
    rw [List.cons_append, parseKey]
    rw [if_neg (by omega), if_neg (by omega), if_neg (by omega), if_pos (by omega)]
    exact ih hw.2

theorem parseObj_close (sd : SD) (f lvl : Nat) (w rest : Bytes) (acc : List (Bytes × JVal)) (hw : sepOk w = true) :
    parseObj sd (f + 1) lvl (w ++ 125 :: rest) acc = .ok (some (.obj acc), rest) := by
  rw [parseObj_succ, parseKey_skip w _ hw, parseKey]
  simp

theorem dropWhile_ws (w : Bytes) (x : Nat) (r : Bytes) (hw : wsOk w = true) (hx : isWs x = false) :
    (w ++ x :: r).dropWhile isWs = x :: r := by
  induction w with
  | nil => simp [hx]
  | cons a as ih =>
    simp only [wsOk, List.all_cons, Bool.and_eq_true] at hw
    have ha : isWs a = true := by
      have := hw.1
      simp only [isWsByte, Bool.or_eq_true, decide_eq_true_eq] at this
      simp only [isWs, ne_eq, Bool.decide_and, Bool.and_eq_true, decide_eq_true_eq, decide_not, Bool.not_eq_true',
        decide_eq_false_iff_not]
      omega
    simp only [List.cons_append, List.dropWhile, ha]
    exact ih (by simpa [wsOk] using hw.2)

theorem takeWhile_no_zero (k : Bytes) (h : k.contains 0 = false) : k.takeWhile (· ≠ 0) = k := by
  induction k with
  | nil => rfl
  | cons a as ih =>
    simp only [List.contains_cons, Bool.or_eq_false_iff, beq_eq_false_iff_ne, ne_eq] at h
    have : (decide (a ≠ 0)) = true := by simp; omega
    simp only [List.takeWhile, this]
    rw [ih h.2]

/-- a member key with its colon -/
theorem parseKey_key (pre : Bytes) (k : List Spell) (w2 rest : Bytes) (hp : sepOk pre = true)
    (hk : strValid k = true) (hz : (strValue k).contains 0 = false) (hw : wsOk w2 = true) :
    parseKey (pre ++ quoted k ++ w2 ++ 58 :: rest) = .ok (some (strValue k), rest) := by
  rw [List.append_assoc, List.append_assoc, parseKey_skip pre _ hp]
  simp only [quoted, List.cons_append, List.append_assoc]
  rw [parseKey]
  simp only [show ¬ (34 = 0) by decide, ↓reduceIte]
  rw [parseStr_eq, decode_spells k _ hk]
  simp only [List.cons_append, List.nil_append]
  rw [dropWhile_ws w2 58 rest hw (by decide), takeWhile_no_zero _ hz]
  rfl

theorem delim_after (w2 : Bytes) (x : Nat) (tl : Bytes) (hw : wsOk w2 = true) (hx : x = 44 ∨ x = 93 ∨ x = 125) :
    delim (w2 ++ x :: tl) = true := by
  cases w2 with
  | nil => simp only [List.nil_append, delim, isWsByte, Bool.or_eq_true, decide_eq_true_eq]; omega
  | cons a as =>
    simp only [wsOk, List.all_cons, Bool.and_eq_true] at hw
    simp only [List.cons_append, delim, Bool.or_eq_true, hw.1, true_or]


/-- dispatch on the first byte of a value after separators -/
theorem parseValue_scalar (sd : SD) (D : Bytes → Nat) (ok : NumTok → Bool) (hsd : SdSpecOn ok sd D) (c : Cst) (f lvl : Nat)
    (pre rest : Bytes) (hs : match c with | .arr .. => False | .obj .. => False | _ => True)
    (hv : c.valid = true) (hk : c.toksOk ok = true) (hl : lvl ≤ maxNesting) (hp : sepOk pre = true) (hd : delim rest = true) :
    parseValue sd (f + 1) lvl (pre ++ c.text ++ rest) = .ok (some (c.value D), rest) := by
  obtain ⟨b, r, htx, hb⟩ := c.text_head
  rw [parseValue_succ, if_neg (by omega), List.append_assoc, htx, List.cons_append,
    dropWhile_sep pre b (r ++ rest) hp (valueHead_not_sep b hb)]
  cases c with
  | null =>
    simp only [Cst.text, List.cons.injEq] at htx
    obtain ⟨rfl, rfl⟩ := htx
    simp [startsWith, litNull, Cst.value]
  | tru =>
    simp only [Cst.text, List.cons.injEq] at htx
    obtain ⟨rfl, rfl⟩ := htx
    simp [startsWith, litTrue, Cst.value]
  | fals =>
    simp only [Cst.text, List.cons.injEq] at htx
    obtain ⟨rfl, rfl⟩ := htx
    simp [startsWith, litFalse, Cst.value]
  | str s =>
    simp only [Cst.text, quoted, List.cons.injEq] at htx
    obtain ⟨rfl, rfl⟩ := htx
    simp only [Cst.valid] at hv
    simp only [show ¬ (34 = 0) by decide, show ¬ (34 = 110) by decide, show ¬ (34 = 116) by decide,
      show ¬ (34 = 102) by decide, show ¬ (34 = 39) by decide, ↓reduceIte, List.append_assoc, List.cons_append,
      List.nil_append]
    rw [parseStr_eq, decode_spells s rest hv]
    simp [Cst.value]
  | int neg n =>
    obtain ⟨b', r', h', hb'⟩ := signDigits_head neg n []
    simp only [Cst.text] at htx
    simp only [List.append_nil, htx, List.cons.injEq] at h'
    obtain ⟨rfl, rfl⟩ := h'
    dsimp only
    rw [if_neg (by omega), if_neg (by omega), if_neg (by omega), if_neg (by omega), if_neg (by omega), if_neg (by omega),
      if_neg (by omega), if_neg (by omega), if_neg (by omega), if_neg (by omega), if_pos (by omega)]
    rw [← List.cons_append, ← htx, parseNumber_int sd neg n rest hv hd]
    simp [Cst.value]
  | dbl t =>
    obtain ⟨b', r', h', hb'⟩ := signDigits_head t.neg t.ip t.tail
    simp only [Cst.text, NumTok.text] at htx
    simp only [htx, List.cons.injEq] at h'
    obtain ⟨rfl, rfl⟩ := h'
    dsimp only
    rw [if_neg (by omega), if_neg (by omega), if_neg (by omega), if_neg (by omega), if_neg (by omega), if_neg (by omega),
      if_neg (by omega), if_neg (by omega), if_neg (by omega), if_neg (by omega), if_pos (by omega)]
    have htx' : t.text = b :: r := htx
    rw [← List.cons_append, ← htx', parseNumber_dbl sd D ok hsd t rest hv (by simpa [Cst.toksOk] using hk) hd]
    simp [Cst.value]
  | arr _ _ => exact hs.elim
  | obj _ _ => exact hs.elim

theorem parseValue_open (sd : SD) (f lvl : Nat) (pre : Bytes) (b : Nat) (r : Bytes) (hl : lvl ≤ maxNesting)
    (hp : sepOk pre = true) (hb : b = 91 ∨ b = 123) :
    parseValue sd (f + 1) lvl (pre ++ b :: r) =
      if b = 123 then parseObj sd f lvl r [] else parseArr sd f lvl r [] := by
  rw [parseValue_succ, if_neg (by omega), dropWhile_sep pre b r hp (by rcases hb with rfl | rfl <;> decide)]
  rcases hb with rfl | rfl <;> simp

theorem parseArr_step (sd : SD) (g lvl : Nat) (p R : Bytes) (acc : List JVal) (vv : JVal)
    (hpv : parseValue sd g (lvl + 1) p = .ok (some vv, R)) (hne : ∀ r, R ≠ 93 :: r) :
    parseArr sd (g + 1) lvl p acc = parseArr sd g lvl R (acc ++ [vv]) := by
  rw [parseArr_succ, hpv]
  simp only [pushOpt]

theorem parseArr_last (sd : SD) (g lvl : Nat) (p rest : Bytes) (acc : List JVal) (vv : JVal)
    (hpv : parseValue sd g (lvl + 1) p = .ok (some vv, 93 :: rest)) :
    parseArr sd (g + 1) lvl p acc = .ok (some (.arr (acc ++ [vv])), rest) := by
  rw [parseArr_succ, hpv]
  simp [pushOpt]

theorem ws_head_ne (w : Bytes) (x y : Nat) (tl : Bytes) (hw : wsOk w = true) (hx : x ≠ y) (hy : isWsByte y = false) :
    ∀ r, w ++ x :: tl ≠ y :: r := by
  intro r h
  cases w with
  | nil => simp at h; exact hx h.1
  | cons a as =>
    simp only [wsOk, List.all_cons, Bool.and_eq_true] at hw
    simp only [List.cons_append, List.cons.injEq] at h
    rw [h.1] at hw
    simp [hy] at hw

theorem parseObj_step (sd : SD) (g lvl : Nat) (p p' R : Bytes) (acc : List (Bytes × JVal)) (kv : Bytes) (vv : JVal)
    (hk : parseKey p = .ok (some kv, p')) (hne : ∀ r, p' ≠ 125 :: r)
    (hpv : parseValue sd g (lvl + 1) p' = .ok (some vv, R)) :
    parseObj sd (g + 1) lvl p acc = parseObj sd g lvl R (acc ++ [(kv, vv)]) := by
  rw [parseObj_succ, hk]
  simp only [hpv, pushOpt, Option.map]

theorem value_head_ne125 (w3 : Bytes) (v : Cst) (X : Bytes) (hw : wsOk w3 = true) :
    ∀ r, w3 ++ v.text ++ X ≠ 125 :: r := by
  obtain ⟨b, r0, htx, hb⟩ := v.text_head
  intro r
  rw [htx, List.append_assoc, List.cons_append]
  exact ws_head_ne w3 b 125 _ hw (by unfold valueHead at hb; omega) (by decide) r

mutual
  theorem parseValue_cst (sd : SD) (D : Bytes → Nat) (ok : NumTok → Bool) (hsd : SdSpecOn ok sd D) :
      ∀ (c : Cst) (f lvl : Nat) (pre rest : Bytes), c.valid = true → c.toksOk ok = true → lvl + c.depth ≤ maxNesting → c.need ≤ f →
        sepOk pre = true → delim rest = true →
        parseValue sd f lvl (pre ++ c.text ++ rest) = .ok (some (c.value D), rest)
    | .arr ws0 items, f, lvl, pre, rest, hv, hk, hl, hf, hp, hd => by
      simp only [Cst.toksOk] at hk
      simp only [Cst.need] at hf
      obtain ⟨f, rfl⟩ : ∃ g, f = g + 1 := ⟨f - 1, by omega⟩
      simp only [Cst.depth] at hl
      simp only [Cst.valid, Bool.and_eq_true] at hv
      simp only [Cst.text, List.cons_append, List.append_assoc]
      rw [parseValue_open sd f lvl pre 91 _ (by omega) hp (Or.inl rfl)]
      simp only [show ¬ (91 = 123) by decide, ↓reduceIte]
      cases hi : items.isNil
      · -- non-empty
        simp only [Bool.false_eq_true, ↓reduceIte, List.nil_append]
        have := parseArr_items sd D ok hsd items f lvl [] rest [] hi hv.2 hk (by omega) (by omega) sepOk_nil
        simp only [List.nil_append] at this
        rw [this]; simp [Cst.value]
      · -- empty array: `[ ws0 ]`
        cases items with
        | cons _ _ _ _ => simp [Items.isNil] at hi
        | nil =>
          simp only [↓reduceIte, Items.text, List.nil_append, Items.need] at *
          obtain ⟨f, rfl⟩ : ∃ g, f = g + 2 := ⟨f - 2, by omega⟩
          rw [parseArr_close sd f lvl ws0 rest [] (wsOk_sepOk _ hv.1) (by omega)]
          simp [Cst.value, Items.values]
    | .obj ws0 ms, f, lvl, pre, rest, hv, hk, hl, hf, hp, hd => by
      simp only [Cst.toksOk] at hk
      simp only [Cst.need] at hf
      obtain ⟨f, rfl⟩ : ∃ g, f = g + 1 := ⟨f - 1, by omega⟩
      simp only [Cst.depth] at hl
      simp only [Cst.valid, Bool.and_eq_true] at hv
      simp only [Cst.text, List.cons_append, List.append_assoc]
      rw [parseValue_open sd f lvl pre 123 _ (by omega) hp (Or.inr rfl)]
      simp only [↓reduceIte]
      cases hi : ms.isNil
      · simp only [Bool.false_eq_true, ↓reduceIte, List.nil_append]
        have := parseObj_members sd D ok hsd ms f lvl [] rest [] hi hv.2 hk (by omega) (by omega) sepOk_nil
        simp only [List.nil_append] at this
        rw [this]; simp [Cst.value]
      · cases ms with
        | cons _ _ _ _ _ _ _ => simp [Members.isNil] at hi
        | nil =>
          simp only [↓reduceIte, Members.text, List.nil_append, Members.need] at *
          obtain ⟨f, rfl⟩ : ∃ g, f = g + 1 := ⟨f - 1, by omega⟩
          rw [parseObj_close sd f lvl ws0 rest [] (wsOk_sepOk _ hv.1)]
          simp [Cst.value, Members.values]
    | .null, f, lvl, pre, rest, hv, hk, hl, hf, hp, hd => by
      obtain ⟨f, rfl⟩ : ∃ g, f = g + 1 := ⟨f - 1, by simp only [Cst.need] at hf; omega⟩
      exact parseValue_scalar sd D ok hsd .null f lvl pre rest trivial hv hk (by omega) hp hd
    | .tru, f, lvl, pre, rest, hv, hk, hl, hf, hp, hd => by
      obtain ⟨f, rfl⟩ : ∃ g, f = g + 1 := ⟨f - 1, by simp only [Cst.need] at hf; omega⟩
      exact parseValue_scalar sd D ok hsd .tru f lvl pre rest trivial hv hk (by omega) hp hd
    | .fals, f, lvl, pre, rest, hv, hk, hl, hf, hp, hd => by
      obtain ⟨f, rfl⟩ : ∃ g, f = g + 1 := ⟨f - 1, by simp only [Cst.need] at hf; omega⟩
      exact parseValue_scalar sd D ok hsd .fals f lvl pre rest trivial hv hk (by omega) hp hd
    | .int neg n, f, lvl, pre, rest, hv, hk, hl, hf, hp, hd => by
      obtain ⟨f, rfl⟩ : ∃ g, f = g + 1 := ⟨f - 1, by simp only [Cst.need] at hf; omega⟩
      exact parseValue_scalar sd D ok hsd (.int neg n) f lvl pre rest trivial hv hk (by omega) hp hd
    | .dbl t, f, lvl, pre, rest, hv, hk, hl, hf, hp, hd => by
      obtain ⟨f, rfl⟩ : ∃ g, f = g + 1 := ⟨f - 1, by simp only [Cst.need] at hf; omega⟩
      exact parseValue_scalar sd D ok hsd (.dbl t) f lvl pre rest trivial hv hk (by omega) hp hd
    | .str s, f, lvl, pre, rest, hv, hk, hl, hf, hp, hd => by
      obtain ⟨f, rfl⟩ : ∃ g, f = g + 1 := ⟨f - 1, by simp only [Cst.need] at hf; omega⟩
      exact parseValue_scalar sd D ok hsd (.str s) f lvl pre rest trivial hv hk (by omega) hp hd

  theorem parseArr_items (sd : SD) (D : Bytes → Nat) (ok : NumTok → Bool) (hsd : SdSpecOn ok sd D) :
      ∀ (items : Items) (f lvl : Nat) (pre rest : Bytes) (acc : List JVal), items.isNil = false →
        items.valid = true → items.toksOk ok = true → lvl + 1 + items.depth ≤ maxNesting → items.need ≤ f → sepOk pre = true →
        parseArr sd f lvl (pre ++ items.text ++ 93 :: rest) acc = .ok (some (.arr (acc ++ items.values D)), rest)
    | .nil, _, _, _, _, _, hn, _, _, _, _, _ => by simp [Items.isNil] at hn
    | .cons w1 v w2 tl, f, lvl, pre, rest, acc, _, hv, hk, hl, hf, hp => by
      simp only [Items.toksOk, Bool.and_eq_true] at hk
      simp only [Items.need] at hf
      obtain ⟨g, rfl⟩ : ∃ g, f = g + 1 := ⟨f - 1, by omega⟩
      simp only [Items.valid, Bool.and_eq_true] at hv
      obtain ⟨⟨⟨hw1, hvv⟩, hw2⟩, htv⟩ := hv
      simp only [Items.depth] at hl
      have hpre : sepOk (pre ++ w1) = true := by rw [sepOk_append, hp, wsOk_sepOk _ hw1]; rfl
      cases hi : tl.isNil
      · -- more items follow
        have hR : delim (w2 ++ 44 :: (tl.text ++ 93 :: rest)) = true := delim_after w2 44 _ hw2 (Or.inl rfl)
        have hpv := parseValue_cst sd D ok hsd v g (lvl + 1) (pre ++ w1) (w2 ++ 44 :: (tl.text ++ 93 :: rest)) hvv hk.1
          (by omega) (by omega) hpre hR
        have htxt : pre ++ (Items.cons w1 v w2 tl).text ++ 93 :: rest =
            pre ++ w1 ++ v.text ++ (w2 ++ 44 :: (tl.text ++ 93 :: rest)) := by
          simp [Items.text, hi, List.append_assoc]
        rw [htxt, parseArr_step sd g lvl _ _ acc _ hpv (ws_head_ne w2 44 93 _ hw2 (by decide) (by decide))]
        have hpre2 : sepOk (w2 ++ [44]) = true := by rw [sepOk_append, wsOk_sepOk _ hw2, sepOk_comma]; rfl
        have := parseArr_items sd D ok hsd tl g lvl (w2 ++ [44]) rest (acc ++ [v.value D]) hi htv hk.2 (by omega) (by omega) hpre2
        simp only [List.append_assoc, List.cons_append, List.nil_append] at this
        rw [this]
        simp [Items.values]
      · -- last item
        cases tl with
        | cons _ _ _ _ => simp [Items.isNil] at hi
        | nil =>
          have htxt : pre ++ (Items.cons w1 v w2 .nil).text ++ 93 :: rest = pre ++ w1 ++ v.text ++ (w2 ++ 93 :: rest) := by
            simp [Items.text, Items.isNil, List.append_assoc]
          have hR : delim (w2 ++ 93 :: rest) = true := delim_after w2 93 _ hw2 (Or.inr (Or.inl rfl))
          simp only [Items.need] at hf
          have hpv := parseValue_cst sd D ok hsd v g (lvl + 1) (pre ++ w1) (w2 ++ 93 :: rest) hvv hk.1 (by omega) (by omega) hpre hR
          rw [htxt]
          cases w2 with
          | nil =>
            rw [parseArr_last sd g lvl _ rest acc _ (by simpa using hpv)]
            simp [Items.values]
          | cons a as =>
            have hne : ∀ r, (a :: as) ++ 93 :: rest ≠ 93 :: r := by
              intro r h
              simp only [wsOk, List.all_cons, Bool.and_eq_true] at hw2
              simp only [List.cons_append, List.cons.injEq] at h
              rw [h.1] at hw2
              simp [isWsByte] at hw2
            rw [parseArr_step sd g lvl _ _ acc _ hpv hne]
            obtain ⟨g', rfl⟩ : ∃ g', g = g' + 2 := ⟨g - 2, by omega⟩
            rw [parseArr_close sd g' lvl (a :: as) rest _ (wsOk_sepOk _ hw2) (by omega)]
            simp [Items.values]

  theorem parseObj_members (sd : SD) (D : Bytes → Nat) (ok : NumTok → Bool) (hsd : SdSpecOn ok sd D) :
      ∀ (ms : Members) (f lvl : Nat) (pre rest : Bytes) (acc : List (Bytes × JVal)), ms.isNil = false →
        ms.valid = true → ms.toksOk ok = true → lvl + 1 + ms.depth ≤ maxNesting → ms.need ≤ f → sepOk pre = true →
        parseObj sd f lvl (pre ++ ms.text ++ 125 :: rest) acc = .ok (some (.obj (acc ++ ms.values D)), rest)
    | .nil, _, _, _, _, _, hn, _, _, _, _, _ => by simp [Members.isNil] at hn
    | .cons w1 k w2 w3 v w4 tl, f, lvl, pre, rest, acc, _, hv, hto, hl, hf, hp => by
      simp only [Members.toksOk, Bool.and_eq_true] at hto
      simp only [Members.need] at hf
      obtain ⟨g, rfl⟩ : ∃ g, f = g + 1 := ⟨f - 1, by omega⟩
      simp only [Members.valid, Bool.and_eq_true, Bool.not_eq_true'] at hv
      obtain ⟨⟨⟨⟨⟨⟨⟨hw1, hkv⟩, hkz⟩, hw2⟩, hw3⟩, hvv⟩, hw4⟩, htv⟩ := hv
      simp only [Members.depth] at hl
      have hpre : sepOk (pre ++ w1) = true := by rw [sepOk_append, hp, wsOk_sepOk _ hw1]; rfl
      cases hi : tl.isNil
      · have htxt : pre ++ (Members.cons w1 k w2 w3 v w4 tl).text ++ 125 :: rest =
            pre ++ w1 ++ quoted k ++ w2 ++ 58 :: (w3 ++ v.text ++ (w4 ++ 44 :: (tl.text ++ 125 :: rest))) := by
          simp [Members.text, hi, List.append_assoc]
        have hk := parseKey_key (pre ++ w1) k w2 (w3 ++ v.text ++ (w4 ++ 44 :: (tl.text ++ 125 :: rest))) hpre hkv hkz hw2
        have hR : delim (w4 ++ 44 :: (tl.text ++ 125 :: rest)) = true := delim_after w4 44 _ hw4 (Or.inl rfl)
        have hpv := parseValue_cst sd D ok hsd v g (lvl + 1) w3 (w4 ++ 44 :: (tl.text ++ 125 :: rest)) hvv hto.1
          (by omega) (by omega) (wsOk_sepOk _ hw3) hR
        rw [htxt, parseObj_step sd g lvl _ _ _ acc _ _ hk (value_head_ne125 w3 v _ hw3) hpv]
        have hpre2 : sepOk (w4 ++ [44]) = true := by rw [sepOk_append, wsOk_sepOk _ hw4, sepOk_comma]; rfl
        have := parseObj_members sd D ok hsd tl g lvl (w4 ++ [44]) rest (acc ++ [(strValue k, v.value D)]) hi htv hto.2
          (by omega) (by omega) hpre2
        simp only [List.append_assoc, List.cons_append, List.nil_append] at this
        rw [this]
        simp [Members.values]
      · cases tl with
        | cons _ _ _ _ _ _ _ => simp [Members.isNil] at hi
        | nil =>
          have htxt : pre ++ (Members.cons w1 k w2 w3 v w4 .nil).text ++ 125 :: rest =
              pre ++ w1 ++ quoted k ++ w2 ++ 58 :: (w3 ++ v.text ++ (w4 ++ 125 :: rest)) := by
            simp [Members.text, Members.isNil, List.append_assoc]
          have hk := parseKey_key (pre ++ w1) k w2 (w3 ++ v.text ++ (w4 ++ 125 :: rest)) hpre hkv hkz hw2
          have hR : delim (w4 ++ 125 :: rest) = true := delim_after w4 125 _ hw4 (Or.inr (Or.inr rfl))
          simp only [Members.need] at hf
          have hpv := parseValue_cst sd D ok hsd v g (lvl + 1) w3 (w4 ++ 125 :: rest) hvv hto.1
            (by omega) (by omega) (wsOk_sepOk _ hw3) hR
          rw [htxt, parseObj_step sd g lvl _ _ _ acc _ _ hk (value_head_ne125 w3 v _ hw3) hpv]
          obtain ⟨g', rfl⟩ : ∃ g', g = g' + 1 := ⟨g - 1, by omega⟩
          rw [parseObj_close sd g' lvl w4 rest _ (wsOk_sepOk _ hw4)]
          simp [Members.values]
end


mutual
  theorem Cst.toksOk_true : ∀ c : Cst, c.toksOk (fun _ => true) = true
    | .null | .tru | .fals | .int _ _ | .str _ | .dbl _ => by simp [Cst.toksOk]
    | .arr _ items => by simp [Cst.toksOk, Items.toksOk_true items]
    | .obj _ ms => by simp [Cst.toksOk, Members.toksOk_true ms]
  theorem Items.toksOk_true : ∀ i : Items, i.toksOk (fun _ => true) = true
    | .nil => by simp [Items.toksOk]
    | .cons _ v _ tl => by simp [Items.toksOk, Cst.toksOk_true v, Items.toksOk_true tl]
  theorem Members.toksOk_true : ∀ m : Members, m.toksOk (fun _ => true) = true
    | .nil => by simp [Members.toksOk]
    | .cons _ _ _ _ v _ tl => by simp [Members.toksOk, Cst.toksOk_true v, Members.toksOk_true tl]
end

end IwModel.Json
