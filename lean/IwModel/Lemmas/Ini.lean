import IwModel.Model.Ini
import IwModel.Lemmas.CStr
namespace IwModel.Ini
open IwModel.CStr

variable (sp : Nat → Bool)

theorem rtrim_snoc (w : Bytes) (c : Nat) : rtrim sp (w ++ [c]) = if sp c then rtrim sp w else w ++ [c] := by
  unfold rtrim; simp [List.dropWhile_cons]; split <;> simp

theorem rtrim_nil : rtrim sp [] = [] := by simp [rtrim]

theorem rtrim_length_le (w : Bytes) : (rtrim sp w).length ≤ w.length := by
  unfold rtrim; simp only [List.length_reverse]
  have := List.dropWhile_sublist (l := w.reverse) sp
  have := this.length_le; simpa using this

theorem rtrim_not_mem (w : Bytes) (h : 0 ∉ w) : 0 ∉ rtrim sp w := by
  unfold rtrim; intro hm
  have hm : 0 ∈ w.reverse.dropWhile sp := by simpa using hm
  have := (List.dropWhile_sublist (l := w.reverse) sp).mem hm
  exact h (by simpa using this)

theorem ltrim_not_mem (w : Bytes) (h : 0 ∉ w) : 0 ∉ ltrim sp w := by
  unfold ltrim; intro hm
  exact h ((List.dropWhile_sublist (l := w) sp).mem hm)

/-- the buffer after `rstrip` of a string `w`: the kept part, then NULs in place of the blanks -/
def rpad (w : Bytes) : Bytes := rtrim sp w ++ List.replicate (w.length - (rtrim sp w).length) 0

theorem rpad_length (w : Bytes) : (rpad sp w).length = w.length := by
  have := rtrim_length_le sp w
  simp [rpad]; omega

theorem snoc_induction {P : Bytes → Prop} (nil : P []) (snoc : ∀ w c, P w → P (w ++ [c])) : ∀ w, P w := by
  intro w
  have : ∀ n (w : Bytes), w.length = n → P w := by
    intro n; induction n with
    | zero => intro w h; have := List.eq_nil_of_length_eq_zero h; subst this; exact nil
    | succ n ih =>
      intro w h
      have hne : w ≠ [] := by intro e; subst e; simp at h
      rw [← List.dropLast_concat_getLast hne]; apply snoc; apply ih; simp [h]
  exact this _ _ rfl

theorem rstripLoop_app (X w R : Bytes) :
    rstripLoop sp (X ++ w ++ R) X.length (X.length + w.length) = some (X ++ rpad sp w ++ R) := by
  induction w using snoc_induction generalizing R with
  | nil =>
    simp only [List.append_nil, List.length_nil, Nat.add_zero, rpad, rtrim_nil, List.length_nil, Nat.sub_self, List.replicate_zero]
    cases h : X.length with
    | zero => simp [rstripLoop]
    | succ n => simp [rstripLoop]
  | snoc w c ih =>
    have hlen : X.length + (w ++ [c]).length = (X.length + w.length) + 1 := by simp; omega
    rw [hlen, rstripLoop]
    have hg : (X ++ (w ++ [c]) ++ R)[X.length + w.length]? = some c := by
      have := get_at' X w R c; simp
    simp only [show X.length < X.length + w.length + 1 by omega, if_true, hg]
    by_cases hs : sp c = true
    · simp only [hs, if_true]
      have hw : wr (X ++ (w ++ [c]) ++ R) (X.length + w.length) 0 = some (X ++ w ++ 0 :: R) := by
        have := wr_at' X w R c 0; simpa using this
      rw [hw]; simp only []
      have := ih (0 :: R)
      rw [this]
      have hl := rtrim_length_le sp w
      simp only [rpad, rtrim_snoc, hs, if_true, List.length_append, List.length_singleton]
      rw [show w.length + 1 - (rtrim sp w).length = (w.length - (rtrim sp w).length) + 1 by omega, List.replicate_succ']
      simp
    · simp only [hs]
      simp [rpad, rtrim_snoc, hs]

theorem rstrip_app (X w P : Bytes) (hw : 0 ∉ w) :
    rstrip sp (X ++ w ++ 0 :: P) X.length = some (X ++ rpad sp w ++ 0 :: P) := by
  unfold rstrip; rw [strEnd_app X w P hw]; exact rstripLoop_app sp X w (0 :: P)


theorem lskip_step (buf : Bytes) (i c : Nat) (h : buf[i]? = some c) :
    lskip sp buf i = if c ≠ 0 ∧ sp c then lskip sp buf (i + 1) else some i := by
  rw [lskip]; split
  · simp_all
  · simp_all

theorem lskip_app (X w P : Bytes) (hw : 0 ∉ w) :
    lskip sp (X ++ w ++ 0 :: P) X.length = some (X.length + (w.takeWhile sp).length) := by
  induction w generalizing X with
  | nil => rw [lskip_step _ _ _ 0 (by simp)]; simp
  | cons c t ih =>
    obtain ⟨hc, ht⟩ := not_mem_cons hw
    rw [lskip_step _ _ _ c (by simp)]
    by_cases hs : sp c = true
    · rw [if_pos ⟨hc, hs⟩, snoc_shift]
      have := ih (X ++ [c]) ht
      simp only [List.length_append, List.length_singleton] at this
      rw [this]; simp [hs]; omega
    · rw [if_neg (by simp [hs])]; simp [hs]

theorem findCC_step (inl : List Nat) (buf chars : Bytes) (i c : Nat) (ws : Bool) (h : buf[i]? = some c) :
    findCC sp inl buf chars i ws =
      if c ≠ 0 ∧ ¬ chars.contains c ∧ ¬ (ws ∧ inl.contains c) then findCC sp inl buf chars (i + 1) (sp c) else some i := by
  rw [findCC]; split
  · simp_all
  · simp_all

theorem findCC_app (inl : List Nat) (X w P chars : Bytes) (ws : Bool) (hw : 0 ∉ w) :
    findCC sp inl (X ++ w ++ 0 :: P) chars X.length ws = some (X.length + scanCC sp inl chars ws w) := by
  induction w generalizing X ws with
  | nil => rw [findCC_step _ _ _ _ _ 0 _ (by simp)]; simp [scanCC]
  | cons c t ih =>
    obtain ⟨hc, ht⟩ := not_mem_cons hw
    rw [findCC_step _ _ _ _ _ c _ (by simp)]
    by_cases hq : chars.contains c ∨ (ws ∧ inl.contains c)
    · rw [if_neg (by intro h; rcases hq with hq | hq <;> simp_all)]
      rw [scanCC, if_pos hq]; simp
    · have hq' : ¬ chars.contains c ∧ ¬ (ws ∧ inl.contains c) := by
        constructor
        · intro h; exact hq (Or.inl h)
        · intro h; exact hq (Or.inr h)
      rw [if_pos ⟨hc, hq'⟩, snoc_shift]
      have := ih (X ++ [c]) (sp c) ht
      simp only [List.length_append, List.length_singleton] at this
      rw [this]; simp only [scanCC, hq, if_false]; congr 1; omega

/-- where `scanCC` stops there is one of the bytes looked for, an inline comment prefix, or the end -/
theorem scanCC_le (inl chars : List Nat) (ws : Bool) (w : Bytes) : scanCC sp inl chars ws w ≤ w.length := by
  induction w generalizing ws with
  | nil => simp [scanCC]
  | cons c t ih => simp only [scanCC]; split <;> simp; have := ih (sp c); omega

theorem strncpy0_app (D E X w P : Bytes) (s size : Nat) (hX : X.length = s + D.length) (hsz : D.length + E.length = size)
    (hD : D.length < size) (hw : 0 ∉ w) :
    strncpy0 (D ++ E) (X ++ w ++ 0 :: P) s size D.length =
      some (D ++ w.take (size - 1 - D.length) ++ 0 :: E.drop ((w.take (size - 1 - D.length)).length + 1)) := by
  induction w generalizing D E X with
  | nil =>
    rw [strncpy0]
    obtain ⟨e, E', rfl⟩ : ∃ e E', E = e :: E' := by
      cases E with
      | nil => simp at hsz; omega
      | cons e E' => exact ⟨e, E', rfl⟩
    split
    · rw [← hX]; simp [wr_at]
    · simp [wr_at]
  | cons c t ih =>
    obtain ⟨hc, ht⟩ := not_mem_cons hw
    obtain ⟨e, E', rfl⟩ : ∃ e E', E = e :: E' := by
      cases E with
      | nil => simp at hsz; omega
      | cons e E' => exact ⟨e, E', rfl⟩
    rw [strncpy0]
    split
    · rename_i hlt
      rw [← hX, show (X ++ c :: t ++ 0 :: P)[X.length]? = some c by simp]
      simp only [hc, if_false, wr_at]
      have hE' : (D ++ [c]).length + E'.length = size := by simp at hsz ⊢; omega
      have := ih (D ++ [c]) E' (X ++ [c]) (by simp; omega) hE' (by simp; omega) ht
      simp only [List.length_append, List.length_singleton] at this
      rw [snoc_shift, show D ++ c :: E' = (D ++ [c]) ++ E' by simp, this]
      have h1 : size - 1 - D.length = (size - 1 - (D.length + 1)) + 1 := by omega
      rw [h1]; simp
    · rename_i hge
      have h0 : size - 1 - D.length = 0 := by omega
      simp [wr_at, h0]

end IwModel.Ini
