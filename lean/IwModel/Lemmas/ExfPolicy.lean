import IwModel.Lemmas.Exf
/-! Resize policies of the extensible file: what `ensure_size` reaches, sequences of growth steps. -/
namespace IwModel.Exf
open IwModel

/-- a growing `truncate` to an aligned size that `maxoff` allows succeeds and sets exactly that size -/
theorem truncate_grow_ok (st : St) (T : Nat) (hp : 0 < st.psize) (hT : T % st.psize = 0) (hlt : st.fsize < T)
    (hm : st.maxoff = 0 ∨ T ≤ st.maxoff) :
    truncate st T = (.ok, { st with fsize := T, file := resize st.file T, slots := remapAll T st.slots }) := by
  unfold truncate
  simp only [roundUp_of_mod T st.psize hp hT]
  rw [if_neg (by omega), if_pos hlt, if_neg (by omega)]

/-- the proposal of the configured policy for a request -/
def proposal (st : St) (sz : Nat) : Nat := (policy st.psize st.pol st.prev sz st.fsize).1

/-- the policy's proposal holds the request and is page aligned (what `_exfile_ensure_size_lw` demands of it) -/
def Fits (st : St) (sz : Nat) : Prop := sz ≤ proposal st sz ∧ proposal st sz % st.psize = 0

/-- the target of a growth step: the proposal, cut down to `maxoff` -/
def target (st : St) (sz : Nat) : Nat :=
  if st.maxoff ≠ 0 ∧ proposal st sz > st.maxoff then st.maxoff else proposal st sz

/-- exact outcome of `ensure_size` on a file that is too small, when the policy's proposal fits and `maxoff`
    admits the request -/
theorem ensureSize_grow (st : St) (sz : Nat) (hp : 0 < st.psize) (hmo : st.maxoff % st.psize = 0)
    (hlt : st.fsize < sz) (hmax : st.maxoff = 0 ∨ sz ≤ st.maxoff) (hf : Fits st sz) :
    ensureSize st sz = (.ok, { st with prev := (policy st.psize st.pol st.prev sz st.fsize).2, fsize := target st sz,
                                       file := resize st.file (target st sz),
                                       slots := remapAll (target st sz) st.slots }) := by
  obtain ⟨hf1, hf2⟩ := hf
  unfold proposal at hf1 hf2
  unfold ensureSize
  rw [if_neg (by omega)]
  simp only []
  rw [if_neg (by omega)]
  unfold target proposal
  by_cases hc : st.maxoff ≠ 0 ∧ (policy st.psize st.pol st.prev sz st.fsize).1 > st.maxoff
  · rw [if_pos hc, if_pos hc, if_neg (by omega)]
    exact truncate_grow_ok { st with prev := (policy st.psize st.pol st.prev sz st.fsize).2 } st.maxoff hp hmo
      (by show st.fsize < st.maxoff; omega) (Or.inr (Nat.le_refl _))
  · rw [if_neg hc, if_neg hc]
    exact truncate_grow_ok { st with prev := (policy st.psize st.pol st.prev sz st.fsize).2 } _ hp hf2
      (by show st.fsize < _; omega) (by show st.maxoff = 0 ∨ _ ≤ st.maxoff; omega)

/-- a failing `ensure_size` changes nothing but the Fibonacci context; a successful one on a big enough file nothing at all -/
theorem ensureSize_fsize_mono (st : St) (sz : Nat) (hp : 0 < st.psize) : st.fsize ≤ (ensureSize st sz).2.fsize := by
  rcases ensureSize_cases st sz with ⟨_, e⟩ | ⟨h0, e | e | ⟨T, hT, e, _, _⟩⟩
  · rw [e]; exact Nat.le_refl _
  · rw [e]; exact Nat.le_refl _
  · rw [e]; exact Nat.le_refl _
  · rw [e]
    rcases truncate_cases { st with prev := (policy st.psize st.pol st.prev sz st.fsize).2 } T with
      ⟨e2, _⟩ | ⟨e2, _⟩ | ⟨e2, _⟩ <;> rw [e2]
    · exact Nat.le_refl _
    · exact Nat.le_refl _
    · have := roundUp_ge T st.psize hp
      show st.fsize ≤ roundUp T st.psize
      omega

/-! ## the three policies -/

theorem policy_dflt (ps prev sz cs : Nat) : policy ps .dflt prev sz cs = (roundUp sz ps, prev) := rfl

theorem policy_fibo (ps prev sz cs : Nat) :
    policy ps .fibo prev sz cs = (min (roundUp (max (cs + prev) sz) ps) offTMax, cs) := rfl

theorem policy_mul (ps prev sz cs n d : Nat) (hd : 0 < d) (hn : d ≤ n) :
    policy ps (.mul n d) prev sz cs = (min (roundUp (sz / d * n) ps) offTMax, prev) := by
  unfold policy
  simp only []
  rw [if_neg (by omega)]

theorem policy_mul_fallback (ps prev sz cs n d : Nat) (h : d = 0 ∨ n < d) :
    policy ps (.mul n d) prev sz cs = (roundUp sz ps, prev) := by
  unfold policy
  simp only []
  rw [if_pos h]

/-- the default policy always fits -/
theorem fits_dflt (st : St) (sz : Nat) (hp : 0 < st.psize) (hpol : st.pol = .dflt) : Fits st sz := by
  unfold Fits proposal
  rw [hpol, policy_dflt]
  exact ⟨roundUp_ge _ _ hp, roundUp_mod _ _⟩

/-- the Fibonacci policy fits whenever its sum stays representable; the proposal is then at least
    current size + previous size -/
theorem fits_fibo (st : St) (sz : Nat) (hp : 0 < st.psize) (hpol : st.pol = .fibo)
    (hb : roundUp (max (st.fsize + st.prev) sz) st.psize ≤ offTMax) :
    Fits st sz ∧ st.fsize + st.prev ≤ proposal st sz := by
  unfold Fits proposal
  rw [hpol, policy_fibo]
  simp only []
  rw [Nat.min_eq_left hb]
  have := roundUp_ge (max (st.fsize + st.prev) sz) st.psize hp
  exact ⟨⟨by omega, roundUp_mod _ _⟩, by omega⟩

/-- the multiplier policy `n/d` (`d > 0`, `n ≥ d`) multiplies the *request* with truncating division first; it fits exactly
    when that product, rounded up to a page, still holds the request -/
theorem fits_mul_iff (st : St) (sz n d : Nat) (hpol : st.pol = .mul n d) (hd : 0 < d) (hn : d ≤ n)
    (hb : roundUp (sz / d * n) st.psize ≤ offTMax) :
    Fits st sz ↔ sz ≤ roundUp (sz / d * n) st.psize := by
  unfold Fits proposal
  rw [hpol, policy_mul _ _ _ _ _ _ hd hn]
  simp only []
  rw [Nat.min_eq_left hb]
  exact ⟨fun h => h.1, fun h => ⟨h, roundUp_mod _ _⟩⟩

/-- in particular it fits every request that is a multiple of the divisor -/
theorem fits_mul_of_dvd (st : St) (sz n d : Nat) (hp : 0 < st.psize) (hpol : st.pol = .mul n d) (hd : 0 < d) (hn : d ≤ n)
    (hb : roundUp (sz / d * n) st.psize ≤ offTMax) (hdvd : sz % d = 0) : Fits st sz := by
  rw [fits_mul_iff st sz n d hpol hd hn hb]
  have h1 := roundUp_ge (sz / d * n) st.psize hp
  have h2 : sz / d * d ≤ sz / d * n := Nat.mul_le_mul_left _ hn
  have h3 := Nat.div_add_mod sz d
  rw [hdvd, Nat.add_zero, Nat.mul_comm] at h3
  omega

/-! ## sequences of growth requests -/

/-- the results (return code, size afterwards) of a sequence of `ensure_size` requests -/
def ensureSeq : St → List Nat → List (Rc × Nat)
  | _, [] => []
  | st, r :: rs => ((ensureSize st r).1, (ensureSize st r).2.fsize) :: ensureSeq (ensureSize st r).2 rs

/-- the state after the sequence -/
def ensureSeqSt : St → List Nat → St
  | st, [] => st
  | st, r :: rs => ensureSeqSt (ensureSize st r).2 rs

/-- sizes never decrease along the sequence, starting from `lo` -/
def Ascending : Nat → List (Rc × Nat) → Prop
  | _, [] => True
  | lo, x :: xs => lo ≤ x.2 ∧ Ascending x.2 xs

theorem ensureSize_psize (st : St) (sz : Nat) : (ensureSize st sz).2.psize = st.psize ∧
    (ensureSize st sz).2.maxoff = st.maxoff ∧ (ensureSize st sz).2.pol = st.pol := by
  have ht : ∀ (s0 : St) z, (truncate s0 z).2.psize = s0.psize ∧ (truncate s0 z).2.maxoff = s0.maxoff ∧
      (truncate s0 z).2.pol = s0.pol := by
    intro s0 z
    rcases truncate_cases s0 z with ⟨e, _⟩ | ⟨e, _⟩ | ⟨e, _⟩ <;> rw [e] <;> exact ⟨rfl, rfl, rfl⟩
  rcases ensureSize_cases st sz with ⟨_, e⟩ | ⟨_, e | e | ⟨T, _, e, _, _⟩⟩ <;> rw [e]
  · exact ⟨rfl, rfl, rfl⟩
  · exact ⟨rfl, rfl, rfl⟩
  · exact ⟨rfl, rfl, rfl⟩
  · exact ht _ _

/-- whatever the policy and the requests: sizes are monotone, page aligned and within `maxoff` -/
theorem ensureSeq_inv : ∀ (rs : List Nat) (st : St), SizeInv st →
    Ascending st.fsize (ensureSeq st rs) ∧
    ∀ x ∈ ensureSeq st rs, x.2 % st.psize = 0 ∧ (st.maxoff ≠ 0 → x.2 ≤ st.maxoff)
  | [], _, _ => ⟨trivial, by simp [ensureSeq]⟩
  | r :: rs, st, h => by
    have h1 := ensureSize_sizeInv st r h
    have hk := ensureSize_psize st r
    have ih := ensureSeq_inv rs _ h1
    refine ⟨⟨ensureSize_fsize_mono st r h.1, ih.1⟩, ?_⟩
    intro x hx
    simp only [ensureSeq, List.mem_cons] at hx
    rcases hx with rfl | hx
    · have := h1.2
      rw [hk.1, hk.2.1] at this
      exact this
    · have := ih.2 x hx
      rw [hk.1, hk.2.1] at this
      exact this

/-- what the Fibonacci sequence needs to stay representable: a configured `maxoff` with head-room below `OFF_T_MAX` -/
def FiboRoom (st : St) : Prop :=
  st.maxoff ≠ 0 ∧ st.maxoff % st.psize = 0 ∧ st.prev ≤ st.maxoff ∧ 2 * st.maxoff + st.psize ≤ offTMax

theorem roundUp_le (x ps : Nat) (hps : 0 < ps) : roundUp x ps < x + ps := by
  unfold roundUp
  have h1 := Nat.div_add_mod (x + ps - 1) ps
  have h2 := Nat.mod_lt (x + ps - 1) hps
  rw [Nat.mul_comm] at h1
  omega

/-- one Fibonacci step below `maxoff` succeeds, reaches the request, and takes the sum of the last two sizes
    unless `maxoff` cuts it -/
theorem ensureSize_fibo_step (st : St) (sz : Nat) (hz : SizeInv st) (hpol : st.pol = .fibo) (hr : FiboRoom st)
    (hsz : sz ≤ st.maxoff) :
    (ensureSize st sz).1 = .ok ∧ sz ≤ (ensureSize st sz).2.fsize ∧ FiboRoom (ensureSize st sz).2 ∧
    (st.fsize < sz → (ensureSize st sz).2.fsize = min st.maxoff (roundUp (max (st.fsize + st.prev) sz) st.psize)) := by
  obtain ⟨hp, hal, hmx⟩ := hz
  obtain ⟨hm0, hmal, hprev, hroom⟩ := hr
  by_cases hlt : st.fsize < sz
  · have hb : roundUp (max (st.fsize + st.prev) sz) st.psize ≤ offTMax := by
      have := roundUp_le (max (st.fsize + st.prev) sz) st.psize hp
      have := hmx hm0
      omega
    have hfit := fits_fibo st sz hp hpol hb
    have e := ensureSize_grow st sz hp hmal hlt (Or.inr hsz) hfit.1
    have hprop : proposal st sz = roundUp (max (st.fsize + st.prev) sz) st.psize := by
      unfold proposal; rw [hpol, policy_fibo]; exact Nat.min_eq_left hb
    have htgt : target st sz = min st.maxoff (roundUp (max (st.fsize + st.prev) sz) st.psize) := by
      unfold target; rw [hprop]; split <;> omega
    have hge : sz ≤ target st sz := by
      have := hfit.1.1; rw [hprop] at this; rw [htgt]; omega
    rw [e]
    refine ⟨rfl, hge, ⟨hm0, hmal, ?_, hroom⟩, fun _ => htgt⟩
    show (policy st.psize st.pol st.prev sz st.fsize).2 ≤ st.maxoff
    rw [hpol, policy_fibo]
    exact hmx hm0
  · have e : ensureSize st sz = (.ok, st) := by
      unfold ensureSize; rw [if_pos (by omega)]
    rw [e]
    exact ⟨rfl, by show sz ≤ st.fsize; omega, ⟨hm0, hmal, hprev, hroom⟩, fun h => absurd h hlt⟩

/-- one step of the default policy below `maxoff` succeeds and reaches the request -/
theorem ensureSize_reaches (st : St) (sz : Nat) (hz : SizeInv st) (hmo : st.maxoff % st.psize = 0)
    (hmax : st.maxoff = 0 ∨ sz ≤ st.maxoff) (hf : Fits st sz) :
    (ensureSize st sz).1 = .ok ∧ sz ≤ (ensureSize st sz).2.fsize := by
  by_cases hlt : st.fsize < sz
  · rw [ensureSize_grow st sz hz.1 hmo hlt hmax hf]
    refine ⟨rfl, ?_⟩
    show sz ≤ target st sz
    unfold target
    have := hf.1
    split <;> omega
  · have e : ensureSize st sz = (.ok, st) := by
      unfold ensureSize; rw [if_pos (by omega)]
    rw [e]; exact ⟨rfl, by show sz ≤ st.fsize; omega⟩

/-- request by request: success, and the size afterwards holds the request -/
def AllReached : List Nat → List (Rc × Nat) → Prop
  | [], [] => True
  | r :: rs, x :: xs => x.1 = .ok ∧ r ≤ x.2 ∧ AllReached rs xs
  | _, _ => False

/-- every request of a Fibonacci sequence that `maxoff` admits succeeds and is reached -/
theorem ensureSeq_fibo : ∀ (rs : List Nat) (st : St), SizeInv st → st.pol = .fibo → FiboRoom st →
    (∀ r ∈ rs, r ≤ st.maxoff) →
    AllReached rs (ensureSeq st rs)
  | [], _, _, _, _, _ => trivial
  | r :: rs, st, hz, hpol, hr, hreq => by
    have hs := ensureSize_fibo_step st r hz hpol hr (hreq r List.mem_cons_self)
    have hk := ensureSize_psize st r
    refine ⟨hs.1, hs.2.1, ?_⟩
    exact ensureSeq_fibo rs _ (ensureSize_sizeInv st r hz) (by rw [hk.2.2]; exact hpol) hs.2.2.1
      (fun r' hr' => by rw [hk.2.1]; exact hreq r' (List.mem_cons_of_mem _ hr'))

end IwModel.Exf
