import IwModel.Lemmas.Kv
import IwModel.Lemmas.Vnum
/-! Helper lemmas for the API layer of the KV model (`Model/KvApi.lean`). -/
namespace IwModel.KvApi
open IwModel Kv

/-! ### framing -/

theorem find_map_setDb_ne (dbs : List (Nat × DbSt)) (id j : Nat) (d : DbSt) (h : j ≠ id) :
    (dbs.map fun (x : Nat × DbSt) => if x.1 = id then (x.1, d) else (x.1, x.2)).find? (·.1 = j) =
      dbs.find? (·.1 = j) := by
  induction dbs with
  | nil => rfl
  | cons x tl ih =>
    obtain ⟨i, y⟩ := x
    simp only [List.map_cons, List.find?_cons]
    by_cases hi : i = id
    · subst hi
      have hj : ¬ (i = j) := fun e => h e.symm
      simp only [if_true, hj, decide_false, ih]
    · simp only [hi, if_false]
      rw [ih]

theorem getDb_setDb_ne (s : Store) (id j : Nat) (d : DbSt) (h : j ≠ id) :
    getDb (setDb s id d) j = getDb s j := by
  simp only [getDb, setDb]
  rw [find_map_setDb_ne s.dbs id j d h]

/-- in every branch `putR` either returns the store it got, or answers ok and replaces database `id` -/
theorem putR_cases (s : Store) (id : Nat) (key : Bytes) (comp : Nat) (val : Bytes) (fl lvl ph : Nat) :
    ((putR s id key comp val fl lvl ph).1 = s ∧ (putR s id key comp val fl lvl ph).2.isOk = false) ∨
    (∃ d, (putR s id key comp val fl lvl ph).1 = setDb s id d ∧ (putR s id key comp val fl lvl ph).2.isOk = true) := by
  simp only [putR]
  repeat' split
  all_goals first
    | exact Or.inl ⟨rfl, rfl⟩
    | exact Or.inr ⟨_, rfl, rfl⟩

theorem del_cases (s : Store) (id : Nat) (key : Bytes) (comp : Nat) :
    (del s id key comp).1 = s ∨ ∃ d, (del s id key comp).1 = setDb s id d := by
  simp only [del]
  repeat' split
  all_goals first
    | exact Or.inl rfl
    | exact Or.inr ⟨_, rfl⟩

theorem metaSet_cases (s : Store) (id : Nat) (m : Bytes) :
    (metaSet s id m).1 = s ∨ ∃ d, (metaSet s id m).1 = setDb s id d := by
  simp only [metaSet]
  repeat' split
  all_goals first
    | exact Or.inl rfl
    | exact Or.inr ⟨_, rfl⟩

/-! ### result lines -/

/-- the printed line starts with `put ok` exactly for the ok outcome -/
theorem putLine_ok_iff (ph : Nat) (r : PutRes) :
    (putLine ph r).toList.take 6 = "put ok".toList ↔ r.isOk = true := by
  cases r with
  | nodb => simp [putLine, PutRes.isOk]
  | emptyKey => simp [putLine, PutRes.isOk, phNotCalled, String.toList_append]
  | readonly => simp [putLine, PutRes.isOk, phNotCalled, String.toList_append]
  | keyErr e =>
    cases e <;> simp [putLine, PutRes.isOk, phNotCalled, String.toList_append, keyErrName, ToString.toString]
  | exists_ => simp [putLine, PutRes.isOk, phNotCalled, String.toList_append]
  | cannotinc => simp [putLine, PutRes.isOk, phNotCalled, String.toList_append]
  | rejected old => cases old <;> simp [putLine, PutRes.isOk, String.toList_append, ToString.toString]
  | ok old => cases old <;> simp [putLine, PutRes.isOk, String.toList_append]

/-! ### effective keys -/

theorem decBody_enc (n : Nat) : Cmp.decBody (Vnum.enc n) = n := by
  have := Vnum.decAux_enc n [] 1 0 0
  simp only [List.append_nil] at this
  simp [Cmp.decBody, Vnum.dec, this]

theorem leBytes_leVal8 (key : Bytes) (hl : key.length = 8) (hw : Bytes.wf key) : leBytes (leVal key) 8 = key := by
  match key, hl with
  | [b0, b1, b2, b3, b4, b5, b6, b7], _ =>
    have h0 := hw b0 (by simp); have h1 := hw b1 (by simp); have h2 := hw b2 (by simp); have h3 := hw b3 (by simp)
    have h4 := hw b4 (by simp); have h5 := hw b5 (by simp); have h6 := hw b6 (by simp); have h7 := hw b7 (by simp)
    simp only [leBytes, leVal, List.foldr, List.range, List.range.loop, List.map]
    simp only [Nat.reducePow, Nat.div_one]
    refine List.cons_eq_cons.2 ⟨by omega, ?_⟩
    refine List.cons_eq_cons.2 ⟨by omega, ?_⟩
    refine List.cons_eq_cons.2 ⟨by omega, ?_⟩
    refine List.cons_eq_cons.2 ⟨by omega, ?_⟩
    refine List.cons_eq_cons.2 ⟨by omega, ?_⟩
    refine List.cons_eq_cons.2 ⟨by omega, ?_⟩
    refine List.cons_eq_cons.2 ⟨by omega, ?_⟩
    refine List.cons_eq_cons.2 ⟨by omega, rfl⟩

theorem leBytes_leVal4 (key : Bytes) (hl : key.length = 4) (hw : Bytes.wf key) :
    leBytes (leVal key) 8 = key ++ [0, 0, 0, 0] := by
  match key, hl with
  | [b0, b1, b2, b3], _ =>
    have h0 := hw b0 (by simp); have h1 := hw b1 (by simp); have h2 := hw b2 (by simp); have h3 := hw b3 (by simp)
    simp only [leBytes, leVal, List.foldr, List.range, List.range.loop, List.map]
    simp only [Nat.reducePow, Nat.div_one, List.cons_append, List.nil_append]
    refine List.cons_eq_cons.2 ⟨by omega, ?_⟩
    refine List.cons_eq_cons.2 ⟨by omega, ?_⟩
    refine List.cons_eq_cons.2 ⟨by omega, ?_⟩
    refine List.cons_eq_cons.2 ⟨by omega, ?_⟩
    refine List.cons_eq_cons.2 ⟨by omega, ?_⟩
    refine List.cons_eq_cons.2 ⟨by omega, ?_⟩
    refine List.cons_eq_cons.2 ⟨by omega, ?_⟩
    refine List.cons_eq_cons.2 ⟨by omega, rfl⟩

end IwModel.KvApi
