import IwModel.Model.KvNode
import IwModel.Lemmas.KvBlk
import IwModel.Lemmas.Cmp
/-! Invariant of the node writer model (Model/KvNode.lean) and its preservation by every operation. Core Lean only.
Statements for the property file are re-exported in Props/C06.lean. -/
namespace IwModel.KvNode
open IwModel IwModel.FormatEnc IwModel.KvBlk

/-! ### the order on stored keys -/

/-- effective key `(body, compound part)` of a stored key -/
def ekey (compound : Bool) (st : Bytes) : Bytes × Nat :=
  if compound then
    match Vnum.dec st with
    | some (c, step) => (st.drop step, c)
    | none => (st, 0)
  else (st, 0)

/-- a stored key as the put path writes it: `vnum(compound part) ++ body` with a non-empty body (`iwkv_put` rejects empty keys)
and a compound part in the `int64_t` range -/
def WFS (compound : Bool) (st : Bytes) : Prop :=
  Cmp.stored compound (ekey compound st).1 (ekey compound st).2 = st ∧ (ekey compound st).1 ≠ [] ∧
  (compound = true → (ekey compound st).2 < 2 ^ 63)

/-- `_cmp_keys` of the stored key `a` against `b` taken as lookup key -/
def cmpS (compound : Bool) (a b : Bytes) : Int := Cmp.cmpK compound (ekey compound a) (ekey compound b)

/-- `a` sorts before `b`: `b` as lookup key is smaller than the stored key `a` -/
def gtS (compound : Bool) (a b : Bytes) : Prop := cmpS compound a b < 0

theorem ekey_stored (compound : Bool) (k : Bytes) (c : Nat) :
    ekey compound (Cmp.stored compound k c) = (k, if compound then c else 0) := by
  cases compound with
  | false => simp [ekey, Cmp.stored]
  | true => simp [ekey, Cmp.stored, Cmp.dec_stored]

theorem wfs_stored (compound : Bool) (k : Bytes) (c : Nat) (hk : k ≠ []) (hc : c < 2 ^ 63) :
    WFS compound (Cmp.stored compound k c) := by
  rw [WFS, ekey_stored]
  cases compound with
  | false => exact ⟨by simp [Cmp.stored], hk, by simp⟩
  | true => exact ⟨rfl, hk, fun _ => hc⟩

/-- the comparison the C code makes (`_cmp_keys` of a stored key against the lookup key `(k, c)`) is `cmpS` against the
stored form of the lookup key -/
theorem cmpOf_eq (compound : Bool) (k : Bytes) (c : Nat) (st : Bytes) (h : WFS compound st) :
    cmpOf compound k c st = cmpS compound st (Cmp.stored compound k c) := by
  rw [cmpS, ekey_stored]
  cases compound with
  | false =>
    rw [Cmp.cmpK_false]
    simp only [cmpOf, Cmp.cmpKeys_plain_nc, ekey]
    simp
  | true =>
    simp only [cmpOf, Cmp.cmpK, if_true]
    rw [h.1]

theorem cmpS_antisymm (compound : Bool) (a b : Bytes) : sgn (cmpS compound a b) = - sgn (cmpS compound b a) :=
  Cmp.cmpK_antisymm compound _ _

theorem cmpS_flip (compound : Bool) (a b : Bytes) :
    (cmpS compound a b < 0 ↔ cmpS compound b a > 0) ∧ (cmpS compound a b = 0 ↔ cmpS compound b a = 0) ∧
    (cmpS compound a b > 0 ↔ cmpS compound b a < 0) := Cmp.sgn_flip (cmpS_antisymm compound a b)

theorem cmpS_trans (compound : Bool) (a b d : Bytes) (h1 : cmpS compound a b > 0) (h2 : cmpS compound b d > 0) :
    cmpS compound a d > 0 := Cmp.cmpK_trans compound _ _ _ h1 h2

theorem cmpS_eq_zero (compound : Bool) (a b : Bytes) (h : cmpS compound a b = 0) : ekey compound a = ekey compound b := by
  cases compound with
  | false =>
    rw [cmpS, Cmp.cmpK_false] at h
    have e := Cmp.tieBreak_eq_zero h
    simp only [ekey] at e ⊢
    simp at e ⊢
    exact e.symm
  | true => exact (Cmp.cmpK_true_eq_zero _ _).1 h

theorem cmpS_eq_zero_wf (compound : Bool) (a b : Bytes) (ha : WFS compound a) (hb : WFS compound b)
    (h : cmpS compound a b = 0) : a = b := by
  have e := cmpS_eq_zero compound a b h
  rw [← ha.1, ← hb.1, e]

theorem gtS_trans (compound : Bool) (a b d : Bytes) (h1 : gtS compound a b) (h2 : gtS compound b d) : gtS compound a d := by
  unfold gtS at *
  have := (cmpS_flip compound a b).1.1 h1
  have := (cmpS_flip compound b d).1.1 h2
  have := cmpS_trans compound d b a (by assumption) (by assumption)
  exact (cmpS_flip compound a d).1.2 this

/-- `b ≤ c` as lookup keys and `a` sorts before `b`: then `a` sorts before `c` -/
theorem gtS_of_le (compound : Bool) (a b d : Bytes) (h1 : gtS compound a b) (h2 : cmpS compound b d ≤ 0) : gtS compound a d := by
  by_cases h : cmpS compound b d = 0
  · have e := cmpS_eq_zero compound b d h
    unfold gtS cmpS at *
    rw [← e]; exact h1
  · exact gtS_trans compound a b d h1 (by unfold gtS; omega)

/-! ### the binary search of `_sblk_find_pi_mm` / `_sblk_insert_pi_mm` -/

/-- `cmp` is the comparison against a descending sequence: once the lookup key is not above position `j`, it is below every
earlier position -/
def Mono (cmp : Nat → Int) (n : Nat) : Prop := ∀ i j, i < j → j < n → cmp j ≤ 0 → cmp i < 0

/-- what the search returns: everything left of `idx` is above the lookup key; found = the key at `idx` compares equal;
not found = everything from `idx` on is below the lookup key (`idx` is the insertion point) -/
structure Found (cmp : Nat → Int) (n : Nat) (r : Bool × Nat) : Prop where
  le : r.2 ≤ n
  left : ∀ i, i < r.2 → cmp i < 0
  hit : r.1 = true → r.2 < n ∧ cmp r.2 = 0
  miss : r.1 = false → ∀ i, r.2 ≤ i → i < n → cmp i > 0

theorem findGo_spec (cmp : Nat → Int) (n : Nat) (hm : Mono cmp n) :
    ∀ fuel lb hi, lb < hi → hi ≤ n → hi - lb ≤ fuel → (∀ i, i < lb → cmp i < 0) → (∀ i, hi ≤ i → i < n → cmp i > 0) →
      Found cmp n (findGo cmp fuel lb hi) := by
  intro fuel
  induction fuel with
  | zero => intro lb hi h1 _ h3; omega
  | succ fuel ih =>
    intro lb hi h1 h2 h3 hl hr
    have hidx1 : lb ≤ (hi - 1 + lb) / 2 := by omega
    have hidx2 : (hi - 1 + lb) / 2 < hi := by omega
    simp only [findGo]
    generalize (hi - 1 + lb) / 2 = idx at hidx1 hidx2
    have hbelow : cmp idx ≤ 0 → ∀ i, i < idx → cmp i < 0 := fun hc i hi' => hm i idx hi' (by omega) hc
    have habove : cmp idx > 0 → ∀ i, idx ≤ i → i < n → cmp i > 0 := by
      intro hc i hi1 hi2
      by_cases e : i = idx
      · subst e; exact hc
      · by_cases hle : cmp i ≤ 0
        · have := hm idx i (by omega) hi2 hle; omega
        · omega
    by_cases c0 : cmp idx = 0
    · simp only [c0, if_true]
      exact ⟨by show idx ≤ n; omega, hbelow (by omega), fun _ => ⟨by show idx < n; omega, c0⟩, fun h => by simp at h⟩
    · simp only [c0, if_false]
      by_cases cneg : cmp idx < 0
      · simp only [cneg, if_true]
        have hl' : ∀ i, i < idx + 1 → cmp i < 0 := by
          intro i hi'
          by_cases e : i = idx
          · subst e; exact cneg
          · exact hbelow (by omega) i (by omega)
        by_cases hb : idx + 1 ≥ hi
        · simp only [hb, if_true]
          exact ⟨by show idx + 1 ≤ n; omega, hl', fun h => by simp at h, fun _ i hi1 hi2 => hr i (by show hi ≤ i; omega) hi2⟩
        · simp only [hb, if_false]
          exact ih (idx + 1) hi (by omega) h2 (by omega) hl' hr
      · simp only [cneg, if_false]
        have cpos : cmp idx > 0 := by omega
        by_cases hb : lb ≥ idx
        · simp only [hb, if_true]
          have e : idx = lb := by omega
          exact ⟨by show idx ≤ n; omega, fun i hi' => hl i (by omega), fun h => by simp at h, fun _ => habove cpos⟩
        · simp only [hb, if_false]
          exact ih lb idx (by omega) (by omega) (by omega) hl (habove cpos)

/-! ### slots of the data block -/

theorem slotKey_eq (b : KvBlk) (i : Nat) : slotKey b i = (sl b.slots i).key := rfl

/-- what `_kvblk_updatev` does to the slots: the record of slot `idx` ends up in slot `i'` with its key and the new value;
if it moved, the old slot is free now and the new one was free before; all other slots keep their records -/
theorem updatev_slots {b : KvBlk} (h : BlkInv b) (idx : Nat) (hidx : idx < b.slots.length) (val : Bytes)
    (b' : KvBlk) (i' : Nat) (e : updatev b idx val = .ok b' i') :
    b'.slots.length = b.slots.length ∧ (sl b'.slots i').len ≠ 0 ∧ (sl b'.slots i').key = (sl b.slots idx).key ∧
    (sl b'.slots i').val = val ∧ (i' ≠ idx → (sl b.slots i').len = 0 ∧ (sl b'.slots idx).len = 0) ∧
    ∀ i, i ≠ idx → i ≠ i' → (sl b'.slots i).len = (sl b.slots i).len ∧ (sl b'.slots i).key = (sl b.slots i).key ∧
      (sl b'.slots i).val = (sl b.slots i).val := by
  have hpos := recSize_pos (sl b.slots idx).key val
  have inpl : ∀ b1 i1, UpdRes.ok (inplace b idx val) idx = UpdRes.ok b1 i1 →
      b1.slots.length = b.slots.length ∧ (sl b1.slots i1).len ≠ 0 ∧ (sl b1.slots i1).key = (sl b.slots idx).key ∧
      (sl b1.slots i1).val = val ∧ (i1 ≠ idx → (sl b.slots i1).len = 0 ∧ (sl b1.slots idx).len = 0) ∧
      ∀ i, i ≠ idx → i ≠ i1 → (sl b1.slots i).len = (sl b.slots i).len ∧ (sl b1.slots i).key = (sl b.slots i).key ∧
        (sl b1.slots i).val = (sl b.slots i).val := by
    intro b1 i1 e1
    simp only [UpdRes.ok.injEq] at e1
    obtain ⟨e1, e2⟩ := e1
    subst e1; subst e2
    obtain ⟨e0, ene⟩ := inplace_sl b idx val hidx
    refine ⟨List.length_set, ?_, ?_, ?_, fun hne => absurd rfl hne, fun i hi _ => by rw [ene i hi]; exact ⟨rfl, rfl, rfl⟩⟩
    · rw [e0]; show recSize (sl b.slots idx).key val ≠ 0; omega
    · rw [e0]; rfl
    · rw [e0]; rfl
  rw [updatev_eq] at e
  split at e
  · exact inpl b' i' e
  · split at e
    · exact absurd e (by simp)
    · rw [updatevGrow_eq] at e
      split at e
      · exact inpl b' i' e
      · have hrm := blkInv_rmkv h idx hidx true
        obtain ⟨r1, r2, r3⟩ := rmkv_recs h idx hidx true
        cases hq : addkv (KvBlk.rmkv b idx true) (sl b.slots idx).key val with
        | full => rw [hq] at e; exact absurd e (by simp)
        | maxkvsz => rw [hq] at e; exact absurd e (by simp)
        | ok b2 i2 =>
          rw [hq] at e
          simp only [UpdRes.ok.injEq] at e
          obtain ⟨e1, e2⟩ := e
          subst e1; subst e2
          obtain ⟨_, a1, a2, a3, a4, a5⟩ := geo_addkv hrm _ _ b2 i2 hq
          refine ⟨by rw [a3, r1], ?_, ?_, ?_, ?_, ?_⟩
          · rw [a4]; show recSize (sl b.slots idx).key val ≠ 0; omega
          · rw [a4]
          · rw [a4]
          · intro hne
            refine ⟨?_, ?_⟩
            · rw [← (r3 i2 hne).1]; exact a2
            · rw [(a5 idx (Ne.symm hne)).1]; exact r2
          · intro i hi1 hi2
            obtain ⟨x1, x2, x3⟩ := a5 i hi2
            obtain ⟨y1, y2, y3⟩ := r3 i hi1
            exact ⟨x1.trans y1, x2.trans y2, x3.trans y3⟩

/-! ### the invariant -/

/-- the cached first key describes the first key of the node: `lkl = min(len, 115)`, the `lkl` live bytes are its prefix,
`SBLK_FULL_LKEY` is set iff the whole key is cached -/
def CacheOk (n : Node) : Prop :=
  ∀ k0, (keys n).head? = some k0 → n.lkl = min P k0.length ∧ lkLive n = k0.take P ∧ (n.full = true ↔ k0.length ≤ P)

/-- everything the invariant says apart from the block geometry (depends on the slot table only) -/
structure Core (compound : Bool) (n : Node) : Prop where
  pnum : n.pnum = n.pi.length
  le32 : n.pnum ≤ Gen.KVBLK_IDXNUM
  nodup : n.pi.Nodup
  mem : ∀ i, i ∈ n.pi ↔ (sl n.blk.slots i).len ≠ 0
  sorted : (keys n).Pairwise (gtS compound)
  wf : ∀ k ∈ keys n, WFS compound k
  cache : CacheOk n

/-- invariant of a node between API calls -/
structure NodeInv (compound : Bool) (n : Node) : Prop extends Core compound n where
  blk : BlkInv n.blk
  pos : 0 < n.pnum

theorem core_sync {compound : Bool} {n : Node} (h : Core compound n) : Core compound (sync n) :=
  { pnum := h.pnum, le32 := h.le32, nodup := h.nodup, mem := h.mem, sorted := h.sorted, wf := h.wf, cache := h.cache }

theorem keyAt_eq_getElem (n : Node) (i : Nat) (h : i < n.pi.length) : keyAt n i = (keys n)[i]'(by simpa [keys] using h) := by
  simp [keyAt, keys, piAt, List.getD_eq_getElem?_getD, List.getElem?_eq_getElem h]

theorem take_min_length {α : Type} (l : List α) (m : Nat) : l.take (min m l.length) = l.take m := by
  by_cases h : m ≤ l.length
  · rw [Nat.min_eq_left h]
  · rw [Nat.min_eq_right (by omega), List.take_of_length_le (Nat.le_refl _), List.take_of_length_le (by omega)]

/-- the refresh of `_sblk_rmkv` (and what `_sblk_addkv*` compute, see `cacheAdd_eq`) makes the cache describe `key` -/
theorem cacheRm_ok (n : Node) (key : Bytes) (hk : (keys n).head? = some key) : CacheOk (cacheRm n key) := by
  intro k0 hk0
  have e : (keys (cacheRm n key)) = keys n := rfl
  rw [e, hk] at hk0
  simp only [Option.some.injEq] at hk0
  subst hk0
  refine ⟨rfl, ?_, by simp [cacheRm]⟩
  show (poke n.lk 0 (key.take (min P key.length))).take (min P key.length) = key.take P
  have hl : (key.take (min P key.length)).length = min P key.length := by
    rw [List.length_take]; omega
  simp only [poke, List.take_zero, List.nil_append, Nat.zero_add]
  rw [List.take_append_of_le_length (by omega), List.take_of_length_le (by omega), take_min_length]

/-- the `idx == 0` block of `_sblk_addkv*` computes the same cache as the refresh from the stored key `pre ++ body` -/
theorem cacheAdd_eq (n : Node) (pre body : Bytes) (hpre : pre.length ≤ P) : cacheAdd n pre body = cacheRm n (pre ++ body) := by
  have e1 : min P (body.length + pre.length) = min P (pre ++ body).length := by rw [List.length_append, Nat.add_comm]
  have e2 : pre ++ body.take (min P (body.length + pre.length) - (body.length + pre.length - body.length)) =
      (pre ++ body).take (min P (pre ++ body).length) := by
    rw [List.take_append, ← e1]
    have : pre.take (min P (body.length + pre.length)) = pre := List.take_of_length_le (by omega)
    rw [this]
    congr 2
    omega
  simp only [cacheAdd, cacheRm, e2, ← e1, List.length_append]
  rw [Nat.add_comm (List.length body)]

/-! ### insertion of a slot number into `pi` -/

theorem pairwise_insert {α : Type} {R : α → α → Prop} (l : List α) (i : Nat) (a : α) (h : l.Pairwise R)
    (hl : ∀ x ∈ l.take i, R x a) (hr : ∀ x ∈ l.drop i, R a x) : (l.take i ++ a :: l.drop i).Pairwise R := by
  have h' : (l.take i ++ l.drop i).Pairwise R := by rw [List.take_append_drop]; exact h
  rw [List.pairwise_append] at h' ⊢
  refine ⟨h'.1, List.pairwise_cons.2 ⟨hr, h'.2.1⟩, ?_⟩
  intro x hx y hy
  rcases List.mem_cons.1 hy with e | hy
  · rw [e]; exact hl x hx
  · exact h'.2.2 x hx y hy

theorem mem_insertAt {α : Type} (l : List α) (i : Nat) (a x : α) : x ∈ l.take i ++ a :: l.drop i ↔ x = a ∨ x ∈ l := by
  have : (l.take i ++ a :: l.drop i).Perm (a :: (l.take i ++ l.drop i)) := List.perm_middle
  rw [this.mem_iff, List.take_append_drop, List.mem_cons]

theorem nodup_insertAt {α : Type} (l : List α) (i : Nat) (a : α) (h : l.Nodup) (ha : a ∉ l) : (l.take i ++ a :: l.drop i).Nodup := by
  have : (l.take i ++ a :: l.drop i).Perm (a :: (l.take i ++ l.drop i)) := List.perm_middle
  rw [this.nodup_iff, List.take_append_drop]
  exact List.nodup_cons.2 ⟨ha, h⟩

theorem head?_insertAt {α : Type} (l : List α) (i : Nat) (a : α) (hi : i ≠ 0) (hl : i ≤ l.length) :
    (l.take i ++ a :: l.drop i).head? = l.head? := by
  cases l with
  | nil => simp at hl; omega
  | cons x xs =>
    cases i with
    | zero => contradiction
    | succ i => simp

/-- the node after slot `kvidx` (free before, holding `sk` now) was entered at position `idx` -/
def inserted (n : Node) (b : KvBlk) (kvidx idx : Nat) : Node :=
  { n with blk := b, pi := n.pi.take idx ++ kvidx :: n.pi.drop idx, pnum := n.pnum + 1 }

structure CoreNoCache (compound : Bool) (n : Node) : Prop where
  pnum : n.pnum = n.pi.length
  le32 : n.pnum ≤ Gen.KVBLK_IDXNUM
  nodup : n.pi.Nodup
  mem : ∀ i, i ∈ n.pi ↔ (sl n.blk.slots i).len ≠ 0
  sorted : (keys n).Pairwise (gtS compound)
  wf : ∀ k ∈ keys n, WFS compound k

theorem Core.noCache {compound : Bool} {n : Node} (h : Core compound n) : CoreNoCache compound n :=
  { pnum := h.pnum, le32 := h.le32, nodup := h.nodup, mem := h.mem, sorted := h.sorted, wf := h.wf }

theorem CoreNoCache.core {compound : Bool} {n : Node} (h : CoreNoCache compound n) (hc : CacheOk n) : Core compound n :=
  { pnum := h.pnum, le32 := h.le32, nodup := h.nodup, mem := h.mem, sorted := h.sorted, wf := h.wf, cache := hc }

theorem core_insert {compound : Bool} {n : Node} (h : CoreNoCache compound n) (b : KvBlk) (kvidx idx : Nat) (sk : Bytes)
    (hfree : (sl n.blk.slots kvidx).len = 0)
    (hnew : (sl b.slots kvidx).len ≠ 0 ∧ (sl b.slots kvidx).key = sk)
    (hsame : ∀ i, i ≠ kvidx → (sl b.slots i).len = (sl n.blk.slots i).len ∧ (sl b.slots i).key = (sl n.blk.slots i).key)
    (hwf : WFS compound sk) (hlt : n.pnum < Gen.KVBLK_IDXNUM)
    (hl : ∀ j, j < idx → j < n.pi.length → gtS compound (keyAt n j) sk)
    (hr : ∀ j, idx ≤ j → j < n.pi.length → gtS compound sk (keyAt n j)) :
    keys (inserted n b kvidx idx) = (keys n).take idx ++ sk :: (keys n).drop idx ∧
    CoreNoCache compound (inserted n b kvidx idx) := by
  have hnot : kvidx ∉ n.pi := fun hm => (h.mem kvidx).1 hm hfree
  have hkey : ∀ i ∈ n.pi, slotKey b i = slotKey n.blk i := by
    intro i hi
    have : i ≠ kvidx := fun e => hnot (e ▸ hi)
    exact (hsame i this).2
  have hkeys : keys (inserted n b kvidx idx) = (keys n).take idx ++ sk :: (keys n).drop idx := by
    show (n.pi.take idx ++ kvidx :: n.pi.drop idx).map (slotKey b) = _
    rw [List.map_append, List.map_cons, slotKey_eq b kvidx, hnew.2]
    simp only [keys, ← List.map_take, ← List.map_drop]
    congr 1
    · exact List.map_congr_left fun i hi => hkey i (List.mem_of_mem_take hi)
    · congr 1
      exact List.map_congr_left fun i hi => hkey i (List.mem_of_mem_drop hi)
  have hklen : (keys n).length = n.pi.length := by simp [keys]
  refine ⟨hkeys, ?_⟩
  refine { pnum := ?_, le32 := ?_, nodup := nodup_insertAt _ _ _ h.nodup hnot, mem := ?_, sorted := ?_, wf := ?_ }
  · show n.pnum + 1 = (n.pi.take idx ++ kvidx :: n.pi.drop idx).length
    have : (n.pi.take idx ++ n.pi.drop idx).length = n.pi.length := by rw [List.take_append_drop]
    simp only [List.length_append, List.length_cons] at this ⊢
    have := h.pnum
    omega
  · show n.pnum + 1 ≤ Gen.KVBLK_IDXNUM; omega
  · intro i
    show i ∈ n.pi.take idx ++ kvidx :: n.pi.drop idx ↔ (sl b.slots i).len ≠ 0
    rw [mem_insertAt]
    constructor
    · rintro (e | hi)
      · rw [e]; exact hnew.1
      · have hne : i ≠ kvidx := fun e => hnot (e ▸ hi)
        rw [(hsame i hne).1]; exact (h.mem i).1 hi
    · intro hu
      by_cases e : i = kvidx
      · exact Or.inl e
      · right; rw [(hsame i e).1] at hu; exact (h.mem i).2 hu
  · rw [hkeys]
    apply pairwise_insert _ _ _ h.sorted
    · intro x hx
      obtain ⟨j, hj, e⟩ := List.mem_take_iff_getElem.1 hx
      have hj' : j < n.pi.length := by rw [← hklen]; omega
      rw [← e, ← keyAt_eq_getElem n j hj']
      exact hl j (by omega) hj'
    · intro x hx
      obtain ⟨j, hj, e⟩ := List.mem_drop_iff_getElem.1 hx
      have hj' : idx + j < n.pi.length := by rw [← hklen]; omega
      rw [← e, ← keyAt_eq_getElem n (idx + j) hj']
      exact hr (idx + j) (by omega) hj'
  · rw [hkeys]
    intro k hk
    rcases (mem_insertAt _ _ _ _).1 hk with e | hk
    · rw [e]; exact hwf
    · exact h.wf k hk

theorem CoreNoCache.cacheRm {compound : Bool} {n : Node} (h : CoreNoCache compound n) (k : Bytes) :
    CoreNoCache compound (cacheRm n k) :=
  { pnum := h.pnum, le32 := h.le32, nodup := h.nodup, mem := h.mem, sorted := h.sorted, wf := h.wf }

/-- the comparisons against a descending key sequence are monotone -/
theorem mono_of_sorted (compound : Bool) (ks : List Bytes) (hs : ks.Pairwise (gtS compound)) (sk : Bytes) (cmp : Nat → Int)
    (hc : ∀ i (h : i < ks.length), cmp i = cmpS compound ks[i] sk) : Mono cmp ks.length := by
  intro i j hij hj hle
  have hg : gtS compound ks[i] ks[j] := (List.pairwise_iff_getElem.1 hs) i j (by omega) hj hij
  rw [hc j hj] at hle
  rw [hc i (by omega)]
  exact gtS_of_le compound _ _ _ hg hle

/-- what the node lemmas use of `_kvblk_addkv` on block `b` for the record `(key, val)`: the geometry survives, the record sits in the
returned slot, which was free, and all other slots keep their records. Holds on every `BlkInv` block (`geo_addkv`); the split lemmas
(`Lemmas/KvChain.lean`) establish it for the two blocks of a split, whose cached `idxsz` / `zidx` are not those of `BlkInv`. -/
def AddSpec (b : KvBlk) (key val : Bytes) : Prop := ∀ b' idx, addkv b key val = .ok b' idx →
    Geo b' ∧ idx < b.slots.length ∧ (sl b.slots idx).len = 0 ∧ b'.slots.length = b.slots.length ∧
    sl b'.slots idx = ⟨b'.maxoff, recSize key val, key, val⟩ ∧
    ∀ i, i ≠ idx → (sl b'.slots i).len = (sl b.slots i).len ∧ (sl b'.slots i).key = (sl b.slots i).key ∧
      (sl b'.slots i).val = (sl b.slots i).val

theorem addSpec_of_blkInv {b : KvBlk} (h : BlkInv b) (key val : Bytes) : AddSpec b key val :=
  fun b' idx e => geo_addkv h key val b' idx e

/-- common part of `_sblk_addkv2` and `_sblk_addkv`: the record went into slot `kvidx`, the search (`cmp i` = comparison of the
lookup key with the key at position `i`) did not find the key and gave position `idx` -/
theorem core_inserted {compound : Bool} {n : Node} (h : Core compound n) (pre body val : Bytes)
    (hb : AddSpec n.blk (pre ++ body) val)
    (b : KvBlk) (kvidx : Nat) (e : addkv n.blk (pre ++ body) val = .ok b kvidx) (idx : Nat) (cmp : Nat → Int)
    (hlt : n.pnum < Gen.KVBLK_IDXNUM) (hsk : WFS compound (pre ++ body)) (hpre : pre.length ≤ P)
    (hcmp : ∀ i, i < n.pi.length → cmp i = cmpS compound (keyAt n i) (pre ++ body))
    (hf : Found cmp n.pnum (false, idx)) :
    Geo b ∧ Core compound (if idx = 0 then cacheAdd (inserted n b kvidx idx) pre body else inserted n b kvidx idx) ∧
    0 < (if idx = 0 then cacheAdd (inserted n b kvidx idx) pre body else inserted n b kvidx idx).pnum ∧
    keys (if idx = 0 then cacheAdd (inserted n b kvidx idx) pre body else inserted n b kvidx idx) =
      (keys n).take idx ++ (pre ++ body) :: (keys n).drop idx := by
  obtain ⟨g, a1, a2, a3, a4, a5⟩ := hb b kvidx e
  have hpos := recSize_pos (pre ++ body) val
  have hins := core_insert h.noCache b kvidx idx (pre ++ body) a2
    ⟨by rw [a4]; show recSize (pre ++ body) val ≠ 0; omega, by rw [a4]⟩
    (fun i hi => ⟨(a5 i hi).1, (a5 i hi).2.1⟩) hsk hlt
    (fun j hj hjl => by
      have := hf.left j hj
      rw [hcmp j hjl] at this; exact this)
    (fun j hj hjl => by
      have := hf.miss rfl j hj (by rw [h.pnum]; exact hjl)
      rw [hcmp j hjl] at this
      exact (cmpS_flip compound _ _).2.2.1 this)
  refine ⟨g, ?_, ?_, ?_⟩
  · by_cases h0 : idx = 0
    · simp only [h0, if_true]
      rw [cacheAdd_eq _ _ _ hpre]
      have hk := hins.1
      rw [h0] at hk hins
      exact (hins.2.cacheRm _).core (cacheRm_ok _ _ (by rw [hk]; simp))
    · simp only [h0, if_false]
      refine hins.2.core ?_
      intro k0 hk0
      rw [hins.1] at hk0
      have hle : idx ≤ (keys n).length := by have := hf.le; rw [h.pnum] at this; simpa [keys] using this
      rw [head?_insertAt _ _ _ h0 hle] at hk0
      exact h.cache k0 hk0
  · split <;> exact Nat.succ_pos _
  · split <;> exact hins.1

/-- `_sblk_addkv2` keeps the invariant: the key is new and `idx` is where `_sblk_find_pi_mm` puts it -/
theorem core_addkv2' {compound : Bool} {n : Node} (h : Core compound n) (idx : Nat) (pre body val : Bytes)
    (hb : AddSpec n.blk (pre ++ body) val)
    (cmpk : Bytes → Int) (hsk : WFS compound (pre ++ body)) (hpre : pre.length ≤ P)
    (hcmp : ∀ st ∈ keys n, cmpk st = cmpS compound st (pre ++ body))
    (hf : Found (fun i => cmpk (keyAt n i)) n.pnum (false, idx)) (n' : Node)
    (e : addkv2 n idx pre body val = .ok n') : Geo n'.blk ∧ Core compound n' ∧ 0 < n'.pnum ∧
      keys n' = (keys n).take idx ++ (pre ++ body) :: (keys n).drop idx := by
  simp only [addkv2] at e
  split at e
  · exact absurd e (by simp)
  · rename_i hlt
    split at e
    · exact absurd e (by simp)
    · exact absurd e (by simp)
    · rename_i b kvidx hq
      simp only [Res.ok.injEq] at e
      have := core_inserted h pre body val hb b kvidx hq idx (fun i => cmpk (keyAt n i)) (by omega) hsk hpre
        (fun i hi => hcmp _ (by rw [keyAt_eq_getElem n i hi]; exact List.getElem_mem _)) hf
      rw [← e]
      refine ⟨?_, this.2.1, this.2.2.1, this.2.2.2⟩
      have hg := this.1
      split <;> exact hg

theorem core_addkv2 {compound : Bool} {n : Node} (hb : BlkInv n.blk) (h : Core compound n) (idx : Nat) (pre body val : Bytes)
    (cmpk : Bytes → Int) (hsk : WFS compound (pre ++ body)) (hpre : pre.length ≤ P)
    (hcmp : ∀ st ∈ keys n, cmpk st = cmpS compound st (pre ++ body))
    (hf : Found (fun i => cmpk (keyAt n i)) n.pnum (false, idx)) (n' : Node)
    (e : addkv2 n idx pre body val = .ok n') : Geo n'.blk ∧ Core compound n' ∧ 0 < n'.pnum :=
  let r := core_addkv2' h idx pre body val (addSpec_of_blkInv hb _ _) cmpk hsk hpre hcmp hf n' e
  ⟨r.1, r.2.1, r.2.2.1⟩

/-! ### list helpers for `set` / `eraseIdx` on duplicate-free lists -/

theorem nodup_getElem_ne {l : List Nat} (h : l.Nodup) (i j : Nat) (hi : i < l.length) (hj : j < l.length) (hne : i ≠ j) : l[i] ≠ l[j] := by
  have hp := List.pairwise_iff_getElem.1 h
  rcases Nat.lt_or_gt_of_ne hne with hlt | hgt
  · exact hp i j hi hj hlt
  · exact fun e => hp j i hj hi hgt e.symm

theorem mem_eraseIdx_nodup {l : List Nat} (h : l.Nodup) (k : Nat) (hk : k < l.length) (x : Nat) : x ∈ l.eraseIdx k ↔ x ∈ l ∧ x ≠ l[k] := by
  rw [List.mem_eraseIdx_iff_getElem]
  constructor
  · rintro ⟨i, hi, hne, e⟩
    exact ⟨e ▸ List.getElem_mem hi, e ▸ nodup_getElem_ne h i k hi hk hne⟩
  · rintro ⟨hx, hne⟩
    obtain ⟨i, hi, e⟩ := List.getElem_of_mem hx
    exact ⟨i, hi, fun e' => hne (by subst e'; exact e.symm), e⟩

theorem mem_set_nodup {l : List Nat} (h : l.Nodup) (k : Nat) (hk : k < l.length) (a x : Nat) : x ∈ l.set k a ↔ x = a ∨ (x ∈ l ∧ x ≠ l[k]) := by
  constructor
  · intro hx
    obtain ⟨j, hj, e⟩ := List.getElem_of_mem hx
    rw [List.getElem_set] at e
    split at e
    · exact Or.inl e.symm
    · rename_i hne
      have hj' : j < l.length := by simpa using hj
      exact Or.inr ⟨e ▸ List.getElem_mem hj', e ▸ nodup_getElem_ne h j k hj' hk (fun e' => hne e'.symm)⟩
  · rintro (e | ⟨hx, hne⟩)
    · rw [e]; exact List.mem_set hk a
    · obtain ⟨i, hi, e⟩ := List.getElem_of_mem hx
      have hik : k ≠ i := fun e' => hne (by subst e'; exact e.symm)
      have : (l.set k a)[i]'(by simpa using hi) = x := by rw [List.getElem_set, if_neg hik]; exact e
      exact this ▸ List.getElem_mem _

theorem nodup_set {l : List Nat} (h : l.Nodup) (k : Nat) (a : Nat) (ha : a ∉ l) : (l.set k a).Nodup := by
  rw [List.Nodup, List.pairwise_iff_getElem]
  intro i j hi hj hij
  have hi' : i < l.length := by simpa using hi
  have hj' : j < l.length := by simpa using hj
  rw [List.getElem_set, List.getElem_set]
  split <;> split
  · omega
  · exact fun e => ha (e ▸ List.getElem_mem hj')
  · exact fun e => ha (e ▸ List.getElem_mem hi')
  · exact nodup_getElem_ne h i j hi' hj' (by omega)

/-- `_sblk_addkv` keeps the invariant: the key is not in the node -/
theorem core_addkvIns' {compound : Bool} {n : Node} (h : Core compound n) (pre body val : Bytes)
    (hb : AddSpec n.blk (pre ++ body) val)
    (cmpk : Bytes → Int) (hsk : WFS compound (pre ++ body)) (hpre : pre.length ≤ P)
    (hcmp : ∀ st ∈ keys n, cmpk st = cmpS compound st (pre ++ body))
    (hnew : ∀ st ∈ keys n, cmpk st ≠ 0) (n' : Node)
    (e : addkvIns n cmpk pre body val = .ok n') : Geo n'.blk ∧ Core compound n' ∧ 0 < n'.pnum ∧
      ∃ idx, keys n' = (keys n).take idx ++ (pre ++ body) :: (keys n).drop idx := by
  simp only [addkvIns] at e
  split at e
  · exact absurd e (by simp)
  · rename_i hlt
    split at e
    · exact absurd e (by simp)
    · exact absurd e (by simp)
    · rename_i b kvidx hq
      simp only [Res.ok.injEq] at e
      obtain ⟨g, a1, a2, a3, a4, a5⟩ := hb b kvidx hq
      have hnot : kvidx ∉ n.pi := fun hm => (h.mem kvidx).1 hm a2
      -- keys of the old positions are the same in the new block
      have hkey0 : ∀ i, i < n.pi.length → keyAt { n with blk := b } i = keyAt n i := by
        intro i hi
        have hm : piAt n i ∈ n.pi := by
          simp only [piAt, List.getD_eq_getElem?_getD, List.getElem?_eq_getElem hi, Option.getD_some]
          exact List.getElem_mem hi
        have : piAt n i ≠ kvidx := fun e' => hnot (e' ▸ hm)
        exact (a5 _ this).2.1
      have hkmem : ∀ i, i < n.pi.length → keyAt n i ∈ keys n := fun i hi => by
        rw [keyAt_eq_getElem n i hi]; exact List.getElem_mem _
      have hcmp' : ∀ i, i < n.pi.length → cmpk (keyAt { n with blk := b } i) = cmpS compound (keyAt n i) (pre ++ body) := by
        intro i hi
        rw [hkey0 i hi]; exact hcmp _ (hkmem i hi)
      have fin : ∀ idx, Found (fun i => cmpk (keyAt { n with blk := b } i)) n.pnum (false, idx) →
          Geo (if idx = 0 then cacheAdd (inserted n b kvidx idx) pre body else inserted n b kvidx idx).blk ∧
          Core compound (if idx = 0 then cacheAdd (inserted n b kvidx idx) pre body else inserted n b kvidx idx) ∧
          0 < (if idx = 0 then cacheAdd (inserted n b kvidx idx) pre body else inserted n b kvidx idx).pnum ∧
          ∃ idx', keys (if idx = 0 then cacheAdd (inserted n b kvidx idx) pre body else inserted n b kvidx idx) =
            (keys n).take idx' ++ (pre ++ body) :: (keys n).drop idx' := by
        intro idx hf
        have := core_inserted h pre body val hb b kvidx hq idx _ (by omega) hsk hpre hcmp' hf
        refine ⟨?_, this.2.1, this.2.2.1, idx, this.2.2.2⟩
        have hg := this.1
        split <;> exact hg
      simp only [insertPi] at e
      split at e
      · rename_i h0
        have hp0 : n.pnum = 0 := by
          have : n.pnum < 1 := h0
          omega
        have hnil : n.pi = [] := List.eq_nil_of_length_eq_zero (by rw [← h.pnum]; exact hp0)
        have e1 : ({ n with blk := b, pi := [kvidx], pnum := n.pnum + 1 } : Node) = inserted n b kvidx 0 := by
          simp [inserted, hnil]
        have hf : Found (fun i => cmpk (keyAt { n with blk := b } i)) n.pnum (false, 0) :=
          ⟨Nat.zero_le _, fun i hi => by omega, fun hh => by simp at hh, fun _ i _ hi => by omega⟩
        have := fin 0 hf
        simp only [if_true] at this e
        rw [← e]
        show Geo (cacheAdd { n with blk := b, pi := [kvidx], pnum := n.pnum + 1 } pre body).blk ∧ _
        rw [e1]; exact this
      · rename_i h0
        have hp : 0 < n.pnum := by
          have : ¬ n.pnum < 1 := h0
          omega
        have hklen : (keys n).length = n.pnum := by rw [h.pnum]; simp [keys]
        have hm : Mono (fun i => cmpk (keyAt { n with blk := b } i)) n.pnum := by
          have := mono_of_sorted compound (keys n) h.sorted (pre ++ body) (fun i => cmpk (keyAt { n with blk := b } i))
            (fun i hi => by
              have hi' : i < n.pi.length := by rw [← h.pnum, ← hklen]; exact hi
              show cmpk (keyAt { n with blk := b } i) = _
              rw [hcmp' i hi', keyAt_eq_getElem n i hi'])
          rw [hklen] at this; exact this
        have hfound := findGo_spec _ n.pnum hm n.pnum 0 n.pnum hp (Nat.le_refl _) (by omega)
          (fun i hi => by omega) (fun i hi1 hi2 => by omega)
        generalize findGo (fun i => cmpk (keyAt { n with blk := b } i)) n.pnum 0 n.pnum = r at e hfound
        obtain ⟨r1, r2⟩ := r
        have hr1 : r1 = false := by
          cases r1 with
          | false => rfl
          | true =>
            exfalso
            obtain ⟨hlt2, h0'⟩ := hfound.hit rfl
            have hlt3 : r2 < n.pi.length := by rw [← h.pnum]; exact hlt2
            have h0'' : cmpk (keyAt { n with blk := b } r2) = 0 := h0'
            rw [hkey0 r2 hlt3] at h0''
            exact hnew _ (hkmem r2 hlt3) h0''
        subst hr1
        have := fin r2 hfound
        simp only [Bool.false_eq_true, if_false] at e
        rw [← e]
        exact this

theorem core_addkvIns {compound : Bool} {n : Node} (hb : BlkInv n.blk) (h : Core compound n) (pre body val : Bytes)
    (cmpk : Bytes → Int) (hsk : WFS compound (pre ++ body)) (hpre : pre.length ≤ P)
    (hcmp : ∀ st ∈ keys n, cmpk st = cmpS compound st (pre ++ body))
    (hnew : ∀ st ∈ keys n, cmpk st ≠ 0) (n' : Node)
    (e : addkvIns n cmpk pre body val = .ok n') : Geo n'.blk ∧ Core compound n' ∧ 0 < n'.pnum :=
  let r := core_addkvIns' h pre body val (addSpec_of_blkInv hb _ _) cmpk hsk hpre hcmp hnew n' e
  ⟨r.1, r.2.1, r.2.2.1⟩

theorem used_lt {b : KvBlk} {i : Nat} (h : (sl b.slots i).len ≠ 0) : i < b.slots.length := by
  by_cases hi : i < b.slots.length
  · exact hi
  · exact absurd (by rw [sl_ge _ _ (by omega)]; rfl) h

theorem piAt_eq (n : Node) (i : Nat) (h : i < n.pi.length) : piAt n i = n.pi[i] := by
  simp [piAt, List.getD_eq_getElem?_getD, List.getElem?_eq_getElem h]

/-- `_sblk_updatekv` keeps the invariant and the key sequence -/
theorem core_updatekv {compound : Bool} {n : Node} (hb : BlkInv n.blk) (h : Core compound n) (idx : Nat) (hidx : idx < n.pi.length)
    (val : Bytes) (n' : Node) (e : updatekv n idx val = .ok n') :
    Geo n'.blk ∧ Core compound n' ∧ n'.pnum = n.pnum ∧ keys n' = keys n := by
  simp only [updatekv] at e
  split at e
  · rename_i b kvidx hq
    simp only [Res.ok.injEq] at e
    subst e
    have hs : piAt n idx = n.pi[idx] := piAt_eq n idx hidx
    have hsm : n.pi[idx] ∈ n.pi := List.getElem_mem hidx
    have hused : (sl n.blk.slots n.pi[idx]).len ≠ 0 := (h.mem _).1 hsm
    rw [hs] at hq
    have hg : Geo b := by
      have := geo_updatev hb n.pi[idx] (used_lt hused) val
      rw [hq] at this; exact this
    obtain ⟨u1, u2, u3, u4, u5, u6⟩ := updatev_slots hb n.pi[idx] (used_lt hused) val b kvidx hq
    -- the slot the record is in now is either the old one or was free
    have hfresh : kvidx ≠ n.pi[idx] → kvidx ∉ n.pi := fun hne hm => (h.mem kvidx).1 hm (u5 hne).1
    have hkeys : keys { n with blk := b, pi := n.pi.set idx kvidx } = keys n := by
      show (n.pi.set idx kvidx).map (slotKey b) = n.pi.map (slotKey n.blk)
      apply List.ext_getElem
      · simp
      · intro j hj1 hj2
        have hj : j < n.pi.length := by simpa using hj2
        simp only [List.getElem_map, List.getElem_set]
        split
        · rename_i hij
          subst hij
          rw [slotKey_eq, slotKey_eq]; exact u3
        · rename_i hij
          have h1 : n.pi[j] ≠ n.pi[idx] := nodup_getElem_ne h.nodup j idx hj hidx (fun e' => hij e'.symm)
          have h2 : n.pi[j] ≠ kvidx := by
            intro e'
            by_cases hk : kvidx = n.pi[idx]
            · exact h1 (e'.trans hk)
            · exact hfresh hk (e' ▸ List.getElem_mem hj)
          rw [slotKey_eq, slotKey_eq]; exact (u6 _ h1 h2).2.1
    refine ⟨hg, ?_, rfl, hkeys⟩
    refine { pnum := ?_, le32 := h.le32, nodup := ?_, mem := ?_, sorted := ?_, wf := ?_, cache := ?_ }
    · show n.pnum = (n.pi.set idx kvidx).length; rw [List.length_set]; exact h.pnum
    · show (n.pi.set idx kvidx).Nodup
      by_cases hk : kvidx = n.pi[idx]
      · rw [hk, List.set_getElem_self]; exact h.nodup
      · exact nodup_set h.nodup idx kvidx (hfresh hk)
    · intro i
      show i ∈ n.pi.set idx kvidx ↔ (sl b.slots i).len ≠ 0
      rw [mem_set_nodup h.nodup idx hidx]
      constructor
      · rintro (e' | ⟨hi, hne⟩)
        · rw [e']; exact u2
        · by_cases hk : i = kvidx
          · rw [hk]; exact u2
          · rw [(u6 i hne hk).1]; exact (h.mem i).1 hi
      · intro hu
        by_cases hk : i = kvidx
        · exact Or.inl hk
        · right
          have hne : i ≠ n.pi[idx] := by
            intro e'
            have := (u5 (fun e2 => hk (e'.trans e2.symm))).2
            rw [← e'] at this
            exact hu this
          rw [(u6 i hne hk).1] at hu
          exact ⟨(h.mem i).2 hu, hne⟩
    · rw [hkeys]; exact h.sorted
    · rw [hkeys]; exact h.wf
    · intro k0 hk0
      rw [hkeys] at hk0
      exact h.cache k0 hk0
  · exact absurd e (by simp)

theorem map_eraseIdx {α β : Type} (f : α → β) : ∀ (l : List α) (i : Nat), (l.eraseIdx i).map f = (l.map f).eraseIdx i
  | [], _ => rfl
  | _ :: _, 0 => rfl
  | a :: l, i + 1 => by simp [List.eraseIdx, map_eraseIdx f l i]

theorem head?_eraseIdx_pos {α : Type} (l : List α) (i : Nat) (hi : i ≠ 0) : (l.eraseIdx i).head? = l.head? := by
  cases l with
  | nil => rfl
  | cons x xs =>
    cases i with
    | zero => contradiction
    | succ i => rfl

/-- the node after `_kvblk_rmkv` of the slot at position `idx`, `--pnum` and the `memmove` of `pi` -/
def removed (n : Node) (idx : Nat) : Node :=
  { n with blk := KvBlk.rmkv n.blk (piAt n idx) false, pnum := n.pnum - 1, pi := n.pi.eraseIdx idx }

theorem core_removed {compound : Bool} {n : Node} (hb : BlkInv n.blk) (h : Core compound n) (idx : Nat) (hidx : idx < n.pi.length) :
    BlkInv (removed n idx).blk ∧ keys (removed n idx) = (keys n).eraseIdx idx ∧ CoreNoCache compound (removed n idx) := by
  have hs : piAt n idx = n.pi[idx] := piAt_eq n idx hidx
  have hsm : n.pi[idx] ∈ n.pi := List.getElem_mem hidx
  have hused : (sl n.blk.slots n.pi[idx]).len ≠ 0 := (h.mem _).1 hsm
  have hlt := used_lt hused
  obtain ⟨r1, r2, r3⟩ := rmkv_recs hb n.pi[idx] hlt false
  have hbi := blkInv_rmkv hb n.pi[idx] hlt false
  have hkeys : keys (removed n idx) = (keys n).eraseIdx idx := by
    show (n.pi.eraseIdx idx).map (slotKey (KvBlk.rmkv n.blk (piAt n idx) false)) = (n.pi.map (slotKey n.blk)).eraseIdx idx
    rw [← map_eraseIdx, hs]
    apply List.map_congr_left
    intro x hx
    have := (mem_eraseIdx_nodup h.nodup idx hidx x).1 hx
    rw [slotKey_eq, slotKey_eq]; exact (r3 x this.2).2.1
  refine ⟨by show BlkInv (KvBlk.rmkv n.blk (piAt n idx) false); rw [hs]; exact hbi, hkeys, ?_⟩
  refine { pnum := ?_, le32 := ?_, nodup := h.nodup.eraseIdx idx, mem := ?_, sorted := ?_, wf := ?_ }
  · show n.pnum - 1 = (n.pi.eraseIdx idx).length
    rw [List.length_eraseIdx, if_pos hidx, h.pnum]
  · show n.pnum - 1 ≤ Gen.KVBLK_IDXNUM; have := h.le32; omega
  · intro i
    show i ∈ n.pi.eraseIdx idx ↔ (sl (KvBlk.rmkv n.blk (piAt n idx) false).slots i).len ≠ 0
    rw [mem_eraseIdx_nodup h.nodup idx hidx, hs]
    constructor
    · rintro ⟨hi, hne⟩
      rw [(r3 i hne).1]; exact (h.mem i).1 hi
    · intro hu
      have hne : i ≠ n.pi[idx] := fun e' => hu (e' ▸ r2)
      rw [(r3 i hne).1] at hu
      exact ⟨(h.mem i).2 hu, hne⟩
  · rw [hkeys]; exact h.sorted.eraseIdx idx
  · rw [hkeys]
    intro k hk
    exact h.wf k ((List.eraseIdx_sublist _ _).subset hk)

/-- `_sblk_rmkv` keeps the invariant (the node may be empty afterwards: `pnum = 0`) -/
theorem core_rmkv {compound : Bool} {n : Node} (hb : BlkInv n.blk) (h : Core compound n) (idx : Nat) (hidx : idx < n.pi.length) :
    BlkInv (rmkv n idx).blk ∧ Core compound (rmkv n idx) ∧ (rmkv n idx).pnum = n.pnum - 1 ∧
    keys (rmkv n idx) = (keys n).eraseIdx idx := by
  obtain ⟨c1, c2, c3⟩ := core_removed hb h idx hidx
  have e : rmkv n idx = if idx = 0 then
      (if (removed n idx).pnum > 0 then cacheRm (removed n idx) (slotKey (removed n idx).blk (piAt (removed n idx) 0))
       else { removed n idx with lkl := 0 })
    else removed n idx := rfl
  rw [e]
  by_cases h0 : idx = 0
  · simp only [h0, if_true]
    rw [h0] at c1 c2 c3
    by_cases hp : (removed n 0).pnum > 0
    · simp only [hp, if_true]
      refine ⟨c1, (c3.cacheRm _).core (cacheRm_ok _ _ ?_), rfl, c2⟩
      have hne : (removed n 0).pi ≠ [] := by
        intro e0
        have := c3.pnum
        rw [e0] at this
        simp at this
        omega
      show ((removed n 0).pi.map (slotKey (removed n 0).blk)).head? = _
      cases hq : (removed n 0).pi with
      | nil => exact absurd hq hne
      | cons x xs => simp [piAt, hq]
    · simp only [hp, if_false]
      have hnil : (removed n 0).pi = [] := List.eq_nil_of_length_eq_zero (by rw [← c3.pnum]; omega)
      refine ⟨c1, ?_, rfl, c2⟩
      refine { pnum := c3.pnum, le32 := c3.le32, nodup := c3.nodup, mem := c3.mem, sorted := c3.sorted, wf := c3.wf, cache := ?_ }
      intro k0 hk0
      have : keys { removed n 0 with lkl := 0 } = [] := by
        show (removed n 0).pi.map _ = []
        rw [hnil]; rfl
      rw [this] at hk0
      simp at hk0
  · simp only [h0, if_false]
    refine ⟨c1, c3.core ?_, rfl, c2⟩
    intro k0 hk0
    rw [c2, head?_eraseIdx_pos _ _ h0] at hk0
    exact h.cache k0 hk0

/-! ### lookup through the cached first key -/

theorem head?_keys (n : Node) (hne : n.pi ≠ []) : (keys n).head? = some (keyAt n 0) := by
  cases hq : n.pi with
  | nil => exact absurd hq hne
  | cons x xs => simp [keys, keyAt, piAt, hq]

/-- with a cache that describes the first key, the model of `_lx_sblk_cmp_key` on the node's fields is the comparator `Cmp.lxCmp` of
C19 on the node's first key -/
theorem lxCmp_eq (compound : Bool) {n : Node} (hc : CacheOk n) (hne : n.pi ≠ []) (k : Bytes) (c2 : Nat) :
    lxCmp compound n k c2 = Cmp.lxCmp .plain compound (keyAt n 0) k c2 := by
  obtain ⟨h1, h2, h3⟩ := hc _ (head?_keys n hne)
  unfold lxCmp Cmp.lxCmp
  simp only [h2, h1, List.length_take]
  by_cases hf : (keyAt n 0).length ≤ P
  · have : n.full = true := h3.2 hf
    simp [this, hf]
  · have : n.full = false := by
      cases hq : n.full with
      | false => rfl
      | true => exact absurd (h3.1 hq) hf
    simp [this, hf]

theorem preOf_length (compound : Bool) (c : Nat) (hc : c < 2 ^ 63) : (preOf compound c).length ≤ P := by
  cases compound with
  | false => simp [preOf]
  | true =>
    have := Cmp.enc_length_le10 hc
    have e : Gen.IW_VNUMBUFSZ ≤ P := by decide
    simp only [preOf, if_true]; omega

theorem preOf_append (compound : Bool) (k : Bytes) (c : Nat) : preOf compound c ++ k = Cmp.stored compound k c := by
  cases compound <;> simp [preOf, Cmp.stored]

/-- **lookup through the cached prefix agrees with the full comparison**: the sign `_lx_sblk_cmp_key` computes from the node record
(cached bytes, `lkl`, `SBLK_FULL_LKEY`, falling back to the stored key on a tie) is the sign of `_cmp_keys` on the node's whole
first key -/
theorem lookup_agrees (compound : Bool) {n : Node} (h : Core compound n) (hne : n.pi ≠ []) (k : Bytes) (c2 : Nat) :
    sgn (lxCmp compound n k c2) = sgn (Cmp.cmpKeys .plain compound (keyAt n 0) k c2) := by
  rw [lxCmp_eq compound h.cache hne]
  cases compound with
  | false => exact Cmp.lxCmp_plain_nc _ _ _
  | true =>
    have hm : keyAt n 0 ∈ keys n := by
      have := head?_keys n hne
      exact List.mem_of_mem_head? this
    obtain ⟨w1, _, w3⟩ := h.wf _ hm
    rw [← w1]
    have hl := Cmp.enc_length_le10 (w3 rfl)
    have e : Gen.IW_VNUMBUFSZ < Gen.PREFIX_KEY_LEN_V2 := by decide
    exact Cmp.lxCmp_plain_c _ _ _ _ (by omega)

/-! ### a database with at most one node -/

/-- invariant of the one-node database -/
def DbInv (compound : Bool) (d : Db) : Prop := ∀ n, d = some n → NodeInv compound n

theorem sl_replicate_free (m i : Nat) : sl (List.replicate m Slot.free) i = Slot.free := by
  by_cases h : i < m
  · simp [sl, List.getD_eq_getElem?_getD, List.getElem?_replicate, h]
  · exact sl_ge _ _ (by simp; omega)

theorem core_fresh (compound : Bool) : BlkInv fresh.blk ∧ Core compound fresh := by
  refine ⟨blkInv_create _ (by decide) (by decide), ?_⟩
  refine { pnum := rfl, le32 := by decide, nodup := List.nodup_nil, mem := ?_, sorted := List.Pairwise.nil, wf := ?_, cache := ?_ }
  · intro i
    show i ∈ ([] : List Nat) ↔ (sl (List.replicate Gen.KVBLK_IDXNUM Slot.free) i).len ≠ 0
    rw [sl_replicate_free]
    simp [Slot.free]
  · intro k hk; exact absurd hk (by simp [keys, fresh])
  · intro k0 hk0; simp [keys, fresh] at hk0

theorem nodeInv_ofRes {compound : Bool} {r : Res} {d : Db}
    (h : ∀ n', r = .ok n' → Geo n'.blk ∧ Core compound n' ∧ 0 < n'.pnum) (e : ofRes r = .ok d) : DbInv compound d := by
  cases r with
  | ok n' =>
    simp only [ofRes, PutRes.ok.injEq] at e
    obtain ⟨g, c, p⟩ := h n' rfl
    intro n hn
    rw [← e] at hn
    simp only [Option.some.injEq] at hn
    rw [← hn]
    exact { toCore := core_sync c, blk := blkInv_sync g, pos := p }
  | full => simp [ofRes] at e
  | maxkvsz => simp [ofRes] at e

/-- comparisons against the keys of a node: what `_sblk_find_pi_mm` sees -/
theorem found_findPi {compound : Bool} {n : Node} (h : NodeInv compound n) (k : Bytes) (c : Nat) :
    Found (fun i => cmpOf compound k c (keyAt n i)) n.pnum (findPi n (cmpOf compound k c)) ∧
    (∀ st ∈ keys n, cmpOf compound k c st = cmpS compound st (Cmp.stored compound k c)) := by
  have hcmp : ∀ st ∈ keys n, cmpOf compound k c st = cmpS compound st (Cmp.stored compound k c) :=
    fun st hst => cmpOf_eq compound k c st (h.wf st hst)
  refine ⟨?_, hcmp⟩
  have hklen : (keys n).length = n.pnum := by rw [h.pnum]; simp [keys]
  have hm : Mono (fun i => cmpOf compound k c (keyAt n i)) n.pnum := by
    have := mono_of_sorted compound (keys n) h.sorted (Cmp.stored compound k c) (fun i => cmpOf compound k c (keyAt n i))
      (fun i hi => by
        have hi' : i < n.pi.length := by rw [← h.pnum, ← hklen]; exact hi
        show cmpOf compound k c (keyAt n i) = _
        rw [keyAt_eq_getElem n i hi']
        exact hcmp _ (List.getElem_mem _))
    rw [hklen] at this; exact this
  have hp := h.pos
  simp only [findPi, if_neg (show ¬ n.pnum < 1 by omega)]
  exact findGo_spec _ n.pnum hm n.pnum 0 n.pnum hp (Nat.le_refl _) (by omega) (fun i hi => by omega) (fun i hi1 hi2 => by omega)

/-- **`iwkv_put` keeps the invariant** (new key at any position, in front of the first key, into an empty database; overwrite) -/
theorem dbInv_put {compound : Bool} {d : Db} (h : DbInv compound d) (k : Bytes) (c : Nat) (val : Bytes) (hk : k ≠ [])
    (hc : c < 2 ^ 63) (d' : Db) (e : put compound d k c val = .ok d') : DbInv compound d' := by
  have hsk : WFS compound (preOf compound c ++ k) := by rw [preOf_append]; exact wfs_stored compound k c hk hc
  have hpre := preOf_length compound c hc
  cases d with
  | none =>
    simp only [put] at e
    obtain ⟨fb, fc⟩ := core_fresh compound
    apply nodeInv_ofRes _ e
    intro n' hn'
    exact core_addkvIns fb fc _ _ _ _ hsk hpre (fun st hst => absurd hst (by simp [keys, fresh]))
      (fun st hst => absurd hst (by simp [keys, fresh])) n' hn'
  | some n =>
    have hn := h n rfl
    obtain ⟨hfound, hcmp⟩ := found_findPi hn k c
    have hcmp' : ∀ st ∈ keys n, cmpOf compound k c st = cmpS compound st (preOf compound c ++ k) := by
      rw [preOf_append]; exact hcmp
    have hne : n.pi ≠ [] := by
      intro e0
      have := hn.pnum; have := hn.pos
      rw [e0] at *; simp at *; omega
    simp only [put] at e
    split at e
    · rename_i hgt
      split at e
      · rename_i hlt
        apply nodeInv_ofRes _ e
        intro n' hn'
        refine core_addkvIns hn.blk hn.toCore _ _ _ _ hsk hpre hcmp' ?_ n' hn'
        -- the key is above the first key, hence above every key of the node
        have hag := lookup_agrees compound hn.toCore hne k c
        have hfirst : cmpOf compound k c (keyAt n 0) > 0 := by
          have : sgn (lxCmp compound n k c) = 1 := Cmp.sgn_pos.2 hgt
          rw [this] at hag
          exact Cmp.sgn_pos.1 hag.symm
        have hmem0 : keyAt n 0 ∈ keys n := List.mem_of_mem_head? (head?_keys n hne)
        rw [hcmp _ hmem0] at hfirst
        intro st hst
        rw [hcmp st hst]
        have hks : keys n = keyAt n 0 :: (keys n).tail := by
          have := head?_keys n hne
          cases hq : keys n with
          | nil => rw [hq] at this; simp at this
          | cons x xs => rw [hq] at this; simp at this; simp [this]
        have hsorted := hn.sorted
        rw [hks] at hsorted hst
        rcases List.mem_cons.1 hst with e1 | hst
        · rw [e1]; omega
        · have hg : gtS compound (keyAt n 0) st := (List.pairwise_cons.1 hsorted).1 st hst
          have h1 := (cmpS_flip compound _ _).1.1 hg
          have := cmpS_trans compound st (keyAt n 0) _ h1 hfirst
          omega
      · exact absurd e (by simp)
    · split at e
      · rename_i hf
        apply nodeInv_ofRes _ e
        intro n' hn'
        have hlt := (hfound.hit hf).1
        have := core_updatekv hn.blk hn.toCore _ (by rw [← hn.pnum]; exact hlt) val n' hn'
        exact ⟨this.1, this.2.1, by rw [this.2.2.1]; exact hn.pos⟩
      · rename_i hf
        split at e
        · exact absurd e (by simp)
        · apply nodeInv_ofRes _ e
          intro n' hn'
          have hf' : (findPi n (cmpOf compound k c)).1 = false := by
            cases hq : (findPi n (cmpOf compound k c)).1 with
            | false => rfl
            | true => exact absurd hq hf
          have hfd : Found (fun i => cmpOf compound k c (keyAt n i)) n.pnum (false, (findPi n (cmpOf compound k c)).2) := by
            have := hfound
            rw [show findPi n (cmpOf compound k c) = ((findPi n (cmpOf compound k c)).1, (findPi n (cmpOf compound k c)).2) from rfl, hf'] at this
            exact this
          exact core_addkv2 hn.blk hn.toCore _ _ _ _ _ hsk hpre hcmp' hfd n' hn'

/-- a position found by key lies inside the node and holds that key -/
theorem curPos_spec {compound : Bool} {d : Db} (h : DbInv compound d) (k : Bytes) (c : Nat) (pos : Nat)
    (e : curPos compound d k c = some pos) :
    ∃ n, d = some n ∧ pos < n.pnum ∧ cmpOf compound k c (keyAt n pos) = 0 := by
  cases d with
  | none => simp [curPos] at e
  | some n =>
    have hn := h n rfl
    obtain ⟨hfound, _⟩ := found_findPi hn k c
    simp only [curPos] at e
    split at e
    · exact absurd e (by simp)
    · split at e
      · rename_i hf
        simp only [Option.some.injEq] at e
        rw [← e]
        exact ⟨n, rfl, (hfound.hit hf).1, (hfound.hit hf).2⟩
      · exact absurd e (by simp)

/-- removal of a position (last key: the node goes; otherwise `_sblk_rmkv`) keeps the invariant -/
theorem dbInv_rmAt {compound : Bool} {n : Node} (h : NodeInv compound n) (pos : Nat) (hpos : pos < n.pnum) :
    DbInv compound (rmAt n pos) := by
  intro m hm
  simp only [rmAt] at hm
  split at hm
  · exact absurd hm (by simp)
  · rename_i h1
    simp only [Option.some.injEq] at hm
    rw [← hm]
    obtain ⟨c1, c2, c3, _⟩ := core_rmkv h.blk h.toCore pos (by rw [← h.pnum]; exact hpos)
    have := h.pos
    exact { toCore := core_sync c2, blk := blkInv_sync c1.geo, pos := by show 0 < (rmkv n pos).pnum; rw [c3]; omega }

/-- **`iwkv_del` keeps the invariant** (any position, including the first key and the last remaining key) -/
theorem dbInv_del {compound : Bool} {d : Db} (h : DbInv compound d) (k : Bytes) (c : Nat) (d' : Db)
    (e : del compound d k c = some d') : DbInv compound d' := by
  cases d with
  | none => simp [del] at e
  | some n =>
    cases hq : curPos compound (some n) k c with
    | none => simp [del, hq] at e
    | some pos =>
      simp only [del, hq, Option.some.injEq] at e
      obtain ⟨m, hm, hlt, _⟩ := curPos_spec h k c pos hq
      simp only [Option.some.injEq] at hm
      subst hm
      rw [← e]
      exact dbInv_rmAt (h n rfl) pos hlt

/-- **`iwkv_cursor_set` keeps the invariant** -/
theorem dbInv_curSet {compound : Bool} {d : Db} (h : DbInv compound d) (pos : Nat) (val : Bytes)
    (hpos : ∀ n, d = some n → pos < n.pnum) (d' : Db) (e : curSet d pos val = .ok d') : DbInv compound d' := by
  cases d with
  | none => simp [curSet] at e
  | some n =>
    have hn := h n rfl
    simp only [curSet] at e
    apply nodeInv_ofRes _ e
    intro n' hn'
    have := core_updatekv hn.blk hn.toCore pos (by rw [← hn.pnum]; exact hpos n rfl) val n' hn'
    exact ⟨this.1, this.2.1, by rw [this.2.2.1]; exact hn.pos⟩

/-- **`iwkv_cursor_del` keeps the invariant** -/
theorem dbInv_curDel {compound : Bool} {d : Db} (h : DbInv compound d) (pos : Nat)
    (hpos : ∀ n, d = some n → pos < n.pnum) : DbInv compound (curDel d pos) := by
  cases d with
  | none => intro m hm; simp [curDel] at hm
  | some n => exact dbInv_rmAt (h n rfl) pos (hpos n rfl)

/-- preconditions the API checks before an operation reaches the node: non-empty key, compound part in the `int64_t` range -/
def Op.ok : Op → Prop
  | .put k c _ => k ≠ [] ∧ c < 2 ^ 63
  | _ => True

theorem dbInv_step {compound : Bool} {d : Db} (h : DbInv compound d) (op : Op) (hop : op.ok) : DbInv compound (step compound d op) := by
  cases op with
  | put k c v =>
    simp only [step]
    cases hq : put compound d k c v with
    | ok d' => exact dbInv_put h k c v hop.1 hop.2 d' hq
    | split => exact h
    | failed _ => exact h
  | del k c =>
    simp only [step]
    cases hq : del compound d k c with
    | none => exact h
    | some d' => exact dbInv_del h k c d' hq
  | cset k c v =>
    simp only [step]
    cases hq : curPos compound d k c with
    | none => exact h
    | some pos =>
      obtain ⟨m, hm, hlt, _⟩ := curPos_spec h k c pos hq
      show DbInv compound (match curSet d pos v with | .ok d' => d' | _ => d)
      cases hr : curSet d pos v with
      | ok d' => exact dbInv_curSet h pos v (fun n hn => by rw [hm] at hn; simp only [Option.some.injEq] at hn; rw [← hn]; exact hlt) d' hr
      | split => exact h
      | failed _ => exact h
  | cdel k c =>
    simp only [step]
    cases hq : curPos compound d k c with
    | none => exact h
    | some pos =>
      obtain ⟨m, hm, hlt, _⟩ := curPos_spec h k c pos hq
      exact dbInv_curDel h pos (fun n hn => by rw [hm] at hn; simp only [Option.some.injEq] at hn; rw [← hn]; exact hlt)

theorem dbInv_run {compound : Bool} {d : Db} (h : DbInv compound d) (ops : List Op) (hops : ∀ op ∈ ops, op.ok) :
    DbInv compound (run compound d ops) := by
  induction ops generalizing d with
  | nil => exact h
  | cons op ops ih =>
    exact ih (dbInv_step h op (hops op (List.mem_cons_self))) (fun o ho => hops o (List.mem_cons_of_mem _ ho))

theorem cmpS_self (compound : Bool) (a : Bytes) : cmpS compound a a = 0 := by
  cases compound with
  | false => rw [cmpS, Cmp.cmpK_false]; exact Cmp.tieBreak_self _
  | true => exact (Cmp.cmpK_true_eq_zero _ _).2 rfl

/-- `_sblk_find_pi_mm` reports "found" exactly when the stored form of the lookup key is one of the node's keys, and then at its position -/
theorem findPi_found_iff {compound : Bool} {n : Node} (h : NodeInv compound n) (k : Bytes) (c : Nat) (hk : k ≠ []) (hc : c < 2 ^ 63) :
    ((findPi n (cmpOf compound k c)).1 = true ↔ Cmp.stored compound k c ∈ keys n) ∧
    ((findPi n (cmpOf compound k c)).1 = true → keyAt n (findPi n (cmpOf compound k c)).2 = Cmp.stored compound k c) := by
  obtain ⟨hf, hcmp⟩ := found_findPi h k c
  have hwf := wfs_stored compound k c hk hc
  have hkm : ∀ i, i < n.pnum → keyAt n i ∈ keys n := fun i hi => by
    have hi' : i < n.pi.length := by rw [← h.pnum]; exact hi
    rw [keyAt_eq_getElem n i hi']; exact List.getElem_mem _
  have hit : (findPi n (cmpOf compound k c)).1 = true → keyAt n (findPi n (cmpOf compound k c)).2 = Cmp.stored compound k c := by
    intro ht
    obtain ⟨hlt, h0⟩ := hf.hit ht
    have hm := hkm _ hlt
    have h0' : cmpOf compound k c (keyAt n (findPi n (cmpOf compound k c)).2) = 0 := h0
    rw [hcmp _ hm] at h0'
    exact cmpS_eq_zero_wf compound _ _ (h.wf _ hm) hwf h0'
  refine ⟨⟨fun ht => ?_, fun hm => ?_⟩, hit⟩
  · rw [← hit ht]; exact hkm _ (hf.hit ht).1
  · cases hq : (findPi n (cmpOf compound k c)).1 with
    | true => rfl
    | false =>
      exfalso
      obtain ⟨j, hj, ej⟩ := List.getElem_of_mem hm
      have hj' : j < n.pi.length := by simpa [keys] using hj
      have hjp : j < n.pnum := by rw [h.pnum]; exact hj'
      have e0 : cmpOf compound k c (keyAt n j) = 0 := by
        rw [hcmp _ (hkm j hjp), keyAt_eq_getElem n j hj', ej]; exact cmpS_self _ _
      by_cases hlt : j < (findPi n (cmpOf compound k c)).2
      · have := hf.left j hlt
        have : cmpOf compound k c (keyAt n j) < 0 := this
        omega
      · have := hf.miss hq j (by omega) hjp
        have : cmpOf compound k c (keyAt n j) > 0 := this
        omega
theorem dbInv_none (compound : Bool) : DbInv compound none := fun _ h => absurd h (by simp)

end IwModel.KvNode
