import IwModel.Model.JsonPtr
/-! The tree visitor (`jbn_visit` + `_jbn_get_visitor`) computes a depth-first, first-match search `btGet`
(with the `*` wildcard); the cursor `pos` never lets an off-path subtree match. -/
namespace IwModel.Ptr
open IwModel.Gen.Binn IwModel.Binn

/-- the token test of the tree-side cursor update -/
def segHitT (key : Option Bytes) (idx : Nat) (seg : Bytes) : Bool := segEqTree key idx seg || isStar seg

mutual
  /-- what the walk finds: the first value in document order whose path matches all tokens
      (`*` matches any member/element) -/
  def btGet : JVal → List Bytes → Option JVal
    | v, [] => some v
    | .arr xs, seg :: rest => btArr 0 xs seg rest
    | .obj ms, seg :: rest => btObj ms seg rest
    | _, _ :: _ => none
  def btArr : Nat → List JVal → Bytes → List Bytes → Option JVal
    | _, [], _, _ => none
    | i, x :: xs, seg, rest =>
      if segHitT none i seg then
        match btGet x rest with
        | some r => some r
        | none => btArr (i + 1) xs seg rest
      else btArr (i + 1) xs seg rest
  def btObj : List (Bytes × JVal) → Bytes → List Bytes → Option JVal
    | [], _, _ => none
    | (k, x) :: ms, seg, rest =>
      if segHitT (some k) k.length seg then
        match btGet x rest with
        | some r => some r
        | none => btObj ms seg rest
      else btObj ms seg rest
end

/-- result of a walk below level `lvl`, compared with the search result `o` -/
def Outcome (o : Option JVal) (lvl : Nat) (st : VS JVal) : Prop :=
  match o with
  | some r => st.term = true ∧ st.res = some r
  | none => st.term = false ∧ st.res = none ∧ lvl ≤ st.pos1

theorem tvArr_term (jp : List Bytes) (lvl i : Nat) (xs : List JVal) (st : VS JVal) (h : st.term = true) :
    tvArr jp lvl i xs st = some st := by
  cases xs <;> simp [tvArr, h]

theorem tvObj_term (jp : List Bytes) (lvl : Nat) (ms : List (Bytes × JVal)) (st : VS JVal) (h : st.term = true) :
    tvObj jp lvl ms st = some st := by
  match ms with
  | [] => simp [tvObj]
  | (k, x) :: ms => simp [tvObj, h]

/-- once `terminate` is set a (level-checked) walk changes nothing -/
theorem tvNode_term (jp : List Bytes) (lvl : Nat) (c : JVal) (st : VS JVal) (h : st.term = true)
    (hl : lvl ≤ JBL_MAX_NESTING_LEVEL) : tvNode jp lvl c st = some st := by
  have hn : ¬ lvl > JBL_MAX_NESTING_LEVEL := by omega
  cases c <;> simp [tvNode, hn, tvArr_term, tvObj_term, h]

theorem VS.eta {α : Type} (st : VS α) : ({ st with pos1 := st.pos1 } : VS α) = st := by cases st; rfl

/-- off the path (`pos1 < lvl`) the visitor neither matches nor moves the cursor -/
theorem getVisitor_off (jp : List Bytes) (lvl : Nat) (eq : Bytes → Bool) (x : JVal) (st : VS JVal)
    (hp : st.pos1 < lvl) :
    getVisitor jp lvl eq x st = (if jp.length < lvl + 1 then Cmd.skipNested else Cmd.ok, st) := by
  unfold getVisitor updCursor
  by_cases h1 : lvl < jp.length
  · have h2 : ¬ st.pos1 ≥ lvl + 1 := by omega
    have h3 : ¬ st.pos1 = lvl := by omega
    have h4 : ¬ jp.length < lvl + 1 := by omega
    simp [h1, h2, h3, h4]
  · have h4 : jp.length < lvl + 1 := by omega
    simp [h1, h4]

mutual
  theorem tvNode_off (jp : List Bytes) (hlen : jp.length ≤ JBL_MAX_NESTING_LEVEL) (c : JVal) (lvl : Nat)
      (st : VS JVal) (hl : lvl ≤ jp.length) (hp : st.pos1 < lvl) : tvNode jp lvl c st = some st := by
    have hn : ¬ lvl > JBL_MAX_NESTING_LEVEL := by omega
    match c with
    | .arr xs => simp only [tvNode, if_neg hn]; exact tvArr_off jp hlen xs lvl 0 st hl hp
    | .obj ms => simp only [tvNode, if_neg hn]; exact tvObj_off jp hlen ms lvl st hl hp
    | .null => simp [tvNode, hn]
    | .bool _ => simp [tvNode, hn]
    | .int _ => simp [tvNode, hn]
    | .f64 _ => simp [tvNode, hn]
    | .str _ => simp [tvNode, hn]
  theorem tvArr_off (jp : List Bytes) (hlen : jp.length ≤ JBL_MAX_NESTING_LEVEL) (xs : List JVal) (lvl i : Nat)
      (st : VS JVal) (hl : lvl ≤ jp.length) (hp : st.pos1 < lvl) : tvArr jp lvl i xs st = some st := by
    match xs with
    | [] => simp [tvArr]
    | x :: xs =>
      by_cases ht : st.term = true
      · exact tvArr_term jp lvl i _ st ht
      · simp only [tvArr, ht, Bool.false_eq_true, if_false, getVisitor_off jp lvl _ x st hp]
        by_cases h4 : jp.length < lvl + 1
        · simp only [h4, if_true]
          simp only [show (Cmd.skipNested == Cmd.terminate) = false from rfl, show (Cmd.skipNested != Cmd.skipNested) = false from rfl,
            Bool.false_and, Bool.false_eq_true, if_false]
          exact tvArr_off jp hlen xs lvl (i + 1) st hl hp
        · simp only [h4, if_false]
          simp only [show (Cmd.ok == Cmd.terminate) = false from rfl, show (Cmd.ok != Cmd.skipNested) = true from rfl,
            Bool.true_and, Bool.false_eq_true, if_false]
          by_cases hc : isContainer x = true
          · simp only [hc, if_true]
            rw [tvNode_off jp hlen x (lvl + 1) st (by omega) (by omega)]
            exact tvArr_off jp hlen xs lvl (i + 1) st hl hp
          · simp only [hc, Bool.false_eq_true, if_false]
            exact tvArr_off jp hlen xs lvl (i + 1) st hl hp
  theorem tvObj_off (jp : List Bytes) (hlen : jp.length ≤ JBL_MAX_NESTING_LEVEL) (ms : List (Bytes × JVal)) (lvl : Nat)
      (st : VS JVal) (hl : lvl ≤ jp.length) (hp : st.pos1 < lvl) : tvObj jp lvl ms st = some st := by
    match ms with
    | [] => simp [tvObj]
    | (k, x) :: ms =>
      by_cases ht : st.term = true
      · exact tvObj_term jp lvl _ st ht
      · simp only [tvObj, ht, Bool.false_eq_true, if_false, getVisitor_off jp lvl _ x st hp]
        by_cases h4 : jp.length < lvl + 1
        · simp only [h4, if_true]
          simp only [show (Cmd.skipNested == Cmd.terminate) = false from rfl, show (Cmd.skipNested != Cmd.skipNested) = false from rfl,
            Bool.false_and, Bool.false_eq_true, if_false]
          exact tvObj_off jp hlen ms lvl st hl hp
        · simp only [h4, if_false]
          simp only [show (Cmd.ok == Cmd.terminate) = false from rfl, show (Cmd.ok != Cmd.skipNested) = true from rfl,
            Bool.true_and, Bool.false_eq_true, if_false]
          by_cases hc : isContainer x = true
          · simp only [hc, if_true]
            rw [tvNode_off jp hlen x (lvl + 1) st (by omega) (by omega)]
            exact tvObj_off jp hlen ms lvl st hl hp
          · simp only [hc, Bool.false_eq_true, if_false]
            exact tvObj_off jp hlen ms lvl st hl hp
end

/-! ## on the path -/

theorem drop_facts (jp : List Bytes) (lvl : Nat) (seg : Bytes) (rest : List Bytes) (h : jp.drop lvl = seg :: rest) :
    lvl < jp.length ∧ jp[lvl]? = some seg ∧ jp.length = lvl + 1 + rest.length ∧ jp.drop (lvl + 1) = rest := by
  have hl : (jp.drop lvl).length = rest.length + 1 := by rw [h]; simp
  rw [List.length_drop] at hl
  refine ⟨by omega, ?_, by omega, ?_⟩
  · have := List.getElem?_drop (xs := jp) (i := lvl) (j := 0)
    rw [h] at this
    simpa using this.symm
  · have : (jp.drop lvl).drop 1 = jp.drop (lvl + 1) := by rw [List.drop_drop]
    rw [← this, h]; rfl

/-- the visitor on a child of the container the matched prefix designates -/
theorem getVisitor_on (jp : List Bytes) (lvl : Nat) (seg : Bytes) (rest : List Bytes) (eq : Bytes → Bool)
    (x : JVal) (st : VS JVal) (hd : jp.drop lvl = seg :: rest) (hp : lvl ≤ st.pos1) :
    getVisitor jp lvl eq x st =
      if eq seg || isStar seg then
        (if rest = [] then (Cmd.terminate, ⟨lvl + 1, st.term, some x⟩) else (Cmd.ok, ⟨lvl + 1, st.term, st.res⟩))
      else (Cmd.ok, ⟨lvl, st.term, st.res⟩) := by
  obtain ⟨h1, h2, h3, _⟩ := drop_facts jp lvl seg rest hd
  unfold getVisitor updCursor
  have hp2 : (if st.pos1 ≥ lvl + 1 then lvl else st.pos1) = lvl := by split <;> omega
  have h4 : ¬ jp.length < lvl + 1 := by omega
  simp only [h1, if_true, hp2, h2, Option.getD_some]
  by_cases hh : (eq seg || isStar seg) = true
  · simp only [hh, if_true]
    by_cases hr : rest = []
    · have : (jp.length == lvl + 1) = true := by simp [h3, hr]
      simp [this, hr]
    · have : (jp.length == lvl + 1) = false := by
        cases rest with
        | nil => exact absurd rfl hr
        | cons a b => simp [h3]
      simp [this, hr, h4]
  · simp only [hh, Bool.false_eq_true, if_false, h4]

theorem btGet_scalar (x : JVal) (seg : Bytes) (rest : List Bytes) (h : isContainer x = false) :
    btGet x (seg :: rest) = none := by
  cases x <;> simp [btGet, isContainer] at h ⊢

mutual
  theorem tvNode_on (jp : List Bytes) (hlen : jp.length ≤ JBL_MAX_NESTING_LEVEL) (c : JVal) (lvl : Nat) (seg : Bytes)
      (rest : List Bytes) (st : VS JVal) (hd : jp.drop lvl = seg :: rest) (ht : st.term = false) (hr : st.res = none)
      (hp : lvl ≤ st.pos1) :
      ∃ st', tvNode jp lvl c st = some st' ∧ Outcome (btGet c (seg :: rest)) lvl st' := by
    have hl := (drop_facts jp lvl seg rest hd).1
    have hn : ¬ lvl > JBL_MAX_NESTING_LEVEL := by omega
    match c with
    | .arr xs =>
      simp only [tvNode, if_neg hn, btGet]
      exact tvArr_on jp hlen xs lvl 0 seg rest st hd ht hr hp
    | .obj ms =>
      simp only [tvNode, if_neg hn, btGet]
      exact tvObj_on jp hlen ms lvl seg rest st hd ht hr hp
    | .null => exact ⟨st, by simp [tvNode, hn], by simp [btGet, Outcome, ht, hr, hp]⟩
    | .bool _ => exact ⟨st, by simp [tvNode, hn], by simp [btGet, Outcome, ht, hr, hp]⟩
    | .int _ => exact ⟨st, by simp [tvNode, hn], by simp [btGet, Outcome, ht, hr, hp]⟩
    | .f64 _ => exact ⟨st, by simp [tvNode, hn], by simp [btGet, Outcome, ht, hr, hp]⟩
    | .str _ => exact ⟨st, by simp [tvNode, hn], by simp [btGet, Outcome, ht, hr, hp]⟩
  theorem tvArr_on (jp : List Bytes) (hlen : jp.length ≤ JBL_MAX_NESTING_LEVEL) (xs : List JVal) (lvl i : Nat)
      (seg : Bytes) (rest : List Bytes) (st : VS JVal) (hd : jp.drop lvl = seg :: rest) (ht : st.term = false)
      (hr : st.res = none) (hp : lvl ≤ st.pos1) :
      ∃ st', tvArr jp lvl i xs st = some st' ∧ Outcome (btArr i xs seg rest) lvl st' := by
    obtain ⟨hl, _, hlen2, hd1⟩ := drop_facts jp lvl seg rest hd
    obtain ⟨p, tm, rs⟩ := st
    simp only [] at ht hr hp
    subst ht; subst hr
    match xs with
    | [] => exact ⟨⟨p, false, none⟩, by simp [tvArr], by simp [btArr, Outcome, hp]⟩
    | x :: xs =>
      simp only [tvArr, Bool.false_eq_true, if_false, getVisitor_on jp lvl seg rest _ x ⟨p, false, none⟩ hd hp, btArr]
      by_cases hh : (segEqTree none i seg || isStar seg) = true
      · have hh' : segHitT none i seg = true := hh
        simp only [hh, hh', if_true]
        by_cases hre : rest = []
        · subst hre
          simp only [if_true, btGet]
          simp only [show (Cmd.terminate == Cmd.terminate) = true from rfl, show (Cmd.terminate != Cmd.skipNested) = true from rfl,
            Bool.true_and, if_true]
          refine ⟨⟨lvl + 1, true, some x⟩, ?_, by simp [Outcome]⟩
          have hterm : (⟨lvl + 1, true, some x⟩ : VS JVal).term = true := rfl
          have e1 := tvNode_term jp (lvl + 1) x ⟨lvl + 1, true, some x⟩ hterm (by omega)
          have e2 := tvArr_term jp lvl (i + 1) xs ⟨lvl + 1, true, some x⟩ hterm
          cases hc : isContainer x <;> simp [e1, e2]
        · simp only [hre, if_false]
          simp only [show (Cmd.ok == Cmd.terminate) = false from rfl, show (Cmd.ok != Cmd.skipNested) = true from rfl,
            Bool.true_and, Bool.false_eq_true, if_false]
          obtain ⟨seg', rest', hrest⟩ := List.exists_cons_of_ne_nil hre
          by_cases hc : isContainer x = true
          · simp only [hc, if_true]
            obtain ⟨st3, h3, o3⟩ := tvNode_on jp hlen x (lvl + 1) seg' rest' ⟨lvl + 1, false, none⟩
              (by rw [hd1, hrest]) rfl rfl (Nat.le_refl _)
            rw [h3]
            rw [hrest]
            cases hb : btGet x (seg' :: rest') with
            | some r =>
              rw [hb] at o3
              simp only [Outcome] at o3
              exact ⟨st3, tvArr_term jp lvl (i + 1) xs st3 o3.1, by simp [Outcome, o3]⟩
            | none =>
              rw [hb] at o3
              simp only [Outcome] at o3
              have := tvArr_on jp hlen xs lvl (i + 1) seg rest st3 hd o3.1 o3.2.1 (by omega)
              rw [hrest] at this
              exact this
          · simp only [hc, Bool.false_eq_true, if_false]
            rw [hrest, btGet_scalar x seg' rest' (by simpa using hc)]
            have := tvArr_on jp hlen xs lvl (i + 1) seg rest ⟨lvl + 1, false, none⟩ hd rfl rfl (by simp)
            rw [hrest] at this
            exact this
      · have hh' : segHitT none i seg = false := by simpa [segHitT] using hh
        simp only [hh, hh', Bool.false_eq_true, if_false]
        simp only [show (Cmd.ok == Cmd.terminate) = false from rfl, show (Cmd.ok != Cmd.skipNested) = true from rfl,
          Bool.true_and, Bool.false_eq_true, if_false]
        by_cases hc : isContainer x = true
        · simp only [hc, if_true]
          rw [tvNode_off jp hlen x (lvl + 1) ⟨lvl, false, none⟩ (by omega) (by simp)]
          exact tvArr_on jp hlen xs lvl (i + 1) seg rest ⟨lvl, false, none⟩ hd rfl rfl (by simp)
        · simp only [hc, Bool.false_eq_true, if_false]
          exact tvArr_on jp hlen xs lvl (i + 1) seg rest ⟨lvl, false, none⟩ hd rfl rfl (by simp)
  theorem tvObj_on (jp : List Bytes) (hlen : jp.length ≤ JBL_MAX_NESTING_LEVEL) (ms : List (Bytes × JVal)) (lvl : Nat)
      (seg : Bytes) (rest : List Bytes) (st : VS JVal) (hd : jp.drop lvl = seg :: rest) (ht : st.term = false)
      (hr : st.res = none) (hp : lvl ≤ st.pos1) :
      ∃ st', tvObj jp lvl ms st = some st' ∧ Outcome (btObj ms seg rest) lvl st' := by
    obtain ⟨hl, _, hlen2, hd1⟩ := drop_facts jp lvl seg rest hd
    obtain ⟨p, tm, rs⟩ := st
    simp only [] at ht hr hp
    subst ht; subst hr
    match ms with
    | [] => exact ⟨⟨p, false, none⟩, by simp [tvObj], by simp [btObj, Outcome, hp]⟩
    | (k, x) :: ms =>
      simp only [tvObj, Bool.false_eq_true, if_false, getVisitor_on jp lvl seg rest _ x ⟨p, false, none⟩ hd hp, btObj]
      by_cases hh : (segEqTree (some k) k.length seg || isStar seg) = true
      · have hh' : segHitT (some k) k.length seg = true := hh
        simp only [hh, hh', if_true]
        by_cases hre : rest = []
        · subst hre
          simp only [if_true, btGet]
          simp only [show (Cmd.terminate == Cmd.terminate) = true from rfl, show (Cmd.terminate != Cmd.skipNested) = true from rfl,
            Bool.true_and, if_true]
          refine ⟨⟨lvl + 1, true, some x⟩, ?_, by simp [Outcome]⟩
          have hterm : (⟨lvl + 1, true, some x⟩ : VS JVal).term = true := rfl
          have e1 := tvNode_term jp (lvl + 1) x ⟨lvl + 1, true, some x⟩ hterm (by omega)
          have e2 := tvObj_term jp lvl ms ⟨lvl + 1, true, some x⟩ hterm
          cases hc : isContainer x <;> simp [e1, e2]
        · simp only [hre, if_false]
          simp only [show (Cmd.ok == Cmd.terminate) = false from rfl, show (Cmd.ok != Cmd.skipNested) = true from rfl,
            Bool.true_and, Bool.false_eq_true, if_false]
          obtain ⟨seg', rest', hrest⟩ := List.exists_cons_of_ne_nil hre
          by_cases hc : isContainer x = true
          · simp only [hc, if_true]
            obtain ⟨st3, h3, o3⟩ := tvNode_on jp hlen x (lvl + 1) seg' rest' ⟨lvl + 1, false, none⟩
              (by rw [hd1, hrest]) rfl rfl (Nat.le_refl _)
            rw [h3]
            rw [hrest]
            cases hb : btGet x (seg' :: rest') with
            | some r =>
              rw [hb] at o3
              simp only [Outcome] at o3
              exact ⟨st3, tvObj_term jp lvl ms st3 o3.1, by simp [Outcome, o3]⟩
            | none =>
              rw [hb] at o3
              simp only [Outcome] at o3
              have := tvObj_on jp hlen ms lvl seg rest st3 hd o3.1 o3.2.1 (by omega)
              rw [hrest] at this
              exact this
          · simp only [hc, Bool.false_eq_true, if_false]
            rw [hrest, btGet_scalar x seg' rest' (by simpa using hc)]
            have := tvObj_on jp hlen ms lvl seg rest ⟨lvl + 1, false, none⟩ hd rfl rfl (by simp)
            rw [hrest] at this
            exact this
      · have hh' : segHitT (some k) k.length seg = false := by simpa [segHitT] using hh
        simp only [hh, hh', Bool.false_eq_true, if_false]
        simp only [show (Cmd.ok == Cmd.terminate) = false from rfl, show (Cmd.ok != Cmd.skipNested) = true from rfl,
          Bool.true_and, Bool.false_eq_true, if_false]
        by_cases hc : isContainer x = true
        · simp only [hc, if_true]
          rw [tvNode_off jp hlen x (lvl + 1) ⟨lvl, false, none⟩ (by omega) (by simp)]
          exact tvObj_on jp hlen ms lvl seg rest ⟨lvl, false, none⟩ hd rfl rfl (by simp)
        · simp only [hc, Bool.false_eq_true, if_false]
          exact tvObj_on jp hlen ms lvl seg rest ⟨lvl, false, none⟩ hd rfl rfl (by simp)
end

/-- `jbn_at2` returns what the first-match search finds -/
theorem atTree2_eq_btGet (v : JVal) (jp : List Bytes) (hlen : jp.length ≤ JBL_MAX_NESTING_LEVEL) :
    atTree2 v jp = match btGet v jp with
      | some r => .ok r
      | none => .error .notfound := by
  unfold atTree2
  cases jp with
  | nil => simp [btGet]
  | cons seg rest =>
    obtain ⟨st', h, o⟩ := tvNode_on (seg :: rest) hlen v 0 seg rest ⟨0, false, none⟩ rfl rfl rfl (Nat.le_refl _)
    simp only [List.length_cons, Nat.succ_ne_zero, if_false, h]
    cases hb : btGet v (seg :: rest) with
    | some r => rw [hb] at o; simp only [Outcome] at o; simp [o.2]
    | none => rw [hb] at o; simp only [Outcome] at o; simp [o.2.1]

end IwModel.Ptr
