import IwModel.Model.Format
import IwModel.Lemmas.FormatEnc
/-! The reader of Model/Format.lean run on a file that holds what the writer (`dbWrites`) stored. -/
namespace IwModel.Format
open IwModel IwModel.FormatEnc

/-- a memory holds the bytes of a store, inside the file -/
def Holds (mem : Bytes) (w : Nat × Bytes) : Prop := w.1 + w.2.length ≤ mem.length ∧ peek mem w.1 w.2.length = w.2

/-- a node image the C code can have written: fields in range, data block geometry readable -/
structure WfNode (size : Nat) (s : Sblk) : Prop where
  srec : WfSblk s.toSblkRec
  idx : WfKvIndex s.toKvIndex
  blk_pos : s.blk ≠ 0
  in_file : s.blk * bs + Gen.SBLK_SZ ≤ size
  szpow : s.szpow ≤ 40
  kin : s.kblk * bs + 2 ^ s.szpow ≤ size
  hdr_fits : Gen.KVBLK_HDRSZ ≤ 2 ^ s.szpow
  recs_len : s.recs.length = s.pnum
  slots_ok : ∀ x ∈ s.pi.zip s.recs, ∃ off len, s.slots[x.1]? = some (off, len) ∧ len = (encKv x.2.1 x.2.2).length ∧
    off ≠ 0 ∧ off ≤ 2 ^ s.szpow ∧ x.2.1.length < 2 ^ 63

theorem encKv_length_pos (k v : Bytes) : 0 < (encKv k v).length := by
  have := Vnum.enc_length_pos k.length
  simp [encKv]; omega

theorem parseKv_ok (mem : Bytes) (at_ : Nat) (k v : Bytes) (hk : k.length < 2 ^ 63)
    (h : Holds mem (at_, encKv k v)) : parseKv (Mem.ofBytes mem) at_ (encKv k v).length = .ok (k, v) := by
  obtain ⟨rest, hr⟩ := slice_ofBytes_prefix mem at_ (encKv k v).length (max (encKv k v).length Gen.IW_VNUMBUFSZ)
    h.1 (Nat.le_max_left _ _)
  rw [h.2] at hr
  simp only [parseKv, slice, hr, decKvE_enc k v rest hk]

theorem mapM_ok {α β : Type} (f : α → Except String β) (xs : List α) (ys : List β) (hl : ys.length = xs.length)
    (h : ∀ x ∈ xs.zip ys, f x.1 = .ok x.2) : xs.mapM f = .ok ys := by
  induction xs generalizing ys with
  | nil =>
    cases ys with
    | nil => rfl
    | cons y ys => simp at hl
  | cons x xs ih =>
    cases ys with
    | nil => simp at hl
    | cons y ys =>
      have h1 := h (x, y) (by simp)
      have h2 := ih ys (by simpa using hl) (fun z hz => h z (by simp [hz]))
      simp only at h1
      rw [List.mapM_cons, h1, h2]
      rfl

theorem parseRecs_ok (mem : Bytes) (s : Sblk) (h : WfNode mem.length s)
    (rd : ∀ w ∈ recWrites s, Holds mem w) :
    parseRecs (Mem.ofBytes mem) s.blk (s.kblk * bs) s.toKvIndex s.pi = .ok s.recs := by
  have hpl : s.pi.length = s.pnum := by
    have h1 := h.srec.pi_len; have h2 := h.srec.pnum
    simp [SblkRec.pi]; omega
  apply mapM_ok
  · rw [hpl, h.recs_len]
  · intro x hx
    obtain ⟨off, len, hs, hlen, ho, hle, hk⟩ := h.slots_ok x hx
    have hw := rd (s.kblk * bs + 2 ^ s.szpow - (s.slots.getD x.1 (0, 0)).1, encKv x.2.1 x.2.2)
      (by simp only [recWrites, List.mem_map]; exact ⟨x, hx, rfl⟩)
    have hg : s.slots.getD x.1 (0, 0) = (off, len) := by simp [List.getD, hs]
    rw [hg] at hw
    have hpos := encKv_length_pos x.2.1 x.2.2
    simp only [hs]
    rw [if_neg (by omega), hlen]
    exact parseKv_ok mem _ _ _ hk hw

theorem inFile_ofBytes (mem : Bytes) (off len : Nat) : inFile (Mem.ofBytes mem) off len = true ↔ off + len ≤ mem.length := by
  simp [inFile, Mem.ofBytes]

theorem peek_prefix (b : Bytes) (o l1 l2 : Nat) (h : l1 ≤ l2) : peek b o l1 = (peek b o l2).take l1 := by
  have := peek_peek b o l2 0 l1 (by omega)
  simp only [Nat.add_zero] at this
  rw [← this]; simp [peek]

theorem encKvIndex_length (k : KvIndex) : (encKvIndex k).length = Gen.KVBLK_HDRSZ + (encSlots k.slots).length := by
  simp [encKvIndex, Gen.KVBLK_HDRSZ]; omega

/-- **a node is read back**: if the memory holds the stores of `nodeWrites s`, the reader returns `s` -/
theorem parseSblk_ok (mem : Bytes) (s : Sblk) (h : WfNode mem.length s)
    (rd : ∀ w ∈ nodeWrites s, Holds mem w) : parseSblk (Mem.ofBytes mem) s.blk = .ok s := by
  have hin : inFile (Mem.ofBytes mem) (s.blk * bs) Gen.SBLK_SZ = true := by
    rw [inFile_ofBytes]; exact h.in_file
  -- node record
  have hsw := sblkWrites_wf s.toSblkRec h.srec
  have hdec : decSblk (slice (Mem.ofBytes mem) (s.blk * bs) Gen.SBLK_SZ) = some s.toSblkRec := by
    rw [slice, slice_ofBytes _ _ _ h.in_file]
    apply decSblk_of_reads _ _ (length_peek _ _ _ h.in_file) h.srec
    intro x hx
    rw [peek_peek _ _ _ _ _ (hsw.1 x hx)]
    exact (rd (s.blk * bs + x.1, x.2) (by
      simp only [nodeWrites, shift, List.mem_append, List.mem_map]; exact Or.inl ⟨x, hx, rfl⟩)).2
  -- data block header + index
  have hidx := rd (s.kblk * bs, encKvIndex s.toKvIndex) (by simp [nodeWrites])
  have hil := encKvIndex_length s.toKvIndex
  have hk3 : inFile (Mem.ofBytes mem) (s.kblk * bs) Gen.KVBLK_HDRSZ = true := by
    have := h.kin; have := h.hdr_fits
    rw [inFile_ofBytes]; omega
  have hsz : byteAt (Mem.ofBytes mem) (s.kblk * bs) = s.szpow := by
    apply get_ofBytes_of_peek
    rw [peek_prefix _ _ 1 (encKvIndex s.toKvIndex).length (by rw [hil]; simp [Gen.KVBLK_HDRSZ]; omega), hidx.2]
    simp [encKvIndex]
  have hk : ¬ (s.szpow > 40 ∨ (!inFile (Mem.ofBytes mem) (s.kblk * bs) (2 ^ s.szpow)) = true) := by
    have := h.szpow; have := h.kin
    have := (inFile_ofBytes mem (s.kblk * bs) (2 ^ s.szpow)).2 h.kin
    simp [this]; omega
  have hki : decKvIndexE (slice (Mem.ofBytes mem) (s.kblk * bs) kvIndexMax) = .ok s.toKvIndex := by
    have hle : (encKvIndex s.toKvIndex).length ≤ kvIndexMax := by
      have := encSlots_length_le s.slots h.idx.slots
      rw [hil, h.idx.slots_len] at *
      simp only [kvIndexMax, Gen.KVBLK_HDRSZ, Gen.KVBLK_IDXNUM, Gen.IW_VNUMBUFSZ] at *; omega
    obtain ⟨rest, hr⟩ := slice_ofBytes_prefix mem (s.kblk * bs) (encKvIndex s.toKvIndex).length kvIndexMax hidx.1 hle
    rw [hidx.2] at hr
    rw [slice, hr, decKvIndexE_enc _ rest h.idx]
  have hrecs := parseRecs_ok mem s h (fun w hw => rd w (by simp [nodeWrites, hw]))
  simp only [parseSblk, hin, hdec, hk3, hsz, hki, hrecs, Bool.not_true, Bool.false_eq_true, if_false, hk]

/-! ### a node filled through `_kvblk_addkv` on a fresh block -/

def total (es : List Bytes) : Nat := (es.map List.length).sum

theorem length_layoutOffs (acc : Nat) (es : List Bytes) : (layoutOffs acc es).length = es.length := by
  induction es generalizing acc with
  | nil => rfl
  | cons e es ih => simp [layoutOffs, ih]

/-- the `i`-th appended record: its length, and it lies below everything appended before -/
theorem layoutOffs_get (acc : Nat) (es : List Bytes) (i : Nat) (hi : i < es.length) :
    ∃ off, (layoutOffs acc es)[i]? = some (off, es[i].length) ∧ acc + es[i].length ≤ off ∧ off ≤ acc + total es := by
  induction es generalizing acc i with
  | nil => simp at hi
  | cons e es ih =>
    cases i with
    | zero => exact ⟨acc + e.length, by simp [layoutOffs], by simp, by simp [total]⟩
    | succ i =>
      obtain ⟨off, h1, h2, h3⟩ := ih (acc + e.length) i (by simpa using hi)
      refine ⟨off, by simpa [layoutOffs] using h1, by simp; omega, ?_⟩
      simp only [total, List.map_cons, List.sum_cons] at h3 ⊢; omega

theorem layoutOffs_sep (acc : Nat) (es : List Bytes) (i j : Nat) (hij : i < j) (hj : j < es.length)
    (a b : Nat × Nat) (ha : (layoutOffs acc es)[i]? = some a) (hb : (layoutOffs acc es)[j]? = some b) :
    a.1 + b.2 ≤ b.1 := by
  induction es generalizing acc i j with
  | nil => simp at hj
  | cons e es ih =>
    cases j with
    | zero => omega
    | succ j =>
      cases i with
      | zero =>
        simp only [layoutOffs, List.getElem?_cons_zero, Option.some.injEq] at ha
        simp only [layoutOffs, List.getElem?_cons_succ] at hb
        obtain ⟨off, h1, h2, _⟩ := layoutOffs_get (acc + e.length) es j (by simpa using hj)
        rw [h1] at hb
        cases hb; subst ha
        simp; omega
      | succ i =>
        simp only [layoutOffs, List.getElem?_cons_succ] at ha hb
        exact ih (acc + e.length) i j (by omega) (by simpa using hj) ha hb

theorem mem_zip_range {α : Type} (l : List α) (x : Nat × α) (hx : x ∈ (List.range l.length).zip l) :
    ∃ i, ∃ h : i < l.length, x = (i, l[i]) := by
  obtain ⟨i, hi, rfl⟩ := List.mem_iff_getElem.1 hx
  simp only [List.length_zip, List.length_range, Nat.min_self] at hi
  exact ⟨i, hi, by simp⟩

/-- conditions under which `_kvblk_addkv` puts `recs` into a fresh block of `2^szpow` bytes at the given place -/
structure NodeFits (size : Nat) (p : NodePlace) (lvl : Nat) (n : List Nat) (p0 : Nat) (recs : List (Bytes × Bytes)) : Prop where
  cnt : recs.length ≤ Gen.KVBLK_IDXNUM
  lvl_lt : lvl < Gen.SLEVELS
  n_len : n.length = lvl + 1
  n_lt : ∀ x ∈ n, x < 2 ^ 32
  p0_lt : p0 < 2 ^ 32
  kblk_lt : p.kblk < 2 ^ 32
  bpos_lt : p.bpos < 256
  blk_ne : p.blk ≠ 0
  keys : ∀ r ∈ recs, Bytes.wf r.1
  kvsz : ∀ r ∈ recs, (encKv r.1 r.2).length ≤ Gen.IWKV_MAX_KVSZ
  szpow : p.szpow ≤ 40
  fits : Gen.KVBLK_HDRSZ + (encSlots (layoutSlots recs)).length + total (recs.map fun r => encKv r.1 r.2) ≤ 2 ^ p.szpow
  node_in : p.blk * bs + Gen.SBLK_SZ ≤ size
  data_in : p.kblk * bs + 2 ^ p.szpow ≤ size
  apart : p.blk * bs + Gen.SBLK_SZ ≤ p.kblk * bs ∨ p.kblk * bs + 2 ^ p.szpow ≤ p.blk * bs

theorem pow40 (k : Nat) (h : k ≤ 40) : 2 ^ k ≤ 2 ^ 40 := Nat.pow_le_pow_right (by decide) h

theorem mkNode_pi (p : NodePlace) (lvl : Nat) (n : List Nat) (p0 : Nat) (recs : List (Bytes × Bytes)) :
    (mkNode p lvl n p0 recs).pi = List.range recs.length := by
  simp [mkNode, SblkRec.pi]

theorem mkNode_slot (p : NodePlace) (lvl : Nat) (n : List Nat) (p0 : Nat) (recs : List (Bytes × Bytes))
    (i : Nat) (hi : i < recs.length) :
    ∃ off, (mkNode p lvl n p0 recs).slots[i]? = some (off, (encKv recs[i].1 recs[i].2).length) ∧
      (encKv recs[i].1 recs[i].2).length ≤ off ∧ off ≤ total (recs.map fun r => encKv r.1 r.2) := by
  obtain ⟨off, h1, h2, h3⟩ := layoutOffs_get 0 (recs.map fun r => encKv r.1 r.2) i (by simpa using hi)
  refine ⟨off, ?_, by simpa using h2, by simpa using h3⟩
  simp only [mkNode, layoutSlots]
  rw [List.getElem?_append_left (by rw [length_layoutOffs]; simpa using hi), h1]
  simp

theorem total_ge {es : List Bytes} {e : Bytes} (h : e ∈ es) : e.length ≤ total es := by
  induction es with
  | nil => simp at h
  | cons x xs ih =>
    simp only [total, List.map_cons, List.sum_cons] at *
    rcases List.mem_cons.1 h with rfl | h'
    · omega
    · have := ih h'; omega

theorem mkNode_slots_wf (size : Nat) (p : NodePlace) (lvl : Nat) (n : List Nat) (p0 : Nat) (recs : List (Bytes × Bytes))
    (h : NodeFits size p lvl n p0 recs) : WfSlots (mkNode p lvl n p0 recs).slots := by
  intro q hq
  simp only [mkNode, layoutSlots, List.mem_append, List.mem_replicate] at hq
  rcases hq with hq | ⟨_, rfl⟩
  · obtain ⟨i, hi, rfl⟩ := List.mem_iff_getElem.1 hq
    rw [length_layoutOffs, List.length_map] at hi
    obtain ⟨off, h1, h2, h3⟩ := layoutOffs_get 0 (recs.map fun r => encKv r.1 r.2) i (by simpa using hi)
    rw [List.getElem?_eq_getElem (by rw [length_layoutOffs]; simpa using hi)] at h1
    simp only [Option.some.injEq] at h1
    rw [h1]
    have hk := h.kvsz recs[i] (List.getElem_mem hi)
    have hf := h.fits
    have hp := pow40 _ h.szpow
    simp only [List.getElem_map, Gen.IWKV_MAX_KVSZ, Nat.zero_add] at *
    constructor <;> simp <;> omega
  · decide

theorem mkNode_wf (size : Nat) (p : NodePlace) (lvl : Nat) (n : List Nat) (p0 : Nat) (recs : List (Bytes × Bytes))
    (h : NodeFits size p lvl n p0 recs) : WfNode size (mkNode p lvl n p0 recs) := by
  have hcnt := h.cnt
  have hslen : (mkNode p lvl n p0 recs).slots.length = Gen.KVBLK_IDXNUM := by
    simp only [mkNode, layoutSlots, List.length_append, length_layoutOffs, List.length_map, List.length_replicate]; omega
  refine ⟨⟨?_, h.lvl_lt, ?_, h.cnt, h.p0_lt, h.kblk_lt, ?_, ?_, h.n_len, h.n_lt, h.bpos_lt, rfl, ?_⟩, ?_, h.blk_ne, h.node_in, h.szpow,
    h.data_in, ?_, rfl, ?_⟩
  · simp only [mkNode, Gen.SBLK_FULL_LKEY]; split <;> omega
  · simp only [mkNode, List.length_take]; omega
  · simp only [mkNode, List.length_append, List.length_range, List.length_replicate]; omega
  · intro x hx
    simp only [mkNode, List.mem_append, List.mem_range, List.mem_replicate] at hx
    simp only [Gen.KVBLK_IDXNUM] at hcnt
    rcases hx with hx | ⟨_, rfl⟩ <;> omega
  · intro x hx
    simp only [mkNode] at hx
    have hx := List.mem_of_mem_take hx
    cases hr : recs with
    | nil => simp [hr] at hx
    | cons r rs =>
      simp only [hr, List.head?_cons, Option.map_some, Option.getD_some] at hx
      exact h.keys r (by simp [hr]) x hx
  · exact wfKvIndex_ofSlots p.szpow _ (by have := h.szpow; omega) hslen (mkNode_slots_wf size p lvl n p0 recs h)
  · have := h.fits; simp only [mkNode]; omega
  · intro x hx
    rw [mkNode_pi] at hx
    obtain ⟨i, hi, rfl⟩ := mem_zip_range recs x hx
    obtain ⟨off, h1, h2, h3⟩ := mkNode_slot p lvl n p0 recs i hi
    have hpos := encKv_length_pos recs[i].1 recs[i].2
    have hf := h.fits
    have hk := h.kvsz recs[i] (List.getElem_mem hi)
    refine ⟨off, _, h1, rfl, by omega, by simp only [mkNode]; omega, ?_⟩
    simp only [encKv, List.length_append, Gen.IWKV_MAX_KVSZ] at hk
    simp only; omega

theorem length_recWrites_mkNode (p : NodePlace) (lvl : Nat) (n : List Nat) (p0 : Nat) (recs : List (Bytes × Bytes)) :
    (recWrites (mkNode p lvl n p0 recs)).length = recs.length := by
  simp only [recWrites, mkNode_pi, List.length_map, List.length_zip, List.length_range]
  simp [mkNode]

/-- the `i`-th record store: right below the `i-1`-th, counted from the block end -/
theorem recWrites_mkNode_get (p : NodePlace) (lvl : Nat) (n : List Nat) (p0 : Nat) (recs : List (Bytes × Bytes))
    (i : Nat) (hi : i < recs.length) :
    ∃ off, (recWrites (mkNode p lvl n p0 recs))[i]? = some (p.kblk * bs + 2 ^ p.szpow - off, encKv recs[i].1 recs[i].2) ∧
      (layoutOffs 0 (recs.map fun r => encKv r.1 r.2))[i]? = some (off, (encKv recs[i].1 recs[i].2).length) ∧
      (encKv recs[i].1 recs[i].2).length ≤ off ∧ off ≤ total (recs.map fun r => encKv r.1 r.2) := by
  obtain ⟨off, h1, h2, h3⟩ := layoutOffs_get 0 (recs.map fun r => encKv r.1 r.2) i (by simpa using hi)
  simp only [List.getElem_map, Nat.zero_add] at h1 h2 h3
  refine ⟨off, ?_, h1, h2, h3⟩
  have hs : (mkNode p lvl n p0 recs).slots[i]? = some (off, (encKv recs[i].1 recs[i].2).length) := by
    simp only [mkNode, layoutSlots]
    rw [List.getElem?_append_left (by rw [length_layoutOffs]; simpa using hi), h1]
  have hr : (mkNode p lvl n p0 recs).recs = recs := rfl
  simp only [recWrites, mkNode_pi, hr, List.getElem?_map]
  rw [List.getElem?_eq_getElem (by simpa using hi)]
  simp only [List.getElem_zip, List.getElem_range, Option.map_some, List.getD, hs, Option.getD_some]
  rfl

theorem mkNode_writes (size : Nat) (p : NodePlace) (lvl : Nat) (n : List Nat) (p0 : Nat) (recs : List (Bytes × Bytes))
    (h : NodeFits size p lvl n p0 recs) : WfWrites size (nodeWrites (mkNode p lvl n p0 recs)) := by
  have hwf := mkNode_wf size p lvl n p0 recs h
  have hsw := sblkWrites_wf _ hwf.srec
  have hil := encKvIndex_length (mkNode p lvl n p0 recs).toKvIndex
  have hfit := h.fits
  have hfit' : (encSlots (mkNode p lvl n p0 recs).slots).length = (encSlots (layoutSlots recs)).length := rfl
  have hn := h.node_in; have hd := h.data_in
  have hblk : (mkNode p lvl n p0 recs).blk = p.blk := rfl
  have hkblk : (mkNode p lvl n p0 recs).kblk = p.kblk := rfl
  -- facts about one record store
  have hrec : ∀ w ∈ recWrites (mkNode p lvl n p0 recs), ∃ off, w.1 = p.kblk * bs + 2 ^ p.szpow - off ∧
      w.2.length ≤ off ∧ off ≤ total (recs.map fun r => encKv r.1 r.2) := by
    intro w hw
    obtain ⟨i, hi, rfl⟩ := List.mem_iff_getElem.1 hw
    rw [length_recWrites_mkNode] at hi
    obtain ⟨off, h1, _, h3, h4⟩ := recWrites_mkNode_get p lvl n p0 recs i hi
    rw [List.getElem?_eq_getElem (by rw [length_recWrites_mkNode]; exact hi)] at h1
    simp only [Option.some.injEq] at h1
    exact ⟨off, by rw [h1], by rw [h1]; exact h3, h4⟩
  constructor
  · intro w hw
    simp only [nodeWrites, shift, List.mem_append, List.mem_map, List.mem_cons] at hw
    rcases hw with ⟨x, hx, rfl⟩ | rfl | hw
    · have := hsw.1 x hx
      simp only [hblk]; omega
    · simp only [hkblk, hil, hfit']; omega
    · obtain ⟨off, h1, h2, h3⟩ := hrec w hw
      omega
  · simp only [nodeWrites]
    rw [List.pairwise_append]
    refine ⟨?_, ?_, ?_⟩
    · simp only [shift]
      rw [List.pairwise_map]
      exact hsw.2.imp (by intro a b hab; simp only; omega)
    · rw [List.pairwise_cons]
      constructor
      · intro w hw
        obtain ⟨off, h1, h2, h3⟩ := hrec w hw
        simp only [hkblk, hil, hfit']; omega
      · rw [List.pairwise_iff_getElem]
        intro i j hi hj hij
        rw [length_recWrites_mkNode] at hi hj
        obtain ⟨oi, a1, a2, a3, a4⟩ := recWrites_mkNode_get p lvl n p0 recs i hi
        obtain ⟨oj, b1, b2, b3, b4⟩ := recWrites_mkNode_get p lvl n p0 recs j hj
        have hsep := layoutOffs_sep 0 _ i j hij (by simpa using hj) _ _ a2 b2
        rw [List.getElem?_eq_getElem (by rw [length_recWrites_mkNode]; exact hi)] at a1
        rw [List.getElem?_eq_getElem (by rw [length_recWrites_mkNode]; exact hj)] at b1
        simp only [Option.some.injEq] at a1 b1
        rw [a1, b1]
        simp only at hsep ⊢
        omega
    · intro a ha b hb
      simp only [shift, List.mem_map] at ha
      obtain ⟨x, hx, rfl⟩ := ha
      have hx' := hsw.1 x hx
      have hap := h.apart
      simp only [hblk]
      rcases List.mem_cons.1 hb with rfl | hb
      · simp only [hkblk, hil, hfit']; omega
      · obtain ⟨off, h1, h2, h3⟩ := hrec b hb
        omega

theorem enc_small (n : Nat) (h : n < 128) : Vnum.enc n = [n] := by rw [Vnum.enc]; simp [h]

theorem total_nil : total [] = 0 := rfl
theorem total_cons (e : Bytes) (es : List Bytes) : total (e :: es) = e.length + total es := by simp [total]

/-! ### chains and databases -/

/-- the level-0 links thread the nodes in order and end with 0 -/
def chainOk : Nat → List Sblk → Prop
  | b, [] => b = 0
  | b, s :: rest => b = s.blk ∧ chainOk (s.n.headD 0) rest

theorem parseChain_ok (mem : Bytes) (nodes : List Sblk) (first fuel : Nat) (acc : List Sblk)
    (hf : nodes.length < fuel) (hc : chainOk first nodes)
    (hn : ∀ s ∈ nodes, WfNode mem.length s ∧ ∀ w ∈ nodeWrites s, Holds mem w) :
    parseChain (Mem.ofBytes mem) fuel first acc = .ok (acc.reverse ++ nodes) := by
  induction nodes generalizing first fuel acc with
  | nil =>
    cases fuel with
    | zero => simp at hf
    | succ f => simp only [chainOk] at hc; simp [parseChain, hc]
  | cons s rest ih =>
    cases fuel with
    | zero => simp at hf
    | succ f =>
      obtain ⟨h1, h2⟩ := hc
      have hs := hn s (by simp)
      have hp := parseSblk_ok mem s hs.1 hs.2
      have hne : s.n ≠ [] := by
        intro e
        have := hs.1.srec.n_len
        simp [e] at this
      simp only [parseChain, h1, hs.1.blk_pos, if_false, hp]
      cases hsn : s.n with
      | nil => exact absurd hsn hne
      | cons nx tl =>
        simp only [hsn, List.headD_cons] at h2 ⊢
        rw [ih nx f (s :: acc) (by simp at hf; omega) h2 (fun t ht => hn t (by simp [ht]))]
        simp

/-- a database image the C code can have written into a file of `size` bytes -/
structure WfDbImg (size : Nat) (d : DbImg) (mdata : Bytes) : Prop where
  hdr : WfDbHdr d.toDbHdr
  nodes : ∀ s ∈ d.nodes, WfNode size s
  chain : chainOk (d.n.headD 0) d.nodes
  fuel : d.nodes.length ≤ size / Gen.SBLK_SZ
  mdata_len : mdata.length ≤ d.metaBlkn * bs
  /-- the layout: every store inside the file, no two stores overlap -/
  writes : WfWrites size (dbWrites d mdata)

theorem parseDb_ok (mem : Bytes) (d : DbImg) (mdata : Bytes) (h : WfDbImg mem.length d mdata)
    (rd : ∀ w ∈ dbWrites d mdata, Holds mem w) :
    parseDb (Mem.ofBytes mem) d.blk = .ok d ∧ metaOf (Mem.ofBytes mem) d mdata.length = mdata := by
  have hh := rd (d.blk * bs, encDbHdr d.toDbHdr) (by simp [dbWrites])
  have hlen : (encDbHdr d.toDbHdr).length = Gen.DOFF_END := by
    have hz : (zeros Gen.DOFF_END).length = Gen.DOFF_END := by simp [zeros]
    rw [encDbHdr, encDbHdrOver, length_pokes _ _ (by rw [hz]; exact (dbHdrWrites_wf _ h.hdr).1), hz]
  simp only [Holds, hlen] at hh
  have hin : inFile (Mem.ofBytes mem) (d.blk * bs) Gen.DOFF_END = true := by rw [inFile_ofBytes]; exact hh.1
  have hdec : decDbHdr (slice (Mem.ofBytes mem) (d.blk * bs) Gen.DOFF_END) = some d.toDbHdr := by
    rw [slice, slice_ofBytes _ _ _ hh.1, hh.2]
    exact dbhdr_dec_enc d.toDbHdr h.hdr
  have hch := parseChain_ok mem d.nodes (d.n.headD 0) (mem.length / Gen.SBLK_SZ + 1) []
    (by have := h.fuel; omega) h.chain
    (fun s hs => ⟨h.nodes s hs, fun w hw => rd w (by
      simp only [dbWrites, List.mem_cons, List.mem_flatMap]; exact Or.inr (Or.inr ⟨s, hs, hw⟩))⟩)
  constructor
  · simp only [parseDb, hin, hdec, Bool.not_true, Bool.false_eq_true, if_false]
    have : (Mem.ofBytes mem).size = mem.length := rfl
    rw [this, hch]
    rfl
  · have hm := rd (d.metaBlk * bs, mdata) (by simp [dbWrites])
    have := h.mdata_len
    simp only [Holds] at hm
    rw [metaOf, slice, Nat.min_eq_left this, slice_ofBytes _ _ _ hm.1, hm.2]

/-! ### the writer's node against the slot audit -/

theorem hasDup_of_nodup (l : List Nat) (h : l.Nodup) : hasDup l = false := by
  induction l with
  | nil => rfl
  | cons a as ih =>
    rw [List.nodup_cons] at h
    simp only [hasDup, Bool.or_eq_false_iff]
    exact ⟨by simpa using h.1, ih h.2⟩

theorem layoutOffs_mem (acc : Nat) (es : List Bytes) (q : Nat × Nat) (hq : q ∈ layoutOffs acc es) :
    ∃ i, ∃ h : i < es.length, (layoutOffs acc es)[i]? = some q ∧ q.2 = es[i].length ∧ acc + q.2 ≤ q.1 ∧ q.1 ≤ acc + total es := by
  obtain ⟨i, hi, rfl⟩ := List.mem_iff_getElem.1 hq
  rw [length_layoutOffs] at hi
  obtain ⟨off, h1, h2, h3⟩ := layoutOffs_get acc es i hi
  have h1' := h1
  rw [List.getElem?_eq_getElem (by rw [length_layoutOffs]; exact hi)] at h1
  simp only [Option.some.injEq] at h1
  refine ⟨i, hi, by rw [h1', h1], by rw [h1], by rw [h1]; exact h2, by rw [h1]; exact h3⟩

theorem usedSlots_mkNode (p : NodePlace) (lvl : Nat) (n : List Nat) (p0 : Nat) (recs : List (Bytes × Bytes)) :
    usedSlots (mkNode p lvl n p0 recs) = (layoutOffs 0 (recs.map fun r => encKv r.1 r.2)).zipIdx := by
  simp only [usedSlots, mkNode, layoutSlots, List.zipIdx_append, List.filter_append]
  have h1 : ((layoutOffs 0 (recs.map fun r => encKv r.1 r.2)).zipIdx.filter fun x => decide (x.1.2 ≠ 0)) =
      (layoutOffs 0 (recs.map fun r => encKv r.1 r.2)).zipIdx := by
    rw [List.filter_eq_self]
    intro x hx
    have hm : x.1 ∈ layoutOffs 0 (recs.map fun r => encKv r.1 r.2) := by
      obtain ⟨a, b⟩ := x
      exact (List.mem_zipIdx hx).2.2 ▸ List.getElem_mem _
    obtain ⟨i, hi, _, h2, _, _⟩ := layoutOffs_mem _ _ _ hm
    simp only [List.length_map] at hi
    have := encKv_length_pos recs[i].1 recs[i].2
    simp only [List.getElem_map] at h2
    simp only [ne_eq, decide_eq_true_eq]; omega
  rw [h1]
  rw [List.filter_eq_nil_iff.2, List.append_nil]
  intro x hx
  obtain ⟨a, b⟩ := x
  have := (List.mem_zipIdx hx).2.2
  simp only [List.getElem_replicate] at this
  simp [this]

/-- **The writer's node passes the slot audit**: records appended by `_kvblk_addkv` to a fresh block that fits them
satisfy the geometry clause of property C06 (`checkSlots`). -/
theorem mkNode_checkSlots (size : Nat) (p : NodePlace) (lvl : Nat) (n : List Nat) (p0 : Nat) (recs : List (Bytes × Bytes))
    (h : NodeFits size p lvl n p0 recs) : checkSlots (mkNode p lvl n p0 recs) = none := by
  have hu := usedSlots_mkNode p lvl n p0 recs
  have hfit := h.fits
  have hidx : (mkNode p lvl n p0 recs).idxsz = (encSlots (layoutSlots recs)).length := rfl
  have hsz : (mkNode p lvl n p0 recs).szpow = p.szpow := rfl
  -- facts about the i-th used slot
  have hget : ∀ i (hi : i < recs.length), ∃ off len, (usedSlots (mkNode p lvl n p0 recs))[i]? = some ((off, len), i) ∧
      (layoutOffs 0 (recs.map fun r => encKv r.1 r.2))[i]? = some (off, len) ∧ 0 < len ∧ len ≤ off ∧
      off ≤ total (recs.map fun r => encKv r.1 r.2) := by
    intro i hi
    obtain ⟨off, h1, h2, h3⟩ := layoutOffs_get 0 (recs.map fun r => encKv r.1 r.2) i (by simpa using hi)
    have := encKv_length_pos recs[i].1 recs[i].2
    simp only [List.getElem_map, Nat.zero_add] at h1 h2 h3
    refine ⟨off, _, ?_, h1, this, h2, h3⟩
    rw [hu, List.getElem?_zipIdx, h1]; simp
  have hlen : (usedSlots (mkNode p lvl n p0 recs)).length = recs.length := by
    rw [hu, List.length_zipIdx, length_layoutOffs, List.length_map]
  have h1 : (usedSlots (mkNode p lvl n p0 recs)).find? (slotOutside (mkNode p lvl n p0 recs)) = none := by
    rw [List.find?_eq_none]
    intro x hx
    obtain ⟨i, hi, rfl⟩ := List.mem_iff_getElem.1 hx
    rw [hlen] at hi
    obtain ⟨off, len, a1, _, a3, a4, a5⟩ := hget i hi
    rw [List.getElem?_eq_getElem (by rw [hlen]; exact hi)] at a1
    simp only [Option.some.injEq] at a1
    rw [a1]
    simp only [slotOutside, hidx, hsz, decide_eq_true_eq]
    omega
  have hivl : (slotIvs (mkNode p lvl n p0 recs)).length = recs.length := by simp [slotIvs, hlen]
  have hiv : ∀ i (hi : i < recs.length), ∃ off len, (slotIvs (mkNode p lvl n p0 recs))[i]? =
      some (2 ^ p.szpow - off, 2 ^ p.szpow - off + len) ∧
      (layoutOffs 0 (recs.map fun r => encKv r.1 r.2))[i]? = some (off, len) ∧ len ≤ off ∧
      off ≤ total (recs.map fun r => encKv r.1 r.2) := by
    intro i hi
    obtain ⟨off, len, a1, a2, _, a4, a5⟩ := hget i hi
    exact ⟨off, len, by simp [slotIvs, a1, hsz], a2, a4, a5⟩
  have h2 : (slotIvs (mkNode p lvl n p0 recs)).zipIdx.find? (fun x => (slotIvs (mkNode p lvl n p0 recs)).zipIdx.any
      fun y => x.2 < y.2 ∧ overlap x.1 y.1) = none := by
    rw [List.find?_eq_none]
    intro x hx
    simp only [List.any_eq_true, not_exists, not_and]
    intro y hy
    obtain ⟨xi, i⟩ := x
    obtain ⟨yj, j⟩ := y
    have hxi := List.mem_zipIdx hx
    have hyj := List.mem_zipIdx hy
    simp only [Nat.zero_add, Nat.sub_zero, hivl] at hxi hyj
    obtain ⟨oi, li, b1, b2, b3, b4⟩ := hiv i hxi.2.1
    obtain ⟨oj, lj, c1, c2, c3, c4⟩ := hiv j hyj.2.1
    rw [List.getElem?_eq_getElem (by rw [hivl]; exact hxi.2.1)] at b1
    rw [List.getElem?_eq_getElem (by rw [hivl]; exact hyj.2.1)] at c1
    simp only [Option.some.injEq] at b1 c1
    rw [hxi.2.2, hyj.2.2, b1, c1]
    simp only [overlap, Bool.decide_and, Bool.and_eq_true, decide_eq_true_eq, not_and]
    intro hij
    have hsep := layoutOffs_sep 0 _ i j hij (by simpa using hyj.2.1) _ _ b2 c2
    simp only at hsep
    omega
  simp only [checkSlots, h1, h2, mkNode_pi, hasDup_of_nodup _ List.nodup_range, hlen]
  simp [mkNode]

/-! ### a database (list of nodes with levels and records) placed by a layout -/

theorem recWrites_mkNode_mem (p : NodePlace) (lvl : Nat) (n : List Nat) (p0 : Nat) (recs : List (Bytes × Bytes))
    (w : Nat × Bytes) (hw : w ∈ recWrites (mkNode p lvl n p0 recs)) :
    ∃ off, w.1 = p.kblk * bs + 2 ^ p.szpow - off ∧ w.2.length ≤ off ∧ off ≤ total (recs.map fun r => encKv r.1 r.2) := by
  obtain ⟨i, hi, rfl⟩ := List.mem_iff_getElem.1 hw
  rw [length_recWrites_mkNode] at hi
  obtain ⟨off, h1, _, h3, h4⟩ := recWrites_mkNode_get p lvl n p0 recs i hi
  rw [List.getElem?_eq_getElem (by rw [length_recWrites_mkNode]; exact hi)] at h1
  simp only [Option.some.injEq] at h1
  exact ⟨off, by rw [h1], by rw [h1]; exact h3, h4⟩

/-- a store lies inside a region -/
def inside (w : Nat × Bytes) (r : Nat × Nat) : Prop := r.1 ≤ w.1 ∧ w.1 + w.2.length ≤ r.2

/-- two regions do not overlap -/
def disj (a b : Nat × Nat) : Prop := a.2 ≤ b.1 ∨ b.2 ≤ a.1

/-- two stores do not overlap -/
def wdisj (a b : Nat × Bytes) : Prop := a.1 + a.2.length ≤ b.1 ∨ b.1 + b.2.length ≤ a.1

theorem wdisj_of_inside {a b : Nat × Bytes} {r s : Nat × Nat} (ha : inside a r) (hb : inside b s) (h : disj r s) :
    wdisj a b := by
  simp only [inside, disj, wdisj] at *; omega

theorem nodeWrites_inside (size : Nat) (p : NodePlace) (lvl : Nat) (n : List Nat) (p0 : Nat) (recs : List (Bytes × Bytes))
    (h : NodeFits size p lvl n p0 recs) (w : Nat × Bytes) (hw : w ∈ nodeWrites (mkNode p lvl n p0 recs)) :
    ∃ r ∈ nodeRegions p, inside w r := by
  have hwf := mkNode_wf size p lvl n p0 recs h
  have hsw := sblkWrites_wf _ hwf.srec
  have hil := encKvIndex_length (mkNode p lvl n p0 recs).toKvIndex
  have hfit := h.fits
  have hfit' : (encSlots (mkNode p lvl n p0 recs).slots).length = (encSlots (layoutSlots recs)).length := rfl
  have hblk : (mkNode p lvl n p0 recs).blk = p.blk := rfl
  have hkblk : (mkNode p lvl n p0 recs).kblk = p.kblk := rfl
  simp only [nodeWrites, shift, List.mem_append, List.mem_map, List.mem_cons] at hw
  rcases hw with ⟨x, hx, rfl⟩ | rfl | hw
  · refine ⟨(p.blk * bs, p.blk * bs + Gen.SBLK_SZ), by simp [nodeRegions], ?_⟩
    have := hsw.1 x hx
    simp only [inside, hblk]; omega
  · refine ⟨(p.kblk * bs, p.kblk * bs + 2 ^ p.szpow), by simp [nodeRegions], ?_⟩
    simp only [inside, hkblk, hil, hfit']; omega
  · refine ⟨(p.kblk * bs, p.kblk * bs + 2 ^ p.szpow), by simp [nodeRegions], ?_⟩
    obtain ⟨off, h1, h2, h3⟩ := recWrites_mkNode_mem p lvl n p0 recs w hw
    simp only [inside]; omega

/-- per-node conditions: what `NodeFits` asks, apart from links and placement -/
structure PNodeFits (x : PNode) : Prop where
  cnt : x.recs.length ≤ Gen.KVBLK_IDXNUM
  lvl_lt : x.lvl < Gen.SLEVELS
  blk_lt : x.place.blk < 2 ^ 32
  kblk_lt : x.place.kblk < 2 ^ 32
  bpos_lt : x.place.bpos < 256
  blk_ne : x.place.blk ≠ 0
  keys : ∀ r ∈ x.recs, Bytes.wf r.1
  kvsz : ∀ r ∈ x.recs, (encKv r.1 r.2).length ≤ Gen.IWKV_MAX_KVSZ
  szpow : x.place.szpow ≤ 40
  fits : Gen.KVBLK_HDRSZ + (encSlots (layoutSlots x.recs)).length + total (x.recs.map fun r => encKv r.1 r.2) ≤ 2 ^ x.place.szpow

/-- a database (nodes with levels and records, as in `Kv.Db`) and a layout that can hold it in a file of `size`
bytes: numbers within the C types, every node fits its data block, all regions inside the file and pairwise
disjoint -/
structure DbFits (size : Nat) (dp : DbPlace) (flags id next : Nat) (mdata : Bytes) (ns : List PNode) : Prop where
  size_lt : size < 2 ^ 40
  flags_lt : flags < 256
  id_lt : id < 2 ^ 32
  next_lt : next < 2 ^ 32
  blk_lt : dp.blk < 2 ^ 32
  metaBlk_lt : dp.metaBlk < 2 ^ 32
  metaBlkn_lt : dp.metaBlkn < 2 ^ 32
  mdata_len : mdata.length ≤ dp.metaBlkn * bs
  nodes : ∀ x ∈ ns, PNodeFits x
  regions_in : ∀ r ∈ dbRegions dp mdata.length ns, r.2 ≤ size
  regions : (dbRegions dp mdata.length ns).Pairwise disj

theorem nextAt_lt (i : Nat) (rest : List PNode) (h : ∀ y ∈ rest, y.place.blk < 2 ^ 32) : nextAt i rest < 2 ^ 32 := by
  simp only [nextAt]
  cases hf : rest.find? (·.lvl ≥ i) with
  | none => simp
  | some y => simpa using h y (List.mem_of_find?_eq_some hf)

theorem nextAt_zero_cons (x : PNode) (rest : List PNode) : nextAt 0 (x :: rest) = x.place.blk := by
  simp [nextAt]

/-- what the layout says about one node -/
structure NodeIn (size : Nat) (x : PNode) : Prop where
  fitsP : PNodeFits x
  node_in : x.place.blk * bs + Gen.SBLK_SZ ≤ size
  data_in : x.place.kblk * bs + 2 ^ x.place.szpow ≤ size
  apart : x.place.blk * bs + Gen.SBLK_SZ ≤ x.place.kblk * bs ∨ x.place.kblk * bs + 2 ^ x.place.szpow ≤ x.place.blk * bs

theorem nodeFits_of (size : Nat) (x : PNode) (n : List Nat) (p0 : Nat) (h : NodeIn size x)
    (hn : n.length = x.lvl + 1) (hnl : ∀ y ∈ n, y < 2 ^ 32) (hp : p0 < 2 ^ 32) :
    NodeFits size x.place x.lvl n p0 x.recs :=
  ⟨h.fitsP.cnt, h.fitsP.lvl_lt, hn, hnl, hp, h.fitsP.kblk_lt, h.fitsP.bpos_lt, h.fitsP.blk_ne, h.fitsP.keys, h.fitsP.kvsz,
    h.fitsP.szpow, h.fitsP.fits, h.node_in, h.data_in, h.apart⟩

theorem mkNodes_spec (size : Nat) (prev : Nat) (ns : List PNode) (hp : prev < 2 ^ 32) (h : ∀ x ∈ ns, NodeIn size x)
    (s : Sblk) (hs : s ∈ mkNodes prev ns) :
    ∃ x ∈ ns, ∃ n p0, s = mkNode x.place x.lvl n p0 x.recs ∧ NodeFits size x.place x.lvl n p0 x.recs := by
  induction ns generalizing prev with
  | nil => simp [mkNodes] at hs
  | cons x rest ih =>
    simp only [mkNodes, List.mem_cons] at hs
    rcases hs with rfl | hs
    · refine ⟨x, by simp, _, _, rfl, nodeFits_of size x _ _ (h x (by simp)) (by simp) ?_ hp⟩
      intro y hy
      simp only [List.mem_map, List.mem_range] at hy
      obtain ⟨i, _, rfl⟩ := hy
      exact nextAt_lt i rest fun z hz => (h z (by simp [hz])).fitsP.blk_lt
    · obtain ⟨y, hy, r⟩ := ih x.place.blk (h x (by simp)).fitsP.blk_lt (fun z hz => h z (by simp [hz])) hs
      exact ⟨y, by simp [hy], r⟩

theorem mkNodes_chain (prev : Nat) (ns : List PNode) : chainOk (nextAt 0 ns) (mkNodes prev ns) := by
  induction ns generalizing prev with
  | nil => simp [chainOk, mkNodes, nextAt]
  | cons x rest ih =>
    simp only [mkNodes, chainOk, nextAt_zero_cons]
    refine ⟨rfl, ?_⟩
    have : (mkNode x.place x.lvl ((List.range (x.lvl + 1)).map (nextAt · rest)) prev x.recs).n.headD 0 = nextAt 0 rest := by
      simp [mkNode, List.range_succ_eq_map]
    rw [this]
    exact ih _

theorem length_mkNodes (prev : Nat) (ns : List PNode) : (mkNodes prev ns).length = ns.length := by
  induction ns generalizing prev with
  | nil => rfl
  | cons x rest ih => simp [mkNodes, ih]

theorem mkNodes_recs (prev : Nat) (ns : List PNode) : (mkNodes prev ns).flatMap (·.recs) = ns.flatMap (·.recs) := by
  induction ns generalizing prev with
  | nil => rfl
  | cons x rest ih => simp only [mkNodes, List.flatMap_cons, ih]; rfl

theorem dbFits_regions (size : Nat) (dp : DbPlace) (flags id next : Nat) (mdata : Bytes) (ns : List PNode)
    (h : DbFits size dp flags id next mdata ns) :
    (∀ r ∈ ns.flatMap (fun x => nodeRegions x.place), disj (dp.blk * bs, dp.blk * bs + Gen.DOFF_END) r) ∧
    disj (dp.blk * bs, dp.blk * bs + Gen.DOFF_END) (dp.metaBlk * bs, dp.metaBlk * bs + mdata.length) ∧
    (∀ r ∈ ns.flatMap (fun x => nodeRegions x.place), disj (dp.metaBlk * bs, dp.metaBlk * bs + mdata.length) r) ∧
    (∀ x ∈ ns, (nodeRegions x.place).Pairwise disj) ∧
    ns.Pairwise (fun a b => ∀ r ∈ nodeRegions a.place, ∀ r' ∈ nodeRegions b.place, disj r r') := by
  have := h.regions
  simp only [dbRegions, List.pairwise_cons, List.pairwise_flatMap] at this
  obtain ⟨h1, h2, h3, h4⟩ := this
  exact ⟨fun r hr => h1 r (by simp only [List.mem_cons]; right; exact hr), h1 _ (by simp), h2, h3, h4⟩

theorem dbFits_nodeIn (size : Nat) (dp : DbPlace) (flags id next : Nat) (mdata : Bytes) (ns : List PNode)
    (h : DbFits size dp flags id next mdata ns) (x : PNode) (hx : x ∈ ns) : NodeIn size x := by
  obtain ⟨_, _, _, h4, _⟩ := dbFits_regions size dp flags id next mdata ns h
  have hin : ∀ r ∈ nodeRegions x.place, r.2 ≤ size := fun r hr =>
    h.regions_in r (by simp only [dbRegions, List.mem_cons, List.mem_flatMap]; right; right; exact ⟨x, hx, hr⟩)
  have h1 := hin (x.place.blk * bs, x.place.blk * bs + Gen.SBLK_SZ) (by simp [nodeRegions])
  have h2 := hin (x.place.kblk * bs, x.place.kblk * bs + 2 ^ x.place.szpow) (by simp [nodeRegions])
  have h3 := h4 x hx
  simp only [nodeRegions, List.pairwise_cons, List.mem_cons, List.not_mem_nil, or_false, forall_eq, disj] at h3
  exact ⟨h.nodes x hx, h1, h2, h3.1⟩

theorem dbFits_fuel (size : Nat) (dp : DbPlace) (flags id next : Nat) (mdata : Bytes) (ns : List PNode)
    (h : DbFits size dp flags id next mdata ns) : ns.length ≤ size / Gen.SBLK_SZ := by
  obtain ⟨_, _, _, _, h5⟩ := dbFits_regions size dp flags id next mdata ns h
  have hnd : (ns.map fun x => x.place.blk * bs / Gen.SBLK_SZ).Nodup := by
    rw [List.nodup_iff_pairwise_ne, List.pairwise_map]
    refine h5.imp ?_
    intro a b hab
    have := hab (a.place.blk * bs, a.place.blk * bs + Gen.SBLK_SZ) (by simp [nodeRegions])
      (b.place.blk * bs, b.place.blk * bs + Gen.SBLK_SZ) (by simp [nodeRegions])
    simp only [disj, Gen.SBLK_SZ] at this ⊢
    omega
  have hsub : (ns.map fun x => x.place.blk * bs / Gen.SBLK_SZ) ⊆ List.range (size / Gen.SBLK_SZ) := by
    intro v hv
    simp only [List.mem_map] at hv
    obtain ⟨x, hx, rfl⟩ := hv
    have := (dbFits_nodeIn size dp flags id next mdata ns h x hx).node_in
    simp only [List.mem_range, Gen.SBLK_SZ] at this ⊢
    omega
  have := hnd.length_le_of_subset hsub
  simpa using this

theorem mkDb_writes (size : Nat) (dp : DbPlace) (flags id next : Nat) (mdata : Bytes) (ns : List PNode)
    (h : DbFits size dp flags id next mdata ns) (hlen : (encDbHdr (mkDb dp flags id next ns).toDbHdr).length = Gen.DOFF_END) :
    WfWrites size (dbWrites (mkDb dp flags id next ns) mdata) := by
  obtain ⟨r1, r2, r3, _, r5⟩ := dbFits_regions size dp flags id next mdata ns h
  have hin := dbFits_nodeIn size dp flags id next mdata ns h
  have hspec := mkNodes_spec size dp.blk ns h.blk_lt hin
  -- every node store lies in a region of its node
  have hnode : ∀ s ∈ mkNodes dp.blk ns, ∀ w ∈ nodeWrites s, ∃ x ∈ ns, ∃ r ∈ nodeRegions x.place, inside w r := by
    intro s hs w hw
    obtain ⟨x, hx, n, p0, rfl, hf⟩ := hspec s hs
    obtain ⟨r, hr, hi⟩ := nodeWrites_inside size _ _ _ _ _ hf w hw
    exact ⟨x, hx, r, hr, hi⟩
  have hhdr : inside (dp.blk * bs, encDbHdr (mkDb dp flags id next ns).toDbHdr) (dp.blk * bs, dp.blk * bs + Gen.DOFF_END) := by
    simp only [inside, hlen]; omega
  have hmeta : inside (dp.metaBlk * bs, mdata) (dp.metaBlk * bs, dp.metaBlk * bs + mdata.length) := by
    simp only [inside]; omega
  have hnodes : (mkDb dp flags id next ns).nodes = mkNodes dp.blk ns := rfl
  have hmb : (mkDb dp flags id next ns).metaBlk = dp.metaBlk := rfl
  have hb : (mkDb dp flags id next ns).blk = dp.blk := rfl
  constructor
  · intro w hw
    simp only [dbWrites, hnodes, hmb, hb, List.mem_cons, List.mem_flatMap] at hw
    rcases hw with rfl | rfl | ⟨s, hs, hw⟩
    · have := h.regions_in (dp.blk * bs, dp.blk * bs + Gen.DOFF_END) (by simp [dbRegions])
      simp only [hlen]; omega
    · have := h.regions_in (dp.metaBlk * bs, dp.metaBlk * bs + mdata.length) (by simp [dbRegions])
      simp only; omega
    · obtain ⟨x, hx, r, hr, hi⟩ := hnode s hs w hw
      have := h.regions_in r (by simp only [dbRegions, List.mem_cons, List.mem_flatMap]; right; right; exact ⟨x, hx, hr⟩)
      simp only [inside] at hi; omega
  · simp only [dbWrites, hnodes, hmb, hb]
    rw [List.pairwise_cons, List.pairwise_cons, List.pairwise_flatMap]
    refine ⟨?_, ?_, ?_, ?_⟩
    · intro w hw
      rcases List.mem_cons.1 hw with rfl | hw
      · exact wdisj_of_inside hhdr hmeta r2
      · simp only [List.mem_flatMap] at hw
        obtain ⟨s, hs, hw⟩ := hw
        obtain ⟨x, hx, r, hr, hi⟩ := hnode s hs w hw
        exact wdisj_of_inside hhdr hi (r1 r (by simp only [List.mem_flatMap]; exact ⟨x, hx, hr⟩))
    · intro w hw
      simp only [List.mem_flatMap] at hw
      obtain ⟨s, hs, hw⟩ := hw
      obtain ⟨x, hx, r, hr, hi⟩ := hnode s hs w hw
      exact wdisj_of_inside hmeta hi (r3 r (by simp only [List.mem_flatMap]; exact ⟨x, hx, hr⟩))
    · intro s hs
      obtain ⟨x, hx, n, p0, rfl, hf⟩ := hspec s hs
      exact (mkNode_writes size _ _ _ _ _ hf).2
    · -- stores of different nodes: by induction along the list
      clear hspec hnode hhdr hnodes hb hlen
      have key : ∀ (prev : Nat) (l : List PNode), prev < 2 ^ 32 → (∀ x ∈ l, NodeIn size x) →
          l.Pairwise (fun a b => ∀ r ∈ nodeRegions a.place, ∀ r' ∈ nodeRegions b.place, disj r r') →
          (mkNodes prev l).Pairwise (fun a b => ∀ x ∈ nodeWrites a, ∀ y ∈ nodeWrites b, wdisj x y) := by
        intro prev l
        induction l generalizing prev with
        | nil => intro _ _ _; exact List.Pairwise.nil
        | cons x rest ih =>
          intro hp hl hpw
          rw [List.pairwise_cons] at hpw
          simp only [mkNodes, List.pairwise_cons]
          refine ⟨?_, ih _ (hl x (by simp)).fitsP.blk_lt (fun z hz => hl z (by simp [hz])) hpw.2⟩
          intro t ht a ha b hb'
          obtain ⟨y, hy, n, p0, rfl, hf⟩ := mkNodes_spec size x.place.blk rest (hl x (by simp)).fitsP.blk_lt
            (fun z hz => hl z (by simp [hz])) t ht
          have hfx : NodeFits size x.place x.lvl ((List.range (x.lvl + 1)).map (nextAt · rest)) prev x.recs :=
            nodeFits_of size x _ _ (hl x (by simp)) (by simp) (by
              intro v hv
              simp only [List.mem_map, List.mem_range] at hv
              obtain ⟨i, _, rfl⟩ := hv
              exact nextAt_lt i rest fun z hz => (hl z (by simp [hz])).fitsP.blk_lt) hp
          obtain ⟨ra, hra, hia⟩ := nodeWrites_inside size _ _ _ _ _ hfx a ha
          obtain ⟨rb, hrb, hib⟩ := nodeWrites_inside size _ _ _ _ _ hf b hb'
          exact wdisj_of_inside hia hib (hpw.1 y hy ra hra rb hrb)
      exact key dp.blk ns h.blk_lt hin r5

theorem encDbHdr_length (d : DbHdr) (h : WfDbHdr d) : (encDbHdr d).length = Gen.DOFF_END := by
  have hz : (zeros Gen.DOFF_END).length = Gen.DOFF_END := by simp [zeros]
  rw [encDbHdr, encDbHdrOver, length_pokes _ _ (by rw [hz]; exact (dbHdrWrites_wf _ h).1), hz]

theorem mkDb_hdr_wf (size : Nat) (dp : DbPlace) (flags id next : Nat) (mdata : Bytes) (ns : List PNode)
    (h : DbFits size dp flags id next mdata ns) : WfDbHdr (mkDb dp flags id next ns).toDbHdr := by
  have hin := dbFits_nodeIn size dp flags id next mdata ns h
  have hblk : ∀ y ∈ ns, y.place.blk < 2 ^ 32 := fun y hy => (hin y hy).fitsP.blk_lt
  refine ⟨h.flags_lt, h.id_lt, h.next_lt, ?_, by simp [mkDb], ?_, by simp [mkDb], ?_, h.metaBlk_lt, h.metaBlkn_lt⟩
  · simp only [mkDb]
    cases hl : ns.getLast? with
    | none => simp
    | some y => simpa using hblk y (List.mem_of_getLast? hl)
  · intro v hv
    simp only [mkDb, List.mem_map, List.mem_range] at hv
    obtain ⟨i, _, rfl⟩ := hv
    exact nextAt_lt i ns hblk
  · intro v hv
    simp only [mkDb, List.mem_map, List.mem_range] at hv
    obtain ⟨i, _, rfl⟩ := hv
    have h1 := List.length_filter_le (fun x : PNode => decide (x.lvl = i)) ns
    have h2 := dbFits_fuel size dp flags id next mdata ns h
    have h3 := h.size_lt
    simp only [Gen.SBLK_SZ] at h2
    omega

/-- a database that fits its layout gives a well-formed image -/
theorem mkDb_wf (size : Nat) (dp : DbPlace) (flags id next : Nat) (mdata : Bytes) (ns : List PNode)
    (h : DbFits size dp flags id next mdata ns) : WfDbImg size (mkDb dp flags id next ns) mdata := by
  have hhdr := mkDb_hdr_wf size dp flags id next mdata ns h
  have hin := dbFits_nodeIn size dp flags id next mdata ns h
  refine ⟨hhdr, ?_, ?_, ?_, h.mdata_len, mkDb_writes size dp flags id next mdata ns h (encDbHdr_length _ hhdr)⟩
  · intro s hs
    obtain ⟨x, _, n, p0, rfl, hf⟩ := mkNodes_spec size dp.blk ns h.blk_lt hin s hs
    exact mkNode_wf size _ _ _ _ _ hf
  · have : (mkDb dp flags id next ns).n.headD 0 = nextAt 0 ns := by
      simp [mkDb, Gen.SLEVELS, List.range_succ_eq_map]
    rw [this]
    exact mkNodes_chain dp.blk ns
  · have : (mkDb dp flags id next ns).nodes.length = ns.length := length_mkNodes dp.blk ns
    rw [this]
    exact dbFits_fuel size dp flags id next mdata ns h

/-- the node of the key-value model (`Kv.Node`: level and records) -/
def PNode.node (x : PNode) : Kv.Node Bytes Bytes := ⟨x.lvl, x.recs⟩

theorem mkNodes_nodes (prev : Nat) (ns : List PNode) :
    (mkNodes prev ns).map (fun s => (⟨s.lvl, s.recs⟩ : Kv.Node Bytes Bytes)) = ns.map PNode.node := by
  induction ns generalizing prev with
  | nil => rfl
  | cons x rest ih => simp only [mkNodes, List.map_cons, ih]; rfl

end IwModel.Format
