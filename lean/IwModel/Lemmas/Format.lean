import IwModel.Model.Format
import IwModel.Lemmas.FormatEnc
/-! The reader of Model/Format.lean run on a file that holds what the writer (`dbWrites`) stored. -/
namespace IwModel.Format
open IwModel IwModel.FormatEnc

/-- a memory holds the bytes of a store, inside the file -/
def Holds (mem : Bytes) (w : Nat × Bytes) : Prop := w.1 + w.2.length ≤ mem.length ∧ peek mem w.1 w.2.length = w.2

/-- a node image the C code can have written: fields in range, data block geometry readable -/
structure WfNode (size : Nat) (s : Sblk) : Prop where
  srec : WfSblk s.toSblkRec
  idx : WfKvIndex s.toKvIndex
  blk_pos : s.blk ≠ 0
  in_file : s.blk * bs + Gen.SBLK_SZ ≤ size
  szpow : s.szpow ≤ 40
  kin : s.kblk * bs + 2 ^ s.szpow ≤ size
  hdr_fits : Gen.KVBLK_HDRSZ ≤ 2 ^ s.szpow
  recs_len : s.recs.length = s.pnum
  slots_ok : ∀ x ∈ s.pi.zip s.recs, ∃ off len, s.slots[x.1]? = some (off, len) ∧ len = (encKv x.2.1 x.2.2).length ∧
    off ≠ 0 ∧ off ≤ 2 ^ s.szpow ∧ x.2.1.length < 2 ^ 63

theorem encKv_length_pos (k v : Bytes) : 0 < (encKv k v).length := by
  have := Vnum.enc_length_pos k.length
  simp [encKv]; omega

theorem parseKv_ok (mem : Bytes) (at_ : Nat) (k v : Bytes) (hk : k.length < 2 ^ 63)
    (h : Holds mem (at_, encKv k v)) : parseKv (Mem.ofBytes mem) at_ (encKv k v).length = .ok (k, v) := by
  obtain ⟨rest, hr⟩ := slice_ofBytes_prefix mem at_ (encKv k v).length (max (encKv k v).length Gen.IW_VNUMBUFSZ)
    h.1 (Nat.le_max_left _ _)
  rw [h.2] at hr
  simp only [parseKv, slice, hr, decKvE_enc k v rest hk]

theorem mapM_ok {α β : Type} (f : α → Except String β) (xs : List α) (ys : List β) (hl : ys.length = xs.length)
    (h : ∀ x ∈ xs.zip ys, f x.1 = .ok x.2) : xs.mapM f = .ok ys := by
  induction xs generalizing ys with
  | nil =>
    cases ys with
    | nil => rfl
    | cons y ys => simp at hl
  | cons x xs ih =>
    cases ys with
    | nil => simp at hl
    | cons y ys =>
      have h1 := h (x, y) (by simp)
      have h2 := ih ys (by simpa using hl) (fun z hz => h z (by simp [hz]))
      simp only at h1
      rw [List.mapM_cons, h1, h2]
      rfl

theorem parseRecs_ok (mem : Bytes) (s : Sblk) (h : WfNode mem.length s)
    (rd : ∀ w ∈ recWrites s, Holds mem w) :
    parseRecs (Mem.ofBytes mem) s.blk (s.kblk * bs) s.toKvIndex s.pi = .ok s.recs := by
  have hpl : s.pi.length = s.pnum := by
    have h1 := h.srec.pi_len; have h2 := h.srec.pnum
    simp [SblkRec.pi]; omega
  apply mapM_ok
  · rw [hpl, h.recs_len]
  · intro x hx
    obtain ⟨off, len, hs, hlen, ho, hle, hk⟩ := h.slots_ok x hx
    have hw := rd (s.kblk * bs + 2 ^ s.szpow - (s.slots.getD x.1 (0, 0)).1, encKv x.2.1 x.2.2)
      (by simp only [recWrites, List.mem_map]; exact ⟨x, hx, rfl⟩)
    have hg : s.slots.getD x.1 (0, 0) = (off, len) := by simp [List.getD, hs]
    rw [hg] at hw
    have hpos := encKv_length_pos x.2.1 x.2.2
    simp only [hs]
    rw [if_neg (by omega), hlen]
    exact parseKv_ok mem _ _ _ hk hw

theorem inFile_ofBytes (mem : Bytes) (off len : Nat) : inFile (Mem.ofBytes mem) off len = true ↔ off + len ≤ mem.length := by
  simp [inFile, Mem.ofBytes]

theorem peek_prefix (b : Bytes) (o l1 l2 : Nat) (h : l1 ≤ l2) : peek b o l1 = (peek b o l2).take l1 := by
  have := peek_peek b o l2 0 l1 (by omega)
  simp only [Nat.add_zero] at this
  rw [← this]; simp [peek]

theorem encKvIndex_length (k : KvIndex) : (encKvIndex k).length = Gen.KVBLK_HDRSZ + (encSlots k.slots).length := by
  simp [encKvIndex, Gen.KVBLK_HDRSZ]; omega

/-- **a node is read back**: if the memory holds the stores of `nodeWrites s`, the reader returns `s` -/
theorem parseSblk_ok (mem : Bytes) (s : Sblk) (h : WfNode mem.length s)
    (rd : ∀ w ∈ nodeWrites s, Holds mem w) : parseSblk (Mem.ofBytes mem) s.blk = .ok s := by
  have hin : inFile (Mem.ofBytes mem) (s.blk * bs) Gen.SBLK_SZ = true := by
    rw [inFile_ofBytes]; exact h.in_file
  -- node record
  have hsw := sblkWrites_wf s.toSblkRec h.srec
  have hdec : decSblk (slice (Mem.ofBytes mem) (s.blk * bs) Gen.SBLK_SZ) = some s.toSblkRec := by
    rw [slice, slice_ofBytes _ _ _ h.in_file]
    apply decSblk_of_reads _ _ (length_peek _ _ _ h.in_file) h.srec
    intro x hx
    rw [peek_peek _ _ _ _ _ (hsw.1 x hx)]
    exact (rd (s.blk * bs + x.1, x.2) (by
      simp only [nodeWrites, shift, List.mem_append, List.mem_map]; exact Or.inl ⟨x, hx, rfl⟩)).2
  -- data block header + index
  have hidx := rd (s.kblk * bs, encKvIndex s.toKvIndex) (by simp [nodeWrites])
  have hil := encKvIndex_length s.toKvIndex
  have hk3 : inFile (Mem.ofBytes mem) (s.kblk * bs) Gen.KVBLK_HDRSZ = true := by
    have := h.kin; have := h.hdr_fits
    rw [inFile_ofBytes]; omega
  have hsz : byteAt (Mem.ofBytes mem) (s.kblk * bs) = s.szpow := by
    apply get_ofBytes_of_peek
    rw [peek_prefix _ _ 1 (encKvIndex s.toKvIndex).length (by rw [hil]; simp [Gen.KVBLK_HDRSZ]; omega), hidx.2]
    simp [encKvIndex]
  have hk : ¬ (s.szpow > 40 ∨ (!inFile (Mem.ofBytes mem) (s.kblk * bs) (2 ^ s.szpow)) = true) := by
    have := h.szpow; have := h.kin
    have := (inFile_ofBytes mem (s.kblk * bs) (2 ^ s.szpow)).2 h.kin
    simp [this]; omega
  have hki : decKvIndexE (slice (Mem.ofBytes mem) (s.kblk * bs) kvIndexMax) = .ok s.toKvIndex := by
    have hle : (encKvIndex s.toKvIndex).length ≤ kvIndexMax := by
      have := encSlots_length_le s.slots h.idx.slots
      rw [hil, h.idx.slots_len] at *
      simp only [kvIndexMax, Gen.KVBLK_HDRSZ, Gen.KVBLK_IDXNUM, Gen.IW_VNUMBUFSZ] at *; omega
    obtain ⟨rest, hr⟩ := slice_ofBytes_prefix mem (s.kblk * bs) (encKvIndex s.toKvIndex).length kvIndexMax hidx.1 hle
    rw [hidx.2] at hr
    rw [slice, hr, decKvIndexE_enc _ rest h.idx]
  have hrecs := parseRecs_ok mem s h (fun w hw => rd w (by simp [nodeWrites, hw]))
  simp only [parseSblk, hin, hdec, hk3, hsz, hki, hrecs, Bool.not_true, Bool.false_eq_true, if_false, hk]

/-- the level-0 links thread the nodes in order and end with 0 -/
def chainOk : Nat → List Sblk → Prop
  | b, [] => b = 0
  | b, s :: rest => b = s.blk ∧ chainOk (s.n.headD 0) rest

theorem parseChain_ok (mem : Bytes) (nodes : List Sblk) (first fuel : Nat) (acc : List Sblk)
    (hf : nodes.length < fuel) (hc : chainOk first nodes)
    (hn : ∀ s ∈ nodes, WfNode mem.length s ∧ ∀ w ∈ nodeWrites s, Holds mem w) :
    parseChain (Mem.ofBytes mem) fuel first acc = .ok (acc.reverse ++ nodes) := by
  induction nodes generalizing first fuel acc with
  | nil =>
    cases fuel with
    | zero => simp at hf
    | succ f => simp only [chainOk] at hc; simp [parseChain, hc]
  | cons s rest ih =>
    cases fuel with
    | zero => simp at hf
    | succ f =>
      obtain ⟨h1, h2⟩ := hc
      have hs := hn s (by simp)
      have hp := parseSblk_ok mem s hs.1 hs.2
      have hne : s.n ≠ [] := by
        intro e
        have := hs.1.srec.n_len
        simp [e] at this
      simp only [parseChain, h1, hs.1.blk_pos, if_false, hp]
      cases hsn : s.n with
      | nil => exact absurd hsn hne
      | cons nx tl =>
        simp only [hsn, List.headD_cons] at h2 ⊢
        rw [ih nx f (s :: acc) (by simp at hf; omega) h2 (fun t ht => hn t (by simp [ht]))]
        simp

/-- a database image the C code can have written into a file of `size` bytes -/
structure WfDbImg (size : Nat) (d : DbImg) (mdata : Bytes) : Prop where
  hdr : WfDbHdr d.toDbHdr
  nodes : ∀ s ∈ d.nodes, WfNode size s
  chain : chainOk (d.n.headD 0) d.nodes
  fuel : d.nodes.length ≤ size / Gen.SBLK_SZ
  mdata_len : mdata.length ≤ d.metaBlkn * bs
  /-- the layout: every store inside the file, no two stores overlap -/
  writes : WfWrites size (dbWrites d mdata)

theorem parseDb_ok (mem : Bytes) (d : DbImg) (mdata : Bytes) (h : WfDbImg mem.length d mdata)
    (rd : ∀ w ∈ dbWrites d mdata, Holds mem w) :
    parseDb (Mem.ofBytes mem) d.blk = .ok d ∧ metaOf (Mem.ofBytes mem) d mdata.length = mdata := by
  have hh := rd (d.blk * bs, encDbHdr d.toDbHdr) (by simp [dbWrites])
  have hlen : (encDbHdr d.toDbHdr).length = Gen.DOFF_END := by
    have hz : (zeros Gen.DOFF_END).length = Gen.DOFF_END := by simp [zeros]
    rw [encDbHdr, encDbHdrOver, length_pokes _ _ (by rw [hz]; exact (dbHdrWrites_wf _ h.hdr).1), hz]
  simp only [Holds, hlen] at hh
  have hin : inFile (Mem.ofBytes mem) (d.blk * bs) Gen.DOFF_END = true := by rw [inFile_ofBytes]; exact hh.1
  have hdec : decDbHdr (slice (Mem.ofBytes mem) (d.blk * bs) Gen.DOFF_END) = some d.toDbHdr := by
    rw [slice, slice_ofBytes _ _ _ hh.1, hh.2]
    exact dbhdr_dec_enc d.toDbHdr h.hdr
  have hch := parseChain_ok mem d.nodes (d.n.headD 0) (mem.length / Gen.SBLK_SZ + 1) []
    (by have := h.fuel; omega) h.chain
    (fun s hs => ⟨h.nodes s hs, fun w hw => rd w (by
      simp only [dbWrites, List.mem_cons, List.mem_flatMap]; exact Or.inr (Or.inr ⟨s, hs, hw⟩))⟩)
  constructor
  · simp only [parseDb, hin, hdec, Bool.not_true, Bool.false_eq_true, if_false]
    have : (Mem.ofBytes mem).size = mem.length := rfl
    rw [this, hch]
    rfl
  · have hm := rd (d.metaBlk * bs, mdata) (by simp [dbWrites])
    have := h.mdata_len
    simp only [Holds] at hm
    rw [metaOf, slice, Nat.min_eq_left this, slice_ofBytes _ _ _ hm.1, hm.2]

end IwModel.Format
