import IwModel.Lemmas.Wal
/-! Idempotence of runs of absolute stores, and the reading of the replay loop as such a run. -/
namespace IwModel.Wal
open IwModel IwModel.Gen.Wal

theorem splice_length (m data : Bytes) (off : Nat) (h : off + data.length ≤ m.length) :
    (m.take off ++ data ++ m.drop (off + data.length)).length = m.length := by
  simp only [List.length_append, List.length_take, List.length_drop]; omega

theorem splice_get (m data : Bytes) (off i : Nat) (h : off + data.length ≤ m.length) :
    (m.take off ++ data ++ m.drop (off + data.length))[i]? =
      if off ≤ i ∧ i < off + data.length then data[i - off]? else m[i]? := by
  by_cases h1 : i < off
  · rw [List.append_assoc, List.getElem?_append_left (by simp; omega)]
    simp only [List.getElem?_take, h1, if_true]
    rw [if_neg (by omega)]
  · by_cases h2 : i < off + data.length
    · rw [List.getElem?_append_left (by simp; omega), List.getElem?_append_right (by simp; omega)]
      simp only [List.length_take]
      rw [if_pos (by omega)]
      congr 1; omega
    · rw [List.getElem?_append_right (by simp; omega)]
      simp only [List.length_append, List.length_take, List.getElem?_drop]
      rw [if_neg (by omega)]
      congr 1; omega


/-- the store a record performs, as a total function on the main file (a store that does not fit leaves it alone) -/
def eff (x : Rec × Bytes) (m : Bytes) : Bytes :=
  match x.1 with
  | .set val off len => (memSet m off len val).getD m
  | .write _ _ off => (memWrite m off x.2).getD m
  | _ => m

/-- byte positions a record stores to -/
def touches (x : Rec × Bytes) (i : Nat) : Prop :=
  match x.1 with
  | .set _ off len => off ≤ i ∧ i < off + len
  | .write _ _ off => off ≤ i ∧ i < off + x.2.length
  | _ => False

/-- absolute-address records that fit a main file of `L` bytes (no copy, no resize) -/
def inb (L : Nat) (x : Rec × Bytes) : Prop :=
  match x.1 with
  | .set _ off len => len = 0 ∨ off + len ≤ L
  | .write _ _ off => x.2.length = 0 ∨ off + x.2.length ≤ L
  | .copy _ _ _ => False
  | .resize _ _ => False
  | _ => True

theorem memWrite_spec (m data : Bytes) (off : Nat) (h : off + data.length ≤ m.length) :
    ∃ m', memWrite m off data = some m' ∧ m'.length = m.length ∧
      ∀ i, m'[i]? = if off ≤ i ∧ i < off + data.length then data[i - off]? else m[i]? := by
  unfold memWrite
  by_cases h0 : data.length = 0
  · refine ⟨m, by simp [h0], rfl, fun i => ?_⟩
    rw [if_neg (by omega)]
  · refine ⟨_, by simp [h0, h], splice_length m data off h, fun i => splice_get m data off i h⟩

/-- what `eff` does, pointwise: length kept, bytes outside the record's range kept, bytes inside determined by the record alone -/
theorem eff_spec (L : Nat) (x : Rec × Bytes) (hx : inb L x) :
    (∀ m : Bytes, m.length = L → (eff x m).length = L ∧ ∀ i, ¬ touches x i → (eff x m)[i]? = m[i]?) ∧
    ∃ v : Nat → Option Nat, ∀ m : Bytes, m.length = L → ∀ i, touches x i → (eff x m)[i]? = v i := by
  obtain ⟨r, b⟩ := x
  cases r with
  | set val off len =>
    simp only [inb] at hx
    have hl : (List.replicate len (val % 256)).length = len := List.length_replicate ..
    refine ⟨fun m hm => ?_, fun i => (List.replicate len (val % 256))[i - off]?, fun m hm i ht => ?_⟩
    · simp only [eff, touches, memSet]
      by_cases h0 : len = 0
      · simp [h0, hm]
      · have hx' : off + len ≤ L := by omega
        obtain ⟨m', e1, e2, e3⟩ := memWrite_spec m (List.replicate len (val % 256)) off (by rw [hl]; omega)
        simp only [h0, if_false, if_pos (show off + len ≤ m.length by omega), e1, Option.getD_some]
        refine ⟨by omega, fun i hi => ?_⟩
        rw [e3 i, hl, if_neg hi]
    · simp only [touches] at ht
      simp only [eff, memSet]
      have h0 : len ≠ 0 := by omega
      have hx' : off + len ≤ L := by omega
      obtain ⟨m', e1, e2, e3⟩ := memWrite_spec m (List.replicate len (val % 256)) off (by rw [hl]; omega)
      simp only [h0, if_false, if_pos (show off + len ≤ m.length by omega), e1, Option.getD_some]
      rw [e3 i, hl, if_pos ht]
  | write c l off =>
    simp only [inb] at hx
    refine ⟨fun m hm => ?_, fun i => b[i - off]?, fun m hm i ht => ?_⟩
    · simp only [eff, touches]
      by_cases h0 : b.length = 0
      · simp [memWrite, h0, hm]
      · obtain ⟨m', e1, e2, e3⟩ := memWrite_spec m b off (by omega)
        simp only [e1, Option.getD_some]
        exact ⟨by omega, fun i hi => by rw [e3 i, if_neg hi]⟩
    · simp only [touches] at ht
      simp only [eff]
      obtain ⟨m', e1, e2, e3⟩ := memWrite_spec m b off (by omega)
      simp only [e1, Option.getD_some]
      rw [e3 i, if_pos ht]
  | sep c l => exact ⟨fun m hm => ⟨hm, fun i _ => rfl⟩, fun _ => none, fun m _ i ht => by simp [touches] at ht⟩
  | savepoint => exact ⟨fun m hm => ⟨hm, fun i _ => rfl⟩, fun _ => none, fun m _ i ht => by simp [touches] at ht⟩
  | reset => exact ⟨fun m hm => ⟨hm, fun i _ => rfl⟩, fun _ => none, fun m _ i ht => by simp [touches] at ht⟩
  | copy a b' c => simp [inb] at hx
  | resize a b' => simp [inb] at hx


def runEff (l : List (Rec × Bytes)) (m : Bytes) : Bytes := l.foldl (fun m x => eff x m) m

def dom (l : List (Rec × Bytes)) (i : Nat) : Prop := ∃ x ∈ l, touches x i

theorem runEff_cons (a : Rec × Bytes) (t : List (Rec × Bytes)) (m : Bytes) : runEff (a :: t) m = runEff t (eff a m) := rfl

theorem runEff_outside (L : Nat) : ∀ (l : List (Rec × Bytes)) (m : Bytes), (∀ x ∈ l, inb L x) → m.length = L →
    (runEff l m).length = L ∧ ∀ i, ¬ dom l i → (runEff l m)[i]? = m[i]? := by
  intro l
  induction l with
  | nil => intro m _ hm; exact ⟨hm, fun _ _ => rfl⟩
  | cons a t ih =>
    intro m hl hm
    have ha := (eff_spec L a (hl a (by simp))).1 m hm
    have := ih (eff a m) (fun x hx => hl x (by simp [hx])) ha.1
    refine ⟨this.1, fun i hi => ?_⟩
    rw [runEff_cons, this.2 i (fun ⟨x, hx, ht⟩ => hi ⟨x, by simp [hx], ht⟩)]
    exact ha.2 i (fun ht => hi ⟨a, by simp, ht⟩)

/-- the result of a run of absolute stores does not depend on the bytes the run overwrites -/
theorem runEff_agree (L : Nat) : ∀ (l : List (Rec × Bytes)) (x y : Bytes), (∀ a ∈ l, inb L a) → x.length = L → y.length = L →
    (∀ i, ¬ dom l i → x[i]? = y[i]?) → runEff l x = runEff l y := by
  intro l
  induction l with
  | nil =>
    intro x y _ _ _ h
    exact List.ext_getElem? (fun i => h i (fun ⟨_, hx, _⟩ => by simp at hx))
  | cons a t ih =>
    intro x y hl hx hy h
    have sa := eff_spec L a (hl a (by simp))
    obtain ⟨v, hv⟩ := sa.2
    have hax := sa.1 x hx
    have hay := sa.1 y hy
    rw [runEff_cons, runEff_cons]
    apply ih _ _ (fun b hb => hl b (by simp [hb])) hax.1 hay.1
    intro i hi
    by_cases ht : touches a i
    · rw [hv x hx i ht, hv y hy i ht]
    · rw [hax.2 i ht, hay.2 i ht]
      exact h i (fun ⟨b, hb, hbt⟩ => by
        rcases List.mem_cons.mp hb with rfl | hb'
        · exact ht hbt
        · exact hi ⟨b, hb', hbt⟩)

/-- **Idempotence.** Re-running a list of absolute stores over the result of any prefix of it gives what one run gives. -/
theorem runEff_idem (L : Nat) (l : List (Rec × Bytes)) (j : Nat) (m : Bytes) (hl : ∀ a ∈ l, inb L a) (hm : m.length = L) :
    runEff l (runEff (l.take j) m) = runEff l m := by
  have hp := runEff_outside L (l.take j) m (fun x hx => hl x (List.mem_of_mem_take hx)) hm
  apply runEff_agree L l _ _ hl hp.1 hm
  intro i hi
  exact hp.2 i (fun ⟨x, hx, ht⟩ => hi ⟨x, List.mem_of_mem_take hx, ht⟩)

/-- the records (with the bytes their handlers read) the replay loop steps through before it stops at `stop`
or at the end of the log; `none` when the loop meets something it cannot decode -/
def recsAux (stop : Nat) : Nat → Bytes → Nat → Bool → Option (List (Rec × Bytes))
  | 0, _, _, _ => some []
  | fuel + 1, rest, pos, first =>
    if rest.isEmpty then some []
    else if first && rest.headD 0 != WOP_SEP then none
    else
      match parse rest with
      | none => none
      | some (r, adv) =>
        if r = .savepoint ∧ stop = pos then some []
        else (recsAux stop fuel (rest.drop adv) (pos + adv) false).map ((r, body r rest) :: ·)

/-- apply a list of records in order, stopping at the first one that fails -/
def runRecs (cfg : Cfg) : List (Rec × Bytes) → Bytes → Out
  | [], m => ⟨.ok, m⟩
  | x :: t, m => if (applyB cfg x.1 x.2 m).1 = .ok then runRecs cfg t (applyB cfg x.1 x.2 m).2 else ⟨(applyB cfg x.1 x.2 m).1, (applyB cfg x.1 x.2 m).2⟩

theorem replayAux_zero (cfg : Cfg) (stop : Nat) (rest : Bytes) (pos : Nat) (first : Bool) (m : Bytes) :
    replayAux cfg stop 0 rest pos first m = ⟨.ok, m⟩ := rfl

/-- with `j` units of fuel the replay loop applies the first `j` records and returns what it has -/
theorem replayAux_eq_run (cfg : Cfg) (stop : Nat) (F : Nat) : ∀ (rest : Bytes) (pos : Nat) (first : Bool) (l : List (Rec × Bytes)),
    recsAux stop F rest pos first = some l → rest.length ≤ F →
    ∀ (j : Nat) (m : Bytes), replayAux cfg stop j rest pos first m = runRecs cfg (l.take j) m := by
  induction F with
  | zero =>
    intro rest pos first l hl hlen j m
    have : rest = [] := List.eq_nil_of_length_eq_zero (by omega)
    subst this
    simp only [recsAux, Option.some.injEq] at hl
    subst hl
    cases j <;> simp [replayAux, runRecs]
  | succ n ih =>
    intro rest pos first l hl hlen j m
    simp only [recsAux] at hl
    cases he : rest.isEmpty with
    | true =>
      simp only [he, if_true, Option.some.injEq] at hl
      subst hl
      cases j <;> simp [replayAux, runRecs, he]
    | false =>
      simp only [he, Bool.false_eq_true, if_false] at hl
      cases hfc : (first && rest.headD 0 != WOP_SEP) with
      | true => simp only [hfc, if_true] at hl; cases hl
      | false =>
        simp only [hfc, Bool.false_eq_true, if_false] at hl
        cases hp : parse rest with
        | none => simp [hp] at hl
        | some ra =>
          obtain ⟨r, adv⟩ := ra
          simp only [hp] at hl
          have h4 := parse_adv_pos hp
          have hlen' := drop_len_lt h4 he hlen
          by_cases hst : r = Rec.savepoint ∧ stop = pos
          · simp only [hst, and_self, if_true, Option.some.injEq] at hl
            subst hl
            cases j with
            | zero => rfl
            | succ j => simp only [replayAux, he, hfc, hp, hst, and_self, Bool.false_eq_true, if_false, if_true, List.take_nil, runRecs]
          · simp only [hst, if_false] at hl
            cases hr : recsAux stop n (rest.drop adv) (pos + adv) false with
            | none => simp [hr] at hl
            | some l' =>
              simp only [hr, Option.map_some, Option.some.injEq] at hl
              subst hl
              cases j with
              | zero => rfl
              | succ j =>
                simp only [replayAux, he, hfc, hp, hst, Bool.false_eq_true, if_false, List.take_succ_cons, runRecs, apply]
                by_cases hrc : (applyB cfg r (body r rest) m).1 = Rc.ok
                · simp only [hrc, if_true]
                  exact ih _ _ _ _ hr hlen' j _
                · simp only [hrc, if_false]


theorem recsAux_of_ok (cfg : Cfg) (stop : Nat) (F : Nat) : ∀ (rest : Bytes) (pos : Nat) (first : Bool) (m : Bytes),
    (replayAux cfg stop F rest pos first m).rc = .ok → ∃ l, recsAux stop F rest pos first = some l := by
  induction F with
  | zero => intro rest pos first m _; exact ⟨[], rfl⟩
  | succ n ih =>
    intro rest pos first m hok
    simp only [replayAux] at hok
    simp only [recsAux]
    cases he : rest.isEmpty with
    | true => exact ⟨[], by simp⟩
    | false =>
      simp only [he, Bool.false_eq_true, if_false] at hok ⊢
      cases hfc : (first && rest.headD 0 != WOP_SEP) with
      | true => simp only [hfc, if_true] at hok; exact absurd hok (by decide)
      | false =>
        simp only [hfc, Bool.false_eq_true, if_false] at hok ⊢
        cases hp : parse rest with
        | none => simp only [hp] at hok; exact absurd hok (by decide)
        | some ra =>
          obtain ⟨r, adv⟩ := ra
          simp only [hp] at hok ⊢
          by_cases hst : r = Rec.savepoint ∧ stop = pos
          · exact ⟨[], by simp [hst]⟩
          · simp only [hst, if_false] at hok ⊢
            by_cases hrc : (apply cfg r rest m).1 = Rc.ok
            · simp only [hrc, if_true] at hok
              obtain ⟨l', hl'⟩ := ih _ _ _ _ hok
              exact ⟨(r, body r rest) :: l', by simp [hl']⟩
            · simp only [hrc, if_false] at hok

theorem recsAux_sub_walk (stop : Nat) (F : Nat) : ∀ (rest : Bytes) (pos : Nat) (first : Bool) (l : List (Rec × Bytes)),
    recsAux stop F rest pos first = some l → l.length ≤ F ∧ ∀ x ∈ l, ∃ p, (p, x.1) ∈ walkAux F rest pos := by
  induction F with
  | zero => intro rest pos first l hl; simp only [recsAux, Option.some.injEq] at hl; subst hl; simp
  | succ n ih =>
    intro rest pos first l hl
    simp only [recsAux] at hl
    cases he : rest.isEmpty with
    | true => simp only [he, if_true, Option.some.injEq] at hl; subst hl; simp
    | false =>
      simp only [he, Bool.false_eq_true, if_false] at hl
      cases hfc : (first && rest.headD 0 != WOP_SEP) with
      | true => simp only [hfc, if_true] at hl; cases hl
      | false =>
        simp only [hfc, Bool.false_eq_true, if_false] at hl
        cases hp : parse rest with
        | none => simp only [hp] at hl; cases hl
        | some ra =>
          obtain ⟨r, adv⟩ := ra
          simp only [hp] at hl
          by_cases hst : r = Rec.savepoint ∧ stop = pos
          · simp only [hst, and_self, if_true, Option.some.injEq] at hl; subst hl; simp
          · simp only [hst, if_false] at hl
            cases hr : recsAux stop n (rest.drop adv) (pos + adv) false with
            | none => simp [hr] at hl
            | some l' =>
              simp only [hr, Option.map_some, Option.some.injEq] at hl
              subst hl
              have := ih _ _ _ _ hr
              refine ⟨by simp; omega, fun x hx => ?_⟩
              simp only [walkAux, he, Bool.false_eq_true, if_false, hp, List.mem_cons]
              rcases List.mem_cons.mp hx with rfl | hx'
              · exact ⟨pos, Or.inl rfl⟩
              · obtain ⟨p, hp'⟩ := this.2 x hx'
                exact ⟨p, Or.inr hp'⟩

/-- a record whose handler succeeds on every main file of `L` bytes and acts as the absolute store `eff` -/
def Good (cfg : Cfg) (L : Nat) (x : Rec × Bytes) : Prop :=
  inb L x ∧ ∀ m : Bytes, m.length = L → applyB cfg x.1 x.2 m = (.ok, eff x m)

theorem runRecs_good (cfg : Cfg) (L : Nat) : ∀ (l : List (Rec × Bytes)) (m : Bytes), (∀ x ∈ l, Good cfg L x) → m.length = L →
    runRecs cfg l m = ⟨.ok, runEff l m⟩ := by
  intro l
  induction l with
  | nil => intro m _ _; rfl
  | cons a t ih =>
    intro m hg hm
    have ha := hg a (by simp)
    have e := ha.2 m hm
    have hlen := ((eff_spec L a ha.1).1 m hm).1
    simp only [runRecs, e, if_true, runEff_cons]
    exact ih _ (fun x hx => hg x (by simp [hx])) hlen

theorem good_of_ok (cfg : Cfg) (L : Nat) (x : Rec × Bytes) (m : Bytes) (hm : m.length = L)
    (hnc : ∀ a b c, x.1 ≠ .copy a b c) (hnr : ∀ a b, x.1 ≠ .resize a b)
    (hok : (applyB cfg x.1 x.2 m).1 = .ok) : Good cfg L x := by
  obtain ⟨r, b⟩ := x
  cases r with
  | sep c l =>
    simp only [applyB] at hok
    refine ⟨trivial, fun m2 _ => ?_⟩
    simp only [applyB, eff]
    split at hok
    · simp at hok
    · rename_i h; simp [h]
  | set val off len =>
    simp only [applyB, memSet] at hok
    have hin : len = 0 ∨ off + len ≤ L := by
      by_cases h0 : len = 0
      · exact Or.inl h0
      · right
        simp only [h0, if_false] at hok
        by_cases hb : off + len ≤ m.length
        · omega
        · simp [hb] at hok
    refine ⟨hin, fun m2 hm2 => ?_⟩
    simp only [applyB, eff, memSet]
    by_cases h0 : len = 0
    · simp [h0]
    · have hb : off + len ≤ m2.length := by omega
      have hl : (List.replicate len (val % 256)).length = len := List.length_replicate ..
      obtain ⟨m', e1, _, _⟩ := memWrite_spec m2 (List.replicate len (val % 256)) off (by rw [hl]; omega)
      simp [h0, hb, e1]
  | write c l off =>
    simp only [applyB] at hok
    split at hok
    · simp at hok
    · rename_i hcrc
      have hin : b.length = 0 ∨ off + b.length ≤ L := by
        by_cases h0 : b.length = 0
        · exact Or.inl h0
        · right
          simp only [memWrite, h0, if_false] at hok
          by_cases hb : off + b.length ≤ m.length
          · omega
          · simp [hb] at hok
      refine ⟨hin, fun m2 hm2 => ?_⟩
      simp only [applyB, eff, hcrc]
      by_cases h0 : b.length = 0
      · simp [memWrite, h0]
      · obtain ⟨m', e1, _, _⟩ := memWrite_spec m2 b off (by omega)
        simp [e1]
  | savepoint => exact ⟨trivial, fun _ _ => rfl⟩
  | reset => exact ⟨trivial, fun _ _ => rfl⟩
  | copy a b' c => exact absurd rfl (hnc a b' c)
  | resize a b' => exact absurd rfl (hnr a b')

theorem runRecs_ok_good (cfg : Cfg) (L : Nat) : ∀ (l : List (Rec × Bytes)) (m : Bytes), m.length = L →
    (∀ x ∈ l, (∀ a b c, x.1 ≠ .copy a b c) ∧ (∀ a b, x.1 ≠ .resize a b)) →
    (runRecs cfg l m).rc = .ok → ∀ x ∈ l, Good cfg L x := by
  intro l
  induction l with
  | nil => intro m _ _ _ x hx; simp at hx
  | cons a t ih =>
    intro m hm hn hok x hx
    simp only [runRecs] at hok
    by_cases hrc : (applyB cfg a.1 a.2 m).1 = Rc.ok
    · have ga := good_of_ok cfg L a m hm (hn a (by simp)).1 (hn a (by simp)).2 hrc
      rcases List.mem_cons.mp hx with rfl | hx'
      · exact ga
      · simp only [hrc, if_true] at hok
        have e := ga.2 m hm
        have hlen := ((eff_spec L a ga.1).1 m hm).1
        rw [e] at hok
        exact ih _ hlen (fun y hy => hn y (by simp [hy])) hok x hx'
    · simp only [hrc, if_false] at hok

end IwModel.Wal
