import IwModel.Lemmas.JsonPrintCst
/-! `iwjson_ftoa` (exact-arithmetic model): what it writes for a finite double is a JSON number token; rounding. -/
namespace IwModel.Json
open IwModel

def trimFrac (ds : Bytes) : Bytes := (ds.reverse.dropWhile (· = 48)).reverse

theorem mem_dropWhile' (p : Nat → Bool) (l : Bytes) (c : Nat) (h : c ∈ l.dropWhile p) : c ∈ l := by
  induction l with
  | nil => simp at h
  | cons a as ih =>
    simp only [List.dropWhile] at h
    split at h
    · exact List.mem_cons_of_mem _ (ih h)
    · exact h

theorem trimFrac_mem (ds : Bytes) : ∀ c ∈ trimFrac ds, c ∈ ds := by
  intro c hc
  simp only [trimFrac, List.mem_reverse] at hc
  have := mem_dropWhile' _ _ _ hc
  simpa using this

theorem getLast_append_ne (A B : Bytes) (hB : B ≠ []) (x : Nat) (hx : ∀ c ∈ B, c ≠ x) : (A ++ B).getLast? ≠ some x := by
  induction A with
  | nil =>
    intro h
    simp only [List.nil_append] at h
    have := List.mem_of_getLast? h
    exact hx x this rfl
  | cons a as ih =>
    have hne : as ++ B ≠ [] := by simp [hB]
    rw [List.cons_append, List.getLast?_cons_of_ne_nil hne] <;> exact ih

theorem trimZeros_frac (A ds : Bytes) (hds : ∀ c ∈ ds, c ≠ 46) :
    trimZeros (A ++ 46 :: ds) = if trimFrac ds = [] then A else A ++ 46 :: trimFrac ds := by
  unfold trimZeros
  have hrev : (A ++ 46 :: ds).reverse = ds.reverse ++ 46 :: A.reverse := by simp
  rw [hrev, List.dropWhile_append]
  by_cases h : (ds.reverse.dropWhile (· = 48)) = []
  · have htf : trimFrac ds = [] := by simp [trimFrac, h]
    simp [h, htf]
  · have htf : trimFrac ds ≠ [] := by simpa [trimFrac] using h
    have hemp : (List.dropWhile (fun x => decide (x = 48)) ds.reverse).isEmpty = false := by
      simpa [List.isEmpty_iff] using h
    have hlast : (A ++ 46 :: trimFrac ds).getLast? ≠ some 46 := by
      have := getLast_append_ne (A ++ [46]) (trimFrac ds) htf 46 (fun c hc => hds c (trimFrac_mem ds c hc))
      simpa using this
    have hre : (List.dropWhile (fun x => decide (x = 48)) ds.reverse ++ 46 :: A.reverse).reverse = A ++ 46 :: trimFrac ds := by
      simp [trimFrac]
    simp only [hemp, Bool.false_eq_true, ↓reduceIte, htf, hre, hlast]


theorem pad8_digits (n : Nat) : ∀ c ∈ pad8 n, 48 ≤ c ∧ c ≤ 57 := by
  intro c hc
  simp only [pad8, List.mem_map, List.mem_range] at hc
  obtain ⟨i, -, rfl⟩ := hc
  omega

theorem isDigit_all (ds : Bytes) (h : ∀ c ∈ ds, 48 ≤ c ∧ c ≤ 57) : ds.all isDigit = true := by
  simp only [List.all_eq_true, isDigit, Bool.and_eq_true, decide_eq_true_eq]
  exact h

theorem ascii_of_digits (ds : Bytes) (h : ∀ c ∈ ds, 48 ≤ c ∧ c ≤ 57) : ascii ds := fun c hc => by have := h c hc; omega

theorem ascii_signText (neg : Bool) : ascii (signText neg) := by cases neg <;> simp [signText, ascii]

/-- the plain form `%.8Lf` with zeros trimmed is an integer literal or a number with 1–8 fraction digits -/
theorem plain_token (neg : Bool) (ip fp : Nat) :
    ∃ c : Cst, c.text = trimZeros (signText neg ++ Conv.digits ip ++ [46] ++ pad8 fp) ∧ c.valid = true ∧ c.depth = 0 ∧
      ascii c.text := by
  have hpd := pad8_digits fp
  have hne46 : ∀ c ∈ pad8 fp, c ≠ 46 := fun c hc => by have := hpd c hc; omega
  have htz := trimZeros_frac (signText neg ++ Conv.digits ip) (pad8 fp) hne46
  have hshape : signText neg ++ Conv.digits ip ++ [46] ++ pad8 fp = (signText neg ++ Conv.digits ip) ++ 46 :: pad8 fp := by simp
  rw [hshape, htz]
  have htfd : ∀ c ∈ trimFrac (pad8 fp), 48 ≤ c ∧ c ≤ 57 := fun c hc => hpd c (trimFrac_mem _ c hc)
  by_cases hemp : trimFrac (pad8 fp) = []
  · simp only [hemp, ↓reduceIte]
    by_cases hr : (if neg then ip ≤ 2 ^ 63 else ip < 2 ^ 63)
    · refine ⟨.int neg ip, rfl, ?_, rfl, ?_⟩
      · cases neg <;> simp_all [Cst.valid]
      · simp only [Cst.text, ascii_append]; exact ⟨ascii_signText _, ascii_digits _⟩
    · refine ⟨.dbl ⟨neg, ip, none, none⟩, by simp [Cst.text, NumTok.text, NumTok.tail], ?_, rfl, ?_⟩
      · simp only [Cst.valid, NumTok.valid, NumTok.big, Option.isSome_none, Bool.false_or, Bool.true_and]
        cases neg <;> simp_all <;> omega
      · simp only [Cst.text, NumTok.text, NumTok.tail, List.append_nil, ascii_append]
        exact ⟨ascii_signText _, ascii_digits _⟩
  · simp only [hemp, ↓reduceIte]
    refine ⟨.dbl ⟨neg, ip, some (trimFrac (pad8 fp)), none⟩, by simp [Cst.text, NumTok.text, NumTok.tail], ?_, rfl, ?_⟩
    · simp only [Cst.valid, NumTok.valid, Option.isSome_some, Bool.true_or, Bool.and_true, Bool.and_eq_true,
        Bool.not_eq_true', List.isEmpty_eq_false_iff]
      exact ⟨hemp, isDigit_all _ htfd⟩
    · simp only [Cst.text, NumTok.text, NumTok.tail, List.append_nil, ascii_append, ascii_cons]
      exact ⟨⟨ascii_signText _, ascii_digits _⟩, by omega, ascii_of_digits _ htfd⟩


/-- the exponent form `d[.ddd]e+XX` is a number token -/
theorem g17_token (neg : Bool) (D X : Nat) :
    ∃ c : Cst, c.text = signText neg ++ g17Core D X ∧ c.valid = true ∧ c.depth = 0 ∧ ascii c.text := by
  obtain ⟨c, r, hdg, hc1, hc2, -⟩ := digits_head D
  have hall := digits_all D
  have hr : ∀ x ∈ r, 48 ≤ x ∧ x ≤ 57 := fun x hx => hall x (by rw [hdg]; simp [hx])
  have hfr : ∀ x ∈ trimFrac r, 48 ≤ x ∧ x ≤ 57 := fun x hx => hr x (trimFrac_mem r x hx)
  have hip : Conv.digits (c - 48) = [c] := by rw [digits_lt10 _ (by omega)]; congr 1; omega
  let xs' : Bytes := if (Conv.digits X).length < 2 then 48 :: Conv.digits X else Conv.digits X
  have hxs : ∀ x ∈ xs', 48 ≤ x ∧ x ≤ 57 := by
    intro x hx
    simp only [xs'] at hx
    split at hx
    · simp only [List.mem_cons] at hx
      rcases hx with rfl | hx
      · omega
      · exact digits_all X x hx
    · exact digits_all X x hx
  have hxne : xs' ≠ [] := by
    obtain ⟨c', r', hd', -, -, -⟩ := digits_head X
    simp only [xs']; split <;> simp [hd']
  have hcore : g17Core D X = [c] ++ (if trimFrac r = [] then [] else 46 :: trimFrac r) ++ 101 :: ([43] ++ xs') := by
    simp only [g17Core, hdg, List.drop_succ_cons, List.drop_zero, List.take_succ_cons, List.take_zero, xs']
    have : ((r.reverse.dropWhile (· = 48)).reverse) = trimFrac r := rfl
    rw [this]
    by_cases he : trimFrac r = [] <;> simp [he]
  by_cases he : trimFrac r = []
  · refine ⟨.dbl ⟨neg, c - 48, none, some (101, [43], xs')⟩, ?_, ?_, rfl, ?_⟩
    · simp [Cst.text, NumTok.text, NumTok.tail, hip, hcore, he]
    · simp [Cst.valid, NumTok.valid, hxne, isDigit_all _ hxs]
    · simp only [Cst.text, NumTok.text, NumTok.tail, hip, ascii_append, ascii_cons, ascii_nil, List.nil_append]
      exact ⟨⟨ascii_signText _, by omega, trivial⟩, by omega, ⟨by omega, trivial⟩, ascii_of_digits _ hxs⟩
  · refine ⟨.dbl ⟨neg, c - 48, some (trimFrac r), some (101, [43], xs')⟩, ?_, ?_, rfl, ?_⟩
    · simp [Cst.text, NumTok.text, NumTok.tail, hip, hcore, he]
    · simp [Cst.valid, NumTok.valid, hxne, he, isDigit_all _ hxs, isDigit_all _ hfr]
    · simp only [Cst.text, NumTok.text, NumTok.tail, hip, ascii_append, ascii_cons, ascii_nil]
      exact ⟨⟨ascii_signText _, by omega, trivial⟩, ⟨by omega, ascii_of_digits _ hfr⟩, by omega, ⟨by omega, trivial⟩,
        ascii_of_digits _ hxs⟩


theorem sgn_eq (b : Bool) : sgn b = signText b := rfl

theorem ftoaFinite_cst (neg : Bool) (N big : Nat) :
    ∃ c : Cst, c.text = ftoaFinite neg N big ∧ c.valid = true ∧ c.depth = 0 ∧ ascii (ftoaFinite neg N big) := by
  unfold ftoaFinite
  simp only [sgn_eq]
  by_cases hl : (signText neg ++ Conv.digits (N / 10 ^ 8) ++ [46] ++ pad8 (N % 10 ^ 8)).length < numbufSize
  · simp only [hl, ↓reduceIte]
    obtain ⟨c, h1, h2, h3, h4⟩ := plain_token neg (N / 10 ^ 8) (N % 10 ^ 8)
    exact ⟨c, h1, h2, h3, by rw [← h1]; exact h4⟩
  · simp only [hl, ↓reduceIte]
    unfold fmtG17
    by_cases hg : roundHalfEven big (10 ^ (ndigits big - 17)) ≥ 10 ^ 17
    · simp only [hg, ↓reduceIte]
      obtain ⟨c, h1, h2, h3, h4⟩ := g17_token neg (roundHalfEven big (10 ^ (ndigits big - 17)) / 10) (ndigits big)
      exact ⟨c, h1, h2, h3, by rw [← h1]; exact h4⟩
    · simp only [hg, ↓reduceIte]
      obtain ⟨c, h1, h2, h3, h4⟩ := g17_token neg (roundHalfEven big (10 ^ (ndigits big - 17))) (ndigits big - 1)
      exact ⟨c, h1, h2, h3, by rw [← h1]; exact h4⟩

/-- **`iwjson_ftoa` writes a JSON number.** For every finite double the text left in the buffer is an integer
    literal or a number token (1–8 fraction digits, or the exponent form), in ASCII. -/
theorem ftoa_cst (bits : Nat) (hf : finiteBits bits = true) :
    ∃ c : Cst, c.text = ftoa bits ∧ c.valid = true ∧ c.depth = 0 ∧ ascii (ftoa bits) := by
  simp only [finiteBits, ne_eq, decide_not, Bool.not_eq_true', decide_eq_false_iff_not] at hf
  unfold ftoa
  simp only [hf, ↓reduceIte]
  exact ftoaFinite_cst _ _ _


/-- round-half-even is within half a unit -/
theorem roundHalfEven_near (num den : Nat) (hd : 0 < den) :
    2 * (roundHalfEven num den * den) ≤ 2 * num + den ∧ 2 * num ≤ 2 * (roundHalfEven num den * den) + den := by
  have hdm := Nat.div_add_mod num den
  have hlt := Nat.mod_lt num hd
  unfold roundHalfEven
  generalize hq : num / den = q at *
  generalize hr : num % den = r at *
  have hqd : den * q = q * den := Nat.mul_comm _ _
  generalize hqd' : q * den = qd at *
  simp only
  by_cases hc : 2 * r > den ∨ 2 * r = den ∧ q % 2 = 1
  · simp only [hc, ↓reduceIte]; rw [Nat.add_mul, hqd']; omega
  · simp only [hc, ↓reduceIte]; rw [hqd']; omega

theorem digitVal10_mod (x : Nat) : (digitVal 10 (48 + x % 10)).getD 0 = x % 10 := by
  rw [digitVal10 _ (by omega) (by omega)]; simp

theorem pad8_value (n : Nat) : digitsVal 10 (pad8 n) = n % 10 ^ 8 := by
  have e : pad8 n = [48 + n / 10 ^ 7 % 10, 48 + n / 10 ^ 6 % 10, 48 + n / 10 ^ 5 % 10, 48 + n / 10 ^ 4 % 10,
      48 + n / 10 ^ 3 % 10, 48 + n / 10 ^ 2 % 10, 48 + n / 10 ^ 1 % 10, 48 + n / 10 ^ 0 % 10] := by
    simp [pad8, List.range, List.range.loop]
  rw [e]
  simp only [digitsVal, List.foldl_cons, List.foldl_nil, digitVal10_mod, Nat.reducePow, Nat.div_one, Nat.zero_mul,
    Nat.zero_add]
  omega

/-- the number token written for a finite double (chosen from `ftoa_cst`) -/
noncomputable def ftoaCst (b : Nat) : Cst :=
  if h : finiteBits b = true then Classical.choose (ftoa_cst b h) else .null

theorem ftoa_fmtSpec : FmtSpec ftoa ftoaCst := by
  intro b hb
  have := Classical.choose_spec (ftoa_cst b hb)
  simp only [ftoaCst, hb, ↓reduceDIte]
  exact ⟨this.1, this.2.1, this.2.2.1, this.2.2.2⟩

end IwModel.Json
