import IwModel.Model.Exf
/-! Helper lemmas about the extensible-file model: byte-list primitives, request splitting. -/
namespace IwModel.Exf
open IwModel

/-! ## pread / pwrite / ftruncate on byte lists, characterised index-wise -/

theorem length_zeros (n : Nat) : (zeros n).length = n := by simp [zeros]

theorem length_resize (f : Bytes) (n : Nat) : (resize f n).length = n := by
  simp only [resize, List.length_append, List.length_take, length_zeros]; omega

theorem getElem?_resize (f : Bytes) (n i : Nat) :
    (resize f n)[i]? = if i < n then some (f.getD i 0) else none := by
  unfold resize zeros
  by_cases h1 : i < n
  · simp only [h1, if_true]
    by_cases h2 : i < f.length
    · rw [List.getElem?_append_left (by simp [List.length_take]; omega)]
      simp [h1, h2, List.getD_eq_getElem?_getD]
    · rw [List.getElem?_append_right (by simp [List.length_take]; omega)]
      simp only [List.length_take, List.getElem?_replicate, List.getD_eq_getElem?_getD]
      rw [List.getElem?_eq_none (by omega)]
      simp; omega
  · simp only [h1, if_false]
    apply List.getElem?_eq_none
    simp [List.length_take]; omega

theorem length_readAt (f : Bytes) (off n : Nat) : (readAt f off n).length = min n (f.length - off) := by
  simp [readAt, List.length_take, List.length_drop]

theorem getElem?_readAt (f : Bytes) (off n i : Nat) :
    (readAt f off n)[i]? = if i < n then f[off + i]? else none := by
  simp only [readAt, List.getElem?_take, List.getElem?_drop]

theorem length_writeAt (f : Bytes) (off : Nat) (d : Bytes) (hd : d ≠ []) :
    (writeAt f off d).length = max f.length (off + d.length) := by
  cases d with
  | nil => exact absurd rfl hd
  | cons x xs =>
    simp only [writeAt, List.length_append, length_resize, List.length_drop, List.length_cons]; omega

theorem writeAt_nil (f : Bytes) (off : Nat) : writeAt f off [] = f := rfl

theorem getElem?_writeAt (f : Bytes) (off : Nat) (d : Bytes) (hd : d ≠ []) (i : Nat) :
    (writeAt f off d)[i]? =
      if i < off then some (f.getD i 0) else if i < off + d.length then d[i - off]? else f[i]? := by
  cases d with
  | nil => exact absurd rfl hd
  | cons x xs =>
    simp only [writeAt]
    by_cases h1 : i < off
    · simp only [h1, if_true]
      rw [List.append_assoc, List.getElem?_append_left (by rw [length_resize]; exact h1), getElem?_resize]
      simp [h1]
    · simp only [h1, if_false]
      rw [List.append_assoc, List.getElem?_append_right (by rw [length_resize]; omega), length_resize]
      by_cases h2 : i < off + (x :: xs).length
      · simp only [h2, if_true]
        rw [List.getElem?_append_left (by omega)]
      · simp only [h2, if_false]
        rw [List.getElem?_append_right (by omega), List.getElem?_drop]
        congr 1; omega

theorem readAt_add (f : Bytes) (off a b : Nat) :
    readAt f off (a + b) = readAt f off a ++ readAt f (off + a) b := by
  simp only [readAt, List.take_add, List.drop_drop]

theorem readAt_zero (f : Bytes) (off : Nat) : readAt f off 0 = [] := by simp [readAt]

/-- two adjacent `pwrite`s are one `pwrite` of the concatenation -/
theorem writeAt_writeAt_adj (f : Bytes) (a : Nat) (d1 d2 : Bytes) :
    writeAt (writeAt f a d1) (a + d1.length) d2 = writeAt f a (d1 ++ d2) := by
  by_cases h1 : d1 = []
  · subst h1; simp [writeAt_nil]
  by_cases h2 : d2 = []
  · subst h2; simp [writeAt_nil]
  have h12 : d1 ++ d2 ≠ [] := by simp [h1]
  apply List.ext_getElem?
  intro i
  rw [getElem?_writeAt _ _ _ h2, getElem?_writeAt _ _ _ h12]
  simp only [List.getD_eq_getElem?_getD, getElem?_writeAt _ _ _ h1, List.length_append]
  by_cases c1 : i < a
  · simp [c1, show i < a + d1.length by omega]
  · by_cases c2 : i < a + d1.length
    · simp only [c1, c2, if_true, if_false]
      rw [List.getElem?_append_left (by omega)]
      have : (d1[i - a]?).isSome := by simp; omega
      cases h : d1[i - a]? with
      | none => simp [h] at this
      | some v => simp; omega
    · simp only [c1, c2, if_false]
      by_cases c3 : i < a + d1.length + d2.length
      · simp only [c3, if_true, show i < a + (d1.length + d2.length) by omega]
        rw [List.getElem?_append_right (by omega)]
        congr 1; omega
      · simp [c3, show ¬ i < a + (d1.length + d2.length) by omega]

/-- what was written is read back -/
theorem readAt_writeAt_same (f : Bytes) (off : Nat) (d : Bytes) :
    readAt (writeAt f off d) off d.length = d := by
  by_cases hd : d = []
  · subst hd; simp [readAt_zero]
  apply List.ext_getElem?
  intro i
  rw [getElem?_readAt, getElem?_writeAt _ _ _ hd]
  by_cases c : i < d.length
  · simp [c, show ¬ off + i < off by omega]
  · simp only [c, if_false]; exact (List.getElem?_eq_none (by omega)).symm

/-- bytes outside the written range are untouched (for ranges inside the old file) -/
theorem readAt_writeAt_disjoint (f : Bytes) (off : Nat) (d : Bytes) (o n : Nat)
    (hin : o + n ≤ f.length) (hdis : o + n ≤ off ∨ off + d.length ≤ o) :
    readAt (writeAt f off d) o n = readAt f o n := by
  by_cases hd : d = []
  · subst hd; simp [writeAt_nil]
  apply List.ext_getElem?
  intro i
  rw [getElem?_readAt, getElem?_readAt, getElem?_writeAt _ _ _ hd]
  by_cases c : i < n
  · simp only [c, if_true]
    rcases hdis with h | h
    · simp only [show o + i < off by omega, if_true, List.getD_eq_getElem?_getD]
      rw [List.getElem?_eq_getElem (by omega)]; simp
    · simp [show ¬ o + i < off by omega, show ¬ o + i < off + d.length by omega]
  · simp [c]

/-! ## request splitting -/

/-- the pieces are contiguous from `off`, none is empty, and their lengths add up to `n` -/
def Chain : Nat → List Seg → Nat → Prop
  | _, [], n => n = 0
  | off, g :: gs, n => g.off = off ∧ 0 < g.len ∧ g.len ≤ n ∧ Chain (off + g.len) gs (n - g.len)

theorem preLen_le (s : Slot) (off n : Nat) : preLen s off n ≤ n := by
  unfold preLen; split <;> omega

theorem midLen_le (s : Slot) (off n : Nat) : midLen s off n ≤ n := by
  unfold midLen; split <;> omega

theorem midLen_pos (s : Slot) (o m : Nat) (hp : 0 < midLen s o m) :
    s.off ≤ o ∧ o + midLen s o m ≤ s.off + s.len := by
  unfold midLen at hp ⊢
  split
  · rename_i hc
    have := Nat.min_le_right m (s.off + s.len - o)
    omega
  · rename_i hc; simp [hc] at hp

theorem chain_optSeg (sl : Option Nat) (off l n : Nat) (gs : List Seg) (hl : l ≤ n)
    (h : Chain (off + l) gs (n - l)) : Chain off (optSeg sl off l ++ gs) n := by
  unfold optSeg
  by_cases h0 : l > 0
  · simp only [if_pos h0, List.cons_append, List.nil_append, Chain]
    exact ⟨trivial, h0, hl, h⟩
  · have : l = 0 := by omega
    subst this
    simpa using h

theorem segs_chain : ∀ (slots : List Slot) (k off n : Nat), Chain off (segs slots k off n) n
  | [], k, off, n => by
    have := chain_optSeg none off n n [] (Nat.le_refl n) (by simp [Chain])
    simpa [segs] using this
  | s :: rest, k, off, n => by
    unfold segs
    by_cases hn : n = 0
    · simp [hn, Chain]
    simp only [hn, if_false]
    by_cases hb : s.len = 0 ∨ off + n ≤ s.off
    · simp only [hb, if_true, Chain]
      exact ⟨trivial, by omega, Nat.le_refl n, by omega⟩
    simp only [hb, if_false]
    have h1 := preLen_le s off n
    have h2 := midLen_le s (off + preLen s off n) (n - preLen s off n)
    rw [List.append_assoc]
    apply chain_optSeg _ _ _ _ _ h1
    apply chain_optSeg _ _ _ _ _ h2
    have := segs_chain rest (k + 1) (off + preLen s off n + midLen s (off + preLen s off n) (n - preLen s off n))
      (n - preLen s off n - midLen s (off + preLen s off n) (n - preLen s off n))
    exact this

/-- every piece that goes through a window names an existing window and lies inside its mapped part -/
theorem segs_slot_ok : ∀ (slots : List Slot) (k off n : Nat) (g : Seg), g ∈ segs slots k off n →
    ∀ j, g.slot = some j → k ≤ j ∧ ∃ s, slots[j - k]? = some s ∧ s.off ≤ g.off ∧ g.off + g.len ≤ s.off + s.len
  | [], k, off, n, g => by
    intro hg j hj
    simp only [segs, optSeg] at hg
    split at hg
    · simp at hg; subst hg; simp at hj
    · simp at hg
  | s :: rest, k, off, n, g => by
    intro hg j hj
    unfold segs at hg
    by_cases hn : n = 0
    · simp [hn] at hg
    simp only [hn, if_false] at hg
    by_cases hb : s.len = 0 ∨ off + n ≤ s.off
    · simp only [hb, if_true, List.mem_singleton] at hg; subst hg; simp at hj
    simp only [hb, if_false, List.mem_append] at hg
    rcases hg with (hg | hg) | hg
    · simp only [optSeg] at hg
      split at hg
      · simp at hg; subst hg; simp at hj
      · simp at hg
    · simp only [optSeg] at hg
      split at hg
      · rename_i hpos
        simp at hg; subst hg
        simp at hj; subst hj
        have := midLen_pos s _ _ hpos
        exact ⟨Nat.le_refl _, s, by simp, this.1, this.2⟩
      · simp at hg
    · have ih := segs_slot_ok rest (k + 1) _ _ g hg j hj
      obtain ⟨hk, s', hs', h1, h2⟩ := ih
      refine ⟨by omega, s', ?_, h1, h2⟩
      have : j - k = (j - (k + 1)) + 1 := by omega
      rw [this, List.getElem?_cons_succ]; exact hs'

/-! ## shared windows: every piece reads and writes the one file -/

def AllShared (slots : List Slot) : Prop := ∀ s ∈ slots, s.priv = false

theorem set_eq_self {α : Type} (l : List α) (k : Nat) (x : α) (h : l[k]? = some x) : l.set k x = l := by
  apply List.ext_getElem?
  intro i
  rw [List.getElem?_set]
  by_cases c : k = i
  · subst c
    have hlt : k < l.length := by
      cases Nat.lt_or_ge k l.length with
      | inl h' => exact h'
      | inr h' => rw [List.getElem?_eq_none h'] at h; cases h
    rw [List.getElem?_eq_getElem hlt] at h
    simp [hlt]; exact (Option.some.inj h).symm
  · simp [c]

theorem slotRead_shared (ps : Nat) (file : Bytes) (s : Slot) (r n : Nat) (h : s.priv = false) :
    slotRead ps file s r n = readAt file (s.off + r) n := by
  simp [slotRead, h]

theorem slotWrite_shared (ps : Nat) (file : Bytes) (s : Slot) (r : Nat) (d : Bytes) (h : s.priv = false) :
    slotWrite ps file s r d = (s, writeAt file (s.off + r) d) := by
  cases d with
  | nil => simp [slotWrite, writeAt_nil]
  | cons x xs => simp [slotWrite, h]

/-- what the splitting guarantees about the window pieces of a request (from `segs_slot_ok` with `k = 0`) -/
def SlotPiecesOk (slots : List Slot) (gs : List Seg) : Prop :=
  ∀ g ∈ gs, ∀ j, g.slot = some j → ∃ s, slots[j]? = some s ∧ s.off ≤ g.off ∧ g.off + g.len ≤ s.off + s.len

theorem segs_slotPiecesOk (slots : List Slot) (off n : Nat) : SlotPiecesOk slots (segs slots 0 off n) := by
  intro g hg j hj
  obtain ⟨_, s, hs, h1, h2⟩ := segs_slot_ok slots 0 off n g hg j hj
  exact ⟨s, by simpa using hs, h1, h2⟩

theorem readSeg_shared (ps : Nat) (file : Bytes) (slots : List Slot) (g : Seg) (hs : AllShared slots)
    (hok : ∀ j, g.slot = some j → ∃ s, slots[j]? = some s ∧ s.off ≤ g.off ∧ g.off + g.len ≤ s.off + s.len) :
    readSeg ps file slots g = readAt file g.off g.len := by
  unfold readSeg
  cases hsl : g.slot with
  | none => rfl
  | some j =>
    obtain ⟨s, hsj, h1, _⟩ := hok j hsl
    simp only [hsj]
    rw [slotRead_shared _ _ _ _ _ (hs s (List.mem_of_getElem? hsj))]
    congr 1; omega

theorem flatMap_chain_readAt (file : Bytes) (R : Seg → Bytes) : ∀ (gs : List Seg) (off n : Nat),
    Chain off gs n → (∀ g ∈ gs, R g = readAt file g.off g.len) → gs.flatMap R = readAt file off n
  | [], off, n, hc, _ => by simp only [Chain] at hc; subst hc; simp [readAt_zero]
  | g :: gs, off, n, hc, hr => by
    obtain ⟨h1, h2, h3, h4⟩ := hc
    rw [List.flatMap_cons, hr g (List.mem_cons_self), flatMap_chain_readAt file R gs _ _ h4
      (fun g' hg' => hr g' (List.mem_cons_of_mem _ hg')), h1]
    have : n = g.len + (n - g.len) := by omega
    rw [this, readAt_add]
    congr 2; omega

theorem writeSeg_shared (ps : Nat) (file : Bytes) (slots : List Slot) (g : Seg) (d : Bytes) (hs : AllShared slots)
    (hok : ∀ j, g.slot = some j → ∃ s, slots[j]? = some s ∧ s.off ≤ g.off ∧ g.off + g.len ≤ s.off + s.len) :
    writeSeg ps file slots g d = (slots, writeAt file g.off d) := by
  unfold writeSeg
  cases hsl : g.slot with
  | none => rfl
  | some j =>
    obtain ⟨s, hsj, h1, _⟩ := hok j hsl
    simp only [hsj]
    rw [slotWrite_shared _ _ _ _ _ (hs s (List.mem_of_getElem? hsj))]
    simp only [set_eq_self _ _ _ hsj]
    congr 2; omega

theorem writeSegs_shared (ps : Nat) (slots : List Slot) (hs : AllShared slots) : ∀ (gs : List Seg) (off n : Nat)
    (d file : Bytes), Chain off gs n → d.length = n → SlotPiecesOk slots gs →
    writeSegs ps gs d slots file = (slots, writeAt file off d)
  | [], off, n, d, file, hc, hd, _ => by
    simp only [Chain] at hc; subst hc
    have : d = [] := List.eq_nil_of_length_eq_zero hd
    subst this; simp [writeSegs, writeAt_nil]
  | g :: gs, off, n, d, file, hc, hd, hok => by
    obtain ⟨h1, h2, h3, h4⟩ := hc
    unfold writeSegs
    rw [writeSeg_shared ps file slots g _ hs (hok g (List.mem_cons_self))]
    simp only []
    rw [writeSegs_shared ps slots hs gs (off + g.len) (n - g.len) (d.drop g.len) _ h4
      (by simp [List.length_drop, hd]) (fun g' hg' => hok g' (List.mem_cons_of_mem _ hg'))]
    have hl : (d.take g.len).length = g.len := by simp [List.length_take]; omega
    rw [h1]
    have := writeAt_writeAt_adj file off (d.take g.len) (d.drop g.len)
    rw [hl, List.take_append_drop] at this
    rw [this]

/-! ## sizes -/

theorem roundUp_ge (x ps : Nat) (hps : 0 < ps) : x ≤ roundUp x ps := by
  unfold roundUp
  have h1 := Nat.div_add_mod (x + ps - 1) ps
  have h2 := Nat.mod_lt (x + ps - 1) hps
  rw [Nat.mul_comm] at h1
  omega

theorem roundUp_mod (x ps : Nat) : roundUp x ps % ps = 0 := by
  unfold roundUp; exact Nat.mul_mod_left _ _

theorem roundUp_of_mod (x ps : Nat) (hps : 0 < ps) (h : x % ps = 0) : roundUp x ps = x := by
  unfold roundUp
  have h1 := Nat.div_add_mod x ps
  rw [h, Nat.add_zero] at h1
  have : (x + ps - 1) / ps = x / ps := by
    have e : x + ps - 1 = ps * (x / ps) + (ps - 1) := by omega
    rw [e, Nat.mul_add_div hps, Nat.div_eq_of_lt (show ps - 1 < ps by omega)]; omega
  rw [this, Nat.mul_comm]; exact h1

/-- the three outcomes of `_exfile_truncate_lw` -/
theorem truncate_cases (st : St) (size : Nat) :
    (truncate st size = (.ok, st) ∧ st.fsize = roundUp size st.psize) ∨
    (truncate st size = (.maxoff, st) ∧ st.fsize < roundUp size st.psize ∧ st.maxoff ≠ 0 ∧ roundUp size st.psize > st.maxoff) ∨
    (truncate st size = (.ok, { st with fsize := roundUp size st.psize, file := resize st.file (roundUp size st.psize),
                                        slots := remapAll (roundUp size st.psize) st.slots }) ∧
      st.fsize ≠ roundUp size st.psize ∧ (st.fsize < roundUp size st.psize → st.maxoff = 0 ∨ roundUp size st.psize ≤ st.maxoff)) := by
  unfold truncate
  simp only []
  by_cases h1 : st.fsize = roundUp size st.psize
  · left; simp [h1]
  · by_cases h2 : st.fsize < roundUp size st.psize
    · by_cases h3 : st.maxoff ≠ 0 ∧ roundUp size st.psize > st.maxoff
      · right; left; simp [h1, h2, h3]
      · right; right
        simp only [h1, h2, h3, if_false, if_true, true_and, ne_eq, not_false_eq_true]
        intro _
        by_cases hm : st.maxoff = 0
        · left; exact hm
        · right; simp only [ne_eq, hm, not_false_eq_true, true_and] at h3; omega
    · right; right
      exact ⟨by simp [h1, h2], h1, fun h => absurd h h2⟩

theorem remapAll_allShared (fsize : Nat) (slots : List Slot) (h : AllShared slots) : AllShared (remapAll fsize slots) := by
  intro s hs
  simp only [remapAll, List.mem_map] at hs
  obtain ⟨s0, hs0, rfl⟩ := hs
  have := h s0 hs0
  unfold remapSlot
  simp only []
  split
  · exact this
  · exact this

/-! ## the flat reference: one byte array, no request splitting

Same state type; `read`/`write`/`copy`/`mmapWrite` act on `file` directly.  Windows are kept only because
`add/remove` report errors about them and `copy` chooses memmove or the chunk loop by the first window. -/

def flatRead (st : St) (off : Int) (n : Nat) : Rc × Bytes :=
  if off < 0 ∨ off + n > offTMax then (.oob, [])
  else (.ok, readAt st.file off.toNat (min n (st.fsize - off.toNat)))

def flatWrite (st : St) (off : Int) (d : Bytes) : Rc × Nat × St :=
  if off < 0 ∨ off + d.length > offTMax then (.oob, 0, st)
  else if st.maxoff ≠ 0 ∧ off.toNat + d.length > st.maxoff then (.maxoff, 0, st)
  else
    let r := if off.toNat + d.length > st.fsize then ensureSize st (off.toNat + d.length) else (.ok, st)
    if r.1 ≠ .ok then (r.1, 0, r.2)
    else (.ok, d.length, { r.2 with file := writeAt r.2.file off.toNat d })

def flatCopy (st : St) (off siz noff : Nat) : Rc × St :=
  match st.slots with
  | s :: _ =>
    if s.off = 0 ∧ s.len ≥ noff + siz ∧ s.len ≥ off + siz then
      (.ok, { st with file := writeAt st.file noff (readAt st.file off siz) })
    else ((fileCopy st.cbuf st.file off siz noff).1, { st with file := (fileCopy st.cbuf st.file off siz noff).2 })
  | [] => ((fileCopy st.cbuf st.file off siz noff).1, { st with file := (fileCopy st.cbuf st.file off siz noff).2 })

def flatMmapWrite (st : St) (slotOff rel : Nat) (d : Bytes) : Rc × St :=
  match st.slots.findIdx? (fun s => s.off == slotOff) with
  | some k =>
    match st.slots[k]? with
    | some s =>
      if s.len = 0 then (.notmapped, st)
      else if rel + d.length ≤ s.len then (.ok, { st with file := writeAt st.file (s.off + rel) d })
      else (.range, st)
    | none => (.notmapped, st)
  | none => (.notmapped, st)

def flatExec (st : St) : Op → St × Rc × Bytes
  | .write off d => let r := flatWrite st off d; (r.2.2, r.1, [])
  | .read off n => let r := flatRead st off n; (st, r.1, r.2)
  | .copy off siz noff => let r := flatCopy st off siz noff; (r.2, r.1, [])
  | .mmapWrite so rel d => let r := flatMmapWrite st so rel d; (r.2, r.1, [])
  | op => exec st op

def flatRun (st : St) : List Op → St × List (Rc × Bytes)
  | [] => (st, [])
  | op :: ops =>
    let r := flatExec st op
    let r2 := flatRun r.1 ops
    (r2.1, (r.2.1, r.2.2) :: r2.2)

/-- histories that never ask for a private window -/
def Op.shared : Op → Prop
  | .addMmap _ _ priv => priv = false
  | _ => True

/-! ## refinement of the flat reference, operation by operation (shared windows) -/

theorem truncate_allShared (st : St) (size : Nat) (h : AllShared st.slots) : AllShared (truncate st size).2.slots := by
  rcases truncate_cases st size with ⟨e, _⟩ | ⟨e, _⟩ | ⟨e, _⟩ <;> rw [e]
  · exact h
  · exact h
  · exact remapAll_allShared _ _ h

theorem ensureSize_allShared (st : St) (sz : Nat) (h : AllShared st.slots) : AllShared (ensureSize st sz).2.slots := by
  unfold ensureSize
  split
  · exact h
  · simp only []
    split
    · exact h
    · split
      · split
        · exact h
        · exact truncate_allShared _ _ h
      · exact truncate_allShared _ _ h

theorem read_eq_flat (st : St) (off : Int) (n : Nat) (hs : AllShared st.slots) : read st off n = flatRead st off n := by
  unfold read flatRead
  split
  · rfl
  · simp only []
    congr 1
    have hn : (if off.toNat + n > st.fsize then st.fsize - off.toNat else n) = min n (st.fsize - off.toNat) := by
      split <;> omega
    rw [hn]
    apply flatMap_chain_readAt _ _ _ _ _ (segs_chain _ _ _ _)
    intro g hg
    exact readSeg_shared _ _ _ _ hs (segs_slotPiecesOk _ _ _ g hg)

theorem write_eq_flat (st : St) (off : Int) (d : Bytes) (hs : AllShared st.slots) : write st off d = flatWrite st off d := by
  unfold write flatWrite
  split
  · rfl
  · simp only []
    split
    · rfl
    · generalize hr : (if off.toNat + d.length > st.fsize then ensureSize st (off.toNat + d.length) else (Rc.ok, st)) = r
      have hs' : AllShared r.2.slots := by
        rw [← hr]; split
        · exact ensureSize_allShared _ _ hs
        · exact hs
      obtain ⟨rc, st1⟩ := r
      simp only []
      split
      · rfl
      · rw [writeSegs_shared st1.psize st1.slots hs' _ off.toNat d.length d st1.file (segs_chain _ _ _ _) rfl
          (segs_slotPiecesOk _ _ _)]

theorem copy_eq_flat (st : St) (off siz noff : Nat) (hs : AllShared st.slots) : copy st off siz noff = flatCopy st off siz noff := by
  obtain ⟨psize, cbuf, isOpen, fsize, file, maxoff, pol, prev, slots⟩ := st
  unfold copy flatCopy
  cases slots with
  | nil => rfl
  | cons s rest =>
    simp only []
    have hsp : s.priv = false := hs s (List.mem_cons_self)
    split
    · rename_i hc
      rw [slotRead_shared _ _ _ _ _ hsp, slotWrite_shared _ _ _ _ _ hsp]
      simp [hc.1]
    · rfl

theorem mmapWrite_eq_flat (st : St) (so rel : Nat) (d : Bytes) (hs : AllShared st.slots) :
    mmapWrite st so rel d = flatMmapWrite st so rel d := by
  unfold mmapWrite flatMmapWrite
  cases hk : st.slots.findIdx? (fun s => s.off == so) with
  | none => rfl
  | some k =>
    simp only []
    cases hsk : st.slots[k]? with
    | none => rfl
    | some s =>
      have hsp : s.priv = false := hs s (List.mem_of_getElem? hsk)
      simp only []
      by_cases h0 : s.len = 0
      · simp only [h0, if_true]
      · simp only [h0, if_false]
        by_cases h1 : rel + d.length ≤ s.len
        · simp only [h1, if_true]
          rw [slotWrite_shared _ _ _ _ _ hsp]
          simp only [set_eq_self _ _ _ hsk]
        · simp only [h1, if_false]

theorem exec_eq_flat (st : St) (op : Op) (hs : AllShared st.slots) : exec st op = flatExec st op := by
  cases op with
  | write off d => simp only [exec, flatExec, write_eq_flat _ _ _ hs]
  | read off n => simp only [exec, flatExec, read_eq_flat _ _ _ hs]
  | copy off siz noff => simp only [exec, flatExec, copy_eq_flat _ _ _ _ hs]
  | mmapWrite so rel d => simp only [exec, flatExec, mmapWrite_eq_flat _ _ _ _ hs]
  | truncate _ => rfl
  | ensure _ => rfl
  | addMmap _ _ _ => rfl
  | removeMmap _ => rfl
  | remapAll => rfl

theorem insertSlot_mem (ns : Slot) : ∀ (slots out : List Slot), insertSlot ns slots = some out →
    ∀ s ∈ out, s = ns ∨ s ∈ slots
  | [], out, h, s, hs => by
    simp only [insertSlot, Option.some.injEq] at h; subst h
    simp at hs; exact Or.inl hs
  | x :: rest, out, h, s, hs => by
    unfold insertSlot at h
    split at h
    · cases h
    · split at h
      · simp only [Option.some.injEq] at h; subst h
        simp only [List.mem_cons] at hs ⊢
        exact hs
      · cases hr : insertSlot ns rest with
        | none => simp [hr] at h
        | some out' =>
          simp only [hr, Option.map_some, Option.some.injEq] at h; subst h
          simp only [List.mem_cons] at hs ⊢
          rcases hs with hs | hs
          · exact Or.inr (Or.inl hs)
          · rcases insertSlot_mem ns rest out' hr s hs with h' | h'
            · exact Or.inl h'
            · exact Or.inr (Or.inr h')

theorem removeFirst_mem (off : Nat) : ∀ (slots out : List Slot), removeFirst off slots = some out → ∀ s ∈ out, s ∈ slots
  | [], out, h, s, hs => by simp [removeFirst] at h
  | x :: rest, out, h, s, hs => by
    unfold removeFirst at h
    split at h
    · simp only [Option.some.injEq] at h; subst h; exact List.mem_cons_of_mem _ hs
    · cases hr : removeFirst off rest with
      | none => simp [hr] at h
      | some out' =>
        simp only [hr, Option.map_some, Option.some.injEq] at h; subst h
        simp only [List.mem_cons] at hs ⊢
        rcases hs with hs | hs
        · exact Or.inl hs
        · exact Or.inr (removeFirst_mem off rest out' hr s hs)

theorem addMmap_cases (st : St) (off maxlen : Nat) (priv : Bool) :
    (addMmap st off maxlen priv).2 = st ∨
    ∃ ns out, ns.priv = priv ∧ ns.off = off ∧ ns.len = slotLen ns st.fsize ∧ insertSlot ns st.slots = some out ∧
      addMmap st off maxlen priv = (.ok, { st with slots := out }) := by
  unfold addMmap
  by_cases h1 : off % st.psize ≠ 0
  · left; simp [h1]
  · simp only [h1, if_false]
    generalize (if offTMax - off < roundUp (min maxlen (offTMax - off)) st.psize
      then roundDown (min maxlen (offTMax - off)) st.psize else roundUp (min maxlen (offTMax - off)) st.psize) = ml
    by_cases h2 : ml = 0
    · left; simp [h2]
    · simp only [h2, if_false]
      cases hins : insertSlot { off := off, maxlen := ml, len := slotLen { off := off, maxlen := ml, len := 0, priv := priv } st.fsize, priv := priv } st.slots with
      | none => left; rfl
      | some out => right; exact ⟨_, out, rfl, rfl, rfl, hins, rfl⟩

theorem addMmap_slots (st : St) (off maxlen : Nat) (priv : Bool) :
    (addMmap st off maxlen priv).2.slots = st.slots ∨
    ∃ ns out, ns.priv = priv ∧ insertSlot ns st.slots = some out ∧ (addMmap st off maxlen priv).2.slots = out := by
  rcases addMmap_cases st off maxlen priv with h | ⟨ns, out, h1, _, _, h2, h3⟩
  · left; rw [h]
  · right; exact ⟨ns, out, h1, h2, by rw [h3]⟩

theorem flatExec_allShared (st : St) (op : Op) (hs : AllShared st.slots) (hop : op.shared) :
    AllShared (flatExec st op).1.slots := by
  cases op with
  | write off d =>
    simp only [flatExec, flatWrite]
    split
    · exact hs
    · split
      · exact hs
      · generalize hr : (if off.toNat + d.length > st.fsize then ensureSize st (off.toNat + d.length) else (Rc.ok, st)) = r
        have hs' : AllShared r.2.slots := by
          rw [← hr]; split
          · exact ensureSize_allShared _ _ hs
          · exact hs
        split <;> exact hs'
  | read off n => exact hs
  | copy off siz noff =>
    simp only [flatExec, flatCopy]
    split
    · split <;> exact hs
    · exact hs
  | mmapWrite so rel d =>
    simp only [flatExec, flatMmapWrite]
    split
    · split
      · split
        · exact hs
        · split <;> exact hs
      · exact hs
    · exact hs
  | truncate size => exact truncate_allShared _ _ hs
  | ensure size => exact ensureSize_allShared _ _ hs
  | addMmap off maxlen priv =>
    simp only [Op.shared] at hop
    subst hop
    simp only [flatExec, exec]
    rcases addMmap_slots st off maxlen false with h | ⟨ns, out, hp, hins, h⟩
    · rw [h]; exact hs
    · rw [h]
      intro s hsm
      rcases insertSlot_mem _ _ _ hins s hsm with h' | h'
      · subst h'; exact hp
      · exact hs s h'
  | removeMmap off =>
    simp only [flatExec, exec, removeMmap]
    split
    · exact hs
    · rename_i out hout
      intro s hsm
      exact hs s (removeFirst_mem _ _ _ hout s hsm)
  | remapAll => exact remapAll_allShared _ _ hs

theorem run_eq_flatRun : ∀ (ops : List Op) (st : St), AllShared st.slots → (∀ op ∈ ops, op.shared) →
    run st ops = flatRun st ops
  | [], st, _, _ => rfl
  | op :: ops, st, hs, hops => by
    have he := exec_eq_flat st op hs
    have hs' := flatExec_allShared st op hs (hops op (List.mem_cons_self))
    simp only [run, flatRun, he]
    rw [run_eq_flatRun ops _ hs' (fun o ho => hops o (List.mem_cons_of_mem _ ho))]

/-! ## size invariant -/

/-- page aligned and within `maxoff` -/
def SizeInv (st : St) : Prop :=
  0 < st.psize ∧ st.fsize % st.psize = 0 ∧ (st.maxoff ≠ 0 → st.fsize ≤ st.maxoff)

/-- the part of the state the size rules talk about -/
def core (st : St) : Nat × Nat × Nat := (st.psize, st.fsize, st.maxoff)

theorem sizeInv_of_core (a b : St) (h : core a = core b) (hb : SizeInv b) : SizeInv a := by
  simp only [core, Prod.mk.injEq] at h
  obtain ⟨h1, h2, h3⟩ := h
  unfold SizeInv at *
  rw [h1, h2, h3]; exact hb

theorem truncate_sizeInv (st : St) (size : Nat) (h : SizeInv st) : SizeInv (truncate st size).2 := by
  obtain ⟨hp, ha, hm⟩ := h
  rcases truncate_cases st size with ⟨e, _⟩ | ⟨e, _⟩ | ⟨e, hne, hgrow⟩ <;> rw [e]
  · exact ⟨hp, ha, hm⟩
  · exact ⟨hp, ha, hm⟩
  · refine ⟨hp, roundUp_mod _ _, ?_⟩
    intro hmax
    simp only [] at hmax ⊢
    by_cases hlt : st.fsize < roundUp size st.psize
    · rcases hgrow hlt with h0 | h0
      · exact absurd h0 hmax
      · exact h0
    · have := hm hmax; omega

theorem ensureSize_sizeInv (st : St) (sz : Nat) (h : SizeInv st) : SizeInv (ensureSize st sz).2 := by
  unfold ensureSize
  split
  · exact h
  · simp only []
    have h' : SizeInv { st with prev := (policy st.psize st.pol st.prev sz st.fsize).2 } := h
    split
    · exact h'
    · split
      · split
        · exact h'
        · exact truncate_sizeInv _ _ h'
      · exact truncate_sizeInv _ _ h'

theorem write_core (st : St) (off : Int) (d : Bytes) :
    core (write st off d).2.2 = core st ∨ core (write st off d).2.2 = core (ensureSize st (off.toNat + d.length)).2 := by
  unfold write
  split
  · left; rfl
  · simp only []
    split
    · left; rfl
    · split
      · rename_i h
        generalize ensureSize st (off.toNat + d.length) = r
        obtain ⟨rc, st1⟩ := r
        simp only []
        split
        · right; rfl
        · right
          generalize writeSegs st1.psize (segs st1.slots 0 off.toNat d.length) d st1.slots st1.file = w
          rfl
      · simp only []
        left
        generalize writeSegs st.psize (segs st.slots 0 off.toNat d.length) d st.slots st.file = w
        rfl

theorem copy_core (st : St) (off siz noff : Nat) : core (copy st off siz noff).2 = core st := by
  unfold copy
  split
  · split
    · generalize slotWrite _ _ _ _ _ = w; rfl
    · rfl
  · rfl

theorem mmapWrite_core (st : St) (so rel : Nat) (d : Bytes) : core (mmapWrite st so rel d).2 = core st := by
  unfold mmapWrite
  split
  · split
    · split
      · rfl
      · split
        · generalize slotWrite _ _ _ _ _ = w; rfl
        · rfl
    · rfl
  · rfl

theorem addMmap_core (st : St) (off maxlen : Nat) (priv : Bool) : core (addMmap st off maxlen priv).2 = core st := by
  rcases addMmap_cases st off maxlen priv with h | ⟨ns, out, _, _, _, _, h3⟩
  · rw [h]
  · rw [h3]; rfl

theorem removeMmap_core (st : St) (off : Nat) : core (removeMmap st off).2 = core st := by
  unfold removeMmap
  split <;> rfl

theorem exec_sizeInv (st : St) (op : Op) (h : SizeInv st) : SizeInv (exec st op).1 := by
  cases op with
  | write off d =>
    simp only [exec]
    rcases write_core st off d with e | e
    · exact sizeInv_of_core _ _ e h
    · exact sizeInv_of_core _ _ e (ensureSize_sizeInv _ _ h)
  | read off n => exact h
  | copy off siz noff => exact sizeInv_of_core _ _ (copy_core _ _ _ _) h
  | mmapWrite so rel d => exact sizeInv_of_core _ _ (mmapWrite_core _ _ _ _) h
  | truncate size => exact truncate_sizeInv _ _ h
  | ensure size => exact ensureSize_sizeInv _ _ h
  | addMmap off maxlen priv => exact sizeInv_of_core _ _ (addMmap_core _ _ _ _) h
  | removeMmap off => exact sizeInv_of_core _ _ (removeMmap_core _ _) h
  | remapAll => exact h

theorem run_sizeInv : ∀ (ops : List Op) (st : St), SizeInv st → SizeInv (run st ops).1
  | [], _, h => h
  | op :: ops, st, h => by
    simp only [run]
    exact run_sizeInv ops _ (exec_sizeInv st op h)

/-! ## the file on disk has the logical size; windows have the length the size dictates -/

/-- physical size = logical size, and every window is mapped as far as the file reaches -/
def Inv (st : St) : Prop := st.file.length = st.fsize ∧ ∀ s ∈ st.slots, s.len = slotLen s st.fsize

theorem slotLen_remapSlot (fsize : Nat) (s : Slot) : (remapSlot fsize s).len = slotLen (remapSlot fsize s) fsize := by
  unfold remapSlot
  simp only []
  split
  · rename_i h; exact h.symm
  · rfl

theorem truncate_inv (st : St) (size : Nat) (h : Inv st) : Inv (truncate st size).2 := by
  rcases truncate_cases st size with ⟨e, _⟩ | ⟨e, _⟩ | ⟨e, _⟩ <;> rw [e]
  · exact h
  · exact h
  · refine ⟨length_resize _ _, ?_⟩
    intro s hs
    simp only [remapAll, List.mem_map] at hs
    obtain ⟨s0, _, rfl⟩ := hs
    exact slotLen_remapSlot _ _

theorem ensureSize_inv (st : St) (sz : Nat) (h : Inv st) : Inv (ensureSize st sz).2 := by
  unfold ensureSize
  split
  · exact h
  · simp only []
    have h' : Inv { st with prev := (policy st.psize st.pol st.prev sz st.fsize).2 } := h
    split
    · exact h'
    · split
      · split
        · exact h'
        · exact truncate_inv _ _ h'
      · exact truncate_inv _ _ h'

/-- the outcomes of `_exfile_ensure_size_lw` -/
theorem ensureSize_cases (st : St) (sz : Nat) :
    (st.fsize ≥ sz ∧ ensureSize st sz = (.ok, st)) ∨
    (st.fsize < sz ∧
      (ensureSize st sz = (.policy, { st with prev := (policy st.psize st.pol st.prev sz st.fsize).2 }) ∨
       ensureSize st sz = (.maxoff, { st with prev := (policy st.psize st.pol st.prev sz st.fsize).2 }) ∨
       ∃ T, sz ≤ T ∧ ensureSize st sz = truncate { st with prev := (policy st.psize st.pol st.prev sz st.fsize).2 } T ∧
         T = (if st.maxoff ≠ 0 ∧ (policy st.psize st.pol st.prev sz st.fsize).1 > st.maxoff then st.maxoff
              else (policy st.psize st.pol st.prev sz st.fsize).1) ∧
         (policy st.psize st.pol st.prev sz st.fsize).1 % st.psize = 0)) := by
  unfold ensureSize
  by_cases h0 : st.fsize ≥ sz
  · left; simp [h0]
  · right
    refine ⟨by omega, ?_⟩
    simp only [h0, if_false]
    by_cases hc : (policy st.psize st.pol st.prev sz st.fsize).1 < sz ∨ (policy st.psize st.pol st.prev sz st.fsize).1 % st.psize ≠ 0
    · left; simp only [hc, if_true]
    · simp only [hc, if_false]
      split
      · rename_i hm
        split
        · right; left; rfl
        · rename_i hlt; right; right
          exact ⟨st.maxoff, by omega, rfl, rfl, by omega⟩
      · rename_i hm
        right; right
        exact ⟨_, by omega, rfl, rfl, by omega⟩

/-- a successful `ensure_size` makes room -/
theorem ensureSize_ok_ge (st : St) (sz : Nat) (hp : 0 < st.psize) (h : (ensureSize st sz).1 = .ok) :
    sz ≤ (ensureSize st sz).2.fsize := by
  rcases ensureSize_cases st sz with ⟨h0, e⟩ | ⟨h0, e | e | ⟨T, hT, e, _, _⟩⟩
  · rw [e]; exact h0
  · rw [e] at h; cases h
  · rw [e] at h; cases h
  · rw [e] at h ⊢
    rcases truncate_cases { st with prev := (policy st.psize st.pol st.prev sz st.fsize).2 } T with
      ⟨e2, he⟩ | ⟨e2, _⟩ | ⟨e2, _⟩
    · rw [e2]; simp only [] at he ⊢
      have := roundUp_ge T st.psize hp; omega
    · rw [e2] at h; cases h
    · rw [e2]; simp only []
      have := roundUp_ge T st.psize hp; omega

/-- `ensure_size` never shrinks, and keeps every byte below the old size; new bytes are zero -/
theorem ensureSize_file (st : St) (sz : Nat) (hp : 0 < st.psize) (hi : Inv st) :
    st.fsize ≤ (ensureSize st sz).2.fsize ∧ (ensureSize st sz).2.file = resize st.file (ensureSize st sz).2.fsize := by
  have keep : st.fsize ≤ st.fsize ∧ st.file = resize st.file st.fsize := by
    refine ⟨Nat.le_refl _, ?_⟩
    unfold resize; rw [← hi.1]; simp [zeros]
  rcases ensureSize_cases st sz with ⟨h0, e⟩ | ⟨h0, e | e | ⟨T, hT, e, _, _⟩⟩
  · rw [e]; exact keep
  · rw [e]; exact keep
  · rw [e]; exact keep
  · rw [e]
    rcases truncate_cases { st with prev := (policy st.psize st.pol st.prev sz st.fsize).2 } T with
      ⟨e2, _⟩ | ⟨e2, _⟩ | ⟨e2, _⟩ <;> rw [e2]
    · exact keep
    · exact keep
    · have := roundUp_ge T st.psize hp
      refine ⟨?_, ?_⟩
      · show st.fsize ≤ roundUp T st.psize
        omega
      · rfl

theorem readAt_resize (f : Bytes) (S o n : Nat) (h : o + n ≤ f.length) (hS : f.length ≤ S) :
    readAt (resize f S) o n = readAt f o n := by
  apply List.ext_getElem?
  intro i
  rw [getElem?_readAt, getElem?_readAt, getElem?_resize]
  by_cases c : i < n
  · simp only [c, if_true, show o + i < S by omega, List.getD_eq_getElem?_getD]
    rw [List.getElem?_eq_getElem (by omega)]; simp
  · simp [c]

/-- bytes exposed by growth are zero -/
theorem readAt_resize_fresh (f : Bytes) (S o n : Nat) (h : f.length ≤ o) (hS : o + n ≤ S) :
    readAt (resize f S) o n = zeros n := by
  apply List.ext_getElem?
  intro i
  rw [getElem?_readAt, getElem?_resize]
  unfold zeros
  rw [List.getElem?_replicate]
  by_cases c : i < n
  · simp only [c, if_true, show o + i < S by omega, List.getD_eq_getElem?_getD]
    rw [List.getElem?_eq_none (by omega)]; simp
  · simp [c]

/-! ## read-after-write on the flat reference -/

/-- shape of a successful flat write -/
theorem flatWrite_ok (st st' : St) (off : Int) (d : Bytes) (sp : Nat) (h : flatWrite st off d = (.ok, sp, st')) :
    0 ≤ off ∧ off + d.length ≤ offTMax ∧ sp = d.length ∧
    ∃ st1, ((st1 = st ∧ off.toNat + d.length ≤ st.fsize) ∨
            (st1 = (ensureSize st (off.toNat + d.length)).2 ∧ (ensureSize st (off.toNat + d.length)).1 = .ok ∧
              st.fsize < off.toNat + d.length)) ∧
      st' = { st1 with file := writeAt st1.file off.toNat d } := by
  unfold flatWrite at h
  by_cases hb : off < 0 ∨ off + d.length > offTMax
  · rw [if_pos hb] at h; cases h
  rw [if_neg hb] at h
  by_cases hm : st.maxoff ≠ 0 ∧ off.toNat + d.length > st.maxoff
  · rw [if_pos hm] at h; cases h
  rw [if_neg hm] at h
  simp only [] at h
  by_cases hg : off.toNat + d.length > st.fsize
  · simp only [hg, if_true] at h
    by_cases hok : (ensureSize st (off.toNat + d.length)).1 = .ok
    · simp only [hok, ne_eq, not_true_eq_false, if_false, Prod.mk.injEq, true_and] at h
      exact ⟨by omega, by omega, h.1.symm, _, Or.inr ⟨rfl, hok, hg⟩, h.2.symm⟩
    · rw [if_pos hok] at h
      simp only [Prod.mk.injEq] at h
      exact absurd h.1 hok
  · simp only [hg, if_false, ne_eq, not_true_eq_false, Prod.mk.injEq, true_and] at h
    exact ⟨by omega, by omega, h.1.symm, _, Or.inl ⟨rfl, by omega⟩, h.2.symm⟩

theorem flatRead_after_flatWrite (st st' : St) (off : Int) (d : Bytes) (sp : Nat) (hp : 0 < st.psize)
    (h : flatWrite st off d = (.ok, sp, st')) : flatRead st' off d.length = (.ok, d) := by
  obtain ⟨h0, h1, _, st1, hst1, rfl⟩ := flatWrite_ok st st' off d sp h
  have hsz : off.toNat + d.length ≤ st1.fsize := by
    rcases hst1 with ⟨rfl, h⟩ | ⟨rfl, hok, _⟩
    · exact h
    · exact ensureSize_ok_ge _ _ hp hok
  unfold flatRead
  rw [if_neg (by omega)]
  simp only []
  rw [show min d.length (st1.fsize - off.toNat) = d.length by omega, readAt_writeAt_same]

/-- a successful write leaves every other byte below the old size as it was -/
theorem flatRead_other_after_flatWrite (st st' : St) (off : Int) (d : Bytes) (sp : Nat) (hp : 0 < st.psize) (hi : Inv st)
    (h : flatWrite st off d = (.ok, sp, st')) (o n : Nat) (hin : o + n ≤ st.fsize)
    (hdis : o + n ≤ off.toNat ∨ off.toNat + d.length ≤ o) :
    flatRead st' o n = flatRead st o n := by
  obtain ⟨h0, h1, _, st1, hst1, rfl⟩ := flatWrite_ok st st' off d sp h
  have hfile : st.fsize ≤ st1.fsize ∧ st1.file = resize st.file st1.fsize := by
    rcases hst1 with ⟨rfl, _⟩ | ⟨rfl, _, _⟩
    · refine ⟨Nat.le_refl _, ?_⟩
      unfold resize; rw [← hi.1]; simp [zeros]
    · exact ensureSize_file _ _ hp hi
  unfold flatRead
  simp only []
  split
  · rfl
  · congr 1
    simp only [Int.toNat_natCast]
    rw [show min n (st1.fsize - o) = n by omega, show min n (st.fsize - o) = n by omega]
    have hlen : (resize st.file st1.fsize).length = st1.fsize := length_resize _ _
    rw [readAt_writeAt_disjoint _ _ _ _ _ (by rw [hfile.2, hlen]; omega) hdis, hfile.2,
      readAt_resize _ _ _ _ (by rw [hi.1]; exact hin) (by rw [hi.1]; exact hfile.1)]

/-- bytes between the old and the new size that the write did not cover read as zero -/
theorem flatRead_fresh_after_flatWrite (st st' : St) (off : Int) (d : Bytes) (sp : Nat) (hp : 0 < st.psize) (hi : Inv st)
    (h : flatWrite st off d = (.ok, sp, st')) (o n : Nat) (hlo : st.fsize ≤ o) (hhi : o + n ≤ st'.fsize)
    (hb : (o : Int) + n ≤ offTMax) (hdis : o + n ≤ off.toNat ∨ off.toNat + d.length ≤ o) :
    flatRead st' o n = (.ok, zeros n) := by
  obtain ⟨h0, h1, _, st1, hst1, rfl⟩ := flatWrite_ok st st' off d sp h
  have hfile : st.fsize ≤ st1.fsize ∧ st1.file = resize st.file st1.fsize := by
    rcases hst1 with ⟨rfl, _⟩ | ⟨rfl, _, _⟩
    · refine ⟨Nat.le_refl _, ?_⟩
      unfold resize; rw [← hi.1]; simp [zeros]
    · exact ensureSize_file _ _ hp hi
  simp only [] at hhi
  unfold flatRead
  simp only []
  rw [if_neg (by omega)]
  congr 1
  rw [show min n (st1.fsize - (o : Int).toNat) = n by simp; omega]
  simp only [Int.toNat_natCast]
  have hlen : (resize st.file st1.fsize).length = st1.fsize := length_resize _ _
  rw [readAt_writeAt_disjoint _ _ _ _ _ (by rw [hfile.2, hlen]; omega) hdis, hfile.2,
    readAt_resize_fresh _ _ _ _ (by rw [hi.1]; exact hlo) hhi]

/-! ## the invariant along flat histories whose copies stay inside the file -/

theorem length_writeAt_inside (f : Bytes) (off : Nat) (d : Bytes) (h : off + d.length ≤ f.length) :
    (writeAt f off d).length = f.length := by
  by_cases hd : d = []
  · subst hd; rfl
  · rw [length_writeAt _ _ _ hd]; omega

theorem copyLoop_length (cbuf : Nat) : ∀ (fuel : Nat) (file : Bytes) (off siz noff pos : Nat),
    noff + siz ≤ file.length → (copyLoop cbuf fuel file off siz noff pos).length = file.length
  | 0, file, _, _, _, _, _ => rfl
  | fuel + 1, file, off, siz, noff, pos, h => by
    unfold copyLoop
    split
    · rename_i hlt
      simp only []
      split
      · rfl
      · have hl : (readAt file (off + pos) (min cbuf (siz - pos))).length ≤ siz - pos := by
          rw [length_readAt]; omega
        have hw := length_writeAt_inside file (noff + pos) (readAt file (off + pos) (min cbuf (siz - pos))) (by omega)
        rw [copyLoop_length cbuf fuel _ off siz noff _ (by rw [hw]; exact h), hw]
    · rfl

theorem flatCopy_inv (st : St) (off siz noff : Nat) (hi : Inv st) (hin : noff + siz ≤ st.fsize) :
    Inv (flatCopy st off siz noff).2 := by
  have hf : ((fileCopy st.cbuf st.file off siz noff).2).length = st.file.length := by
    unfold fileCopy
    split
    · rfl
    · exact copyLoop_length _ _ _ _ _ _ _ (by rw [hi.1]; exact hin)
  unfold flatCopy
  split
  · split
    · refine ⟨?_, hi.2⟩
      show (writeAt st.file noff (readAt st.file off siz)).length = st.fsize
      rw [length_writeAt_inside _ _ _ (by rw [length_readAt, hi.1]; omega)]; exact hi.1
    · exact ⟨by show ((fileCopy st.cbuf st.file off siz noff).2).length = st.fsize; rw [hf]; exact hi.1, hi.2⟩
  · exact ⟨by show ((fileCopy st.cbuf st.file off siz noff).2).length = st.fsize; rw [hf]; exact hi.1, hi.2⟩

theorem flatWrite_inv (st : St) (off : Int) (d : Bytes) (hp : 0 < st.psize) (hi : Inv st) : Inv (flatWrite st off d).2.2 := by
  unfold flatWrite
  split
  · exact hi
  · split
    · exact hi
    · simp only []
      generalize hr : (if off.toNat + d.length > st.fsize then ensureSize st (off.toNat + d.length) else (Rc.ok, st)) = r
      have hri : Inv r.2 ∧ (r.1 = .ok → off.toNat + d.length ≤ r.2.fsize) := by
        rw [← hr]; split
        · exact ⟨ensureSize_inv _ _ hi, ensureSize_ok_ge _ _ hp⟩
        · exact ⟨hi, fun _ => by show off.toNat + d.length ≤ st.fsize; omega⟩
      split
      · exact hri.1
      · rename_i hok
        have hok' : r.1 = .ok := by simpa using hok
        refine ⟨?_, hri.1.2⟩
        show (writeAt r.2.file off.toNat d).length = r.2.fsize
        rw [length_writeAt_inside _ _ _ (by rw [hri.1.1]; exact hri.2 hok')]; exact hri.1.1

theorem slotLen_le (s : Slot) (fsize : Nat) : s.off + slotLen s fsize ≤ fsize ∨ slotLen s fsize = 0 := by
  unfold slotLen
  split
  · right; rfl
  · left; omega

theorem flatMmapWrite_inv (st : St) (so rel : Nat) (d : Bytes) (hi : Inv st) : Inv (flatMmapWrite st so rel d).2 := by
  unfold flatMmapWrite
  cases hk : st.slots.findIdx? (fun s => s.off == so) with
  | none => exact hi
  | some k =>
    simp only []
    cases hsk : st.slots[k]? with
    | none => exact hi
    | some s =>
      simp only []
      have hlen := hi.2 s (List.mem_of_getElem? hsk)
      split
      · exact hi
      · rename_i h0
        split
        · rename_i h1
          refine ⟨?_, hi.2⟩
          show (writeAt st.file (s.off + rel) d).length = st.fsize
          have := slotLen_le s st.fsize
          rw [length_writeAt_inside _ _ _ (by rw [hi.1]; omega)]; exact hi.1
        · exact hi

/-- copies whose destination lies inside the logical size at the time of the call -/
def CopiesInside : St → List Op → Prop
  | _, [] => True
  | st, op :: ops =>
    (match op with
     | .copy _ siz noff => noff + siz ≤ st.fsize
     | _ => True) ∧ CopiesInside (flatExec st op).1 ops

theorem flatExec_psize (st : St) (op : Op) (hs : AllShared st.slots) : (flatExec st op).1.psize = st.psize := by
  have h1 : core (exec st op).1 = core st ∨ ∃ sz, core (exec st op).1 = core (ensureSize st sz).2 ∨
      core (exec st op).1 = core (truncate st sz).2 := by
    cases op with
    | write off d =>
      rcases write_core st off d with e | e
      · exact Or.inl e
      · exact Or.inr ⟨_, Or.inl e⟩
    | read off n => exact Or.inl rfl
    | copy off siz noff => exact Or.inl (copy_core _ _ _ _)
    | mmapWrite so rel d => exact Or.inl (mmapWrite_core _ _ _ _)
    | truncate size => exact Or.inr ⟨size, Or.inr rfl⟩
    | ensure size => exact Or.inr ⟨size, Or.inl rfl⟩
    | addMmap off maxlen priv => exact Or.inl (addMmap_core _ _ _ _)
    | removeMmap off => exact Or.inl (removeMmap_core _ _)
    | remapAll => exact Or.inl rfl
  have ht : ∀ (s0 : St) sz, (truncate s0 sz).2.psize = s0.psize := by
    intro s0 sz
    rcases truncate_cases s0 sz with ⟨e, _⟩ | ⟨e, _⟩ | ⟨e, _⟩ <;> rw [e]
  have he : ∀ sz, (ensureSize st sz).2.psize = st.psize := by
    intro sz
    rcases ensureSize_cases st sz with ⟨_, e⟩ | ⟨_, e | e | ⟨T, _, e, _, _⟩⟩ <;> rw [e]
    exact ht _ _
  rw [← exec_eq_flat st op hs]
  rcases h1 with e | ⟨sz, e | e⟩
  · simp only [core, Prod.mk.injEq] at e; exact e.1
  · simp only [core, Prod.mk.injEq] at e; rw [e.1]; exact he sz
  · simp only [core, Prod.mk.injEq] at e; rw [e.1]; exact ht st sz

theorem flatExec_inv (st : St) (op : Op) (hp : 0 < st.psize) (hi : Inv st)
    (hc : match op with | .copy _ siz noff => noff + siz ≤ st.fsize | _ => True) : Inv (flatExec st op).1 := by
  cases op with
  | write off d => exact flatWrite_inv _ _ _ hp hi
  | read off n => exact hi
  | copy off siz noff => exact flatCopy_inv _ _ _ _ hi hc
  | mmapWrite so rel d => exact flatMmapWrite_inv _ _ _ _ hi
  | truncate size => exact truncate_inv _ _ hi
  | ensure size => exact ensureSize_inv _ _ hi
  | addMmap off maxlen priv =>
    simp only [flatExec, exec]
    rcases addMmap_cases st off maxlen priv with h | ⟨ns, out, _, _, hlen, hins, h⟩
    · rw [h]; exact hi
    · rw [h]
      refine ⟨hi.1, ?_⟩
      intro s hs
      rcases insertSlot_mem _ _ _ hins s hs with h' | h'
      · subst h'; exact hlen
      · exact hi.2 s h'
  | removeMmap off =>
    simp only [flatExec, exec, removeMmap]
    split
    · exact hi
    · rename_i out hout
      exact ⟨hi.1, fun s hs => hi.2 s (removeFirst_mem _ _ _ hout s hs)⟩
  | remapAll =>
    refine ⟨hi.1, ?_⟩
    intro s hs
    simp only [flatExec, exec, remapAll, List.mem_map] at hs
    obtain ⟨s0, _, rfl⟩ := hs
    exact slotLen_remapSlot _ _

theorem flatRun_inv : ∀ (ops : List Op) (st : St), 0 < st.psize → AllShared st.slots → (∀ op ∈ ops, op.shared) →
    Inv st → CopiesInside st ops → Inv (flatRun st ops).1
  | [], _, _, _, _, hi, _ => hi
  | op :: ops, st, hp, hs, hops, hi, hc => by
    simp only [flatRun]
    exact flatRun_inv ops _ (by rw [flatExec_psize st op hs]; exact hp)
      (flatExec_allShared st op hs (hops op (List.mem_cons_self)))
      (fun o ho => hops o (List.mem_cons_of_mem _ ho)) (flatExec_inv st op hp hi hc.1) hc.2

/-! ## private windows: page-granular copy-on-write -/

theorem cowPage_mem (ps : Nat) (file : Bytes) (s : Slot) (p q : Nat) :
    q ∈ (cowPage ps file s p).cow ↔ q = p ∨ q ∈ s.cow := by
  unfold cowPage
  split
  · rename_i h
    have hp : p ∈ s.cow := by simpa using h
    constructor
    · intro h'; exact Or.inr h'
    · rintro (rfl | h')
      · exact hp
      · exact h'
  · simp

theorem cowFold_mem (ps : Nat) (file : Bytes) (p0 : Nat) : ∀ (cnt : Nat) (s : Slot) (q : Nat),
    q ∈ ((List.range cnt).foldl (fun s k => cowPage ps file s (p0 + k)) s).cow ↔ (p0 ≤ q ∧ q < p0 + cnt) ∨ q ∈ s.cow
  | 0, s, q => by
    simp only [List.range_zero, List.foldl_nil, Nat.add_zero]
    constructor
    · intro h; exact Or.inr h
    · rintro (h | h)
      · omega
      · exact h
  | cnt + 1, s, q => by
    rw [List.range_succ, List.foldl_append]
    simp only [List.foldl_cons, List.foldl_nil]
    rw [cowPage_mem, cowFold_mem ps file p0 cnt s q]
    constructor
    · rintro (h | h | h)
      · left; omega
      · left; omega
      · right; exact h
    · rintro (h | h)
      · by_cases hq : q = p0 + cnt
        · left; exact hq
        · right; left; omega
      · right; right; exact h

theorem cowPage_geom (ps : Nat) (file : Bytes) (s : Slot) (p : Nat) :
    (cowPage ps file s p).off = s.off ∧ (cowPage ps file s p).len = s.len ∧ (cowPage ps file s p).priv = s.priv
      ∧ (cowPage ps file s p).maxlen = s.maxlen := by
  unfold cowPage; split <;> simp

theorem cowFold_geom (ps : Nat) (file : Bytes) (p0 : Nat) : ∀ (cnt : Nat) (s : Slot),
    let s1 := (List.range cnt).foldl (fun s k => cowPage ps file s (p0 + k)) s
    s1.off = s.off ∧ s1.len = s.len ∧ s1.priv = s.priv ∧ s1.maxlen = s.maxlen
  | 0, s => by simp
  | cnt + 1, s => by
    simp only [List.range_succ, List.foldl_append, List.foldl_cons, List.foldl_nil]
    have h1 := cowFold_geom ps file p0 cnt s
    have h2 := cowPage_geom ps file ((List.range cnt).foldl (fun s k => cowPage ps file s (p0 + k)) s) (p0 + cnt)
    simp only [] at h1
    exact ⟨h2.1.trans h1.1, h2.2.1.trans h1.2.1, h2.2.2.1.trans h1.2.2.1, h2.2.2.2.trans h1.2.2.2⟩

theorem map_range_getD (d : Bytes) : (List.range d.length).map (fun k => d.getD k 0) = d := by
  apply List.ext_getElem?
  intro i
  simp only [List.getElem?_map, List.getD_eq_getElem?_getD]
  by_cases h : i < d.length
  · simp [h]
  · simp [h]

/-- what is stored through a window (private or shared) is what the window shows afterwards -/
theorem slotRead_slotWrite_same (ps : Nat) (file : Bytes) (s : Slot) (r : Nat) (d : Bytes) :
    slotRead ps (slotWrite ps file s r d).2 (slotWrite ps file s r d).1 r d.length = d := by
  cases hd : d with
  | nil => simp [slotWrite, slotRead, readAt_zero]
  | cons x xs =>
    rw [← hd]
    have hne : d ≠ [] := by rw [hd]; simp
    by_cases hp : s.priv = true
    · have hw : slotWrite ps file s r d =
          ({ (List.range ((r + d.length - 1) / ps + 1 - r / ps)).foldl (fun s k => cowPage ps file s (r / ps + k)) s with
              ovl := writeAt ((List.range ((r + d.length - 1) / ps + 1 - r / ps)).foldl (fun s k => cowPage ps file s (r / ps + k)) s).ovl r d }, file) := by
        rw [hd]; simp [slotWrite, hp]
      rw [hw]
      have hg := cowFold_geom ps file (r / ps) ((r + d.length - 1) / ps + 1 - r / ps) s
      simp only [] at hg
      unfold slotRead
      simp only [hg.2.2.1, hp, if_true]
      conv => rhs; rw [← map_range_getD d]
      apply List.map_congr_left
      intro k hk
      have hk' : k < d.length := by simpa using hk
      have hin : (r + k) / ps ∈ ((List.range ((r + d.length - 1) / ps + 1 - r / ps)).foldl (fun s k => cowPage ps file s (r / ps + k)) s).cow := by
        rw [cowFold_mem]
        left
        have h1 : r / ps ≤ (r + k) / ps := Nat.div_le_div_right (by omega)
        have h2 : (r + k) / ps ≤ (r + d.length - 1) / ps := Nat.div_le_div_right (by omega)
        omega
      simp only [List.contains_iff_mem, hin, if_true]
      simp only [Array.getD_eq_getD_getElem?, List.getElem?_toArray, List.getD_eq_getElem?_getD, getElem?_writeAt _ _ _ hne]
      simp [show ¬ r + k < r by omega, show r + k < r + d.length by omega]
    · have hp' : s.priv = false := by simpa using hp
      rw [slotWrite_shared _ _ _ _ _ hp']
      simp only []
      rw [slotRead_shared _ _ _ _ _ hp', readAt_writeAt_same]

theorem slotWrite_geom (ps : Nat) (file : Bytes) (s : Slot) (r : Nat) (d : Bytes) :
    (slotWrite ps file s r d).1.off = s.off ∧ (slotWrite ps file s r d).1.len = s.len := by
  cases d with
  | nil => simp [slotWrite]
  | cons x xs =>
    by_cases hp : s.priv = true
    · have hg := cowFold_geom ps file (r / ps) ((r + (x :: xs).length - 1) / ps + 1 - r / ps) s
      simp only [] at hg
      simp only [slotWrite, hp, if_true]
      exact ⟨hg.1, hg.2.1⟩
    · have hp' : s.priv = false := by simpa using hp
      rw [slotWrite_shared _ _ _ _ _ hp']; exact ⟨rfl, rfl⟩

/-- a request that lies inside the mapped part of the first window is one piece through that window -/
theorem segs_inside_first (s : Slot) (rest : List Slot) (off n : Nat) (hn : 0 < n) (h1 : s.off ≤ off)
    (h2 : off + n ≤ s.off + s.len) : segs (s :: rest) 0 off n = [⟨some 0, off, n⟩] := by
  have hpre : preLen s off n = 0 := by unfold preLen; rw [if_neg (by omega)]
  have hmid : midLen s off n = n := by
    unfold midLen; rw [if_pos ⟨hn, h1, by omega⟩]; omega
  have htail : ∀ k o, segs rest k o 0 = [] := by
    intro k o; cases rest with
    | nil => simp [segs, optSeg]
    | cons a b => simp [segs]
  unfold segs
  rw [if_neg (by omega), if_neg (by omega)]
  simp only [hpre, Nat.add_zero, Nat.sub_zero, hmid, Nat.sub_self, htail, optSeg]
  simp [hn]

/-- write inside the first window without growth, then read the same range -/
theorem write_read_first_window (st : St) (s : Slot) (rest : List Slot) (off : Nat) (d : Bytes)
    (hsl : st.slots = s :: rest) (hd : d ≠ []) (hb : (off : Int) + d.length ≤ offTMax)
    (h1 : s.off ≤ off) (h2 : off + d.length ≤ s.off + s.len) (hfs : off + d.length ≤ st.fsize)
    (hmax : st.maxoff = 0 ∨ off + d.length ≤ st.maxoff) :
    (write st off d).1 = .ok ∧ (write st off d).2.1 = d.length ∧
      read (write st off d).2.2 off d.length = (.ok, d) := by
  have hn : 0 < d.length := List.length_pos_iff.mpr hd
  have hw : write st off d = (.ok, d.length,
      { st with slots := (slotWrite st.psize st.file s (off - s.off) d).1 :: rest,
                file := (slotWrite st.psize st.file s (off - s.off) d).2 }) := by
    unfold write
    rw [if_neg (by omega)]
    simp only [Int.toNat_natCast]
    rw [if_neg (by intro ⟨hm0, hgt⟩; rcases hmax with h | h; exact hm0 h; omega)]
    simp only [show ¬ (off + d.length > st.fsize) by omega, if_false, ne_eq, not_true_eq_false]
    rw [hsl, segs_inside_first s rest off d.length hn h1 h2]
    simp only [writeSegs, writeSeg, List.getElem?_cons_zero, List.take_length, List.set_cons_zero]
  rw [hw]
  refine ⟨rfl, rfl, ?_⟩
  have hg := slotWrite_geom st.psize st.file s (off - s.off) d
  unfold read
  rw [if_neg (by omega)]
  simp only [Int.toNat_natCast]
  rw [if_neg (by omega), segs_inside_first _ rest off d.length hn (by rw [hg.1]; exact h1) (by rw [hg.1, hg.2]; exact h2)]
  simp only [List.flatMap_cons, List.flatMap_nil, List.append_nil, readSeg, List.getElem?_cons_zero, hg.1]
  rw [slotRead_slotWrite_same]

/-! ## the chunk loop of iwp_copy_bytes is memmove -/

theorem length_writeAt_ge (f : Bytes) (off : Nat) (d : Bytes) : f.length ≤ (writeAt f off d).length := by
  by_cases hd : d = []
  · subst hd; exact Nat.le_refl _
  · rw [length_writeAt _ _ _ hd]; omega

/-- the chunk loop of `iwp_copy_bytes` is one `memmove` when the source lies in the file and the destination
    does not start inside the source (the case the code accepts) -/
theorem copyLoop_eq (cbuf : Nat) (hc : 0 < cbuf) (off siz noff : Nat) : ∀ (fuel : Nat) (F : Bytes) (pos : Nat),
    siz - pos ≤ fuel → pos ≤ siz → off + siz ≤ F.length → (noff ≤ off ∨ off + siz ≤ noff + pos) →
    copyLoop cbuf fuel F off siz noff pos = writeAt F (noff + pos) (readAt F (off + pos) (siz - pos))
  | 0, F, pos, hf, hp, _, _ => by
    have : siz - pos = 0 := by omega
    simp [copyLoop, this, readAt_zero, writeAt_nil]
  | fuel + 1, F, pos, hf, hp, hlen, hdis => by
    unfold copyLoop
    by_cases hlt : pos < siz
    · simp only [hlt, if_true]
      have hm : (readAt F (off + pos) (min cbuf (siz - pos))).length = min cbuf (siz - pos) := by
        rw [length_readAt]; omega
      have hm0 : 0 < min cbuf (siz - pos) := by omega
      rw [if_neg (by omega)]
      rw [hm]
      have hlen' : off + siz ≤ (writeAt F (noff + pos) (readAt F (off + pos) (min cbuf (siz - pos)))).length :=
        Nat.le_trans hlen (length_writeAt_ge _ _ _)
      rw [copyLoop_eq cbuf hc off siz noff fuel _ (pos + min cbuf (siz - pos)) (by omega) (by omega) hlen' (by omega)]
      rw [readAt_writeAt_disjoint _ _ _ _ _ (by omega) (by rw [hm]; omega)]
      have hadj := writeAt_writeAt_adj F (noff + pos) (readAt F (off + pos) (min cbuf (siz - pos)))
        (readAt F (off + (pos + min cbuf (siz - pos))) (siz - (pos + min cbuf (siz - pos))))
      rw [hm] at hadj
      rw [show noff + (pos + min cbuf (siz - pos)) = noff + pos + min cbuf (siz - pos) by omega, hadj]
      congr 1
      rw [show off + (pos + min cbuf (siz - pos)) = off + pos + min cbuf (siz - pos) by omega, ← readAt_add]
      congr 1; omega
    · have : siz - pos = 0 := by omega
      simp [hlt, this, readAt_zero, writeAt_nil]

theorem rangesOverlap_forward (off siz noff : Nat) (h : noff ≤ off ∨ off + siz ≤ noff) :
    (rangesOverlap off (off + siz) noff (noff + siz) && decide (noff > off)) = false := by
  unfold rangesOverlap
  rcases h with h | h
  · simp; omega
  · by_cases hs : siz = 0
    · subst hs; simp; omega
    · simp; omega

theorem fileCopy_eq_memmove (cbuf : Nat) (hc : 0 < cbuf) (F : Bytes) (off siz noff : Nat) (hlen : off + siz ≤ F.length)
    (h : noff ≤ off ∨ off + siz ≤ noff) :
    fileCopy cbuf F off siz noff = (.ok, writeAt F noff (readAt F off siz)) := by
  unfold fileCopy
  rw [rangesOverlap_forward off siz noff h]
  simp only [Bool.false_eq_true, if_false]
  rw [copyLoop_eq cbuf hc off siz noff siz F 0 (by omega) (by omega) hlen (by omega)]
  simp

theorem fileCopy_forward (cbuf : Nat) (F : Bytes) (off siz noff : Nat) (h1 : off < noff) (h2 : noff < off + siz) :
    fileCopy cbuf F off siz noff = (.overflow, F) := by
  unfold fileCopy rangesOverlap
  have h3 : decide (off + siz > noff) = true := by simp; omega
  have h4 : decide (off + siz ≤ noff + siz) = true := by simp; omega
  have h5 : decide (noff > off) = true := by simp; omega
  rw [h3, h4, h5]
  simp

/-! ## the window list stays sorted and disjoint; file pieces avoid mapped windows -/

/-- window list as `_exfile_add_mmap_lw` keeps it: ascending, address ranges (`maxlen`) disjoint, no empty
    window, every window mapped as far as the file reaches -/
def WInv (slots : List Slot) (fsize : Nat) : Prop :=
  slots.Pairwise (fun a b => a.off + a.maxlen ≤ b.off) ∧ ∀ s ∈ slots, 0 < s.maxlen ∧ s.len = slotLen s fsize

/-- a piece does not touch the mapped part of a window -/
def Avoids (g : Seg) (s : Slot) : Prop := s.len = 0 ∨ g.off + g.len ≤ s.off ∨ s.off + s.len ≤ g.off

theorem segs_zero (slots : List Slot) (k off : Nat) : segs slots k off 0 = [] := by
  cases slots with
  | nil => simp [segs, optSeg]
  | cons a b => simp [segs]

theorem segs_range : ∀ (slots : List Slot) (k off n : Nat) (g : Seg), g ∈ segs slots k off n →
    off ≤ g.off ∧ g.off + g.len ≤ off + n
  | [], k, off, n, g, hg => by
    simp only [segs, optSeg] at hg
    split at hg
    · simp at hg; subst hg; simp
    · simp at hg
  | s :: rest, k, off, n, g, hg => by
    unfold segs at hg
    by_cases hn : n = 0
    · simp [hn] at hg
    simp only [hn, if_false] at hg
    by_cases hb : s.len = 0 ∨ off + n ≤ s.off
    · simp only [hb, if_true, List.mem_singleton] at hg; subst hg; simp
    simp only [hb, if_false, List.mem_append] at hg
    have h1 := preLen_le s off n
    have h2 := midLen_le s (off + preLen s off n) (n - preLen s off n)
    rcases hg with (hg | hg) | hg
    · simp only [optSeg] at hg
      split at hg
      · simp at hg; subst hg; simp only []; omega
      · simp at hg
    · simp only [optSeg] at hg
      split at hg
      · simp at hg; subst hg; simp only []; omega
      · simp at hg
    · have := segs_range rest (k + 1) _ _ g hg
      omega

theorem slotLen_zero_of_ge (s t : Slot) (fsize : Nat) (hm : 0 < s.maxlen) (h0 : slotLen s fsize = 0) (hge : s.off ≤ t.off) :
    slotLen t fsize = 0 := by
  unfold slotLen at h0 ⊢
  split at h0
  · rename_i h; rw [if_pos (by omega)]
  · omega

theorem WInv_tail (s : Slot) (rest : List Slot) (fsize : Nat) (h : WInv (s :: rest) fsize) : WInv rest fsize :=
  ⟨(List.pairwise_cons.mp h.1).2, fun t ht => h.2 t (List.mem_cons_of_mem _ ht)⟩

/-- after a window has been dealt with, the rest of the request lies behind its mapped part -/
theorem segs_progress (s : Slot) (off n : Nat) (hn : n ≠ 0) (hb : ¬ (s.len = 0 ∨ off + n ≤ s.off)) :
    n - preLen s off n - midLen s (off + preLen s off n) (n - preLen s off n) = 0 ∨
    s.off + s.len ≤ off + preLen s off n + midLen s (off + preLen s off n) (n - preLen s off n) := by
  unfold preLen midLen
  by_cases h1 : s.off > off
  · simp only [h1, if_true]
    by_cases h2 : n ≤ s.off - off
    · left; rw [Nat.min_eq_left h2]; omega
    · rw [Nat.min_eq_right (by omega)]
      rw [if_pos ⟨by omega, by omega, by omega⟩]
      by_cases h3 : n - (s.off - off) ≤ s.off + s.len - (off + (s.off - off))
      · left; rw [Nat.min_eq_left h3]; omega
      · right; rw [Nat.min_eq_right (by omega)]; omega
  · simp only [h1, if_false, Nat.add_zero, Nat.sub_zero]
    by_cases h2 : off < s.off + s.len
    · rw [if_pos ⟨by omega, by omega, h2⟩]
      by_cases h3 : n ≤ s.off + s.len - off
      · left; rw [Nat.min_eq_left h3]; omega
      · right; rw [Nat.min_eq_right (by omega)]; omega
    · right; rw [if_neg (by omega)]; omega

/-- **file pieces never touch a mapped window** (so what is read through the file was not shadowed by a mapping) -/
theorem segs_file_avoids : ∀ (slots : List Slot) (fsize k off n : Nat), WInv slots fsize →
    ∀ g ∈ segs slots k off n, g.slot = none → ∀ s ∈ slots, Avoids g s
  | [], _, _, _, _, _, _, _, _, s, hs => by simp at hs
  | s :: rest, fsize, k, off, n, hw, g, hg, hnone, t, ht => by
    have hpw := List.pairwise_cons.mp hw.1
    have hs := hw.2 s (List.mem_cons_self)
    unfold segs at hg
    by_cases hn : n = 0
    · simp [hn] at hg
    simp only [hn, if_false] at hg
    by_cases hb : s.len = 0 ∨ off + n ≤ s.off
    · simp only [hb, if_true, List.mem_singleton] at hg; subst hg
      simp only [Avoids]
      rcases hb with h0 | hle
      · left
        rcases List.mem_cons.mp ht with rfl | ht'
        · exact h0
        · rw [(hw.2 t (List.mem_cons_of_mem _ ht')).2]
          exact slotLen_zero_of_ge s t fsize hs.1 (by rw [← hs.2]; exact h0) (by have := hpw.1 t ht'; omega)
      · right; left
        rcases List.mem_cons.mp ht with rfl | ht'
        · exact hle
        · have := hpw.1 t ht'; omega
    simp only [hb, if_false, List.mem_append] at hg
    have hl1 : off + preLen s off n ≤ s.off ∨ preLen s off n = 0 := by
      unfold preLen; split
      · left; omega
      · right; rfl
    rcases hg with (hg | hg) | hg
    · simp only [optSeg] at hg
      split at hg
      · rename_i hpos
        simp at hg; subst hg
        simp only [Avoids]
        right; left
        rcases List.mem_cons.mp ht with rfl | ht'
        · omega
        · have := hpw.1 t ht'; omega
      · simp at hg
    · simp only [optSeg] at hg
      split at hg
      · simp at hg; subst hg; simp at hnone
      · simp at hg
    · rcases List.mem_cons.mp ht with rfl | ht'
      · -- the window just dealt with: the rest of the request lies behind it
        have hr := segs_range rest (k + 1) _ _ g hg
        rcases segs_progress t off n hn hb with h0 | hbehind
        · rw [h0, segs_zero] at hg; simp at hg
        · simp only [Avoids]; right; right; omega
      · exact segs_file_avoids rest fsize (k + 1) _ _ (WInv_tail s rest fsize hw) g hg hnone t ht'

/-- the geometry of a window: everything except the private overlay -/
def geom (s : Slot) : Nat × Nat × Nat := (s.off, s.maxlen, s.len)

theorem slotLen_geom (a b : Slot) (fsize : Nat) (h : geom a = geom b) : slotLen a fsize = slotLen b fsize := by
  simp only [geom, Prod.mk.injEq] at h
  unfold slotLen; rw [h.1, h.2.1]

theorem WInv_of_geom (a b : List Slot) (fsize : Nat) (h : a.map geom = b.map geom) (hb : WInv b fsize) : WInv a fsize := by
  constructor
  · have h1 : (b.map geom).Pairwise (fun x y => x.1 + x.2.1 ≤ y.1) := by
      rw [List.pairwise_map]; exact hb.1
    rw [← h, List.pairwise_map] at h1
    exact h1
  · intro s hs
    have hm : geom s ∈ b.map geom := by rw [← h]; exact List.mem_map_of_mem hs
    obtain ⟨t, ht, hg⟩ := List.mem_map.mp hm
    have := hb.2 t ht
    have hg' := hg
    simp only [geom, Prod.mk.injEq] at hg
    rw [← hg.2.1, ← hg.2.2, ← slotLen_geom t s fsize hg'] 
    exact this

theorem cowFold_geom' (ps : Nat) (file : Bytes) (p0 cnt : Nat) (s : Slot) :
    geom ((List.range cnt).foldl (fun s k => cowPage ps file s (p0 + k)) s) = geom s := by
  have := cowFold_geom ps file p0 cnt s
  simp only [] at this
  simp only [geom, this.1, this.2.1, this.2.2.2]

theorem slotWrite_geom' (ps : Nat) (file : Bytes) (s : Slot) (r : Nat) (d : Bytes) :
    geom (slotWrite ps file s r d).1 = geom s := by
  cases d with
  | nil => simp [slotWrite]
  | cons x xs =>
    by_cases hp : s.priv = true
    · simp only [slotWrite, hp, if_true]
      exact cowFold_geom' ps file _ _ s
    · have hp' : s.priv = false := by simpa using hp
      rw [slotWrite_shared _ _ _ _ _ hp']

theorem map_set_geom (slots : List Slot) (k : Nat) (s s' : Slot) (hk : slots[k]? = some s) (hg : geom s' = geom s) :
    (slots.set k s').map geom = slots.map geom := by
  rw [List.map_set, hg]
  apply set_eq_self
  rw [List.getElem?_map, hk]; rfl

theorem writeSeg_geom (ps : Nat) (file : Bytes) (slots : List Slot) (g : Seg) (d : Bytes) :
    (writeSeg ps file slots g d).1.map geom = slots.map geom := by
  unfold writeSeg
  cases g.slot with
  | none => rfl
  | some k =>
    simp only []
    cases hk : slots[k]? with
    | none => rfl
    | some s => exact map_set_geom slots k s _ hk (slotWrite_geom' _ _ _ _ _)

theorem writeSegs_geom (ps : Nat) : ∀ (gs : List Seg) (d : Bytes) (slots : List Slot) (file : Bytes),
    (writeSegs ps gs d slots file).1.map geom = slots.map geom
  | [], _, _, _ => rfl
  | g :: gs, d, slots, file => by
    unfold writeSegs
    rw [writeSegs_geom ps gs _ _ _, writeSeg_geom]

theorem remapAll_WInv (slots : List Slot) (fsize fsize' : Nat) (h : WInv slots fsize) : WInv (remapAll fsize' slots) fsize' := by
  have hg : ∀ s, (remapSlot fsize' s).off = s.off ∧ (remapSlot fsize' s).maxlen = s.maxlen := by
    intro s; unfold remapSlot; simp only []; split <;> exact ⟨rfl, rfl⟩
  constructor
  · unfold remapAll
    rw [List.pairwise_map]
    refine h.1.imp ?_
    intro a b hab
    rw [(hg a).1, (hg a).2, (hg b).1]; exact hab
  · intro s hs
    simp only [remapAll, List.mem_map] at hs
    obtain ⟨s0, hs0, rfl⟩ := hs
    exact ⟨by rw [(hg s0).2]; exact (h.2 s0 hs0).1, slotLen_remapSlot _ _⟩

theorem rangesOverlap_false (s1 e1 s2 e2 : Nat) (h1 : s1 < e1) (h2 : s2 < e2) (h : rangesOverlap s1 e1 s2 e2 = false) :
    e1 ≤ s2 ∨ e2 ≤ s1 := by
  unfold rangesOverlap at h
  simp only [Bool.or_eq_false_iff, Bool.and_eq_false_iff, decide_eq_false_iff_not] at h
  omega

theorem insertSlot_pairwise (ns : Slot) (hns : 0 < ns.maxlen) : ∀ (slots out : List Slot),
    slots.Pairwise (fun a b => a.off + a.maxlen ≤ b.off) → (∀ s ∈ slots, 0 < s.maxlen) →
    insertSlot ns slots = some out → out.Pairwise (fun a b => a.off + a.maxlen ≤ b.off)
  | [], out, _, _, h => by
    simp only [insertSlot, Option.some.injEq] at h; subst h; simp
  | x :: rest, out, hp, hm, h => by
    have hpw := List.pairwise_cons.mp hp
    have hx := hm x (List.mem_cons_self)
    unfold insertSlot at h
    split at h
    · cases h
    · rename_i hov
      have hdis := rangesOverlap_false x.off (x.off + x.maxlen) ns.off (ns.off + ns.maxlen) (by omega) (by omega) (by simpa using hov)
      split at h
      · rename_i hlt
        simp only [Option.some.injEq] at h; subst h
        refine List.pairwise_cons.mpr ⟨?_, hp⟩
        intro t ht
        rcases List.mem_cons.mp ht with rfl | ht'
        · omega
        · have := hpw.1 t ht'; omega
      · rename_i hge
        cases hr : insertSlot ns rest with
        | none => simp [hr] at h
        | some out' =>
          simp only [hr, Option.map_some, Option.some.injEq] at h; subst h
          refine List.pairwise_cons.mpr ⟨?_, insertSlot_pairwise ns hns rest out' hpw.2
            (fun s hs => hm s (List.mem_cons_of_mem _ hs)) hr⟩
          intro t ht
          rcases insertSlot_mem ns rest out' hr t ht with rfl | ht'
          · omega
          · exact hpw.1 t ht'

theorem removeFirst_pairwise (off : Nat) : ∀ (slots out : List Slot),
    slots.Pairwise (fun a b => a.off + a.maxlen ≤ b.off) → removeFirst off slots = some out →
    out.Pairwise (fun a b => a.off + a.maxlen ≤ b.off)
  | [], out, _, h => by simp [removeFirst] at h
  | x :: rest, out, hp, h => by
    have hpw := List.pairwise_cons.mp hp
    unfold removeFirst at h
    split at h
    · simp only [Option.some.injEq] at h; subst h; exact hpw.2
    · cases hr : removeFirst off rest with
      | none => simp [hr] at h
      | some out' =>
        simp only [hr, Option.map_some, Option.some.injEq] at h; subst h
        exact List.pairwise_cons.mpr ⟨fun t ht => hpw.1 t (removeFirst_mem off rest out' hr t ht),
          removeFirst_pairwise off rest out' hpw.2 hr⟩



theorem addMmap_cases' (st : St) (off maxlen : Nat) (priv : Bool) :
    (addMmap st off maxlen priv).2 = st ∨
    ∃ ns out, 0 < ns.maxlen ∧ ns.len = slotLen ns st.fsize ∧ insertSlot ns st.slots = some out ∧
      addMmap st off maxlen priv = (.ok, { st with slots := out }) := by
  unfold addMmap
  by_cases h1 : off % st.psize ≠ 0
  · left; simp [h1]
  · simp only [h1, if_false]
    generalize (if offTMax - off < roundUp (min maxlen (offTMax - off)) st.psize
      then roundDown (min maxlen (offTMax - off)) st.psize else roundUp (min maxlen (offTMax - off)) st.psize) = ml
    by_cases h2 : ml = 0
    · left; simp [h2]
    · simp only [h2, if_false]
      cases hins : insertSlot { off := off, maxlen := ml, len := slotLen { off := off, maxlen := ml, len := 0, priv := priv } st.fsize, priv := priv } st.slots with
      | none => left; rfl
      | some out => right; exact ⟨_, out, by show 0 < ml; omega, rfl, hins, rfl⟩

theorem write_slots (st : St) (off : Int) (d : Bytes) :
    ∃ st1, (st1 = st ∨ st1 = (ensureSize st (off.toNat + d.length)).2) ∧
      (write st off d).2.2.fsize = st1.fsize ∧ (write st off d).2.2.slots.map geom = st1.slots.map geom := by
  unfold write
  split
  · exact ⟨st, Or.inl rfl, rfl, rfl⟩
  · simp only []
    split
    · exact ⟨st, Or.inl rfl, rfl, rfl⟩
    · split
      · refine ⟨(ensureSize st (off.toNat + d.length)).2, Or.inr rfl, ?_⟩
        generalize ensureSize st (off.toNat + d.length) = r
        obtain ⟨rc, st1⟩ := r
        simp only []
        split
        · exact ⟨rfl, rfl⟩
        · exact ⟨rfl, writeSegs_geom _ _ _ _ _⟩
      · simp only []
        exact ⟨st, Or.inl rfl, rfl, writeSegs_geom _ _ _ _ _⟩

theorem truncate_WInv (st : St) (size : Nat) (h : WInv st.slots st.fsize) :
    WInv (truncate st size).2.slots (truncate st size).2.fsize := by
  rcases truncate_cases st size with ⟨e, _⟩ | ⟨e, _⟩ | ⟨e, _⟩ <;> rw [e]
  · exact h
  · exact h
  · exact remapAll_WInv _ _ _ h

theorem ensureSize_WInv (st : St) (sz : Nat) (h : WInv st.slots st.fsize) :
    WInv (ensureSize st sz).2.slots (ensureSize st sz).2.fsize := by
  rcases ensureSize_cases st sz with ⟨_, e⟩ | ⟨_, e | e | ⟨T, _, e, _, _⟩⟩ <;> rw [e]
  · exact h
  · exact h
  · exact h
  · exact truncate_WInv _ _ h

theorem exec_WInv (st : St) (op : Op) (h : WInv st.slots st.fsize) : WInv (exec st op).1.slots (exec st op).1.fsize := by
  cases op with
  | write off d =>
    simp only [exec]
    obtain ⟨st1, hst1, hf, hg⟩ := write_slots st off d
    rw [hf]
    refine WInv_of_geom _ _ _ hg ?_
    rcases hst1 with rfl | rfl
    · exact h
    · exact ensureSize_WInv _ _ h
  | read off n => exact h
  | copy off siz noff =>
    simp only [exec]
    unfold copy
    split
    · rename_i s rest hsl
      split
      · refine WInv_of_geom _ (s :: rest) _ ?_ (by rw [← hsl]; exact h)
        simp only [List.map_cons, slotWrite_geom']
      · exact h
    · exact h
  | mmapWrite so rel d =>
    simp only [exec]
    unfold mmapWrite
    cases hk : st.slots.findIdx? (fun s => s.off == so) with
    | none => exact h
    | some k =>
      simp only []
      cases hsk : st.slots[k]? with
      | none => exact h
      | some s =>
        simp only []
        split
        · exact h
        · split
          · exact WInv_of_geom _ _ _ (map_set_geom _ _ _ _ hsk (slotWrite_geom' _ _ _ _ _)) h
          · exact h
  | truncate size => exact truncate_WInv _ _ h
  | ensure size => exact ensureSize_WInv _ _ h
  | addMmap off maxlen priv =>
    simp only [exec]
    rcases addMmap_cases' st off maxlen priv with e | ⟨ns, out, hm, hlen, hins, e⟩
    · rw [e]; exact h
    · rw [e]
      refine ⟨insertSlot_pairwise ns hm _ _ h.1 (fun s hs => (h.2 s hs).1) hins, ?_⟩
      intro s hs
      rcases insertSlot_mem _ _ _ hins s hs with rfl | hs'
      · exact ⟨hm, hlen⟩
      · exact h.2 s hs'
  | removeMmap off =>
    simp only [exec, removeMmap]
    split
    · exact h
    · rename_i out hout
      exact ⟨removeFirst_pairwise _ _ _ h.1 hout, fun s hs => h.2 s (removeFirst_mem _ _ _ hout s hs)⟩
  | remapAll => exact remapAll_WInv _ _ _ h

theorem run_WInv : ∀ (ops : List Op) (st : St), WInv st.slots st.fsize → WInv (run st ops).1.slots (run st ops).1.fsize
  | [], _, h => h
  | op :: ops, st, h => by
    simp only [run]
    exact run_WInv ops _ (exec_WInv st op h)

end IwModel.Exf
