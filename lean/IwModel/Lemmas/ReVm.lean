import IwModel.Model.ReVm
/-! Invariants of the regular-expression VM model (core Lean only): a thread list never holds more
threads than instructions carry the current stamp, and only queueable instructions are queued. -/

namespace IwModel.ReVm

/-- number of instructions that carry stamp `s` in this list -/
def stamped (l : TList) (s : Nat) : Nat := l.visited.countP (· = s)

/-- an instruction that `vm_add_thread` queues (the main loop `abort()`s on any other) -/
def Instr.queueable : Instr → Bool
  | .mtch | .chr _ | .any | .cls _ _ => true
  | _ => false

/-- Well-formed program: every jump target and every fall-through successor is an instruction of the
    program, and no character instruction holds the NUL (what the compiler emits for parsed patterns). -/
def Wf (prog : Prog) : Prop :=
  ∀ (pc : Nat) (ins : Instr), prog[pc]? = some ins →
    match ins with
    | .mtch => True
    | .chr c => c ≠ 0 ∧ pc + 1 < prog.length
    | .any | .cls _ _ | .abegin | .aend | .save _ => pc + 1 < prog.length
    | .split a b => a < prog.length ∧ b < prog.length
    | .jump t => t < prog.length

/-- list invariant for stamp `s`: sized for the program, never more queued threads than stamped
    instructions, only queueable instructions queued -/
def Inv (prog : Prog) (l : TList) (s : Nat) : Prop :=
  l.visited.length = prog.length ∧ l.threads.length ≤ stamped l s ∧
  ∀ t ∈ l.threads, ∃ ins, prog[t.1]? = some ins ∧ ins.queueable = true

theorem stamped_le (l : TList) (s : Nat) : stamped l s ≤ l.visited.length := List.countP_le_length

theorem stamped_set (l : TList) (s pc v : Nat) (hv : l.visited[pc]? = some v) (hne : v ≠ s) :
    stamped { l with visited := l.visited.set pc s } s = stamped l s + 1 := by
  unfold stamped
  have hlt : pc < l.visited.length := by
    rcases List.getElem?_eq_some_iff.mp hv with ⟨h, _⟩; exact h
  have hv' : l.visited[pc] = v := by
    rcases List.getElem?_eq_some_iff.mp hv with ⟨_, h⟩; exact h
  simp only [List.countP_set hlt, hv']
  simp [hne]


theorem Inv.stamp {prog : Prog} {l : TList} {s pc v : Nat} (h : Inv prog l s) (hv : l.visited[pc]? = some v) (hne : v ≠ s) :
    Inv prog { l with visited := l.visited.set pc s } s ∧
    stamped { l with visited := l.visited.set pc s } s = stamped l s + 1 := by
  have hs := stamped_set l s pc v hv hne
  refine ⟨⟨by simpa using h.1, ?_, h.2.2⟩, hs⟩
  rw [hs]; have := h.2.1; simp only; omega

theorem Inv.push {prog : Prog} {l : TList} {s pc : Nat} {caps : Caps} {ins : Instr} (h : Inv prog l s)
    (hlt : l.threads.length < stamped l s) (hins : prog[pc]? = some ins) (hq : ins.queueable = true) :
    Inv prog { l with threads := l.threads ++ [(pc, caps)] } s := by
  refine ⟨h.1, ?_, ?_⟩
  · simp only [List.length_append, List.length_cons, List.length_nil]
    show l.threads.length + (0 + 1) ≤ stamped l s
    omega
  · intro t ht
    simp only [List.mem_append, List.mem_cons, List.not_mem_nil, or_false] at ht
    rcases ht with ht | ht
    · exact h.2.2 t ht
    · subst ht; exact ⟨ins, hins, hq⟩

theorem addThread_ok (prog : Prog) (hwf : Wf prog) (pos : Nat) (atEnd : Option Bool) (he : atEnd.isSome = true) :
    ∀ (fuel : Nat) (l : TList) (pc : Nat) (caps : Caps),
      pc < prog.length → Inv prog l (pos + 1) → prog.length < fuel + stamped l (pos + 1) →
      ∃ l', addThread prog pos atEnd fuel l pc caps = .ok l' ∧ Inv prog l' (pos + 1) ∧
        stamped l (pos + 1) ≤ stamped l' (pos + 1) := by
  intro fuel
  induction fuel with
  | zero =>
    intro l pc caps hpc hinv hf
    have := stamped_le l (pos + 1); have := hinv.1; omega
  | succ fuel ih =>
    intro l pc caps hpc hinv hf
    have hlt : pc < l.visited.length := by rw [hinv.1]; exact hpc
    have hv : l.visited[pc]? = some l.visited[pc] := by simp [hlt]
    generalize l.visited[pc] = v at hv
    rw [addThread, hv]; dsimp only
    by_cases hvs : v = pos + 1
    · rw [if_pos hvs]; exact ⟨l, rfl, hinv, Nat.le_refl _⟩
    · rw [if_neg hvs]
      obtain ⟨hinv1, hst1⟩ := hinv.stamp hv hvs
      have hins : prog[pc]? = some prog[pc] := by simp [hpc]
      generalize prog[pc] = ins at hins
      rw [hins]; dsimp only
      have hw := hwf pc ins hins
      have hcap : l.threads.length < (l.visited.set pc (pos + 1)).length := by
        have h1 := stamped_le { l with visited := l.visited.set pc (pos + 1) } (pos + 1)
        have h2 := hinv.2.1
        simp only at h1; omega
      have hfuel : prog.length < fuel + stamped { l with visited := l.visited.set pc (pos + 1) } (pos + 1) := by omega
      cases ins with
      | mtch =>
        dsimp only; rw [if_pos hcap]
        refine ⟨_, rfl, hinv1.push (by have := hinv.2.1; simp only at *; omega) hins rfl, ?_⟩
        show stamped l (pos + 1) ≤ stamped { l with visited := l.visited.set pc (pos + 1) } (pos + 1)
        omega
      | chr c =>
        dsimp only; rw [if_pos hcap]
        refine ⟨_, rfl, hinv1.push (by have := hinv.2.1; simp only at *; omega) hins rfl, ?_⟩
        show stamped l (pos + 1) ≤ stamped { l with visited := l.visited.set pc (pos + 1) } (pos + 1)
        omega
      | any =>
        dsimp only; rw [if_pos hcap]
        refine ⟨_, rfl, hinv1.push (by have := hinv.2.1; simp only at *; omega) hins rfl, ?_⟩
        show stamped l (pos + 1) ≤ stamped { l with visited := l.visited.set pc (pos + 1) } (pos + 1)
        omega
      | cls neg bits =>
        dsimp only; rw [if_pos hcap]
        refine ⟨_, rfl, hinv1.push (by have := hinv.2.1; simp only at *; omega) hins rfl, ?_⟩
        show stamped l (pos + 1) ≤ stamped { l with visited := l.visited.set pc (pos + 1) } (pos + 1)
        omega
      | split a b =>
        dsimp only
        obtain ⟨l2, h2, hinv2, hst2⟩ := ih _ a caps hw.1 hinv1 hfuel
        rw [h2]; dsimp only
        obtain ⟨l3, h3, hinv3, hst3⟩ := ih l2 b caps hw.2 hinv2 (by omega)
        exact ⟨l3, h3, hinv3, by omega⟩
      | jump t =>
        dsimp only
        obtain ⟨l2, h2, hinv2, hst2⟩ := ih _ t caps hw hinv1 hfuel
        exact ⟨l2, h2, hinv2, by omega⟩
      | abegin =>
        dsimp only
        split
        · obtain ⟨l2, h2, hinv2, hst2⟩ := ih _ (pc + 1) caps hw hinv1 hfuel
          exact ⟨l2, h2, hinv2, by omega⟩
        · exact ⟨_, rfl, hinv1, by omega⟩
      | aend =>
        dsimp only
        cases atEnd with
        | none => simp at he
        | some b =>
          cases b with
          | true =>
            dsimp only
            obtain ⟨l2, h2, hinv2, hst2⟩ := ih _ (pc + 1) caps hw hinv1 hfuel
            exact ⟨l2, h2, hinv2, by omega⟩
          | false => exact ⟨_, rfl, hinv1, by omega⟩
      | save k =>
        dsimp only
        split
        · obtain ⟨l2, h2, hinv2, hst2⟩ := ih _ (pc + 1) _ hw hinv1 hfuel
          exact ⟨l2, h2, hinv2, by omega⟩
        · obtain ⟨l2, h2, hinv2, hst2⟩ := ih _ (pc + 1) caps hw hinv1 hfuel
          exact ⟨l2, h2, hinv2, by omega⟩


theorem inv_fresh {prog : Prog} {l : TList} (s : Nat) (h : l.visited.length = prog.length) :
    Inv prog { l with threads := [] } s :=
  ⟨h, by simp, by simp⟩

theorem stepThreads_ok (prog : Prog) (hwf : Wf prog) (pos c : Nat) (nextEnd : Option Bool)
    (hne : c ≠ 0 → nextEnd.isSome = true) :
    ∀ (ths : List (Nat × Caps)) (next : TList),
      (∀ t ∈ ths, ∃ ins, prog[t.1]? = some ins ∧ ins.queueable = true) → Inv prog next (pos + 1 + 1) →
      ∃ out, stepThreads prog pos c nextEnd ths next = .ok out ∧ Inv prog out.next (pos + 1 + 1) := by
  intro ths
  induction ths with
  | nil => intro next _ hinv; exact ⟨_, rfl, hinv⟩
  | cons th rest ih =>
    intro next hq hinv
    obtain ⟨pc, caps⟩ := th
    obtain ⟨ins, hins, hqi⟩ := hq (pc, caps) (by simp)
    have hrest : ∀ t ∈ rest, ∃ ins, prog[t.1]? = some ins ∧ ins.queueable = true :=
      fun t ht => hq t (by simp [ht])
    have hw := hwf pc ins hins
    have hadv : pc + 1 < prog.length → c ≠ 0 →
        ∃ out, (match addThread prog (pos + 1) nextEnd (prog.length + 1) next (pc + 1) caps with
          | .ok next => stepThreads prog pos c nextEnd rest next
          | .oob => .oob
          | .fuel => .fuel) = .ok out ∧ Inv prog out.next (pos + 1 + 1) := by
      intro hpc hc
      obtain ⟨n2, h2, hinv2, _⟩ := addThread_ok prog hwf (pos + 1) nextEnd (hne hc) (prog.length + 1) next (pc + 1) caps hpc hinv (by omega)
      rw [h2]; exact ih n2 hrest hinv2
    rw [stepThreads, hins]; dsimp only
    cases ins with
    | mtch =>
      have ha : threadAction .mtch c = .isMatch := rfl
      rw [ha]; exact ⟨_, rfl, hinv⟩
    | chr ch =>
      by_cases hc : c = ch
      · have ha : threadAction (.chr ch) c = .advance := by simp [threadAction, hc]
        rw [ha]; exact hadv hw.2 (by have := hw.1; omega)
      · have ha : threadAction (.chr ch) c = .skip := by simp [threadAction, hc]
        rw [ha]; exact ih next hrest hinv
    | any =>
      by_cases hc : c ≠ 0
      · have ha : threadAction .any c = .advance := by simp [threadAction, hc]
        rw [ha]; exact hadv hw hc
      · have ha : threadAction .any c = .skip := by simp [threadAction]; omega
        rw [ha]; exact ih next hrest hinv
    | cls neg bits =>
      by_cases hc : c ≠ 0 ∧ (classHas bits c != neg) = true
      · have ha : threadAction (.cls neg bits) c = .advance := by simp only [threadAction]; rw [if_pos hc]
        rw [ha]; exact hadv hw hc.1
      · have ha : threadAction (.cls neg bits) c = .skip := by simp only [threadAction]; rw [if_neg hc]
        rw [ha]; exact ih next hrest hinv
    | split a b => simp [Instr.queueable] at hqi
    | jump t => simp [Instr.queueable] at hqi
    | abegin => simp [Instr.queueable] at hqi
    | aend => simp [Instr.queueable] at hqi
    | save k => simp [Instr.queueable] at hqi

theorem runLoop_ok (prog : Prog) (hwf : Wf prog) :
    ∀ (text : Bytes) (pos : Nat) (cur nxt : TList) (best : Option Caps),
      Inv prog cur (pos + 1) → nxt.visited.length = prog.length →
      ∃ r, runLoop prog text pos cur nxt best = .ok r := by
  intro text
  induction text with
  | nil =>
    intro pos cur nxt best hcur hnxt
    obtain ⟨out, hout, _⟩ := stepThreads_ok prog hwf pos 0 none (by simp) cur.threads { nxt with threads := [] }
      hcur.2.2 (inv_fresh _ hnxt)
    rw [runLoop]; simp only [List.headD_nil]
    rw [hout]
    exact ⟨_, rfl⟩
  | cons c rest ih =>
    intro pos cur nxt best hcur hnxt
    obtain ⟨out, hout, hinv⟩ := stepThreads_ok prog hwf pos c (some (decide (rest = []))) (by simp) cur.threads { nxt with threads := [] }
      hcur.2.2 (inv_fresh _ hnxt)
    rw [runLoop]; simp only [List.headD_cons]
    rw [hout]; dsimp only
    split
    · exact ⟨_, rfl⟩
    · exact ih (pos + 1) out.next { cur with threads := [] } _ hinv hcur.1

/-- **The VM never indexes outside its thread arrays or the program, never `abort()`s, and the
    recursion of `vm_add_thread` is never deeper than `ninstructions + 1`** — for every well-formed
    non-empty program, every text and every `nmatches`. -/
theorem run_ok (prog : Prog) (hwf : Wf prog) (hne : 0 < prog.length) (text : Bytes) (nmatches : Nat) :
    ∃ r, run prog text nmatches = .ok r := by
  unfold run
  have hempty : Inv prog ⟨List.replicate prog.length 0, []⟩ (0 + 1) := ⟨by simp, by simp, by simp⟩
  obtain ⟨cur, hcur, hinv, _⟩ := addThread_ok prog hwf 0 (some (decide (text = []))) rfl (prog.length + 1)
    ⟨List.replicate prog.length 0, []⟩ 0 (List.replicate (min nmatches maxMatches) none) hne hempty (by omega)
  dsimp only
  rw [hcur]
  exact runLoop_ok prog hwf text 0 cur _ none hinv (by simp)

end IwModel.ReVm
