import IwModel.Model.HMap
/-! Invariants of the hash-map model and the effect of its primitives on the key → value relation. -/
set_option linter.unusedSectionVars false
set_option linter.unusedSimpArgs false
namespace IwModel.HMap

variable {κ : Type} [DecidableEq κ]

/-- entries of bucket `i` (empty beyond the table) -/
def ents (m : Map κ) (i : Nat) : List (Entry κ) := (bucketAt m i).ents

/-- representation invariant of the table -/
structure WF (h : κ → Nat) (m : Map κ) : Prop where
  len : m.buckets.length = m.mask + 1
  place : ∀ i, ∀ e ∈ ents m i, e.hash = h e.key ∧ e.hash &&& m.mask = i
  nodup : ∀ i, ((ents m i).map (·.key)).Nodup
  cnt : m.count = (m.buckets.map (·.ents.length)).sum
  cap : ∀ i, (ents m i).length = 0 ∨ (ents m i).length < (bucketAt m i).total
  lruNodup : m.lru.Nodup
  lruMem : ∀ k, k ∈ m.lru ↔ ∃ e ∈ ents m (h k &&& m.mask), e.key = k ∧ e.node = true

/-- the key → value relation the table represents -/
def Maps (h : κ → Nat) (m : Map κ) (k : κ) (v : Nat) : Prop :=
  ∃ e ∈ ents m (h k &&& m.mask), e.key = k ∧ e.val = v

omit [DecidableEq κ] in
theorem idx_lt (x mask : Nat) : x &&& mask < mask + 1 := by
  have := @Nat.and_le_right x mask; omega

omit [DecidableEq κ] in
theorem bucketAt_setBucket (m : Map κ) (i j : Nat) (b : Bucket κ) (hi : i < m.buckets.length) :
    bucketAt (setBucket m i b) j = if j = i then b else bucketAt m j := by
  unfold bucketAt setBucket
  simp only [List.getD_eq_getElem?_getD, List.getElem?_set]
  by_cases hji : j = i
  · subst hji; simp [hi]
  · have : ¬ i = j := fun h => hji h.symm
    simp [hji, this]

omit [DecidableEq κ] in
theorem ents_setBucket (m : Map κ) (i j : Nat) (b : Bucket κ) (hi : i < m.buckets.length) :
    ents (setBucket m i b) j = if j = i then b.ents else ents m j := by
  unfold ents; rw [bucketAt_setBucket m i j b hi]; split <;> rfl

omit [DecidableEq κ] in
theorem ents_oob (m : Map κ) (i : Nat) (hi : m.buckets.length ≤ i) : ents m i = [] := by
  unfold ents bucketAt
  rw [List.getD_eq_getElem?_getD, List.getElem?_eq_none hi]; rfl

omit [DecidableEq κ] in
/-- sum of a mapped list after replacing one element -/
theorem sum_map_set {α : Type} (f : α → Nat) : ∀ (l : List α) (i : Nat) (x : α) (hi : i < l.length),
    ((l.set i x).map f).sum + f l[i] = (l.map f).sum + f x := by
  intro l
  induction l with
  | nil => intro i x hi; simp at hi
  | cons a t ih =>
    intro i x hi
    cases i with
    | zero => simp; omega
    | succ i =>
      have := ih i x (by simpa using hi)
      simp only [List.set_cons_succ, List.map_cons, List.sum_cons, List.getElem_cons_succ]
      omega

omit [DecidableEq κ] in
theorem bucketAt_getElem (m : Map κ) (i : Nat) (hi : i < m.buckets.length) : m.buckets[i] = bucketAt m i := by
  unfold bucketAt; rw [List.getD_eq_getElem?_getD, List.getElem?_eq_getElem hi]; rfl

omit [DecidableEq κ] in
/-- the entry count after replacing bucket `i` -/
theorem cnt_setBucket (m : Map κ) (i : Nat) (b : Bucket κ) (hi : i < m.buckets.length) :
    ((setBucket m i b).buckets.map (·.ents.length)).sum + (ents m i).length
      = (m.buckets.map (·.ents.length)).sum + b.ents.length := by
  have := sum_map_set (fun (b : Bucket κ) => b.ents.length) m.buckets i b hi
  rw [bucketAt_getElem m i hi] at this
  exact this

theorem findIdx_some {es : List (Entry κ)} {key : κ} {hash i : Nat} (h : findIdx es key hash = some i) :
    ∃ hi : i < es.length, es[i].hash = hash ∧ es[i].key = key := by
  unfold findIdx at h
  simp only at h
  split at h
  · rename_i hlt
    injection h with h; subst h
    have := @List.findIdx_getElem _ (fun e => decide (e.hash = hash ∧ e.key = key)) es hlt
    exact ⟨hlt, by simpa using this⟩
  · cases h

theorem findIdx_none {es : List (Entry κ)} {key : κ} {hash : Nat} (h : findIdx es key hash = none) :
    ∀ e ∈ es, ¬ (e.hash = hash ∧ e.key = key) := by
  unfold findIdx at h
  simp only at h
  split at h
  · cases h
  · rename_i hlt
    have hl := List.findIdx_le_length (p := fun e => decide (e.hash = hash ∧ e.key = key)) (xs := es)
    have : List.findIdx (fun e => decide (e.hash = hash ∧ e.key = key)) es = es.length := by omega
    rw [List.findIdx_eq_length] at this
    intro e he; simpa using this e he

/-- in a well-formed table a bucket search by (hash, key) is a search by key -/
theorem findIdx_none_key {h : κ → Nat} {m : Map κ} (wf : WF h m) (k : κ)
    (hn : findIdx (ents m (h k &&& m.mask)) k (h k) = none) : ∀ e ∈ ents m (h k &&& m.mask), e.key ≠ k := by
  intro e he hk
  have := findIdx_none hn e he
  exact this ⟨by rw [(wf.place _ e he).1, hk], hk⟩

omit [DecidableEq κ] in
theorem eq_of_nodup_map {α β : Type} (f : α → β) : ∀ (l : List α), (l.map f).Nodup →
    ∀ a ∈ l, ∀ b ∈ l, f a = f b → a = b := by
  intro l
  induction l with
  | nil => intro _ a ha; cases ha
  | cons x t ih =>
    intro nd a ha b hb hab
    rw [List.map_cons, List.nodup_cons] at nd
    rcases List.mem_cons.1 ha with ha1 | ha1 <;> rcases List.mem_cons.1 hb with hb1 | hb1
    · rw [ha1, hb1]
    · subst ha1; exact absurd (List.mem_map.2 ⟨b, hb1, hab.symm⟩) nd.1
    · subst hb1; exact absurd (List.mem_map.2 ⟨a, ha1, hab⟩) nd.1
    · exact ih nd.2 a ha1 b hb1 hab

theorem maps_fun {h : κ → Nat} {m : Map κ} (wf : WF h m) {k : κ} {v w : Nat}
    (h1 : Maps h m k v) (h2 : Maps h m k w) : v = w := by
  obtain ⟨e, he, ek, ev⟩ := h1
  obtain ⟨e', he', ek', ev'⟩ := h2
  have := eq_of_nodup_map (·.key) _ (wf.nodup (h k &&& m.mask)) e he e' he' (by rw [ek, ek'])
  subst this; rw [← ev, ← ev']

/-- `m'` is `m` with bucket `bi` replaced and new count / recency list; everything else untouched -/
def Upd (m m' : Map κ) (bi : Nat) (b' : Bucket κ) (c' : Nat) (l' : List κ) : Prop :=
  m'.buckets = m.buckets.set bi b' ∧ m'.mask = m.mask ∧ m'.count = c' ∧ m'.lru = l' ∧
  m'.lruOn = m.lruOn ∧ m'.maxc = m.maxc ∧ m'.ownKeys = m.ownKeys

theorem Upd.bucketAt_eq {m m' : Map κ} {bi : Nat} {b' : Bucket κ} {c' : Nat} {l' : List κ}
    (u : Upd m m' bi b' c' l') (hbi : bi < m.buckets.length) (j : Nat) :
    bucketAt m' j = if j = bi then b' else bucketAt m j := by
  have := bucketAt_setBucket m bi j b' hbi
  unfold bucketAt setBucket at *
  rw [u.1]; exact this

theorem Upd.ents_eq {m m' : Map κ} {bi : Nat} {b' : Bucket κ} {c' : Nat} {l' : List κ}
    (u : Upd m m' bi b' c' l') (hbi : bi < m.buckets.length) (j : Nat) :
    ents m' j = if j = bi then b'.ents else ents m j := by
  unfold HMap.ents; rw [u.bucketAt_eq hbi j]; split <;> rfl

theorem entryAdd_found (h : κ → Nat) (m : Map κ) (key : κ) (i : Nat)
    (hf : findIdx (ents m (h key &&& m.mask)) key (h key) = some i) :
    let bi := h key &&& m.mask
    let b := bucketAt m bi
    let r := entryAdd m key (h key)
    Upd m r.1 bi { b with total := if b.ents.length + 1 ≥ b.total then b.total + STEPS else b.total } m.count m.lru
    ∧ r.2 = (bi, i, false) := by
  unfold ents at hf
  simp [entryAdd, bucketAdd, hf, Upd, setBucket]

theorem entryAdd_fresh (h : κ → Nat) (m : Map κ) (key : κ)
    (hf : findIdx (ents m (h key &&& m.mask)) key (h key) = none) :
    let bi := h key &&& m.mask
    let b := bucketAt m bi
    let r := entryAdd m key (h key)
    Upd m r.1 bi { ents := b.ents ++ [{ key := key, val := 0, hash := h key, node := false }],
                   total := if b.ents.length + 1 ≥ b.total then b.total + STEPS else b.total } (m.count + 1) m.lru
    ∧ r.2 = (bi, b.ents.length, true) := by
  unfold ents at hf
  simp [entryAdd, bucketAdd, hf, Upd, setBucket]

theorem Upd.trans {m m1 m2 : Map κ} {bi : Nat} {b1 b2 : Bucket κ} {c1 c2 : Nat} {l1 l2 : List κ}
    (u1 : Upd m m1 bi b1 c1 l1) (u2 : Upd m1 m2 bi b2 c2 l2) : Upd m m2 bi b2 c2 l2 := by
  obtain ⟨a1, a2, a3, a4, a5, a6, a7⟩ := u1
  obtain ⟨b1', b2', b3, b4, b5, b6, b7⟩ := u2
  refine ⟨?_, by rw [b2', a2], b3, b4, by rw [b5, a5], by rw [b6, a6], by rw [b7, a7]⟩
  rw [b1', a1, List.set_set]

/-- well-formedness after replacing one bucket -/
theorem wf_upd {h : κ → Nat} {m m' : Map κ} {bi : Nat} {b' : Bucket κ} {c' : Nat} {l' : List κ}
    (wf : WF h m) (u : Upd m m' bi b' c' l') (hbi : bi < m.buckets.length)
    (hplace : ∀ e ∈ b'.ents, e.hash = h e.key ∧ e.hash &&& m.mask = bi)
    (hnodup : (b'.ents.map (·.key)).Nodup)
    (hcnt : c' + (ents m bi).length = m.count + b'.ents.length)
    (hcap : b'.ents.length = 0 ∨ b'.ents.length < b'.total)
    (hl1 : l'.Nodup)
    (hl2 : ∀ k, k ∈ l' ↔ ∃ e ∈ (if h k &&& m.mask = bi then b'.ents else ents m (h k &&& m.mask)), e.key = k ∧ e.node = true) :
    WF h m' := by
  have hm : m'.mask = m.mask := u.2.1
  refine ⟨?_, ?_, ?_, ?_, ?_, ?_, ?_⟩
  · rw [u.1, List.length_set, hm]; exact wf.len
  · intro i e he
    rw [u.ents_eq hbi i] at he
    rw [hm]
    split at he
    · rename_i hi; subst hi; exact hplace e he
    · exact wf.place i e he
  · intro i
    rw [u.ents_eq hbi i]
    split
    · exact hnodup
    · exact wf.nodup i
  · rw [u.2.2.1]
    have := cnt_setBucket m bi b' hbi
    unfold setBucket at this
    simp only at this
    rw [u.1]
    have := wf.cnt
    omega
  · intro i
    rw [u.ents_eq hbi i, u.bucketAt_eq hbi i]
    split
    · exact hcap
    · exact wf.cap i
  · rw [u.2.2.2.1]; exact hl1
  · intro k
    rw [u.2.2.2.1, hm, u.ents_eq hbi]
    exact hl2 k

/-- the key → value relation after replacing one bucket -/
theorem maps_upd {h : κ → Nat} {m m' : Map κ} {bi : Nat} {b' : Bucket κ} {c' : Nat} {l' : List κ}
    (u : Upd m m' bi b' c' l') (hbi : bi < m.buckets.length) (k : κ) (v : Nat) :
    Maps h m' k v ↔ ∃ e ∈ (if h k &&& m.mask = bi then b'.ents else ents m (h k &&& m.mask)), e.key = k ∧ e.val = v := by
  unfold Maps
  rw [u.2.1, u.ents_eq hbi]


theorem setKV_upd (m : Map κ) (bi ei : Nat) (key : κ) (val : Nat) (e : Entry κ)
    (he : (bucketAt m bi).ents[ei]? = some e) :
    Upd m (setKV m bi ei key val) bi
      { bucketAt m bi with ents := (bucketAt m bi).ents.set ei { e with key := key, val := val } } m.count m.lru := by
  simp [setKV, he, Upd, setBucket]

/-- `entryAdd` followed by storing key and value: insert-or-replace of one entry -/
def upsert (h : κ → Nat) (m : Map κ) (key : κ) (val : Nat) : Map κ :=
  setKV (entryAdd m key (h key)).1 (entryAdd m key (h key)).2.1 (entryAdd m key (h key)).2.2.1 key val

def growTotal (b : Bucket κ) : Nat := if b.ents.length + 1 ≥ b.total then b.total + STEPS else b.total

theorem upsert_found {h : κ → Nat} {m : Map κ} (wf : WF h m) (key : κ) (val : Nat) (i : Nat)
    (hf : findIdx (ents m (h key &&& m.mask)) key (h key) = some i) :
    ∃ old, (ents m (h key &&& m.mask))[i]? = some old ∧ old.key = key ∧ old.hash = h key ∧
      (entryAdd m key (h key)).2 = (h key &&& m.mask, i, false) ∧
      entryAt (entryAdd m key (h key)).1 (h key &&& m.mask) i = some old ∧
      Upd m (upsert h m key val) (h key &&& m.mask)
        { ents := (ents m (h key &&& m.mask)).set i { old with key := key, val := val },
          total := growTotal (bucketAt m (h key &&& m.mask)) } m.count m.lru := by
  obtain ⟨hi, hh, hk⟩ := findIdx_some hf
  have hbi : h key &&& m.mask < m.buckets.length := by rw [wf.len]; exact idx_lt _ _
  obtain ⟨u, r2⟩ := entryAdd_found h m key i hf
  have hb1 : bucketAt (entryAdd m key (h key)).1 (h key &&& m.mask) =
      { bucketAt m (h key &&& m.mask) with total := growTotal (bucketAt m (h key &&& m.mask)) } := by
    rw [u.bucketAt_eq hbi]; simp [growTotal]
  refine ⟨(ents m (h key &&& m.mask))[i], List.getElem?_eq_getElem hi, hk, hh, r2, ?_, ?_⟩
  · unfold entryAt
    rw [hb1]
    exact List.getElem?_eq_getElem hi
  · unfold upsert
    rw [r2]
    have := setKV_upd (entryAdd m key (h key)).1 (h key &&& m.mask) i key val (ents m (h key &&& m.mask))[i]
      (by rw [hb1]; exact List.getElem?_eq_getElem hi)
    rw [hb1] at this
    have t := u.trans this
    rw [u.2.2.1, u.2.2.2.1] at t
    exact t

theorem upsert_fresh {h : κ → Nat} {m : Map κ} (wf : WF h m) (key : κ) (val : Nat)
    (hf : findIdx (ents m (h key &&& m.mask)) key (h key) = none) :
    (entryAdd m key (h key)).2 = (h key &&& m.mask, (ents m (h key &&& m.mask)).length, true) ∧
    Upd m (upsert h m key val) (h key &&& m.mask)
      { ents := ents m (h key &&& m.mask) ++ [{ key := key, val := val, hash := h key, node := false }],
        total := growTotal (bucketAt m (h key &&& m.mask)) } (m.count + 1) m.lru := by
  have hbi : h key &&& m.mask < m.buckets.length := by rw [wf.len]; exact idx_lt _ _
  obtain ⟨u, r2'⟩ := entryAdd_fresh h m key hf
  have r2 : (entryAdd m key (h key)).2 = (h key &&& m.mask, (ents m (h key &&& m.mask)).length, true) := r2'
  refine ⟨r2, ?_⟩
  unfold upsert
  rw [r2]
  have hb1 : bucketAt (entryAdd m key (h key)).1 (h key &&& m.mask) =
      { ents := ents m (h key &&& m.mask) ++ [{ key := key, val := 0, hash := h key, node := false }],
        total := growTotal (bucketAt m (h key &&& m.mask)) } := by
    rw [u.bucketAt_eq hbi]; simp [growTotal, ents]
  have := setKV_upd (entryAdd m key (h key)).1 (h key &&& m.mask) (ents m (h key &&& m.mask)).length key val
    { key := key, val := 0, hash := h key, node := false } (by rw [hb1]; simp)
  rw [hb1] at this
  have t := u.trans this
  rw [u.2.2.1, u.2.2.2.1] at t
  simpa using t

theorem mem_set_iff {α : Type} (l : List α) (i : Nat) (a x : α) (hi : i < l.length) :
    x ∈ l.set i a ↔ x = a ∨ x ∈ l.eraseIdx i := by
  rw [List.set_eq_take_append_cons_drop, if_pos hi, List.eraseIdx_eq_take_drop_succ]
  simp only [List.mem_append, List.mem_cons]
  constructor
  · rintro (h | h | h) <;> simp [h]
  · rintro (h | h | h) <;> simp [h]

theorem mem_iff_eraseIdx {α : Type} (l : List α) (i : Nat) (x : α) (hi : i < l.length) :
    x ∈ l ↔ x = l[i] ∨ x ∈ l.eraseIdx i := by
  have := mem_set_iff l i l[i] x hi
  rwa [List.set_getElem_self] at this

theorem set_same {α : Type} (l : List α) (i : Nat) (a : α) (hi : i < l.length) (h : l[i] = a) : l.set i a = l := by
  subst h; exact List.set_getElem_self hi

theorem key_not_in_eraseIdx {α β : Type} (f : α → β) (l : List α) (i : Nat) (hi : i < l.length)
    (nd : (l.map f).Nodup) : ∀ x ∈ l.eraseIdx i, f x ≠ f l[i] := by
  have hl : l = l.take i ++ l[i] :: l.drop (i + 1) := by
    rw [List.getElem_cons_drop, List.take_append_drop]
  rw [hl, List.map_append, List.map_cons, List.nodup_append, List.nodup_cons] at nd
  obtain ⟨n1, ⟨n2, n3⟩, n4⟩ := nd
  intro x hx
  rw [List.eraseIdx_eq_take_drop_succ, List.mem_append] at hx
  rcases hx with hx | hx
  · exact n4 _ (List.mem_map.2 ⟨x, hx, rfl⟩) _ (by simp)
  · intro he
    exact n2 (List.mem_map.2 ⟨x, hx, he⟩)

theorem upsert_wf_maps {h : κ → Nat} {m : Map κ} (wf : WF h m) (key : κ) (val : Nat) :
    WF h (upsert h m key val) ∧
    (∀ k v, Maps h (upsert h m key val) k v ↔ if k = key then v = val else Maps h m k v) := by
  have hbi : h key &&& m.mask < m.buckets.length := by rw [wf.len]; exact idx_lt _ _
  cases hf : findIdx (ents m (h key &&& m.mask)) key (h key) with
  | some i =>
    obtain ⟨old, ho, hok, hoh, _, _, u⟩ := upsert_found wf key val i hf
    obtain ⟨hi, _, _⟩ := findIdx_some hf
    have hoe : old = (ents m (h key &&& m.mask))[i] := by
      rw [List.getElem?_eq_getElem hi] at ho; exact (Option.some.inj ho).symm
    have hmem : ∀ x, x ∈ (ents m (h key &&& m.mask)).set i { old with key := key, val := val } ↔
        x = { old with key := key, val := val } ∨ x ∈ (ents m (h key &&& m.mask)).eraseIdx i := fun x => mem_set_iff _ i _ x hi
    have hmem0 : ∀ x, x ∈ ents m (h key &&& m.mask) ↔ x = old ∨ x ∈ (ents m (h key &&& m.mask)).eraseIdx i := by
      intro x; rw [hoe]; exact mem_iff_eraseIdx _ i x hi
    constructor
    · refine wf_upd wf u hbi ?_ ?_ ?_ ?_ wf.lruNodup ?_
      · intro e he
        rcases (hmem e).1 he with rfl | he
        · exact ⟨hoh, by simp [hoh]⟩
        · exact wf.place _ e ((hmem0 e).2 (Or.inr he))
      · simp only [List.map_set]
        rw [set_same _ i key (by simpa using hi) (by simp [← hoe, hok])]; exact wf.nodup _
      · simp
      · have := wf.cap (h key &&& m.mask)
        simp only [List.length_set, growTotal]
        unfold ents at this ⊢
        split <;> omega
      · intro k
        rw [wf.lruMem k]
        split
        · rename_i hk; rw [hk]
          constructor
          · rintro ⟨e, he, h1, h2⟩
            rcases (hmem0 e).1 he with rfl | he
            · exact ⟨{ e with key := key, val := val }, (hmem _).2 (Or.inl rfl), by simp [← h1, hok], h2⟩
            · exact ⟨e, (hmem _).2 (Or.inr he), h1, h2⟩
          · rintro ⟨e, he, h1, h2⟩
            rcases (hmem e).1 he with rfl | he
            · exact ⟨old, (hmem0 _).2 (Or.inl rfl), by simpa [hok] using h1, h2⟩
            · exact ⟨e, (hmem0 _).2 (Or.inr he), h1, h2⟩
        · rfl
    · intro k v
      rw [maps_upd u hbi]
      by_cases hk : k = key
      · subst hk
        simp only [if_true]
        constructor
        · rintro ⟨e, he, h1, h2⟩
          rcases (hmem e).1 he with rfl | he
          · exact h2.symm
          · have hin := (hmem0 e).2 (Or.inr he)
            exact absurd (by rw [h1, ← hoe, hok]) (key_not_in_eraseIdx (·.key) _ i hi (wf.nodup _) e he)
        · intro hv
          exact ⟨_, (hmem _).2 (Or.inl rfl), rfl, hv.symm⟩
      · simp only [hk, if_false]
        unfold Maps
        split
        · rename_i hb; rw [hb]
          constructor
          · rintro ⟨e, he, h1, h2⟩
            rcases (hmem e).1 he with rfl | he
            · exact absurd h1.symm hk
            · exact ⟨e, (hmem0 _).2 (Or.inr he), h1, h2⟩
          · rintro ⟨e, he, h1, h2⟩
            rcases (hmem0 e).1 he with rfl | he
            · exact absurd (h1.symm.trans hok) hk
            · exact ⟨e, (hmem _).2 (Or.inr he), h1, h2⟩
        · rfl
  | none =>
    obtain ⟨_, u⟩ := upsert_fresh wf key val hf
    have hnk := findIdx_none_key wf key hf
    constructor
    · refine wf_upd wf u hbi ?_ ?_ ?_ ?_ wf.lruNodup ?_
      · intro e he
        rcases List.mem_append.1 he with he | he
        · exact wf.place _ e he
        · simp at he; subst he; exact ⟨rfl, rfl⟩
      · rw [List.map_append, List.nodup_append]
        refine ⟨wf.nodup _, by simp, ?_⟩
        intro a ha b hb
        simp at hb; subst hb
        obtain ⟨e, he, rfl⟩ := List.mem_map.1 ha
        exact hnk e he
      · simp; omega
      · have := wf.cap (h key &&& m.mask)
        have hs : 2 ≤ STEPS := by decide
        simp only [List.length_append, List.length_singleton, growTotal]
        unfold ents at this ⊢
        right
        split <;> omega
      · intro k
        rw [wf.lruMem k]
        split
        · rename_i hk; rw [hk]
          constructor
          · rintro ⟨e, he, h1, h2⟩
            exact ⟨e, List.mem_append.2 (Or.inl he), h1, h2⟩
          · rintro ⟨e, he, h1, h2⟩
            rcases List.mem_append.1 he with he | he
            · exact ⟨e, he, h1, h2⟩
            · simp at he; subst he; simp at h2
        · rfl
    · intro k v
      rw [maps_upd u hbi]
      by_cases hk : k = key
      · subst hk
        simp only [if_true]
        constructor
        · rintro ⟨e, he, h1, h2⟩
          rcases List.mem_append.1 he with he | he
          · exact absurd h1 (hnk e he)
          · simp at he; subst he; exact h2.symm
        · intro hv
          exact ⟨{ key := k, val := val, hash := h k, node := false }, List.mem_append.2 (Or.inr (by simp)), rfl, hv.symm⟩
      · simp only [hk, if_false]
        unfold Maps
        split
        · rename_i hb; rw [hb]
          constructor
          · rintro ⟨e, he, h1, h2⟩
            rcases List.mem_append.1 he with he | he
            · exact ⟨e, he, h1, h2⟩
            · simp at he; subst he; exact absurd h1.symm hk
          · rintro ⟨e, he, h1, h2⟩
            exact ⟨e, List.mem_append.2 (Or.inl he), h1, h2⟩
        · rfl

/-- all entries in iteration order -/
def all (m : Map κ) : List (Entry κ) := m.buckets.flatMap (·.ents)

theorem mem_all (m : Map κ) (e : Entry κ) : e ∈ all m ↔ ∃ i, e ∈ ents m i := by
  unfold all
  rw [List.mem_flatMap]
  constructor
  · rintro ⟨b, hb, he⟩
    obtain ⟨i, hi, rfl⟩ := List.mem_iff_getElem.1 hb
    exact ⟨i, by unfold ents; rw [← bucketAt_getElem m i hi]; exact he⟩
  · rintro ⟨i, he⟩
    by_cases hi : i < m.buckets.length
    · exact ⟨m.buckets[i], List.getElem_mem hi, by rw [bucketAt_getElem m i hi]; exact he⟩
    · rw [ents_oob m i (by omega)] at he; cases he

theorem nodup_flatMap {α β : Type} (f : α → List β) : ∀ (l : List α), (∀ a ∈ l, (f a).Nodup) →
    l.Pairwise (fun a b => ∀ x ∈ f a, ∀ y ∈ f b, x ≠ y) → (l.flatMap f).Nodup := by
  intro l
  induction l with
  | nil => intro _ _; simp
  | cons a t ih =>
    intro h1 h2
    rw [List.pairwise_cons] at h2
    rw [List.flatMap_cons, List.nodup_append]
    refine ⟨h1 a (by simp), ih (fun b hb => h1 b (by simp [hb])) h2.2, ?_⟩
    intro x hx y hy
    obtain ⟨b, hb, hyb⟩ := List.mem_flatMap.1 hy
    exact h2.1 b hb x hx y hyb

theorem all_keys_nodup {h : κ → Nat} {m : Map κ} (wf : WF h m) : ((all m).map (·.key)).Nodup := by
  unfold all
  rw [List.map_flatMap]
  apply nodup_flatMap
  · intro b hb
    obtain ⟨i, hi, rfl⟩ := List.mem_iff_getElem.1 hb
    have := wf.nodup i
    unfold ents at this; rw [← bucketAt_getElem m i hi] at this; exact this
  · rw [List.pairwise_iff_getElem]
    intro i j hi hj hij x hx y hy hxy
    obtain ⟨e1, he1, rfl⟩ := List.mem_map.1 hx
    obtain ⟨e2, he2, h2⟩ := List.mem_map.1 hy
    have p1 := wf.place i e1 (by unfold ents; rw [← bucketAt_getElem m i hi]; exact he1)
    have p2 := wf.place j e2 (by unfold ents; rw [← bucketAt_getElem m j hj]; exact he2)
    have : i = j := by rw [← p1.2, ← p2.2, p1.1, p2.1, h2, hxy]
    omega

/-- one iteration of the re-insertion loop of `_rehash` -/
def rstep (acc : Map κ) (e : Entry κ) : Map κ :=
  setBucket (entryAdd acc e.key e.hash).1 (entryAdd acc e.key e.hash).2.1
    { bucketAt (entryAdd acc e.key e.hash).1 (entryAdd acc e.key e.hash).2.1 with
      ents := (bucketAt (entryAdd acc e.key e.hash).1 (entryAdd acc e.key e.hash).2.1).ents.set (entryAdd acc e.key e.hash).2.2.1 e }

theorem rehash_eq (m : Map κ) (n : Nat) :
    rehash m n = { (all m).foldl rstep { m with buckets := List.replicate n {}, mask := n - 1, count := 0 } with count := m.count } := rfl

theorem setBucket_upd (m : Map κ) (bi : Nat) (b' : Bucket κ) : Upd m (setBucket m bi b') bi b' m.count m.lru := by
  simp [Upd, setBucket]

theorem entryAdd_fresh' (m : Map κ) (key : κ) (hash : Nat)
    (hf : findIdx (ents m (hash &&& m.mask)) key hash = none) :
    Upd m (entryAdd m key hash).1 (hash &&& m.mask)
      { ents := ents m (hash &&& m.mask) ++ [{ key := key, val := 0, hash := hash, node := false }],
        total := growTotal (bucketAt m (hash &&& m.mask)) } (m.count + 1) m.lru
    ∧ (entryAdd m key hash).2 = (hash &&& m.mask, (ents m (hash &&& m.mask)).length, true) := by
  unfold ents at hf
  simp [entryAdd, bucketAdd, hf, Upd, setBucket, growTotal, ents]

theorem rstep_fresh (acc : Map κ) (e : Entry κ) (hbi : e.hash &&& acc.mask < acc.buckets.length)
    (hf : findIdx (ents acc (e.hash &&& acc.mask)) e.key e.hash = none) :
    Upd acc (rstep acc e) (e.hash &&& acc.mask)
      { ents := ents acc (e.hash &&& acc.mask) ++ [e], total := growTotal (bucketAt acc (e.hash &&& acc.mask)) }
      (acc.count + 1) acc.lru := by
  obtain ⟨u, r2⟩ := entryAdd_fresh' acc e.key e.hash hf
  have e1 : (entryAdd acc e.key e.hash).2.1 = e.hash &&& acc.mask := by rw [r2]
  have e2 : (entryAdd acc e.key e.hash).2.2.1 = (ents acc (e.hash &&& acc.mask)).length := by rw [r2]
  unfold rstep
  rw [e1, e2, u.bucketAt_eq hbi]
  simp only [if_true]
  have t := u.trans (setBucket_upd (entryAdd acc e.key e.hash).1 (e.hash &&& acc.mask)
    ({ ents := (ents acc (e.hash &&& acc.mask) ++ [({ key := e.key, val := 0, hash := e.hash, node := false } : Entry κ)]).set
        (ents acc (e.hash &&& acc.mask)).length e, total := growTotal (bucketAt acc (e.hash &&& acc.mask)) } : Bucket κ))
  rw [u.2.2.1, u.2.2.2.1] at t
  simpa using t


/-- invariant of the re-insertion loop: `P` = entries moved so far -/
structure RInv (m : Map κ) (n : Nat) (acc : Map κ) (P : List (Entry κ)) : Prop where
  len : acc.buckets.length = n
  mask : acc.mask = n - 1
  ents : ∀ j, ents acc j = P.filter (fun e => e.hash &&& (n - 1) = j)
  cap : ∀ j, (HMap.ents acc j).length = 0 ∨ (HMap.ents acc j).length < (bucketAt acc j).total
  sum : (acc.buckets.map (·.ents.length)).sum = P.length
  cfg : acc.lru = m.lru ∧ acc.lruOn = m.lruOn ∧ acc.maxc = m.maxc ∧ acc.ownKeys = m.ownKeys

theorem rinv_init (m : Map κ) (n : Nat) :
    RInv m n { m with buckets := List.replicate n {}, mask := n - 1, count := 0 } [] := by
  refine ⟨by simp, rfl, ?_, ?_, ?_, ⟨rfl, rfl, rfl, rfl⟩⟩
  · intro j
    simp only [HMap.ents, bucketAt, List.getD_eq_getElem?_getD, List.getElem?_replicate, List.filter_nil]
    split <;> rfl
  · intro j
    left
    simp only [HMap.ents, bucketAt, List.getD_eq_getElem?_getD, List.getElem?_replicate]
    split <;> rfl
  · simp

theorem rinv_step {m : Map κ} {n : Nat} {acc : Map κ} {P : List (Entry κ)} (hn : 1 ≤ n)
    (inv : RInv m n acc P) (e : Entry κ) (hk : ∀ e' ∈ P, e'.key ≠ e.key) :
    RInv m n (rstep acc e) (P ++ [e]) := by
  have hbi : e.hash &&& acc.mask < acc.buckets.length := by
    rw [inv.len, inv.mask]; have := idx_lt e.hash (n - 1); omega
  have hf : findIdx (HMap.ents acc (e.hash &&& acc.mask)) e.key e.hash = none := by
    cases hc : findIdx (HMap.ents acc (e.hash &&& acc.mask)) e.key e.hash with
    | none => rfl
    | some i =>
      obtain ⟨hi, _, hkey⟩ := findIdx_some hc
      have hm : (HMap.ents acc (e.hash &&& acc.mask))[i] ∈ HMap.ents acc (e.hash &&& acc.mask) := List.getElem_mem hi
      generalize (HMap.ents acc (e.hash &&& acc.mask))[i] = x at hm hkey
      rw [inv.ents] at hm
      exact absurd hkey (hk _ (List.mem_filter.1 hm).1)
  have u := rstep_fresh acc e hbi hf
  have hs : 2 ≤ STEPS := by decide
  refine ⟨?_, ?_, ?_, ?_, ?_, ?_⟩
  · rw [u.1, List.length_set]; exact inv.len
  · rw [u.2.1]; exact inv.mask
  · intro j
    rw [u.ents_eq hbi, List.filter_append]
    split
    · rename_i hj
      rw [inv.ents, hj, inv.mask]
      simp
    · rename_i hj
      rw [inv.ents]
      rw [inv.mask] at hj
      have : ¬ (e.hash &&& (n - 1) = j) := fun h => hj h.symm
      simp [this]
  · intro j
    rw [u.ents_eq hbi, u.bucketAt_eq hbi]
    split
    · have := inv.cap (e.hash &&& acc.mask)
      simp only [List.length_append, List.length_singleton, growTotal]
      unfold HMap.ents at this ⊢
      right
      split <;> omega
    · exact inv.cap j
  · have := cnt_setBucket acc (e.hash &&& acc.mask)
      { ents := HMap.ents acc (e.hash &&& acc.mask) ++ [e], total := growTotal (bucketAt acc (e.hash &&& acc.mask)) } hbi
    unfold setBucket at this
    simp only at this
    rw [u.1]
    have := inv.sum
    simp only [List.length_append, List.length_singleton] at *
    omega
  · obtain ⟨c1, c2, c3, c4⟩ := inv.cfg
    exact ⟨by rw [u.2.2.2.1, c1], by rw [u.2.2.2.2.1, c2], by rw [u.2.2.2.2.2.1, c3], by rw [u.2.2.2.2.2.2, c4]⟩

theorem rinv_fold {m : Map κ} {n : Nat} (hn : 1 ≤ n) : ∀ (L : List (Entry κ)) (acc : Map κ) (P : List (Entry κ)),
    RInv m n acc P → ((P ++ L).map (·.key)).Nodup → RInv m n (L.foldl rstep acc) (P ++ L) := by
  intro L
  induction L with
  | nil => intro acc P inv _; simpa using inv
  | cons e t ih =>
    intro acc P inv nd
    have hk : ∀ e' ∈ P, e'.key ≠ e.key := by
      rw [List.map_append, List.nodup_append] at nd
      intro e' he'
      exact nd.2.2 _ (List.mem_map.2 ⟨e', he', rfl⟩) _ (by simp)
    have := ih (rstep acc e) (P ++ [e]) (rinv_step hn inv e hk) (by simpa using nd)
    simpa using this


/-- `_rehash` keeps the table well formed and represents the same key → value relation -/
theorem rehash_spec {h : κ → Nat} {m : Map κ} (wf : WF h m) (n : Nat) (hn : 1 ≤ n) :
    WF h (rehash m n) ∧ (∀ k v, Maps h (rehash m n) k v ↔ Maps h m k v) ∧
    (rehash m n).lru = m.lru ∧ (rehash m n).count = m.count ∧ (rehash m n).mask = n - 1 ∧
    (rehash m n).lruOn = m.lruOn ∧ (rehash m n).maxc = m.maxc ∧ (rehash m n).ownKeys = m.ownKeys := by
  have inv := rinv_fold hn (all m) _ [] (rinv_init m n) (by simpa using all_keys_nodup wf)
  simp only [List.nil_append] at inv
  rw [rehash_eq]
  generalize (all m).foldl rstep { m with buckets := List.replicate n {}, mask := n - 1, count := 0 } = acc at inv
  have hents : ∀ j, ents { acc with count := m.count } j = (all m).filter (fun e => e.hash &&& (n - 1) = j) := inv.ents
  have hmem : ∀ k e, (e ∈ ents { acc with count := m.count } (h k &&& (n - 1)) ∧ e.key = k) ↔
      (e ∈ ents m (h k &&& m.mask) ∧ e.key = k) := by
    intro k e
    rw [hents]
    constructor
    · rintro ⟨he, hk⟩
      obtain ⟨i, hi⟩ := (mem_all m e).1 (List.mem_filter.1 he).1
      have p := wf.place i e hi
      rw [← hk, ← p.1, p.2]; exact ⟨hi, rfl⟩
    · rintro ⟨he, hk⟩
      have p := wf.place _ e he
      refine ⟨List.mem_filter.2 ⟨(mem_all m e).2 ⟨_, he⟩, ?_⟩, hk⟩
      simp [p.1, hk]
  obtain ⟨c1, c2, c3, c4⟩ := inv.cfg
  refine ⟨⟨?_, ?_, ?_, ?_, ?_, ?_, ?_⟩, ?_, c1, rfl, inv.mask, c2, c3, c4⟩
  · show acc.buckets.length = acc.mask + 1
    rw [inv.len, inv.mask]; omega
  · intro i e he
    rw [hents] at he
    obtain ⟨ha, hb⟩ := List.mem_filter.1 he
    obtain ⟨j, hj⟩ := (mem_all m e).1 ha
    refine ⟨(wf.place j e hj).1, ?_⟩
    show e.hash &&& acc.mask = i
    rw [inv.mask]; simpa using hb
  · intro i
    rw [hents]
    exact List.Nodup.sublist (List.Sublist.map _ List.filter_sublist) (all_keys_nodup wf)
  · show m.count = (acc.buckets.map (·.ents.length)).sum
    rw [inv.sum, wf.cnt]; unfold all; rw [List.length_flatMap]
  · exact inv.cap
  · show acc.lru.Nodup
    rw [c1]; exact wf.lruNodup
  · intro k
    show k ∈ acc.lru ↔ ∃ e ∈ ents { acc with count := m.count } (h k &&& acc.mask), e.key = k ∧ e.node = true
    rw [c1, wf.lruMem k, inv.mask]
    constructor
    · rintro ⟨e, he, h1, h2⟩
      exact ⟨e, ((hmem k e).2 ⟨he, h1⟩).1, h1, h2⟩
    · rintro ⟨e, he, h1, h2⟩
      exact ⟨e, ((hmem k e).1 ⟨he, h1⟩).1, h1, h2⟩
  · intro k v
    unfold Maps
    show (∃ e ∈ ents { acc with count := m.count } (h k &&& acc.mask), e.key = k ∧ e.val = v) ↔ _
    rw [inv.mask]
    constructor
    · rintro ⟨e, he, h1, h2⟩
      exact ⟨e, ((hmem k e).1 ⟨he, h1⟩).1, h1, h2⟩
    · rintro ⟨e, he, h1, h2⟩
      exact ⟨e, ((hmem k e).2 ⟨he, h1⟩).1, h1, h2⟩

/-- "move the last entry into the hole, drop the last slot" -/
def swapRemove {α : Type} (l : List α) (i : Nat) (d : α) : List α :=
  (if i ≠ l.length - 1 then l.set i (l.getD (l.length - 1) d) else l).dropLast

theorem swap_perm_aux {α : Type} (D : List α) (z d : α) (i : Nat) (hi : i < (D ++ [z]).length) :
    (swapRemove (D ++ [z]) i d).Perm ((D ++ [z]).eraseIdx i) := by
  unfold swapRemove
  simp only [List.length_append, List.length_singleton, Nat.add_sub_cancel] at hi ⊢
  by_cases h : i = D.length
  · subst h
    simp [List.eraseIdx_append_of_length_le]
  · have hlt : i < D.length := by omega
    have hg : (D ++ [z]).getD D.length d = z := by simp [List.getD_eq_getElem?_getD]
    rw [if_pos h, hg, List.set_append_left _ _ hlt, List.dropLast_concat, List.eraseIdx_append_of_lt_length hlt]
    rw [List.set_eq_take_append_cons_drop, if_pos hlt]
    refine List.Perm.trans List.perm_middle ?_
    rw [← List.eraseIdx_eq_take_drop_succ]
    exact (List.perm_append_singleton z _).symm

theorem swapRemove_perm {α : Type} (l : List α) (i : Nat) (d : α) (hi : i < l.length) :
    (swapRemove l i d).Perm (l.eraseIdx i) := by
  have hne : l ≠ [] := by intro h; subst h; simp at hi
  have := swap_perm_aux l.dropLast (l.getLast hne) d i (by rw [List.dropLast_concat_getLast hne]; exact hi)
  rwa [List.dropLast_concat_getLast hne] at this

/-- the table right after unlinking entry `e` at (bi, ei), before the rehash-down / bucket-shrink decision -/
def rm1 (m : Map κ) (bi ei : Nat) (e : Entry κ) : Map κ :=
  { setBucket m bi { bucketAt m bi with ents := swapRemove (bucketAt m bi).ents ei e } with
    lru := if e.node then m.lru.erase e.key else m.lru, count := m.count - 1 }

theorem rm1_upd (m : Map κ) (bi ei : Nat) (e : Entry κ) :
    Upd m (rm1 m bi ei e) bi { bucketAt m bi with ents := swapRemove (bucketAt m bi).ents ei e }
      (m.count - 1) (if e.node then m.lru.erase e.key else m.lru) := by
  simp [Upd, rm1, setBucket]

theorem entryRemove_eq (m : Map κ) (bi ei : Nat) (e : Entry κ) (he : (ents m bi)[ei]? = some e) :
    entryRemove m bi ei =
      if (rm1 m bi ei e).mask > MIN_BUCKETS - 1 ∧ m.count - 1 < (rm1 m bi ei e).mask / 2 then
        (rehash (rm1 m bi ei e) (nBuckets (rm1 m bi ei e) / 2), freeToks m.ownKeys (some e.key) e.val)
      else if (swapRemove (bucketAt m bi).ents ei e).length / STEPS + 1 < (bucketAt m bi).total / STEPS then
        (setBucket (rm1 m bi ei e) bi (Bucket.mk (swapRemove (bucketAt m bi).ents ei e)
            (((swapRemove (bucketAt m bi).ents ei e).length / STEPS + 1) * STEPS)), freeToks m.ownKeys (some e.key) e.val)
      else (rm1 m bi ei e, freeToks m.ownKeys (some e.key) e.val) := by
  unfold ents at he
  unfold entryRemove
  simp only [he]
  rfl


theorem len_le_count {h : κ → Nat} {m : Map κ} (wf : WF h m) (i : Nat) : (ents m i).length ≤ m.count := by
  by_cases hi : i < m.buckets.length
  · have := cnt_setBucket m i {} hi
    have := wf.cnt
    simp at *; omega
  · rw [ents_oob m i (by omega)]; simp

theorem rm1_spec {h : κ → Nat} {m : Map κ} (wf : WF h m) (k : κ) (ei : Nat) (e : Entry κ)
    (he : (ents m (h k &&& m.mask))[ei]? = some e) (hk : e.key = k) :
    WF h (rm1 m (h k &&& m.mask) ei e) ∧
    (∀ k' v, Maps h (rm1 m (h k &&& m.mask) ei e) k' v ↔ (k' ≠ k ∧ Maps h m k' v)) ∧
    (rm1 m (h k &&& m.mask) ei e).lru = m.lru.erase k ∧ 1 ≤ m.count ∧ Maps h m k e.val := by
  have hbi : h k &&& m.mask < m.buckets.length := by rw [wf.len]; exact idx_lt _ _
  obtain ⟨hei, hee⟩ := List.getElem?_eq_some_iff.1 he
  have heB : e ∈ ents m (h k &&& m.mask) := hee ▸ List.getElem_mem hei
  have u := rm1_upd m (h k &&& m.mask) ei e
  have perm := swapRemove_perm (ents m (h k &&& m.mask)) ei e hei
  have hsw : ∀ x, x ∈ swapRemove (ents m (h k &&& m.mask)) ei e ↔ (x ∈ ents m (h k &&& m.mask) ∧ x.key ≠ k) := by
    intro x
    rw [perm.mem_iff]
    constructor
    · intro hx
      refine ⟨List.mem_of_mem_eraseIdx hx, ?_⟩
      have := key_not_in_eraseIdx (·.key) _ ei hei (wf.nodup _) x hx
      rwa [hee, hk] at this
    · rintro ⟨hx, hne⟩
      rcases (mem_iff_eraseIdx _ ei x hei).1 hx with rfl | hx
      · rw [hee] at hne; exact absurd hk hne
      · exact hx
  have hlen : (swapRemove (ents m (h k &&& m.mask)) ei e).length = (ents m (h k &&& m.mask)).length - 1 := by
    rw [perm.length_eq, List.length_eraseIdx, if_pos hei]
  have hc := len_le_count wf (h k &&& m.mask)
  have hlru : (if e.node then m.lru.erase e.key else m.lru) = m.lru.erase k := by
    split
    · rw [hk]
    · rename_i hn
      rw [List.erase_of_not_mem]
      intro hin
      obtain ⟨e', he', h1, h2⟩ := (wf.lruMem k).1 hin
      have := eq_of_nodup_map (·.key) _ (wf.nodup _) e' he' e heB (by rw [h1, hk])
      subst this; exact hn h2
  rw [hlru] at u
  refine ⟨?_, ?_, u.2.2.2.1, by omega, ⟨e, heB, hk, rfl⟩⟩
  · refine wf_upd wf u hbi ?_ ?_ ?_ ?_ (wf.lruNodup.erase k) ?_
    · intro x hx; exact wf.place _ x ((hsw x).1 hx).1
    · exact (perm.map _).nodup_iff.2 (List.Nodup.sublist (List.Sublist.map _ (List.eraseIdx_sublist _ _)) (wf.nodup _))
    · show m.count - 1 + _ = m.count + (swapRemove (ents m (h k &&& m.mask)) ei e).length
      rw [hlen]; omega
    · have := wf.cap (h k &&& m.mask)
      show (swapRemove (ents m (h k &&& m.mask)) ei e).length = 0 ∨ (swapRemove (ents m (h k &&& m.mask)) ei e).length < (bucketAt m (h k &&& m.mask)).total
      rw [hlen]; omega
    · intro k'
      rw [wf.lruNodup.mem_erase_iff, wf.lruMem k']
      split
      · rename_i hb
        rw [hb]
        constructor
        · rintro ⟨hne, x, hx, h1, h2⟩
          exact ⟨x, (hsw x).2 ⟨hx, by rw [h1]; exact hne⟩, h1, h2⟩
        · rintro ⟨x, hx, h1, h2⟩
          have := (hsw x).1 hx
          exact ⟨by rw [← h1]; exact this.2, x, this.1, h1, h2⟩
      · rename_i hb
        constructor
        · rintro ⟨_, x⟩; exact x
        · intro hx
          refine ⟨?_, hx⟩
          intro hkk; subst hkk; exact hb rfl
  · intro k' v
    rw [maps_upd u hbi]
    unfold Maps
    split
    · rename_i hb
      rw [hb]
      constructor
      · rintro ⟨x, hx, h1, h2⟩
        have := (hsw x).1 hx
        exact ⟨by rw [← h1]; exact this.2, x, this.1, h1, h2⟩
      · rintro ⟨hne, x, hx, h1, h2⟩
        exact ⟨x, (hsw x).2 ⟨hx, by rw [h1]; exact hne⟩, h1, h2⟩
    · rename_i hb
      constructor
      · intro hx
        refine ⟨?_, hx⟩
        intro hkk; subst hkk; exact hb rfl
      · rintro ⟨_, x⟩; exact x


/-- changing only the capacity of one bucket -/
theorem wf_retotal {h : κ → Nat} {m : Map κ} (wf : WF h m) (bi : Nat) (hbi : bi < m.buckets.length) (es : List (Entry κ))
    (hes : es = ents m bi) (t : Nat) (hcap : es.length = 0 ∨ es.length < t) :
    WF h (setBucket m bi { ents := es, total := t }) ∧
    (∀ k v, Maps h (setBucket m bi { ents := es, total := t }) k v ↔ Maps h m k v) := by
  subst hes
  have u := setBucket_upd m bi { ents := ents m bi, total := t }
  constructor
  · refine wf_upd wf u hbi (wf.place bi) (wf.nodup bi) (by have := wf.cnt; simp) hcap wf.lruNodup ?_
    intro k
    rw [wf.lruMem k]
    split
    · rename_i hb; rw [hb]
    · rfl
  · intro k v
    rw [maps_upd u hbi]
    unfold Maps
    split
    · rename_i hb; rw [hb]
    · rfl

theorem entryRemove_spec {h : κ → Nat} {m : Map κ} (wf : WF h m) (k : κ) (ei : Nat) (e : Entry κ)
    (he : (ents m (h k &&& m.mask))[ei]? = some e) (hk : e.key = k) :
    WF h (entryRemove m (h k &&& m.mask) ei).1 ∧
    (∀ k' v, Maps h (entryRemove m (h k &&& m.mask) ei).1 k' v ↔ (k' ≠ k ∧ Maps h m k' v)) ∧
    (entryRemove m (h k &&& m.mask) ei).1.lru = m.lru.erase k ∧
    (entryRemove m (h k &&& m.mask) ei).1.count = m.count - 1 ∧ 1 ≤ m.count ∧ Maps h m k e.val ∧
    (entryRemove m (h k &&& m.mask) ei).2 = freeToks m.ownKeys (some k) e.val ∧
    (entryRemove m (h k &&& m.mask) ei).1.lruOn = m.lruOn ∧ (entryRemove m (h k &&& m.mask) ei).1.maxc = m.maxc ∧
    (entryRemove m (h k &&& m.mask) ei).1.ownKeys = m.ownKeys := by
  obtain ⟨wf1, mp1, l1, c1, mk⟩ := rm1_spec wf k ei e he hk
  have u := rm1_upd m (h k &&& m.mask) ei e
  have hbi : h k &&& m.mask < m.buckets.length := by rw [wf.len]; exact idx_lt _ _
  rw [entryRemove_eq m _ ei e he, hk]
  split
  · rename_i hc
    have hn : 1 ≤ nBuckets (rm1 m (h k &&& m.mask) ei e) / 2 := by
      unfold nBuckets; omega
    obtain ⟨w2, mp2, l2, c2, _, o1, o2, o3⟩ := rehash_spec wf1 _ hn
    refine ⟨w2, fun k' v => (mp2 k' v).trans (mp1 k' v), by rw [l2, l1], by rw [c2]; exact u.2.2.1, c1, mk, rfl,
      by rw [o1]; exact u.2.2.2.2.1, by rw [o2]; exact u.2.2.2.2.2.1, by rw [o3]; exact u.2.2.2.2.2.2⟩
  · split
    · have hb1 : bucketAt (rm1 m (h k &&& m.mask) ei e) (h k &&& m.mask) =
          { bucketAt m (h k &&& m.mask) with ents := swapRemove (bucketAt m (h k &&& m.mask)).ents ei e } := by
        rw [u.bucketAt_eq hbi]; simp
      have hbi1 : h k &&& m.mask < (rm1 m (h k &&& m.mask) ei e).buckets.length := by
        rw [u.1, List.length_set]; exact hbi
      have hs : 1 ≤ STEPS := by decide
      obtain ⟨w2, mp2⟩ := wf_retotal wf1 (h k &&& m.mask) hbi1 (swapRemove (bucketAt m (h k &&& m.mask)).ents ei e)
        (by unfold ents; rw [hb1]) (((swapRemove (bucketAt m (h k &&& m.mask)).ents ei e).length / STEPS + 1) * STEPS)
        (by right; have := Nat.lt_div_mul_add (a := (swapRemove (bucketAt m (h k &&& m.mask)).ents ei e).length) (b := STEPS) (by omega)
            rw [Nat.add_mul, Nat.one_mul]; exact this)
      refine ⟨w2, fun k' v => (mp2 k' v).trans (mp1 k' v), l1, u.2.2.1, c1, mk, rfl, u.2.2.2.2.1, u.2.2.2.2.2.1, u.2.2.2.2.2.2⟩
    · exact ⟨wf1, mp1, l1, u.2.2.1, c1, mk, rfl, u.2.2.2.2.1, u.2.2.2.2.2.1, u.2.2.2.2.2.2⟩


/-- reference recency update: `k` becomes the newest -/
def touch (k : κ) (l : List κ) : List κ := l.erase k ++ [k]

theorem touch_last (k : κ) (l : List κ) (nd : l.Nodup) (hl : l.getLast? = some k) : touch k l = l := by
  obtain ⟨ys, rfl⟩ := List.getLast?_eq_some_iff.1 hl
  unfold touch
  rw [List.nodup_append] at nd
  have : k ∉ ys := fun h => nd.2.2 k h k (by simp) rfl
  rw [List.erase_append, if_neg this]; simp

/-- replacing only the recency list -/
theorem wf_relru {h : κ → Nat} {m : Map κ} (wf : WF h m) (L : List κ) (nd : L.Nodup)
    (hm : ∀ k, k ∈ L ↔ k ∈ m.lru) : WF h { m with lru := L } :=
  ⟨wf.len, wf.place, wf.nodup, wf.cnt, wf.cap, nd, fun k => (hm k).trans (wf.lruMem k)⟩

theorem lruUpdate_spec {h : κ → Nat} {m : Map κ} (wf : WF h m) (k : κ) (ei : Nat) (e : Entry κ)
    (he : (ents m (h e.key &&& m.mask))[ei]? = some e) (hk : e.key = k) :
    WF h (lruUpdate m (h e.key &&& m.mask) ei) ∧
    (∀ k' v, Maps h (lruUpdate m (h e.key &&& m.mask) ei) k' v ↔ Maps h m k' v) ∧
    (lruUpdate m (h e.key &&& m.mask) ei).lru = touch k m.lru ∧
    (lruUpdate m (h e.key &&& m.mask) ei).count = m.count ∧ (lruUpdate m (h e.key &&& m.mask) ei).mask = m.mask ∧
    (lruUpdate m (h e.key &&& m.mask) ei).lruOn = m.lruOn ∧ (lruUpdate m (h e.key &&& m.mask) ei).maxc = m.maxc ∧
    (lruUpdate m (h e.key &&& m.mask) ei).ownKeys = m.ownKeys := by
  subst hk
  have hk : e.key = e.key := rfl
  have hbi : h e.key &&& m.mask < m.buckets.length := by rw [wf.len]; exact idx_lt _ _
  obtain ⟨hei, hee⟩ := List.getElem?_eq_some_iff.1 he
  have heB : e ∈ ents m (h e.key &&& m.mask) := List.mem_of_getElem? he
  have he' : (bucketAt m (h e.key &&& m.mask)).ents[ei]? = some e := he
  unfold lruUpdate
  simp only [he']
  by_cases hn : e.node = true
  · simp only [hn, if_true]
    have hin : e.key ∈ m.lru := (wf.lruMem e.key).2 ⟨e, heB, hk, hn⟩
    split
    · rename_i hl
      exact ⟨wf, fun _ _ => Iff.rfl, (touch_last e.key _ wf.lruNodup hl).symm, rfl, rfl, rfl, rfl, rfl⟩
    · refine ⟨wf_relru wf _ ?_ ?_, fun _ _ => Iff.rfl, rfl, rfl, rfl, rfl, rfl, rfl⟩
      · rw [List.nodup_append]
        refine ⟨wf.lruNodup.erase e.key, by simp, ?_⟩
        intro a ha b hb
        simp at hb; subst hb
        exact ((wf.lruNodup.mem_erase_iff).1 ha).1
      · intro k'
        simp only [List.mem_append, List.mem_singleton, wf.lruNodup.mem_erase_iff]
        constructor
        · rintro (⟨_, hx⟩ | rfl)
          · exact hx
          · exact hin
        · intro hx
          by_cases hkk : k' = e.key
          · exact Or.inr hkk
          · exact Or.inl ⟨hkk, hx⟩
  · have hn' : e.node = false := by cases hnn : e.node <;> simp_all
    simp only [hn', Bool.false_eq_true, if_false]
    have hnin : e.key ∉ m.lru := by
      intro hin
      obtain ⟨x, hx, h1, h2⟩ := (wf.lruMem e.key).1 hin
      have := eq_of_nodup_map (·.key) _ (wf.nodup _) x hx e heB (by rw [h1, hk])
      subst this; exact hn h2
    have ht : touch e.key m.lru = m.lru ++ [e.key] := by unfold touch; rw [List.erase_of_not_mem hnin]
    have u : Upd m { setBucket m (h e.key &&& m.mask) { bucketAt m (h e.key &&& m.mask) with
          ents := (bucketAt m (h e.key &&& m.mask)).ents.set ei { e with node := true } } with lru := m.lru ++ [e.key] }
        (h e.key &&& m.mask) { bucketAt m (h e.key &&& m.mask) with ents := (ents m (h e.key &&& m.mask)).set ei { e with node := true } }
        m.count (m.lru ++ [e.key]) := by
      simp [Upd, setBucket, ents]
    have hmem : ∀ x, x ∈ (ents m (h e.key &&& m.mask)).set ei { e with node := true } ↔
        x = { e with node := true } ∨ x ∈ (ents m (h e.key &&& m.mask)).eraseIdx ei := fun x => mem_set_iff _ ei _ x hei
    have hmem0 : ∀ x, x ∈ ents m (h e.key &&& m.mask) ↔ x = e ∨ x ∈ (ents m (h e.key &&& m.mask)).eraseIdx ei := by
      intro x; have := mem_iff_eraseIdx _ ei x hei; rw [hee] at this; exact this
    refine ⟨?_, ?_, ht.symm, rfl, rfl, rfl, rfl, rfl⟩
    · refine wf_upd wf u hbi ?_ ?_ ?_ ?_ ?_ ?_
      · intro x hx
        rcases (hmem x).1 hx with rfl | hx
        · exact wf.place _ e heB
        · exact wf.place _ x ((hmem0 x).2 (Or.inr hx))
      · show (List.map (·.key) ((ents m (h e.key &&& m.mask)).set ei { e with node := true })).Nodup
        rw [List.map_set, set_same _ ei _ (by simpa using hei) (by simp [hee])]; exact wf.nodup _
      · simp
      · have := wf.cap (h e.key &&& m.mask)
        show ((ents m (h e.key &&& m.mask)).set ei { e with node := true }).length = 0 ∨ _ < (bucketAt m (h e.key &&& m.mask)).total
        rw [List.length_set]; exact this
      · rw [List.nodup_append]
        refine ⟨wf.lruNodup, by simp, ?_⟩
        intro a ha b hb
        simp at hb; subst hb
        intro hab; subst hab; exact hnin ha
      · intro k'
        simp only [List.mem_append, List.mem_singleton, wf.lruMem k']
        split
        · rename_i hb; rw [hb]
          constructor
          · rintro (⟨x, hx, h1, h2⟩ | rfl)
            · rcases (hmem0 x).1 hx with rfl | hx
              · exact ⟨{ x with node := true }, (hmem _).2 (Or.inl rfl), h1, rfl⟩
              · exact ⟨x, (hmem _).2 (Or.inr hx), h1, h2⟩
            · exact ⟨{ e with node := true }, (hmem _).2 (Or.inl rfl), hk, rfl⟩
          · rintro ⟨x, hx, h1, h2⟩
            rcases (hmem x).1 hx with rfl | hx
            · right; rw [← h1]
            · left; exact ⟨x, (hmem0 _).2 (Or.inr hx), h1, h2⟩
        · rename_i hb
          constructor
          · rintro (hx | rfl)
            · exact hx
            · exact absurd rfl hb
          · intro hx; exact Or.inl hx
    · intro k' v
      rw [maps_upd u hbi]
      unfold Maps
      split
      · rename_i hb; rw [hb]
        constructor
        · rintro ⟨x, hx, h1, h2⟩
          rcases (hmem x).1 hx with rfl | hx
          · exact ⟨e, heB, h1, h2⟩
          · exact ⟨x, (hmem0 _).2 (Or.inr hx), h1, h2⟩
        · rintro ⟨x, hx, h1, h2⟩
          rcases (hmem0 x).1 hx with rfl | hx
          · exact ⟨{ x with node := true }, (hmem _).2 (Or.inl rfl), h1, h2⟩
          · exact ⟨x, (hmem _).2 (Or.inr hx), h1, h2⟩
      · rfl

/-- overwriting the value of the entry at (bucket of its key, i) -/
theorem setval_spec {h : κ → Nat} {m : Map κ} (wf : WF h m) (i : Nat) (old : Entry κ) (val : Nat)
    (ho : (ents m (h old.key &&& m.mask))[i]? = some old) :
    WF h (setKV m (h old.key &&& m.mask) i old.key val) ∧
    (∀ k v, Maps h (setKV m (h old.key &&& m.mask) i old.key val) k v ↔ if k = old.key then v = val else Maps h m k v) ∧
    (ents (setKV m (h old.key &&& m.mask) i old.key val) (h old.key &&& m.mask))[i]? = some { old with val := val } ∧
    Upd m (setKV m (h old.key &&& m.mask) i old.key val) (h old.key &&& m.mask)
      { bucketAt m (h old.key &&& m.mask) with ents := (ents m (h old.key &&& m.mask)).set i { old with val := val } } m.count m.lru := by
  have hbi : h old.key &&& m.mask < m.buckets.length := by rw [wf.len]; exact idx_lt _ _
  obtain ⟨hi, hoe⟩ := List.getElem?_eq_some_iff.1 ho
  have hoB : old ∈ ents m (h old.key &&& m.mask) := List.mem_of_getElem? ho
  have u : Upd m (setKV m (h old.key &&& m.mask) i old.key val) (h old.key &&& m.mask)
      { bucketAt m (h old.key &&& m.mask) with ents := (ents m (h old.key &&& m.mask)).set i { old with val := val } } m.count m.lru := by
    have := setKV_upd m (h old.key &&& m.mask) i old.key val old ho
    exact this
  have hmem : ∀ x, x ∈ (ents m (h old.key &&& m.mask)).set i { old with val := val } ↔
      x = { old with val := val } ∨ x ∈ (ents m (h old.key &&& m.mask)).eraseIdx i := fun x => mem_set_iff _ i _ x hi
  have hmem0 : ∀ x, x ∈ ents m (h old.key &&& m.mask) ↔ x = old ∨ x ∈ (ents m (h old.key &&& m.mask)).eraseIdx i := by
    intro x; have := mem_iff_eraseIdx _ i x hi; rw [hoe] at this; exact this
  refine ⟨?_, ?_, ?_, u⟩
  · refine wf_upd wf u hbi ?_ ?_ ?_ ?_ wf.lruNodup ?_
    · intro e he
      rcases (hmem e).1 he with rfl | he
      · exact wf.place _ old hoB
      · exact wf.place _ e ((hmem0 e).2 (Or.inr he))
    · show (List.map (·.key) ((ents m (h old.key &&& m.mask)).set i { old with val := val })).Nodup
      rw [List.map_set, set_same _ i _ (by simpa using hi) (by simp [hoe])]; exact wf.nodup _
    · simp
    · have := wf.cap (h old.key &&& m.mask)
      show ((ents m (h old.key &&& m.mask)).set i { old with val := val }).length = 0 ∨ _ < (bucketAt m (h old.key &&& m.mask)).total
      rw [List.length_set]; exact this
    · intro k
      rw [wf.lruMem k]
      split
      · rename_i hk; rw [hk]
        constructor
        · rintro ⟨e, he, h1, h2⟩
          rcases (hmem0 e).1 he with rfl | he
          · exact ⟨{ e with val := val }, (hmem _).2 (Or.inl rfl), h1, h2⟩
          · exact ⟨e, (hmem _).2 (Or.inr he), h1, h2⟩
        · rintro ⟨e, he, h1, h2⟩
          rcases (hmem e).1 he with rfl | he
          · exact ⟨old, hoB, h1, h2⟩
          · exact ⟨e, (hmem0 _).2 (Or.inr he), h1, h2⟩
      · rfl
  · intro k v
    rw [maps_upd u hbi]
    by_cases hk : k = old.key
    · subst hk
      simp only [if_true]
      constructor
      · rintro ⟨e, he, h1, h2⟩
        rcases (hmem e).1 he with rfl | he
        · exact h2.symm
        · exact absurd (by rw [h1, hoe]) (key_not_in_eraseIdx (·.key) _ i hi (wf.nodup _) e he)
      · intro hv
        exact ⟨{ old with val := val }, (hmem _).2 (Or.inl rfl), rfl, hv.symm⟩
    · simp only [hk, if_false]
      unfold Maps
      split
      · rename_i hb; rw [hb]
        constructor
        · rintro ⟨e, he, h1, h2⟩
          rcases (hmem e).1 he with rfl | he
          · exact absurd h1.symm hk
          · exact ⟨e, (hmem0 _).2 (Or.inr he), h1, h2⟩
        · rintro ⟨e, he, h1, h2⟩
          rcases (hmem0 e).1 he with rfl | he
          · exact absurd h1.symm hk
          · exact ⟨e, (hmem _).2 (Or.inr he), h1, h2⟩
      · rfl
  · rw [u.ents_eq hbi, if_pos rfl]
    show ((ents m (h old.key &&& m.mask)).set i { old with val := val })[i]? = _
    simp [hi]

/-- `locate` in a well-formed table -/
theorem locate_some {h : κ → Nat} {m : Map κ} (k : κ) {bi ei : Nat}
    (hl : locate m k (h k) = some (bi, ei)) :
    bi = h k &&& m.mask ∧ ∃ e, (ents m (h k &&& m.mask))[ei]? = some e ∧ e.key = k := by
  unfold locate at hl
  cases hf : findIdx (bucketAt m (h k &&& m.mask)).ents k (h k) with
  | none => simp [hf] at hl
  | some i =>
    simp [hf] at hl
    obtain ⟨hi, _, hk⟩ := findIdx_some hf
    refine ⟨hl.1.symm, _, ?_, hk⟩
    rw [← hl.2]; exact List.getElem?_eq_getElem hi

theorem locate_none {h : κ → Nat} {m : Map κ} (wf : WF h m) (k : κ) (hl : locate m k (h k) = none) :
    ∀ v, ¬ Maps h m k v := by
  unfold locate at hl
  cases hf : findIdx (bucketAt m (h k &&& m.mask)).ents k (h k) with
  | some i => simp [hf] at hl
  | none =>
    rintro v ⟨e, he, h1, _⟩
    exact findIdx_none_key wf k hf e he h1

end IwModel.HMap
