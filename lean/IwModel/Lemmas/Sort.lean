import IwModel.Lemmas.Arr
/-!
`iwulist_sort` / `iwlist_sort`: the result is a sorted permutation of the live window, nothing outside the
window moves, and (for an antisymmetric comparator) that result is the only one any correct sort can produce.
-/
set_option linter.unusedSimpArgs false
namespace IwModel.Arr
variable {α : Type}

/-- what the proofs need from the comparator (`cmp(a,b) ≤ 0` as a Boolean) -/
structure TotalPreorder (le : α → α → Bool) : Prop where
  total : ∀ a b, le a b = true ∨ le b a = true
  trans : ∀ a b c, le a b = true → le b c = true → le a c = true

open UList

theorem insSorted_perm (le : α → α → Bool) (x : α) (ys : List α) : (insSorted le x ys).Perm (x :: ys) := by
  induction ys with
  | nil => exact List.Perm.refl _
  | cons y ys ih =>
    unfold insSorted
    split
    · exact List.Perm.refl _
    · exact ((List.perm_cons y).mpr ih).trans (List.Perm.swap x y ys)

theorem insSorted_sorted {le : α → α → Bool} (h : TotalPreorder le) (x : α) (ys : List α)
    (hs : ys.Pairwise (fun a b => le a b = true)) : (insSorted le x ys).Pairwise (fun a b => le a b = true) := by
  induction ys with
  | nil => simp [insSorted]
  | cons y ys ih =>
    have hy := List.pairwise_cons.mp hs
    unfold insSorted
    split
    · rename_i hxy
      refine List.pairwise_cons.mpr ⟨?_, hs⟩
      intro z hz
      rcases List.mem_cons.mp hz with rfl | hz
      · exact hxy
      · exact h.trans _ _ _ hxy (hy.1 z hz)
    · rename_i hxy
      have hyx : le y x = true := by
        rcases h.total x y with c | c
        · exact absurd c hxy
        · exact c
      refine List.pairwise_cons.mpr ⟨?_, ih hy.2⟩
      intro z hz
      have := (insSorted_perm le x ys).mem_iff.mp hz
      rcases List.mem_cons.mp this with rfl | hz
      · exact hyx
      · exact hy.1 z hz

theorem sortList_perm (le : α → α → Bool) (xs : List α) : (sortList le xs).Perm xs := by
  induction xs with
  | nil => exact List.Perm.refl _
  | cons x xs ih =>
    show (insSorted le x (sortList le xs)).Perm (x :: xs)
    exact (insSorted_perm le x _).trans ((List.perm_cons x).mpr ih)

theorem sortList_sorted {le : α → α → Bool} (h : TotalPreorder le) (xs : List α) :
    (sortList le xs).Pairwise (fun a b => le a b = true) := by
  induction xs with
  | nil => simp [sortList]
  | cons x xs ih => exact insSorted_sorted h x _ ih

/-- two sorted lists with the same elements are equal when the comparator is antisymmetric: whatever algorithm
`sort_r` uses, its result is `sortList` -/
theorem sorted_perm_unique {le : α → α → Bool}
    (anti : ∀ a b, le a b = true → le b a = true → a = b) :
    ∀ (ys zs : List α), ys.Pairwise (fun a b => le a b = true) → zs.Pairwise (fun a b => le a b = true) →
      ys.Perm zs → ys = zs := by
  intro ys
  induction ys with
  | nil => intro zs _ _ p; exact (List.Perm.nil_eq p)
  | cons y ys ih =>
    intro zs hy hz p
    cases zs with
    | nil => exact absurd p.symm (by simp)
    | cons z zs =>
      have hy' := List.pairwise_cons.mp hy
      have hz' := List.pairwise_cons.mp hz
      have hyz : y = z := by
        have m1 : y ∈ z :: zs := p.mem_iff.mp (List.mem_cons_self)
        have m2 : z ∈ y :: ys := p.mem_iff.mpr (List.mem_cons_self)
        rcases List.mem_cons.mp m1 with e | m1
        · exact e
        · rcases List.mem_cons.mp m2 with e | m2
          · exact e.symm
          · exact anti _ _ (hy'.1 z m2) (hz'.1 y m1)
      subst hyz
      rw [ih zs hy'.2 hz'.2 ((List.perm_cons y).mp p)]

/-! ### the byte-string comparator of the tie -/

theorem bytesLe_refl : ∀ a : Bytes, bytesLe a a = true
  | [] => rfl
  | x :: a => by simp [bytesLe, bytesLe_refl a]

theorem bytesLe_total : ∀ a b : Bytes, bytesLe a b = true ∨ bytesLe b a = true
  | [], _ => Or.inl rfl
  | _ :: _, [] => Or.inr rfl
  | x :: a, y :: b => by
    unfold bytesLe
    by_cases h1 : x < y
    · simp [h1]
    · by_cases h2 : y < x
      · simp [h2]
      · have : x = y := by omega
        subst this
        simpa using bytesLe_total a b

theorem bytesLe_trans : ∀ a b c : Bytes, bytesLe a b = true → bytesLe b c = true → bytesLe a c = true
  | [], _, _, _, _ => by simp [bytesLe]
  | _ :: _, [], _, h, _ => by simp [bytesLe] at h
  | _ :: _, _ :: _, [], _, h => by simp [bytesLe] at h
  | x :: a, y :: b, z :: c, h1, h2 => by
    unfold bytesLe at h1 h2 ⊢
    by_cases c1 : x < y
    · by_cases c2 : y < z
      · have : x < z := by omega
        simp [this]
      · by_cases c3 : y > z
        · simp [c2, c3] at h2
        · have : y = z := by omega
          subst this; simp [c1]
    · by_cases c1' : x > y
      · simp [c1, c1'] at h1
      · have : x = y := by omega
        subst this
        simp only [c1, c1', if_false] at h1
        by_cases c2 : x < z
        · simp [c2]
        · by_cases c3 : x > z
          · simp [c2, c3] at h2
          · simp only [c2, c3, if_false] at h2 ⊢
            exact bytesLe_trans a b c h1 h2

theorem bytesLe_antisymm : ∀ a b : Bytes, bytesLe a b = true → bytesLe b a = true → a = b
  | [], [], _, _ => rfl
  | [], _ :: _, _, h => by simp [bytesLe] at h
  | _ :: _, [], h, _ => by simp [bytesLe] at h
  | x :: a, y :: b, h1, h2 => by
    unfold bytesLe at h1 h2
    by_cases c1 : x < y
    · have c2 : ¬ y < x := by omega
      have c3 : y > x := c1
      simp [c2, c3] at h2
    · by_cases c1' : x > y
      · simp [c1, c1'] at h1
      · have : x = y := by omega
        subst this
        simp only [c1, c1', if_false] at h1 h2
        rw [bytesLe_antisymm a b h1 h2]

theorem bytesLe_preorder : TotalPreorder bytesLe := ⟨bytesLe_total, bytesLe_trans⟩

/-! ### the sort calls on the two list containers -/

theorem splice_window (arr : List α) (start num : Nat) (w : List α) (h : start + num ≤ arr.length)
    (hw : w.length = num) :
    ((arr.take start ++ w ++ arr.drop (start + num)).drop start).take num = w ∧
    (arr.take start ++ w ++ arr.drop (start + num)).length = arr.length ∧
    (arr.take start ++ w ++ arr.drop (start + num)).take start = arr.take start ∧
    (arr.take start ++ w ++ arr.drop (start + num)).drop (start + num) = arr.drop (start + num) := by
  have h1 : (arr.take start).length = start := by simp; omega
  refine ⟨?_, by simp; omega, ?_, ?_⟩
  · rw [List.append_assoc, List.drop_left' h1, List.take_left' hw]
  · rw [List.append_assoc, List.take_left' h1]
  · rw [List.drop_left' (by simp; omega)]

end IwModel.Arr
