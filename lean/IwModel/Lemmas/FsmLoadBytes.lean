import IwModel.Model.FsmScan
import IwModel.Model.Fsm
/-! The byte-wise bitmap scan of `_fsm_load_fsm_lw` equals the bit-wise scan `Fsm.runs`. Core Lean only. -/
namespace IwModel.FsmScan
open IwModel

/-- bit `i` of a byte, least significant first -/
def byteBit (bb i : Nat) : Bool := decide (bb / 2 ^ i % 2 = 1)
def bitsOfByte (bb : Nat) : List Bool := (List.range 8).map (byteBit bb)
def bitsOfBytes (bs : List Nat) : List Bool := bs.flatMap bitsOfByte

/-- one bit of the scan of `_fsm_load_fsm_lw`: state = (bits consumed, length of the open clear run, runs found) -/
def stepBit (st : Nat × Nat × List (Nat × Nat)) (b : Bool) : Nat × Nat × List (Nat × Nat) :=
  if b then (st.1 + 1, 0, if st.2.1 ≠ 0 then (st.1 - st.2.1, st.2.1) :: st.2.2 else st.2.2)
  else (st.1 + 1, st.2.1 + 1, st.2.2)

def finish (st : Nat × Nat × List (Nat × Nat)) : List (Nat × Nat) :=
  (if st.2.1 > 0 then (st.1 - st.2.1, st.2.1) :: st.2.2 else st.2.2).reverse

theorem loadBits_eq (n bb i cb fbk : Nat) (acc : List (Nat × Nat)) :
    loadBits n bb i cb fbk acc = ((List.range' i n).map (byteBit bb)).foldl stepBit (cb, fbk, acc) := by
  induction n generalizing i cb fbk acc with
  | zero => simp [loadBits]
  | succ n ih =>
    simp only [loadBits, List.range'_succ, List.map_cons, List.foldl_cons]
    by_cases h : bb / 2 ^ i % 2 = 1
    · simp only [h, if_true, ih, stepBit, byteBit, decide_true]
    · simp only [h, if_false, ih, stepBit, byteBit, decide_false, Bool.false_eq_true]

theorem bitsOfByte_zero : bitsOfByte 0 = List.replicate 8 false := by decide
theorem bitsOfByte_ff : bitsOfByte 255 = List.replicate 8 true := by decide

theorem loadBytes_eq (bs : List Nat) (cb fbk : Nat) (acc : List (Nat × Nat)) :
    loadBytes bs cb fbk acc = finish ((bitsOfBytes bs).foldl stepBit (cb, fbk, acc)) := by
  induction bs generalizing cb fbk acc with
  | nil => simp [loadBytes, bitsOfBytes, finish]
  | cons bb rest ih =>
    simp only [loadBytes, bitsOfBytes, List.flatMap_cons, List.foldl_append]
    by_cases h0 : bb = 0
    · subst h0
      rw [if_pos rfl, ih, bitsOfByte_zero]
      simp [stepBit, bitsOfBytes, List.replicate]
    · rw [if_neg h0]
      by_cases hf : bb = 255
      · subst hf
        rw [if_pos rfl, ih, bitsOfByte_ff]
        by_cases c : fbk ≠ 0
        · simp [stepBit, bitsOfBytes, List.replicate, c]
        · have : fbk = 0 := by omega
          subst this
          simp [stepBit, bitsOfBytes, List.replicate]
      · rw [if_neg hf]
        have := loadBits_eq 8 bb 0 cb fbk acc
        rw [this]
        have e : (List.range' 0 8).map (byteBit bb) = bitsOfByte bb := by
          unfold bitsOfByte; rw [List.range_eq_range']
        rw [e]
        generalize (bitsOfByte bb).foldl stepBit (cb, fbk, acc) = st
        obtain ⟨a, b, c⟩ := st
        simp only
        rw [ih]
        rfl

def curLen (i : Nat) : Option Nat → Nat
  | some st => i - st
  | none => 0

theorem runsAux_eq (b : Fsm.Bits) (fuel i : Nat) (cur : Option Nat) (acc : List (Nat × Nat)) (hf : fuel + i = b.size)
    (hc : ∀ st, cur = some st → st < i) :
    Fsm.runsAux b fuel i cur acc = finish ((b.toList.drop i).foldl stepBit (i, curLen i cur, acc)) := by
  induction fuel generalizing i cur acc with
  | zero =>
    have : b.toList.drop i = [] := by
      apply List.drop_eq_nil_of_le; simp; omega
    rw [this]
    cases cur with
    | some st =>
      have := hc st rfl
      have e : i - (i - st) = st := by omega
      have h0 : i - st > 0 := by omega
      simp [Fsm.runsAux, finish, curLen, e, h0]
    | none => simp [Fsm.runsAux, finish, curLen]
  | succ fuel ih =>
    have hi : i < b.size := by omega
    have hd : b.toList.drop i = b[i] :: b.toList.drop (i + 1) := by
      rw [List.drop_eq_getElem_cons (by simpa using hi)]; simp
    have hbit : Fsm.bit b i = b[i] := by
      simp [Fsm.bit, Array.getD, hi]
    rw [hd, List.foldl_cons]
    simp only [Fsm.runsAux, hbit]
    cases hb : b[i] with
    | true =>
      simp only [if_true]
      cases cur with
      | some st =>
        have := hc st rfl
        have e : i - (i - st) = st := by omega
        have h0 : i - st ≠ 0 := by omega
        simp only
        rw [ih (i + 1) none _ (by omega) (by intro st h; cases h)]
        simp [stepBit, curLen, e, h0]
      | none =>
        simp only
        rw [ih (i + 1) none _ (by omega) (by intro st h; cases h)]
        simp [stepBit, curLen]
    | false =>
      simp only [Bool.false_eq_true, if_false]
      cases cur with
      | some st =>
        have := hc st rfl
        have e : i + 1 - st = i - st + 1 := by omega
        simp only
        rw [ih (i + 1) (some st) _ (by omega) (by intro st' h; cases h; omega)]
        simp [stepBit, curLen, e]
      | none =>
        simp only
        rw [ih (i + 1) (some i) _ (by omega) (by intro st' h; cases h; omega)]
        simp [stepBit, curLen]

/-- **load_spec.** The byte-wise scan of `_fsm_load_fsm_lw` (whole 0x00 and 0xff bytes in one step) yields the same
    extents, in the same order, as the bit-by-bit scan `runs` that the model's index rebuild uses -/
theorem load_spec (bytes : List Nat) : load bytes = Fsm.runs (bitsOfBytes bytes).toArray := by
  unfold load Fsm.runs
  rw [loadBytes_eq, runsAux_eq _ _ _ _ _ (by simp) (by intro st h; cases h)]
  simp [curLen]

end IwModel.FsmScan
