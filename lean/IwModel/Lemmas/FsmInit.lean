import IwModel.Lemmas.FsmLoad
/-! `_fsm_init_lw` (first initialisation and relocation of the bitmap) establishes / preserves the invariant. -/
namespace IwModel.Fsm

theorem bit_replicate (n i : Nat) : bit (Array.replicate n false) i = if i < n then false else true := by
  simp only [bit_eq, Array.getElem?_replicate]
  split <;> simp

theorem bit_append_replicate (a : Bits) (n i : Nat) :
    bit (a ++ Array.replicate n false) i = if i < a.size then bit a i else if i < a.size + n then false else true := by
  simp only [bit_eq, Array.getElem?_append, Array.getElem?_replicate]
  by_cases h : i < a.size
  · simp [h]
  · simp only [h, if_false]
    by_cases h2 : i < a.size + n
    · have : i - a.size < n := by omega
      simp [h2, this]
    · have : ¬ (i - a.size < n) := by omega
      simp [h2, this]

theorem div_add_div_of_mod {a b k : Nat} (hk : 0 < k) (ha : a % k = 0) (hb : b % k = 0) :
    a / k + b / k = (a + b) / k := by
  have h1 := Nat.div_add_mod a k
  have h2 := Nat.div_add_mod b k
  rw [ha] at h1; rw [hb] at h2
  have : a + b = k * (a / k + b / k) := by rw [Nat.mul_add]; omega
  rw [this, Nat.mul_div_cancel_left _ hk]

theorem bsz_pos (s : St) : 0 < bsz s := by unfold bsz; exact Nat.pow_pos (by omega)

theorem div_pos_of_mod {a k : Nat} (hk : 0 < k) (ha : a % k = 0) (hpos : 0 < a) : 0 < a / k := by
  have h1 := Nat.div_add_mod a k
  rw [ha] at h1
  by_cases c : a / k = 0
  · rw [c] at h1; omega
  · exact Nat.pos_of_ne_zero c

/-- geometry after installing a bitmap -/
structure Moved (s s' : St) (bo bl : Nat) : Prop where
  bpow : s'.bpow = s.bpow
  aunit : s'.aunit = s.aunit
  hdrlen : s'.hdrlen = s.hdrlen
  strict : s'.strict = s.strict
  bmoff : s'.bmoff = bo
  bmlen : s'.bmlen = bl

theorem installBitmap_moved (s : St) (bo bl : Nat) : Moved s (installBitmap s bo bl) bo bl := by
  unfold installBitmap
  simp only
  split
  · refine ⟨?_, ?_, ?_, ?_, ?_, ?_⟩ <;> simp only <;>
      first
      | rw [(loadTree_frame _).bpow] | rw [(loadTree_frame _).aunit] | rw [(loadTree_frame _).hdrlen]
      | rw [(loadTree_frame _).strict] | rw [(loadTree_frame _).bmoff] | rw [(loadTree_frame _).bmlen]
  · refine ⟨?_, ?_, ?_, ?_, ?_, ?_⟩ <;> simp only <;>
      first
      | rw [(loadTree_frame _).bpow] | rw [(loadTree_frame _).aunit] | rw [(loadTree_frame _).hdrlen]
      | rw [(loadTree_frame _).strict] | rw [(loadTree_frame _).bmoff] | rw [(loadTree_frame _).bmlen]

theorem installBitmap_idxOk (s : St) (bo bl : Nat) : IdxOk (installBitmap s bo bl) := by
  unfold installBitmap
  simp only
  exact (loadTree_idxOk _).congr rfl rfl rfl rfl

/-- bitmap content after relocation: old content, zeros in the extension, the new bitmap's blocks set -/
theorem installBitmap_bits_move {s : St} (h0 : s.bmlen ≠ 0) (bo bl : Nat) :
    (installBitmap s bo bl).bits =
      setRange (s.bits ++ Array.replicate ((bl - s.bmlen) * 8) false) (bo / bsz s) (bl / bsz s) true := by
  unfold installBitmap
  simp only [h0, ne_eq, not_false_eq_true, if_true, if_false]
  rw [loadTree_bits]
  rfl

theorem installBitmap_bits_new {s : St} (h0 : s.bmlen = 0) (bo bl : Nat) :
    (installBitmap s bo bl).bits =
      setRange (setRange (Array.replicate (bl * 8) false) (bo / bsz s) (bl / bsz s) true) 0 (hdrBlk s) true := by
  unfold installBitmap
  simp only [h0, ne_eq, not_true_eq_false, if_false, if_true]
  rw [loadTree_bits]
  rfl

theorem Moved.bsz {s s' : St} {bo bl : Nat} (h : Moved s s' bo bl) : Fsm.bsz s' = Fsm.bsz s := by simp [Fsm.bsz, h.bpow]
theorem Moved.hdrBlk {s s' : St} {bo bl : Nat} (h : Moved s s' bo bl) : Fsm.hdrBlk s' = Fsm.hdrBlk s := by
  simp [Fsm.hdrBlk, h.hdrlen, h.bsz]
theorem Moved.bmOffBlk {s s' : St} {bo bl : Nat} (h : Moved s s' bo bl) : Fsm.bmOffBlk s' = bo / Fsm.bsz s := by
  simp [Fsm.bmOffBlk, h.bmoff, h.bsz]
theorem Moved.bmLenBlk {s s' : St} {bo bl : Nat} (h : Moved s s' bo bl) : Fsm.bmLenBlk s' = bl / Fsm.bsz s := by
  simp [Fsm.bmLenBlk, h.bmlen, h.bsz]
theorem Moved.nbits {s s' : St} {bo bl : Nat} (h : Moved s s' bo bl) : Fsm.nbits s' = bl * 8 := by
  simp [Fsm.nbits, h.bmlen]
theorem Moved.aunitBlk {s s' : St} {bo bl : Nat} (h : Moved s s' bo bl) : Fsm.aunitBlk s' = Fsm.aunitBlk s := by
  simp [Fsm.aunitBlk, h.aunit, h.bsz]

/-- relocation / growth of the bitmap: the invariant holds for the new bitmap, and every block that was
    allocated stays allocated -/
theorem inv_installBitmap_move {s : St} (hI : Inv s) {bo bl : Nat} (hbl : bl % bsz s = 0) (hbo : bo % bsz s = 0)
    (hge : s.bmlen ≤ bl) (hfit : (bo + bl) / bsz s + 1 ≤ bl * 8) (hhdr : hdrBlk s ≤ bo / bsz s)
    (hpg : bo % s.aunit = 0) :
    Inv (installBitmap s bo bl) ∧
    (∀ i, i < s.bits.size → bit s.bits i = true → bit (installBitmap s bo bl).bits i = true) := by
  have hM := installBitmap_moved s bo bl
  have hk := bsz_pos s
  have hlenpos : 0 < s.bmlen := by
    have := hI.bmlen_pos; unfold Fsm.bmLenBlk at this
    by_cases c : s.bmlen = 0
    · rw [c] at this; simp at this
    · omega
  have hbits := installBitmap_bits_move (s := s) (by omega) bo bl
  have hsum := div_add_div_of_mod hk hbo hbl
  have hnn : bo / bsz s ≤ bo / bsz s + bl / bsz s := Nat.le_add_right _ _
  have hsize : (s.bits ++ Array.replicate ((bl - s.bmlen) * 8) false).size = bl * 8 := by
    rw [Array.size_append, Array.size_replicate, hI.size]; unfold Fsm.nbits; omega
  have hold : ∀ i, i < s.bits.size → bit s.bits i = true → bit (installBitmap s bo bl).bits i = true := by
    intro i h1 h2
    rw [hbits, bit_setRange]
    split
    · rfl
    · rw [bit_append_replicate, if_pos h1]; exact h2
  have hszold : s.bits.size = s.bmlen * 8 := hI.size
  have hin := hI.bm_in
  have hlp := hI.bmlen_pos
  refine ⟨⟨installBitmap_idxOk _ _ _, ?_, ?_, ?_, ?_, ?_, ?_, ?_, ?_, ?_, ?_, ?_, ?_⟩, hold⟩
  · rw [hbits, size_setRange, hsize, hM.nbits]
  · rw [hM.hdrBlk]
    refine ⟨hI.hdr.1, fun i h => hold i ?_ (hI.hdr.2 i h)⟩
    have := hI.hb; unfold Fsm.nbits at hin; omega
  · rw [hM.bmOffBlk, hM.bmLenBlk]
    intro i h1 h2
    rw [hbits, bit_setRange, hsize]
    have : bo / bsz s ≤ i ∧ i < bo / bsz s + bl / bsz s ∧ i < bl * 8 := by omega
    rw [if_pos this]
  · rw [hM.hdrBlk, hM.bmOffBlk]; exact hhdr
  · rw [hM.bmOffBlk, hM.bmLenBlk, hM.nbits]; omega
  · rw [hM.bmoff, hM.bsz]; exact hbo
  · rw [hM.bmlen, hM.bsz]; exact hbl
  · rw [hM.bmLenBlk]; exact div_pos_of_mod hk hbl (by omega)
  · rw [hM.aunitBlk]; exact hI.au
  · rw [hM.aunit, hM.bsz]; exact hI.aunit_al
  · rw [hM.bmoff, hM.aunit]; exact hpg
  · rw [hM.hdrlen, hM.bsz]; exact hI.hdr_al

/-- first initialisation (fresh file, `clear`): the invariant is established -/
theorem inv_installBitmap_new {s : St} (h0 : s.bmlen = 0) {bo bl : Nat} (hbl : bl % bsz s = 0) (hbo : bo % bsz s = 0)
    (hpos : 0 < bl) (hfit : (bo + bl) / bsz s + 1 ≤ bl * 8) (hh0 : 0 < hdrBlk s) (hhdr : hdrBlk s ≤ bo / bsz s)
    (hau : 0 < aunitBlk s) (hal : s.aunit % bsz s = 0) (hpg : bo % s.aunit = 0) (hha : s.hdrlen % bsz s = 0) :
    Inv (installBitmap s bo bl) := by
  have hM := installBitmap_moved s bo bl
  have hk := bsz_pos s
  have hbits := installBitmap_bits_new h0 bo bl
  have hsum := div_add_div_of_mod hk hbo hbl
  have hnn : bo / bsz s ≤ bo / bsz s + bl / bsz s := Nat.le_add_right _ _
  refine ⟨installBitmap_idxOk _ _ _, ?_, ?_, ?_, ?_, ?_, ?_, ?_, ?_, ?_, ?_, ?_, ?_⟩
  · rw [hbits, size_setRange, size_setRange, Array.size_replicate, hM.nbits]
  · rw [hM.hdrBlk]
    refine ⟨hh0, fun i h => ?_⟩
    rw [hbits, bit_setRange, size_setRange, Array.size_replicate]
    have : 0 ≤ i ∧ i < 0 + hdrBlk s ∧ i < bl * 8 := by omega
    rw [if_pos this]
  · rw [hM.bmOffBlk, hM.bmLenBlk]
    intro i h1 h2
    rw [hbits, bit_setRange]
    split
    · rfl
    · rw [bit_setRange, Array.size_replicate]
      have : bo / bsz s ≤ i ∧ i < bo / bsz s + bl / bsz s ∧ i < bl * 8 := by omega
      rw [if_pos this]
  · rw [hM.hdrBlk, hM.bmOffBlk]; exact hhdr
  · rw [hM.bmOffBlk, hM.bmLenBlk, hM.nbits]; omega
  · rw [hM.bmoff, hM.bsz]; exact hbo
  · rw [hM.bmlen, hM.bsz]; exact hbl
  · rw [hM.bmLenBlk]; exact div_pos_of_mod hk hbl hpos
  · rw [hM.aunitBlk]; exact hau
  · rw [hM.aunit, hM.bsz]; exact hal
  · rw [hM.bmoff, hM.aunit]; exact hpg
  · rw [hM.hdrlen, hM.bsz]; exact hha

theorem inv_ensureSize {s : St} (hI : Inv s) (sz : Nat) : Inv (ensureSize s sz) := by
  apply hI.of_frame (ensureSize_frame _ _) (hI.ix.congr (by simp) (by simp) (by simp) (by simp)) (by simp)
  intro i hi
  rw [ensureSize_bits]
  rcases hi with h | h
  · exact hI.hdr.2 i h
  · exact hI.bm i h.1 h.2

theorem rangesOverlap_false {a la b lb : Nat} (h : rangesOverlap a (a + la) b (b + lb) = false) (hla : 0 < la)
    (hlb : 0 < lb) : a + la ≤ b ∨ b + lb ≤ a := by
  unfold rangesOverlap at h
  simp only [Bool.or_eq_false_iff, Bool.and_eq_false_iff, decide_eq_false_iff_not] at h
  omega

/-- `_fsm_init_lw` on an initialised allocator (growth / relocation of the bitmap to a place behind the header)
    preserves the invariant, whatever it returns; header and caller blocks outside the new bitmap area stay allocated -/
theorem initLw_spec {s : St} (hI : Inv s) (bo bl : Nat) (hhdr : hdrBlk s ≤ bo / bsz s) :
    Inv (initLw s bo bl).1 ∧
    ∀ i, UserUsed s i → ¬ (bo / bsz s ≤ i ∧ i < bo / bsz s + bl / bsz s) → UserUsed (initLw s bo bl).1 i := by
  have hens : ∀ i, UserUsed s i → UserUsed (ensureSize s (bo + bl)) i := by
    intro i h
    have hf := ensureSize_frame s (bo + bl)
    unfold UserUsed; rw [ensureSize_bits, hf.bmOffBlk, hf.bmLenBlk]; exact h
  unfold initLw
  split
  · exact ⟨hI, fun i h _ => h⟩
  · split
    · exact ⟨hI, fun i h _ => h⟩
    · split
      · exact ⟨hI, fun i h _ => h⟩
      · rename_i hal hge hfit
        simp only
        have hI1 := inv_ensureSize hI (bo + bl)
        have hf1 := ensureSize_frame s (bo + bl)
        generalize ensureSize s (bo + bl) = s1 at hI1 hf1 hens
        split
        · exact ⟨hI1, fun i h _ => hens i h⟩
        · rename_i hov
          have hlp := hI1.bmlen_pos
          have hk := bsz_pos s1
          have hlenpos : 0 < s1.bmlen := by
            unfold Fsm.bmLenBlk at hlp
            by_cases c : s1.bmlen = 0
            · rw [c] at hlp; simp at hlp
            · omega
          have hne : s1.bmlen ≠ 0 := by omega
          simp only [hne, ne_eq, not_false_eq_true, true_and, Bool.not_eq_true] at hov
          simp only [hne, ne_eq, not_false_eq_true, if_true]
          have hbl : bl % bsz s1 = 0 := by rw [hf1.bsz]; omega
          have hbo : bo % bsz s1 = 0 := by rw [hf1.bsz]; omega
          have hge1 : s1.bmlen ≤ bl := by rw [hf1.bmlen]; omega
          have hfit1 : (bo + bl) / bsz s1 + 1 ≤ bl * 8 := by rw [hf1.bsz]; omega
          have hhdr1 : hdrBlk s1 ≤ bo / bsz s1 := by rw [hf1.hdrBlk, hf1.bsz]; exact hhdr
          have hpg1 : bo % s1.aunit = 0 := by rw [hf1.aunit]; omega
          obtain ⟨hI2, hold⟩ := inv_installBitmap_move hI1 hbl hbo hge1 hfit1 hhdr1 hpg1
          have hM := installBitmap_moved s1 bo bl
          rw [hM.bsz]
          have hblpos : 0 < bl := by omega
          have hdis := rangesOverlap_false hov hlenpos hblpos
          have hsumA := div_add_div_of_mod hk hI1.bmoff_al hI1.bmlen_al
          have hsumB := div_add_div_of_mod hk hbo hbl
          have hin := hI1.bm_in
          have hsz := hI1.size
          have hsz2 := hI2.size
          rw [hM.nbits] at hsz2
          unfold Fsm.nbits Fsm.bmOffBlk Fsm.bmLenBlk at hin
          unfold Fsm.nbits at hsz
          have hend2 : s1.bmoff / bsz s1 + s1.bmlen / bsz s1 ≤ nbits (installBitmap s1 bo bl) := by
            rw [hM.nbits]; omega
          have hset2 : ∀ i, s1.bmoff / bsz s1 ≤ i → i < s1.bmoff / bsz s1 + s1.bmlen / bsz s1 →
              bit (installBitmap s1 bo bl).bits i = true := by
            intro i h1 h2
            apply hold i (by omega)
            exact hI1.bm i h1 h2
          have hoff2 : hdrBlk (installBitmap s1 bo bl) ≤ s1.bmoff / bsz s1 := by rw [hM.hdrBlk]; exact hI1.hb
          have hdis2 : s1.bmoff / bsz s1 + s1.bmlen / bsz s1 ≤ bmOffBlk (installBitmap s1 bo bl) ∨
              bmOffBlk (installBitmap s1 bo bl) + bmLenBlk (installBitmap s1 bo bl) ≤ s1.bmoff / bsz s1 := by
            rw [hM.bmOffBlk, hM.bmLenBlk]
            rcases hdis with c | c
            · left
              have := Nat.div_le_div_right (c := bsz s1) c
              omega
            · right
              have := Nat.div_le_div_right (c := bsz s1) c
              omega
          have hlp' : 0 < s1.bmlen / bsz s1 := hlp
          refine ⟨inv_deallocLw hI2 hlp' hend2 hset2 hoff2 hdis2, ?_⟩
          intro i hu hnot
          have hu1 := hens i hu
          obtain ⟨_, hb, hf, _⟩ := deallocLw_spec hI2 hlp' hend2 hset2 hoff2
          obtain ⟨u1, u2, u3⟩ := hu1
          unfold Fsm.bmOffBlk Fsm.bmLenBlk at u3
          have hnew := hold i u1 u2
          unfold UserUsed
          rw [hb, size_setRange, bit_setRange, hf.bmOffBlk, hf.bmLenBlk, hM.bmOffBlk, hM.bmLenBlk, hsz2]
          refine ⟨by omega, ?_, by rw [hf1.bsz]; exact hnot⟩
          have : ¬ (s1.bmoff / bsz s1 ≤ i ∧ i < s1.bmoff / bsz s1 + s1.bmlen / bsz s1 ∧ i < bl * 8) := by omega
          rw [if_neg this]; exact hnew

theorem inv_initLw {s : St} (hI : Inv s) (bo bl : Nat) (hhdr : hdrBlk s ≤ bo / bsz s) : Inv (initLw s bo bl).1 :=
  (initLw_spec hI bo bl hhdr).1

end IwModel.Fsm
