import IwModel.Model.WalWriter
import IwModel.Lemmas.WalIdem
/-! Lemmas about the writer model: encoders against `parse`, logs as lists of decoded records, the shape of what
`_flush_wl`/`_write_wl` append. -/
namespace IwModel.WalWriter
open IwModel IwModel.Wal IwModel.Gen.Wal

/-! ## encoders -/

theorem leBytes_length (n : Nat) : ∀ v, (leBytes n v).length = n := by
  induction n with
  | zero => intro v; rfl
  | succ n ih => intro v; simp [leBytes, ih]

theorem leN_leBytes (n : Nat) : ∀ (v : Nat) (t : Bytes), leN n (leBytes n v ++ t) = v % 256 ^ n := by
  induction n with
  | zero => intro v t; simp [leN, Nat.mod_one]
  | succ n ih =>
    intro v t
    simp only [leBytes, List.cons_append, leN, List.headD_cons, List.tail_cons, ih]
    rw [Nat.pow_succ', Nat.mod_mul]

theorem drop_app {α : Type} (a b : List α) (n : Nat) (h : a.length = n) : (a ++ b).drop n = b := by
  subst h; simp

/-- the field stored after a prefix of `off` bytes -/
theorem fld_at (pre post : Bytes) (off w v : Nat) (h : pre.length = off) :
    fld (pre ++ (leBytes w v ++ post)) off w = v % 256 ^ w := by
  unfold fld; rw [drop_app _ _ _ h, leN_leBytes]

theorem encSep_length (crc len : Nat) : (encSep crc len).length = 12 := by simp [encSep, opHdr, leBytes_length]
theorem encSet_length (val off len : Nat) : (encSet val off len).length = 24 := by simp [encSet, opHdr, leBytes_length]
theorem encCopy_length (off len noff : Nat) : (encCopy off len noff).length = 28 := by simp [encCopy, opHdr, leBytes_length]
theorem encWrite_length (crc len off : Nat) : (encWrite crc len off).length = 20 := by simp [encWrite, opHdr, leBytes_length]
theorem encResize_length (o n : Nat) : (encResize o n).length = 20 := by simp [encResize, opHdr, leBytes_length]
theorem encSavepoint_length (ts : Nat) : (encSavepoint ts).length = 12 := by simp [encSavepoint, opHdr, leBytes_length]

theorem parse_encSet (val off len : Nat) (t : Bytes) (h1 : val < 2 ^ 32) (h2 : off < 2 ^ 64) (h3 : len < 2 ^ 64) :
    parse (encSet val off len ++ t) = some (.set val off len, 24) := by
  have e1 : fld (encSet val off len ++ t) 4 4 = val := by
    have := fld_at (opHdr WOP_SET) ((leBytes 8 off ++ leBytes 8 len) ++ t) 4 4 val rfl
    rw [Nat.mod_eq_of_lt (by omega)] at this
    simpa [encSet, List.append_assoc] using this
  have e2 : fld (encSet val off len ++ t) 8 8 = off := by
    have := fld_at (opHdr WOP_SET ++ leBytes 4 val) (leBytes 8 len ++ t) 8 8 off (by simp [opHdr, leBytes_length])
    rw [Nat.mod_eq_of_lt (by omega)] at this
    simpa [encSet, List.append_assoc] using this
  have e3 : fld (encSet val off len ++ t) 16 8 = len := by
    have := fld_at (opHdr WOP_SET ++ (leBytes 4 val ++ leBytes 8 off)) t 16 8 len (by simp [opHdr, leBytes_length])
    rw [Nat.mod_eq_of_lt (by omega)] at this
    simpa [encSet, List.append_assoc] using this
  have hl : (encSet val off len ++ t).length = 24 + t.length := by simp [encSet_length]
  have hh : (encSet val off len ++ t).headD 0 = WOP_SET := by simp [encSet, opHdr]
  unfold parse
  simp only [hh, hl, e1, e2, e3, off_WBSET_val, w_WBSET_val, off_WBSET_off, w_WBSET_off, off_WBSET_len, w_WBSET_len, sz_WBSET]
  simp [WOP_SET, WOP_SEP]

theorem parse_encCopy (off len noff : Nat) (t : Bytes) (h1 : off < 2 ^ 64) (h2 : len < 2 ^ 64) (h3 : noff < 2 ^ 64) :
    parse (encCopy off len noff ++ t) = some (.copy off len noff, 28) := by
  have e1 : fld (encCopy off len noff ++ t) 4 8 = off := by
    have := fld_at (opHdr WOP_COPY) ((leBytes 8 len ++ leBytes 8 noff) ++ t) 4 8 off rfl
    rw [Nat.mod_eq_of_lt (by omega)] at this
    simpa [encCopy, List.append_assoc] using this
  have e2 : fld (encCopy off len noff ++ t) 12 8 = len := by
    have := fld_at (opHdr WOP_COPY ++ leBytes 8 off) (leBytes 8 noff ++ t) 12 8 len (by simp [opHdr, leBytes_length])
    rw [Nat.mod_eq_of_lt (by omega)] at this
    simpa [encCopy, List.append_assoc] using this
  have e3 : fld (encCopy off len noff ++ t) 20 8 = noff := by
    have := fld_at (opHdr WOP_COPY ++ (leBytes 8 off ++ leBytes 8 len)) t 20 8 noff (by simp [opHdr, leBytes_length])
    rw [Nat.mod_eq_of_lt (by omega)] at this
    simpa [encCopy, List.append_assoc] using this
  have hl : (encCopy off len noff ++ t).length = 28 + t.length := by simp [encCopy_length]
  have hh : (encCopy off len noff ++ t).headD 0 = WOP_COPY := by simp [encCopy, opHdr]
  unfold parse
  simp only [hh, hl, e1, e2, e3, off_WBCOPY_off, w_WBCOPY_off, off_WBCOPY_len, w_WBCOPY_len, off_WBCOPY_noff, w_WBCOPY_noff, sz_WBCOPY]
  simp [WOP_COPY, WOP_SET, WOP_SEP]

theorem parse_encResize (o n : Nat) (t : Bytes) (h1 : o < 2 ^ 64) (h2 : n < 2 ^ 64) :
    parse (encResize o n ++ t) = some (.resize o n, 20) := by
  have e1 : fld (encResize o n ++ t) 4 8 = o := by
    have := fld_at (opHdr WOP_RESIZE) (leBytes 8 n ++ t) 4 8 o rfl
    rw [Nat.mod_eq_of_lt (by omega)] at this
    simpa [encResize, List.append_assoc] using this
  have e2 : fld (encResize o n ++ t) 12 8 = n := by
    have := fld_at (opHdr WOP_RESIZE ++ leBytes 8 o) t 12 8 n (by simp [opHdr, leBytes_length])
    rw [Nat.mod_eq_of_lt (by omega)] at this
    simpa [encResize, List.append_assoc] using this
  have hl : (encResize o n ++ t).length = 20 + t.length := by simp [encResize_length]
  have hh : (encResize o n ++ t).headD 0 = WOP_RESIZE := by simp [encResize, opHdr]
  unfold parse
  simp only [hh, hl, e1, e2, off_WBRESIZE_osize, w_WBRESIZE_osize, off_WBRESIZE_nsize, w_WBRESIZE_nsize, sz_WBRESIZE]
  simp [WOP_RESIZE, WOP_WRITE, WOP_COPY, WOP_SET, WOP_SEP]

theorem parse_encWrite (crc len off : Nat) (t : Bytes) (h1 : crc < 2 ^ 32) (h2 : len < 2 ^ 32) (h3 : off < 2 ^ 64)
    (hfit : len ≤ t.length) : parse (encWrite crc len off ++ t) = some (.write crc len off, 20 + len) := by
  have e1 : fld (encWrite crc len off ++ t) 4 4 = crc := by
    have := fld_at (opHdr WOP_WRITE) ((leBytes 4 len ++ leBytes 8 off) ++ t) 4 4 crc rfl
    rw [Nat.mod_eq_of_lt (by omega)] at this
    simpa [encWrite, List.append_assoc] using this
  have e2 : fld (encWrite crc len off ++ t) 8 4 = len := by
    have := fld_at (opHdr WOP_WRITE ++ leBytes 4 crc) (leBytes 8 off ++ t) 8 4 len (by simp [opHdr, leBytes_length])
    rw [Nat.mod_eq_of_lt (by omega)] at this
    simpa [encWrite, List.append_assoc] using this
  have e3 : fld (encWrite crc len off ++ t) 12 8 = off := by
    have := fld_at (opHdr WOP_WRITE ++ (leBytes 4 crc ++ leBytes 4 len)) t 12 8 off (by simp [opHdr, leBytes_length])
    rw [Nat.mod_eq_of_lt (by omega)] at this
    simpa [encWrite, List.append_assoc] using this
  have hl : (encWrite crc len off ++ t).length = 20 + t.length := by simp [encWrite_length]
  have hh : (encWrite crc len off ++ t).headD 0 = WOP_WRITE := by simp [encWrite, opHdr]
  unfold parse
  simp only [hh, hl, e1, e2, e3, off_WBWRITE_crc, w_WBWRITE_crc, off_WBWRITE_len, w_WBWRITE_len, off_WBWRITE_off, w_WBWRITE_off, sz_WBWRITE]
  simp [WOP_WRITE, WOP_COPY, WOP_SET, WOP_SEP]
  omega

theorem parse_encSep (crc len : Nat) (t : Bytes) (h1 : crc < 2 ^ 32) (h2 : len < 2 ^ 32) (hfit : len ≤ t.length) :
    parse (encSep crc len ++ t) = some (.sep crc len, 12) := by
  have e1 : fld (encSep crc len ++ t) 4 4 = crc := by
    have := fld_at (opHdr WOP_SEP) (leBytes 4 len ++ t) 4 4 crc rfl
    rw [Nat.mod_eq_of_lt (by omega)] at this
    simpa [encSep, List.append_assoc] using this
  have e2 : fld (encSep crc len ++ t) 8 4 = len := by
    have := fld_at (opHdr WOP_SEP ++ leBytes 4 crc) t 8 4 len (by simp [opHdr, leBytes_length])
    rw [Nat.mod_eq_of_lt (by omega)] at this
    simpa [encSep, List.append_assoc] using this
  have hl : (encSep crc len ++ t).length = 12 + t.length := by simp [encSep_length]
  have hh : (encSep crc len ++ t).headD 0 = WOP_SEP := by simp [encSep, opHdr]
  unfold parse
  simp only [hh, hl, e1, e2, off_WBSEP_crc, w_WBSEP_crc, off_WBSEP_len, w_WBSEP_len, sz_WBSEP]
  simp
  omega

theorem parse_encSavepoint (ts : Nat) (t : Bytes) : parse (encSavepoint ts ++ t) = some (.savepoint, 12) := by
  have hh : (encSavepoint ts ++ t).headD 0 = WOP_SAVEPOINT := by simp [encSavepoint, opHdr]
  unfold parse
  simp only [hh, sz_WBSAVEPOINT]
  simp [WOP_SAVEPOINT, WOP_RESIZE, WOP_WRITE, WOP_COPY, WOP_SET, WOP_SEP]

/-! ## a log as the list of its records -/

/-- a decoded record with the bytes its handler reads -/
abbrev Item := Rec × Bytes

/-- read-pointer advance of a record -/
def advOf : Rec → Nat
  | .sep _ _ => 12
  | .set _ _ _ => 24
  | .copy _ _ _ => 28
  | .write _ len _ => 20 + len
  | .resize _ _ => 20
  | .savepoint => 12
  | .reset => 4

theorem parse_adv {rest : Bytes} {r : Rec} {adv : Nat} (h : parse rest = some (r, adv)) : adv = advOf r := by
  unfold parse at h
  simp only [sz_WBSEP, sz_WBSET, sz_WBCOPY, sz_WBWRITE, sz_WBRESIZE, sz_WBSAVEPOINT, sz_WBRESET] at h
  unfold advOf
  grind

theorem advOf_pos (r : Rec) : 4 ≤ advOf r := by cases r <;> simp [advOf] <;> omega

/-- `rest` decodes, record by record and to its very end, into `L`; every record lies inside `rest` -/
def Dec : Bytes → List Item → Prop
  | rest, [] => rest = []
  | rest, x :: t => parse rest = some (x.1, advOf x.1) ∧ advOf x.1 ≤ rest.length ∧ x.2 = body x.1 rest ∧ Dec (rest.drop (advOf x.1)) t

def size : List Item → Nat
  | [] => 0
  | x :: t => advOf x.1 + size t

/-- the records with their positions, the first one at `p` -/
def withPos : Nat → List Item → List (Nat × Rec)
  | _, [] => []
  | p, x :: t => (p, x.1) :: withPos (p + advOf x.1) t

/-- the records the replay loop applies when told to stop at the savepoint at `stop` -/
def before (stop : Nat) : Nat → List Item → List Item
  | _, [] => []
  | p, x :: t => if x.1 = .savepoint ∧ stop = p then [] else x :: before stop (p + advOf x.1) t

theorem size_append (A B : List Item) : size (A ++ B) = size A + size B := by
  induction A with
  | nil => simp [size]
  | cons a t ih => simp [size, ih]; omega

theorem withPos_append (A B : List Item) : ∀ p, withPos p (A ++ B) = withPos p A ++ withPos (p + size A) B := by
  induction A with
  | nil => intro p; simp [withPos, size]
  | cons a t ih => intro p; simp [withPos, size, ih, Nat.add_assoc]

theorem Dec_size : ∀ (L : List Item) (rest : Bytes), Dec rest L → size L = rest.length := by
  intro L
  induction L with
  | nil => intro rest h; simp [Dec] at h; simp [h, size]
  | cons x t ih =>
    intro rest h
    obtain ⟨_, h2, _, h4⟩ := h
    have := ih _ h4
    simp only [size, this, List.length_drop]; omega

theorem Dec_append : ∀ (La : List Item) (a b : Bytes) (Lb : List Item), Dec a La → Dec b Lb → Dec (a ++ b) (La ++ Lb) := by
  intro La
  induction La with
  | nil => intro a b Lb ha hb; simp [Dec] at ha; subst ha; simpa using hb
  | cons x t ih =>
    intro a b Lb ha hb
    obtain ⟨h1, h2, h3, h4⟩ := ha
    have htk : (a ++ b).take a.length = a := by simp
    have hp := parse_of_take (rest := a ++ b) a.length (by rw [htk]; exact h1)
    refine ⟨hp.1, by simp; omega, ?_, ?_⟩
    · rw [h3]
      by_cases hm : x.1 = .savepoint ∨ x.1 = .reset
      · rcases hm with hm | hm <;> simp [hm, body]
      · have hn := hp.2 (fun h => hm (Or.inl h)) (fun h => hm (Or.inr h))
        have := body_take (rest := a ++ b) a.length hp.1 hn
        rw [htk] at this; exact this
    · rw [List.drop_append_of_le_length h2]
      exact ih _ _ _ h4 hb

theorem Dec_walk : ∀ (L : List Item) (fuel : Nat) (rest : Bytes) (pos : Nat), Dec rest L → rest.length ≤ fuel →
    walkAux fuel rest pos = withPos pos L := by
  intro L
  induction L with
  | nil => intro fuel rest pos h _; simp [Dec] at h; subst h; cases fuel <;> simp [walkAux, withPos]
  | cons x t ih =>
    intro fuel rest pos h hf
    obtain ⟨h1, h2, _, h4⟩ := h
    have h4' := advOf_pos x.1
    cases fuel with
    | zero => omega
    | succ n =>
      have hne : rest.isEmpty = false := by cases rest with | nil => simp at h2; omega | cons _ _ => rfl
      simp only [walkAux, hne, Bool.false_eq_true, if_false, h1, withPos]
      rw [ih n _ _ h4 (by simp; omega)]

theorem Dec_walk0 (L : List Item) (w : Bytes) (h : Dec w L) : walk w = withPos 0 L :=
  Dec_walk L w.length w 0 h (Nat.le_refl _)

theorem length_le_size (L : List Item) : L.length ≤ size L := by
  induction L with
  | nil => simp
  | cons x t ih => have := advOf_pos x.1; simp [size]; omega

theorem before_length (stop : Nat) : ∀ (L : List Item) (p : Nat), (before stop p L).length ≤ L.length := by
  intro L
  induction L with
  | nil => intro p; simp [before]
  | cons x t ih => intro p; simp only [before]; split <;> simp; exact ih _

theorem Dec_recs (stop : Nat) : ∀ (L : List Item) (F : Nat) (rest : Bytes) (pos : Nat) (first : Bool), Dec rest L → rest.length ≤ F →
    (first = true → rest = [] ∨ rest.headD 0 = WOP_SEP) → recsAux stop F rest pos first = some (before stop pos L) := by
  intro L
  induction L with
  | nil => intro F rest pos first h _ _; simp [Dec] at h; subst h; cases F <;> simp [recsAux, before]
  | cons x t ih =>
    intro F rest pos first h hf hfirst
    obtain ⟨h1, h2, h3, h4⟩ := h
    have h4' := advOf_pos x.1
    cases F with
    | zero => omega
    | succ n =>
      have hne : rest.isEmpty = false := by cases rest with | nil => simp at h2; omega | cons _ _ => rfl
      have hfs : (first && rest.headD 0 != WOP_SEP) = false := by
        cases first with
        | false => rfl
        | true =>
          rcases hfirst rfl with h | h
          · subst h; simp at hne
          · rw [h]; rfl
      simp only [recsAux, hne, Bool.false_eq_true, if_false, hfs, h1, before]
      split
      · rfl
      · rw [ih n _ _ false h4 (by simp; omega) (by simp), ← h3]; rfl

/-- the replay loop on a decoded log is the run of the records before the stop position -/
theorem replay_of_Dec (cfg : Cfg) (stop : Nat) (L : List Item) (w m : Bytes) (h : Dec w L) (hs : w = [] ∨ w.headD 0 = WOP_SEP) :
    replay cfg stop w m = runRecs cfg (before stop 0 L) m := by
  unfold replay
  rw [replayAux_eq_run cfg stop w.length w 0 true _ (Dec_recs stop L w.length w 0 true h (Nat.le_refl _) (fun _ => hs)) (Nat.le_refl _)]
  rw [List.take_of_length_le]
  have := before_length stop L 0
  have := length_le_size L
  have := Dec_size L w h
  omega

theorem mem_withPos_bounds : ∀ (L : List Item) (p q : Nat) (r : Rec), (q, r) ∈ withPos p L → p ≤ q ∧ q + advOf r ≤ p + size L := by
  intro L
  induction L with
  | nil => intro p q r h; simp [withPos] at h
  | cons x t ih =>
    intro p q r h
    simp only [withPos, List.mem_cons, Prod.mk.injEq] at h
    rcases h with ⟨rfl, rfl⟩ | h
    · simp [size]
    · have := ih _ _ _ h; simp only [size]; omega

theorem mem_withPos_item : ∀ (L : List Item) (p q : Nat) (r : Rec), (q, r) ∈ withPos p L → ∃ x ∈ L, x.1 = r := by
  intro L
  induction L with
  | nil => intro p q r h; simp [withPos] at h
  | cons x t ih =>
    intro p q r h
    simp only [withPos, List.mem_cons, Prod.mk.injEq] at h
    rcases h with ⟨_, rfl⟩ | h
    · exact ⟨x, by simp, rfl⟩
    · obtain ⟨y, hy, e⟩ := ih _ _ _ h; exact ⟨y, by simp [hy], e⟩

theorem before_append_hit (stop : Nat) (B : List Item) : ∀ (A : List Item) (p : Nat), (stop, Rec.savepoint) ∈ withPos p A →
    before stop p (A ++ B) = before stop p A := by
  intro A
  induction A with
  | nil => intro p h; simp [withPos] at h
  | cons x t ih =>
    intro p h
    simp only [withPos, List.mem_cons, Prod.mk.injEq] at h
    simp only [List.cons_append, before]
    by_cases hc : x.1 = Rec.savepoint ∧ stop = p
    · simp [hc]
    · simp only [hc, if_false]
      rcases h with ⟨h1, h2⟩ | h
      · exact absurd ⟨h2.symm, h1⟩ hc
      · rw [ih _ h]

theorem before_append_miss (stop : Nat) (B : List Item) : ∀ (A : List Item) (p : Nat), (stop, Rec.savepoint) ∉ withPos p A →
    before stop p (A ++ B) = A ++ before stop (p + size A) B := by
  intro A
  induction A with
  | nil => intro p _; simp [size]
  | cons x t ih =>
    intro p h
    simp only [withPos, List.mem_cons, Prod.mk.injEq, not_or] at h
    simp only [List.cons_append, before, size]
    have hc : ¬ (x.1 = Rec.savepoint ∧ stop = p) := fun ⟨a, b⟩ => h.1 ⟨b, a.symm⟩
    simp only [hc, if_false]
    rw [ih _ h.2, Nat.add_assoc]

theorem before_all (stop : Nat) (A : List Item) (p : Nat) (h : (stop, Rec.savepoint) ∉ withPos p A) : before stop p A = A := by
  have := before_append_miss stop [] A p h
  simpa [before] using this

theorem runRecs_append_ok (cfg : Cfg) (B : List Item) : ∀ (A : List Item) (m m' : Bytes), runRecs cfg A m = ⟨.ok, m'⟩ →
    runRecs cfg (A ++ B) m = runRecs cfg B m' := by
  intro A
  induction A with
  | nil => intro m m' h; simp only [runRecs, Out.mk.injEq, true_and] at h; subst h; rfl
  | cons x t ih =>
    intro m m' h
    simp only [runRecs, List.cons_append] at h ⊢
    by_cases hk : (applyB cfg x.1 x.2 m).1 = .ok
    · simp only [hk, if_true] at h ⊢; exact ih _ _ h
    · rw [if_neg hk] at h; injection h with h1 _; exact absurd h1 hk

theorem runRecs_noop_insert (cfg : Cfg) (s : Item) (B : List Item) (hs : ∀ y, applyB cfg s.1 s.2 y = (.ok, y)) :
    ∀ (A : List Item) (m : Bytes), runRecs cfg (A ++ s :: B) m = runRecs cfg (A ++ B) m := by
  intro A
  induction A with
  | nil => intro m; simp [runRecs, hs]
  | cons x t ih =>
    intro m
    simp only [runRecs, List.cons_append]
    by_cases hk : (applyB cfg x.1 x.2 m).1 = .ok
    · simp only [hk, if_true]; exact ih _
    · simp only [hk, if_false]

def IsData : Rec → Prop
  | .set _ _ _ => True
  | .copy _ _ _ => True
  | .write _ _ _ => True
  | .resize _ _ => True
  | _ => False

/-- what the writer maintains about the log file `w`, with its records `L` -/
structure WfLog (w : Bytes) (L : List Item) : Prop where
  dec : Dec w L
  head : L = [] ∨ ∃ c l b T, L = (Rec.sep c l, b) :: T
  inside : ∀ p c l, (p, Rec.sep c l) ∈ withPos 0 L → p + 12 + l ≤ w.length
  closed : ∀ p c l s, (p, Rec.sep c l) ∈ withPos 0 L → (s, Rec.savepoint) ∈ withPos 0 L → p < s → p + 12 + l ≤ s + 12
  disj : ∀ p c l q c' l', (p, Rec.sep c l) ∈ withPos 0 L → (q, Rec.sep c' l') ∈ withPos 0 L → p < q → p + 12 + l ≤ q
  noreset : ∀ x ∈ L, x.1 ≠ Rec.reset

theorem WfLog_nil : WfLog [] [] :=
  ⟨rfl, Or.inl rfl, by simp [withPos], by simp [withPos], by simp [withPos], by simp⟩

/-- records of a segment body: data records, then possibly one savepoint that ends the segment -/
theorem mem_body (D S : List Item) (xlen n : Nat) (hD : ∀ y ∈ D, IsData y.1)
    (hS : S = [] ∨ (S = [(Rec.savepoint, [])] ∧ n = xlen)) (hsz : size (D ++ S) = xlen) (p q : Nat) (r : Rec)
    (h : (q, r) ∈ withPos p (D ++ S)) : IsData r ∨ (r = Rec.savepoint ∧ q + 12 = p + n) := by
  rw [withPos_append, List.mem_append] at h
  rcases h with h | h
  · obtain ⟨y, hy, e⟩ := mem_withPos_item _ _ _ _ h
    left; rw [← e]; exact hD y hy
  · rcases hS with rfl | ⟨rfl, hn⟩
    · simp [withPos] at h
    · simp only [withPos, List.mem_cons, Prod.mk.injEq, List.not_mem_nil, or_false] at h
      right
      rw [size_append] at hsz
      simp only [size, advOf] at hsz
      exact ⟨h.2, by omega⟩

theorem WfLog_chunk (w : Bytes) (L : List Item) (x : Bytes) (D S : List Item) (c n : Nat)
    (hw : WfLog w L) (hx : Dec x (D ++ S)) (hD : ∀ y ∈ D, IsData y.1)
    (hS : S = [] ∨ (S = [(Rec.savepoint, [])] ∧ n = x.length)) (hn : n ≤ x.length) (hc : c < 2 ^ 32) (hn32 : n < 2 ^ 32) :
    WfLog (w ++ (encSep c n ++ x)) (L ++ (Rec.sep c n, x.take n) :: (D ++ S)) := by
  have hsz := Dec_size _ _ hx
  have hszL := Dec_size _ _ hw.dec
  have hchunk : Dec (encSep c n ++ x) ((Rec.sep c n, x.take n) :: (D ++ S)) := by
    refine ⟨parse_encSep c n x hc hn32 hn, by simp [advOf, encSep_length], ?_, ?_⟩
    · simp only [body, sz_WBSEP]; rw [drop_app _ _ _ (encSep_length c n)]
    · simp only [advOf]; rw [drop_app _ _ _ (encSep_length c n)]; exact hx
  have hmem : ∀ q r, (q, r) ∈ withPos 0 (L ++ (Rec.sep c n, x.take n) :: (D ++ S)) ↔
      ((q, r) ∈ withPos 0 L ∨ (q = w.length ∧ r = Rec.sep c n) ∨ (q, r) ∈ withPos (w.length + 12) (D ++ S)) := by
    intro q r
    rw [withPos_append, List.mem_append, hszL]
    simp only [withPos, Nat.zero_add, List.mem_cons, Prod.mk.injEq, advOf]
  have hold : ∀ q r, (q, r) ∈ withPos 0 L → q + advOf r ≤ w.length := fun q r h => by
    have := (mem_withPos_bounds _ _ _ _ h).2; omega
  have hnew := fun q r h => mem_body D S x.length n hD hS hsz (w.length + 12) q r h
  have hlen : (w ++ (encSep c n ++ x)).length = w.length + 12 + x.length := by simp [encSep_length]; omega
  refine ⟨Dec_append _ _ _ _ hw.dec hchunk, ?_, ?_, ?_, ?_, ?_⟩
  · rcases hw.head with rfl | ⟨c', l', b', T, rfl⟩
    · right; exact ⟨c, n, x.take n, D ++ S, rfl⟩
    · right; exact ⟨c', l', b', T ++ (Rec.sep c n, x.take n) :: (D ++ S), rfl⟩
  · intro p c' l' h
    rw [hlen]
    rcases (hmem _ _).1 h with h' | ⟨e1, e2⟩ | h'
    · have := hw.inside _ _ _ h'; omega
    · cases e2; omega
    · rcases hnew _ _ h' with e | ⟨e, _⟩ <;> simp [IsData] at e
  · intro p c' l' s h1 h2 hlt
    rcases (hmem _ _).1 h1 with h1' | ⟨e1, e2⟩ | h1'
    · rcases (hmem _ _).1 h2 with h2' | ⟨e3, e4⟩ | h2'
      · exact hw.closed _ _ _ _ h1' h2' hlt
      · cases e4
      · have := hw.inside _ _ _ h1'
        have := (mem_withPos_bounds _ _ _ _ h2').1
        omega
    · cases e2
      rcases (hmem _ _).1 h2 with h2' | ⟨e3, e4⟩ | h2'
      · have := hold _ _ h2'; simp only [advOf] at this; omega
      · cases e4
      · rcases hnew _ _ h2' with e | ⟨_, e⟩
        · simp [IsData] at e
        · omega
    · rcases hnew _ _ h1' with e | ⟨e, _⟩ <;> simp [IsData] at e
  · intro p c' l' q c'' l'' h1 h2 hlt
    rcases (hmem _ _).1 h2 with h2' | ⟨e3, e4⟩ | h2'
    · rcases (hmem _ _).1 h1 with h1' | ⟨e1, e2⟩ | h1'
      · exact hw.disj _ _ _ _ _ _ h1' h2' hlt
      · have := hold _ _ h2'; simp only [advOf] at this; omega
      · rcases hnew _ _ h1' with e | ⟨e, _⟩ <;> simp [IsData] at e
    · rcases (hmem _ _).1 h1 with h1' | ⟨e1, e2⟩ | h1'
      · have := hw.inside _ _ _ h1'; omega
      · omega
      · rcases hnew _ _ h1' with e | ⟨e, _⟩ <;> simp [IsData] at e
    · rcases hnew _ _ h2' with e | ⟨e, _⟩ <;> simp [IsData] at e
  · intro y hy
    simp only [List.mem_append, List.mem_cons] at hy
    rcases hy with hy | rfl | hy | hy
    · exact hw.noreset y hy
    · simp
    · have := hD y hy; intro e; rw [e] at this; simp [IsData] at this
    · rcases hS with rfl | ⟨rfl, _⟩
      · simp at hy
      · simp at hy; subst hy; simp

/-! ## `_flush_wl` / `_write_wl` on the pair (log file, buffer) -/

/-- what has to hold of the configuration: room for the largest record header (`assert(bufsz - bufpos >= oplen)`), buffer
lengths fit the 32-bit `len` of `WBSEP`, `crc` yields 32 bits -/
structure WCfg.Ok (c : WCfg) : Prop where
  room : 28 ≤ c.bufsz
  small : c.bufsz < 2 ^ 32
  crc32 : ∀ b, c.crc b < 2 ^ 32

def crcOf (c : WCfg) (b : Bytes) : Nat := if c.crcOn then c.crc b else 0
def sepItem (c : WCfg) (b : Bytes) : Item := (.sep (crcOf c b) b.length, b)

theorem crcOf_lt (c : WCfg) (hc : c.Ok) (b : Bytes) : crcOf c b < 2 ^ 32 := by
  unfold crcOf; split
  · exact hc.crc32 b
  · omega

def flushLB (c : WCfg) (lb : Bytes × Bytes) : Bytes × Bytes :=
  if lb.2.isEmpty then lb else (lb.1 ++ (encSep (crcOf c lb.2) lb.2.length ++ lb.2), [])

def placeLB (c : WCfg) (lb : Bytes × Bytes) (op data : Bytes) : Bytes × Bytes :=
  if c.bufsz - (lb.2 ++ op).length < data.length then ((flushLB c (lb.1, lb.2 ++ op)).1 ++ data, [])
  else (lb.1, (lb.2 ++ op) ++ data)

def writeLB (c : WCfg) (lb : Bytes × Bytes) (op data : Bytes) : Bytes × Bytes :=
  placeLB c (if c.bufsz - lb.2.length < op.length then flushLB c lb else lb) op data

theorem flushLB_buf (c : WCfg) (lb : Bytes × Bytes) : (flushLB c lb).2 = [] := by
  unfold flushLB; split
  · rename_i h; simpa using h
  · rfl

theorem flush_lb (c : WCfg) (s : St) : ((flush c s).log, (flush c s).buf) = flushLB c (s.log, s.buf) := by
  unfold flush flushLB crcOf; split <;> simp_all

theorem flush_log (c : WCfg) (s : St) : (flush c s).log = (flushLB c (s.log, s.buf)).1 := by rw [← flush_lb]
theorem flush_buf (c : WCfg) (s : St) : (flush c s).buf = [] := by
  have := congrArg Prod.snd (flush_lb c s); simp only at this; rw [this, flushLB_buf]

theorem flush_rest (c : WCfg) (s : St) : (flush c s).main = s.main ∧ (flush c s).view = s.view ∧ (flush c s).hist = s.hist ∧
    (flush c s).dur = s.dur ∧ (flush c s).fsynced = s.fsynced ∧ (flush c s).synched = s.synched ∧ (flush c s).mbytes = s.mbytes ∧
    (flush c s).forceSp = s.forceSp ∧ (flush c s).forceCp = s.forceCp := by
  unfold flush; split <;> simp

theorem place_lb (c : WCfg) (s : St) (op data : Bytes) :
    ((place c s op data).log, (place c s op data).buf) = placeLB c (s.log, s.buf) op data := by
  unfold place placeLB
  simp only []
  split
  · rw [flush_log, flush_buf]
  · rfl

theorem place_rest (c : WCfg) (s : St) (op data : Bytes) : (place c s op data).main = s.main ∧ (place c s op data).view = s.view ∧
    (place c s op data).hist = s.hist ∧ (place c s op data).dur = s.dur ∧ (place c s op data).fsynced = s.fsynced ∧
    (place c s op data).synched = s.synched ∧ (place c s op data).mbytes = s.mbytes ∧
    (place c s op data).forceSp = s.forceSp ∧ (place c s op data).forceCp = s.forceCp := by
  unfold place
  simp only []
  split
  · have := flush_rest c { s with buf := s.buf ++ op }
    simp only [this, and_self]
  · simp

theorem writeWl_lb (c : WCfg) (s : St) (op data : Bytes) :
    ((writeWl c s op data).log, (writeWl c s op data).buf) = writeLB c (s.log, s.buf) op data := by
  unfold writeWl writeLB
  simp only []
  rw [place_lb]
  split
  · rw [flush_lb]
  · rfl

theorem writeWl_rest (c : WCfg) (s : St) (op data : Bytes) : (writeWl c s op data).main = s.main ∧ (writeWl c s op data).view = s.view ∧
    (writeWl c s op data).hist = s.hist ∧ (writeWl c s op data).dur = s.dur ∧ (writeWl c s op data).fsynced = s.fsynced ∧
    (writeWl c s op data).mbytes = s.mbytes ∧ (writeWl c s op data).forceSp = s.forceSp ∧ (writeWl c s op data).forceCp = s.forceCp := by
  unfold writeWl
  simp only []
  split
  · have h1 := place_rest c (flush c { s with synched := false }) op data
    have h2 := flush_rest c { s with synched := false }
    simp only [h1, h2, and_self]
  · have h1 := place_rest c { s with synched := false } op data
    simp only [h1, and_self]

/-! ## ghost: the records of the log file and of the buffer -/

structure G where
  L : List Item
  Lb : List Item

/-- structural invariant of (log file, buffer) with their records -/
structure InvW (c : WCfg) (lb : Bytes × Bytes) (g : G) : Prop where
  wf : WfLog lb.1 g.L
  bdec : Dec lb.2 g.Lb
  bdata : ∀ y ∈ g.Lb, IsData y.1
  bfit : lb.2.length ≤ c.bufsz

def gflush (c : WCfg) (buf : Bytes) (g : G) : G := if buf.isEmpty then g else ⟨g.L ++ sepItem c buf :: g.Lb, []⟩

def gplace (c : WCfg) (buf : Bytes) (g : G) (x : Item) (op data : Bytes) : G :=
  if c.bufsz - (buf ++ op).length < data.length then ⟨g.L ++ sepItem c (buf ++ op) :: (g.Lb ++ [x]), []⟩ else ⟨g.L, g.Lb ++ [x]⟩

def gwrite (c : WCfg) (buf : Bytes) (g : G) (x : Item) (op data : Bytes) : G :=
  if c.bufsz - buf.length < op.length then gplace c [] (gflush c buf g) x op data else gplace c buf g x op data

theorem flushLB_inv (c : WCfg) (hc : c.Ok) (lb : Bytes × Bytes) (g : G) (h : InvW c lb g) : InvW c (flushLB c lb) (gflush c lb.2 g) := by
  unfold flushLB gflush
  split
  · exact h
  · rename_i hne
    have hchunk := WfLog_chunk lb.1 g.L lb.2 g.Lb [] (crcOf c lb.2) lb.2.length h.wf (by simpa using h.bdec) h.bdata (Or.inl rfl)
      (Nat.le_refl _) (crcOf_lt c hc _) (by have := h.bfit; have := hc.small; omega)
    simp only [List.take_length, List.append_nil] at hchunk
    exact ⟨hchunk, rfl, by simp, by simp⟩

/-- `op ++ data` is the encoding of the data record `x` -/
structure EncItem (x : Item) (op data : Bytes) : Prop where
  dec : Dec (op ++ data) [x]
  isData : IsData x.1
  oplen : 0 < op.length ∧ op.length ≤ 28

theorem placeLB_inv (c : WCfg) (hc : c.Ok) (lb : Bytes × Bytes) (g : G) (x : Item) (op data : Bytes) (h : InvW c lb g)
    (hx : EncItem x op data) (hroom : lb.2.length + op.length ≤ c.bufsz) :
    InvW c (placeLB c lb op data) (gplace c lb.2 g x op data) := by
  have hd : Dec ((lb.2 ++ op) ++ data) (g.Lb ++ [x]) := by
    rw [List.append_assoc]; exact Dec_append _ _ _ _ h.bdec hx.dec
  have hdat : ∀ y ∈ g.Lb ++ [x], IsData y.1 := by
    intro y hy; simp only [List.mem_append, List.mem_singleton] at hy
    rcases hy with hy | rfl
    · exact h.bdata y hy
    · exact hx.isData
  unfold placeLB gplace
  split
  · -- the payload goes to the file, after the segment that ends with its header
    have hne : (lb.2 ++ op).isEmpty = false := by
      cases hh : lb.2 ++ op with
      | nil => have h0 := congrArg List.length hh; simp only [List.length_append, List.length_nil] at h0; have := hx.oplen.1; omega
      | cons _ _ => rfl
    have hl : (lb.2 ++ op).length = lb.2.length + op.length := by simp
    have hl2 : ((lb.2 ++ op) ++ data).length = lb.2.length + op.length + data.length := by simp only [List.length_append]
    have hsm := hc.small
    have hchunk := WfLog_chunk lb.1 g.L ((lb.2 ++ op) ++ data) (g.Lb ++ [x]) [] (crcOf c (lb.2 ++ op)) (lb.2 ++ op).length h.wf
      (by simpa using hd) hdat (Or.inl rfl) (by omega) (crcOf_lt c hc _) (by omega)
    have htk : ((lb.2 ++ op) ++ data).take (lb.2 ++ op).length = lb.2 ++ op := List.take_left
    rw [htk] at hchunk
    simp only [List.append_nil] at hchunk
    refine ⟨?_, rfl, by simp, by simp⟩
    simp only [flushLB, hne, Bool.false_eq_true, if_false, sepItem]
    have e : lb.1 ++ (encSep (crcOf c (lb.2 ++ op)) (lb.2 ++ op).length ++ (lb.2 ++ op)) ++ data =
        lb.1 ++ (encSep (crcOf c (lb.2 ++ op)) (lb.2 ++ op).length ++ ((lb.2 ++ op) ++ data)) := by simp [List.append_assoc]
    rw [e]; exact hchunk
  · rename_i hfit
    refine ⟨h.wf, hd, hdat, ?_⟩
    simp only [List.length_append] at hfit ⊢
    omega

theorem writeLB_inv (c : WCfg) (hc : c.Ok) (lb : Bytes × Bytes) (g : G) (x : Item) (op data : Bytes) (h : InvW c lb g)
    (hx : EncItem x op data) : InvW c (writeLB c lb op data) (gwrite c lb.2 g x op data) := by
  unfold writeLB gwrite
  split
  · have h1 := flushLB_inv c hc lb g h
    have hb := flushLB_buf c lb
    have := placeLB_inv c hc (flushLB c lb) (gflush c lb.2 g) x op data h1 hx
      (by rw [hb]; have := hx.oplen.2; have := hc.room; simp; omega)
    rw [hb] at this; exact this
  · rename_i hr
    exact placeLB_inv c hc lb g x op data h hx (by have := h.bfit; omega)

/-! ### what the ghost updates do to the run of the records and to the savepoints -/

theorem sep_noop (c : WCfg) (cfg : Cfg) (hcrc : cfg.crc = c.crc) (b : Bytes) (y : Bytes) :
    applyB cfg (sepItem c b).1 (sepItem c b).2 y = (.ok, y) := by
  simp only [sepItem, applyB, crcOf, hcrc]
  split <;> simp_all

/-- same run of records -/
def SameRun (cfg : Cfg) (A B : List Item) : Prop := ∀ m, runRecs cfg A m = runRecs cfg B m

theorem gflush_run (c : WCfg) (cfg : Cfg) (hcrc : cfg.crc = c.crc) (buf : Bytes) (g : G) :
    SameRun cfg ((gflush c buf g).L ++ (gflush c buf g).Lb) (g.L ++ g.Lb) := by
  intro m
  unfold gflush; split
  · rfl
  · simp only [List.append_nil]
    exact runRecs_noop_insert cfg _ _ (sep_noop c cfg hcrc buf) _ _

theorem gplace_run (c : WCfg) (cfg : Cfg) (hcrc : cfg.crc = c.crc) (buf : Bytes) (g : G) (x : Item) (op data : Bytes) :
    SameRun cfg ((gplace c buf g x op data).L ++ (gplace c buf g x op data).Lb) (g.L ++ g.Lb ++ [x]) := by
  intro m
  unfold gplace; split
  · simp only [List.append_nil]
    rw [runRecs_noop_insert cfg _ _ (sep_noop c cfg hcrc _) _ _, List.append_assoc]
  · simp [List.append_assoc]

theorem gwrite_run (c : WCfg) (cfg : Cfg) (hcrc : cfg.crc = c.crc) (buf : Bytes) (g : G) (x : Item) (op data : Bytes) :
    SameRun cfg ((gwrite c buf g x op data).L ++ (gwrite c buf g x op data).Lb) (g.L ++ g.Lb ++ [x]) := by
  intro m
  unfold gwrite; split
  · rw [gplace_run c cfg hcrc [] (gflush c buf g) x op data m]
    have := gflush_run c cfg hcrc buf g
    -- run of (A ++ [x]) where A has the same run
    have key : ∀ (A B : List Item), SameRun cfg A B → ∀ m, runRecs cfg (A ++ [x]) m = runRecs cfg (B ++ [x]) m := by
      intro A B hab m
      cases hA : runRecs cfg A m with
      | mk rc m' =>
        have hB := hab m; rw [hA] at hB
        by_cases hok : rc = .ok
        · subst hok
          rw [runRecs_append_ok cfg [x] A m m' hA, runRecs_append_ok cfg [x] B m m' hB.symm]
        · -- a failing run stops before x
          have stop : ∀ (A : List Item) (m : Bytes), (runRecs cfg A m).rc ≠ .ok → runRecs cfg (A ++ [x]) m = runRecs cfg A m := by
            intro A
            induction A with
            | nil => intro m h; simp [runRecs] at h
            | cons a t ih =>
              intro m h
              simp only [runRecs, List.cons_append] at h ⊢
              by_cases hk : (applyB cfg a.1 a.2 m).1 = .ok
              · simp only [hk, if_true] at h ⊢; exact ih _ h
              · simp only [hk, if_false]
          rw [stop A m (by rw [hA]; exact hok), stop B m (by rw [← hB]; exact hok), hA, ← hB]
    exact key _ _ this m
  · exact gplace_run c cfg hcrc buf g x op data m

/-- the log's record list grows at the end, by records that are no savepoints -/
def Ext (g g' : G) : Prop := ∃ X, g'.L = g.L ++ X ∧ ∀ y ∈ X, y.1 ≠ Rec.savepoint

theorem Ext_refl (g : G) : Ext g g := ⟨[], by simp, by simp⟩

theorem Ext_trans {g g' g'' : G} (h1 : Ext g g') (h2 : Ext g' g'') : Ext g g'' := by
  obtain ⟨X, e1, n1⟩ := h1
  obtain ⟨Y, e2, n2⟩ := h2
  refine ⟨X ++ Y, by rw [e2, e1, List.append_assoc], ?_⟩
  intro y hy; rcases List.mem_append.mp hy with h | h
  · exact n1 y h
  · exact n2 y h

theorem isData_ne_sp {r : Rec} (h : IsData r) : r ≠ Rec.savepoint := by intro e; rw [e] at h; exact h

theorem gflush_ext (c : WCfg) (buf : Bytes) (g : G) (hd : ∀ y ∈ g.Lb, IsData y.1) : Ext g (gflush c buf g) := by
  unfold gflush; split
  · exact Ext_refl g
  · refine ⟨sepItem c buf :: g.Lb, rfl, ?_⟩
    intro y hy; rcases List.mem_cons.mp hy with rfl | h
    · simp [sepItem]
    · exact isData_ne_sp (hd y h)

theorem gflush_Lb (c : WCfg) (buf : Bytes) (g : G) (hb : buf = [] → g.Lb = []) : (gflush c buf g).Lb = [] := by
  unfold gflush; split
  · rename_i h; exact hb (by simpa using h)
  · rfl

theorem gplace_ext (c : WCfg) (buf : Bytes) (g : G) (x : Item) (op data : Bytes) (hd : ∀ y ∈ g.Lb, IsData y.1) (hx : IsData x.1) :
    Ext g (gplace c buf g x op data) := by
  unfold gplace; split
  · refine ⟨sepItem c (buf ++ op) :: (g.Lb ++ [x]), rfl, ?_⟩
    intro y hy; rcases List.mem_cons.mp hy with rfl | h
    · simp [sepItem]
    · rcases List.mem_append.mp h with h | h
      · exact isData_ne_sp (hd y h)
      · simp at h; subst h; exact isData_ne_sp hx
  · exact Ext_refl g

theorem gflush_bdata (c : WCfg) (buf : Bytes) (g : G) (hd : ∀ y ∈ g.Lb, IsData y.1) : ∀ y ∈ (gflush c buf g).Lb, IsData y.1 := by
  unfold gflush; split
  · exact hd
  · simp

theorem gwrite_ext (c : WCfg) (buf : Bytes) (g : G) (x : Item) (op data : Bytes) (hd : ∀ y ∈ g.Lb, IsData y.1) (hx : IsData x.1) :
    Ext g (gwrite c buf g x op data) := by
  unfold gwrite; split
  · exact Ext_trans (gflush_ext c buf g hd) (gplace_ext c [] _ x op data (gflush_bdata c buf g hd) hx)
  · exact gplace_ext c buf g x op data hd hx

theorem Ext_size {g g' : G} (h : Ext g g') : size g.L ≤ size g'.L := by
  obtain ⟨X, e, _⟩ := h; rw [e, size_append]; omega

theorem Ext_sp {g g' : G} (h : Ext g g') (p : Nat) : (p, Rec.savepoint) ∈ withPos 0 g'.L ↔ (p, Rec.savepoint) ∈ withPos 0 g.L := by
  obtain ⟨X, e, n⟩ := h
  rw [e, withPos_append, List.mem_append]
  constructor
  · rintro (h | h)
    · exact h
    · obtain ⟨y, hy, ey⟩ := mem_withPos_item _ _ _ _ h; exact absurd ey (n y hy)
  · exact Or.inl

theorem Ext_before {g g' : G} (h : Ext g g') (p : Nat) (hp : (p, Rec.savepoint) ∈ withPos 0 g.L) : before p 0 g'.L = before p 0 g.L := by
  obtain ⟨X, e, _⟩ := h
  rw [e]; exact before_append_hit p X g.L 0 hp

/-! ### the savepoint record: `_write_wl` of the record, then `_flush_wl` -/

def saveLB (c : WCfg) (lb : Bytes × Bytes) (ts : Nat) : Bytes × Bytes := flushLB c (writeLB c lb (encSavepoint ts) [])

/-- ghost before the savepoint's own segment is written: the buffer is flushed first when the record does not fit -/
def gpre (c : WCfg) (buf : Bytes) (g : G) : G := if c.bufsz - buf.length < 12 then gflush c buf g else g

def gsave (c : WCfg) (buf : Bytes) (g : G) (ts : Nat) : G :=
  let b1 := if c.bufsz - buf.length < 12 then [] else buf
  ⟨(gpre c buf g).L ++ sepItem c (b1 ++ encSavepoint ts) :: ((gpre c buf g).Lb ++ [(Rec.savepoint, [])]), []⟩

theorem dec_savepoint (ts : Nat) : Dec (encSavepoint ts) [(Rec.savepoint, [])] := by
  refine ⟨by simpa [advOf] using parse_encSavepoint ts [], by simp [advOf, encSavepoint_length], by simp [body], ?_⟩
  simp only [advOf]
  have : (encSavepoint ts).drop 12 = [] := by
    apply List.drop_eq_nil_of_le; simp [encSavepoint_length]
  rw [this]; rfl

theorem saveLB_inv (c : WCfg) (hc : c.Ok) (lb : Bytes × Bytes) (g : G) (ts : Nat) (h : InvW c lb g) :
    InvW c (saveLB c lb ts) (gsave c lb.2 g ts) ∧ (saveLB c lb ts).2 = [] := by
  refine ⟨?_, flushLB_buf _ _⟩
  -- state before the record is placed
  have key : ∀ (lb1 : Bytes × Bytes) (g1 : G), InvW c lb1 g1 → lb1.2.length + 12 ≤ c.bufsz →
      InvW c (flushLB c (placeLB c lb1 (encSavepoint ts) []))
        ⟨g1.L ++ sepItem c (lb1.2 ++ encSavepoint ts) :: (g1.Lb ++ [(Rec.savepoint, [])]), []⟩ := by
    intro lb1 g1 h1 hroom
    have hl : (lb1.2 ++ encSavepoint ts).length = lb1.2.length + 12 := by simp [encSavepoint_length]
    have hp : placeLB c lb1 (encSavepoint ts) [] = (lb1.1, lb1.2 ++ encSavepoint ts) := by
      unfold placeLB; simp
    have hne : (lb1.2 ++ encSavepoint ts).isEmpty = false := by
      cases hh : lb1.2 ++ encSavepoint ts with
      | nil => have h0 := congrArg List.length hh; rw [hl] at h0; simp at h0
      | cons _ _ => rfl
    rw [hp]
    unfold flushLB
    simp only [hne, Bool.false_eq_true, if_false]
    have hsm := hc.small
    have hchunk := WfLog_chunk lb1.1 g1.L (lb1.2 ++ encSavepoint ts) g1.Lb [(Rec.savepoint, [])] (crcOf c (lb1.2 ++ encSavepoint ts))
      (lb1.2 ++ encSavepoint ts).length h1.wf (Dec_append _ _ _ _ h1.bdec (dec_savepoint ts)) h1.bdata (Or.inr ⟨rfl, rfl⟩)
      (Nat.le_refl _) (crcOf_lt c hc _) (by omega)
    rw [List.take_length] at hchunk
    exact ⟨hchunk, rfl, by simp, by simp⟩
  unfold saveLB writeLB gsave gpre
  simp only [encSavepoint_length]
  split
  · have h1 := flushLB_inv c hc lb g h
    have hb := flushLB_buf c lb
    have := key (flushLB c lb) (gflush c lb.2 g) h1 (by rw [hb]; have := hc.room; simp; omega)
    rw [hb] at this; exact this
  · exact key lb g h (by have := h.bfit; omega)

theorem gpre_ext (c : WCfg) (buf : Bytes) (g : G) (hd : ∀ y ∈ g.Lb, IsData y.1) : Ext g (gpre c buf g) := by
  unfold gpre; split
  · exact gflush_ext c buf g hd
  · exact Ext_refl g

theorem gpre_run (c : WCfg) (cfg : Cfg) (hcrc : cfg.crc = c.crc) (buf : Bytes) (g : G) :
    SameRun cfg ((gpre c buf g).L ++ (gpre c buf g).Lb) (g.L ++ g.Lb) := by
  unfold gpre; split
  · exact gflush_run c cfg hcrc buf g
  · intro m; rfl

/-! ## invariant of writer states -/

/-- structural + semantic invariant of a writer state; `g` lists the records of the log file and of the buffer:
running them over the main file gives the image the process sees -/
structure Inv (c : WCfg) (s : St) (g : G) : Prop where
  w : InvW c (s.log, s.buf) g
  sem : runRecs c.rd (g.L ++ g.Lb) s.main = ⟨.ok, s.view⟩
  fs : s.fsynced ≤ s.log.length

theorem WfLog_headD {w : Bytes} {L : List Item} (h : WfLog w L) : w = [] ∨ w.headD 0 = WOP_SEP := by
  rcases h.head with rfl | ⟨c, l, b, T, rfl⟩
  · left; exact h.dec
  · right; exact parse_sep_head h.dec.1

theorem WfLog_no_sp0 {w : Bytes} {L : List Item} (h : WfLog w L) : (0, Rec.savepoint) ∉ withPos 0 L := by
  rcases h.head with rfl | ⟨c, l, b, T, rfl⟩
  · simp [withPos]
  · simp only [withPos, List.mem_cons, Prod.mk.injEq, not_or]
    refine ⟨by simp, fun hm => ?_⟩
    have := (mem_withPos_bounds _ _ _ _ hm).1
    simp [advOf] at this

theorem replay0_of_wf (cfg : Cfg) {w : Bytes} {L : List Item} (h : WfLog w L) (m : Bytes) : replay cfg 0 w m = runRecs cfg L m := by
  rw [replay_of_Dec cfg 0 L w m h.dec (WfLog_headD h), before_all 0 L 0 (WfLog_no_sp0 h)]

theorem Inv_init (c : WCfg) (m : Bytes) : Inv c (init m) ⟨[], []⟩ :=
  ⟨⟨WfLog_nil, rfl, by simp, by simp [init]⟩, rfl, by simp [init]⟩

theorem Inv_loglen {c : WCfg} {s : St} {g : G} (h : Inv c s g) : s.log.length = size g.L := (Dec_size _ _ h.w.wf.dec).symm

/-- a data record goes through `_write_wl`; the view is updated by the store the record describes -/
theorem data_step (c : WCfg) (hc : c.Ok) (s s' : St) (g : G) (x : Item) (op data v' : Bytes) (h : Inv c s g) (hx : EncItem x op data)
    (ha : applyB c.rd x.1 x.2 s.view = (.ok, v'))
    (hlb : (s'.log, s'.buf) = writeLB c (s.log, s.buf) op data) (hm : s'.main = s.main) (hv : s'.view = v') (hf : s'.fsynced = s.fsynced) :
    Inv c s' (gwrite c s.buf g x op data) ∧ Ext g (gwrite c s.buf g x op data) := by
  have hw := writeLB_inv c hc (s.log, s.buf) g x op data h.w hx
  have hext := gwrite_ext c s.buf g x op data h.w.bdata hx.isData
  rw [← hlb] at hw
  refine ⟨⟨hw, ?_, ?_⟩, hext⟩
  · rw [gwrite_run c c.rd rfl s.buf g x op data, hm, runRecs_append_ok c.rd [x] _ _ _ h.sem, hv]
    simp [runRecs, ha]
  · have h1 := Dec_size _ _ hw.wf.dec
    have h2 := Inv_loglen h
    have h3 := Ext_size hext
    have h4 := h.fs
    simp only at h1
    omega

theorem some_getD (v : Bytes) (f : Rc) : ∀ (o : Option Bytes), o.isSome = true →
    (match o with | some m' => (Rc.ok, m') | none => (f, v)) = (Rc.ok, o.getD v) := by
  intro o h
  cases o with
  | none => simp at h
  | some m => rfl

theorem memWrite_some (m data : Bytes) (off : Nat) (h : data.length = 0 ∨ off + data.length ≤ m.length) : (memWrite m off data).isSome := by
  unfold memWrite; split
  · rfl
  · rcases h with h | h
    · contradiction
    · simp [h]

theorem memSet_some (m : Bytes) (off len val : Nat) (h : len = 0 ∨ off + len ≤ m.length) : (memSet m off len val).isSome := by
  unfold memSet; split
  · rfl
  · rcases h with h | h
    · contradiction
    · simp only [h, if_true]; exact memWrite_some _ _ _ (by simp; right; exact h)

theorem memCopy_some (m : Bytes) (off len noff : Nat) (h : len = 0 ∨ (off + len ≤ m.length ∧ noff + len ≤ m.length)) :
    (memCopy m off len noff).isSome := by
  unfold memCopy; split
  · rfl
  · rcases h with h | ⟨h1, h2⟩
    · contradiction
    · simp only [h1, if_true]; exact memWrite_some _ _ _ (by right; simp; omega)

theorem enc_set (val off len : Nat) (h1 : val < 2 ^ 32) (h2 : off < 2 ^ 64) (h3 : len < 2 ^ 64) :
    EncItem (Rec.set val off len, []) (encSet val off len) [] := by
  refine ⟨⟨by simpa [advOf] using parse_encSet val off len [] h1 h2 h3, by simp [advOf, encSet_length], by simp [body], ?_⟩, trivial,
    by simp [encSet_length]⟩
  have : (encSet val off len ++ []).drop (advOf (Rec.set val off len)) = [] := by
    apply List.drop_eq_nil_of_le; simp [encSet_length, advOf]
  rw [this]; rfl

theorem enc_copy (off len noff : Nat) (h1 : off < 2 ^ 64) (h2 : len < 2 ^ 64) (h3 : noff < 2 ^ 64) :
    EncItem (Rec.copy off len noff, []) (encCopy off len noff) [] := by
  refine ⟨⟨by simpa [advOf] using parse_encCopy off len noff [] h1 h2 h3, by simp [advOf, encCopy_length], by simp [body], ?_⟩, trivial,
    by simp [encCopy_length]⟩
  have : (encCopy off len noff ++ []).drop (advOf (Rec.copy off len noff)) = [] := by
    apply List.drop_eq_nil_of_le; simp [encCopy_length, advOf]
  rw [this]; rfl

theorem enc_resize (o n : Nat) (h1 : o < 2 ^ 64) (h2 : n < 2 ^ 64) : EncItem (Rec.resize o n, []) (encResize o n) [] := by
  refine ⟨⟨by simpa [advOf] using parse_encResize o n [] h1 h2, by simp [advOf, encResize_length], by simp [body], ?_⟩, trivial,
    by simp [encResize_length]⟩
  have : (encResize o n ++ []).drop (advOf (Rec.resize o n)) = [] := by
    apply List.drop_eq_nil_of_le; simp [encResize_length, advOf]
  rw [this]; rfl

theorem enc_write (crc off : Nat) (data : Bytes) (h1 : crc < 2 ^ 32) (h2 : data.length < 2 ^ 32) (h3 : off < 2 ^ 64) :
    EncItem (Rec.write crc data.length off, data) (encWrite crc data.length off) data := by
  refine ⟨⟨by simpa [advOf] using parse_encWrite crc data.length off data h1 h2 h3 (Nat.le_refl _), by simp [advOf, encWrite_length], ?_, ?_⟩,
    trivial, by simp [encWrite_length]⟩
  · simp only [body, sz_WBWRITE]; rw [drop_app _ _ _ (encWrite_length _ _ _)]; simp
  · have : (encWrite crc data.length off ++ data).drop (advOf (Rec.write crc data.length off)) = [] := by
      apply List.drop_eq_nil_of_le; simp [encWrite_length, advOf]
    rw [this]; rfl

theorem crc_check_false (c : WCfg) (b : Bytes) : (c.crcOn && crcOf c b != 0 && c.crc b != crcOf c b) = false := by
  unfold crcOf; cases c.crcOn <;> simp

theorem logSet_inv (c : WCfg) (hc : c.Ok) (s : St) (g : G) (off val len : Nat) (h : Inv c s g) (hv : Valid c s (.set off val len)) :
    Inv c (logSet c s off val len) (gwrite c s.buf g (Rec.set val off len, []) (encSet val off len) []) ∧
    Ext g (gwrite c s.buf g (Rec.set val off len, []) (encSet val off len) []) := by
  obtain ⟨h1, h2, h3, h4⟩ := hv
  apply data_step c hc s _ g _ _ _ ((memSet s.view off len val).getD s.view) h (enc_set val off len h1 h2 h3)
  · simp only [applyB]; exact some_getD _ _ _ (memSet_some _ _ _ _ h4)
  · exact writeWl_lb c { s with mbytes := s.mbytes + len } _ _
  · exact (writeWl_rest c { s with mbytes := s.mbytes + len } _ _).1
  · rfl
  · exact (writeWl_rest c { s with mbytes := s.mbytes + len } _ _).2.2.2.2.1

theorem logCopy_inv (c : WCfg) (hc : c.Ok) (s : St) (g : G) (off len noff : Nat) (h : Inv c s g) (hv : Valid c s (.copy off len noff)) :
    Inv c (logCopy c s off len noff) (gwrite c s.buf g (Rec.copy off len noff, []) (encCopy off len noff) []) ∧
    Ext g (gwrite c s.buf g (Rec.copy off len noff, []) (encCopy off len noff) []) := by
  obtain ⟨h1, h2, h3, h4⟩ := hv
  apply data_step c hc s _ g _ _ _ ((memCopy s.view off len noff).getD s.view) h (enc_copy off len noff h1 h2 h3)
  · simp only [applyB]; exact some_getD _ _ _ (memCopy_some _ _ _ _ h4)
  · exact writeWl_lb c { s with mbytes := s.mbytes + len } _ _
  · exact (writeWl_rest c { s with mbytes := s.mbytes + len } _ _).1
  · rfl
  · exact (writeWl_rest c { s with mbytes := s.mbytes + len } _ _).2.2.2.2.1

theorem logResize_inv (c : WCfg) (hc : c.Ok) (s : St) (g : G) (o n : Nat) (h : Inv c s g) (hv : Valid c s (.resize o n)) :
    Inv c (logResize c s o n) (gwrite c s.buf g (Rec.resize o n, []) (encResize o n) []) ∧
    Ext g (gwrite c s.buf g (Rec.resize o n, []) (encResize o n) []) := by
  obtain ⟨h1, h2, h3⟩ := hv
  apply data_step c hc s _ g _ _ _ ((resize c.maxoff s.view n).getD s.view) h (enc_resize o n h1 h2)
  · simp only [applyB, WCfg.rd]; exact some_getD _ _ _ h3
  · exact writeWl_lb c s _ _
  · exact (writeWl_rest c s _ _).1
  · rfl
  · exact (writeWl_rest c s _ _).2.2.2.2.1

theorem logWrite_inv (c : WCfg) (hc : c.Ok) (s : St) (g : G) (off : Nat) (data : Bytes) (h : Inv c s g) (hv : Valid c s (.write off data)) :
    Inv c (logWrite c s off data) (gwrite c s.buf g (Rec.write (crcOf c data) data.length off, data) (encWrite (crcOf c data) data.length off) data) ∧
    Ext g (gwrite c s.buf g (Rec.write (crcOf c data) data.length off, data) (encWrite (crcOf c data) data.length off) data) := by
  obtain ⟨h1, h2, h3⟩ := hv
  apply data_step c hc s _ g _ _ _ ((memWrite s.view off data).getD s.view) h (enc_write (crcOf c data) off data (crcOf_lt c hc _) h2 h1)
  · simp only [applyB, WCfg.rd, crc_check_false, Bool.false_eq_true, if_false]
    exact some_getD _ _ _ (memWrite_some _ _ _ h3)
  · exact writeWl_lb c { s with mbytes := s.mbytes + data.length } _ _
  · exact (writeWl_rest c { s with mbytes := s.mbytes + data.length } _ _).1
  · rfl
  · exact (writeWl_rest c { s with mbytes := s.mbytes + data.length } _ _).2.2.2.2.1

theorem flush_inv (c : WCfg) (hc : c.Ok) (s : St) (g : G) (h : Inv c s g) :
    Inv c (flush c s) (gflush c s.buf g) ∧ Ext g (gflush c s.buf g) := by
  have hw := flushLB_inv c hc (s.log, s.buf) g h.w
  have hext := gflush_ext c s.buf g h.w.bdata
  rw [← flush_lb] at hw
  have hr := flush_rest c s
  refine ⟨⟨hw, ?_, ?_⟩, hext⟩
  · rw [gflush_run c c.rd rfl s.buf g, hr.1, hr.2.1]; exact h.sem
  · have h1 := Dec_size _ _ hw.wf.dec
    have h2 := Inv_loglen h
    have h3 := Ext_size hext
    have h4 := h.fs
    simp only at h1
    rw [hr.2.2.2.2.1]; omega

theorem fsyncLog_inv (c : WCfg) (s : St) (g : G) (h : Inv c s g) : Inv c (fsyncLog s) g :=
  ⟨h.w, h.sem, Nat.le_refl _⟩

theorem Inv_congr (c : WCfg) (s s' : St) (g : G) (h : Inv c s g) (e1 : s'.log = s.log) (e2 : s'.buf = s.buf) (e3 : s'.main = s.main)
    (e4 : s'.view = s.view) (e5 : s'.fsynced = s.fsynced) : Inv c s' g := by
  refine ⟨?_, ?_, ?_⟩
  · rw [e1, e2]; exact h.w
  · rw [e3, e4]; exact h.sem
  · rw [e1, e5]; exact h.fs

theorem Dec_nil {L : List Item} (h : Dec [] L) : L = [] := by
  cases L with
  | nil => rfl
  | cons x t => have := h.2.1; have := advOf_pos x.1; simp at *; omega

theorem putSavepoint_spec (c : WCfg) (hc : c.Ok) (s : St) (g : G) (ts : Nat) (h : Inv c s g) :
    Inv c (putSavepoint c s ts) (gsave c s.buf g ts) ∧ (putSavepoint c s ts).buf = [] ∧ (putSavepoint c s ts).main = s.main ∧
    (putSavepoint c s ts).view = s.view ∧ (putSavepoint c s ts).hist = s.hist ++ [s.view] ∧ (putSavepoint c s ts).fsynced = s.fsynced ∧
    (putSavepoint c s ts).dur = s.dur := by
  have hw := (saveLB_inv c hc (s.log, s.buf) g ts h.w).1
  have hr := writeWl_rest c s (encSavepoint ts) []
  have hlb : ((putSavepoint c s ts).log, (putSavepoint c s ts).buf) = saveLB c (s.log, s.buf) ts := by
    unfold putSavepoint saveLB
    simp only []
    rw [flush_lb]
    show flushLB c ((writeWl c s (encSavepoint ts) []).log, (writeWl c s (encSavepoint ts) []).buf) = _
    rw [writeWl_lb]
  have hfl := flush_rest c { writeWl c s (encSavepoint ts) [] with hist := (writeWl c s (encSavepoint ts) []).hist ++ [(writeWl c s (encSavepoint ts) []).view] }
  have hmain : (putSavepoint c s ts).main = s.main := by unfold putSavepoint; simp only []; rw [hfl.1]; exact hr.1
  have hview : (putSavepoint c s ts).view = s.view := by unfold putSavepoint; simp only []; rw [hfl.2.1]; exact hr.2.1
  have hfs : (putSavepoint c s ts).fsynced = s.fsynced := by unfold putSavepoint; simp only []; rw [hfl.2.2.2.2.1]; exact hr.2.2.2.2.1
  refine ⟨⟨by rw [hlb]; exact hw, ?_, ?_⟩, ?_, hmain, hview, ?_, hfs, ?_⟩
  · rw [hmain, hview]
    simp only [gsave, List.append_nil]
    rw [runRecs_noop_insert c.rd _ _ (sep_noop c c.rd rfl _) _ _, ← List.append_assoc,
      runRecs_append_ok c.rd _ _ _ s.view (by rw [gpre_run c c.rd rfl s.buf g]; exact h.sem)]
    simp [runRecs, applyB]
  · have h1 := Dec_size _ _ hw.wf.dec
    rw [← hlb] at h1
    simp only at h1
    have hext : size g.L ≤ size (gsave c s.buf g ts).L := by
      have := Ext_size (gpre_ext c s.buf g h.w.bdata)
      simp only [gsave, size_append]; omega
    have := Inv_loglen h
    have := h.fs
    rw [hfs]; omega
  · unfold putSavepoint; exact flush_buf _ _
  · unfold putSavepoint; simp only []; rw [hfl.2.2.1, hr.2.2.1, hr.2.1]
  · unfold putSavepoint; simp only []; rw [hfl.2.2.2.1]; exact hr.2.2.2.1

theorem rollforward_ckpt (cfg : Cfg) (w m : Bytes) (hne : w ≠ []) : rollforward cfg 0 0 w m = replay cfg 0 w m := by
  unfold rollforward
  have : w.isEmpty = false := by cases w with | nil => exact absurd rfl hne | cons _ _ => rfl
  simp [this]

theorem ckptFinish_eq (c : WCfg) (s : St) (v : Bytes) (h : rollforward c.rd 0 0 s.log s.main = ⟨.ok, v⟩) :
    ckptFinish c s = if s.log.isEmpty then { s with main := v, mbytes := 0, synched := true }
      else { s with main := v, log := [], fsynced := 0, eff := s.eff ++ [.trunc, .fsync], mbytes := 0, synched := true } := by
  unfold ckptFinish
  simp only [h, if_true, truncateLog]
  split <;> rfl

theorem ckptFinish_spec (c : WCfg) (s : St) (g : G) (h : Inv c s g) (hb : g.Lb = []) :
    Inv c (ckptFinish c s) ⟨[], []⟩ ∧ (ckptFinish c s).main = s.view ∧ (ckptFinish c s).log = [] ∧ (ckptFinish c s).view = s.view ∧
    (ckptFinish c s).buf = s.buf ∧ (ckptFinish c s).hist = s.hist ∧ (ckptFinish c s).dur = s.dur ∧
    rollforward c.rd 0 0 s.log s.main = ⟨.ok, s.view⟩ := by
  have hsem := h.sem
  rw [hb, List.append_nil] at hsem
  have hbuf : s.buf = [] := by have := h.w.bdec; rw [hb] at this; exact this
  have hdb : Dec s.buf [] := hbuf
  by_cases hl : s.log = []
  · have hL : g.L = [] := by have := h.w.wf.dec; simp only [hl] at this; exact Dec_nil this
    rw [hL] at hsem
    simp only [runRecs, Out.mk.injEq, true_and] at hsem
    have hro : rollforward c.rd 0 0 s.log s.main = ⟨.ok, s.view⟩ := by rw [hl]; simp [rollforward, hsem]
    have hfs := h.fs
    refine ⟨?_, ?_, ?_, ?_, ?_, ?_, ?_, hro⟩ <;> rw [ckptFinish_eq c s _ hro, hl]
    · rw [hl] at hfs
      exact ⟨⟨WfLog_nil, hdb, by simp, by simp [hbuf]⟩, rfl, hfs⟩
    all_goals rfl
  · have hro : rollforward c.rd 0 0 s.log s.main = ⟨.ok, s.view⟩ := by
      rw [rollforward_ckpt _ _ _ hl, replay0_of_wf c.rd h.w.wf]; exact hsem
    have hne : s.log.isEmpty = false := by cases hh : s.log with | nil => exact absurd hh hl | cons _ _ => rfl
    refine ⟨?_, ?_, ?_, ?_, ?_, ?_, ?_, hro⟩ <;> rw [ckptFinish_eq c s _ hro, hne]
    · exact ⟨⟨WfLog_nil, hdb, by simp, by simp [hbuf]⟩, rfl, Nat.le_refl _⟩
    all_goals rfl

theorem gsave_Lb (c : WCfg) (buf : Bytes) (g : G) (ts : Nat) : (gsave c buf g ts).Lb = [] := rfl

theorem step_inv (c : WCfg) (hc : c.Ok) (s : St) (g : G) (e : Step) (h : Inv c s g) (hv : Valid c s e) : ∃ g', Inv c (step c s e) g' := by
  cases e with
  | set off val len => exact ⟨_, (logSet_inv c hc s g off val len h hv).1⟩
  | copy off len noff => exact ⟨_, (logCopy_inv c hc s g off len noff h hv).1⟩
  | write off data => exact ⟨_, (logWrite_inv c hc s g off data h hv).1⟩
  | resize o n =>
    have h1 := (logResize_inv c hc s g o n h hv).1
    have h2 := (flush_inv c hc _ _ h1).1
    have h3 := fsyncLog_inv c _ _ h2
    have hb : (gflush c (logResize c s o n).buf (gwrite c s.buf g (Rec.resize o n, []) (encResize o n) [])).Lb = [] := by
      apply gflush_Lb; intro hbuf; have := h1.w.bdec; simp only [hbuf] at this; exact Dec_nil this
    exact ⟨_, (ckptFinish_spec c _ _ h3 hb).1⟩
  | sync => exact ⟨_, fsyncLog_inv c _ _ (flush_inv c hc s g h).1⟩
  | flush => exact ⟨_, (flush_inv c hc s g h).1⟩
  | savepoint ts sy =>
    have h0 : Inv c { s with forceSp := false } g := Inv_congr c s _ g h rfl rfl rfl rfl rfl
    have h1 := (putSavepoint_spec c hc _ g ts h0).1
    simp only [step, savepoint]
    cases sy with
    | false => exact ⟨_, h1⟩
    | true => exact ⟨_, Inv_congr c _ _ _ (fsyncLog_inv c _ _ h1) rfl rfl rfl rfl rfl⟩
  | checkpoint ts =>
    have h0 : Inv c { s with forceCp := false, forceSp := false } g := Inv_congr c s _ g h rfl rfl rfl rfl rfl
    have h1 := (putSavepoint_spec c hc _ g ts h0).1
    have h3 := fsyncLog_inv c _ _ h1
    exact ⟨_, (ckptFinish_spec c _ _ h3 rfl).1⟩

theorem run_inv (c : WCfg) (hc : c.Ok) : ∀ (tr : List Step) (s : St) (g : G), Inv c s g → ValidTrace c s tr → ∃ g', Inv c (run c s tr) g' := by
  intro tr
  induction tr with
  | nil => intro s g h _; exact ⟨g, h⟩
  | cons e t ih =>
    intro s g h hv
    obtain ⟨g1, h1⟩ := step_inv c hc s g e h hv.1
    exact ih _ g1 h1 hv.2

/-! ## savepoints of the log and the images they stand for -/

/-- `base`: index in `hist` of the image the main file holds; `marks`: (position of a savepoint record in the log file,
index in `hist` of the image at that savepoint), oldest first -/
structure InvM (c : WCfg) (s : St) (g : G) (base : Nat) (marks : List (Nat × Nat)) : Prop where
  hbase : s.hist[base]? = some s.main
  mark : ∀ p k, (p, k) ∈ marks → (p, Rec.savepoint) ∈ withPos 0 g.L ∧ base < k ∧
    ∃ img, s.hist[k]? = some img ∧ runRecs c.rd (before p 0 g.L) s.main = ⟨.ok, img⟩
  all : ∀ p, (p, Rec.savepoint) ∈ withPos 0 g.L → ∃ k, (p, k) ∈ marks
  mono : ∀ p k p' k', (p, k) ∈ marks → (p', k') ∈ marks → p ≤ p' → k ≤ k'
  dur : s.dur = base ∨ ∃ p, (p, s.dur) ∈ marks ∧ p + 12 ≤ s.fsynced
  cover : ∀ k, base < k → k < s.hist.length → ∃ p, (p, k) ∈ marks

theorem InvM_init (c : WCfg) (m : Bytes) : InvM c (init m) ⟨[], []⟩ 0 [] :=
  ⟨rfl, by simp, by simp [withPos], by simp, Or.inl rfl, by intro k h1 h2; simp [init] at h2; omega⟩

theorem InvM_ext (c : WCfg) (s s' : St) (g g' : G) (base : Nat) (marks : List (Nat × Nat)) (h : InvM c s g base marks) (hext : Ext g g')
    (e1 : s'.hist = s.hist) (e2 : s'.main = s.main) (e3 : s'.dur = s.dur) (e4 : s'.fsynced = s.fsynced) : InvM c s' g' base marks := by
  refine ⟨by rw [e1, e2]; exact h.hbase, ?_, ?_, h.mono, by rw [e3, e4]; exact h.dur, by rw [e1]; exact h.cover⟩
  · intro p k hm
    obtain ⟨a, b, img, hi, hr⟩ := h.mark p k hm
    exact ⟨(Ext_sp hext p).2 a, b, img, by rw [e1]; exact hi, by rw [Ext_before hext p a, e2]; exact hr⟩
  · intro p hp; exact h.all p ((Ext_sp hext p).1 hp)

theorem base_lt {c : WCfg} {s : St} {g : G} {base : Nat} {marks : List (Nat × Nat)} (h : InvM c s g base marks) : base < s.hist.length := by
  have := h.hbase
  by_cases hh : base < s.hist.length
  · exact hh
  · rw [List.getElem?_eq_none (by omega)] at this; simp at this

theorem InvM_fsync (c : WCfg) (s : St) (g : G) (base : Nat) (marks : List (Nat × Nat)) (h : InvM c s g base marks) (hi : Inv c s g) :
    InvM c (fsyncLog s) g base marks := by
  refine ⟨h.hbase, h.mark, h.all, h.mono, ?_, h.cover⟩
  show s.hist.length - 1 = base ∨ ∃ p, (p, s.hist.length - 1) ∈ marks ∧ p + 12 ≤ s.log.length
  have hb := base_lt h
  by_cases hk : base < s.hist.length - 1
  · right
    obtain ⟨p, hp⟩ := h.cover _ hk (by omega)
    refine ⟨p, hp, ?_⟩
    have := (mem_withPos_bounds _ _ _ _ (h.mark _ _ hp).1).2
    have := Inv_loglen hi
    simp only [advOf] at *; omega
  · left; omega

theorem InvM_congr (c : WCfg) (s s' : St) (g : G) (base : Nat) (marks : List (Nat × Nat)) (h : InvM c s g base marks)
    (e1 : s'.hist = s.hist) (e2 : s'.main = s.main) (e3 : s'.dur = s.dur) (e4 : s'.fsynced = s.fsynced) : InvM c s' g base marks :=
  InvM_ext c s s' g g base marks h (Ext_refl g) e1 e2 e3 e4

/-- records of the log up to (not including) the savepoint record `putSavepoint` writes -/
def gsaveA (c : WCfg) (buf : Bytes) (g : G) (ts : Nat) : List Item :=
  (gpre c buf g).L ++ sepItem c ((if c.bufsz - buf.length < 12 then [] else buf) ++ encSavepoint ts) :: (gpre c buf g).Lb

theorem gsave_L (c : WCfg) (buf : Bytes) (g : G) (ts : Nat) : (gsave c buf g ts).L = gsaveA c buf g ts ++ [(Rec.savepoint, [])] := by
  simp [gsave, gsaveA]

theorem gpre_bdata (c : WCfg) (buf : Bytes) (g : G) (hd : ∀ y ∈ g.Lb, IsData y.1) : ∀ y ∈ (gpre c buf g).Lb, IsData y.1 := by
  unfold gpre; split
  · exact gflush_bdata c buf g hd
  · exact hd

theorem gsaveA_ext (c : WCfg) (buf : Bytes) (g : G) (ts : Nat) (hd : ∀ y ∈ g.Lb, IsData y.1) : Ext g ⟨gsaveA c buf g ts, []⟩ := by
  refine Ext_trans (gpre_ext c buf g hd) ⟨sepItem c _ :: (gpre c buf g).Lb, rfl, ?_⟩
  intro y hy; rcases List.mem_cons.mp hy with rfl | h
  · simp [sepItem]
  · exact isData_ne_sp (gpre_bdata c buf g hd y h)

theorem gsaveA_run (c : WCfg) (buf : Bytes) (g : G) (ts : Nat) : SameRun c.rd (gsaveA c buf g ts) (g.L ++ g.Lb) := by
  intro m
  unfold gsaveA
  rw [runRecs_noop_insert c.rd _ _ (sep_noop c c.rd rfl _) _ _]
  exact gpre_run c c.rd rfl buf g m

theorem InvM_save (c : WCfg) (hc : c.Ok) (s : St) (g : G) (ts : Nat) (base : Nat) (marks : List (Nat × Nat))
    (h : InvM c s g base marks) (hi : Inv c s g) :
    InvM c (putSavepoint c s ts) (gsave c s.buf g ts) base (marks ++ [(size (gsaveA c s.buf g ts), s.hist.length)]) := by
  obtain ⟨_, _, emain, _, ehist, efs, edur⟩ := putSavepoint_spec c hc s g ts hi
  have hext := gsaveA_ext c s.buf g ts hi.w.bdata
  have hb := base_lt h
  -- savepoints of the new log: the old ones and the new record
  have hsp : ∀ p, (p, Rec.savepoint) ∈ withPos 0 (gsave c s.buf g ts).L ↔
      ((p, Rec.savepoint) ∈ withPos 0 g.L ∨ p = size (gsaveA c s.buf g ts)) := by
    intro p
    rw [gsave_L, withPos_append, List.mem_append, Ext_sp hext p]
    simp [withPos]
  have hnot : (size (gsaveA c s.buf g ts), Rec.savepoint) ∉ withPos 0 (gsaveA c s.buf g ts) := by
    intro hm; have := (mem_withPos_bounds _ _ _ _ hm).2; simp only [advOf] at this; omega
  have hold_lt : ∀ p, (p, Rec.savepoint) ∈ withPos 0 g.L → p + 12 ≤ size (gsaveA c s.buf g ts) := by
    intro p hp
    have := (mem_withPos_bounds _ _ _ _ ((Ext_sp hext p).2 hp)).2
    simp only [advOf] at this; omega
  refine ⟨?_, ?_, ?_, ?_, ?_, ?_⟩
  · rw [ehist, emain, List.getElem?_append_left hb]; exact h.hbase
  · intro p k hm
    rcases List.mem_append.mp hm with hm | hm
    · obtain ⟨a, b, img, hi', hr⟩ := h.mark p k hm
      refine ⟨(hsp p).2 (Or.inl a), b, img, ?_, ?_⟩
      · have hk : k < s.hist.length := by
          by_cases hh : k < s.hist.length
          · exact hh
          · rw [List.getElem?_eq_none (by omega)] at hi'; simp at hi'
        rw [ehist, List.getElem?_append_left hk]; exact hi'
      · rw [gsave_L, before_append_hit p _ _ 0 ((Ext_sp hext p).2 a), emain]
        have := Ext_before hext p a
        simp only at this
        rw [this]; exact hr
    · simp only [List.mem_singleton, Prod.mk.injEq] at hm
      obtain ⟨rfl, rfl⟩ := hm
      refine ⟨(hsp _).2 (Or.inr rfl), hb, s.view, ?_, ?_⟩
      · rw [ehist, List.getElem?_append_right (Nat.le_refl _)]; simp
      · rw [gsave_L, before_append_miss _ _ _ 0 hnot, emain]
        simp only [Nat.zero_add, before, and_self, if_true, List.append_nil]
        rw [gsaveA_run c s.buf g ts]; exact hi.sem
  · intro p hp
    rcases (hsp p).1 hp with hp | rfl
    · obtain ⟨k, hk⟩ := h.all p hp; exact ⟨k, List.mem_append.mpr (Or.inl hk)⟩
    · exact ⟨s.hist.length, List.mem_append.mpr (Or.inr (by simp))⟩
  · intro p k p' k' h1 h2 hle
    rcases List.mem_append.mp h1 with h1 | h1 <;> rcases List.mem_append.mp h2 with h2 | h2
    · exact h.mono _ _ _ _ h1 h2 hle
    · simp only [List.mem_singleton, Prod.mk.injEq] at h2
      obtain ⟨_, rfl⟩ := h2
      obtain ⟨_, _, img, hi', _⟩ := h.mark p k h1
      by_cases hh : k < s.hist.length
      · omega
      · rw [List.getElem?_eq_none (by omega)] at hi'; simp at hi'
    · simp only [List.mem_singleton, Prod.mk.injEq] at h1
      obtain ⟨rfl, rfl⟩ := h1
      have := hold_lt p' (h.mark p' k' h2).1
      omega
    · simp only [List.mem_singleton, Prod.mk.injEq] at h1 h2
      omega
  · rw [edur, efs]
    rcases h.dur with hd | ⟨p, hp, hle⟩
    · exact Or.inl hd
    · exact Or.inr ⟨p, List.mem_append.mpr (Or.inl hp), hle⟩
  · intro k h1 h2
    rw [ehist] at h2
    simp only [List.length_append, List.length_singleton] at h2
    by_cases hk : k < s.hist.length
    · obtain ⟨p, hp⟩ := h.cover k h1 hk; exact ⟨p, List.mem_append.mpr (Or.inl hp)⟩
    · have hk' : k = s.hist.length := by omega
      subst hk'
      exact ⟨_, List.mem_append.mpr (Or.inr (List.mem_singleton.mpr rfl))⟩

/-! ## traces without `_onresize` -/

/-- the hypothesis that excludes finding F26: no step of the trace is a resize of the main file (`_onresize` appends the
record and runs `_checkpoint_exl(no_fixpoint = true)`: the log — with whatever unfinished operation it holds — is
applied and truncated without a savepoint) -/
def noForcedCheckpointInsideOp (tr : List Step) : Prop := ∀ e ∈ tr, ∀ o n, e ≠ Step.resize o n

/-- no `_oncopy` event (a `WBCOPY` record reads the main file: replaying it twice is not idempotent) -/
def noCopy (tr : List Step) : Prop := ∀ e ∈ tr, ∀ a b d, e ≠ Step.copy a b d

/-- records that store absolute bytes -/
def AbsRec (r : Rec) : Prop := (∀ a b d, r ≠ Rec.copy a b d) ∧ (∀ a b, r ≠ Rec.resize a b)

def AllAbs (g : G) : Prop := ∀ y ∈ g.L ++ g.Lb, AbsRec y.1

theorem abs_sep (c n : Nat) : AbsRec (Rec.sep c n) := ⟨by simp, by simp⟩

theorem gflush_abs (c : WCfg) (buf : Bytes) (g : G) (h : AllAbs g) : AllAbs (gflush c buf g) := by
  unfold gflush; split
  · exact h
  · intro y hy
    simp only [List.append_nil, List.mem_append, List.mem_cons] at hy
    rcases hy with hy | rfl | hy
    · exact h y (List.mem_append.mpr (Or.inl hy))
    · exact abs_sep _ _
    · exact h y (List.mem_append.mpr (Or.inr hy))

theorem gplace_abs (c : WCfg) (buf : Bytes) (g : G) (x : Item) (op data : Bytes) (h : AllAbs g) (hx : AbsRec x.1) :
    AllAbs (gplace c buf g x op data) := by
  unfold gplace; split
  · intro y hy
    simp only [List.append_nil, List.mem_append, List.mem_cons, List.not_mem_nil, or_false] at hy
    rcases hy with hy | rfl | hy | rfl
    · exact h y (List.mem_append.mpr (Or.inl hy))
    · exact abs_sep _ _
    · exact h y (List.mem_append.mpr (Or.inr hy))
    · exact hx
  · intro y hy
    simp only [List.mem_append, List.mem_singleton] at hy
    rcases hy with hy | hy | rfl
    · exact h y (List.mem_append.mpr (Or.inl hy))
    · exact h y (List.mem_append.mpr (Or.inr hy))
    · exact hx

theorem gwrite_abs (c : WCfg) (buf : Bytes) (g : G) (x : Item) (op data : Bytes) (h : AllAbs g) (hx : AbsRec x.1) :
    AllAbs (gwrite c buf g x op data) := by
  unfold gwrite; split
  · exact gplace_abs c [] _ x op data (gflush_abs c buf g h) hx
  · exact gplace_abs c buf g x op data h hx

theorem gsave_abs (c : WCfg) (buf : Bytes) (g : G) (ts : Nat) (h : AllAbs g) : AllAbs (gsave c buf g ts) := by
  have hp : AllAbs (gpre c buf g) := by unfold gpre; split; exact gflush_abs c buf g h; exact h
  intro y hy
  simp only [gsave, List.append_nil, List.mem_append, List.mem_cons, List.not_mem_nil, or_false] at hy
  rcases hy with hy | rfl | hy | rfl
  · exact hp y (List.mem_append.mpr (Or.inl hy))
  · exact abs_sep _ _
  · exact hp y (List.mem_append.mpr (Or.inr hy))
  · exact ⟨by simp, by simp⟩

/-- the invariant carried along a trace without resize steps -/
def Inv2 (c : WCfg) (s : St) : Prop := ∃ g base marks, Inv c s g ∧ InvM c s g base marks

/-- … and without copy steps -/
def Inv3 (c : WCfg) (s : St) : Prop := ∃ g base marks, Inv c s g ∧ InvM c s g base marks ∧ AllAbs g

theorem Inv2_init (c : WCfg) (m : Bytes) : Inv3 c (init m) :=
  ⟨⟨[], []⟩, 0, [], Inv_init c m, InvM_init c m, by intro y hy; simp at hy⟩

theorem logSet_rest (c : WCfg) (s : St) (off val len : Nat) : (logSet c s off val len).hist = s.hist ∧ (logSet c s off val len).main = s.main ∧
    (logSet c s off val len).dur = s.dur ∧ (logSet c s off val len).fsynced = s.fsynced := by
  have := writeWl_rest c { s with mbytes := s.mbytes + len } (encSet val off len) []
  exact ⟨this.2.2.1, this.1, this.2.2.2.1, this.2.2.2.2.1⟩

theorem logCopy_rest (c : WCfg) (s : St) (off len noff : Nat) : (logCopy c s off len noff).hist = s.hist ∧ (logCopy c s off len noff).main = s.main ∧
    (logCopy c s off len noff).dur = s.dur ∧ (logCopy c s off len noff).fsynced = s.fsynced := by
  have := writeWl_rest c { s with mbytes := s.mbytes + len } (encCopy off len noff) []
  exact ⟨this.2.2.1, this.1, this.2.2.2.1, this.2.2.2.2.1⟩

theorem logWrite_rest (c : WCfg) (s : St) (off : Nat) (data : Bytes) : (logWrite c s off data).hist = s.hist ∧ (logWrite c s off data).main = s.main ∧
    (logWrite c s off data).dur = s.dur ∧ (logWrite c s off data).fsynced = s.fsynced := by
  have := writeWl_rest c { s with mbytes := s.mbytes + data.length } (encWrite (if c.crcOn then c.crc data else 0) data.length off) data
  exact ⟨this.2.2.1, this.1, this.2.2.2.1, this.2.2.2.2.1⟩

/-- one step that is neither a resize nor (when `AllAbs` is asked for) a copy -/
theorem step_inv3 (c : WCfg) (hc : c.Ok) (s : St) (e : Step) (hv : Valid c s e) (hnr : ∀ o n, e ≠ Step.resize o n)
    (g : G) (base : Nat) (marks : List (Nat × Nat)) (hi : Inv c s g) (hm : InvM c s g base marks) :
    ∃ g' base' marks', Inv c (step c s e) g' ∧ InvM c (step c s e) g' base' marks' ∧ ((∀ a b d, e ≠ Step.copy a b d) → AllAbs g → AllAbs g') := by
  cases e with
  | set off val len =>
    obtain ⟨h1, h2⟩ := logSet_inv c hc s g off val len hi hv
    have r := logSet_rest c s off val len
    exact ⟨_, base, marks, h1, InvM_ext c s _ g _ base marks hm h2 r.1 r.2.1 r.2.2.1 r.2.2.2,
      fun _ ha => gwrite_abs c s.buf g _ _ _ ha ⟨by simp, by simp⟩⟩
  | copy off len noff =>
    obtain ⟨h1, h2⟩ := logCopy_inv c hc s g off len noff hi hv
    have r := logCopy_rest c s off len noff
    exact ⟨_, base, marks, h1, InvM_ext c s _ g _ base marks hm h2 r.1 r.2.1 r.2.2.1 r.2.2.2, fun hc' _ => absurd rfl (hc' off len noff)⟩
  | write off data =>
    obtain ⟨h1, h2⟩ := logWrite_inv c hc s g off data hi hv
    have r := logWrite_rest c s off data
    exact ⟨_, base, marks, h1, InvM_ext c s _ g _ base marks hm h2 r.1 r.2.1 r.2.2.1 r.2.2.2,
      fun _ ha => gwrite_abs c s.buf g _ _ _ ha ⟨by simp, by simp⟩⟩
  | resize o n => exact absurd rfl (hnr o n)
  | sync =>
    obtain ⟨h1, h2⟩ := flush_inv c hc s g hi
    have r := flush_rest c s
    have hm1 := InvM_ext c s _ g _ base marks hm h2 r.2.2.1 r.1 r.2.2.2.1 r.2.2.2.2.1
    exact ⟨_, base, marks, fsyncLog_inv c _ _ h1, InvM_fsync c _ _ base marks hm1 h1, fun _ ha => gflush_abs c s.buf g ha⟩
  | flush =>
    obtain ⟨h1, h2⟩ := flush_inv c hc s g hi
    have r := flush_rest c s
    exact ⟨_, base, marks, h1, InvM_ext c s _ g _ base marks hm h2 r.2.2.1 r.1 r.2.2.2.1 r.2.2.2.2.1, fun _ ha => gflush_abs c s.buf g ha⟩
  | savepoint ts sy =>
    have hi0 : Inv c { s with forceSp := false } g := Inv_congr c s _ g hi rfl rfl rfl rfl rfl
    have hm0 : InvM c { s with forceSp := false } g base marks := InvM_congr c s _ g base marks hm rfl rfl rfl rfl
    have h1 := (putSavepoint_spec c hc _ g ts hi0).1
    have hm1 := InvM_save c hc _ g ts base marks hm0 hi0
    cases sy with
    | false => exact ⟨gsave c s.buf g ts, base, marks ++ [(size (gsaveA c s.buf g ts), s.hist.length)], h1, hm1, fun _ ha => gsave_abs c s.buf g ts ha⟩
    | true =>
      refine ⟨gsave c s.buf g ts, base, marks ++ [(size (gsaveA c s.buf g ts), s.hist.length)],
        Inv_congr c _ (step c s (.savepoint ts true)) _ (fsyncLog_inv c _ _ h1) rfl rfl rfl rfl rfl, ?_,
        fun _ ha => gsave_abs c s.buf g ts ha⟩
      exact InvM_congr c _ (step c s (.savepoint ts true)) _ base _ (InvM_fsync c _ _ base _ hm1 h1) rfl rfl rfl rfl
  | checkpoint ts =>
    have hi0 : Inv c { s with forceCp := false, forceSp := false } g := Inv_congr c s _ g hi rfl rfl rfl rfl rfl
    have hm0 : InvM c { s with forceCp := false, forceSp := false } g base marks := InvM_congr c s _ g base marks hm rfl rfl rfl rfl
    obtain ⟨h1, _, _, eview, ehist, _, _⟩ := putSavepoint_spec c hc _ g ts hi0
    have hm1 := InvM_save c hc _ g ts base marks hm0 hi0
    have h2 := fsyncLog_inv c _ _ h1
    obtain ⟨h3, fmain, _, _, _, fhist, fdur, _⟩ := ckptFinish_spec c _ _ h2 rfl
    have hstep : step c s (.checkpoint ts) = ckptFinish c (fsyncLog (putSavepoint c { s with forceCp := false, forceSp := false } ts)) := rfl
    rw [hstep]
    refine ⟨⟨[], []⟩, s.hist.length, [], h3, ?_, fun _ _ => by intro y hy; simp at hy⟩
    have ehist' : (ckptFinish c (fsyncLog (putSavepoint c { s with forceCp := false, forceSp := false } ts))).hist = s.hist ++ [s.view] := by
      rw [fhist]; exact ehist
    refine ⟨?_, by simp, by simp [withPos], by simp, ?_, ?_⟩
    · rw [ehist', fmain, List.getElem?_append_right (Nat.le_refl _)]
      simp only [Nat.sub_self, List.getElem?_cons_zero]
      exact congrArg some eview.symm
    · left
      rw [fdur]
      show (putSavepoint c { s with forceCp := false, forceSp := false } ts).hist.length - 1 = s.hist.length
      rw [ehist]; simp
    · intro k hk1 hk2
      rw [ehist'] at hk2
      simp only [List.length_append, List.length_singleton] at hk2
      omega

theorem run_inv3 (c : WCfg) (hc : c.Ok) (P : Prop) : ∀ (tr : List Step) (s : St), ValidTrace c s tr → noForcedCheckpointInsideOp tr →
    (P → noCopy tr) → (∃ g base marks, Inv c s g ∧ InvM c s g base marks ∧ (P → AllAbs g)) →
    ∃ g base marks, Inv c (run c s tr) g ∧ InvM c (run c s tr) g base marks ∧ (P → AllAbs g) := by
  intro tr
  induction tr with
  | nil => intro s _ _ _ h; exact h
  | cons e t ih =>
    intro s hv hnr hnc ⟨g, base, marks, hi, hm, ha⟩
    obtain ⟨g', base', marks', hi', hm', ha'⟩ := step_inv3 c hc s e hv.1 (hnr e (by simp)) g base marks hi hm
    exact ih (step c s e) hv.2 (fun e' he' => hnr e' (by simp [he'])) (fun hp e' he' => hnc hp e' (by simp [he']))
      ⟨g', base', marks', hi', hm', fun hp => ha' (hnc hp e (by simp)) (ha hp)⟩

theorem runRecs_prefix_ok (cfg : Cfg) (B : List Item) : ∀ (A : List Item) (m : Bytes), (runRecs cfg (A ++ B) m).rc = .ok → (runRecs cfg A m).rc = .ok := by
  intro A
  induction A with
  | nil => intro m _; rfl
  | cons x t ih =>
    intro m h
    simp only [runRecs, List.cons_append] at h ⊢
    by_cases hk : (applyB cfg x.1 x.2 m).1 = .ok
    · simp only [hk, if_true] at h ⊢; exact ih _ h
    · simp only [hk, if_false] at h

theorem Dec_walkFull : ∀ (L : List Item) (fuel : Nat) (rest : Bytes), Dec rest L → rest.length ≤ fuel → walkFull.go fuel rest = true := by
  intro L
  induction L with
  | nil => intro fuel rest h _; simp [Dec] at h; subst h; cases fuel <;> simp [walkFull.go]
  | cons x t ih =>
    intro fuel rest h hf
    obtain ⟨h1, h2, _, h4⟩ := h
    have h4' := advOf_pos x.1
    cases fuel with
    | zero => omega
    | succ n =>
      have hne : rest.isEmpty = false := by cases rest with | nil => simp at h2; omega | cons _ _ => rfl
      simp only [walkFull.go, hne, Bool.false_eq_true, if_false, h1, Bool.and_eq_true, decide_eq_true_eq]
      exact ⟨h2, ih n _ h4 (by simp; omega)⟩

/-- the facts about the log file the reader theorems ask for, from the invariant -/
theorem wf_facts {c : WCfg} {s : St} {g : G} (h : Inv c s g) :
    walk s.log = withPos 0 g.L ∧ (s.log = [] ∨ s.log.headD 0 = WOP_SEP) ∧ (∀ p, (p, Rec.reset) ∉ walk s.log) ∧
    walkFull s.log = true ∧ (replay c.rd 0 s.log s.main).rc = .ok := by
  have hw := Dec_walk0 _ _ h.w.wf.dec
  refine ⟨hw, WfLog_headD h.w.wf, ?_, Dec_walkFull _ _ _ h.w.wf.dec (Nat.le_refl _), ?_⟩
  · intro p hp
    rw [hw] at hp
    obtain ⟨y, hy, e⟩ := mem_withPos_item _ _ _ _ hp
    exact h.w.wf.noreset y hy e
  · rw [replay0_of_wf c.rd h.w.wf]
    exact runRecs_prefix_ok c.rd g.Lb g.L s.main (by rw [h.sem])

end IwModel.WalWriter
