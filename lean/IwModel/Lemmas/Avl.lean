import IwModel.Model.Avl
/-! Invariants of the AVL model: in-order contents, balance factors, heights. -/
set_option linter.unusedSimpArgs false
namespace IwModel.Avl
open Tree

def rootBal : Tree → Int
  | nil => 0
  | node _ _ b _ => b

/-- every stored balance factor is the true height difference and lies in {-1, 0, 1} -/
def Bal : Tree → Prop
  | nil => True
  | node l _ b r => Bal l ∧ Bal r ∧ b = (height r : Int) - (height l : Int) ∧ -1 ≤ b ∧ b ≤ 1

/-- search-tree order: the in-order key sequence is strictly increasing -/
def Bst (t : Tree) : Prop := (toList t).Pairwise (· < ·)

/-! ### rotations keep the in-order sequence -/

theorem toList_growLeft (l : Tree) (k b : Int) (r : Tree) :
    toList (growLeft l k b r).1 = toList l ++ k :: toList r := by
  unfold growLeft
  repeat' split
  all_goals simp [toList]

theorem toList_growRight (l : Tree) (k b : Int) (r : Tree) :
    toList (growRight l k b r).1 = toList l ++ k :: toList r := by
  unfold growRight
  repeat' split
  all_goals simp [toList]

theorem toList_shrunkLeft (l : Tree) (k b : Int) (r : Tree) :
    toList (shrunkLeft l k b r).1 = toList l ++ k :: toList r := by
  unfold shrunkLeft
  repeat' split
  all_goals simp [toList]

theorem toList_shrunkRight (l : Tree) (k b : Int) (r : Tree) :
    toList (shrunkRight l k b r).1 = toList l ++ k :: toList r := by
  unfold shrunkRight
  repeat' split
  all_goals simp [toList]


/-! ### balance factors and heights -/

/-- result of a "subtree grew" step: balanced, height = old height (+1 when it reports growth),
and a grown non-leaf never has balance factor 0 -/
def GrowSpec (res : Tree × Bool) (oldH : Nat) : Prop :=
  Bal res.1 ∧ height res.1 = oldH + (if res.2 then 1 else 0) ∧ (res.2 = true → rootBal res.1 ≠ 0)

/-- result of a "subtree shrank" step -/
def ShrinkSpec (res : Tree × Bool) (oldH : Nat) : Prop :=
  Bal res.1 ∧ height res.1 + (if res.2 then 1 else 0) = oldH

theorem growLeft_bal (l : Tree) (k b : Int) (r : Tree) (hl : Bal l) (hr : Bal r)
    (hb1 : -1 ≤ b) (hb2 : b ≤ 1) (hh : (height l : Int) = height r - b + 1)
    (hnz : 2 ≤ height l → rootBal l ≠ 0) :
    GrowSpec (growLeft l k b r) (max (height l - 1) (height r) + 1) := by
  have hb : b = 0 ∨ b = 1 ∨ b = -1 := by omega
  rcases hb with rfl | rfl | rfl
  · simp [growLeft, GrowSpec, Bal, height, rootBal, hl, hr]; omega
  · simp [growLeft, GrowSpec, Bal, height, rootBal, hl, hr]; omega
  cases l with
  | nil => (simp [height] at hh) <;> omega
  | node ll lk lb lr =>
    simp only [Bal, height, rootBal] at hl hh hnz
    obtain ⟨hll, hlr, e1, e2, e3⟩ := hl
    have hlb : lb ≠ 0 := hnz (by omega)
    have : lb = -1 ∨ lb = 1 := by omega
    rcases this with rfl | rfl
    · simp [growLeft, GrowSpec, Bal, height, rootBal, hll, hlr, hr]; omega
    · cases lr with
      | nil => (simp [height] at e1) <;> omega
      | node lrl lrk e lrr =>
        simp only [Bal, height] at hlr e1 hh
        obtain ⟨h1, h2, f1, f2, f3⟩ := hlr
        have : e = -1 ∨ e = 0 ∨ e = 1 := by omega
        rcases this with rfl | rfl | rfl <;> simp [growLeft, GrowSpec, Bal, height, rootBal, hll, h1, h2, hr] <;> omega

theorem growRight_bal (l : Tree) (k b : Int) (r : Tree) (hl : Bal l) (hr : Bal r)
    (hb1 : -1 ≤ b) (hb2 : b ≤ 1) (hh : (height r : Int) = height l + b + 1)
    (hnz : 2 ≤ height r → rootBal r ≠ 0) :
    GrowSpec (growRight l k b r) (max (height l) (height r - 1) + 1) := by
  have hb : b = 0 ∨ b = -1 ∨ b = 1 := by omega
  rcases hb with rfl | rfl | rfl
  · simp [growRight, GrowSpec, Bal, height, rootBal, hl, hr]; omega
  · simp [growRight, GrowSpec, Bal, height, rootBal, hl, hr]; omega
  cases r with
  | nil => (simp [height] at hh) <;> omega
  | node rl rk rb rr =>
    simp only [Bal, height, rootBal] at hr hh hnz
    obtain ⟨hrl, hrr, e1, e2, e3⟩ := hr
    have hrb : rb ≠ 0 := hnz (by omega)
    have : rb = 1 ∨ rb = -1 := by omega
    rcases this with rfl | rfl
    · simp [growRight, GrowSpec, Bal, height, rootBal, hrl, hrr, hl]; omega
    · cases rl with
      | nil => (simp [height] at e1) <;> omega
      | node rll rlk e rlr =>
        simp only [Bal, height] at hrl e1 hh
        obtain ⟨h1, h2, f1, f2, f3⟩ := hrl
        have : e = -1 ∨ e = 0 ∨ e = 1 := by omega
        rcases this with rfl | rfl | rfl <;> simp [growRight, GrowSpec, Bal, height, rootBal, hrr, h1, h2, hl] <;> omega

theorem shrunkLeft_bal (l : Tree) (k b : Int) (r : Tree) (hl : Bal l) (hr : Bal r)
    (hb1 : -1 ≤ b) (hb2 : b ≤ 1) (hh : (height r : Int) = height l + 1 + b) :
    ShrinkSpec (shrunkLeft l k b r) (max (height l + 1) (height r) + 1) := by
  have hb : b = 0 ∨ b = -1 ∨ b = 1 := by omega
  rcases hb with rfl | rfl | rfl
  · simp [shrunkLeft, ShrinkSpec, Bal, height, hl, hr]; omega
  · simp [shrunkLeft, ShrinkSpec, Bal, height, hl, hr]; omega
  cases r with
  | nil => (simp [height] at hh) <;> omega
  | node rl rk rb rr =>
    simp only [Bal, height] at hr hh
    obtain ⟨hrl, hrr, e1, e2, e3⟩ := hr
    have : rb = 0 ∨ rb = 1 ∨ rb = -1 := by omega
    rcases this with rfl | rfl | rfl
    · simp [shrunkLeft, ShrinkSpec, Bal, height, hrl, hrr, hl]; omega
    · simp [shrunkLeft, ShrinkSpec, Bal, height, hrl, hrr, hl]; omega
    · cases rl with
      | nil => (simp [height] at e1) <;> omega
      | node rll rlk e rlr =>
        simp only [Bal, height] at hrl e1 hh
        obtain ⟨h1, h2, f1, f2, f3⟩ := hrl
        have : e = -1 ∨ e = 0 ∨ e = 1 := by omega
        rcases this with rfl | rfl | rfl <;> simp [shrunkLeft, ShrinkSpec, Bal, height, hrr, h1, h2, hl] <;> omega

theorem shrunkRight_bal (l : Tree) (k b : Int) (r : Tree) (hl : Bal l) (hr : Bal r)
    (hb1 : -1 ≤ b) (hb2 : b ≤ 1) (hh : (height l : Int) = height r + 1 - b) :
    ShrinkSpec (shrunkRight l k b r) (max (height l) (height r + 1) + 1) := by
  have hb : b = 0 ∨ b = 1 ∨ b = -1 := by omega
  rcases hb with rfl | rfl | rfl
  · simp [shrunkRight, ShrinkSpec, Bal, height, hl, hr]; omega
  · simp [shrunkRight, ShrinkSpec, Bal, height, hl, hr]; omega
  cases l with
  | nil => (simp [height] at hh) <;> omega
  | node ll lk lb lr =>
    simp only [Bal, height] at hl hh
    obtain ⟨hll, hlr, e1, e2, e3⟩ := hl
    have : lb = 0 ∨ lb = -1 ∨ lb = 1 := by omega
    rcases this with rfl | rfl | rfl
    · simp [shrunkRight, ShrinkSpec, Bal, height, hll, hlr, hr]; omega
    · simp [shrunkRight, ShrinkSpec, Bal, height, hll, hlr, hr]; omega
    · cases lr with
      | nil => (simp [height] at e1) <;> omega
      | node lrl lrk e lrr =>
        simp only [Bal, height] at hlr e1 hh
        obtain ⟨h1, h2, f1, f2, f3⟩ := hlr
        have : e = -1 ∨ e = 0 ∨ e = 1 := by omega
        rcases this with rfl | rfl | rfl <;> simp [shrunkRight, ShrinkSpec, Bal, height, hll, h1, h2, hr] <;> omega

theorem insertAux_bal (x : Int) : ∀ t, Bal t →
    Bal (insertAux x t).1 ∧ height (insertAux x t).1 = height t + (if (insertAux x t).2.2 then 1 else 0) ∧
    ((insertAux x t).2.2 = true → 1 ≤ height t → rootBal (insertAux x t).1 ≠ 0) := by
  intro t
  induction t with
  | nil => intro _; simp [insertAux, Bal, height]
  | node l k b r ihl ihr =>
    intro hb
    obtain ⟨hl, hr, e1, e2, e3⟩ := hb
    unfold insertAux
    split
    · obtain ⟨a1, a2, a3⟩ := ihl hl
      generalize insertAux x l = res at a1 a2 a3
      obtain ⟨l', ins, grew⟩ := res
      cases grew with
      | true =>
        simp only [if_true] at a2 a3 ⊢
        have g := growLeft_bal l' k b r a1 hr e2 e3 (by omega) (fun h => a3 trivial (by omega))
        obtain ⟨g1, g2, g3⟩ := g
        refine ⟨g1, ?_, fun h _ => g3 h⟩
        rw [g2]; simp [height]; omega
      | false =>
        simp at a2 ⊢
        simp [Bal, height, a1, hr, a2]; omega
    split
    · obtain ⟨a1, a2, a3⟩ := ihr hr
      generalize insertAux x r = res at a1 a2 a3
      obtain ⟨r', ins, grew⟩ := res
      cases grew with
      | true =>
        simp only [if_true] at a2 a3 ⊢
        have g := growRight_bal l k b r' hl a1 e2 e3 (by omega) (fun h => a3 trivial (by omega))
        obtain ⟨g1, g2, g3⟩ := g
        refine ⟨g1, ?_, fun h _ => g3 h⟩
        rw [g2]; simp [height]; omega
      | false =>
        simp at a2 ⊢
        simp [Bal, height, a1, hl, a2]; omega
    · simp [Bal, height, hl, hr]; omega

theorem removeMin_bal : ∀ (l : Tree) (k b : Int) (r : Tree), Bal (node l k b r) →
    Bal (removeMin l k b r).2.1 ∧
    height (removeMin l k b r).2.1 + (if (removeMin l k b r).2.2 then 1 else 0) = height (node l k b r) := by
  intro l
  induction l with
  | nil =>
    intro k b r hb
    obtain ⟨_, hr, e1, e2, e3⟩ := hb
    (simp [removeMin, height, hr] at e1 ⊢) <;> omega
  | node ll lk lb lr ih _ =>
    intro k b r hb
    obtain ⟨hl, hr, e1, e2, e3⟩ := hb
    unfold removeMin
    obtain ⟨a1, a2⟩ := ih lk lb lr hl
    generalize removeMin ll lk lb lr = res at a1 a2
    obtain ⟨m, l', sh⟩ := res
    cases sh with
    | true =>
      simp only [if_true] at a2 ⊢
      obtain ⟨g1, g2⟩ := shrunkLeft_bal l' k b r a1 hr e2 e3 (by omega)
      refine ⟨g1, ?_⟩
      simp only [height] at g2 a2 ⊢; omega
    | false =>
      simp only [Bool.false_eq_true, if_false, Nat.add_zero, Bal] at a2 ⊢
      refine ⟨⟨a1, hr, ?_, e2, e3⟩, ?_⟩ <;> simp only [height] at * <;> omega

theorem removeAux_bal (x : Int) : ∀ t, Bal t →
    Bal (removeAux x t).1 ∧ height (removeAux x t).1 + (if (removeAux x t).2.2 then 1 else 0) = height t := by
  intro t
  induction t with
  | nil => intro _; simp [removeAux, Bal, height]
  | node l k b r ihl ihr =>
    intro hb
    have hb' := hb
    obtain ⟨hl, hr, e1, e2, e3⟩ := hb
    unfold removeAux
    split
    · obtain ⟨a1, a2⟩ := ihl hl
      generalize removeAux x l = res at a1 a2
      obtain ⟨l', rm, sh⟩ := res
      cases sh with
      | true =>
        simp only [if_true] at a2 ⊢
        obtain ⟨g1, g2⟩ := shrunkLeft_bal l' k b r a1 hr e2 e3 (by omega)
        refine ⟨g1, ?_⟩
        simp only [height] at g2 ⊢; omega
      | false =>
        simp at a2 ⊢
        simp [Bal, height, a1, hr, a2]; omega
    split
    · obtain ⟨a1, a2⟩ := ihr hr
      generalize removeAux x r = res at a1 a2
      obtain ⟨r', rm, sh⟩ := res
      cases sh with
      | true =>
        simp only [if_true] at a2 ⊢
        obtain ⟨g1, g2⟩ := shrunkRight_bal l k b r' hl a1 e2 e3 (by omega)
        refine ⟨g1, ?_⟩
        simp only [height] at g2 ⊢; omega
      | false =>
        simp at a2 ⊢
        simp [Bal, height, a1, hl, a2]; omega
    · split
      · (simp [height, hr] at e1 ⊢) <;> omega
      · (simp [height, hl] at e1 ⊢) <;> omega
      · rename_i rl rk rb rr _
        obtain ⟨a1, a2⟩ := removeMin_bal rl rk rb rr hr
        generalize removeMin rl rk rb rr = res at a1 a2
        obtain ⟨m, r', sh⟩ := res
        cases sh with
        | true =>
          simp only [if_true] at a2 ⊢
          obtain ⟨g1, g2⟩ := shrunkRight_bal l m b r' hl a1 e2 e3 (by omega)
          refine ⟨g1, ?_⟩
          simp only [height] at g2 a2 ⊢; omega
        | false =>
          simp only [Bool.false_eq_true, if_false, Nat.add_zero, Bal] at a2 ⊢
          refine ⟨⟨hl, a1, ?_, e2, e3⟩, ?_⟩ <;> simp only [height] at * <;> omega

/-! ### in-order contents: insertion -/

/-- reference: insertion into a strictly increasing list (a set) -/
def insL (x : Int) : List Int → List Int
  | [] => [x]
  | y :: ys => if x < y then x :: y :: ys else if x = y then y :: ys else y :: insL x ys

theorem insL_append_lt (x k : Int) (L R : List Int) (h : x < k) :
    insL x (L ++ k :: R) = insL x L ++ k :: R := by
  induction L with
  | nil => simp [insL, h]
  | cons y ys ih =>
    simp only [List.cons_append, insL]
    split
    · simp
    · split <;> simp [ih]

theorem insL_append_gt (x k : Int) (L R : List Int) (hL : ∀ y ∈ L, y < x) (h : k < x) :
    insL x (L ++ k :: R) = L ++ k :: insL x R := by
  induction L with
  | nil =>
    have h1 : ¬ x < k := by omega
    have h2 : ¬ x = k := by omega
    simp [insL, h1, h2]
  | cons y ys ih =>
    have hy := hL y (by simp)
    have h1 : ¬ x < y := by omega
    have h2 : ¬ x = y := by omega
    simp only [List.cons_append, insL, h1, h2, if_false]
    rw [ih (fun z hz => hL z (by simp [hz]))]

theorem insL_append_eq (x : Int) (L R : List Int) (hL : ∀ y ∈ L, y < x) :
    insL x (L ++ x :: R) = L ++ x :: R := by
  induction L with
  | nil => simp [insL]
  | cons y ys ih =>
    have hy := hL y (by simp)
    have h1 : ¬ x < y := by omega
    have h2 : ¬ x = y := by omega
    simp only [List.cons_append, insL, h1, h2, if_false]
    rw [ih (fun z hz => hL z (by simp [hz]))]

theorem mem_insL (x y : Int) (L : List Int) : y ∈ insL x L ↔ y = x ∨ y ∈ L := by
  induction L with
  | nil => simp [insL]
  | cons z zs ih =>
    simp only [insL]
    split
    · simp
    · split
      · rename_i h; subst h; simp
      · simp [ih]; constructor <;> (intro h; rcases h with h | h | h <;> simp [h])

theorem insL_sorted (x : Int) (L : List Int) (h : L.Pairwise (· < ·)) : (insL x L).Pairwise (· < ·) := by
  induction L with
  | nil => simp [insL]
  | cons z zs ih =>
    rw [List.pairwise_cons] at h
    simp only [insL]
    split
    · rename_i hx
      rw [List.pairwise_cons]
      refine ⟨?_, List.pairwise_cons.2 h⟩
      intro a ha
      rcases List.mem_cons.1 ha with rfl | ha
      · exact hx
      · have := h.1 a ha; omega
    · split
      · exact List.pairwise_cons.2 h
      · rw [List.pairwise_cons]
        refine ⟨?_, ih h.2⟩
        intro a ha
        rcases (mem_insL x a zs).1 ha with rfl | ha
        · omega
        · exact h.1 a ha

theorem bst_node {l : Tree} {k b : Int} {r : Tree} (h : Bst (node l k b r)) :
    Bst l ∧ Bst r ∧ (∀ y ∈ toList l, y < k) ∧ (∀ y ∈ toList r, k < y) := by
  unfold Bst at *
  simp only [toList] at h
  rw [List.pairwise_append] at h
  obtain ⟨h1, h2, h3⟩ := h
  rw [List.pairwise_cons] at h2
  exact ⟨h1, h2.2, fun y hy => h3 y hy k (by simp), h2.1⟩

theorem toList_insertAux (x : Int) : ∀ t, Bst t → toList (insertAux x t).1 = insL x (toList t) := by
  intro t
  induction t with
  | nil => intro _; simp [insertAux, toList, insL]
  | node l k b r ihl ihr =>
    intro hb
    obtain ⟨hl, hr, hlk, hkr⟩ := bst_node hb
    unfold insertAux
    split
    · rename_i hx
      have := ihl hl
      generalize insertAux x l = res at this
      obtain ⟨l', ins, grew⟩ := res
      simp only at this
      simp only [toList, insL_append_lt x k _ _ hx]
      split <;> simp [toList_growLeft, toList, this]
    split
    · rename_i hx1 hx
      have := ihr hr
      generalize insertAux x r = res at this
      obtain ⟨r', ins, grew⟩ := res
      simp only at this
      simp only [toList, insL_append_gt x k _ _ (fun y hy => by have := hlk y hy; omega) hx]
      split <;> simp [toList_growRight, toList, this]
    · have : x = k := by omega
      subst this
      simp only [toList]
      rw [insL_append_eq x _ _ hlk]

/-! ### in-order contents: removal, lookup -/

theorem toList_removeMin : ∀ (l : Tree) (k b : Int) (r : Tree),
    toList (node l k b r) = (removeMin l k b r).1 :: toList (removeMin l k b r).2.1 := by
  intro l
  induction l with
  | nil => intro k b r; simp [removeMin, toList]
  | node ll lk lb lr ih _ =>
    intro k b r
    unfold removeMin
    have := ih lk lb lr
    generalize removeMin ll lk lb lr = res at this
    obtain ⟨m, l', sh⟩ := res
    simp only at this
    simp only [toList] at this ⊢
    split <;> simp [toList_shrunkLeft, toList, this]

theorem erase_not_mem (x : Int) (L : List Int) (h : x ∉ L) : L.erase x = L := by
  exact List.erase_of_not_mem h

theorem toList_removeAux (x : Int) : ∀ t, Bst t → toList (removeAux x t).1 = (toList t).erase x := by
  intro t
  induction t with
  | nil => intro _; simp [removeAux, toList]
  | node l k b r ihl ihr =>
    intro hb
    obtain ⟨hl, hr, hlk, hkr⟩ := bst_node hb
    unfold removeAux
    split
    · rename_i hx
      have := ihl hl
      generalize removeAux x l = res at this
      obtain ⟨l', rm, sh⟩ := res
      simp only at this
      have hnr : x ∉ toList r := fun h => by have := hkr x h; omega
      have hk : ¬ (k = x) := by omega
      have e : (toList l ++ k :: toList r).erase x = (toList l).erase x ++ k :: toList r := by
        rw [List.erase_append]
        split
        · rfl
        · rename_i hn
          rw [List.erase_of_not_mem hn, List.erase_cons_tail (by simpa using hk), List.erase_of_not_mem hnr]
      simp only [toList, e]
      split <;> simp [toList_shrunkLeft, toList, this]
    split
    · rename_i hx1 hx
      have := ihr hr
      generalize removeAux x r = res at this
      obtain ⟨r', rm, sh⟩ := res
      simp only at this
      have hnl : x ∉ toList l := fun h => by have := hlk x h; omega
      have hk : ¬ (k = x) := by omega
      have e : (toList l ++ k :: toList r).erase x = toList l ++ k :: (toList r).erase x := by
        rw [List.erase_append, if_neg hnl, List.erase_cons_tail (by simpa using hk)]
      simp only [toList, e]
      split <;> simp [toList_shrunkRight, toList, this]
    · have hxk : x = k := by omega
      subst hxk
      have hnl : x ∉ toList l := fun h => by have := hlk x h; omega
      have e : (toList l ++ x :: toList r).erase x = toList l ++ toList r := by
        rw [List.erase_append, if_neg hnl, List.erase_cons_head]
      simp only [toList, e]
      split
      · simp [toList]
      · simp [toList]
      · rename_i rl rk rb rr _
        have := toList_removeMin rl rk rb rr
        generalize removeMin rl rk rb rr = res at this
        obtain ⟨m, r', sh⟩ := res
        simp only [toList] at this
        split <;> simp [toList_shrunkRight, toList, this]

theorem mem_iff (x : Int) : ∀ t, Bst t → (mem x t = true ↔ x ∈ toList t) := by
  intro t
  induction t with
  | nil => intro _; simp [mem, toList]
  | node l k b r ihl ihr =>
    intro hb
    obtain ⟨hl, hr, hlk, hkr⟩ := bst_node hb
    unfold mem
    simp only [toList, List.mem_append, List.mem_cons]
    split
    · rename_i hx
      rw [ihl hl]
      constructor
      · intro h; exact Or.inl h
      · intro h
        rcases h with h | h | h
        · exact h
        · omega
        · have := hkr x h; omega
    split
    · rename_i hx1 hx
      rw [ihr hr]
      constructor
      · intro h; exact Or.inr (Or.inr h)
      · intro h
        rcases h with h | h | h
        · have := hlk x h; omega
        · omega
        · exact h
    · simp; right; left; omega

/-- reference: greatest element ≤ x of an increasing list -/
def floorL (x : Int) (L : List Int) : Option Int := (L.filter (· ≤ x)).getLast?
/-- reference: least element ≥ x of an increasing list -/
def ceilL (x : Int) (L : List Int) : Option Int := L.find? (x ≤ ·)

theorem filter_le_none (x : Int) (R : List Int) (h : ∀ y ∈ R, x < y) : R.filter (· ≤ x) = [] := by
  rw [List.filter_eq_nil_iff]
  intro y hy; have := h y hy; simp; omega

theorem filter_le_all (x : Int) (L : List Int) (h : ∀ y ∈ L, y < x) : L.filter (· ≤ x) = L := by
  rw [List.filter_eq_self]
  intro y hy; have := h y hy; simp; omega

theorem find_ge_none (x : Int) (L : List Int) (h : ∀ y ∈ L, y < x) : L.find? (x ≤ ·) = none := by
  rw [List.find?_eq_none]
  intro y hy; have := h y hy; simp; omega

theorem bounds_spec (x : Int) : ∀ t lb ub, Bst t →
    bounds x t lb ub = ((floorL x (toList t)).or lb, (ceilL x (toList t)).or ub) := by
  intro t
  induction t with
  | nil => intro lb ub _; simp [bounds, toList, floorL, ceilL]
  | node l k b r ihl ihr =>
    intro lb ub hb
    obtain ⟨hl, hr, hlk, hkr⟩ := bst_node hb
    unfold bounds
    split
    · rename_i hx
      rw [ihl lb (some k) hl]
      have f : floorL x (toList (node l k b r)) = floorL x (toList l) := by
        simp only [floorL, toList, List.filter_append]
        rw [filter_le_none x (k :: toList r) (by intro y hy; rcases List.mem_cons.1 hy with rfl | hy; exact hx; have := hkr y hy; omega)]
        simp
      have c : ceilL x (toList (node l k b r)) = (ceilL x (toList l)).or (some k) := by
        simp only [ceilL, toList, List.find?_append]
        have : decide (x ≤ k) = true := by simp; omega
        simp [List.find?_cons, this]
      rw [f, c]
      cases ceilL x (toList l) <;> simp
    split
    · rename_i hx1 hx
      rw [ihr (some k) ub hr]
      have hlx : ∀ y ∈ toList l, y < x := fun y hy => by have := hlk y hy; omega
      have c : ceilL x (toList (node l k b r)) = ceilL x (toList r) := by
        simp only [ceilL, toList, List.find?_append]
        rw [find_ge_none x _ hlx]
        have : decide (x ≤ k) = false := by simp; omega
        simp [List.find?_cons, this]
      have f : floorL x (toList (node l k b r)) = (floorL x (toList r)).or (some k) := by
        simp only [floorL, toList, List.filter_append]
        have : decide (k ≤ x) = true := by simp; omega
        simp only [List.filter_cons, this, if_true, List.getLast?_append, List.getLast?_cons]
        cases (List.filter (fun y => decide (y ≤ x)) (toList r)).getLast? <;> simp
      rw [f, c]
      cases floorL x (toList r) <;> simp
    · have hxk : x = k := by omega
      subst hxk
      have f : floorL x (toList (node l x b r)) = some x := by
        simp only [floorL, toList, List.filter_append]
        simp [List.filter_cons, filter_le_none x (toList r) hkr]
      have c : ceilL x (toList (node l x b r)) = some x := by
        simp only [ceilL, toList, List.find?_append]
        rw [find_ge_none x _ hlk]
        simp [List.find?_cons]
      rw [f, c]; simp

theorem insertAux_flag (x : Int) : ∀ t, (insertAux x t).2.1 = !(mem x t) := by
  intro t
  induction t with
  | nil => simp [insertAux, mem]
  | node l k b r ihl ihr =>
    unfold insertAux mem
    split
    · generalize insertAux x l = res at ihl
      obtain ⟨l', ins, grew⟩ := res
      simp only at ihl
      cases grew <;> simp [ihl]
    split
    · generalize insertAux x r = res at ihr
      obtain ⟨r', ins, grew⟩ := res
      simp only at ihr
      cases grew <;> simp [ihr]
    · simp

theorem removeAux_flag (x : Int) : ∀ t, (removeAux x t).2.1 = mem x t := by
  intro t
  induction t with
  | nil => simp [removeAux, mem]
  | node l k b r ihl ihr =>
    unfold removeAux mem
    split
    · generalize removeAux x l = res at ihl
      obtain ⟨l', rm, sh⟩ := res
      simp only at ihl
      cases sh <;> simp [ihl]
    split
    · generalize removeAux x r = res at ihr
      obtain ⟨r', rm, sh⟩ := res
      simp only at ihr
      cases sh <;> simp [ihr]
    · split
      · simp
      · simp
      · rename_i rl rk rb rr _
        generalize removeMin rl rk rb rr = res
        obtain ⟨m, r', sh⟩ := res
        cases sh <;> simp

end IwModel.Avl
