import IwModel.Lemmas.JsonPtrBinn
/-! The first-match search equals RFC 6901 evaluation on documents with unique keys (no `*` token);
decimal index text; pointer parsing equals the RFC 6901 token rules. -/
namespace IwModel.Ptr
open IwModel.Gen.Binn IwModel.Binn

/-! ## decimal text of array indices -/

def dval (s : Bytes) : Nat := s.foldl (fun a c => a * 10 + (c - 48)) 0

theorem foldl_dval_ge (r : Bytes) (a : Nat) : a ≤ r.foldl (fun a c => a * 10 + (c - 48)) a := by
  induction r generalizing a with
  | nil => simp
  | cons c r ih => simp only [List.foldl_cons]; exact Nat.le_trans (by omega) (ih _)

theorem dval_append (s : Bytes) (c : Nat) : dval (s ++ [c]) = dval s * 10 + (c - 48) := by
  simp [dval, List.foldl_append]

theorem arrayIndex_cons (d : Nat) (r : Bytes) (h : ¬ (d = 48 ∧ r = [])) :
    arrayIndex (d :: r) =
      if 49 ≤ d ∧ d ≤ 57 ∧ r.all (fun c => 48 ≤ c ∧ c ≤ 57) then some (dval (d :: r)) else none := by
  unfold arrayIndex
  split
  · simp at *
  · rename_i heq; simp only [List.cons.injEq] at heq; exact absurd heq (by simpa using h)
  · rename_i d' r' _ heq
    simp only [List.cons.injEq] at heq
    obtain ⟨rfl, rfl⟩ := heq
    rfl

/-- a canonical index text: leading digit 1-9, then digits -/
theorem arrayIndex_pos (s : Bytes) (m : Nat) (h : arrayIndex s = some m) (hm : 1 ≤ m) :
    ∃ d r, s = d :: r ∧ 49 ≤ d ∧ d ≤ 57 ∧ r.all (fun c => 48 ≤ c ∧ c ≤ 57) = true ∧ dval (d :: r) = m := by
  cases s with
  | nil => simp [arrayIndex] at h
  | cons d r =>
    by_cases h0 : d = 48 ∧ r = []
    · obtain ⟨rfl, rfl⟩ := h0
      simp [arrayIndex] at h; omega
    · rw [arrayIndex_cons d r h0] at h
      split at h
      · rename_i hc
        simp only [Option.some.injEq] at h
        exact ⟨d, r, rfl, hc.1, hc.2.1, hc.2.2, h⟩
      · simp at h

theorem dec_arrayIndex (n : Nat) : arrayIndex (dec n) = some n := by
  fun_induction dec n with
  | case1 n h =>
    by_cases h0 : n = 0
    · subst h0; rfl
    · rw [arrayIndex_cons _ _ (by omega)]
      have : 49 ≤ 48 + n ∧ 48 + n ≤ 57 := by omega
      simp [this, dval]
  | case2 n h ih =>
    obtain ⟨d, r, hs, hd1, hd2, hr, hv⟩ := arrayIndex_pos _ _ ih (by omega)
    rw [hs]
    simp only [List.cons_append]
    rw [arrayIndex_cons _ _ (by omega)]
    have hall : (r ++ [48 + n % 10]).all (fun c => 48 ≤ c ∧ c ≤ 57) = true := by
      simp only [List.all_append, hr, Bool.true_and, List.all_cons, List.all_nil, Bool.and_true, decide_eq_true_eq]
      omega
    rw [if_pos ⟨hd1, hd2, hall⟩]
    have : dval (d :: (r ++ [48 + n % 10])) = dval ((d :: r) ++ [48 + n % 10]) := rfl
    rw [this, dval_append, hv]
    congr 1; omega

theorem arrayIndex_dec (s : Bytes) : ∀ n, arrayIndex s = some n → dec n = s := by
  induction hl : s.length using Nat.strongRecOn generalizing s with
  | _ len ih =>
    intro n h
    cases s with
    | nil => simp [arrayIndex] at h
    | cons d r =>
      by_cases h0 : d = 48 ∧ r = []
      · obtain ⟨rfl, rfl⟩ := h0
        simp [arrayIndex] at h; subst h
        rw [dec]; simp
      · rw [arrayIndex_cons d r h0] at h
        split at h
        · rename_i hc
          simp only [Option.some.injEq] at h
          by_cases hr : r = []
          · subst hr
            simp [dval] at h
            subst h
            rw [dec]
            have : d - 48 < 10 := by omega
            simp [this]; omega
          · -- s = init ++ [c]
            obtain ⟨c, hcdef⟩ : ∃ c, c = r.getLast hr := ⟨_, rfl⟩
            have hr2 : r = r.dropLast ++ [c] := by rw [hcdef]; exact (List.dropLast_concat_getLast hr).symm
            have hall := hc.2.2
            rw [hr2] at hall
            simp only [List.all_append, List.all_cons, List.all_nil, Bool.and_true, Bool.and_eq_true,
              decide_eq_true_eq] at hall
            have hv : dval (d :: r) = dval (d :: r.dropLast) * 10 + (c - 48) := by
              have : d :: r = (d :: r.dropLast) ++ [c] := by simp [← hr2]
              rw [this, dval_append]
            have hm1 : 1 ≤ dval (d :: r.dropLast) := by
              have := foldl_dval_ge r.dropLast (0 * 10 + (d - 48))
              simp only [dval, List.foldl_cons]; omega
            have hinitIdx : arrayIndex (d :: r.dropLast) = some (dval (d :: r.dropLast)) := by
              rw [arrayIndex_cons _ _ (by omega)]
              rw [if_pos ⟨hc.1, hc.2.1, hall.1⟩]
            have hlen : (d :: r.dropLast).length < len := by
              rw [← hl]; simp only [List.length_cons, List.length_dropLast]
              have : 0 < r.length := List.length_pos_iff.mpr hr
              omega
            have ihd := ih _ hlen (d :: r.dropLast) rfl _ hinitIdx
            subst h
            rw [dec]
            have hn10 : ¬ dval (d :: r) < 10 := by omega
            rw [dif_neg hn10]
            have h1 : dval (d :: r) / 10 = dval (d :: r.dropLast) := by omega
            have h2 : 48 + dval (d :: r) % 10 = c := by omega
            rw [h1, h2, ihd]
            simp [← hr2]
        · simp at h

theorem dec_eq_iff (i : Nat) (seg : Bytes) : dec i = seg ↔ arrayIndex seg = some i :=
  ⟨fun h => by rw [← h]; exact dec_arrayIndex i, arrayIndex_dec seg i⟩

/-! ## first-match search = RFC 6901 evaluation -/

/-- tokens the property quantifies over: not the wildcard, NUL free (tokens of a C string always are) -/
def segOk (seg : Bytes) : Prop := isStar seg = false ∧ ∀ b ∈ seg, b ≠ 0

theorem keyHit (k seg : Bytes) (hk : ∀ b ∈ k, b ≠ 0) (hs : segOk seg) :
    segHitT (some k) k.length seg = (k == seg) := by
  simp only [segHitT, hs.1, Bool.or_false, segEqTree, strncmpEq, cstr_id k hk, cstr_id seg hs.2]
  rw [take_length_eq]

theorem idxHit (i : Nat) (seg : Bytes) (hs : segOk seg) : segHitT none i seg = (dec i == seg) := by
  simp only [segHitT, hs.1, Bool.or_false, segEqTree, strncmpEq, dec_cstr, cstr_id seg hs.2]
  rw [take_length_eq]

theorem sameKey_refl (k : Bytes) : sameKey k k = true := by simp [sameKey]

theorem lookupKey_none_of_seen (seen : List Bytes) (ms : List (Bytes × JVal)) (s : Bytes)
    (hw : wfMembers seen ms = true) (hs : s ∈ seen) : lookupKey s ms = none := by
  induction ms generalizing seen with
  | nil => rfl
  | cons m ms ih =>
    obtain ⟨k, v⟩ := m
    simp only [wfMembers, Bool.and_eq_true, Bool.not_eq_true'] at hw
    obtain ⟨⟨⟨_, hd⟩, _⟩, hm⟩ := hw
    have hne : ¬ k = s := by
      intro he; subst he
      have : dupKey seen k = true := by
        simp only [dupKey, List.any_eq_true]
        exact ⟨k, hs, sameKey_refl k⟩
      rw [this] at hd; exact absurd hd (by simp)
    simp only [lookupKey, if_neg hne]
    exact ih (k :: seen) hm (List.mem_cons_of_mem _ hs)

theorem btGet_nil (v : JVal) : btGet v [] = some v := by cases v <;> simp [btGet]

mutual
  theorem bt_rfc (v : JVal) (jp : List Bytes) (hw : wf v = true) (hj : ∀ seg ∈ jp, segOk seg) :
      btGet v jp = rfcGet v jp := by
    match jp, v with
    | [], v => simp [btGet_nil, rfcGet]
    | seg :: rest, .arr xs =>
      simp only [wf] at hw
      have hseg := hj seg (by simp)
      have hrest : ∀ s ∈ rest, segOk s := fun s hs => hj s (by simp [hs])
      simp only [btGet, rfcGet, rfcStep]
      rw [bt_rfc_arr xs 0 seg rest hw hseg hrest]
      cases arrayIndex seg with
      | none => rfl
      | some n => simp only [Nat.zero_le, if_true, Nat.sub_zero]; rfl
    | seg :: rest, .obj ms =>
      simp only [wf] at hw
      have hseg := hj seg (by simp)
      have hrest : ∀ s ∈ rest, segOk s := fun s hs => hj s (by simp [hs])
      simp only [btGet, rfcGet, rfcStep]
      exact bt_rfc_obj [] ms seg rest hw hseg hrest
    | seg :: rest, .null => simp [btGet, rfcGet, rfcStep]
    | seg :: rest, .bool _ => simp [btGet, rfcGet, rfcStep]
    | seg :: rest, .int _ => simp [btGet, rfcGet, rfcStep]
    | seg :: rest, .f64 _ => simp [btGet, rfcGet, rfcStep]
    | seg :: rest, .str _ => simp [btGet, rfcGet, rfcStep]
  theorem bt_rfc_arr (xs : List JVal) (i : Nat) (seg : Bytes) (rest : List Bytes) (hw : wfList xs = true)
      (hseg : segOk seg) (hrest : ∀ s ∈ rest, segOk s) :
      btArr i xs seg rest =
        match arrayIndex seg with
        | some n => if i ≤ n then (match xs[n - i]? with | some c => rfcGet c rest | none => none) else none
        | none => none := by
    match xs with
    | [] =>
      simp only [btArr]
      cases arrayIndex seg with
      | none => rfl
      | some n => simp
    | x :: xs =>
      simp only [wfList, Bool.and_eq_true] at hw
      simp only [btArr, idxHit i seg hseg]
      have ih := bt_rfc_arr xs (i + 1) seg rest hw.2 hseg hrest
      by_cases hd : dec i = seg
      · have hai := (dec_eq_iff i seg).mp hd
        simp only [hd, beq_self_eq_true, if_true, hai, Nat.le_refl, Nat.sub_self, List.getElem?_cons_zero]
        rw [bt_rfc x rest hw.1 hrest]
        cases rfcGet x rest with
        | some r => rfl
        | none =>
          simp only [ih, hai]
          have : ¬ i + 1 ≤ i := by omega
          simp [this]
      · have hb : (dec i == seg) = false := by simpa using hd
        simp only [hb, Bool.false_eq_true, if_false, ih]
        cases hai : arrayIndex seg with
        | none => rfl
        | some n =>
          have hne : n ≠ i := by
            intro he; subst he; exact hd ((dec_eq_iff n seg).mpr hai)
          simp only []
          by_cases hle : i ≤ n
          · have h1 : i + 1 ≤ n := by omega
            have h2 : n - i = (n - (i + 1)) + 1 := by omega
            simp only [hle, h1, if_true]
            rw [h2, List.getElem?_cons_succ]
          · have h1 : ¬ i + 1 ≤ n := by omega
            simp [hle, h1]
  theorem bt_rfc_obj (seen : List Bytes) (ms : List (Bytes × JVal)) (seg : Bytes) (rest : List Bytes)
      (hw : wfMembers seen ms = true) (hseg : segOk seg) (hrest : ∀ s ∈ rest, segOk s) :
      btObj ms seg rest = match lookupKey seg ms with
        | some c => rfcGet c rest
        | none => none := by
    match ms with
    | [] => simp [btObj, lookupKey]
    | (k, x) :: ms =>
      have hw0 := hw
      simp only [wfMembers, Bool.and_eq_true] at hw
      obtain ⟨⟨⟨⟨_, hk⟩, _⟩, hwx⟩, hm⟩ := hw
      simp only [btObj, keyHit k seg (all_ne_zero k hk) hseg, lookupKey]
      have ih := bt_rfc_obj (k :: seen) ms seg rest hm hseg hrest
      by_cases hks : k = seg
      · subst hks
        simp only [beq_self_eq_true, if_true]
        rw [bt_rfc x rest hwx hrest]
        cases rfcGet x rest with
        | some r => rfl
        | none =>
          simp only [ih, lookupKey_none_of_seen (k :: seen) ms k hm (by simp)]
      · have hb : (k == seg) = false := by simpa using hks
        simp only [hb, Bool.false_eq_true, if_false, if_neg hks, ih]
end

/-! ## pointer parsing = RFC 6901 reference tokens -/

def prependHead (pre : Bytes) : List Bytes → List Bytes
  | [] => [pre]
  | s :: ss => (pre ++ s) :: ss

theorem prependHead_assoc (a b : Bytes) (l : List Bytes) :
    prependHead a (prependHead b l) = prependHead (a ++ b) l := by
  cases l <;> simp [prependHead]

theorem fill_append (rest acc pre : Bytes) : fill rest (acc ++ pre) = prependHead pre.reverse (fill rest acc) := by
  fun_induction fill rest acc with
  | case1 acc => simp [fill, prependHead]
  | case2 rest acc => simp [fill, prependHead]
  | case3 rest acc ih =>
    simp only [fill]; exact ih
  | case4 rest acc ih =>
    simp only [fill]; exact ih
  | case5 x rest acc h1 h2 ih =>
    rw [fill.eq_5 _ _ _ h1 h2]; exact ih
  | case6 c rest acc h1 h2 h3 h4 ih =>
    rw [fill.eq_6 _ _ _ h1 h2 h3 h4]; exact ih

theorem fill_acc (rest acc : Bytes) : fill rest acc = prependHead acc.reverse (fill rest []) := by
  have := fill_append rest [] acc
  simpa using this

theorem splitSlash_append (rest acc pre : Bytes) :
    splitSlash rest (acc ++ pre) = prependHead pre.reverse (splitSlash rest acc) := by
  fun_induction splitSlash rest acc with
  | case1 acc => simp [splitSlash, prependHead]
  | case2 rest acc => simp [splitSlash, prependHead]
  | case3 c rest acc h ih =>
    rw [splitSlash.eq_3 _ _ _ h]; exact ih

theorem splitSlash_acc (rest acc : Bytes) : splitSlash rest acc = prependHead acc.reverse (splitSlash rest []) := by
  have := splitSlash_append rest [] acc
  simpa using this

theorem splitSlash_ne_nil (rest acc : Bytes) : splitSlash rest acc ≠ [] := by
  fun_induction splitSlash rest acc <;> simp_all [splitSlash]

theorem replace2_cons_ne (x y c : Nat) (s : Bytes) (h : c ≠ 126) : replace2 x y (c :: s) = c :: replace2 x y s := by
  cases s with
  | nil => simp [replace2]
  | cons b r => simp [replace2, h]

theorem unescape_cons_ne (c : Nat) (s : Bytes) (h : c ≠ 126) : unescape (c :: s) = c :: unescape s := by
  simp [unescape, replace2_cons_ne _ _ c _ h]

theorem unescape_t0 (s : Bytes) : unescape (126 :: 48 :: s) = 126 :: unescape s := by
  have h1 : replace2 49 47 (126 :: 48 :: s) = 126 :: 48 :: replace2 49 47 s := by
    rw [replace2, if_neg (by simp), replace2_cons_ne _ _ 48 _ (by omega)]
  simp only [unescape, h1]
  rw [replace2]; simp

theorem unescape_t1 (s : Bytes) : unescape (126 :: 49 :: s) = 47 :: unescape s := by
  have h1 : replace2 49 47 (126 :: 49 :: s) = 47 :: replace2 49 47 s := by
    rw [replace2]; simp
  simp only [unescape, h1]
  rw [replace2_cons_ne _ _ 47 _ (by omega)]

theorem map_prependHead (pre pre' : Bytes) (l : List Bytes) (hl : l ≠ [])
    (h : ∀ s, unescape (pre ++ s) = pre' ++ unescape s) :
    (prependHead pre l).map unescape = prependHead pre' (l.map unescape) := by
  cases l with
  | nil => exact absurd rfl hl
  | cons s ss => simp [prependHead, h]

/-- the fill pass yields the RFC 6901 tokens when every `~` is followed by `0` or `1` -/
theorem fill_eq_split (rest : Bytes) (h : tildesOk rest = true) :
    fill rest [] = (splitSlash rest []).map unescape := by
  fun_induction tildesOk rest with
  | case1 => simp [fill, splitSlash, unescape, replace2]
  | case2 rest ih =>
    simp only [fill, splitSlash]
    rw [fill_acc, splitSlash_acc, ih h]
    simp only [List.reverse_cons, List.reverse_nil, List.nil_append, List.cons_append]
    rw [map_prependHead [126, 48] [126] _ (splitSlash_ne_nil _ _) (fun s => by simpa using unescape_t0 s)]
  | case3 rest ih =>
    simp only [fill, splitSlash]
    rw [fill_acc, splitSlash_acc, ih h]
    simp only [List.reverse_cons, List.reverse_nil, List.nil_append, List.cons_append]
    rw [map_prependHead [126, 49] [47] _ (splitSlash_ne_nil _ _) (fun s => by simpa using unescape_t1 s)]
  | case4 t h1 h2 => simp at h
  | case5 c rest h1 h2 h3 ih =>
    have hc : c ≠ 126 := by
      intro he; exact h3 he
    by_cases h47 : c = 47
    · subst h47
      simp only [fill, splitSlash, List.reverse_nil, List.map_cons]
      rw [ih h]; simp [unescape, replace2]
    · have e1 : fill (c :: rest) [] = fill rest [c] := by
        cases rest with
        | nil => simp [fill, h47, hc]
        | cons b r => rw [fill]; all_goals simp_all
      have e2 : splitSlash (c :: rest) [] = splitSlash rest [c] := by
        rw [splitSlash]; simp_all
      rw [e1, e2, fill_acc, splitSlash_acc, ih h]
      simp only [List.reverse_cons, List.reverse_nil, List.nil_append]
      rw [map_prependHead [c] [c] _ (splitSlash_ne_nil _ _) (fun s => by simpa using unescape_cons_ne c s hc)]

/-! ## tokens of a NUL-free pointer are NUL free -/

theorem mem_replace2 (x y : Nat) (s : Bytes) (b : Nat) (h : b ∈ replace2 x y s) : b ∈ s ∨ b = y := by
  fun_induction replace2 x y s with
  | case1 => simp at h
  | case2 c => left; exact h
  | case3 a c rest hc ih =>
    simp only [List.mem_cons] at h ⊢
    rcases h with h | h
    · right; exact h
    · rcases ih h with h' | h'
      · left; right; right; exact h'
      · right; exact h'
  | case4 a c rest hc ih =>
    simp only [List.mem_cons] at h ⊢
    rcases h with h | h
    · left; left; exact h
    · rcases ih h with h' | h'
      · simp only [List.mem_cons] at h'
        left; right; exact h'
      · right; exact h'

theorem mem_splitSlash (rest acc seg : Bytes) (h : seg ∈ splitSlash rest acc) : ∀ b ∈ seg, b ∈ rest ∨ b ∈ acc := by
  fun_induction splitSlash rest acc with
  | case1 acc =>
    simp only [List.mem_singleton] at h; subst h
    intro b hb; right; simpa using hb
  | case2 rest acc ih =>
    simp only [List.mem_cons] at h
    rcases h with h | h
    · subst h; intro b hb; right; simpa using hb
    · intro b hb
      rcases ih h b hb with h' | h'
      · left; simp [h']
      · simp at h'
  | case3 c rest acc hc ih =>
    intro b hb
    rcases ih h b hb with h' | h'
    · left; simp [h']
    · simp only [List.mem_cons] at h'
      rcases h' with h' | h'
      · left; simp [h']
      · right; exact h'

theorem rfcSegments_no_nul (p : Bytes) (toks : List Bytes) (hn : ∀ b ∈ p, b ≠ 0) (h : rfcSegments p = some toks) :
    ∀ seg ∈ toks, ∀ b ∈ seg, b ≠ 0 := by
  unfold rfcSegments at h
  split at h
  · simp only [Option.some.injEq] at h; subst h; simp
  · rename_i rest
    simp only [Option.some.injEq] at h; subst h
    intro seg hseg b hb
    simp only [List.mem_map] at hseg
    obtain ⟨raw, hraw, rfl⟩ := hseg
    have hr := mem_splitSlash rest [] raw hraw
    simp only [unescape] at hb
    rcases mem_replace2 _ _ _ _ hb with h1 | h1
    · rcases mem_replace2 _ _ _ _ h1 with h2 | h2
      · rcases hr b h2 with h3 | h3
        · exact hn b (by simp [h3])
        · simp at h3
      · omega
    · omega
  · simp at h

/-! ## the designated element is itself a well-formed, small document -/

theorem wfMembers_lookup (seen : List Bytes) (ms : List (Bytes × JVal)) (k : Bytes) (c : JVal)
    (hw : wfMembers seen ms = true) (h : lookupKey k ms = some c) : wf c = true := by
  induction ms generalizing seen with
  | nil => simp [lookupKey] at h
  | cons m ms ih =>
    obtain ⟨k', v⟩ := m
    simp only [wfMembers, Bool.and_eq_true] at hw
    simp only [lookupKey] at h
    split at h
    · simp only [Option.some.injEq] at h; subst h; exact hw.1.2
    · exact ih (k' :: seen) hw.2 h

theorem encMembers_lookup (seen : List Bytes) (ms : List (Bytes × JVal)) (k : Bytes) (c : JVal) (body : Bytes)
    (he : encMembers seen ms = some body) (h : lookupKey k ms = some c) :
    ∃ a, enc c = some a ∧ a.length ≤ body.length := by
  induction ms generalizing seen body with
  | nil => simp [lookupKey] at h
  | cons m ms ih =>
    obtain ⟨k', v⟩ := m
    unfold encMembers at he
    split at he
    · simp at he
    · rename_i a ha
      split at he
      · simp at he
      · split at he
        · simp at he
        · rename_i b hb
          simp only [Option.some.injEq] at he; subst he
          simp only [lookupKey] at h
          split at h
          · simp only [Option.some.injEq] at h; subst h
            exact ⟨a, ha, by simp; omega⟩
          · obtain ⟨a', ha', hl⟩ := ih (k' :: seen) b hb h
            exact ⟨a', ha', by simp; omega⟩

theorem rfcStep_sub (v c : JVal) (k : Bytes) (bs : Bytes) (hw : wf v = true) (he : enc v = some bs)
    (h : rfcStep v k = some c) : wf c = true ∧ ∃ a, enc c = some a ∧ a.length ≤ bs.length := by
  cases v with
  | arr xs =>
    simp only [wf] at hw
    simp only [rfcStep] at h
    split at h
    · rename_i i _
      simp only [enc, Option.map_eq_some_iff] at he
      obtain ⟨body, hb, rfl⟩ := he
      obtain ⟨a, ha, hl⟩ := encList_getElem xs i c body hb h
      have := container_length BINN_LIST xs.length body
      exact ⟨wfList_getElem xs i c hw h, a, ha, by omega⟩
    · simp at h
  | obj ms =>
    simp only [wf] at hw
    simp only [rfcStep] at h
    simp only [enc, Option.map_eq_some_iff] at he
    obtain ⟨body, hb, rfl⟩ := he
    obtain ⟨a, ha, hl⟩ := encMembers_lookup [] ms k c body hb h
    have := container_length BINN_OBJECT ms.length body
    exact ⟨wfMembers_lookup [] ms k c hw h, a, ha, by omega⟩
  | null => simp [rfcStep] at h
  | bool _ => simp [rfcStep] at h
  | int _ => simp [rfcStep] at h
  | f64 _ => simp [rfcStep] at h
  | str _ => simp [rfcStep] at h

theorem rfcGet_sub (v r : JVal) (jp : List Bytes) (bs : Bytes) (hw : wf v = true) (he : enc v = some bs)
    (h : rfcGet v jp = some r) : wf r = true ∧ ∃ a, enc r = some a ∧ a.length ≤ bs.length := by
  induction jp generalizing v bs with
  | nil => simp only [rfcGet, Option.some.injEq] at h; subst h; exact ⟨hw, bs, he, Nat.le_refl _⟩
  | cons k ks ih =>
    simp only [rfcGet] at h
    split at h
    · rename_i c hc
      obtain ⟨hwc, a, ha, hl⟩ := rfcStep_sub v c k bs hw he hc
      obtain ⟨hwr, a', ha', hl'⟩ := ih c a hwc ha h
      exact ⟨hwr, a', ha', by omega⟩
    · simp at h

end IwModel.Ptr
