import IwModel.Model.Repl
import IwModel.Lemmas.CStr
/-! `iwu_replace` (`Model/Repl.lean`): it never leaves the memory it is given, and on clean input it is the
sequential reference. -/
namespace IwModel.Repl
open IwModel.CStr

/-- offset of the first occurrence of `key` in `s` -/
def findSub (key : Bytes) : Bytes → Option Nat
  | [] => none
  | c :: t => if key.isPrefixOf (c :: t) then some 0 else (findSub key t).map (· + 1)

theorem matchAt_app (T s R key : Bytes) (hk : 0 ∉ key) (hs : 0 ∉ s) :
    matchAt (T ++ s ++ 0 :: R) T.length key = some (key.isPrefixOf s) := by
  induction key generalizing T s with
  | nil => simp [matchAt]
  | cons k ks ih =>
    obtain ⟨hk0, hks⟩ := not_mem_cons hk
    cases s with
    | nil =>
      simp only [matchAt, List.append_nil, get_at, List.isPrefixOf]
      rw [if_neg (fun e => hk0 e.symm)]
    | cons c t =>
      obtain ⟨_, ht⟩ := not_mem_cons hs
      simp only [matchAt, List.isPrefixOf]
      rw [show (T ++ c :: t ++ 0 :: R)[T.length]? = some c by simp]
      simp only []
      by_cases hc : c = k
      · subst hc
        have := ih (T ++ [c]) t hks ht
        simp only [List.length_append, List.length_singleton] at this
        rw [if_pos rfl, snoc_shift, this]; simp
      · rw [if_neg hc]; simp [Ne.symm hc]

theorem strstr_step (buf key : Bytes) (p c : Nat) (h : buf[p]? = some c) :
    strstr buf key p =
      match matchAt buf p key with
      | none => none
      | some true => some (some p)
      | some false => if c = 0 then some none else strstr buf key (p + 1) := by
  rw [strstr]; split
  · simp_all
  · rename_i c' hc'
    have : c' = c := by rw [h] at hc'; exact (Option.some.inj hc').symm
    subst this; rfl

theorem strstr_app (T s R key : Bytes) (hk : 0 ∉ key) (hs : 0 ∉ s) (hne : key ≠ []) :
    strstr (T ++ s ++ 0 :: R) key T.length = some ((findSub key s).map (T.length + ·)) := by
  induction s generalizing T with
  | nil =>
    rw [strstr_step _ _ _ 0 (by simp), matchAt_app T [] R key hk hs]
    cases key with
    | nil => exact absurd rfl hne
    | cons k ks => simp [List.isPrefixOf, findSub]
  | cons c t ih =>
    obtain ⟨hc, ht⟩ := not_mem_cons hs
    rw [strstr_step _ _ _ c (by simp), matchAt_app T (c :: t) R key hk hs]
    by_cases hp : key.isPrefixOf (c :: t) = true
    · simp [hp, findSub]
    · have hp' : key.isPrefixOf (c :: t) = false := Bool.eq_false_iff.2 hp
      rw [hp']; simp only [findSub, hp', if_neg hc]
      have := ih (T ++ [c]) ht
      simp only [List.length_append, List.length_singleton] at this
      rw [snoc_shift, this]
      cases findSub key t <;> simp; omega

theorem findSub_split (key s : Bytes) (j : Nat) (h : findSub key s = some j) :
    s = s.take j ++ key ++ s.drop (j + key.length) := by
  induction s generalizing j with
  | nil => simp [findSub] at h
  | cons c t ih =>
    simp only [findSub] at h
    by_cases hp : key.isPrefixOf (c :: t) = true
    · rw [if_pos hp] at h
      have hj : j = 0 := by simpa using h.symm
      subst hj
      obtain ⟨r, hr⟩ := List.isPrefixOf_iff_prefix.mp hp
      simp [← hr]
    · rw [if_neg hp] at h
      cases hf : findSub key t with
      | none => simp [hf] at h
      | some j' =>
        simp [hf] at h; subst h
        have := ih j' hf
        simp only [List.take_succ_cons, List.cons_append, show j' + 1 + key.length = (j' + key.length) + 1 by omega,
          List.drop_succ_cons]
        congr 1

theorem replaceAll_cons (key rep : Bytes) (c : Nat) (t : Bytes) :
    replaceAll key rep (c :: t) =
      if key ≠ [] ∧ key.isPrefixOf (c :: t) then rep ++ replaceAll key rep ((c :: t).drop key.length)
      else c :: replaceAll key rep t := by
  rw [replaceAll]; split <;> rfl

theorem replaceAll_none (key rep s : Bytes) (h : findSub key s = none) : replaceAll key rep s = s := by
  induction s with
  | nil => rw [replaceAll]
  | cons c t ih =>
    simp only [findSub] at h
    by_cases hp : key.isPrefixOf (c :: t) = true
    · rw [if_pos hp] at h; simp at h
    · rw [if_neg hp] at h
      rw [replaceAll_cons, if_neg (fun hh => hp hh.2), ih (by simpa using h)]

theorem replaceAll_some (key rep s : Bytes) (j : Nat) (hne : key ≠ []) (h : findSub key s = some j) :
    replaceAll key rep s = s.take j ++ rep ++ replaceAll key rep (s.drop (j + key.length)) := by
  induction s generalizing j with
  | nil => simp [findSub] at h
  | cons c t ih =>
    simp only [findSub] at h
    by_cases hp : key.isPrefixOf (c :: t) = true
    · rw [if_pos hp] at h
      have hj : j = 0 := by simpa using h.symm
      subst hj
      rw [replaceAll_cons, if_pos ⟨hne, hp⟩]; simp
    · rw [if_neg hp] at h
      cases hf : findSub key t with
      | none => simp [hf] at h
      | some j' =>
        simp [hf] at h; subst h
        rw [replaceAll_cons, if_neg (fun hh => hp hh.2), ih j' hf]
        simp only [List.take_succ_cons, List.cons_append, show j' + 1 + key.length = (j' + key.length) + 1 by omega,
          List.drop_succ_cons]

theorem readN_ok (buf : Bytes) (p n : Nat) (h : p + n ≤ buf.length) : ∃ r, readN buf p n = some r := by
  induction n generalizing p with
  | zero => exact ⟨[], rfl⟩
  | succ n ih =>
    obtain ⟨r, hr⟩ := ih (p + 1) (by omega)
    have : p < buf.length := by omega
    simp only [readN, List.getElem?_eq_getElem this, hr]
    exact ⟨_, rfl⟩

theorem inner_none (cur key rep : Bytes) (datalen ptr : Nat) (bbuf : Bytes) (hk : key.length ≠ 0)
    (h : strstr cur key ptr = some none) :
    inner cur key rep datalen ptr bbuf =
      if ptr ≠ 0 then
        if datalen < ptr then none
        else match readN cur ptr (datalen - ptr) with
          | none => none
          | some r => some (bbuf ++ r, ptr)
      else some (bbuf, ptr) := by
  rw [inner, if_neg hk]
  split
  · rename_i h'; rw [h] at h'; simp at h'
  · rfl
  · rename_i p h'; rw [h] at h'; simp at h'

theorem inner_some (cur key rep : Bytes) (datalen ptr p : Nat) (bbuf : Bytes) (hk : key.length ≠ 0)
    (h : strstr cur key ptr = some (some p)) :
    inner cur key rep datalen ptr bbuf =
      match readN cur ptr (p - ptr) with
      | none => none
      | some r =>
        if datalen ≤ p + key.length then some (bbuf ++ r ++ rep, p + key.length)
        else inner cur key rep datalen (p + key.length) (bbuf ++ r ++ rep) := by
  rw [inner, if_neg hk]
  split
  · rename_i h'; rw [h] at h'; simp at h'
  · rename_i h'; rw [h] at h'; simp at h'
  · rename_i q h'
    have : q = p := by rw [h] at h'; simpa using h'.symm
    subst this; rfl

theorem findSub_le (key s : Bytes) (j : Nat) (h : findSub key s = some j) : j + key.length ≤ s.length := by
  induction s generalizing j with
  | nil => simp [findSub] at h
  | cons c t ih =>
    simp only [findSub] at h
    by_cases hp : key.isPrefixOf (c :: t) = true
    · rw [if_pos hp] at h
      have hj : j = 0 := by simpa using h.symm
      subst hj
      have := (List.isPrefixOf_iff_prefix.mp hp).length_le
      simpa using this
    · rw [if_neg hp] at h
      cases hf : findSub key t with
      | none => simp [hf] at h
      | some j' =>
        simp [hf] at h; subst h
        have := ih j' hf
        simp only [List.length_cons]; omega

/-- the memory seen from the byte behind a match -/
theorem cur_shift (T s R key : Bytes) (j : Nat) (h : findSub key s = some j) :
    T ++ s ++ R = (T ++ s.take j ++ key) ++ s.drop (j + key.length) ++ R := by
  conv => lhs; rw [findSub_split key s j h]
  simp

theorem inner_safe (key rep R : Bytes) (datalen n : Nat) (hk0 : 0 ∉ key) (hne : key ≠ []) (T s bbuf : Bytes)
    (hn : s.length ≤ n) (hs : 0 ∉ s) (hd : datalen ≤ (T ++ s ++ 0 :: R).length) (hT : T.length = 0 ∨ T.length < datalen) :
    ∃ r, inner (T ++ s ++ 0 :: R) key rep datalen T.length bbuf = some r := by
  have hkl : key.length ≠ 0 := fun e => hne (List.eq_nil_of_length_eq_zero e)
  induction n generalizing T s bbuf with
  | zero =>
    have : s = [] := List.eq_nil_of_length_eq_zero (by omega)
    subst this
    have hst := strstr_app T [] R key hk0 hs hne
    simp only [findSub, Option.map_none] at hst
    rw [inner_none _ _ _ _ _ _ hkl hst]
    by_cases hp : T.length ≠ 0
    · rw [if_pos hp, if_neg (by omega)]
      obtain ⟨r, hr⟩ := readN_ok (T ++ [] ++ 0 :: R) T.length (datalen - T.length) (by omega)
      rw [hr]; exact ⟨_, rfl⟩
    · rw [if_neg hp]; exact ⟨_, rfl⟩
  | succ n ih =>
    have hst := strstr_app T s R key hk0 hs hne
    cases hf : findSub key s with
    | none =>
      rw [hf] at hst; simp only [Option.map_none] at hst
      rw [inner_none _ _ _ _ _ _ hkl hst]
      by_cases hp : T.length ≠ 0
      · rw [if_pos hp, if_neg (by omega)]
        obtain ⟨r, hr⟩ := readN_ok (T ++ s ++ 0 :: R) T.length (datalen - T.length) (by omega)
        rw [hr]; exact ⟨_, rfl⟩
      · rw [if_neg hp]; exact ⟨_, rfl⟩
    | some j =>
      rw [hf] at hst; simp only [Option.map_some] at hst
      have hle := findSub_le key s j hf
      rw [inner_some _ _ _ _ _ _ _ hkl hst, show T.length + j - T.length = j by omega]
      have hrd : readN (T ++ s ++ 0 :: R) T.length j = some (s.take j) := by
        have := readN_app T (s.take j) (s.drop j ++ 0 :: R)
        rw [show (s.take j).length = j by simp; omega] at this
        rw [← this]; congr 1
        simp only [List.append_assoc]
        rw [← List.append_assoc (s.take j), List.take_append_drop]
      rw [hrd]; simp only []
      by_cases hend : datalen ≤ T.length + j + key.length
      · rw [if_pos hend]; exact ⟨_, rfl⟩
      · rw [if_neg hend]
        have hsh := cur_shift T s (0 :: R) key j hf
        have hlen : (T ++ s.take j ++ key).length = T.length + j + key.length := by
          simp only [List.length_append, List.length_take]; omega
        rw [hsh, ← hlen]
        exact ih _ _ _ (by simp only [List.length_drop]; omega) (fun hm => hs (List.mem_of_mem_drop hm))
          (by rw [← hsh]; exact hd) (by right; rw [hlen]; omega)

theorem inner_clean (key rep : Bytes) (n : Nat) (hk0 : 0 ∉ key) (hne : key ≠ []) (T s bbuf : Bytes)
    (hn : s.length ≤ n) (hs : 0 ∉ s) :
    ∃ p, inner (T ++ s ++ [0]) key rep (T.length + s.length) T.length bbuf =
        some (if T.length = 0 ∧ findSub key s = none then bbuf else bbuf ++ replaceAll key rep s, p) ∧
      (p = 0 ↔ (T.length = 0 ∧ findSub key s = none)) := by
  have hkl : key.length ≠ 0 := fun e => hne (List.eq_nil_of_length_eq_zero e)
  induction n generalizing T s bbuf with
  | zero =>
    have : s = [] := List.eq_nil_of_length_eq_zero (by omega)
    subst this
    have hst := strstr_app T [] [] key hk0 hs hne
    simp only [findSub, Option.map_none] at hst
    rw [inner_none _ _ _ _ _ _ hkl hst]
    by_cases hp : T.length ≠ 0
    · rw [if_pos hp, if_neg (by omega)]
      simp only [List.length_nil, Nat.add_zero, Nat.sub_self, readN]
      refine ⟨T.length, ?_, by simp [hp]⟩
      simp [hp, findSub, replaceAll]
    · rw [if_neg hp]
      have : T.length = 0 := by omega
      exact ⟨T.length, by simp [this, findSub], by simp [this, findSub]⟩
  | succ n ih =>
    have hst := strstr_app T s [] key hk0 hs hne
    cases hf : findSub key s with
    | none =>
      rw [hf] at hst; simp only [Option.map_none] at hst
      rw [inner_none _ _ _ _ _ _ hkl hst]
      by_cases hp : T.length ≠ 0
      · rw [if_pos hp, if_neg (by omega), show T.length + s.length - T.length = s.length by omega,
          readN_app T s [0]]
        refine ⟨T.length, ?_, by simp [hp]⟩
        simp [hp, replaceAll_none key rep s hf]
      · rw [if_neg hp]
        have : T.length = 0 := by omega
        exact ⟨T.length, by simp [this], by simp [this]⟩
    | some j =>
      rw [hf] at hst; simp only [Option.map_some] at hst
      have hle := findSub_le key s j hf
      rw [inner_some _ _ _ _ _ _ _ hkl hst, show T.length + j - T.length = j by omega]
      have hrd : readN (T ++ s ++ [0]) T.length j = some (s.take j) := by
        have := readN_app T (s.take j) (s.drop j ++ [0])
        rw [show (s.take j).length = j by simp; omega] at this
        rw [← this]; congr 1
        simp only [List.append_assoc]
        rw [← List.append_assoc (s.take j), List.take_append_drop]
      rw [hrd]; simp only []
      have hra := replaceAll_some key rep s j hne hf
      by_cases hend : T.length + s.length ≤ T.length + j + key.length
      · rw [if_pos hend]
        have hdrop : s.drop (j + key.length) = [] := by
          apply List.eq_nil_of_length_eq_zero; simp only [List.length_drop]; omega
        rw [hdrop, show replaceAll key rep [] = [] by rw [replaceAll]] at hra
        refine ⟨T.length + j + key.length, ?_, ⟨fun h0 => absurd h0 (by omega), fun h0 => absurd h0.2 (by simp)⟩⟩
        simp [hra]
      · rw [if_neg hend]
        have hsh := cur_shift T s [0] key j hf
        have hlen : (T ++ s.take j ++ key).length = T.length + j + key.length := by
          simp only [List.length_append, List.length_take]; omega
        have hdl : T.length + s.length = (T ++ s.take j ++ key).length + (s.drop (j + key.length)).length := by
          rw [hlen]; simp only [List.length_drop]; omega
        rw [hsh, ← hlen, hdl]
        obtain ⟨p, hp1, hp2⟩ := ih (T ++ s.take j ++ key) (s.drop (j + key.length)) (bbuf ++ s.take j ++ rep)
          (by simp only [List.length_drop]; omega) (fun hm => hs (List.mem_of_mem_drop hm))
        have hT' : ¬ ((T ++ s.take j ++ key).length = 0 ∧ findSub key (s.drop (j + key.length)) = none) := by
          rw [hlen]; omega
        rw [if_neg hT'] at hp1
        refine ⟨p, ?_, ?_⟩
        · rw [hp1, hra]; simp
        · constructor
          · intro hp0; exact absurd (hp2.mp hp0) hT'
          · intro hc; simp at hc

/-! ### the loop over the keys -/

/-- what the loop needs of its locals to stay inside the memory: a terminator somewhere, `datalen` inside -/
def SInv (s : RS) : Prop := (∃ n : Nat, s.cur[n]? = some 0) ∧ s.datalen ≤ s.cur.length

theorem take_of_split (k R : Bytes) : (k ++ 0 :: R).take k.length = k := by simp

theorem keyStep_safe (m : Mapper) (s : RS) (keyBuf : Bytes) (hs : SInv s) (hk : ∃ n : Nat, keyBuf[n]? = some 0) :
    ∃ s', keyStep m s keyBuf = some s' ∧ SInv s' := by
  obtain ⟨k, Rk, rfl, hk0⟩ := hasNul_split keyBuf hk
  have hse := strEnd_app [] k Rk hk0
  simp only [List.nil_append, List.length_nil, Nat.zero_add] at hse
  unfold keyStep
  rw [hse]; simp only []
  by_cases hkl : k.length = 0
  · rw [if_pos hkl]; exact ⟨s, rfl, hs⟩
  · rw [if_neg hkl, take_of_split]
    have hne : k ≠ [] := fun e => hkl (by simp [e])
    obtain ⟨c, R, hc, hc0⟩ := hasNul_split s.cur hs.1
    have := inner_safe k ((m k).getD k) R s.datalen c.length hk0 hne [] c [] (Nat.le_refl _) hc0
      (by simpa [hc] using hs.2) (Or.inl rfl)
    obtain ⟨⟨b, p⟩, hr⟩ := this
    simp only [List.nil_append, List.length_nil] at hr
    rw [hc, hr]; simp only []
    by_cases hp : p ≠ 0
    · rw [if_pos hp]
      exact ⟨_, rfl, ⟨b.length, by simp⟩, by simp⟩
    · rw [if_neg hp]
      exact ⟨s, rfl, hs⟩

theorem keyStep_fresh (m : Mapper) (s s' : RS) (keyBuf : Bytes) (h : keyStep m s keyBuf = some s') (hf : s'.fresh = true) :
    s' = s := by
  unfold keyStep at h
  split at h
  · simp at h
  · split at h
    · simpa using h.symm
    · dsimp only at h
      split at h
      · simp at h
      · split at h
        · simp at h; subst h; simp at hf
        · simpa using h.symm

theorem keyLoop_safe (m : Mapper) (s : RS) (keys : List Bytes) (hs : SInv s)
    (hk : ∀ k ∈ keys, ∃ n : Nat, k[n]? = some 0) :
    ∃ s', keyLoop m s keys = some s' ∧ SInv s' ∧ (s'.fresh = true → s' = s) := by
  induction keys generalizing s with
  | nil => exact ⟨s, rfl, hs, fun _ => rfl⟩
  | cons k ks ih =>
    obtain ⟨s1, h1, hs1⟩ := keyStep_safe m s k hs (hk k (by simp))
    obtain ⟨s2, h2, hs2, hf2⟩ := ih s1 hs1 (fun k' hk' => hk k' (by simp [hk']))
    refine ⟨s2, by simp only [keyLoop, h1, h2], hs2, fun hf => ?_⟩
    have e2 := hf2 hf
    rw [e2] at hf ⊢
    exact keyStep_fresh m s s1 k h1 hf

theorem replace_safe' (m : Mapper) (data : Bytes) (datalen : Nat) (keys : List Bytes)
    (hd : ∃ n : Nat, data[n]? = some 0) (hl : datalen ≤ data.length) (hk : ∀ k ∈ keys, ∃ n : Nat, k[n]? = some 0) :
    ∃ r, replace m data datalen keys = some r := by
  unfold replace
  split
  · exact readN_ok data 0 datalen (by omega)
  · obtain ⟨s', h1, hs', hf⟩ := keyLoop_safe m ⟨data, datalen, true⟩ keys ⟨hd, hl⟩ hk
    rw [h1]; simp only []
    by_cases hfr : s'.fresh = true
    · rw [if_pos hfr, hf hfr]; exact readN_ok data 0 datalen (by omega)
    · rw [if_neg hfr]; exact ⟨_, rfl⟩

/-- clean locals: the text, its terminator and nothing else -/
def CInv (s : RS) (c : Bytes) : Prop := s.cur = c ++ [0] ∧ s.datalen = c.length ∧ 0 ∉ c

theorem replaceAll_nz (key rep s : Bytes) (hs : 0 ∉ s) (hr : 0 ∉ rep) : 0 ∉ replaceAll key rep s := by
  induction hn : s.length using Nat.strongRecOn generalizing s with
  | _ n ih =>
    cases s with
    | nil => rw [replaceAll]; simp
    | cons c t =>
      obtain ⟨hc, ht⟩ := not_mem_cons hs
      rw [replaceAll_cons]
      split
      · rename_i hp
        have hkl : key.length ≠ 0 := fun e => hp.1 (List.eq_nil_of_length_eq_zero e)
        intro hm
        rcases List.mem_append.mp hm with hm | hm
        · exact hr hm
        · exact ih ((c :: t).drop key.length).length (by subst hn; simp only [List.length_drop, List.length_cons]; omega)
            _ (fun h' => hs (List.mem_of_mem_drop h')) rfl hm
      · intro hm
        rcases List.mem_cons.mp hm with e | hm
        · exact hc e.symm
        · exact ih t.length (by subst hn; simp) t ht rfl hm

theorem keyStep_clean (m : Mapper) (s : RS) (c k Rk : Bytes) (hs : CInv s c) (hk0 : 0 ∉ k)
    (hm : ∀ r, m k = some r → 0 ∉ r) :
    ∃ s', keyStep m s (k ++ 0 :: Rk) = some s' ∧ CInv s' (if k = [] then c else replaceAll k ((m k).getD k) c) := by
  have hse := strEnd_app [] k Rk hk0
  simp only [List.nil_append, List.length_nil, Nat.zero_add] at hse
  unfold keyStep
  rw [hse]; simp only []
  by_cases hkl : k.length = 0
  · rw [if_pos hkl, if_pos (List.eq_nil_of_length_eq_zero hkl)]; exact ⟨s, rfl, hs⟩
  · have hne : k ≠ [] := fun e => hkl (by simp [e])
    rw [if_neg hkl, if_neg hne, take_of_split]
    obtain ⟨hcur, hdl, hc0⟩ := hs
    obtain ⟨p, hr, hp⟩ := inner_clean k ((m k).getD k) c.length hk0 hne [] c [] (Nat.le_refl _) hc0
    simp only [List.nil_append, List.length_nil, Nat.zero_add, true_and] at hr hp
    rw [hcur, hdl, hr]; simp only []
    have hrep : 0 ∉ (m k).getD k := by
      cases hmk : m k with
      | none => simpa using hk0
      | some r => simpa using hm r hmk
    by_cases hp0 : p ≠ 0
    · rw [if_pos hp0]
      have hnf : ¬ findSub k c = none := fun e => hp0 (hp.mpr e)
      rw [if_neg hnf]
      exact ⟨_, rfl, rfl, rfl, replaceAll_nz _ _ _ hc0 hrep⟩
    · rw [if_neg hp0]
      have hf : findSub k c = none := hp.mp (by omega)
      rw [replaceAll_none _ _ _ hf]
      exact ⟨s, rfl, hcur, hdl, hc0⟩

theorem keyLoop_clean (m : Mapper) (s : RS) (c : Bytes) (keys : List Bytes) (hs : CInv s c)
    (hk0 : ∀ k ∈ keys, 0 ∉ k) (hm : ∀ k r, m k = some r → 0 ∉ r) :
    ∃ s', keyLoop m s (keys.map (· ++ [0])) = some s' ∧ CInv s' (refReplace m c keys) := by
  induction keys generalizing s c with
  | nil => exact ⟨s, rfl, hs⟩
  | cons k ks ih =>
    obtain ⟨s1, h1, hs1⟩ := keyStep_clean m s c k [] hs (hk0 k (by simp)) (hm k)
    obtain ⟨s2, h2, hs2⟩ := ih s1 _ hs1 (fun k' hk' => hk0 k' (by simp [hk']))
    exact ⟨s2, by simp only [List.map_cons, keyLoop, h1, h2], by simpa [refReplace] using hs2⟩

theorem refReplace_nil (m : Mapper) (keys : List Bytes) : refReplace m [] keys = [] := by
  induction keys with
  | nil => rfl
  | cons k ks ih =>
    simp only [refReplace, List.foldl_cons] at ih ⊢
    have : (if k = [] then ([] : Bytes) else replaceAll k ((m k).getD k) []) = [] := by
      split
      · rfl
      · rw [replaceAll]
    rw [this]; exact ih

theorem replace_clean' (m : Mapper) (s : Bytes) (keys : List Bytes) (hs : 0 ∉ s) (hk0 : ∀ k ∈ keys, 0 ∉ k)
    (hm : ∀ k r, m k = some r → 0 ∉ r) :
    replace m (s ++ [0]) s.length (keys.map (· ++ [0])) = some (refReplace m s keys) := by
  have hrd : readN (s ++ [0]) 0 s.length = some s := by
    have := readN_app [] s [0]; simpa using this
  unfold replace
  split
  · rename_i hc
    rw [hrd]
    rcases hc with hc | hc
    · have : s = [] := List.eq_nil_of_length_eq_zero (by omega)
      subst this; rw [refReplace_nil]
    · have : keys = [] := by
        cases keys with
        | nil => rfl
        | cons k ks => simp at hc
      subst this; rfl
  · obtain ⟨s', h1, hcur, hdl, hc0⟩ := keyLoop_clean m ⟨s ++ [0], s.length, true⟩ s keys ⟨rfl, rfl, hs⟩ hk0 hm
    rw [h1]; simp only []
    obtain ⟨s'', h1', _, hf⟩ := keyLoop_safe m ⟨s ++ [0], s.length, true⟩ (keys.map (· ++ [0])) ⟨⟨s.length, by simp⟩, by simp⟩
      (fun k hk => by
        obtain ⟨k0, _, rfl⟩ := List.mem_map.mp hk
        exact ⟨k0.length, by simp⟩)
    rw [h1] at h1'
    have : s'' = s' := by simpa using h1'.symm
    subst this
    by_cases hfr : s''.fresh = true
    · rw [if_pos hfr]
      have e := hf hfr
      rw [e] at hcur hdl
      simp only at hcur hdl
      have : s = refReplace m s keys := by simpa using hcur
      rw [e]; simp only []; rw [hrd, ← this]
    · rw [if_neg hfr, hcur, hdl]; simp

end IwModel.Repl
