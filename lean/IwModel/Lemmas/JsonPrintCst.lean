import IwModel.Lemmas.JsonPrintStr
import IwModel.Lemmas.JsonNum
/-! `_jbl_node_as_json`: the printed text is the text of a concrete syntax tree of the same document. -/
namespace IwModel.Json
open IwModel

/-- assumed behaviour of the opaque number formatter (`iwjson_ftoa` behind `_jbl_write_double`): it writes some
    JSON number token `N b` for every finite double, in ASCII (proved for the model of `iwjson_ftoa`: `ftoa_fmtSpec`) -/
def FmtSpec (fmt : Nat → Bytes) (N : Nat → Cst) : Prop :=
  ∀ b, finiteBits b = true → (N b).text = fmt b ∧ (N b).valid = true ∧ (N b).depth = 0 ∧ (∀ x ∈ fmt b, x < 128)

def ascii (t : Bytes) : Prop := ∀ b ∈ t, b < 128

theorem ascii_append (a b : Bytes) : ascii (a ++ b) ↔ ascii a ∧ ascii b := by
  simp only [ascii, List.mem_append]
  constructor
  · intro h; exact ⟨fun x hx => h x (Or.inl hx), fun x hx => h x (Or.inr hx)⟩
  · rintro ⟨h1, h2⟩ x (hx | hx); exact h1 x hx; exact h2 x hx

theorem ascii_cons (a : Nat) (b : Bytes) : ascii (a :: b) ↔ a < 128 ∧ ascii b := by simp [ascii]
theorem ascii_nil : ascii [] := by simp [ascii]

theorem ascii_spaces (n : Nat) : ascii (spaces n) := by
  intro b hb; simp only [spaces, List.mem_replicate] at hb; omega

theorem wsOk_spaces (n : Nat) : wsOk (spaces n) = true := by
  simp [wsOk, spaces, isWsByte]

theorem wsOk_nil : wsOk [] = true := rfl

theorem wsOk_append (a b : Bytes) : wsOk (a ++ b) = (wsOk a && wsOk b) := by simp [wsOk]

theorem ascii_digits (n : Nat) : ascii (Conv.digits n) := fun b hb => by have := digits_all n b hb; omega

/-- `_jbl_write_int` writes the integer literal of the value -/
theorem writeInt_cst (i : Int) (h : -(2 ^ 63 : Int) ≤ i ∧ i < (2 ^ 63 : Int)) :
    (Cst.int (decide (i < 0)) i.natAbs).text = writeInt i ∧ (Cst.int (decide (i < 0)) i.natAbs).valid = true ∧
    (Cst.int (decide (i < 0)) i.natAbs).value D = .int i ∧ ascii (writeInt i) := by
  by_cases hn : i < 0
  · simp only [hn, decide_true, Cst.text, signText, ↓reduceIte, writeInt, Conv.itoaSpec, List.cons_append, List.nil_append,
      Cst.valid, Cst.value, decide_eq_true_eq, true_and]
    refine ⟨by omega, by congr 1; omega, ?_⟩
    rw [ascii_cons]; exact ⟨by omega, ascii_digits _⟩
  · simp only [hn, decide_false, Cst.text, signText, Bool.false_eq_true, ↓reduceIte, writeInt, Conv.itoaSpec,
      List.nil_append, Cst.valid, Cst.value, decide_eq_true_eq, true_and]
    exact ⟨by omega, by congr 1; omega, ascii_digits _⟩

theorem writeString_spells (cpf : Bool) (s t : Bytes) (hw : bytesOk s = true) (h : writeString cpf s = .ok t) :
    ∃ ss, quoted ss = t ∧ strValid ss = true ∧ strValue ss = s ∧ (cpf = true → ascii t) := by
  unfold writeString at h
  obtain ⟨body, hb, ht⟩ := map_ok _ _ _ h
  have hw' : ∀ b ∈ s, b < 256 := by
    intro b hb'
    have := (List.all_eq_true.mp hw) b hb'
    simpa using this
  obtain ⟨ss, h1, h2, h3, h4⟩ := writeBody_spells cpf s 0 body hw' hb
  refine ⟨ss, by simp [quoted, h1, ht], h2, by simpa using h3, ?_⟩
  intro hc
  rw [ht, ascii_append, ascii_append]
  exact ⟨⟨by simp [ascii], h4 hc⟩, by simp [ascii]⟩

/-- white space pieces of the pretty printer -/
def ppInd (fl : PFlags) (lvl : Nat) : Bytes := if fl.pretty then spaces (lvl * fl.indent) else []
def ppSp (fl : PFlags) (lvl : Nat) : Bytes := if fl.pretty then spaces (lvl * fl.indent + fl.indent) else []
def ppNl (fl : PFlags) : Bytes := if fl.pretty then [10] else []

theorem wsOk_ppInd (fl : PFlags) (lvl : Nat) : wsOk (ppInd fl lvl) = true := by
  unfold ppInd; split; exact wsOk_spaces _; rfl
theorem wsOk_ppSp (fl : PFlags) (lvl : Nat) : wsOk (ppSp fl lvl) = true := by
  unfold ppSp; split; exact wsOk_spaces _; rfl
theorem wsOk_ppNl (fl : PFlags) : wsOk (ppNl fl) = true := by
  unfold ppNl; split <;> rfl
theorem ascii_ws (w : Bytes) (h : wsOk w = true) : ascii w := by
  intro b hb
  have := (List.all_eq_true.mp h) b hb
  simp only [isWsByte, Bool.or_eq_true, decide_eq_true_eq] at this
  omega

theorem printNode_arr (fmt : Nat → Bytes) (fl : PFlags) (xs : List JVal) (lvl : Nat) :
    printNode fmt fl (.arr xs) lvl =
      match printItems fmt fl xs lvl with
      | .error e => .error e
      | .ok body =>
        .ok ([91] ++ (if !xs.isEmpty && fl.pretty then [10] else []) ++ body
          ++ (if !xs.isEmpty && fl.pretty then spaces (lvl * fl.indent) else []) ++ [93]) := by
  rw [printNode]; rfl

theorem printNode_obj (fmt : Nat → Bytes) (fl : PFlags) (ms : List (Bytes × JVal)) (lvl : Nat) :
    printNode fmt fl (.obj ms) lvl =
      match printMembers fmt fl ms lvl with
      | .error e => .error e
      | .ok body =>
        .ok ([123] ++ (if !ms.isEmpty && fl.pretty then [10] else []) ++ body
          ++ (if !ms.isEmpty && fl.pretty then spaces (lvl * fl.indent) else []) ++ [125]) := by
  rw [printNode]; rfl

theorem printItems_cons (fmt : Nat → Bytes) (fl : PFlags) (x : JVal) (rest : List JVal) (lvl : Nat) :
    printItems fmt fl (x :: rest) lvl =
      match printNode fmt fl x (lvl + 1) with
      | .error e => .error e
      | .ok a =>
        match printItems fmt fl rest lvl with
        | .error e => .error e
        | .ok b =>
          .ok ((if fl.pretty then spaces (lvl * fl.indent + fl.indent) else []) ++ a
            ++ (if rest.isEmpty then [] else [44]) ++ (if fl.pretty then [10] else []) ++ b) := by
  rw [printItems]; rfl

theorem printMembers_cons (fmt : Nat → Bytes) (fl : PFlags) (k : Bytes) (x : JVal) (rest : List (Bytes × JVal)) (lvl : Nat) :
    printMembers fmt fl ((k, x) :: rest) lvl =
      match writeString fl.cpf k with
      | .error e => .error e
      | .ok ks =>
        match printNode fmt fl x (lvl + 1) with
        | .error e => .error e
        | .ok a =>
          match printMembers fmt fl rest lvl with
          | .error e => .error e
          | .ok b =>
            .ok ((if fl.pretty then spaces (lvl * fl.indent + fl.indent) else []) ++ ks
              ++ (if fl.pretty then [58, 32] else [58]) ++ a
              ++ (if rest.isEmpty then [] else [44]) ++ (if fl.pretty then [10] else []) ++ b) := by
  rw [printMembers]; rfl

mutual
  theorem printNode_cst (fmt : Nat → Bytes) (N : Nat → Cst) (D : Bytes → Nat) (hf : FmtSpec fmt N) (fl : PFlags) :
      ∀ (v : JVal) (lvl : Nat) (t : Bytes), printable v = true → printNode fmt fl v lvl = .ok t →
        ∃ c : Cst, c.text = t ∧ c.valid = true ∧ c.value D = reval D N v ∧ c.depth = depthV v ∧
          (fl.cpf = true → ascii t)
    | .null, lvl, t, _, h => by
      simp only [printNode, Except.ok.injEq] at h; subst h
      exact ⟨.null, rfl, rfl, rfl, rfl, fun _ => by simp [litNullP, ascii]⟩
    | .bool true, lvl, t, _, h => by
      simp only [printNode, Except.ok.injEq] at h; subst h
      exact ⟨.tru, rfl, rfl, rfl, rfl, fun _ => by simp [litTrueP, ascii]⟩
    | .bool false, lvl, t, _, h => by
      simp only [printNode, Except.ok.injEq] at h; subst h
      exact ⟨.fals, rfl, rfl, rfl, rfl, fun _ => by simp [litFalseP, ascii]⟩
    | .int i, lvl, t, hp, h => by
      simp only [printNode, Except.ok.injEq] at h; subst h
      simp only [printable, Bool.and_eq_true, decide_eq_true_eq] at hp
      obtain ⟨h1, h2, h3, h4⟩ := writeInt_cst (D := D) i hp
      exact ⟨_, h1, h2, by rw [h3]; rfl, rfl, fun _ => h4⟩
    | .f64 b, lvl, t, hp, h => by
      simp only [printNode, Except.ok.injEq] at h; subst h
      simp only [printable] at hp
      obtain ⟨h1, h2, h3, h4⟩ := hf b hp
      exact ⟨N b, h1, h2, rfl, by rw [h3]; rfl, fun _ => h4⟩
    | .str s, lvl, t, hp, h => by
      rw [printNode] at h
      simp only [printable] at hp
      obtain ⟨ss, h1, h2, h3, h4⟩ := writeString_spells fl.cpf s t hp h
      exact ⟨.str ss, h1, h2, by simp [Cst.value, h3, reval], rfl, h4⟩
    | .arr xs, lvl, t, hp, h => by
      rw [printNode_arr] at h
      cases hb : printItems fmt fl xs lvl with
      | error e => rw [hb] at h; simp at h
      | ok body =>
      rw [hb] at h
      have ht := h
      simp only [Except.ok.injEq] at ht
      rw [printable] at hp
      cases xs with
      | nil =>
        simp only [printItems, Except.ok.injEq] at hb
        subst hb; subst ht
        exact ⟨.arr [] .nil, by simp [Cst.text, Items.isNil, Items.text], rfl, by simp [Cst.value, Items.values, reval, revalL],
          by simp [Cst.depth, Items.depth, depthV, depthL], fun _ => by simp [ascii]⟩
      | cons x rest =>
        obtain ⟨items, i1, i2, i3, i4, i5, i6⟩ :=
          printItems_cst fmt N D hf fl (x :: rest) lvl (ppNl fl) body (by simp) (wsOk_ppNl fl) hp hb
        refine ⟨.arr [] items, ?_, ?_, ?_, ?_, ?_⟩
        · subst ht
          simp only [Cst.text, i1, Bool.false_eq_true, ↓reduceIte, i2, ppNl, ppInd, List.isEmpty_cons, Bool.not_false,
            Bool.true_and, List.nil_append, List.cons_append, List.append_assoc]
        · simp [Cst.valid, wsOk, i3]
        · simp [Cst.value, i4, reval]
        · simp [Cst.depth, i5, depthV]
        · intro hc
          subst ht
          simp only [ascii_append, ascii_cons, ascii_nil, and_true]
          refine ⟨⟨⟨⟨by omega, ?_⟩, i6 hc⟩, ?_⟩, by omega⟩
          · split <;> simp [ascii]
          · split; exact ascii_spaces _; exact ascii_nil
    | .obj ms, lvl, t, hp, h => by
      rw [printNode_obj] at h
      cases hb : printMembers fmt fl ms lvl with
      | error e => rw [hb] at h; simp at h
      | ok body =>
      rw [hb] at h
      have ht := h
      simp only [Except.ok.injEq] at ht
      rw [printable] at hp
      cases ms with
      | nil =>
        simp only [printMembers, Except.ok.injEq] at hb
        subst hb; subst ht
        exact ⟨.obj [] .nil, by simp [Cst.text, Members.isNil, Members.text], rfl,
          by simp [Cst.value, Members.values, reval, revalM], by simp [Cst.depth, Members.depth, depthV, depthM],
          fun _ => by simp [ascii]⟩
      | cons m rest =>
        obtain ⟨mems, i1, i2, i3, i4, i5, i6⟩ :=
          printMembers_cst fmt N D hf fl (m :: rest) lvl (ppNl fl) body (by simp) (wsOk_ppNl fl) hp hb
        refine ⟨.obj [] mems, ?_, ?_, ?_, ?_, ?_⟩
        · subst ht
          simp only [Cst.text, i1, Bool.false_eq_true, ↓reduceIte, i2, ppNl, ppInd, List.isEmpty_cons, Bool.not_false,
            Bool.true_and, List.nil_append, List.cons_append, List.append_assoc]
        · simp [Cst.valid, wsOk, i3]
        · simp [Cst.value, i4, reval]
        · simp [Cst.depth, i5, depthV]
        · intro hc
          subst ht
          simp only [ascii_append, ascii_cons, ascii_nil, and_true]
          refine ⟨⟨⟨⟨by omega, ?_⟩, i6 hc⟩, ?_⟩, by omega⟩
          · split <;> simp [ascii]
          · split; exact ascii_spaces _; exact ascii_nil

  theorem printItems_cst (fmt : Nat → Bytes) (N : Nat → Cst) (D : Bytes → Nat) (hf : FmtSpec fmt N) (fl : PFlags) :
      ∀ (xs : List JVal) (lvl : Nat) (w body : Bytes), xs ≠ [] → wsOk w = true → printableL xs = true →
        printItems fmt fl xs lvl = .ok body →
        ∃ items : Items, items.isNil = false ∧ items.text = w ++ body ++ ppInd fl lvl ∧ items.valid = true ∧
          items.values D = revalL D N xs ∧ items.depth = depthL xs ∧ (fl.cpf = true → ascii body)
    | [], _, _, _, hne, _, _, _ => absurd rfl hne
    | x :: rest, lvl, w, body, _, hw, hp, h => by
      rw [printItems_cons] at h
      rw [printableL, Bool.and_eq_true] at hp
      cases ha : printNode fmt fl x (lvl + 1) with
      | error e => rw [ha] at h; simp at h
      | ok a =>
      rw [ha] at h
      cases hb : printItems fmt fl rest lvl with
      | error e => rw [hb] at h; simp at h
      | ok b =>
      rw [hb] at h
      simp only [Except.ok.injEq] at h
      obtain ⟨c, c1, c2, c3, c4, c5⟩ := printNode_cst fmt N D hf fl x (lvl + 1) a hp.1 ha
      cases rest with
      | nil =>
        simp only [printItems, Except.ok.injEq] at hb; subst hb
        refine ⟨.cons (w ++ ppSp fl lvl) c (ppNl fl ++ ppInd fl lvl) .nil, rfl, ?_, ?_, ?_, ?_, ?_⟩
        · subst h
          simp [Items.text, Items.isNil, c1, ppSp, ppNl, ppInd, List.append_assoc]
        · simp [Items.valid, wsOk_append, hw, wsOk_ppSp, wsOk_ppNl, wsOk_ppInd, c2]
        · simp [Items.values, c3, revalL]
        · simp [Items.depth, c4, depthL]
        · intro hc
          subst h
          simp only [ascii_append, ascii_nil, and_true, List.isEmpty_nil, ↓reduceIte]
          exact ⟨⟨ascii_ws _ (wsOk_ppSp fl lvl), c5 hc⟩, ascii_ws _ (wsOk_ppNl fl)⟩
      | cons y ys =>
        obtain ⟨items, i1, i2, i3, i4, i5, i6⟩ :=
          printItems_cst fmt N D hf fl (y :: ys) lvl (ppNl fl) b (by simp) (wsOk_ppNl fl) hp.2 hb
        refine ⟨.cons (w ++ ppSp fl lvl) c [] items, rfl, ?_, ?_, ?_, ?_, ?_⟩
        · subst h
          simp [Items.text, i1, i2, c1, ppSp, ppNl, ppInd, List.append_assoc]
        · simp [Items.valid, wsOk_append, hw, wsOk_ppSp, c2, i3, wsOk_nil]
        · simp [Items.values, c3, i4, revalL]
        · simp [Items.depth, c4, i5, depthL]
        · intro hc
          subst h
          simp only [ascii_append, List.isEmpty_cons, Bool.false_eq_true, ↓reduceIte]
          exact ⟨⟨⟨⟨ascii_ws _ (wsOk_ppSp fl lvl), c5 hc⟩, by simp [ascii]⟩, ascii_ws _ (wsOk_ppNl fl)⟩, i6 hc⟩

  theorem printMembers_cst (fmt : Nat → Bytes) (N : Nat → Cst) (D : Bytes → Nat) (hf : FmtSpec fmt N) (fl : PFlags) :
      ∀ (ms : List (Bytes × JVal)) (lvl : Nat) (w body : Bytes), ms ≠ [] → wsOk w = true → printableM ms = true →
        printMembers fmt fl ms lvl = .ok body →
        ∃ mems : Members, mems.isNil = false ∧ mems.text = w ++ body ++ ppInd fl lvl ∧ mems.valid = true ∧
          mems.values D = revalM D N ms ∧ mems.depth = depthM ms ∧ (fl.cpf = true → ascii body)
    | [], _, _, _, hne, _, _, _ => absurd rfl hne
    | (k, x) :: rest, lvl, w, body, _, hw, hp, h => by
      rw [printMembers_cons] at h
      rw [printableM] at hp
      simp only [Bool.and_eq_true, Bool.not_eq_true'] at hp
      obtain ⟨⟨⟨hk1, hk2⟩, hpx⟩, hpr⟩ := hp
      cases hks : writeString fl.cpf k with
      | error e => rw [hks] at h; simp at h
      | ok ks =>
      rw [hks] at h
      cases ha : printNode fmt fl x (lvl + 1) with
      | error e => rw [ha] at h; simp at h
      | ok a =>
      rw [ha] at h
      cases hb : printMembers fmt fl rest lvl with
      | error e => rw [hb] at h; simp at h
      | ok b =>
      rw [hb] at h
      simp only [Except.ok.injEq] at h
      obtain ⟨c, c1, c2, c3, c4, c5⟩ := printNode_cst fmt N D hf fl x (lvl + 1) a hpx ha
      obtain ⟨ss, s1, s2, s3, s4⟩ := writeString_spells fl.cpf k ks hk1 hks
      have hcolon : (if fl.pretty = true then [58, 32] else [58]) = ([] : Bytes) ++ [58] ++ (if fl.pretty then [32] else []) := by
        split <;> rfl
      have hw3 : wsOk (if fl.pretty then [32] else []) = true := by split <;> rfl
      have hz : (strValue ss).contains 0 = false := by rw [s3]; exact hk2
      have hz' : ¬ 0 ∈ strValue ss := by simpa using hz
      cases rest with
      | nil =>
        simp only [printMembers, Except.ok.injEq] at hb; subst hb
        refine ⟨.cons (w ++ ppSp fl lvl) ss [] (if fl.pretty then [32] else []) c (ppNl fl ++ ppInd fl lvl) .nil, rfl,
          ?_, ?_, ?_, ?_, ?_⟩
        · subst h
          rw [hcolon]
          simp [Members.text, Members.isNil, c1, s1, ppSp, ppNl, ppInd, List.append_assoc]
        · simp [Members.valid, wsOk_append, hw, wsOk_ppSp, wsOk_ppNl, wsOk_ppInd, c2, s2, hz', hw3, wsOk_nil]
        · simp [Members.values, c3, s3, revalM]
        · simp [Members.depth, c4, depthM]
        · intro hc
          subst h
          simp only [ascii_append, ascii_nil, and_true, List.isEmpty_nil, ↓reduceIte]
          refine ⟨⟨⟨⟨ascii_ws _ (wsOk_ppSp fl lvl), s4 hc⟩, ?_⟩, c5 hc⟩, ascii_ws _ (wsOk_ppNl fl)⟩
          split <;> simp [ascii]
      | cons y ys =>
        obtain ⟨mems, i1, i2, i3, i4, i5, i6⟩ :=
          printMembers_cst fmt N D hf fl (y :: ys) lvl (ppNl fl) b (by simp) (wsOk_ppNl fl) hpr hb
        refine ⟨.cons (w ++ ppSp fl lvl) ss [] (if fl.pretty then [32] else []) c [] mems, rfl, ?_, ?_, ?_, ?_, ?_⟩
        · subst h
          rw [hcolon]
          simp [Members.text, i1, i2, c1, s1, ppSp, ppNl, ppInd, List.append_assoc]
        · simp [Members.valid, wsOk_append, hw, wsOk_ppSp, c2, s2, hz', hw3, i3, wsOk_nil]
        · simp [Members.values, c3, s3, i4, revalM]
        · simp [Members.depth, c4, i5, depthM]
        · intro hc
          subst h
          simp only [ascii_append, List.isEmpty_cons, Bool.false_eq_true, ↓reduceIte]
          refine ⟨⟨⟨⟨⟨⟨ascii_ws _ (wsOk_ppSp fl lvl), s4 hc⟩, ?_⟩, c5 hc⟩, by simp [ascii]⟩, ascii_ws _ (wsOk_ppNl fl)⟩, i6 hc⟩
          split <;> simp [ascii]
end

end IwModel.Json
