import IwModel.Model.FsmBytes
import IwModel.Lemmas.FsmLife
import IwModel.Lemmas.ExfLsn
/-! `reallocate` keeps the caller's bytes: the block-level facts of `Lemmas/Fsm*.lean` (fresh blocks, the bitmap lives in
blocks no caller holds) combined with the copy of the exfile model (`Lemmas/Exf.lean`: memmove on the flat file). -/
namespace IwModel.Fsm

/-- the three ways a `reallocate` can succeed, with the calls it made -/
theorem reallocate_shape (hr : Heur) (s : St) (nlenB addrB olenB : Nat) (f : Flags)
    (hok : (reallocate hr s nlenB addrB olenB f).2.1 = .ok) :
    addrB % bsz s = 0 ∧ olenB % bsz s = 0 ∧
    ((roundup nlenB (bsz s) / bsz s = olenB / bsz s ∧ reallocate hr s nlenB addrB olenB f = (s, .ok, addrB, olenB, none)) ∨
     (roundup nlenB (bsz s) / bsz s < olenB / bsz s ∧ guarded s (addrB / bsz s) (olenB / bsz s) = false ∧
        (deallocLw s (addrB / bsz s + roundup nlenB (bsz s) / bsz s) (olenB / bsz s - roundup nlenB (bsz s) / bsz s)).2 = .ok ∧
        reallocate hr s nlenB addrB olenB f =
          ((deallocLw s (addrB / bsz s + roundup nlenB (bsz s) / bsz s) (olenB / bsz s - roundup nlenB (bsz s) / bsz s)).1,
           .ok, addrB, roundup nlenB (bsz s) / bsz s *
             bsz (deallocLw s (addrB / bsz s + roundup nlenB (bsz s) / bsz s) (olenB / bsz s - roundup nlenB (bsz s) / bsz s)).1,
           none)) ∨
     (olenB / bsz s < roundup nlenB (bsz s) / bsz s ∧ guarded s (addrB / bsz s) (olenB / bsz s) = false ∧
        ∃ s1 naddr sp, allocLw hr s (roundup nlenB (bsz s) / bsz s) (addrB / bsz s) f allocFuel = (s1, .ok, naddr, sp) ∧
          (olenB / bsz s ≠ 0 → (deallocLw s1 (addrB / bsz s) (olenB / bsz s)).2 = .ok) ∧
          reallocate hr s nlenB addrB olenB f =
            ((if olenB / bsz s = 0 then s1 else (deallocLw s1 (addrB / bsz s) (olenB / bsz s)).1), .ok, naddr * bsz s, sp * bsz s,
             if naddr ≠ addrB / bsz s then some (addrB, naddr * bsz s, olenB) else none))) := by
  unfold reallocate at hok ⊢
  generalize addrB / bsz s = oaddr at hok ⊢
  generalize olenB / bsz s = olen at hok ⊢
  generalize roundup nlenB (bsz s) / bsz s = nlen at hok ⊢
  split at hok
  · cases hok
  · rename_i hal
    rw [if_neg hal]
    refine ⟨by omega, by omega, ?_⟩
    simp only at hok ⊢
    by_cases hne : nlen = olen
    · left; rw [if_pos hne]; exact ⟨hne, rfl⟩
    · right
      rw [if_neg hne] at hok ⊢
      split at hok
      · cases hok
      · rename_i hg
        have hg' : guarded s oaddr olen = false := by simpa using hg
        rw [if_neg hg]
        split at hok
        · cases hok
        · rename_i hst
          rw [if_neg hst]
          by_cases hlt : nlen < olen
          · left
            rw [if_pos hlt] at hok ⊢
            generalize deallocLw s (oaddr + nlen) (olen - nlen) = r at hok ⊢
            obtain ⟨s', rc⟩ := r
            simp only at hok ⊢
            by_cases hrc : rc = .ok
            · subst hrc; simp only [if_true]; exact ⟨hlt, hg', trivial, trivial⟩
            · rw [if_neg hrc] at hok; exact absurd hok hrc
          · right
            rw [if_neg hlt] at hok ⊢
            refine ⟨by omega, hg', ?_⟩
            generalize allocLw hr s nlen oaddr f allocFuel = r at hok ⊢
            obtain ⟨s1, rc, naddr, sp⟩ := r
            simp only at hok ⊢
            by_cases hrc : rc = .ok
            · subst hrc
              have hne2 : ¬ (Rc.ok ≠ Rc.ok) := by simp
              rw [if_neg hne2] at hok ⊢
              refine ⟨s1, naddr, sp, rfl, ?_⟩
              by_cases ho : olen = 0
              · subst ho
                simp only [if_true, ne_eq, not_true_eq_false, if_false] at hok ⊢
                exact ⟨fun h => h.elim, trivial⟩
              · simp only [if_neg ho] at hok ⊢
                generalize deallocLw s1 oaddr olen = r2 at hok ⊢
                by_cases h2 : r2.2 = .ok
                · have hne3 : ¬ (r2.2 ≠ Rc.ok) := by simp [h2]
                  rw [if_neg hne3]
                  exact ⟨fun _ => h2, rfl⟩
                · rw [if_pos h2] at hok; exact absurd hok h2
            · rw [if_pos hrc] at hok; exact absurd hok hrc

end IwModel.Fsm

namespace IwModel.FsmB
open IwModel

/-- block `i` is held by a caller: allocated, not one of the bitmap's own blocks, behind the header -/
def Held (s : Fsm.St) (i : Nat) : Prop := Fsm.UserUsed s i ∧ Fsm.hdrBlk s ≤ i

/-- `q'` is `q` except on bytes of blocks that no caller holds in `t`, and it is not shorter: what a store of the allocator
    itself (bitmap bits, a new bitmap in free blocks, the header, growth of the pool) does to the pool -/
def Keeps (t : Fsm.St) (q q' : Bytes) : Prop :=
  q.length ≤ q'.length ∧ ∀ j, j < q.length → Held t (j / Fsm.bsz t) → q'.getD j 0 = q.getD j 0

theorem Keeps.refl (t : Fsm.St) (q : Bytes) : Keeps t q q := ⟨Nat.le_refl _, fun _ _ _ => rfl⟩

theorem readAt_congr (a b : Bytes) (off n : Nat) (ha : off + n ≤ a.length) (hb : off + n ≤ b.length)
    (h : ∀ j, off ≤ j → j < off + n → a.getD j 0 = b.getD j 0) : Exf.readAt a off n = Exf.readAt b off n := by
  apply List.ext_getElem?
  intro i
  rw [Exf.getElem?_readAt, Exf.getElem?_readAt]
  by_cases hi : i < n
  · simp only [hi, if_true]
    have := h (off + i) (by omega) (by omega)
    simp only [List.getD_eq_getElem?_getD] at this
    rw [List.getElem?_eq_getElem (by omega), List.getElem?_eq_getElem (by omega)] at this ⊢
    simpa using this
  · simp [hi]

/-- bytes of a run of held blocks survive a store of the allocator -/
theorem Keeps.readAt {t : Fsm.St} {q q' : Bytes} (hk : Keeps t q q') (a l n : Nat)
    (hheld : ∀ i, a ≤ i → i < a + l → Held t i) (hn : n ≤ l * Fsm.bsz t) (hlen : a * Fsm.bsz t + n ≤ q.length) :
    Exf.readAt q' (a * Fsm.bsz t) n = Exf.readAt q (a * Fsm.bsz t) n := by
  have hk0 := Fsm.bsz_pos t
  apply readAt_congr _ _ _ _ (by have := hk.1; omega) hlen
  intro j h1 h2
  apply hk.2 j (by omega)
  apply hheld
  · exact (Nat.le_div_iff_mul_le hk0).mpr h1
  · apply (Nat.div_lt_iff_lt_mul hk0).mpr
    rw [Nat.add_mul]; omega

theorem mul_div_of_mod {x k : Nat} (h : x % k = 0) : x / k * k = x := by
  have := Nat.div_add_mod x k
  rw [h, Nat.add_zero, Nat.mul_comm] at this
  exact this

/-- the pool copy of the exfile model, for shared windows and ranges that do not overlap forward: memmove on the file -/
theorem copy_disjoint (p : Exf.St) (src n dst : Nat) (hs : Exf.AllShared p.slots) (hc : 0 < p.cbuf)
    (hsrc : src + n ≤ p.file.length) (hd : dst ≤ src ∨ src + n ≤ dst) :
    (Exf.copy p src n dst).1 = .ok ∧
    (Exf.copy p src n dst).2.file = Exf.writeAt p.file dst (Exf.readAt p.file src n) := by
  rw [Exf.copy_eq_flat _ _ _ _ hs]
  have hf := Exf.fileCopy_eq_memmove p.cbuf hc p.file src n dst hsrc hd
  unfold Exf.flatCopy
  split
  · split
    · exact ⟨rfl, rfl⟩
    · rw [hf]; exact ⟨rfl, rfl⟩
  · rw [hf]; exact ⟨rfl, rfl⟩

open Fsm in
theorem held_frame {s s' : Fsm.St} (hf : Fsm.Frame s s') (hsz : s'.bits.size = s.bits.size) (i : Nat)
    (hb : Fsm.bit s'.bits i = Fsm.bit s.bits i) (h : Held s i) : Held s' i := by
  have hg := hf.geo
  obtain ⟨⟨h1, h2, h3⟩, h4⟩ := h
  refine ⟨⟨by rw [hsz]; exact h1, by rw [hb]; exact h2, ?_⟩, by rw [hg.hdrBlk]; exact h4⟩
  have e1 : bmOffBlk s' = bmOffBlk s := by simp [bmOffBlk, hf.bmoff, hg.bsz]
  have e2 : bmLenBlk s' = bmLenBlk s := by simp [bmLenBlk, hf.bmlen, hg.bsz]
  rw [e1, e2]; exact h3

open Fsm in
/-- a release of held blocks succeeds and clears bits of the released range only: blocks held outside it stay held -/
theorem held_dealloc {s : Fsm.St} (hI : Inv s) {off len : Nat} (hlen : 0 < len) (hheld : ∀ i, off ≤ i → i < off + len → Held s i) :
    (deallocLw s off len).2 = .ok ∧ bsz (deallocLw s off len).1 = bsz s ∧
    ∀ i, (i < off ∨ off + len ≤ i) → Held s i → Held (deallocLw s off len).1 i := by
  have hend : off + len ≤ nbits s := by
    have := (hheld (off + len - 1) (by omega) (by omega)).1.1
    rw [hI.size] at this; omega
  obtain ⟨r1, r2, r3, _⟩ := deallocLw_spec hI hlen hend (fun j h1 h2 => (hheld j h1 h2).1.2.1) (hheld off (by omega) (by omega)).2
  refine ⟨r1, r3.geo.bsz, fun i hout h => held_frame r3 (by rw [r2, size_setRange]) i ?_ h⟩
  rw [r2, bit_setRange, if_neg (by omega)]

open Fsm in
/-- a growing `reallocate` on blocks: the new region is disjoint from the old one, every block held before is held when
    `_fsm_blk_allocate_lw` returns, and the new region is held at the end of the call -/
theorem grow_blocks (hr : Heur) {s : Fsm.St} (hI : Inv s) (nlen oaddr olen : Nat) (f : Flags) (s1 : Fsm.St) (naddr sp : Nat)
    (hnl : olen < nlen) (ha : allocLw hr s nlen oaddr f allocFuel = (s1, .ok, naddr, sp))
    (hheld : ∀ i, oaddr ≤ i → i < oaddr + olen → Held s i) :
    bsz s1 = bsz s ∧ nlen ≤ sp ∧ (olen ≠ 0 → naddr + sp ≤ oaddr ∨ oaddr + olen ≤ naddr) ∧
    (olen ≠ 0 → (deallocLw s1 oaddr olen).2 = .ok) ∧
    bsz (if olen = 0 then s1 else (deallocLw s1 oaddr olen).1) = bsz s ∧
    ∀ i, naddr ≤ i → i < naddr + sp → Held (if olen = 0 then s1 else (deallocLw s1 oaddr olen).1) i := by
  obtain ⟨hI1, hgeo, hmono, hd⟩ := allocLw_spec hr (show 0 < nlen by omega) oaddr f allocFuel s hI
  rw [ha] at hI1 hgeo hmono hd
  simp only [] at hI1 hgeo hmono hd
  have hA := hd trivial
  have hsp : nlen ≤ sp := hA.len_ge
  have hdis : olen ≠ 0 → naddr + sp ≤ oaddr ∨ oaddr + olen ≤ naddr := by
    intro ho
    by_cases hc : naddr + sp ≤ oaddr ∨ oaddr + olen ≤ naddr
    · exact hc
    · exfalso
      have h1 := (hA.fresh (max naddr oaddr) (by omega) (by omega)).1
      exact h1 (hheld (max naddr oaddr) (by omega) (by omega)).1
  have hheld1 : ∀ i, Held s i → Held s1 i := fun i h => ⟨hmono i h.1, by rw [hgeo.hdrBlk]; exact h.2⟩
  have hnew1 : ∀ i, naddr ≤ i → i < naddr + sp → Held s1 i := fun i h1 h2 =>
    ⟨(hA.fresh i h1 h2).2.1, by rw [hgeo.hdrBlk]; exact (hA.fresh i h1 h2).2.2⟩
  by_cases ho : olen = 0
  · simp only [ho, if_true, ne_eq, not_true_eq_false, false_implies, true_and]
    exact ⟨hgeo.bsz, hsp, hgeo.bsz, hnew1⟩
  · obtain ⟨d1, d2, d3⟩ := held_dealloc hI1 (Nat.pos_of_ne_zero ho) (fun i h1 h2 => hheld1 i (hheld i h1 h2))
    simp only [if_neg ho]
    refine ⟨hgeo.bsz, hsp, hdis, fun _ => d1, by rw [d2]; exact hgeo.bsz, fun i h1 h2 => d3 i ?_ (hnew1 i h1 h2)⟩
    have := hdis ho
    omega

open Fsm in
/-- **`reallocate` keeps the caller's bytes** (statement and proof; `Props/C10.lean` restates it) -/
theorem reallocate_keeps (hr : Heur) {s : Fsm.St} (hI : Inv s) (p : Exf.St) (w1 w2 : Exf.St → Exf.St) (nlenB addrB olenB : Nat)
    (f : Flags) (hheld : ∀ i, addrB / bsz s ≤ i → i < addrB / bsz s + olenB / bsz s → Held s i)
    (hdisk : addrB + olenB ≤ p.file.length)
    (hw1 : Keeps s p.file (w1 p).file) (hs1 : Exf.AllShared (w1 p).slots) (hc1 : 0 < (w1 p).cbuf)
    (hw2 : ∀ q, Keeps (Fsm.reallocate hr s nlenB addrB olenB f).1 q.file (w2 q).file)
    (hok : (Fsm.reallocate hr s nlenB addrB olenB f).2.1 = .ok) :
    (reallocate hr s p w1 w2 nlenB addrB olenB f).2.1 = .ok ∧
    Exf.readAt (reallocate hr s p w1 w2 nlenB addrB olenB f).2.2.file (Fsm.reallocate hr s nlenB addrB olenB f).2.2.1
        (min olenB (Fsm.reallocate hr s nlenB addrB olenB f).2.2.2.1) =
      Exf.readAt p.file addrB (min olenB (Fsm.reallocate hr s nlenB addrB olenB f).2.2.2.1) := by
  have hk := bsz_pos s
  obtain ⟨hal, hol, hcases⟩ := reallocate_shape hr s nlenB addrB olenB f hok
  have eA : addrB / bsz s * bsz s = addrB := mul_div_of_mod hal
  have eO : olenB / bsz s * bsz s = olenB := mul_div_of_mod hol
  generalize addrB / bsz s = oaddr at hheld hcases eA
  generalize olenB / bsz s = olen at hheld hcases eO
  generalize roundup nlenB (bsz s) / bsz s = nlen at hcases
  unfold reallocate
  rcases hcases with ⟨_, hr0⟩ | ⟨hlt, _, hdrc, hr0⟩ | ⟨hgt, _, s1, naddr, sp, ha, hdrc, hr0⟩
  · -- same number of blocks: nothing happens on the blocks
    rw [hr0] at hw2 ⊢
    simp only [Nat.min_self]
    refine ⟨by first | rfl | trivial, ?_⟩
    have h1 := hw1.readAt oaddr olen olenB hheld (by rw [eO]; exact Nat.le_refl _) (by rw [eA]; exact hdisk)
    have h2 := (hw2 (w1 p)).readAt oaddr olen olenB hheld (by rw [eO]; exact Nat.le_refl _)
      (by rw [eA]; have := hw1.1; omega)
    rw [eA] at h1 h2
    rw [h2, h1]
  · -- fewer blocks: the tail is released, the head stays where it is
    have hpos : 0 < olen - nlen := by omega
    obtain ⟨_, d2, d3⟩ := held_dealloc hI (off := oaddr + nlen) hpos
      (fun i h1 h2 => hheld i (by omega) (by omega))
    rw [hr0] at hw2 ⊢
    simp only []
    rw [d2]
    have hle : nlen * bsz s ≤ olenB := by rw [← eO]; exact Nat.mul_le_mul_right _ (by omega)
    rw [Nat.min_eq_right hle]
    refine ⟨by first | rfl | trivial, ?_⟩
    have hh : ∀ i, oaddr ≤ i → i < oaddr + nlen → Held s i := fun i h1 h2 => hheld i h1 (by omega)
    have h1 := hw1.readAt oaddr nlen (nlen * bsz s) hh (Nat.le_refl _) (by rw [eA]; omega)
    have h2 := (hw2 (w1 p)).readAt oaddr nlen (nlen * bsz s)
      (fun i h1 h2 => d3 i (by omega) (hh i h1 h2)) (by rw [d2]; exact Nat.le_refl _) (by rw [d2, eA]; have := hw1.1; omega)
    rw [d2, eA] at h2
    rw [eA] at h1
    rw [h2, h1]
  · -- more blocks: a new region, the copy, the release of the old region
    obtain ⟨g1, g2, g3, _, g5, g6⟩ := grow_blocks hr hI nlen oaddr olen f s1 naddr sp hgt ha hheld
    rw [hr0] at hw2 ⊢
    simp only []
    have hle : olenB ≤ sp * bsz s := by rw [← eO]; exact Nat.mul_le_mul_right _ (by omega)
    rw [Nat.min_eq_left hle]
    -- the old bytes are still there when the copy starts
    have h1 := hw1.readAt oaddr olen olenB hheld (by rw [eO]; exact Nat.le_refl _) (by rw [eA]; exact hdisk)
    rw [eA] at h1
    have hlen1 : addrB + olenB ≤ (w1 p).file.length := by have := hw1.1; omega
    by_cases ho : olen = 0
    · -- nothing to keep
      have : olenB = 0 := by rw [← eO, ho, Nat.zero_mul]
      subst this
      simp only [Exf.readAt_zero, and_true]
      by_cases hne : naddr ≠ oaddr
      · rw [if_pos hne]
        exact (copy_disjoint (w1 p) addrB 0 (naddr * bsz s) hs1 hc1 (by omega) (by omega)).1
      · rw [if_neg hne]
    · have hdis := g3 ho
      have hne : naddr ≠ oaddr := by omega
      rw [if_pos hne]
      simp only []
      have hd : naddr * bsz s ≤ addrB ∨ addrB + olenB ≤ naddr * bsz s := by
        rcases hdis with h | h
        · left; rw [← eA]; exact Nat.mul_le_mul_right _ (by omega)
        · right; rw [← eA, ← eO, ← Nat.add_mul]; exact Nat.mul_le_mul_right _ h
      obtain ⟨c1, c2⟩ := copy_disjoint (w1 p) addrB olenB (naddr * bsz s) hs1 hc1 hlen1 hd
      refine ⟨c1, ?_⟩
      -- after the copy the new region shows the old bytes; the release does not touch it
      have hrl : (Exf.readAt (w1 p).file addrB olenB).length = olenB := by
        rw [Exf.length_readAt]; omega
      have hp2 : Exf.readAt (Exf.copy (w1 p) addrB olenB (naddr * bsz s)).2.file (naddr * bsz s) olenB =
          Exf.readAt (w1 p).file addrB olenB := by
        rw [c2]
        have := Exf.readAt_writeAt_same (w1 p).file (naddr * bsz s) (Exf.readAt (w1 p).file addrB olenB)
        rw [hrl] at this; exact this
      have hlen2 : naddr * bsz s + olenB ≤ (Exf.copy (w1 p) addrB olenB (naddr * bsz s)).2.file.length := by
        rw [c2]
        by_cases hz : Exf.readAt (w1 p).file addrB olenB = []
        · have hpos : 0 < olenB := by rw [← eO]; exact Nat.mul_pos (Nat.pos_of_ne_zero ho) hk
          rw [hz] at hrl; simp at hrl; omega
        · rw [Exf.length_writeAt _ _ _ hz, hrl]; omega
      have h3 := (hw2 (Exf.copy (w1 p) addrB olenB (naddr * bsz s)).2).readAt naddr sp olenB g6 (by rw [g5]; exact hle)
        (by rw [g5]; exact hlen2)
      rw [g5] at h3
      rw [h3, hp2, h1]

open Fsm in
/-- a range that is allocated and passes the header/bitmap guard of `reallocate` consists of held blocks -/
theorem held_of_allocated {s : Fsm.St} (hI : Inv s) {off len : Nat} (hlen : 0 < len) (hg : guarded s off len = false)
    (hra : RangeAllocated s off len) : ∀ i, off ≤ i → i < off + len → Held s i := by
  intro i h1 h2
  have hgf := guarded_false hI hlen hg
  exact ⟨⟨by rw [hI.size]; have := hra.1; omega, hra.2 i h1 h2, by omega⟩, by omega⟩

open Fsm in
/-- the blocks a successful `allocate` returns are held afterwards (so the hypothesis of `reallocate_keeps` about the old
    range is what `allocate` establishes) -/
theorem held_of_allocate (hr : Heur) {s : Fsm.St} (hI : Inv s) (lenB hintB : Nat) (f : Flags)
    (hok : (allocate hr s lenB hintB f).2.1 = .ok) :
    ∀ i, (allocate hr s lenB hintB f).2.2.1 / bsz (allocate hr s lenB hintB f).1 ≤ i →
      i < (allocate hr s lenB hintB f).2.2.1 / bsz (allocate hr s lenB hintB f).1 +
          (allocate hr s lenB hintB f).2.2.2 / bsz (allocate hr s lenB hintB f).1 →
      Held (allocate hr s lenB hintB f).1 i := by
  obtain ⟨_, hgeo, _, hx⟩ := allocate_spec hr hI lenB hintB f
  obtain ⟨off, olen, e1, e2, _, hA⟩ := hx hok
  have hk := bsz_pos s
  intro i h1 h2
  rw [e1, hgeo.bsz, Nat.mul_div_cancel _ hk] at h1 h2
  rw [e2, Nat.mul_div_cancel _ hk] at h2
  exact ⟨(hA.fresh i h1 h2).2.1, by rw [hgeo.hdrBlk]; exact (hA.fresh i h1 h2).2.2⟩

open Fsm in
/-- a store into the bitmap area (any bytes), with the pool grown on disk, keeps every byte of every held block -/
theorem bitmapStore_keeps {t : Fsm.St} (hI : Inv t) (size : Nat) (img : Bytes) (p : Exf.St) :
    Keeps t p.file (bitmapStore t size img p).file := by
  have hk := bsz_pos t
  unfold bitmapStore
  simp only []
  constructor
  · have h1 := Exf.length_writeAt_ge (Exf.resize p.file (max p.file.length size)) t.bmoff (img.take t.bmlen)
    rw [Exf.length_resize] at h1
    have := Nat.le_max_left p.file.length size
    omega
  · intro j hj hh
    rw [Exf.getD_writeAt]
    have hnot : ¬ (t.bmoff ≤ j ∧ j < t.bmoff + (img.take t.bmlen).length) := by
      intro ⟨h1, h2⟩
      have hl : (img.take t.bmlen).length ≤ t.bmlen := by simp [List.length_take]; omega
      have eo : bmOffBlk t * bsz t = t.bmoff := mul_div_of_mod hI.bmoff_al
      have el : bmLenBlk t * bsz t = t.bmlen := mul_div_of_mod hI.bmlen_al
      apply hh.1.2.2
      constructor
      · apply (Nat.le_div_iff_mul_le hk).mpr; rw [eo]; exact h1
      · apply (Nat.div_lt_iff_lt_mul hk).mpr; rw [Nat.add_mul, eo, el]; omega
    rw [if_neg hnot]
    exact Exf.getD_resize p.file _ j (by have := Nat.le_max_left p.file.length size; omega)

end IwModel.FsmB
