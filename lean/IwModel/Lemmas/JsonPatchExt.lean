import IwModel.Lemmas.JsonPatchDecode
import IwModel.Model.JsonMerge
/-! The three non-standard operations of iowow's JSON Patch (`increment`, `add_create`, `swap`) against their one-line
descriptions in `iwjson.h`. -/
namespace IwModel.Patch
open IwModel

/-! ### locate on a path with one more token -/

theorem locate_snoc (t : Node) (p : Ptr) (last : Bytes) (cp : List Nat) (h : locate t (p ++ [last]) = some cp) :
    ∃ pp parent i, locate t p = some pp ∧ getP t pp = some parent ∧ childIdx parent last = some i ∧
      (child? parent i).isSome ∧ cp = pp ++ [i] := by
  induction p generalizing t cp with
  | nil =>
    simp only [List.nil_append, locate] at h
    split at h
    · cases h
    · rename_i i hi
      split at h
      · cases h
      · rename_i c hc
        simp only [locate, Option.map_some, Option.some.injEq] at h
        exact ⟨[], t, i, rfl, rfl, hi, by simp [hc], by simp [← h]⟩
  | cons k r ih =>
    simp only [List.cons_append, locate] at h
    split at h
    · cases h
    · rename_i i hi
      split at h
      · cases h
      · rename_i c hc
        simp only [Option.map_eq_some_iff] at h
        obtain ⟨cp', h1, rfl⟩ := h
        obtain ⟨pp, parent, j, g1, g2, g3, g4, g5⟩ := ih c cp' h1
        refine ⟨i :: pp, parent, j, ?_, ?_, g3, g4, by simp [g5]⟩
        · simp only [locate, hi, hc, g1, Option.map_some]
        · simp only [getP, hc, g2]

theorem getP_snoc (t : Node) (pp : List Nat) (i : Nat) (parent : Node) (h : getP t pp = some parent) :
    getP t (pp ++ [i]) = child? parent i := by
  induction pp generalizing t with
  | nil =>
    simp only [getP, Option.some.injEq] at h; subst h
    simp only [List.nil_append, getP]
    cases child? t i <;> rfl
  | cons j r ih =>
    simp only [getP] at h
    split at h
    · rename_i c hc
      simp only [List.cons_append, getP, hc]
      exact ih c h
    · cases h

theorem modify_self {α} (xs : List α) (i : Nat) (a : α) (f : α → α) (h : xs[i]? = some a) (e : f a = a) :
    xs.modify i f = xs := by
  induction xs generalizing i with
  | nil => simp at h
  | cons x r ih =>
    cases i with
    | zero => simp at h; subst h; simp [e]
    | succ j => simp only [List.modify_succ_cons, List.cons.injEq, true_and]; exact ih j (by simpa using h)

theorem setChild_self (parent : Node) (i : Nat) (c : Node) (h : child? parent i = some c) : setChild parent i c = parent := by
  cases parent with
  | arr xs =>
    simp only [child?, Option.map_eq_some_iff] at h
    obtain ⟨p, hp, rfl⟩ := h
    simp only [setChild]; rw [modify_self xs i p _ hp rfl]
  | obj ms =>
    simp only [child?, Option.map_eq_some_iff] at h
    obtain ⟨p, hp, rfl⟩ := h
    simp only [setChild]; rw [modify_self ms i p _ hp rfl]
  | _ => simp [child?] at h

theorem setP_self (t : Node) (pp : List Nat) (n : Node) (h : getP t pp = some n) : setP t pp n = t := by
  induction pp generalizing t with
  | nil => simp only [getP, Option.some.injEq] at h; subst h; simp [setP, modP]
  | cons i r ih =>
    simp only [getP] at h
    split at h
    · rename_i c hc
      cases t with
      | arr xs =>
        simp only [child?, Option.map_eq_some_iff] at hc
        obtain ⟨p, hp, rfl⟩ := hc
        rw [setP_cons_arr]
        rw [modify_self xs i p _ hp (by rw [ih p.2 h])]
      | obj ms =>
        simp only [child?, Option.map_eq_some_iff] at hc
        obtain ⟨p, hp, rfl⟩ := hc
        rw [setP_cons_obj]
        rw [modify_self ms i p _ hp (by rw [ih p.2 h])]
      | _ => simp [child?] at hc
    · cases h

theorem setP_snoc (t : Node) (pp : List Nat) (i : Nat) (parent x : Node) (h : getP t pp = some parent) :
    setP t (pp ++ [i]) x = setP t pp (setChild parent i x) := by
  induction pp generalizing t with
  | nil =>
    simp only [getP, Option.some.injEq] at h; subst h
    cases t <;> simp [setP, modP, setChild]
  | cons j r ih =>
    simp only [getP] at h
    split at h
    · rename_i c hc
      cases t with
      | arr xs =>
        simp only [child?, Option.map_eq_some_iff] at hc
        obtain ⟨p, hp, rfl⟩ := hc
        simp only [List.cons_append, setP_cons_arr]
        congr 1
        exact modify_congr_at xs j p _ _ hp (by rw [ih p.2 h])
      | obj ms =>
        simp only [child?, Option.map_eq_some_iff] at hc
        obtain ⟨p, hp, rfl⟩ := hc
        simp only [List.cons_append, setP_cons_obj]
        congr 1
        exact modify_congr_at ms j p _ _ hp (by rw [ih p.2 h])
      | _ => simp [child?] at hc
    · cases h

theorem increment_err_keeps (c v : Node) (h : (increment c v).2 ≠ .ok) : (increment c v).1 = c := by
  unfold increment at *
  cases v <;> cases c <;> first | (simp_all; done) | (dsimp only at *; split <;> simp_all)

/-! ### increment -/

/-- "Value increment": number + number, keeping the kind of the target -/
def numAdd (value : Node) (target : Node) : Option Node :=
  match (increment target value).2 with
  | .ok => some (increment target value).1
  | _ => none

/-- **increment does what it says**: for a location below the root holding a number (object member or array element)
    and a numeric value, the number at that location — and nothing else — is replaced by the sum; if the location is
    missing or does not hold a number, or the value is not a number, an error is reported and nothing changes. -/
theorem increment_spec (t : Node) (p : Ptr) (v : Node) (cp : List Nat) (c : Node) (hp : p ≠ []) (hs : p ≠ [[]])
    (hl : locate t p = some cp) (hc : getP t cp = some c) :
    applyOp t { op := .increment, path := p, frm := none, value := some v } =
      (match numAdd v c with
       | some c' => (setP t cp c', .ok)
       | none => (t, (increment c v).2)) := by
  obtain ⟨last, hlast⟩ : ∃ last, p.getLast? = some last := by
    cases h : p.getLast? with
    | none => exact absurd (List.getLast?_eq_none_iff.mp h) hp
    | some l => exact ⟨l, rfl⟩
  have e := dropLast_append_getLast p last hlast
  rw [← e] at hl
  obtain ⟨pp, parent, i, g1, g2, g3, g4, g5⟩ := locate_snoc t p.dropLast last cp hl
  have hci : child? parent i = some c := by
    rw [g5, getP_snoc t pp i parent g2] at hc; exact hc
  have hr := oproot_false p hp hs
  simp only [applyOp, hr]
  simp only [OpK.beq_eq, place, hlast, g1, g2]
  simp
  -- the parent is an array or an object (it has a child)
  have hins : insertPlain parent last .increment v = (setChild parent i (increment c v).1, (increment c v).2) := by
    cases parent with
    | arr xs => simp [insertPlain, g3, hci, OpK.beq_eq]
    | obj ms => simp [insertPlain, g3, hci, OpK.beq_eq]
    | _ => simp [child?] at hci
  rw [hins]
  simp only [numAdd]
  by_cases hok : (increment c v).2 = .ok
  · rw [hok]
    simp only
    rw [g5, setP_snoc t pp i parent _ g2]
  · have hk := increment_err_keeps c v hok
    rw [hk, setChild_self parent i c hci, setP_self t pp parent g2]
    cases he : (increment c v).2 <;> first | exact absurd he hok | rfl

end IwModel.Patch

namespace IwModel.Patch
open IwModel

/-! ### add_create -/

/-- when every intermediate location exists, `add_create` is `add` -/
theorem add_create_existing (t : Node) (p : Ptr) (v : Node) (h : (locate t p.dropLast).isSome) :
    place t .addCreate p v = place t .add p v := by
  simp only [place]
  split
  · rfl
  · obtain ⟨pp, hpp⟩ := Option.isSome_iff_exists.mp h
    simp only [hpp]
    split
    · rename_i last _ _ parent hparent
      have : insertPlain parent last .addCreate v = insertPlain parent last .add v := by
        cases parent <;> simp [insertPlain, OpK.beq_eq]
      rw [this]
    · rfl

/-- the freshly created chain: nested one-member objects with the value innermost
    ("Create intermediate object nodes for missing path segments") -/
theorem createChain_fresh (r : List Bytes) (last : Bytes) (v : Node) :
    (createChain (.obj []) r last .addCreate v).2 = .ok ∧
    erase (createChain (.obj []) r last .addCreate v).1 = Merge.wrap (r ++ [last]) (some (erase v)) := by
  induction r with
  | nil =>
    simp [createChain, insertPlain, childIdx, OpK.beq_eq, Merge.wrap, eraseMs]
  | cons s r ih =>
    simp only [createChain, childIdx, List.findIdx?_nil, addItem, List.nil_append, List.cons_append, Merge.wrap]
    refine ⟨ih.1, ?_⟩
    rw [erase_obj]
    simp only [eraseMs, List.map_cons, List.map_nil, ih.2]

/-- every node the segments lead through exists and is an object -/
def ObjPath : Node → List Bytes → Prop
  | _, [] => True
  | n, s :: rest => ∃ i c, childIdx n s = some i ∧ child? n i = some c ∧ c.isObj = true ∧ ObjPath c rest

theorem createChain_walk (t : Node) (pre : List Bytes) (k : Bytes) (r : List Bytes) (last : Bytes) (v : Node)
    (pp : List Nat) (ms : List (Bytes × Node)) (ho : ObjPath t pre) (hl : locate t pre = some pp)
    (hg : getP t pp = some (.obj ms)) (hk : ms.findIdx? (fun q => q.1 == k) = none) :
    createChain t (pre ++ k :: r) last .addCreate v =
      (setP t pp (.obj (ms ++ [(k, (createChain (.obj []) r last .addCreate v).1)])), .ok) := by
  induction pre generalizing t pp with
  | nil =>
    simp only [locate, Option.some.injEq] at hl; subst hl
    simp only [getP, Option.some.injEq] at hg; subst hg
    simp only [List.nil_append, createChain, childIdx, hk, addItem, setP, modP, (createChain_fresh r last v).1]
  | cons s rest ih =>
    obtain ⟨i, c, h1, h2, h3, h4⟩ := ho
    simp only [locate, h1, h2, Option.map_eq_some_iff] at hl
    obtain ⟨pp', hl', rfl⟩ := hl
    simp only [getP, h2] at hg
    have := ih c pp' h4 hl' hg
    simp only [List.cons_append, createChain, h1, h2, h3, ↓reduceIte, this]
    congr 1
    -- setChild at i = setP through position i
    cases t with
    | arr xs =>
      simp only [child?, Option.map_eq_some_iff] at h2
      obtain ⟨p, hp, rfl⟩ := h2
      rw [setP_cons_arr]; simp only [setChild]
      congr 1
      exact modify_congr_at xs i p _ _ hp rfl
    | obj ms' =>
      simp only [child?, Option.map_eq_some_iff] at h2
      obtain ⟨p, hp, rfl⟩ := h2
      rw [setP_cons_obj]; simp only [setChild]
      congr 1
      exact modify_congr_at ms' i p _ _ hp rfl
    | _ => simp [child?] at h2

theorem locate_missing (t : Node) (pre : List Bytes) (k : Bytes) (r : List Bytes)
    (pp : List Nat) (ms : List (Bytes × Node)) (hl : locate t pre = some pp)
    (hg : getP t pp = some (.obj ms)) (hk : ms.findIdx? (fun q => q.1 == k) = none) :
    locate t (pre ++ k :: r) = none := by
  induction pre generalizing t pp with
  | nil =>
    simp only [locate, Option.some.injEq] at hl; subst hl
    simp only [getP, Option.some.injEq] at hg; subst hg
    simp [locate, childIdx, hk]
  | cons s rest ih =>
    simp only [locate] at hl
    split at hl
    · cases hl
    · rename_i i hi
      split at hl
      · cases hl
      · rename_i c hc
        simp only [Option.map_eq_some_iff] at hl
        obtain ⟨pp', hl', rfl⟩ := hl
        simp only [getP, hc] at hg
        simp only [List.cons_append, locate, hi, hc, ih c pp' hl' hg, Option.map_none]

/-- **add_create does what it says**: if the path leads through existing objects down to an object that lacks the
    next segment `k`, the missing intermediate objects are created — that object gets the new member
    `k : {r1: {r2: … {last: value}}}` — and nothing else changes -/
theorem add_create_spec (t : Node) (pre : List Bytes) (k : Bytes) (r : List Bytes) (last : Bytes) (v : Node)
    (pp : List Nat) (ms : List (Bytes × Node)) (ho : ObjPath t pre) (hl : locate t pre = some pp)
    (hg : getP t pp = some (.obj ms)) (hk : ms.findIdx? (fun q => q.1 == k) = none) :
    ∃ nest, applyOp t { op := .addCreate, path := pre ++ k :: r ++ [last], frm := none, value := some v } =
        (setP t pp (.obj (ms ++ [(k, nest)])), .ok) ∧
      erase nest = Merge.wrap (r ++ [last]) (some (erase v)) := by
  refine ⟨(createChain (.obj []) r last .addCreate v).1, ?_, (createChain_fresh r last v).2⟩
  have hne : pre ++ k :: r ++ [last] ≠ [] := by simp
  have hns : pre ++ k :: r ++ [last] ≠ [[]] := by
    intro e
    have := congrArg List.length e
    simp at this
    omega
  have hr := oproot_false _ hne hns
  have hassoc : pre ++ k :: r ++ [last] = (pre ++ k :: r) ++ [last] := by simp
  have hlast : (pre ++ k :: r ++ [last]).getLast? = some last := by
    rw [hassoc, List.getLast?_append_of_ne_nil _ (by simp)]; rfl
  have hdrop : (pre ++ k :: r ++ [last]).dropLast = pre ++ k :: r := by
    rw [hassoc]; exact List.dropLast_concat
  simp only [applyOp, hr]
  simp only [OpK.beq_eq, place, hlast, hdrop, locate_missing t pre k r pp ms hl hg hk]
  simp
  exact createChain_walk t pre k r last v pp ms ho hl hg hk

end IwModel.Patch

namespace IwModel.Patch
open IwModel

/-! ### swap -/

theorem isPrefix_refl (l : List Nat) : isPrefix l l = true := by
  induction l with
  | nil => rfl
  | cons a r ih => simp [isPrefix, ih]

/-- **swap does what it says** ("Swap values of two nodes"): when both locations exist, neither lies inside the other
    and the path does not end in `-`, the two values change places and nothing else changes -/
theorem swap_spec (t : Node) (fromP path : Ptr) (fp cp : List Nat) (vf vc : Node) (h : WF t)
    (hp : path ≠ []) (hs : path ≠ [[]]) (hfe : fromP ≠ [])
    (hlf : locate t fromP = some fp) (hlc : locate t path = some cp)
    (hvf : getP t fp = some vf) (hvc : getP t cp = some vc)
    (hd1 : isPrefix fp cp = false) (hd2 : isPrefix cp fp = false) (hnd : path.getLast? ≠ some dash) :
    applyOp t { op := .swap, path := path, frm := some fromP, value := none } = (setP (setP t fp vc) cp vf, .ok) := by
  obtain ⟨last, hlast⟩ : ∃ last, path.getLast? = some last := by
    cases hx : path.getLast? with
    | none => exact absurd (List.getLast?_eq_none_iff.mp hx) hp
    | some l => exact ⟨l, rfl⟩
  have hld : last ≠ dash := fun e => hnd (by rw [hlast, e])
  have e := dropLast_append_getLast path last hlast
  rw [← e] at hlc
  obtain ⟨pp, parent, i, g1, g2, g3, g4, g5⟩ := locate_snoc t path.dropLast last cp hlc
  have hr := oproot_false path hp hs
  have hne : fp ≠ cp := by
    intro e'; rw [e', isPrefix_refl] at hd1; cases hd1
  have hsw : swapData t fp cp = setP (setP t fp vc) cp vf := by
    simp only [swapData, hvf, hvc]
    simp [hne, hd1, hd2]
  have hfb : (some fromP == some ([] : Ptr)) = false := by
    simp; exact hfe
  simp only [applyOp, hr]
  simp only [OpK.beq_eq]
  simp [hfe]
  simp only [applySwap, hlf, hlast, g1, g2]
  cases parent with
  | obj ms =>
    simp only [g3]
    rw [← g5, hsw]
  | arr xs =>
    obtain ⟨hn, _⟩ := (wf_arr_iff xs).mp (wf_getP t pp _ h g2)
    have hdb : (last == dash) = false := by simpa using hld
    simp only [hdb, Bool.false_eq_true, ↓reduceIte]
    simp only [childIdx, hdb, Bool.false_eq_true, ↓reduceIte] at g3
    cases hci : canonIdx last with
    | none => simp [hci] at g3
    | some idx =>
      simp only [hci] at g3
      have := numFrom_findIdx 0 xs hn idx
      simp only [Int.zero_add] at this
      rw [this] at g3
      by_cases hlt : idx < xs.length
      · simp only [hlt, ↓reduceIte, Option.some.injEq] at g3
        subst g3
        have h1 : ¬ idx > xs.length := by omega
        simp only [h1, ↓reduceIte, hlt]
        rw [← g5, hsw]
      · simp [hlt] at g3
  | none => simp [childIdx] at g3
  | null => simp [childIdx] at g3
  | bool b => simp [childIdx] at g3
  | int b => simp [childIdx] at g3
  | f64 b => simp [childIdx] at g3
  | str b => simp [childIdx] at g3

end IwModel.Patch
