import IwModel.Lemmas.JsonPatchErr
/-! The patch *document* of RFC 6902 (an array of operation objects with RFC 6901 pointer texts) is decoded by
`_jbl_create_patch` + `_jbl_ptr_pool` to the operations the refinement theorems are about. -/
namespace IwModel.Patch
open IwModel

/-- RFC 6901 section 3: `~` is written `~0`, `/` is written `~1` -/
def escapeTok : Bytes → Bytes
  | [] => []
  | c :: r => if c = 126 then 126 :: 48 :: escapeTok r else if c = 47 then 126 :: 49 :: escapeTok r else c :: escapeTok r

/-- the text of a pointer: every reference token prefixed by `/` -/
def ptrText (p : Ptr) : Bytes := p.flatMap fun s => 47 :: escapeTok s

theorem unescape_escape (s : Bytes) : unescape (escapeTok s) = some s := by
  induction s with
  | nil => rfl
  | cons c r ih =>
    simp only [escapeTok]
    by_cases h1 : c = 126
    · subst h1; simp [unescape, ih]
    · by_cases h2 : c = 47
      · subst h2; simp [unescape, ih]
      · simp only [h1, h2, ↓reduceIte]
        rw [unescape.eq_def]
        split
        · rename_i heq; cases heq
        · rename_i r' heq; simp only [List.cons.injEq] at heq; exact absurd heq.1 h1
        · rename_i r' heq; simp only [List.cons.injEq] at heq; exact absurd heq.1 h1
        · rename_i r' heq; simp only [List.cons.injEq] at heq; exact absurd heq.1 h1
        · rename_i c' r' _ _ _ heq
          simp only [List.cons.injEq] at heq
          obtain ⟨rfl, rfl⟩ := heq
          simp [ih]

theorem slash_notMem_escape (s : Bytes) : 47 ∉ escapeTok s := by
  induction s with
  | nil => simp [escapeTok]
  | cons c r ih =>
    simp only [escapeTok]
    by_cases h1 : c = 126
    · subst h1; simp [ih]
    · by_cases h2 : c = 47
      · subst h2; simp [ih]
      · simp only [h1, h2, ↓reduceIte, List.mem_cons, not_or]
        exact ⟨fun e => h2 e.symm, ih⟩

theorem splitSlash_noslash (a cur : Bytes) (h : 47 ∉ a) : splitSlash a cur = [cur.reverse ++ a] := by
  induction a generalizing cur with
  | nil => simp [splitSlash]
  | cons c r ih =>
    have hc : c ≠ 47 := fun e => h (by simp [e])
    have hr : 47 ∉ r := fun hm => h (by simp [hm])
    rw [splitSlash.eq_def]
    simp only
    rw [ih _ hr]; simp

theorem splitSlash_append (a rest cur : Bytes) (h : 47 ∉ a) :
    splitSlash (a ++ 47 :: rest) cur = (cur.reverse ++ a) :: splitSlash rest [] := by
  induction a generalizing cur with
  | nil => simp [splitSlash]
  | cons c r ih =>
    have hc : c ≠ 47 := fun e => h (by simp [e])
    have hr : 47 ∉ r := fun hm => h (by simp [hm])
    rw [List.cons_append, splitSlash.eq_def]
    simp only
    rw [ih _ hr]; simp

/-- body of a pointer text after the leading `/`: tokens joined by `/` -/
def joinToks : List Bytes → Bytes
  | [] => []
  | [s] => escapeTok s
  | s :: r => escapeTok s ++ 47 :: joinToks r

theorem ptrText_cons (s : Bytes) (r : Ptr) : ptrText (s :: r) = 47 :: joinToks (s :: r) := by
  induction r generalizing s with
  | nil => simp [ptrText, joinToks]
  | cons s' r' ih =>
    have := ih s'
    simp only [ptrText, List.flatMap_cons, joinToks] at this ⊢
    rw [this]; simp

theorem splitSlash_join (s : Bytes) (r : List Bytes) : splitSlash (joinToks (s :: r)) [] = (s :: r).map escapeTok := by
  induction r generalizing s with
  | nil => simp [joinToks, splitSlash_noslash _ _ (slash_notMem_escape s)]
  | cons s' r' ih =>
    simp only [joinToks]
    rw [splitSlash_append _ _ _ (slash_notMem_escape s)]
    rw [ih s']
    simp

theorem mapM_unescape (l : List Bytes) : (l.map escapeTok).mapM unescape = some l := by
  induction l with
  | nil => rfl
  | cons s r ih => simp [List.mapM_cons, unescape_escape, ih]

theorem joinToks_getLast (s : Bytes) (r : List Bytes) (h : (s :: r).getLast? ≠ some []) :
    (joinToks (s :: r)).getLast? ≠ some 47 := by
  induction r generalizing s with
  | nil =>
    simp only [joinToks]
    intro e
    exact slash_notMem_escape s (List.mem_of_getLast? e)
  | cons s' r' ih =>
    simp only [joinToks]
    have h' : (s' :: r').getLast? ≠ some [] := by simpa [List.getLast?_cons_cons] using h
    have := ih s' h'
    intro e
    apply this
    have hne : joinToks (s' :: r') ≠ [] ∨ joinToks (s' :: r') = [] := by
      by_cases hx : joinToks (s' :: r') = [] <;> simp [hx]
    rcases hne with hne | hemp
    · rw [List.getLast?_append_of_ne_nil _ (by simp)] at e
      rw [List.getLast?_cons_of_ne_nil hne] at e
      · exact e
    · -- the tail is empty: only possible if the last token is empty
      exfalso
      cases r' with
      | nil =>
        simp only [joinToks] at hemp
        have : s' = [] := by
          cases s' with
          | nil => rfl
          | cons c t => simp only [escapeTok] at hemp; split at hemp <;> (try split at hemp) <;> simp at hemp
        subst this
        simp at h'
      | cons s'' r'' => simp [joinToks] at hemp

/-- **`_jbl_ptr_pool` reads RFC 6901 texts**: the text of a pointer is parsed back to its reference tokens. The only
    exception is a pointer with at least two tokens whose last token is empty (its text ends in `/`, which the code
    rejects — property C14's domain). -/
theorem parsePtr_ptrText (p : Ptr) (h : p.length > 1 → p.getLast? ≠ some []) : parsePtr (ptrText p) = .ok p := by
  cases p with
  | nil => rfl
  | cons s r =>
    rw [ptrText_cons]
    simp only [parsePtr]
    have hlast : ¬ ((47 :: joinToks (s :: r)).length > 1 ∧ (47 :: joinToks (s :: r)).getLast? = some 47) := by
      rintro ⟨hlen, hl⟩
      cases r with
      | nil =>
        -- a single token: the text is `/` ++ escape s
        simp only [joinToks] at hlen hl
        cases hs : escapeTok s with
        | nil => simp [hs] at hlen
        | cons c t =>
          rw [hs] at hl
          rw [List.getLast?_cons_of_ne_nil (by simp)] at hl
          rw [← hs] at hl
          exact slash_notMem_escape s (List.mem_of_getLast? hl)
      | cons s' r' =>
        have hne : (s :: s' :: r').getLast? ≠ some [] := h (by simp)
        have := joinToks_getLast s (s' :: r') hne
        have hnn : joinToks (s :: s' :: r') ≠ [] := by simp [joinToks]
        rw [List.getLast?_cons_of_ne_nil hnn] at hl
        exact this hl
    simp only [hlast, ↓reduceIte]
    rw [splitSlash_join, mapM_unescape]

end IwModel.Patch

namespace IwModel.Patch
open IwModel

/-- an RFC 6902 operation object as a tree -/
def renderOp : Rfc.Op → Node
  | .add p v => .obj [(ascii "op", .str (ascii "add")), (ascii "path", .str (ptrText p)), (ascii "value", ofJ v)]
  | .remove p => .obj [(ascii "op", .str (ascii "remove")), (ascii "path", .str (ptrText p))]
  | .replace p v => .obj [(ascii "op", .str (ascii "replace")), (ascii "path", .str (ptrText p)), (ascii "value", ofJ v)]
  | .move f p => .obj [(ascii "op", .str (ascii "move")), (ascii "from", .str (ptrText f)), (ascii "path", .str (ptrText p))]
  | .copy f p => .obj [(ascii "op", .str (ascii "copy")), (ascii "from", .str (ptrText f)), (ascii "path", .str (ptrText p))]
  | .test p v => .obj [(ascii "op", .str (ascii "test")), (ascii "path", .str (ptrText p)), (ascii "value", ofJ v)]

/-- the patch document: a JSON array of operation objects -/
def renderPatch (ops : List Rfc.Op) : Node := .arr (number (ops.map renderOp))

def rawOf : Rfc.Op → RawOp
  | .add p v => { op := .add, path := some (ptrText p), frm := none, value := some (ofJ v) }
  | .remove p => { op := .remove, path := some (ptrText p), frm := none, value := none }
  | .replace p v => { op := .replace, path := some (ptrText p), frm := none, value := some (ofJ v) }
  | .move f p => { op := .move, path := some (ptrText p), frm := some (ptrText f), value := none }
  | .copy f p => { op := .copy, path := some (ptrText p), frm := some (ptrText f), value := none }
  | .test p v => { op := .test, path := some (ptrText p), frm := none, value := some (ofJ v) }

theorem decode_renderOp (o : Rfc.Op) :
    (match renderOp o with
     | .obj ms => decodeMembers ms {}
     | _ => .error .patchInvalid) = .ok (rawOf o) := by
  cases o <;> simp [renderOp, rawOf, decodeMembers, isPre, ascii, opNames]

theorem mapM_map_ok {α β γ ε} (l : List α) (f : α → β) (g : β → Except ε γ) (h : α → γ)
    (hh : ∀ a, g (f a) = .ok (h a)) : (l.map f).mapM g = .ok (l.map h) := by
  induction l with
  | nil => rfl
  | cons a r ih => simp [List.mapM_cons, hh a, ih, bind, Except.bind, pure, Except.pure]

theorem renderOp_isObj (o : Rfc.Op) : (renderOp o).isObj = true := by cases o <;> rfl

/-- **`_jbl_create_patch` reads RFC 6902 patch documents** -/
theorem decode_renderPatch (ops : List Rfc.Op) : decode (renderPatch ops) = .ok (ops.map rawOf) := by
  simp only [decode, renderPatch, children, number_map_snd]
  have hall : (ops.map renderOp).all (·.isObj) = true := by
    simp [List.all_eq_true, renderOp_isObj]
  simp only [hall, ↓reduceIte]
  exact mapM_map_ok ops renderOp _ rawOf decode_renderOp

/-- pointer texts the code accepts: not ending in `/` unless the pointer is the single empty token -/
def PtrOk (p : Ptr) : Prop := p.length > 1 → p.getLast? ≠ some []

theorem parseOne_rawOf (o : Rfc.Op) (hp : PtrOk (opPath o)) (hf : PtrOk (opFrom o)) :
    parseOne (rawOf o) = .ok (toPOp o) := by
  cases o <;> simp only [opPath, opFrom] at hp hf <;>
    simp [parseOne, rawOf, toPOp, parsePtr_ptrText _ hp, parsePtr_ptrText _ hf]

theorem mapM_map_ok_mem {α β γ ε} (l : List α) (f : α → β) (g : β → Except ε γ) (h : α → γ)
    (hh : ∀ a ∈ l, g (f a) = .ok (h a)) : (l.map f).mapM g = .ok (l.map h) := by
  induction l with
  | nil => rfl
  | cons a r ih =>
    simp [List.mapM_cons, hh a (by simp), ih (fun x hx => hh x (by simp [hx])), bind, Except.bind, pure, Except.pure]

/-- **end to end**: `jbn_patch_auto` / `jbn_patch` on the RFC 6902 patch document = the operation loop on the decoded
    operations the refinement theorems speak about -/
theorem patchTree_render (t : Node) (ops : List Rfc.Op) (hp : ∀ o ∈ ops, PtrOk (opPath o) ∧ PtrOk (opFrom o)) :
    patchTree t (renderPatch ops) = runOps t (ops.map toPOp) := by
  have hparse : parseOps (ops.map rawOf) = .ok (ops.map toPOp) :=
    mapM_map_ok_mem ops rawOf parseOne toPOp (fun o ho => parseOne_rawOf o (hp o ho).1 (hp o ho).2)
  simp only [patchTree, decode_renderPatch, patchNode, hparse]
  cases ops with
  | nil => simp [runOps]
  | cons o r => simp

/-- the same for the binary entry points `jbl_patch` / `jbl_patch_from_json` -/
theorem patchBinary_render (doc : JVal) (ops : List Rfc.Op) (hne : ops ≠ [])
    (hp : ∀ o ∈ ops, PtrOk (opPath o) ∧ PtrOk (opFrom o)) :
    patchBinary doc (renderPatch ops) = finishBinary doc (runOps (ofJ doc) (ops.map toPOp)) := by
  have hparse : parseOps (ops.map rawOf) = .ok (ops.map toPOp) :=
    mapM_map_ok_mem ops rawOf parseOne toPOp (fun o ho => parseOne_rawOf o (hp o ho).1 (hp o ho).2)
  have hemp : (ops.map rawOf).isEmpty = false := by
    cases ops with
    | nil => exact absurd rfl hne
    | cons o r => rfl
  simp only [patchBinary, decode_renderPatch, applyBinary, hemp, patchNode, hparse, Bool.false_eq_true, ↓reduceIte]

end IwModel.Patch
