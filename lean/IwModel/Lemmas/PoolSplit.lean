import IwModel.Model.Pool
/-!
`iwpool_split_string`: the index scan with its two trimming loops yields the reference split
(`List.splitOnP` at the separator characters, a trailing empty piece dropped, every piece trimmed on request).
-/
set_option linter.unusedSimpArgs false
namespace IwModel.Pool

/-! ### slices -/

theorem slice_self (hay : Bytes) (a : Nat) : slice hay a a = [] := by simp [slice]

theorem getD_eq (hay : Bytes) (i : Nat) (h : i < hay.length) : hay.getD i 0 = hay[i] := by
  simp [List.getD_eq_getElem?_getD, h]

theorem slice_cons (hay : Bytes) (a b : Nat) (h1 : a < b) (h2 : b ≤ hay.length) :
    slice hay a b = hay.getD a 0 :: slice hay (a + 1) b := by
  have ha : a < hay.length := by omega
  unfold slice
  rw [getD_eq hay a ha, List.drop_eq_getElem_cons ha]
  have : b - a = (b - (a + 1)) + 1 := by omega
  rw [this, List.take_succ_cons]

theorem slice_snoc (hay : Bytes) (a b : Nat) (h1 : a ≤ b) (h2 : b < hay.length) :
    slice hay a (b + 1) = slice hay a b ++ [hay.getD b 0] := by
  unfold slice
  have e : b + 1 - a = (b - a) + 1 := by omega
  have hlt : b - a < (hay.drop a).length := by simp; omega
  rw [e, List.take_add_one, List.getElem?_eq_getElem hlt, getD_eq hay b h2]
  simp
  congr 1; omega

theorem take_snoc (hay : Bytes) (k : Nat) (h : k < hay.length) : hay.take (k + 1) = hay.take k ++ [hay.getD k 0] := by
  rw [List.take_add_one, List.getElem?_eq_getElem h, getD_eq hay k h]; simp

/-! ### the trimming loops -/

theorem trimL_spec (hay : Bytes) (ep : Nat) (hep : ep ≤ hay.length) :
    ∀ (f sp : Nat), ep - sp ≤ f → sp ≤ ep →
      sp ≤ trimL hay ep f sp ∧ trimL hay ep f sp ≤ ep ∧
      slice hay (trimL hay ep f sp) ep = (slice hay sp ep).dropWhile isSpace := by
  intro f
  induction f with
  | zero =>
    intro sp h1 h2
    have : sp = ep := by omega
    subst this
    simp [trimL, slice_self]
  | succ f ih =>
    intro sp h1 h2
    unfold trimL
    by_cases hc : sp < ep ∧ isSpace (hay.getD sp 0) = true
    · rw [if_pos hc]
      obtain ⟨a, b, c⟩ := ih (sp + 1) (by omega) (by omega)
      refine ⟨by omega, b, ?_⟩
      rw [c, slice_cons hay sp ep hc.1 hep, List.dropWhile_cons, if_pos hc.2]
    · rw [if_neg hc]
      refine ⟨Nat.le_refl _, h2, ?_⟩
      by_cases hlt : sp < ep
      · have hs : ¬ isSpace (hay.getD sp 0) = true := fun h => hc ⟨hlt, h⟩
        rw [slice_cons hay sp ep hlt hep, List.dropWhile_cons, if_neg hs]
      · have : sp = ep := by omega
        subst this; simp [slice_self]

theorem trimR_spec (hay : Bytes) (sp : Nat) :
    ∀ (f ep : Nat), ep - sp ≤ f → sp ≤ ep → ep ≤ hay.length →
      sp ≤ trimR hay sp f ep ∧ trimR hay sp f ep ≤ ep ∧
      slice hay sp (trimR hay sp f ep) = ((slice hay sp ep).reverse.dropWhile isSpace).reverse := by
  intro f
  induction f with
  | zero =>
    intro ep h1 h2 _
    have : sp = ep := by omega
    subst this
    simp [trimR, slice_self]
  | succ f ih =>
    intro ep h1 h2 h3
    unfold trimR
    by_cases hc : ep > sp ∧ isSpace (hay.getD (ep - 1) 0) = true
    · rw [if_pos hc]
      obtain ⟨a, b, c⟩ := ih (ep - 1) (by omega) (by omega) (by omega)
      refine ⟨a, by omega, ?_⟩
      have e : ep = (ep - 1) + 1 := by omega
      rw [c]
      conv => rhs; rw [e, slice_snoc hay sp (ep - 1) (by omega) (by omega)]
      rw [List.reverse_append, List.reverse_singleton, List.singleton_append, List.dropWhile_cons, if_pos hc.2]
    · rw [if_neg hc]
      refine ⟨h2, Nat.le_refl _, ?_⟩
      by_cases hlt : sp < ep
      · have hs : ¬ isSpace (hay.getD (ep - 1) 0) = true := fun h => hc ⟨hlt, h⟩
        have e : ep = (ep - 1) + 1 := by omega
        conv => rhs; rw [e, slice_snoc hay sp (ep - 1) (by omega) (by omega)]
        rw [List.reverse_append, List.reverse_singleton, List.singleton_append, List.dropWhile_cons, if_neg hs]
        rw [List.reverse_cons, List.reverse_reverse, ← slice_snoc hay sp (ep - 1) (by omega) (by omega), ← e]
      · have : sp = ep := by omega
        subst this; simp [slice_self]

/-- the two pointer loops compute the reference trimming of the token `[sp, ep)` -/
theorem token_eq (hay : Bytes) (ws : Bool) (sp ep : Nat) (h1 : sp ≤ ep) (h2 : ep ≤ hay.length) :
    token hay ws sp ep = (if ws then trimTok (slice hay sp ep) else slice hay sp ep) := by
  unfold token
  cases ws with
  | false => rfl
  | true =>
    simp only [if_true]
    obtain ⟨a, b, c⟩ := trimL_spec hay ep h2 (ep - sp) sp (Nat.le_refl _) h1
    obtain ⟨_, _, c'⟩ := trimR_spec hay (trimL hay ep (ep - sp) sp) (ep - trimL hay ep (ep - sp) sp) ep
      (Nat.le_refl _) b h2
    rw [c', c]; rfl

theorem mem_takeWhile_p (p : Nat → Bool) : ∀ (l : Bytes) (c : Nat), c ∈ l.takeWhile p → p c = true := by
  intro l
  induction l with
  | nil => intro c h; simp at h
  | cons x xs ih =>
    intro c h
    rw [List.takeWhile_cons] at h
    split at h
    · rcases List.mem_cons.mp h with rfl | h
      · assumption
      · exact ih c h
    · simp at h

/-- the trimming rule: exactly the white space at the two ends goes, the rest of the token is untouched -/
theorem trimTok_spec (t : Bytes) :
    ∃ l r, t = l ++ trimTok t ++ r ∧ (∀ c ∈ l, isSpace c = true) ∧ (∀ c ∈ r, isSpace c = true) ∧
      (∀ c, (trimTok t).head? = some c → isSpace c = false) ∧
      (∀ c, (trimTok t).getLast? = some c → isSpace c = false) := by
  let u := t.dropWhile isSpace
  refine ⟨t.takeWhile isSpace, (u.reverse.takeWhile isSpace).reverse, ?_, ?_, ?_, ?_, ?_⟩
  · have h1 : t = t.takeWhile isSpace ++ u := (List.takeWhile_append_dropWhile).symm
    have h2 : u = (u.reverse.dropWhile isSpace).reverse ++ (u.reverse.takeWhile isSpace).reverse := by
      rw [← List.reverse_append, List.takeWhile_append_dropWhile, List.reverse_reverse]
    show t = t.takeWhile isSpace ++ (u.reverse.dropWhile isSpace).reverse ++ (u.reverse.takeWhile isSpace).reverse
    rw [List.append_assoc, ← h2, ← h1]
  · intro c hc; exact mem_takeWhile_p _ _ _ hc
  · intro c hc; exact mem_takeWhile_p _ _ _ (List.mem_reverse.mp hc)
  · intro c hc
    show isSpace c = false
    have hv : trimTok t = (u.reverse.dropWhile isSpace).reverse := rfl
    -- the head of the trimmed token is the head of `u`, which `dropWhile` left non-space
    have h2 : u = trimTok t ++ (u.reverse.takeWhile isSpace).reverse := by
      rw [hv, ← List.reverse_append, List.takeWhile_append_dropWhile, List.reverse_reverse]
    have hu : u.head? = some c := by
      rw [h2]
      cases hv' : trimTok t with
      | nil => rw [hv'] at hc; simp at hc
      | cons a b => rw [hv'] at hc; simpa using hc
    have := List.head?_dropWhile_not isSpace t
    show isSpace c = false
    have hh : (t.dropWhile isSpace).head? = some c := hu
    rw [hh] at this
    simpa using this
  · intro c hc
    have hv : trimTok t = (u.reverse.dropWhile isSpace).reverse := rfl
    rw [hv, List.getLast?_reverse] at hc
    have := List.head?_dropWhile_not isSpace u.reverse
    rw [hc] at this
    simpa using this

/-! ### the reference split -/

/-- the plain reference: cut at every separator (`List.splitOnP`), drop the piece after a trailing separator
(and the single empty piece of an empty string), trim each piece when asked to -/
def refSplit (hay chars : Bytes) (ws : Bool) : List Bytes :=
  let ps := hay.splitOnP (fun c => chars.contains c)
  let ps := if ps.getLast? = some [] then ps.dropLast else ps
  if ws then ps.map trimTok else ps

theorem splitOnP_snoc_neg (p : Nat → Bool) (xs : Bytes) (c : Nat) (hc : p c = false) :
    ∀ (done : List Bytes) (cur : Bytes), xs.splitOnP p = done ++ [cur] →
      (xs ++ [c]).splitOnP p = done ++ [cur ++ [c]] := by
  induction xs with
  | nil =>
    intro done cur h
    rw [List.splitOnP_nil] at h
    cases done with
    | nil =>
      simp only [List.nil_append, List.cons.injEq, and_true] at h
      subst h
      simp [List.splitOnP_cons_eq_if_modifyHead, hc]
    | cons d ds =>
      have := congrArg List.length h
      simp at this
  | cons x xs ih =>
    intro done cur h
    rw [List.splitOnP_cons_eq_if_modifyHead] at h
    rw [List.cons_append, List.splitOnP_cons_eq_if_modifyHead]
    by_cases hx : p x = true
    · rw [if_pos hx] at h ⊢
      cases done with
      | nil =>
        have := congrArg List.length h
        have hne := List.splitOnP_ne_nil p xs
        cases hs : xs.splitOnP p with
        | nil => exact absurd hs hne
        | cons a b => rw [hs] at this; simp at this
      | cons d ds =>
        simp only [List.cons_append, List.cons.injEq] at h
        rw [ih ds cur h.2, ← h.1]; rfl
    · rw [if_neg hx] at h ⊢
      obtain ⟨a, b, hs⟩ := List.exists_cons_of_ne_nil (List.splitOnP_ne_nil p xs)
      rw [hs] at h
      simp only [List.modifyHead_cons] at h
      cases b with
      | nil =>
        -- single piece
        cases done with
        | nil =>
          simp only [List.nil_append, List.cons.injEq, and_true] at h
          rw [ih [] a (by rw [hs]; rfl)]
          simp [← h]
        | cons d ds =>
          have := congrArg List.length h
          simp at this
      | cons b1 bs =>
        cases done with
        | nil =>
          have := congrArg List.length h
          simp at this
        | cons d ds =>
          simp only [List.cons_append, List.cons.injEq] at h
          rw [ih (a :: ds) cur (by rw [hs, h.2]; rfl)]
          simp [← h.1]

theorem splitOnP_snoc_pos (p : Nat → Bool) (xs : Bytes) (c : Nat) (hc : p c = true) :
    (xs ++ [c]).splitOnP p = xs.splitOnP p ++ [[]] := by
  rw [List.splitOnP_append_cons xs [] hc, List.splitOnP_nil]

/-- state of the scan after the first `k` characters, none of which was the last one -/
def ScanInv (hay chars : Bytes) (ws : Bool) (k : Nat) (st : Nat × List Bytes) : Prop :=
  st.1 ≤ k ∧ ∃ done : List Bytes,
    st.2 = (if ws then done.map trimTok else done) ∧
    (hay.take k).splitOnP (fun c => chars.contains c) = done ++ [slice hay st.1 k]

theorem scan_step (hay chars : Bytes) (ws : Bool) (k : Nat) (hk : k + 1 < hay.length) (st : Nat × List Bytes)
    (inv : ScanInv hay chars ws k st) : ScanInv hay chars ws (k + 1) (splitStep hay chars ws st k) := by
  obtain ⟨h1, done, h2, h3⟩ := inv
  obtain ⟨sp, toks⟩ := st
  simp only at h1 h2 h3
  have hlast : ¬ (k + 1 = hay.length) := by omega
  unfold splitStep
  simp only [hlast, or_false, and_false, if_false]
  by_cases hs : chars.contains (hay.getD k 0) = true
  · rw [if_pos hs]
    refine ⟨Nat.le_refl _, done ++ [slice hay sp k], ?_, ?_⟩
    · show toks ++ [token hay ws sp k] = _
      rw [token_eq hay ws sp k h1 (by omega), h2]
      cases ws <;> simp
    · show (hay.take (k + 1)).splitOnP _ = _
      rw [take_snoc hay k (by omega), splitOnP_snoc_pos _ _ _ hs, h3, slice_self]
  · rw [if_neg hs]
    refine ⟨by show sp ≤ k + 1; omega, done, h2, ?_⟩
    show (hay.take (k + 1)).splitOnP _ = _
    have hs' : chars.contains (hay.getD k 0) = false := by simpa using hs
    rw [take_snoc hay k (by omega), splitOnP_snoc_neg _ _ _ hs' done _ h3, slice_snoc hay sp k h1 (by omega)]

theorem scan_prefix (hay chars : Bytes) (ws : Bool) :
    ∀ k, k < hay.length → ScanInv hay chars ws k ((List.range k).foldl (splitStep hay chars ws) (0, [])) := by
  intro k
  induction k with
  | zero =>
    intro _
    refine ⟨Nat.le_refl _, [], by cases ws <;> rfl, ?_⟩
    simp [slice_self, List.splitOnP_nil]
  | succ k ih =>
    intro hk
    rw [List.range_succ, List.foldl_append]
    exact scan_step hay chars ws k hk _ (ih (by omega))

/-- **`iwpool_split_string` yields the reference split** for every string, separator set and trimming flag -/
theorem splitTokens_eq_ref (hay chars : Bytes) (ws : Bool) : splitTokens hay chars ws = refSplit hay chars ws := by
  unfold splitTokens refSplit
  cases hn : hay.length with
  | zero =>
    have : hay = [] := List.eq_nil_of_length_eq_zero hn
    subst this
    cases ws <;> simp [List.splitOnP_nil]
  | succ k =>
    rw [List.range_succ, List.foldl_append]
    obtain ⟨h1, done, h2, h3⟩ := scan_prefix hay chars ws k (by omega)
    generalize (List.range k).foldl (splitStep hay chars ws) (0, []) = st at h1 h2 h3
    obtain ⟨sp, toks⟩ := st
    simp only at h1 h2 h3
    have hfull : hay = hay.take k ++ [hay.getD k 0] := by
      have := take_snoc hay k (by omega)
      rw [← hn, List.take_length] at this
      exact this
    simp only [List.foldl_cons, List.foldl_nil]
    unfold splitStep
    have hlast : k + 1 = hay.length := by omega
    simp only [hlast, or_true, if_true, and_true]
    by_cases hs : chars.contains (hay.getD k 0) = true
    · -- the last character is a separator: it closes the token, nothing follows
      have hne : ¬ ¬ chars.contains (hay.getD k 0) = true := by simpa using hs
      rw [if_neg hne]
      show toks ++ [token hay ws sp k] = _
      rw [token_eq hay ws sp k h1 (by omega), h2]
      have hsplit : hay.splitOnP (fun c => chars.contains c) = (done ++ [slice hay sp k]) ++ [[]] := by
        conv => lhs; rw [hfull]
        rw [splitOnP_snoc_pos _ _ _ hs, h3]
      rw [hsplit]
      simp only [List.getLast?_append, List.getLast?_singleton, Option.some_or, if_true, List.dropLast_concat]
      cases ws <;> simp
    · have hs' : chars.contains (hay.getD k 0) = false := by simpa using hs
      rw [if_pos hs]
      show toks ++ [token hay ws sp hay.length] = _
      rw [← hlast]
      rw [token_eq hay ws sp (k + 1) (by omega) (by omega), h2, slice_snoc hay sp k h1 (by omega)]
      have hsplit : hay.splitOnP (fun c => chars.contains c) = done ++ [slice hay sp k ++ [hay.getD k 0]] := by
        conv => lhs; rw [hfull]
        rw [splitOnP_snoc_neg _ _ _ hs' done _ h3]
      rw [hsplit]
      have hl : (done ++ [slice hay sp k ++ [hay.getD k 0]]).getLast? ≠ some [] := by
        simp
      rw [if_neg hl]
      cases ws <;> simp

end IwModel.Pool
