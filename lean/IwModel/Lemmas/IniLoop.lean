import IwModel.Lemmas.IniLine
/-! The loops of `iwini_parse_stream` / `iwini_parse_string` (reader included) against the reference. -/
namespace IwModel.Ini
open IwModel.CStr

theorem wrAll_app (X E f : Bytes) (hf : f.length ≤ E.length) :
    wrAll (X ++ E) X.length f = some (X ++ f ++ E.drop f.length) := by
  induction f generalizing X E with
  | nil => simp [wrAll]
  | cons c t ih =>
    obtain ⟨e, E', rfl⟩ : ∃ e E', E = e :: E' := by
      cases E with
      | nil => simp at hf
      | cons e E' => exact ⟨e, E', rfl⟩
    simp only [wrAll, wr_at]
    have := ih (X ++ [c]) E' (by simpa using hf)
    simp only [List.length_append, List.length_singleton] at this
    rw [show X ++ c :: E' = (X ++ [c]) ++ E' by simp, this]; simp

theorem fill_app (line f : Bytes) (hf : f.length < line.length) :
    fill line f = some (f ++ 0 :: line.drop (f.length + 1)) := by
  unfold fill
  have := wrAll_app [] line f (by omega)
  simp only [List.nil_append, List.length_nil] at this
  rw [this]; simp only []
  obtain ⟨e, E', he⟩ : ∃ e E', line.drop f.length = e :: E' := by
    cases hd : line.drop f.length with
    | nil => have := congrArg List.length hd; simp at this; omega
    | cons e E' => exact ⟨e, E', rfl⟩
  have hd1 : line.drop (f.length + 1) = E' := by
    rw [← List.drop_drop, he]; rfl
  rw [he, hd1]
  exact wr_at f E' e 0

/-- a memory block with a NUL somewhere is a string followed by its terminator and the rest -/
theorem cstr_split (f R : Bytes) : ∃ P, f ++ 0 :: R = f.takeWhile (· ≠ 0) ++ 0 :: P ∧
    (f.takeWhile (· ≠ 0)).length + P.length = f.length + R.length := by
  induction f with
  | nil => exact ⟨R, by simp, by simp⟩
  | cons c t ih =>
    by_cases hc : c = 0
    · subst hc; exact ⟨t ++ 0 :: R, by simp, by simp; omega⟩
    · obtain ⟨P, hP, hl⟩ := ih
      have htw : List.takeWhile (· ≠ 0) (c :: t) = c :: List.takeWhile (· ≠ 0) t := by
        simp [List.takeWhile_cons, hc]
      refine ⟨P, ?_, ?_⟩
      · rw [htw, List.cons_append, hP]; rfl
      · rw [htw]; simp only [List.length_cons]; omega

theorem takeWhile_nz (f : Bytes) : 0 ∉ f.takeWhile (· ≠ 0) := by
  induction f with
  | nil => simp
  | cons c t ih =>
    by_cases hc : c = 0
    · simp [List.takeWhile_cons, hc]
    · rw [show List.takeWhile (· ≠ 0) (c :: t) = c :: List.takeWhile (· ≠ 0) t by simp [List.takeWhile_cons, hc]]
      intro hm
      rcases List.mem_cons.mp hm with e | hm
      · exact hc e.symm
      · exact ih hm

theorem takeWhile_id (f : Bytes) (h : 0 ∉ f) : f.takeWhile (· ≠ 0) = f := by
  induction f with
  | nil => simp
  | cons c t ih =>
    obtain ⟨hc, ht⟩ := not_mem_cons h
    rw [show List.takeWhile (· ≠ 0) (c :: t) = c :: List.takeWhile (· ≠ 0) t by simp [List.takeWhile_cons, hc], ih ht]

/-- one round of the loop: fill, then the body -/
theorem round_spec (cfg : Cfg) (ok : CfgOk cfg) (h : Handler) (st : St) (a : Abs) (f R : Bytes) (hr : Rep cfg st a)
    (hlen : (f ++ 0 :: R).length = cfg.maxLine) :
    ∃ st', processLine cfg h { st with line := f ++ 0 :: R } = some st' ∧
      Rep cfg st' (refLine cfg h a (f.takeWhile (· ≠ 0))) := by
  obtain ⟨P, hP, hPl⟩ := cstr_split f R
  have hr' : Rep cfg { st with line := f ++ 0 :: R } a :=
    { line_len := hlen, sec_eq := hr.sec_eq, sec_len := hr.sec_len, sec_nz := hr.sec_nz, prev_eq := hr.prev_eq,
      prev_len := hr.prev_len, prev_nz := hr.prev_nz, lineno := hr.lineno, error := hr.error, events := hr.events }
  exact processLine_spec cfg ok h _ a _ P hr' hP (takeWhile_nz f)

theorem parseStream_spec (cfg : Cfg) (ok : CfgOk cfg) (h : Handler) (st : St) (a : Abs) (fs : List Bytes) (hr : Rep cfg st a)
    (hfs : ∀ f ∈ fs, f.length < cfg.readerNum) :
    ∃ st', parseStream cfg h st fs = some st' ∧
      Rep cfg st' (refLines cfg h a (fs.map fun f => f.takeWhile (· ≠ 0))) := by
  induction fs generalizing st a with
  | nil => exact ⟨st, rfl, hr⟩
  | cons f fs ih =>
    have hf : f.length < st.line.length := by
      have := hfs f (by simp); have := ok.num_le; rw [hr.line_len]; omega
    simp only [parseStream, fill_app st.line f hf, List.map_cons, refLines]
    obtain ⟨st1, h1, hr1⟩ := round_spec cfg ok h st a f (st.line.drop (f.length + 1)) hr
      (by have := hr.line_len; simp only [List.length_append, List.length_cons, List.length_drop]; omega)
    rw [h1]; simp only []
    by_cases hstop : cfg.stopFirst = true ∧ st1.error ≠ 0
    · rw [if_pos hstop, if_pos (by rw [← hr1.error]; exact hstop)]
      exact ⟨st1, rfl, hr1⟩
    · rw [if_neg hstop, if_neg (by rw [← hr1.error]; exact hstop)]
      exact ih st1 _ hr1 (fun f hf => hfs f (by simp [hf]))

theorem initSt_rep (cfg : Cfg) (ok : CfgOk cfg) (junk : Bytes) (hj : junk.length = cfg.maxLine) :
    Rep cfg (initSt cfg junk) Abs.init := by
  have h1 := ok.sec_pos
  have h2 := ok.name_pos
  exact { line_len := hj
          sec_eq := ⟨List.replicate (cfg.maxSection - 1) 0, by
            simp only [initSt, Abs.init, List.nil_append, ← List.replicate_succ]; congr 1; omega⟩
          sec_len := by simp [initSt]
          sec_nz := by simp [Abs.init]
          prev_eq := ⟨List.replicate (cfg.maxName - 1) 0, by
            simp only [initSt, Abs.init, List.nil_append, ← List.replicate_succ]; congr 1; omega⟩
          prev_len := by simp [initSt]
          prev_nz := by simp [Abs.init]
          lineno := rfl, error := rfl, events := rfl }

/-! ### `ini_reader_string` -/

theorem takeLine_length_le (n : Nat) (s : Bytes) : (takeLine n s).length ≤ n := by
  induction s generalizing n with
  | nil => simp [takeLine]
  | cons c t ih =>
    cases n with
    | zero => simp [takeLine]
    | succ n => simp only [takeLine]; split <;> simp; exact ih n

theorem takeLine_prefix (n : Nat) (s : Bytes) : s = takeLine n s ++ s.drop (takeLine n s).length := by
  induction s generalizing n with
  | nil => simp [takeLine]
  | cons c t ih =>
    cases n with
    | zero => simp [takeLine]
    | succ n =>
      simp only [takeLine]; split
      · simp
      · simp only [List.cons_append, List.length_cons, List.drop_succ_cons]; congr 1; exact ih n

theorem takeLine_pos (n : Nat) (c : Nat) (t : Bytes) : 1 ≤ (takeLine (n + 1) (c :: t)).length := by
  simp only [takeLine]; split <;> simp

theorem readLoop_app (T s R L E : Bytes) (num : Nat) (hE : (takeLine (num - 1) s).length ≤ E.length) :
    readLoop (T ++ s ++ R) (L ++ E) T.length s.length num L.length =
      some (L ++ takeLine (num - 1) s ++ E.drop (takeLine (num - 1) s).length, T.length + (takeLine (num - 1) s).length,
            s.length - (takeLine (num - 1) s).length, L.length + (takeLine (num - 1) s).length) := by
  induction s generalizing T L E num with
  | nil => simp [readLoop, takeLine]
  | cons c t ih =>
    simp only [List.length_cons, readLoop]
    by_cases hn : 1 < num
    · obtain ⟨n, rfl⟩ : ∃ n, num = n + 2 := ⟨num - 2, by omega⟩
      simp only [show n + 2 - 1 = n + 1 by omega, takeLine] at hE ⊢
      rw [if_pos hn, show (T ++ c :: t ++ R)[T.length]? = some c by simp]
      simp only []
      obtain ⟨e, E', rfl⟩ : ∃ e E', E = e :: E' := by
        cases E with
        | nil => split at hE <;> simp at hE
        | cons e E' => exact ⟨e, E', rfl⟩
      rw [wr_at]; simp only []
      by_cases hc : c = 10
      · simp [hc]
      · simp only [if_neg hc] at hE ⊢
        have := ih (T ++ [c]) (L ++ [c]) E' (n + 1) (by simpa using hE)
        simp only [List.length_append, List.length_singleton, show n + 1 - 1 = n by omega] at this
        rw [show T ++ c :: t ++ R = (T ++ [c]) ++ t ++ R by simp, show L ++ c :: E' = (L ++ [c]) ++ E' by simp, this]
        simp; omega
    · rw [if_neg hn]
      have : num - 1 = 0 := by omega
      simp [this, takeLine]

theorem readerString_app (T s R line : Bytes) (num : Nat) (hs : s ≠ []) (hn : 2 ≤ num) (hl : num ≤ line.length) :
    readerString (T ++ s ++ R) line T.length s.length num =
      some (some (takeLine (num - 1) s ++ 0 :: line.drop ((takeLine (num - 1) s).length + 1),
                  T.length + (takeLine (num - 1) s).length, s.length - (takeLine (num - 1) s).length)) := by
  unfold readerString
  have hs0 : s.length ≠ 0 := fun e => hs (List.eq_nil_of_length_eq_zero e)
  rw [if_neg (by omega)]
  have hle := takeLine_length_le (num - 1) s
  have := readLoop_app T s R [] line num (by omega)
  simp only [List.nil_append, List.length_nil, Nat.zero_add] at this
  rw [this]; simp only []
  generalize takeLine (num - 1) s = l at hle
  obtain ⟨e, E', he⟩ : ∃ e E', line.drop l.length = e :: E' := by
    cases hd : line.drop l.length with
    | nil => have := congrArg List.length hd; simp at this; omega
    | cons e E' => exact ⟨e, E', rfl⟩
  have hd1 : line.drop (l.length + 1) = E' := by
    rw [← List.drop_drop, he]; rfl
  rw [he, hd1, wr_at]

theorem chunks_nil (num : Nat) (s : Bytes) (h : s = [] ∨ num < 2) : chunks num s = [] := by
  rw [chunks]; simp [h]

theorem chunks_cons (num : Nat) (s : Bytes) (h : ¬ (s = [] ∨ num < 2)) :
    chunks num s = takeLine (num - 1) s :: chunks num (s.drop (takeLine (num - 1) s).length) := by
  rw [chunks]; simp [h]

theorem parseStringLoop_spec (cfg : Cfg) (ok : CfgOk cfg) (h : Handler) (R : Bytes) (fuel : Nat) (st : St) (a : Abs)
    (T s : Bytes) (hr : Rep cfg st a) (hfuel : s.length < fuel) (hz : 0 ∉ s) :
    ∃ st', parseStringLoop cfg h (T ++ s ++ R) fuel st T.length s.length = some (some st') ∧
      Rep cfg st' (refLines cfg h a (chunks cfg.readerNum s)) := by
  induction fuel generalizing st a T s with
  | zero => omega
  | succ fuel ih =>
    unfold parseStringLoop
    by_cases hstop : s = [] ∨ cfg.readerNum < 2
    · have : readerString (T ++ s ++ R) st.line T.length s.length cfg.readerNum = some none := by
        unfold readerString
        have hc : s.length = 0 ∨ cfg.readerNum < 2 := by
          rcases hstop with e | e
          · left; simp [e]
          · right; exact e
        rw [if_pos hc]
      rw [this, chunks_nil _ _ hstop]
      exact ⟨st, rfl, hr⟩
    · have hs : s ≠ [] := fun e => hstop (Or.inl e)
      have hn : 2 ≤ cfg.readerNum := by
        have : ¬ cfg.readerNum < 2 := fun e => hstop (Or.inr e)
        omega
      rw [readerString_app T s R st.line cfg.readerNum hs hn (by rw [hr.line_len]; exact ok.num_le)]
      simp only []
      rw [chunks_cons _ _ hstop]
      have hle := takeLine_length_le (cfg.readerNum - 1) s
      have hpre := takeLine_prefix (cfg.readerNum - 1) s
      have hpos : 1 ≤ (takeLine (cfg.readerNum - 1) s).length := by
        obtain ⟨c, t, rfl⟩ : ∃ c t, s = c :: t := by
          cases s with
          | nil => exact absurd rfl hs
          | cons c t => exact ⟨c, t, rfl⟩
        obtain ⟨m, hm⟩ : ∃ m, cfg.readerNum - 1 = m + 1 := ⟨cfg.readerNum - 2, by omega⟩
        rw [hm]; exact takeLine_pos m c t
      generalize takeLine (cfg.readerNum - 1) s = l at hle hpre hpos
      have hls : l.length ≤ s.length := by
        have := congrArg List.length hpre
        simp only [List.length_append, List.length_drop] at this; omega
      have hzl : 0 ∉ l := fun hm => hz (by rw [hpre]; simp [hm])
      have hzs : 0 ∉ s.drop l.length := drop_not_mem s _ hz
      obtain ⟨st1, h1, hr1⟩ := round_spec cfg ok h st a l (st.line.drop (l.length + 1)) hr
        (by have := hr.line_len; have := ok.num_le
            simp only [List.length_append, List.length_cons, List.length_drop]; omega)
      rw [takeWhile_id l hzl] at hr1
      rw [h1]; simp only [refLines]
      by_cases hst : cfg.stopFirst = true ∧ st1.error ≠ 0
      · rw [if_pos hst, if_pos (by rw [← hr1.error]; exact hst)]
        exact ⟨st1, rfl, hr1⟩
      · rw [if_neg hst, if_neg (by rw [← hr1.error]; exact hst)]
        have hlen : (s.drop l.length).length = s.length - l.length := by simp
        have := ih st1 _ (T ++ l) (s.drop l.length) hr1 (by rw [hlen]; omega) hzs
        rw [List.length_append, hlen] at this
        rw [show T ++ l ++ s.drop l.length ++ R = T ++ s ++ R by
          conv => rhs; rw [hpre]
          simp] at this
        exact this

theorem parseFills_spec (cfg : Cfg) (ok : CfgOk cfg) (h : Handler) (junk : Bytes) (fills : List Bytes)
    (hj : junk.length = cfg.maxLine) (hf : ∀ f ∈ fills, f.length < cfg.readerNum) :
    parseFills cfg h junk fills =
      .ok (refLines cfg h Abs.init (fills.map fun f => f.takeWhile (· ≠ 0))).error
          (refLines cfg h Abs.init (fills.map fun f => f.takeWhile (· ≠ 0))).events := by
  obtain ⟨st', hs, hr⟩ := parseStream_spec cfg ok h _ _ fills (initSt_rep cfg ok junk hj) hf
  unfold parseFills; rw [hs]; simp only [hr.error, hr.events]

theorem parseString_spec (cfg : Cfg) (ok : CfgOk cfg) (h : Handler) (junk s R : Bytes)
    (hj : junk.length = cfg.maxLine) (hz : 0 ∉ s) :
    parseString cfg h junk (s ++ 0 :: R) =
      .ok (refLines cfg h Abs.init (chunks cfg.readerNum s)).error (refLines cfg h Abs.init (chunks cfg.readerNum s)).events := by
  have hse := strEnd_app [] s R hz
  simp only [List.nil_append, List.length_nil, Nat.zero_add] at hse
  obtain ⟨st', hs, hr⟩ := parseStringLoop_spec cfg ok h (0 :: R) (s.length + 1) _ _ [] s (initSt_rep cfg ok junk hj)
    (by omega) hz
  simp only [List.nil_append, List.length_nil] at hs
  unfold parseString; rw [hse]; simp only []; rw [hs]; simp only [hr.error, hr.events]

theorem takeLine_line (n : Nat) (l rest : Bytes) (hnl : 10 ∉ l) (hlen : l.length + 1 ≤ n) :
    takeLine n (l ++ [10] ++ rest) = l ++ [10] := by
  induction l generalizing n with
  | nil =>
    obtain ⟨m, rfl⟩ : ∃ m, n = m + 1 := ⟨n - 1, by simp at hlen; omega⟩
    simp [takeLine]
  | cons c t ih =>
    obtain ⟨m, rfl⟩ : ∃ m, n = m + 1 := ⟨n - 1, by simp at hlen; omega⟩
    have hc : c ≠ 10 := fun e => hnl (by simp [e])
    have ht : 10 ∉ t := fun e => hnl (by simp [e])
    simp only [List.cons_append, takeLine, if_neg hc]
    congr 1
    exact ih m ht (by simp at hlen; omega)

/-- lines that fit are delivered one by one -/
theorem chunks_lines (num : Nat) (ls : List Bytes) (hnl : ∀ l ∈ ls, 10 ∉ l) (hlen : ∀ l ∈ ls, l.length + 2 ≤ num) :
    chunks num (ls.flatMap (· ++ [10])) = ls.map (· ++ [10]) := by
  induction ls with
  | nil => simp only [List.flatMap_nil, List.map_nil]; exact chunks_nil _ _ (Or.inl rfl)
  | cons l ls ih =>
    have h2 := hlen l (by simp)
    have hne : ¬ ((l :: ls).flatMap (· ++ [10]) = [] ∨ num < 2) := by
      intro h; rcases h with h | h
      · simp at h
      · omega
    rw [chunks_cons _ _ hne]
    have htl : takeLine (num - 1) ((l :: ls).flatMap (· ++ [10])) = l ++ [10] := by
      simp only [List.flatMap_cons]
      exact takeLine_line (num - 1) l _ (hnl l (by simp)) (by omega)
    rw [htl]
    simp only [List.flatMap_cons, List.map_cons]
    congr 1
    rw [List.drop_left]
    exact ih (fun l' h' => hnl l' (by simp [h'])) (fun l' h' => hlen l' (by simp [h']))

theorem chunks_length_lt (num : Nat) (s : Bytes) : ∀ c ∈ chunks num s, c.length < num := by
  induction hn : s.length using Nat.strongRecOn generalizing s with
  | _ n ih =>
    by_cases hstop : s = [] ∨ num < 2
    · rw [chunks_nil _ _ hstop]; simp
    · rw [chunks_cons _ _ hstop]
      have hle := takeLine_length_le (num - 1) s
      have hn2 : 2 ≤ num := by
        have : ¬ num < 2 := fun e => hstop (Or.inr e)
        omega
      intro c hc
      rcases List.mem_cons.mp hc with e | hc
      · subst e; omega
      · have hpos : 1 ≤ (takeLine (num - 1) s).length := by
          obtain ⟨c0, t, rfl⟩ : ∃ c0 t, s = c0 :: t := by
            cases s with
            | nil => exact absurd (Or.inl rfl) hstop
            | cons c0 t => exact ⟨c0, t, rfl⟩
          obtain ⟨m, hm⟩ : ∃ m, num - 1 = m + 1 := ⟨num - 2, by omega⟩
          rw [hm]; exact takeLine_pos m c0 t
        have hs0 : s.length ≠ 0 := fun e => hstop (Or.inl (List.eq_nil_of_length_eq_zero e))
        exact ih (s.drop (takeLine (num - 1) s).length).length
          (by subst hn; simp only [List.length_drop]; omega) _ rfl c hc

theorem parseFile_spec (cfg : Cfg) (ok : CfgOk cfg) (h : Handler) (junk content : Bytes) (hj : junk.length = cfg.maxLine) :
    parseFile cfg h junk content =
      .ok (refLines cfg h Abs.init ((chunks cfg.readerNum content).map fun f => f.takeWhile (· ≠ 0))).error
          (refLines cfg h Abs.init ((chunks cfg.readerNum content).map fun f => f.takeWhile (· ≠ 0))).events :=
  parseFills_spec cfg ok h junk _ hj (chunks_length_lt cfg.readerNum content)

end IwModel.Ini
