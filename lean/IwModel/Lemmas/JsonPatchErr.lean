import IwModel.Lemmas.JsonPatchEq
/-! Converse refinement for C15: what RFC 6902 rejects, the model rejects (given that `-` is only used where RFC 6901
allows it — open finding C15-dash-last — and `/` is not used as a path — C15-slash-root). -/
namespace IwModel.Patch
open IwModel

theorem childIdx_arr_none (xs : List (Int × Node)) (k : Bytes) (hn : NumFrom 0 xs) (hi : IdxAgree k)
    (hd : k ≠ dash) (ha : Rfc.arrayIndex k = none ∨ ∃ i, Rfc.arrayIndex k = some i ∧ xs.length ≤ i) :
    childIdx (.arr xs) k = none := by
  have hdb : (k == dash) = false := by simpa using hd
  simp only [childIdx, hdb, Bool.false_eq_true, ↓reduceIte]
  rw [hi]
  rcases ha with ha | ⟨i, ha, hle⟩
  · rw [ha]
  · rw [ha]
    simp only
    have := numFrom_findIdx 0 xs hn i
    simp only [Int.zero_add] at this
    rw [this]
    simp; omega

/-- RFC 6901 evaluation fails ⇒ `_jbl_node_find` finds nothing -/
theorem locate_none_of_getAt (t : Node) (p : Ptr) (h : WF t) (hi : ∀ s ∈ p, IdxAgree s) (hd : dash ∉ p)
    (hg : Rfc.getAt (erase t) p = none) : locate t p = none := by
  induction p generalizing t with
  | nil => simp [Rfc.getAt] at hg
  | cons k r ih =>
    have hir : ∀ s ∈ r, IdxAgree s := fun s hs => hi s (by simp [hs])
    have hdr : dash ∉ r := fun hm => hd (by simp [hm])
    have hk : k ≠ dash := fun e => hd (by simp [e])
    cases t with
    | obj ms =>
      simp only [erase_obj, Rfc.getAt] at hg
      split at hg
      · rename_i c' hl
        obtain ⟨i, p, h1, h2, _, h4⟩ := lookup_eraseMs ms k c' hl
        have hc : child? (.obj ms) i = some p.2 := by simp [child?, h2]
        have := ih p.2 (wf_child _ i _ h hc) hir hdr (by rw [h4]; exact hg)
        simp only [locate, childIdx, h1, hc, this, Option.map_none]
      · rename_i hl
        have := lookup_eraseMs_none ms k hl
        simp only [locate, childIdx, this]
    | arr xs =>
      obtain ⟨hn, _⟩ := (wf_arr_iff xs).mp h
      simp only [erase_arr, Rfc.getAt] at hg
      split at hg
      · rename_i i ha
        split at hg
        · rename_i c' hx
          obtain ⟨p, h2, h4⟩ := eraseXs_getElem? xs i c' hx
          have hlt : i < xs.length := by
            rcases Nat.lt_or_ge i xs.length with h | h
            · exact h
            · simp [List.getElem?_eq_none h] at h2
          have hci : childIdx (.arr xs) k = some i := by
            rw [childIdx_arr_idx xs k i hn (hi k (by simp)) ha]; simp [hlt]
          have hc : child? (.arr xs) i = some p.2 := by simp [child?, h2]
          have := ih p.2 (wf_child _ i _ h hc) hir hdr (by rw [h4]; exact hg)
          simp only [locate, hci, hc, this, Option.map_none]
        · rename_i hx
          have hle : xs.length ≤ i := by
            rcases Nat.lt_or_ge i xs.length with hlt | hge
            · exfalso
              have : (eraseXs xs)[i]? = some (erase (xs[i]).2) := by simp [eraseXs, hlt]
              rw [this] at hx; cases hx
            · exact hge
          have := childIdx_arr_none xs k hn (hi k (by simp)) hk (Or.inr ⟨i, ha, hle⟩)
          simp only [locate, this]
      · rename_i ha
        have := childIdx_arr_none xs k hn (hi k (by simp)) hk (Or.inl ha)
        simp only [locate, this]
    | none => simp [locate, childIdx]
    | null => simp [locate, childIdx]
    | bool b => simp [locate, childIdx]
    | int b => simp [locate, childIdx]
    | f64 b => simp [locate, childIdx]
    | str b => simp [locate, childIdx]

theorem find_none_of_getAt (t : Node) (p : Ptr) (h : WF t) (hi : ∀ s ∈ p, IdxAgree s) (hd : dash ∉ p)
    (hg : Rfc.getAt (erase t) p = none) : find t p = none := by
  simp [find, locate_none_of_getAt t p h hi hd hg]

/-- `updAt` fails ⇒ the location is missing, or it exists and the rewriting function failed on it -/
theorem updAt_none (doc : JVal) (p : Rfc.Ptr) (f : JVal → Option JVal) (hu : Rfc.updAt doc p f = none) :
    Rfc.getAt doc p = none ∨ ∃ x, Rfc.getAt doc p = some x ∧ f x = none := by
  induction p generalizing doc with
  | nil => exact Or.inr ⟨doc, rfl, hu⟩
  | cons k r ih =>
    cases doc with
    | obj ms =>
      simp only [Rfc.updAt] at hu
      simp only [Rfc.getAt]
      split at hu
      · rename_i c hl
        simp only [Option.map_eq_none_iff] at hu
        exact ih c hu
      · rename_i hl
        left; rfl
    | arr xs =>
      simp only [Rfc.updAt] at hu
      simp only [Rfc.getAt]
      split at hu
      · rename_i i ha
        split at hu
        · rename_i c hx
          simp only [Option.map_eq_none_iff] at hu
          exact ih c hu
        · left; rfl
      · left; rfl
    | _ => left; simp [Rfc.getAt]

end IwModel.Patch

namespace IwModel.Patch
open IwModel

theorem insertPlain_err (n : Node) (last : Bytes) (op : OpK) (v : Node) (h : WF n)
    (hop : (op == OpK.increment) = false) (hi : IdxAgree last)
    (ha : Rfc.addChild (erase n) last (erase v) = none) : (insertPlain n last op v).2 ≠ .ok := by
  cases n with
  | obj ms => simp [Rfc.addChild] at ha
  | arr xs =>
    simp only [erase_arr, Rfc.addChild] at ha
    simp only [insertPlain, hop, Bool.false_eq_true, ↓reduceIte]
    by_cases hd : last == dash
    · have hd' : (last == Rfc.dash) = true := hd
      simp [hd'] at ha
    · have hd' : (last == Rfc.dash) = false := by
        have := hd; rw [dash_eq] at this; simpa using this
      simp only [hd', Bool.false_eq_true, ↓reduceIte] at ha
      simp only [hd, Bool.false_eq_true, ↓reduceIte]
      rw [hi]
      split at ha
      · rename_i i hai
        rw [hai]
        split at ha
        · cases ha
        · rename_i hle
          rw [eraseXs_length] at hle
          have : i > xs.length := by omega
          simp [this]
      · rename_i hai
        rw [hai]; simp
  | none => simp [insertPlain]
  | null => simp [insertPlain]
  | bool b => simp [insertPlain]
  | int b => simp [insertPlain]
  | f64 b => simp [insertPlain]
  | str b => simp [insertPlain]

/-- RFC `add` at a non-root location fails ⇒ so does the common tail of `_jbl_target_apply_patch` -/
theorem place_err_of_add (t : Node) (op : OpK) (path : Ptr) (v : Node) (h : WF t)
    (hop : (op == OpK.increment) = false) (hoc : (op == OpK.addCreate) = false) (hne : path ≠ [])
    (hi : ∀ s ∈ path, IdxAgree s) (hd : dash ∉ path.dropLast)
    (ha : Rfc.add (erase t) path (erase v) = none) : (place t op path v).2 ≠ .ok := by
  simp only [Rfc.add] at ha
  split at ha
  · cases ha
  · rename_i last hl
    have hmem : ∀ s ∈ path.dropLast, IdxAgree s := fun s hs => hi s (List.dropLast_subset _ hs)
    have hlast : IdxAgree last := hi last (List.mem_of_getLast? hl)
    rcases updAt_none _ _ _ ha with hg | ⟨x, hg, hf⟩
    · have := locate_none_of_getAt t path.dropLast h hmem hd hg
      simp [place, hl, this, hoc]
    · obtain ⟨ps, n, g1, g2, g3⟩ := locate_of_getAt t path.dropLast x h hmem hg
      have hn : WF n := wf_getP t ps n h g2
      rw [← g3] at hf
      have := insertPlain_err n last op v hn hop hlast hf
      simp only [place, hl, g1, g2]
      exact this

theorem removeChild_none (n : Node) (last : Bytes) (h : WF n) (hi : IdxAgree last) (hd : last ≠ dash)
    (hr : Rfc.removeChild (erase n) last = none) : childIdx n last = none := by
  cases n with
  | obj ms =>
    simp only [erase_obj, Rfc.removeChild] at hr
    split at hr
    · cases hr
    · rename_i hs
      have : (eraseMs ms).lookup last = none := by
        cases hx : (eraseMs ms).lookup last with
        | none => rfl
        | some c => simp [hx] at hs
      simpa [childIdx] using lookup_eraseMs_none ms last this
  | arr xs =>
    obtain ⟨hn, _⟩ := (wf_arr_iff xs).mp h
    simp only [erase_arr, Rfc.removeChild] at hr
    split at hr
    · rename_i i hai
      split at hr
      · cases hr
      · rename_i hlt
        rw [eraseXs_length] at hlt
        exact childIdx_arr_none xs last hn hi hd (Or.inr ⟨i, hai, by omega⟩)
    · rename_i hai
      exact childIdx_arr_none xs last hn hi hd (Or.inl hai)
  | none => rfl
  | null => rfl
  | bool b => rfl
  | int b => rfl
  | f64 b => rfl
  | str b => rfl

theorem detach_none_of_removeAt (t : Node) (path : Ptr) (h : WF t) (hi : ∀ s ∈ path, IdxAgree s) (hd : dash ∉ path)
    (hr : Rfc.removeAt (erase t) path = none) : detach t path = none := by
  simp only [Rfc.removeAt] at hr
  split at hr
  · rename_i hl
    simp [detach, hl]
  · rename_i last hl
    have hmem : ∀ s ∈ path.dropLast, IdxAgree s := fun s hs => hi s (List.dropLast_subset _ hs)
    have hlast : IdxAgree last := hi last (List.mem_of_getLast? hl)
    have hdl : last ≠ dash := fun e => hd (e ▸ List.mem_of_getLast? hl)
    have hdd : dash ∉ path.dropLast := fun hm => hd (List.dropLast_subset _ hm)
    rcases updAt_none _ _ _ hr with hg | ⟨x, hg, hf⟩
    · have := locate_none_of_getAt t path.dropLast h hmem hdd hg
      simp [detach, hl, this]
    · obtain ⟨ps, n, g1, g2, g3⟩ := locate_of_getAt t path.dropLast x h hmem hg
      have hn : WF n := wf_getP t ps n h g2
      rw [← g3] at hf
      have := removeChild_none n last hn hlast hdl hf
      simp [detach, hl, g1, g2, this]

theorem updAt_none_of_getAt_none (doc : JVal) (p : Rfc.Ptr) (f : JVal → Option JVal)
    (hg : Rfc.getAt doc p = none) : Rfc.updAt doc p f = none := by
  induction p generalizing doc with
  | nil => simp [Rfc.getAt] at hg
  | cons k r ih =>
    cases doc with
    | obj ms =>
      simp only [Rfc.getAt] at hg
      simp only [Rfc.updAt]
      split at hg
      · rename_i c hl; simp [ih c hg]
      · rfl
    | arr xs =>
      simp only [Rfc.getAt] at hg
      simp only [Rfc.updAt]
      split at hg
      · split at hg
        · rename_i c hx; simp [ih c hg]
        · rfl
      · rfl
    | _ => simp [Rfc.updAt]

theorem updAt_none_of_f_none (doc : JVal) (p : Rfc.Ptr) (f : JVal → Option JVal) (x : JVal)
    (hg : Rfc.getAt doc p = some x) (hf : f x = none) : Rfc.updAt doc p f = none := by
  induction p generalizing doc with
  | nil => simp only [Rfc.getAt, Option.some.injEq] at hg; subst hg; simpa [Rfc.updAt] using hf
  | cons k r ih =>
    cases doc with
    | obj ms =>
      simp only [Rfc.getAt] at hg
      simp only [Rfc.updAt]
      split at hg
      · rename_i c hl; simp [ih c hg]
      · cases hg
    | arr xs =>
      simp only [Rfc.getAt] at hg
      simp only [Rfc.updAt]
      split at hg
      · split at hg
        · rename_i c hx; simp [ih c hg]
        · cases hg
      · cases hg
    | _ => simp [Rfc.getAt] at hg

theorem removeChild_none_of_getAt (x : JVal) (last : Bytes) (hg : Rfc.getAt x [last] = none) :
    Rfc.removeChild x last = none := by
  cases x with
  | obj ms =>
    simp only [Rfc.getAt] at hg
    simp only [Rfc.removeChild]
    split at hg
    · cases hg
    · rename_i hl; simp [hl]
  | arr xs =>
    simp only [Rfc.getAt] at hg
    simp only [Rfc.removeChild]
    split at hg
    · rename_i i ha
      split at hg
      · cases hg
      · rename_i hx
        have : ¬ i < xs.length := by
          intro hlt
          simp [List.getElem?_eq_getElem hlt] at hx
        simp [this]
    · rfl
  | _ => rfl

/-- spec level: a location that cannot be evaluated cannot be removed -/
theorem removeAt_none_of_getAt (doc : JVal) (p : Rfc.Ptr) (hg : Rfc.getAt doc p = none) : Rfc.removeAt doc p = none := by
  simp only [Rfc.removeAt]
  split
  · rfl
  · rename_i last hl
    have e := dropLast_append_getLast p last hl
    rw [← e, getAt_append] at hg
    cases hx : Rfc.getAt doc p.dropLast with
    | none => exact updAt_none_of_getAt_none doc _ _ hx
    | some x =>
      rw [hx] at hg
      exact updAt_none_of_f_none doc _ _ x hx (removeChild_none_of_getAt x last hg)

end IwModel.Patch

namespace IwModel.Patch
open IwModel

theorem updAt_some_of (doc : JVal) (p : Rfc.Ptr) (f : JVal → Option JVal) (y z : JVal)
    (hg : Rfc.getAt doc p = some y) (hf : f y = some z) : ∃ d, Rfc.updAt doc p f = some d := by
  induction p generalizing doc with
  | nil => simp only [Rfc.getAt, Option.some.injEq] at hg; subst hg; exact ⟨z, by simpa [Rfc.updAt] using hf⟩
  | cons k r ih =>
    cases doc with
    | obj ms =>
      simp only [Rfc.getAt] at hg
      simp only [Rfc.updAt]
      split at hg
      · rename_i c hl
        obtain ⟨d, hd⟩ := ih c hg
        exact ⟨_, by rw [hd]; rfl⟩
      · cases hg
    | arr xs =>
      simp only [Rfc.getAt] at hg
      simp only [Rfc.updAt]
      split at hg
      · split at hg
        · rename_i c hx
          obtain ⟨d, hd⟩ := ih c hg
          exact ⟨_, by rw [hd]; rfl⟩
        · cases hg
      · cases hg
    | _ => simp [Rfc.getAt] at hg

/-- spec level: an existing non-root location can be removed -/
theorem removeAt_some_of_getAt (doc : JVal) (p : Rfc.Ptr) (x : JVal) (hne : p ≠ [])
    (hg : Rfc.getAt doc p = some x) : ∃ d, Rfc.removeAt doc p = some d := by
  simp only [Rfc.removeAt]
  split
  · rename_i hl; exact absurd (List.getLast?_eq_none_iff.mp hl) hne
  · rename_i last hl
    have e := dropLast_append_getLast p last hl
    rw [← e, getAt_append] at hg
    cases hx : Rfc.getAt doc p.dropLast with
    | none => rw [hx] at hg; cases hg
    | some y =>
      rw [hx] at hg
      simp only [Option.bind_some] at hg
      have : ∃ z, Rfc.removeChild y last = some z := by
        cases y with
        | obj ms =>
          simp only [Rfc.getAt] at hg
          split at hg
          · rename_i c hl'; exact ⟨.obj (Rfc.remove ms last), by simp [Rfc.removeChild, hl']⟩
          · cases hg
        | arr xs =>
          simp only [Rfc.getAt] at hg
          split at hg
          · rename_i i ha
            split at hg
            · rename_i c hx'
              have hlt : i < xs.length := by
                rcases Nat.lt_or_ge i xs.length with h | h
                · exact h
                · simp [List.getElem?_eq_none h] at hx'
              exact ⟨.arr (xs.eraseIdx i), by simp [Rfc.removeChild, ha, hlt]⟩
            · cases hg
          · cases hg
        | _ => simp [Rfc.getAt] at hg
      obtain ⟨z, hz⟩ := this
      exact updAt_some_of doc _ _ y z hx hz

/-- `-` only where RFC 6901 lets it denote something (the end of an array in an insertion), and no removal of the
    whole document (RFC 6902 does not say what that yields) -/
structure OpStrict (o : Rfc.Op) : Prop where
  fromNoDash : dash ∉ opFrom o
  pathNoDash : dash ∉ (opPath o).dropLast
  lastNoDash : (match o with
    | .remove _ => True | .replace _ _ => True | .test _ _ => True | _ => False) → dash ∉ opPath o
  notRootRemove : isRootRemove o = false

theorem applyOp_err_add (t : Node) (p : Ptr) (v : JVal) (h : WF t) (hok : OpOk (.add p v)) (hst : OpStrict (.add p v))
    (hs : Rfc.step (erase t) (.add p v) = none) : (applyOp t (toPOp (.add p v))).2 ≠ .ok := by
  simp only [Rfc.step] at hs
  have hp : p ≠ [] := by intro e; subst e; simp [Rfc.add] at hs
  have hr := oproot_false p hp hok.noSlash
  rw [← erase_ofJ v] at hs
  have := place_err_of_add t .add p (ofJ v) h (by decide) (by decide) hp hok.idxPath hst.pathNoDash hs
  simp only [applyOp, toPOp, hr]
  simpa [OpK.beq_eq] using this

theorem applyOp_err_remove (t : Node) (p : Ptr) (h : WF t) (hok : OpOk (.remove p)) (hst : OpStrict (.remove p))
    (hs : Rfc.step (erase t) (.remove p) = none) : (applyOp t (toPOp (.remove p))).2 ≠ .ok := by
  simp only [Rfc.step] at hs
  have hr : (p == [] || p == [[]]) = false := hst.notRootRemove
  have := detach_none_of_removeAt t p h hok.idxPath (hst.lastNoDash trivial) hs
  simp only [applyOp, toPOp, hr]
  simp [OpK.beq_eq, this]

theorem applyOp_err_replace (t : Node) (p : Ptr) (v : JVal) (h : WF t) (hok : OpOk (.replace p v))
    (hst : OpStrict (.replace p v)) (hs : Rfc.step (erase t) (.replace p v) = none) :
    (applyOp t (toPOp (.replace p v))).2 ≠ .ok := by
  simp only [Rfc.step] at hs
  have hnd : dash ∉ p := hst.lastNoDash trivial
  split at hs
  · rename_i hg
    have hp : p ≠ [] := by intro e; subst e; simp [Rfc.getAt] at hg
    have hr := oproot_false p hp hok.noSlash
    have := detach_none_of_removeAt t p h hok.idxPath hnd (removeAt_none_of_getAt _ p hg)
    simp only [applyOp, toPOp, hr]
    simp [OpK.beq_eq, this]
  · rename_i w hg
    by_cases hp : p = []
    · subst hp; simp at hs
    · have hpb : (p == []) = false := by simpa using hp
      simp only [hpb, Bool.false_eq_true, ↓reduceIte] at hs
      have hr := oproot_false p hp hok.noSlash
      obtain ⟨d1, hd1⟩ := removeAt_some_of_getAt _ p w hp hg
      rw [hd1] at hs
      simp only [Option.bind_some] at hs
      obtain ⟨t1, w', ps, g1, g2, _⟩ := detach_of_removeAt t p d1 h hok.idxPath hd1
      have ht1 : WF t1 := (wf_detach t p t1 w' ps h g1).1
      rw [← g2, ← erase_ofJ v] at hs
      have := place_err_of_add t1 .replace p (ofJ v) ht1 (by decide) (by decide) hp hok.idxPath hst.pathNoDash hs
      simp only [applyOp, toPOp, hr]
      simpa [OpK.beq_eq, g1] using this

theorem applyOp_err_copy (t : Node) (f p : Ptr) (h : WF t) (hok : OpOk (.copy f p)) (hst : OpStrict (.copy f p))
    (hs : Rfc.step (erase t) (.copy f p) = none) : (applyOp t (toPOp (.copy f p))).2 ≠ .ok := by
  simp only [Rfc.step] at hs
  split at hs
  · rename_i hg
    have hfn := find_none_of_getAt t f h hok.idxFrom hst.fromNoDash hg
    by_cases hr : (p == [] || p == [[]]) = true
    · simp only [applyOp, toPOp, hr]; simp [OpK.beq_eq, hfn]
    · have hr' : (p == [] || p == [[]]) = false := by simpa using hr
      simp only [applyOp, toPOp, hr']; simp [OpK.beq_eq, hfn]
  · rename_i w hg
    have hp : p ≠ [] := by intro e; subst e; simp [Rfc.add] at hs
    have hr := oproot_false p hp hok.noSlash
    obtain ⟨n, hn1, hn2⟩ := find_of_getAt t f w h hok.idxFrom hg
    rw [← hn2] at hs
    have := place_err_of_add t .copy p n h (by decide) (by decide) hp hok.idxPath hst.pathNoDash hs
    simp only [applyOp, toPOp, hr]
    simpa [OpK.beq_eq, hn1] using this

theorem applyOp_err_move (t : Node) (f p : Ptr) (h : WF t) (hok : OpOk (.move f p)) (hst : OpStrict (.move f p))
    (hs : Rfc.step (erase t) (.move f p) = none) : (applyOp t (toPOp (.move f p))).2 ≠ .ok := by
  simp only [Rfc.step] at hs
  split at hs
  · rename_i hpp
    have hpp' : properPrefix f p = true := by rw [properPrefix_eq]; exact hpp
    simp only [applyOp, toPOp]
    simp [OpK.beq_eq, hpp']
  · rename_i hpp
    have hpp' : properPrefix f p = false := by rw [properPrefix_eq]; simpa using hpp
    split at hs
    · rename_i hg
      have hfn := find_none_of_getAt t f h hok.idxFrom hst.fromNoDash hg
      have hdn := detach_none_of_removeAt t f h hok.idxFrom hst.fromNoDash (removeAt_none_of_getAt _ f hg)
      by_cases hr : (p == [] || p == [[]]) = true
      · simp only [applyOp, toPOp, hr]; simp [OpK.beq_eq, hpp', hfn]
      · have hr' : (p == [] || p == [[]]) = false := by simpa using hr
        simp only [applyOp, toPOp, hr']; simp [OpK.beq_eq, hpp', hdn]
    · rename_i w hg
      by_cases hf : f = []
      · subst hf; simp at hs
      · have hfb : (f == []) = false := by simpa using hf
        simp only [hfb, Bool.false_eq_true, ↓reduceIte] at hs
        obtain ⟨d1, hd1⟩ := removeAt_some_of_getAt _ f w hf hg
        rw [hd1] at hs
        simp only [Option.bind_some] at hs
        have hp : p ≠ [] := by intro e; subst e; simp [Rfc.add] at hs
        have hr := oproot_false p hp hok.noSlash
        obtain ⟨t1, vn, ps, g1, g2, g3⟩ := detach_of_removeAt t f d1 h hok.idxFrom hd1
        obtain ⟨ht1, _⟩ := wf_detach t f t1 vn ps h g1
        have hwv : w = erase vn := by rw [hg] at g3; exact Option.some.inj g3
        rw [← g2, hwv] at hs
        have := place_err_of_add t1 .move p vn ht1 (by decide) (by decide) hp hok.idxPath hst.pathNoDash hs
        simp only [applyOp, toPOp, hr]
        simpa [OpK.beq_eq, hpp', g1] using this

theorem applyOp_err_test (t : Node) (p : Ptr) (v : JVal) (h : WF t) (hu : UK t) (hv : UKJ v)
    (hok : OpOk (.test p v)) (hst : OpStrict (.test p v))
    (hs : Rfc.step (erase t) (.test p v) = none) : (applyOp t (toPOp (.test p v))).2 ≠ .ok := by
  simp only [Rfc.step] at hs
  have hnd : dash ∉ p := hst.lastNoDash trivial
  split at hs
  · rename_i hg
    have hp : p ≠ [] := by intro e; subst e; simp [Rfc.getAt] at hg
    have hr := oproot_false p hp hok.noSlash
    have hfn := find_none_of_getAt t p h hok.idxPath hnd hg
    simp only [applyOp, toPOp, hr]
    simp [OpK.beq_eq, hfn]
  · rename_i w hg
    split at hs
    · cases hs
    · rename_i hne
      obtain ⟨n, hn1, hn2⟩ := find_of_getAt t p w h hok.idxPath hg
      have hun : UK n := uk_find t p n hu hn1
      have he : nodeEq n (ofJ v) = false := by
        rw [nodeEq_eq n (ofJ v) hun (uk_ofJ v hv), hn2, erase_ofJ]; simpa using hne
      by_cases hp : p = []
      · subst hp
        simp only [find, locate, getP, Option.bind_some, Option.some.injEq] at hn1
        subst hn1
        simp [applyOp, toPOp, OpK.beq_eq, he]
      · have hr := oproot_false p hp hok.noSlash
        simp only [applyOp, toPOp, hr]
        simp [OpK.beq_eq, hn1, he]

theorem applyOp_err_of_step (t : Node) (o : Rfc.Op) (h : WF t) (hu : UK t) (hok : OpOk o) (hv : opValueUK o)
    (hst : OpStrict o) (hs : Rfc.step (erase t) o = none) : (applyOp t (toPOp o)).2 ≠ .ok := by
  cases o with
  | add p v => exact applyOp_err_add t p v h hok hst hs
  | remove p => exact applyOp_err_remove t p h hok hst hs
  | replace p v => exact applyOp_err_replace t p v h hok hst hs
  | move f p => exact applyOp_err_move t f p h hok hst hs
  | copy f p => exact applyOp_err_copy t f p h hok hst hs
  | test p v => exact applyOp_err_test t p v h hu hv hok hst hs

theorem runOps_err_of_run (t : Node) (ops : List Rfc.Op) (h : WF t) (hu : UK t)
    (hok : ∀ o ∈ ops, OpOk o ∧ opValueUK o ∧ OpStrict o) (hr : Rfc.run (erase t) ops = none) :
    (runOps t (ops.map toPOp)).2 ≠ .ok := by
  induction ops generalizing t with
  | nil => simp [Rfc.run] at hr
  | cons o r ih =>
    obtain ⟨hoo, hov, hos⟩ := hok o (by simp)
    simp only [Rfc.run] at hr
    cases hs : Rfc.step (erase t) o with
    | none =>
      have := applyOp_err_of_step t o h hu hoo hov hos hs
      simp only [List.map_cons, runOps]
      split
      · rename_i t' heq; rw [heq] at this; exact absurd rfl this
      · rename_i res hne
        intro e
        apply this
        -- the result of the failing operation is returned as is
        exact e
    | some d1 =>
      rw [hs] at hr
      simp only [Option.bind_some] at hr
      obtain ⟨t1, a1, a2⟩ := applyOp_of_step_full t o d1 h hu hoo hov hs
      have hw : WF t1 := by
        have := wf_applyOp t (toPOp o) h (toPOp_WFv o)
        rw [a1] at this; exact this
      have hu1 : UK t1 := by
        have := uk_applyOp_rfc t o hu hov (step_not_rootRemove _ o d1 hoo hs)
        rw [a1] at this; exact this
      have := ih t1 hw hu1 (fun o' ho' => hok o' (by simp [ho'])) (by rw [a2]; exact hr)
      simp only [List.map_cons, runOps, a1]
      exact this

end IwModel.Patch
