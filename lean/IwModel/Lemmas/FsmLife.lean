import IwModel.Lemmas.FsmApi
/-! Life-cycle calls: trim on close, reopen, clear, open of a new file; the invariant over whole histories. -/
namespace IwModel.Fsm

/-- changes of file size and statistics do not matter to the invariant -/
theorem Inv.of_same {s s' : St} (hI : Inv s) (hf : Frame s s') (ht : s'.tree = s.tree) (hb : s'.bits = s.bits)
    (h1 : s'.lfoff = s.lfoff) (h2 : s'.lflen = s.lflen) : Inv s' := by
  apply hI.of_frame hf (hI.ix.congr ht hb h1 h2) (by rw [hb])
  intro i hi
  rw [hb]
  rcases hi with h | h
  · exact hI.hdr.2 i h
  · exact hI.bm i h.1 h.2

theorem inv_truncate {s : St} (hI : Inv s) (sz : Nat) : Inv (truncate s sz) :=
  hI.of_same ⟨rfl, rfl, rfl, rfl, rfl, rfl⟩ rfl rfl rfl rfl

theorem inv_sync {s : St} (hI : Inv s) : Inv (sync s) :=
  hI.of_same ⟨rfl, rfl, rfl, rfl, rfl, rfl⟩ rfl rfl rfl rfl

theorem inv_loadTree {s : St} (hI : Inv s) : Inv (loadTree s) := by
  apply hI.of_frame (loadTree_frame s) (loadTree_idxOk s) (by rw [loadTree_bits])
  intro i hi
  rw [loadTree_bits]
  rcases hi with h | h
  · exact hI.hdr.2 i h
  · exact hI.bm i h.1 h.2

theorem inv_trimMove {s : St} (hI : Inv s) : Inv (trimMove s).1 := by
  unfold trimMove
  have hspec := allocAligned_spec hI (maxOff := bmOffBlk s) hI.bmlen_pos
  generalize allocAligned s (bmLenBlk s) (bmOffBlk s) = r at hspec
  obtain ⟨s1, rc, off⟩ := r
  simp only at hspec ⊢
  rcases hspec with ⟨h1, h2⟩ | ⟨h1, o, l, hm, ho, hle, htk, _, _⟩
  · subst h1; subst h2; exact hI
  · subst h1
    simp only
    have hI1 := htk.inv hI
    have hfr := htk.frame
    have hk := bsz_pos s
    have hreg := taken_region hI htk hm ho hle
    split
    · apply inv_initLw hI1
      rw [hfr.bsz, Nat.mul_div_cancel _ hk, hfr.hdrBlk]
      exact (hreg off (Nat.le_refl _) (by have := hI.bmlen_pos; omega)).2.2
    · have hlp := hI.bmlen_pos
      have hlast := (hreg (off + bmLenBlk s - 1) (by omega) (by omega)).2.1
      apply inv_deallocLw hI1 hlp
      · have := hlast.1; rw [hI1.size] at this; omega
      · intro i h1 h2; exact (hreg i h1 h2).2.1.2.1
      · rw [hfr.hdrBlk]; exact (hreg off (Nat.le_refl _) (by omega)).2.2
      · by_cases cc : off + bmLenBlk s ≤ bmOffBlk s1 ∨ bmOffBlk s1 + bmLenBlk s1 ≤ off
        · exact cc
        · exfalso
          have := (hreg (max off (bmOffBlk s1)) (by omega) (by omega)).2.1.2.2
          have := hI1.bmlen_pos
          omega

theorem inv_trimCut {s : St} (hI : Inv s) : Inv (trimCut s) := by
  unfold trimCut
  simp only
  split <;> split
  all_goals first | exact inv_truncate hI _ | exact hI

/-- `_fsm_trim_tail_lw` preserves the invariant -/
theorem inv_trimTail {s : St} (hI : Inv s) : Inv (trimTail s).1 := by
  unfold trimTail
  simp only
  split
  · exact inv_trimMove hI
  · exact inv_trimCut (inv_trimMove hI)

/-- close (with or without trim) and reopen: the invariant holds for the state rebuilt from the file -/
theorem inv_reopen {s : St} (hI : Inv s) (noTrim : Bool) : Inv (reopen s noTrim).1 := by
  unfold reopen
  split
  · apply inv_loadTree
    exact hI.of_same ⟨rfl, rfl, rfl, rfl, rfl, rfl⟩ rfl rfl rfl rfl
  · simp only
    apply inv_loadTree
    split
    · exact hI.of_same ⟨rfl, rfl, rfl, rfl, rfl, rfl⟩ rfl rfl rfl rfl
    · exact (inv_trimTail hI).of_same ⟨rfl, rfl, rfl, rfl, rfl, rfl⟩ rfl rfl rfl rfl

theorem roundup_le_of_mod {x y v : Nat} (hv : 0 < v) (hxy : x ≤ y) (hy : y % v = 0) : roundup x v ≤ y := by
  unfold roundup
  have h1 := Nat.div_add_mod y v
  rw [hy] at h1
  have h2 : (x + v - 1) / v ≤ y / v := by
    have : (x + v - 1) / v < y / v + 1 := by
      rw [Nat.div_lt_iff_lt_mul hv, Nat.add_mul, Nat.mul_comm]; omega
    omega
  calc (x + v - 1) / v * v ≤ y / v * v := Nat.mul_le_mul_right _ h2
    _ = y := by rw [Nat.mul_comm]; omega

theorem mod_of_mod_mod {x a k : Nat} (hx : x % a = 0) (ha : a % k = 0) : x % k = 0 := by
  have h1 := Nat.div_add_mod x a
  have h2 := Nat.div_add_mod a k
  rw [hx] at h1; rw [ha] at h2
  have : x = k * (a / k * (x / a)) := by
    rw [← Nat.mul_assoc]
    have e : k * (a / k) = a := by omega
    rw [e]; omega
  rw [this]; exact Nat.mul_mod_right _ _

/-- `_fsm_init_lw` on an allocator without a bitmap (fresh file, `clear`): when it succeeds it is `installBitmap`
    after growing the file, and all its argument checks held -/
theorem initLw_new_ok {s0 : St} (h0 : s0.bmlen = 0) {bo bl : Nat} (hok : (initLw s0 bo bl).2 = .ok) :
    initLw s0 bo bl = (installBitmap (ensureSize s0 (bo + bl)) bo bl, .ok) ∧
    bl % bsz s0 = 0 ∧ bo % bsz s0 = 0 ∧ bo % s0.aunit = 0 ∧ (bo + bl) / bsz s0 + 1 ≤ bl * 8 := by
  unfold initLw at hok ⊢
  split at hok
  · cases hok
  · split at hok
    · cases hok
    · split at hok
      · cases hok
      · rename_i c1 c2 c3
        have e0 : (ensureSize s0 (bo + bl)).bmlen = 0 := by rw [(ensureSize_frame _ _).bmlen]; exact h0
        rw [if_neg c1, if_neg c2, if_neg c3]
        simp only [e0, ne_eq, not_true_eq_false, false_and, if_false]
        exact ⟨trivial, by omega, by omega, by omega, by omega⟩

theorem inv_initLw_new {s0 : St} (h0 : s0.bmlen = 0) {bo bl : Nat} (hok : (initLw s0 bo bl).2 = .ok)
    (hpos : 0 < bl) (hh0 : 0 < hdrBlk s0) (hhdr : s0.hdrlen ≤ bo) (hau : 0 < aunitBlk s0)
    (hal : s0.aunit % bsz s0 = 0) (hha : s0.hdrlen % bsz s0 = 0) : Inv (initLw s0 bo bl).1 := by
  obtain ⟨e, c1, c2, c3, c4⟩ := initLw_new_ok h0 hok
  rw [e]
  have hf := ensureSize_frame s0 (bo + bl)
  apply inv_installBitmap_new (by rw [hf.bmlen]; exact h0) (by rw [hf.bsz]; exact c1) (by rw [hf.bsz]; exact c2) hpos
    (by rw [hf.bsz]; exact c4) (by rw [hf.hdrBlk]; exact hh0)
    (by rw [hf.hdrBlk, hf.bsz]; exact Nat.div_le_div_right hhdr) (by rw [hf.aunitBlk]; exact hau)
    (by rw [hf.aunit, hf.bsz]; exact hal) (by rw [hf.aunit]; exact c3) (by rw [hf.hdrlen, hf.bsz]; exact hha)

/-- `_fsm_clear` re-initialises the allocator: the invariant holds afterwards -/
theorem inv_clear {s : St} (hI : Inv s) (trim : Bool) : Inv (clear s trim).1 := by
  unfold clear
  split
  · exact hI
  · rename_i hne
    simp only
    have hk := bsz_pos s
    have hap := aunit_pos hI.au
    generalize hs0 : ({ s with bmlen := 0, bmoff := 0 } : St) = s0
    have g : s0.bpow = s.bpow ∧ s0.aunit = s.aunit ∧ s0.hdrlen = s.hdrlen ∧ s0.bmlen = 0 := by
      rw [← hs0]; exact ⟨rfl, rfl, rfl, rfl⟩
    have gb : bsz s0 = bsz s := by simp [bsz, g.1]
    -- the checks of `_fsm_init_lw` hold for the place right behind the header
    have hbo_pg : roundup s.hdrlen s.aunit % s.aunit = 0 := roundup_mod _ _
    have hbo_al : roundup s.hdrlen s.aunit % bsz s = 0 := mod_of_mod_mod hbo_pg hI.aunit_al
    have hhl : s.hdrlen ≤ s.bmoff := by
      have h1 := Nat.div_add_mod s.hdrlen (bsz s)
      have h2 := Nat.div_add_mod s.bmoff (bsz s)
      rw [hI.hdr_al] at h1; rw [hI.bmoff_al] at h2
      have := Nat.mul_le_mul_left (bsz s) hI.hb
      unfold hdrBlk bmOffBlk at this
      omega
    have hle : roundup s.hdrlen s.aunit ≤ s.bmoff := roundup_le_of_mod hap hhl hI.bmoff_pg
    have hfit : (roundup s.hdrlen s.aunit + s.bmlen) / bsz s + 1 ≤ s.bmlen * 8 := by
      have h1 := Nat.div_le_div_right (c := bsz s) (Nat.add_le_add_right hle s.bmlen)
      have h2 := div_add_div_of_mod hk hI.bmoff_al hI.bmlen_al
      have h3 := hI.bm_in
      unfold bmOffBlk bmLenBlk nbits at h3
      omega
    have hok : (initLw s0 (roundup s.hdrlen s.aunit) s.bmlen).2 = .ok := by
      unfold initLw
      have c1 : ¬ (s.bmlen % bsz s0 ≠ 0 ∨ roundup s.hdrlen s.aunit % bsz s0 ≠ 0 ∨ roundup s.hdrlen s.aunit % s0.aunit ≠ 0) := by
        rw [gb, g.2.1]; have := hI.bmlen_al; omega
      have c2 : ¬ (s.bmlen < s0.bmlen) := by rw [g.2.2.2]; omega
      have c3 : ¬ (s.bmlen * 8 < (roundup s.hdrlen s.aunit + s.bmlen) / bsz s0 + 1) := by rw [gb]; omega
      have e0 : (ensureSize s0 (roundup s.hdrlen s.aunit + s.bmlen)).bmlen = 0 := by
        rw [(ensureSize_frame _ _).bmlen]; exact g.2.2.2
      rw [if_neg c1, if_neg c2, if_neg c3]
      simp only [e0, ne_eq, not_true_eq_false, false_and, if_false]
    have hlenpos : 0 < s.bmlen := Nat.pos_of_ne_zero hne
    have hinv : Inv (initLw s0 (roundup s.hdrlen s.aunit) s.bmlen).1 := by
      apply inv_initLw_new g.2.2.2 hok hlenpos
      · have := hI.hdr.1; unfold hdrBlk at this ⊢; rw [g.2.2.1, gb]; exact this
      · rw [g.2.2.1]; exact le_roundup _ hap
      · have := hI.au; unfold aunitBlk at this ⊢; rw [g.2.1, gb]; exact this
      · rw [g.2.1, gb]; exact hI.aunit_al
      · rw [g.2.2.1, gb]; exact hI.hdr_al
    generalize initLw s0 (roundup s.hdrlen s.aunit) s.bmlen = r at hinv
    obtain ⟨s1, rc⟩ := r
    simp only at hinv ⊢
    split
    · exact inv_trimTail hinv
    · exact hinv

/-- `iwfs_fsmfile_open` of a new file: when it succeeds the invariant holds -/
theorem inv_openNew {bpow aunit hdr bm : Nat} {strict : Bool} (hbp : bpow ≠ 0) (hal : aunit % 2 ^ bpow = 0)
    (hau : 0 < aunit / 2 ^ bpow) (hok : (openNew bpow aunit hdr bm strict).2 = .ok) :
    Inv (openNew bpow aunit hdr bm strict).1 := by
  unfold openNew at hok ⊢
  simp only [hbp, if_false] at hok ⊢
  have hk : 0 < 2 ^ bpow := Nat.pow_pos (by omega)
  have hap : 0 < aunit := by
    by_cases c : aunit = 0
    · rw [c] at hau; simp at hau
    · omega
  apply inv_initLw_new rfl hok
  · split
    · exact Nat.lt_of_lt_of_le (by omega) (le_roundup _ hap)
    · exact hap
  · show 0 < roundup (hdr + Gen.Fsm.IWFSM_CUSTOM_HDR_DATA_OFFSET) (2 ^ bpow) / 2 ^ bpow
    have h1 := le_roundup (hdr + Gen.Fsm.IWFSM_CUSTOM_HDR_DATA_OFFSET) hk
    have h2 := roundup_mod (hdr + Gen.Fsm.IWFSM_CUSTOM_HDR_DATA_OFFSET) (2 ^ bpow)
    have h3 : 0 < Gen.Fsm.IWFSM_CUSTOM_HDR_DATA_OFFSET := by decide
    exact div_pos_of_mod hk h2 (by omega)
  · exact le_roundup _ hap
  · exact hau
  · exact hal
  · exact roundup_mod _ _

/-- A growing `reallocate` that succeeds: the blocks of the new region were not held by anybody before the call —
    in particular they are disjoint from the old region, which is still allocated while `pool.copy` runs —
    and the region is at least as long as asked. -/
theorem reallocate_grow_fresh (hr : Heur) {s : St} (hI : Inv s) (nlenB addrB olenB : Nat) (f : Flags)
    (hgrow : olenB / bsz s < roundup nlenB (bsz s) / bsz s)
    (hok : (reallocate hr s nlenB addrB olenB f).2.1 = .ok) :
    ∃ naddr sp, (reallocate hr s nlenB addrB olenB f).2.2.1 = naddr * bsz s ∧
      (reallocate hr s nlenB addrB olenB f).2.2.2.1 = sp * bsz s ∧ roundup nlenB (bsz s) / bsz s ≤ sp ∧
      ∀ i, naddr ≤ i → i < naddr + sp → ¬ UserUsed s i := by
  unfold reallocate at hok ⊢
  generalize addrB / bsz s = oaddr at hgrow hok ⊢
  generalize olenB / bsz s = olen at hgrow hok ⊢
  generalize roundup nlenB (bsz s) / bsz s = nlen at hgrow hok ⊢
  split at hok
  · cases hok
  · rename_i hal
    rw [if_neg hal]
    simp only at hok ⊢
    have hne : ¬ nlen = olen := by omega
    rw [if_neg hne] at hok ⊢
    split at hok
    · cases hok
    · rename_i hg
      rw [if_neg hg]
      split at hok
      · cases hok
      · rename_i hst
        rw [if_neg hst]
        have hnlt : ¬ nlen < olen := by omega
        rw [if_neg hnlt] at hok ⊢
        have hnl : 0 < nlen := by omega
        obtain ⟨a, b, c, d⟩ := allocLw_spec hr hnl oaddr f allocFuel s hI
        generalize allocLw hr s nlen oaddr f allocFuel = r at a b c d hok ⊢
        obtain ⟨s1, rc, naddr, sp⟩ := r
        simp only at a b c d hok ⊢
        by_cases hrc : rc = .ok
        · subst hrc
          have hA := d rfl
          have hne2 : ¬ (Rc.ok ≠ Rc.ok) := by simp
          rw [if_neg hne2] at hok ⊢
          generalize (if olen = 0 then (s1, Rc.ok) else deallocLw s1 oaddr olen) = r2 at hok ⊢
          by_cases h2 : r2.2 = .ok
          · have hne3 : ¬ (r2.2 ≠ Rc.ok) := by simp [h2]
            rw [if_neg hne3]
            exact ⟨naddr, sp, rfl, rfl, hA.len_ge, fun i h1 h2 => (hA.fresh i h1 h2).1⟩
          · rw [if_pos h2] at hok
            exact absurd hok h2
        · rw [if_pos hrc] at hok
          exact absurd hok hrc


end IwModel.Fsm
