import IwModel.Lemmas.FsmInv
/-! Release (`_fsm_blk_deallocate_lw`) preserves the invariant. -/
namespace IwModel.Fsm

theorem mem_delFbk {s : St} (hs : s.tree.Pairwise KeyLt) (o l : Nat) (x : Ext) :
    x ∈ (delFbk s o l).tree ↔ x ≠ (o, l) ∧ x ∈ s.tree := by
  rw [delFbk_tree]; exact mem_erase_sorted hs _ _

theorem sorted_delFbk {s : St} (hs : s.tree.Pairwise KeyLt) (o l : Nat) : (delFbk s o l).tree.Pairwise KeyLt := by
  rw [delFbk_tree]; exact sorted_erase hs _

theorem delFbk_of_not_mem {s : St} {o l : Nat} (h : (o, l) ∉ s.tree) : delFbk s o l = s := by
  unfold delFbk; simp [h]

/-- the right-hand neighbour search finds the first set bit at or after `e` (the end of the bitmap counts as set) -/
theorem rightBound_spec {s : St} {lfoff lflen e : Nat} (hsize : s.bits.size = nbits s) (he : e ≤ nbits s)
    (hlf1 : lfoff ≠ 0 → lfoff = e → (∀ j, e ≤ j → j < e + lflen → bit s.bits j = false) ∧ bit s.bits (e + lflen) = true)
    (hlf2 : e < lfoff → bit s.bits (lfoff - 1) = true) :
    ∃ R, e ≤ R ∧ bit s.bits R = true ∧ (∀ j, e ≤ j → j < R → bit s.bits j = false) ∧
      (rightBound s lfoff lflen e = some R ∨ (rightBound s lfoff lflen e = none ∧ R = e)) := by
  unfold rightBound
  by_cases c1 : lfoff ≠ 0 ∧ lfoff = e
  · obtain ⟨z, hz⟩ := hlf1 c1.1 c1.2
    refine ⟨e + lflen, by omega, hz, z, Or.inl ?_⟩
    rw [if_pos c1, c1.2]
  · rw [if_neg c1]
    simp only
    cases hn : nextSet s.bits e (if lfoff > e then lfoff else nbits s) with
    | some r =>
      obtain ⟨a, _, c, d⟩ := nextSet_some hn
      exact ⟨r, a, c, d, Or.inl rfl⟩
    | none =>
      have hz := nextSet_none hn
      by_cases c2 : lfoff > e
      · exfalso
        simp only [c2, if_true] at hz
        have := hz (lfoff - 1) (by omega) (by omega)
        rw [hlf2 c2] at this; cases this
      · simp only [c2, if_false] at hz ⊢
        by_cases c3 : e < nbits s
        · refine ⟨nbits s, he, bit_of_size_le _ _ (by omega), hz, Or.inl ?_⟩
          simp [c3]
        · refine ⟨e, Nat.le_refl _, bit_of_size_le _ _ (by omega), fun j a b => by omega, Or.inr ⟨?_, rfl⟩⟩
          simp [c3]

theorem checkBits_ok {s : St} {off len : Nat} {v : Bool} (hend : off + len ≤ nbits s)
    (h : ∀ i, off ≤ i → i < off + len → bit s.bits i = v) : checkBits s off len v = .ok := by
  unfold checkBits
  rw [if_neg (by omega), if_pos ((allEq_iff _ _ _ _).mpr h)]

theorem setBits_ok {s : St} {off len : Nat} {v : Bool} (hend : off + len ≤ nbits s)
    (h : ∀ i, off ≤ i → i < off + len → bit s.bits i = !v) :
    setBits s off len v = ({ s with bits := setRange s.bits off len v }, .ok) := by
  unfold setBits
  rw [if_neg (by omega)]
  have : allEq s.bits off len (!v) = true := (allEq_iff _ _ _ _).mpr h
  simp [this]

/-- `_fsm_blk_deallocate_lw` on an allocated range outside the header: succeeds, clears exactly the range,
    and the index again lists the maximal zero runs -/
theorem deallocLw_spec {s : St} (hI : Inv s) {off len : Nat} (hlen : 0 < len) (hend : off + len ≤ nbits s)
    (hset : ∀ i, off ≤ i → i < off + len → bit s.bits i = true) (hoff : hdrBlk s ≤ off) :
    (deallocLw s off len).2 = .ok ∧ (deallocLw s off len).1.bits = setRange s.bits off len false ∧
    Frame s (deallocLw s off len).1 ∧ IdxOk (deallocLw s off len).1 := by
  have hchk : checkBits s off len true = .ok := checkBits_ok hend hset
  have hsb := setBits_ok (v := false) hend (by simpa using hset)
  -- the state after the bits were cleared
  generalize hs1 : ({ s with bits := setRange s.bits off len false } : St) = s1 at hsb
  have hb1 : s1.bits = setRange s.bits off len false := by rw [← hs1]
  have ht1 : s1.tree = s.tree := by rw [← hs1]
  have hf1 : Frame s s1 := by rw [← hs1]; exact ⟨rfl, rfl, rfl, rfl, rfl, rfl⟩
  have hlfo : s1.lfoff = s.lfoff := by rw [← hs1]
  have hlfl : s1.lflen = s.lflen := by rw [← hs1]
  have hsz1 : s1.bits.size = nbits s1 := by rw [hb1, size_setRange, hI.size, hf1.nbits]
  have hin : ∀ i, off ≤ i → i < off + len → bit s1.bits i = false := by
    intro i h1 h2; rw [hb1, bit_setRange]
    have := hI.size; simp [h1, h2]; omega
  have hout : ∀ i, (i < off ∨ off + len ≤ i) → bit s1.bits i = bit s.bits i := by
    intro i h; rw [hb1, bit_setRange]
    have : ¬ (off ≤ i ∧ i < off + len ∧ i < s.bits.size) := by omega
    simp [this]
  have hpos : ∀ o l, (o, l) ∈ s.tree → 0 < l := fun o l h => ((hI.ix.idx o l).mp h).1
  -- left neighbour
  have hoff0 : 0 < off := Nat.lt_of_lt_of_le hI.hdr.1 hoff
  obtain ⟨L, hL⟩ : ∃ L, prevSet s1.bits 0 off = some L := by
    cases h : prevSet s1.bits 0 off with
    | some L => exact ⟨L, rfl⟩
    | none =>
      exfalso
      have := prevSet_none h 0 (Nat.le_refl _) hoff0
      rw [hout 0 (Or.inl hoff0), hI.hdr.2 0 hI.hdr.1] at this; cases this
  obtain ⟨_, hL1, hL2, hL3⟩ := prevSet_some hL
  have hml : mergeLeft s1 off len = (delFbk s1 (L + 1) (off - (L + 1)), L + 1, len + (off - (L + 1))) := by
    unfold mergeLeft; rw [hL]; simp only
    by_cases c : off > L + 1
    · rw [if_pos c]
    · rw [if_neg c]
      have e1 : off = L + 1 := by omega
      have : (L + 1, off - (L + 1)) ∉ s1.tree := by
        rw [ht1]; intro h; have := hpos _ _ h; omega
      rw [delFbk_of_not_mem this]
      subst e1; simp
  -- right neighbour
  obtain ⟨R, hR1, hR2, hR3, hR4⟩ := rightBound_spec (s := s1) (lfoff := s.lfoff) (lflen := s.lflen) (e := off + len) hsz1
    (by rw [hf1.nbits]; exact hend)
    (by
      intro c1 c2
      have hr := (hI.ix.idx _ _).mp (hI.ix.lf c1)
      rw [c2] at hr
      refine ⟨fun j a b => ?_, ?_⟩
      · rw [hout j (Or.inr a)]; exact hr.2.1 j a b
      · rw [hout _ (Or.inr (by omega))]; exact hr.2.2.2)
    (by
      intro c
      have hr := (hI.ix.idx _ _).mp (hI.ix.lf (by omega))
      rw [hout _ (Or.inr (by omega))]
      rcases hr.2.2.1 with e | e
      · omega
      · exact e)
  generalize hsl : delFbk s1 (L + 1) (off - (L + 1)) = sL at hml
  have hsLt : sL.tree.Pairwise KeyLt := by rw [← hsl]; exact sorted_delFbk (by rw [ht1]; exact hI.ix.sorted) _ _
  have hmr : mergeRight sL (off + len) (len + (off - (L + 1))) (rightBound s1 s.lfoff s.lflen (off + len)) =
      (delFbk sL (off + len) (R - (off + len)), len + (off - (L + 1)) + (R - (off + len))) := by
    have hnot : R = off + len → (off + len, R - (off + len)) ∉ sL.tree := by
      intro e h
      rw [← hsl] at h
      have := ((mem_delFbk (by rw [ht1]; exact hI.ix.sorted) _ _ _).mp h).2
      rw [ht1] at this; have := hpos _ _ this; omega
    rcases hR4 with h | ⟨h, e⟩
    · rw [h]; unfold mergeRight; simp only
      by_cases c : R > off + len
      · rw [if_pos c]
      · rw [if_neg c]
        have e : R = off + len := by omega
        rw [delFbk_of_not_mem (hnot e)]; simp [e]
    · rw [h]; unfold mergeRight; simp only
      rw [delFbk_of_not_mem (hnot e)]; simp [e]
  have heq : deallocLw s off len =
      (putFbk (delFbk sL (off + len) (R - (off + len))) (L + 1) (len + (off - (L + 1)) + (R - (off + len))), .ok) := by
    unfold deallocLw
    simp only [hchk, hsb, ne_eq, not_true_eq_false, Bool.and_false, Bool.false_eq_true, if_false, hml, hmr,
      decide_false]
  rw [heq]
  generalize hsr : delFbk sL (off + len) (R - (off + len)) = sR
  have hbits : sR.bits = s1.bits := by rw [← hsr, delFbk_bits, ← hsl, delFbk_bits]
  have hfr : Frame s sR := by
    rw [← hsr, ← hsl]; exact hf1.trans ((delFbk_frame _ _ _).trans (delFbk_frame _ _ _))
  have hsRt : sR.tree.Pairwise KeyLt := by rw [← hsr]; exact sorted_delFbk hsLt _ _
  have hlf1 : LfOk s1 := by
    unfold LfOk; rw [hlfo, hlfl, ht1]; exact hI.ix.lf
  have hlfR : LfOk sR := by
    rw [← hsr]; apply delFbk_lf hsLt
    rw [← hsl]; exact delFbk_lf (by rw [ht1]; exact hI.ix.sorted) hlf1 _ _
  refine ⟨rfl, ?_, (hfr.trans (putFbk_frame _ _ _)), ?_⟩
  · simp only; rw [putFbk_bits, hbits, hb1]
  · refine ⟨sorted_putFbk hsRt _ _, ?_, putFbk_lf hlfR _ _⟩
    intro o l
    simp only
    rw [putFbk_bits, hbits, hb1, mem_putFbk, ← hsr, mem_delFbk hsLt, ← hsl, mem_delFbk (by rw [ht1]; exact hI.ix.sorted), ht1]
    rw [isRun_clear hlen (by rw [hI.size]; exact hend) hset hL1 (by rw [← hout L (Or.inl hL1)]; exact hL2)
      (fun j a b => by rw [← hout j (Or.inl b)]; exact hL3 j a b) hR1
      (by rw [← hout R (Or.inr hR1)]; exact hR2)
      (fun j a b => by rw [← hout j (Or.inr a)]; exact hR3 j a b) o l]
    rw [hI.ix.idx]
    have hk : len + (off - (L + 1)) + (R - (off + len)) = R - (L + 1) := by omega
    rw [hk]
    simp only [Prod.mk.injEq, ne_eq]
    constructor
    · rintro (⟨a, b⟩ | ⟨a, b, c⟩)
      · exact Or.inl ⟨a, b⟩
      · exact Or.inr ⟨c, b, a⟩
    · rintro (⟨a, b⟩ | ⟨c, b, a⟩)
      · exact Or.inl ⟨a, b⟩
      · exact Or.inr ⟨a, b, c⟩

/-- the reserved-block part of the invariant and the geometry facts carry over to a state with the same geometry
    whose bitmap keeps the reserved blocks set -/
theorem Inv.of_frame {s s' : St} (hI : Inv s) (hf : Frame s s') (hix : IdxOk s') (hsz : s'.bits.size = s.bits.size)
    (hkeep : ∀ i, (i < hdrBlk s ∨ (bmOffBlk s ≤ i ∧ i < bmOffBlk s + bmLenBlk s)) → bit s'.bits i = true) : Inv s' where
  ix := hix
  size := by rw [hsz, hI.size, hf.nbits]
  hdr := by rw [hf.hdrBlk]; exact ⟨hI.hdr.1, fun i h => hkeep i (Or.inl h)⟩
  bm := by rw [hf.bmOffBlk, hf.bmLenBlk]; exact fun i h1 h2 => hkeep i (Or.inr ⟨h1, h2⟩)
  hb := by rw [hf.hdrBlk, hf.bmOffBlk]; exact hI.hb
  bm_in := by rw [hf.bmOffBlk, hf.bmLenBlk, hf.nbits]; exact hI.bm_in
  bmoff_al := by rw [hf.bmoff, hf.bsz]; exact hI.bmoff_al
  bmlen_al := by rw [hf.bmlen, hf.bsz]; exact hI.bmlen_al
  bmlen_pos := by rw [hf.bmLenBlk]; exact hI.bmlen_pos
  au := by rw [hf.aunitBlk]; exact hI.au
  aunit_al := by rw [hf.aunit, hf.bsz]; exact hI.aunit_al
  bmoff_pg := by rw [hf.bmoff, hf.aunit]; exact hI.bmoff_pg
  hdr_al := by rw [hf.hdrlen, hf.bsz]; exact hI.hdr_al

/-- release of an allocated range outside header and bitmap preserves the invariant -/
theorem inv_deallocLw {s : St} (hI : Inv s) {off len : Nat} (hlen : 0 < len) (hend : off + len ≤ nbits s)
    (hset : ∀ i, off ≤ i → i < off + len → bit s.bits i = true) (hoff : hdrBlk s ≤ off)
    (hbm : off + len ≤ bmOffBlk s ∨ bmOffBlk s + bmLenBlk s ≤ off) : Inv (deallocLw s off len).1 := by
  obtain ⟨_, hb, hf, hix⟩ := deallocLw_spec hI hlen hend hset hoff
  apply hI.of_frame hf hix (by rw [hb, size_setRange])
  intro i hi
  rw [hb, bit_setRange]
  have : ¬ (off ≤ i ∧ i < off + len ∧ i < s.bits.size) := by omega
  rw [if_neg this]
  rcases hi with h | h
  · exact hI.hdr.2 i h
  · exact hI.bm i h.1 h.2

end IwModel.Fsm
