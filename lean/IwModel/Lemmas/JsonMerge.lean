import IwModel.Model.JsonMerge
import IwModel.Model.JsonRfc
import IwModel.Lemmas.JsonInd
/-! Helper lemmas for C16: the C-shaped member walk equals the RFC 7386 recursion. -/
namespace IwModel.Merge
open IwModel

/-- one round of the `while (patch)` loop of `_jbl_merge_patch_node` -/
def mstep (tms : List (Bytes × JVal)) (p : Bytes × JVal) : List (Bytes × JVal) :=
  if isNull p.2 then
    match findKey tms p.1 with
    | some i => tms.eraseIdx i
    | none => tms
  else
    match findKey tms p.1 with
    | some i => tms.modify i fun q => (q.1, mergeNode (some q.2) p.2)
    | none => tms ++ [(p.1, mergeNode none p.2)]

theorem mergeNode_obj (t : Option JVal) (pms : List (Bytes × JVal)) :
    mergeNode t (.obj pms) = .obj (pms.foldl mstep (targetMembers t)) := by
  rw [mergeNode.eq_1]
  simp only [JVal.obj.injEq]
  exact List.foldl_attach (f := mstep)

theorem mergeNode_nonobj (t : Option JVal) (p : JVal) (h : ∀ ms, p ≠ .obj ms) : mergeNode t p = p := by
  rw [mergeNode.eq_2]
  intro ms hm
  exact h ms hm

/-- one round of the RFC loop -/
def rstep (t : Rfc.Members) (p : Bytes × JVal) : Rfc.Members :=
  if Rfc.isNull p.2 then Rfc.remove t p.1
  else Rfc.put t p.1 (Rfc.mergePatch ((Rfc.get t p.1).getD .null) p.2)

theorem rfc_obj (t : JVal) (pms : List (Bytes × JVal)) :
    Rfc.mergePatch t (.obj pms) = .obj (pms.foldl rstep (Rfc.objectOrEmpty t)) := by
  rw [Rfc.mergePatch.eq_1]
  simp only [JVal.obj.injEq]
  exact List.foldl_attach (f := rstep)

theorem rfc_nonobj (t p : JVal) (h : ∀ ms, p ≠ .obj ms) : Rfc.mergePatch t p = p := by
  rw [Rfc.mergePatch.eq_2]
  intro ms hm
  exact h ms hm

theorem beq_false_symm {a b : Bytes} (h : (a == b) = false) : (b == a) = false := by
  rw [beq_eq_false_iff_ne] at *
  exact fun e => h e.symm

theorem isNull_eq (v : JVal) : isNull v = Rfc.isNull v := by cases v <;> rfl

/-! list facts: index-based edits of the C code = key-based edits of the spec -/

theorem findKey_none_remove (ms : List (Bytes × JVal)) (k : Bytes) (h : findKey ms k = none) : Rfc.remove ms k = ms := by
  induction ms with
  | nil => rfl
  | cons q r ih =>
    obtain ⟨k', v'⟩ := q
    simp only [findKey, List.findIdx?_cons] at h
    by_cases hk : k' == k
    · simp [hk] at h
    · simp only [hk] at h
      simp only [Rfc.remove, hk, Bool.false_eq_true, ↓reduceIte, List.cons.injEq, true_and]
      apply ih
      simpa [findKey] using h

theorem findKey_some_remove (ms : List (Bytes × JVal)) (k : Bytes) (i : Nat) (h : findKey ms k = some i) :
    ms.eraseIdx i = Rfc.remove ms k := by
  induction ms generalizing i with
  | nil => simp [findKey] at h
  | cons q r ih =>
    obtain ⟨k', v'⟩ := q
    simp only [findKey, List.findIdx?_cons] at h
    by_cases hk : k' == k
    · simp only [hk, ↓reduceIte, Option.some.injEq] at h
      subst h
      simp [Rfc.remove, hk]
    · simp only [hk, Bool.false_eq_true, ↓reduceIte, Option.map_eq_some_iff] at h
      obtain ⟨j, hj, rfl⟩ := h
      simp only [List.eraseIdx_cons_succ, Rfc.remove, hk, Bool.false_eq_true, ↓reduceIte, List.cons.injEq, true_and]
      exact ih j (by simpa [findKey] using hj)

theorem findKey_none_put (ms : List (Bytes × JVal)) (k : Bytes) (v : JVal) (h : findKey ms k = none) :
    Rfc.put ms k v = ms ++ [(k, v)] := by
  induction ms with
  | nil => rfl
  | cons q r ih =>
    obtain ⟨k', v'⟩ := q
    simp only [findKey, List.findIdx?_cons] at h
    by_cases hk : k' == k
    · simp [hk] at h
    · simp only [hk] at h
      simp only [Rfc.put, hk, Bool.false_eq_true, ↓reduceIte, List.cons_append, List.cons.injEq, true_and]
      apply ih
      simpa [findKey] using h

theorem findKey_none_get (ms : List (Bytes × JVal)) (k : Bytes) (h : findKey ms k = none) : Rfc.get ms k = none := by
  induction ms with
  | nil => rfl
  | cons q r ih =>
    obtain ⟨k', v'⟩ := q
    simp only [findKey, List.findIdx?_cons] at h
    by_cases hk : k' == k
    · simp [hk] at h
    · simp only [hk] at h
      have hk' : (k == k') = false := beq_false_symm (by simpa using hk)
      simp only [Rfc.get, List.lookup, hk']
      apply ih
      simpa [findKey] using h

/-- the found member is rewritten in place: `modify` by index = `put` by key, the member's old value being
    `Target[Name]` -/
theorem findKey_some_put (ms : List (Bytes × JVal)) (k : Bytes) (i : Nat) (f : JVal → JVal)
    (h : findKey ms k = some i) :
    ms.modify i (fun q => (q.1, f q.2)) = Rfc.put ms k (f ((Rfc.get ms k).getD .null)) := by
  induction ms generalizing i with
  | nil => simp [findKey] at h
  | cons q r ih =>
    obtain ⟨k', v'⟩ := q
    simp only [findKey, List.findIdx?_cons] at h
    by_cases hk : k' == k
    · simp only [hk, ↓reduceIte, Option.some.injEq] at h
      subst h
      have hke : k' = k := by simpa using hk
      subst hke
      simp [Rfc.put, Rfc.get, List.lookup]
    · simp only [hk, Bool.false_eq_true, ↓reduceIte, Option.map_eq_some_iff] at h
      obtain ⟨j, hj, rfl⟩ := h
      have hk' : (k == k') = false := beq_false_symm (by simpa using hk)
      simp only [List.modify_succ_cons, Rfc.put, hk, Bool.false_eq_true, ↓reduceIte, Rfc.get, List.lookup, hk',
        List.cons.injEq, true_and]
      exact ih j (by simpa [findKey] using hj)

end IwModel.Merge

namespace IwModel.Merge
open IwModel

theorem targetMembers_eq (t : Option JVal) : targetMembers t = Rfc.objectOrEmpty (t.getD .null) := by
  cases t with
  | none => rfl
  | some t => cases t <;> rfl

theorem mstep_eq_rstep (acc : List (Bytes × JVal)) (q : Bytes × JVal)
    (ih : ∀ t : Option JVal, mergeNode t q.2 = Rfc.mergePatch (t.getD .null) q.2) :
    mstep acc q = rstep acc q := by
  unfold mstep rstep
  rw [isNull_eq]
  cases hn : Rfc.isNull q.2
  · -- a value: merge into the member / append
    simp only [Bool.false_eq_true, ↓reduceIte]
    cases hf : findKey acc q.1 with
    | none =>
      simp only
      rw [findKey_none_put _ _ _ hf, findKey_none_get _ _ hf, ih none]
    | some i =>
      simp only
      rw [findKey_some_put acc q.1 i (fun x => mergeNode (some x) q.2) hf, ih (some _)]
      rfl
  · -- null: delete
    simp only [↓reduceIte]
    cases hf : findKey acc q.1 with
    | none => simp only; exact (findKey_none_remove _ _ hf).symm
    | some i => simp only; exact findKey_some_remove _ _ _ hf

theorem foldl_mstep_eq (pms : List (Bytes × JVal))
    (ih : ∀ q ∈ pms, ∀ t : Option JVal, mergeNode t q.2 = Rfc.mergePatch (t.getD .null) q.2)
    (acc : List (Bytes × JVal)) : pms.foldl mstep acc = pms.foldl rstep acc := by
  induction pms generalizing acc with
  | nil => rfl
  | cons q r ihr =>
    simp only [List.foldl_cons]
    rw [mstep_eq_rstep acc q (ih q (by simp))]
    exact ihr (fun q' hq' => ih q' (by simp [hq'])) _

/-- the member walk of `_jbl_merge_patch_node` computes RFC 7386's `MergePatch`, for every target (present or not)
    and every patch -/
theorem mergeNode_eq_rfc (p : JVal) : ∀ t : Option JVal, mergeNode t p = Rfc.mergePatch (t.getD .null) p := by
  induction p using JVal.induct with
  | null => intro t; rw [mergeNode_nonobj _ _ (by simp), rfc_nonobj _ _ (by simp)]
  | bool b => intro t; rw [mergeNode_nonobj _ _ (by simp), rfc_nonobj _ _ (by simp)]
  | int i => intro t; rw [mergeNode_nonobj _ _ (by simp), rfc_nonobj _ _ (by simp)]
  | f64 b => intro t; rw [mergeNode_nonobj _ _ (by simp), rfc_nonobj _ _ (by simp)]
  | str s => intro t; rw [mergeNode_nonobj _ _ (by simp), rfc_nonobj _ _ (by simp)]
  | arr xs _ => intro t; rw [mergeNode_nonobj _ _ (by simp), rfc_nonobj _ _ (by simp)]
  | obj pms ih =>
    intro t
    rw [mergeNode_obj, rfc_obj, targetMembers_eq, foldl_mstep_eq pms ih]

end IwModel.Merge

/-! ## What `MergePatch` means member by member (declarative reading of RFC 7386) -/
namespace IwModel.Rfc
open IwModel

def keysNodup (ms : Members) : Prop := (ms.map (·.1)).Nodup

theorem lookup_remove_self (ms : Members) (k : Bytes) (h : keysNodup ms) : (remove ms k).lookup k = none := by
  induction ms with
  | nil => rfl
  | cons q r ih =>
    obtain ⟨k', v'⟩ := q
    have hn : k' ∉ r.map (·.1) ∧ keysNodup r := by simpa [keysNodup] using h
    by_cases hk : k' == k
    · have : k' = k := by simpa using hk
      subst this
      simp only [remove, hk, ↓reduceIte]
      rw [List.lookup_eq_none_iff]
      intro p hp
      have : p.1 ≠ k' := fun e => hn.1 (by rw [← e]; exact List.mem_map_of_mem hp)
      rw [bne_iff_ne]
      exact fun e => this e.symm
    · simp only [remove, hk, Bool.false_eq_true, ↓reduceIte, List.lookup]
      have : (k == k') = false := Merge.beq_false_symm (by simpa using hk)
      rw [this]
      exact ih hn.2

theorem lookup_remove_other (ms : Members) (k k2 : Bytes) (h : k2 ≠ k) : (remove ms k).lookup k2 = ms.lookup k2 := by
  induction ms with
  | nil => rfl
  | cons q r ih =>
    obtain ⟨k', v'⟩ := q
    by_cases hk : k' == k
    · have : k' = k := by simpa using hk
      subst this
      have : (k2 == k') = false := by simpa [beq_eq_false_iff_ne] using h
      simp [remove, List.lookup, this]
    · simp only [remove, hk, Bool.false_eq_true, ↓reduceIte, List.lookup]
      rw [ih]

theorem lookup_put_self (ms : Members) (k : Bytes) (v : JVal) : (put ms k v).lookup k = some v := by
  induction ms with
  | nil => simp [put]
  | cons q r ih =>
    obtain ⟨k', v'⟩ := q
    by_cases hk : k' == k
    · simp [put, hk]
    · have : (k == k') = false := Merge.beq_false_symm (by simpa using hk)
      simp only [put, hk, Bool.false_eq_true, ↓reduceIte, List.lookup, this]
      exact ih

theorem lookup_put_other (ms : Members) (k k2 : Bytes) (v : JVal) (h : k2 ≠ k) :
    (put ms k v).lookup k2 = ms.lookup k2 := by
  induction ms with
  | nil =>
    have : (k2 == k) = false := by simpa [beq_eq_false_iff_ne] using h
    simp [put, List.lookup, this]
  | cons q r ih =>
    obtain ⟨k', v'⟩ := q
    by_cases hk : k' == k
    · have : k' = k := by simpa using hk
      subst this
      have : (k2 == k') = false := by simpa [beq_eq_false_iff_ne] using h
      simp [put, List.lookup, this]
    · simp only [put, hk, Bool.false_eq_true, ↓reduceIte, List.lookup]
      rw [ih]

theorem keys_remove_sub (ms : Members) (k x : Bytes) (h : x ∈ (remove ms k).map (·.1)) : x ∈ ms.map (·.1) := by
  induction ms with
  | nil => simp [remove] at h
  | cons q r ih =>
    obtain ⟨k', v'⟩ := q
    by_cases hk : k' == k
    · simp only [remove, hk, ↓reduceIte] at h
      simp only [List.map_cons, List.mem_cons]; exact Or.inr h
    · simp only [remove, hk, Bool.false_eq_true, ↓reduceIte, List.map_cons, List.mem_cons] at h ⊢
      rcases h with h | h
      · exact Or.inl h
      · exact Or.inr (ih h)

theorem keysNodup_remove (ms : Members) (k : Bytes) (h : keysNodup ms) : keysNodup (remove ms k) := by
  induction ms with
  | nil => simpa [remove] using h
  | cons q r ih =>
    obtain ⟨k', v'⟩ := q
    have hn : k' ∉ r.map (·.1) ∧ keysNodup r := by simpa [keysNodup] using h
    by_cases hk : k' == k
    · simp only [remove, hk, ↓reduceIte]; exact hn.2
    · simp only [remove, hk, Bool.false_eq_true, ↓reduceIte]
      have := ih hn.2
      simp only [keysNodup, List.map_cons, List.nodup_cons]
      exact ⟨fun hx => hn.1 (keys_remove_sub r k k' hx), this⟩

theorem keys_put_sub (ms : Members) (k : Bytes) (v : JVal) (x : Bytes) (h : x ∈ (put ms k v).map (·.1)) :
    x = k ∨ x ∈ ms.map (·.1) := by
  induction ms with
  | nil => simp [put] at h; exact Or.inl h
  | cons q r ih =>
    obtain ⟨k', v'⟩ := q
    by_cases hk : k' == k
    · have : k' = k := by simpa using hk
      subst this
      simp only [put, hk, ↓reduceIte, List.map_cons, List.mem_cons] at h ⊢
      rcases h with h | h
      · exact Or.inl h
      · exact Or.inr (Or.inr h)
    · simp only [put, hk, Bool.false_eq_true, ↓reduceIte, List.map_cons, List.mem_cons] at h ⊢
      rcases h with h | h
      · exact Or.inr (Or.inl h)
      · rcases ih h with h | h
        · exact Or.inl h
        · exact Or.inr (Or.inr h)

theorem keysNodup_put (ms : Members) (k : Bytes) (v : JVal) (h : keysNodup ms) : keysNodup (put ms k v) := by
  induction ms with
  | nil => simp [put, keysNodup]
  | cons q r ih =>
    obtain ⟨k', v'⟩ := q
    have hn : k' ∉ r.map (·.1) ∧ keysNodup r := by simpa [keysNodup] using h
    by_cases hk : k' == k
    · have : k' = k := by simpa using hk
      subst this
      simp only [put, hk, ↓reduceIte]
      simpa [keysNodup] using hn
    · simp only [put, hk, Bool.false_eq_true, ↓reduceIte]
      have := ih hn.2
      simp only [keysNodup, List.map_cons, List.nodup_cons]
      refine ⟨fun hx => ?_, this⟩
      rcases keys_put_sub r k v k' hx with e | e
      · exact absurd e (by simpa using hk : ¬ k' = k)
      · exact hn.1 e

end IwModel.Rfc

namespace IwModel.Merge
open IwModel IwModel.Rfc

/-- what one member of the result is, given the patch member (if any) and the target member (if any) -/
def memberSpec (pv : Option JVal) (tv : Option JVal) : Option JVal :=
  match pv with
  | none => tv
  | some v => if Rfc.isNull v then none else some (Rfc.mergePatch (tv.getD .null) v)

theorem keysNodup_rstep (acc : Members) (q : Bytes × JVal) (h : keysNodup acc) : keysNodup (rstep acc q) := by
  unfold rstep
  split
  · exact keysNodup_remove _ _ h
  · exact keysNodup_put _ _ _ h

theorem lookup_rstep_self (acc : Members) (q : Bytes × JVal) (h : keysNodup acc) :
    (rstep acc q).lookup q.1 = memberSpec (some q.2) (acc.lookup q.1) := by
  unfold rstep memberSpec
  by_cases hn : Rfc.isNull q.2 = true
  · simp only [hn, ↓reduceIte]
    exact lookup_remove_self _ _ h
  · simp only [hn, Bool.false_eq_true, ↓reduceIte, lookup_put_self, Rfc.get]

theorem lookup_rstep_other (acc : Members) (q : Bytes × JVal) (k : Bytes) (h : k ≠ q.1) :
    (rstep acc q).lookup k = acc.lookup k := by
  unfold rstep
  split
  · exact lookup_remove_other _ _ _ h
  · exact lookup_put_other _ _ _ _ h

theorem lookup_foldl_rstep (pms : Members) (acc : Members) (hp : keysNodup pms) (ha : keysNodup acc) (k : Bytes) :
    (pms.foldl rstep acc).lookup k = memberSpec (pms.lookup k) (acc.lookup k) ∧ keysNodup (pms.foldl rstep acc) := by
  induction pms generalizing acc with
  | nil => exact ⟨rfl, ha⟩
  | cons q r ih =>
    obtain ⟨kq, vq⟩ := q
    have hn : kq ∉ r.map (·.1) ∧ keysNodup r := by simpa [keysNodup] using hp
    have ha' := keysNodup_rstep acc (kq, vq) ha
    obtain ⟨h1, h2⟩ := ih (rstep acc (kq, vq)) hn.2 ha'
    refine ⟨?_, h2⟩
    simp only [List.foldl_cons]
    rw [h1]
    by_cases hk : k = kq
    · subst hk
      have hr : r.lookup k = none := by
        rw [List.lookup_eq_none_iff]
        intro p hpm
        rw [bne_iff_ne]
        exact fun e => hn.1 (by rw [e]; exact List.mem_map_of_mem hpm)
      rw [hr]
      simp only [memberSpec, List.lookup, beq_self_eq_true]
      exact lookup_rstep_self acc (k, vq) ha
    · have hb : (k == kq) = false := by simpa [beq_eq_false_iff_ne] using hk
      simp only [List.lookup, hb]
      rw [lookup_rstep_other acc (kq, vq) k hk]

end IwModel.Merge
