import IwModel.Lemmas.ExfInv
/-! Writes refine the two-layer reference: each private window takes its part of the request into its overlay, every other
    byte goes to the file. -/
namespace IwModel.Exf
open IwModel

/-! ## the two-layer reference: write -/

/-- the part of a request `[off, off+|d|)` that falls into the mapped part of `s`: slot-relative start, bytes -/
def clip (s : Slot) (off : Nat) (d : Bytes) : Nat × Bytes :=
  (max off s.off - s.off, (d.drop (max off s.off - off)).take (min (off + d.length) (s.off + s.len) - max off s.off))

/-- overlay layer: a private window stores its part of the request (copy-on-write of the pages touched) -/
def layOvl (ps : Nat) (file : Bytes) (off : Nat) (d : Bytes) (s : Slot) : Slot :=
  if s.priv then (slotWrite ps file s (clip s off d).1 (clip s off d).2).1 else s

/-- byte `i` is mapped by a private window -/
def privCov (slots : List Slot) (i : Nat) : Bool := slots.any fun s => s.priv && covers s i

/-- file layer: every byte of the request that no private window maps -/
def layFile (file : Bytes) (slots : List Slot) (off : Nat) (d : Bytes) : Bytes :=
  (List.range file.length).map fun i =>
    if off ≤ i ∧ i < off + d.length ∧ privCov slots i = false then d.getD (i - off) 0 else file.getD i 0

/-- reference write: same size handling as `_exfile_write`, then the two layers are updated; no request splitting -/
def layWrite (st : St) (off : Int) (d : Bytes) : Rc × Nat × St :=
  if off < 0 ∨ off + d.length > offTMax then (.oob, 0, st)
  else if st.maxoff ≠ 0 ∧ off.toNat + d.length > st.maxoff then (.maxoff, 0, st)
  else
    let r := if off.toNat + d.length > st.fsize then ensureSize st (off.toNat + d.length) else (.ok, st)
    if r.1 ≠ .ok then (r.1, 0, r.2)
    else (.ok, d.length, { r.2 with slots := r.2.slots.map (layOvl r.2.psize r.2.file off.toNat d),
                                    file := layFile r.2.file r.2.slots off.toNat d })

/-! ## byte-wise facts -/

theorem writeAt_getD (f : Bytes) (off : Nat) (d : Bytes) (i : Nat) :
    (writeAt f off d).getD i 0 = if off ≤ i ∧ i < off + d.length then d.getD (i - off) 0 else f.getD i 0 := by
  by_cases hd : d = []
  · subst hd; simp [writeAt_nil]; omega
  simp only [List.getD_eq_getElem?_getD, getElem?_writeAt _ _ _ hd]
  by_cases h1 : i < off
  · simp [h1, show ¬ (off ≤ i ∧ i < off + d.length) by omega]
  · by_cases h2 : i < off + d.length
    · simp [h1, h2, show off ≤ i by omega]
    · simp [h1, h2]

theorem writeAt_getElem?_ge (f : Bytes) (off : Nat) (d : Bytes) (i : Nat) (h : off + d.length ≤ i) :
    (writeAt f off d)[i]? = f[i]? := by
  by_cases hd : d = []
  · subst hd; rfl
  rw [getElem?_writeAt _ _ _ hd, if_neg (by omega), if_neg (by omega)]

theorem ext_getD (a b : Bytes) (hl : a.length = b.length) (h : ∀ i, i < a.length → a.getD i 0 = b.getD i 0) : a = b := by
  apply List.ext_getElem hl
  intro i h1 h2
  have := h i h1
  simp only [List.getD_eq_getElem?_getD, List.getElem?_eq_getElem h1, List.getElem?_eq_getElem h2, Option.getD_some] at this
  exact this

theorem getD_take_drop (d : Bytes) (a l k : Nat) (hk : k < l) : ((d.drop a).take l).getD k 0 = d.getD (a + k) 0 := by
  simp only [List.getD_eq_getElem?_getD, List.getElem?_take, hk, if_true, List.getElem?_drop]

theorem length_layFile (file : Bytes) (slots : List Slot) (off : Nat) (d : Bytes) :
    (layFile file slots off d).length = file.length := by simp [layFile]

theorem layFile_getD (file : Bytes) (slots : List Slot) (off : Nat) (d : Bytes) (i : Nat) (hi : i < file.length) :
    (layFile file slots off d).getD i 0 =
      if off ≤ i ∧ i < off + d.length ∧ privCov slots i = false then d.getD (i - off) 0 else file.getD i 0 := by
  simp only [layFile, List.getD_eq_getElem?_getD, List.getElem?_map, List.getElem?_range hi, Option.map_some,
    Option.getD_some]

theorem privCov_false (slots : List Slot) (i : Nat) (h : ∀ t ∈ slots, covers t i = false) : privCov slots i = false := by
  simp only [privCov, List.any_eq_false, Bool.and_eq_true, not_and, Bool.not_eq_true]
  intro t ht _
  exact h t ht

theorem privCov_cons (s : Slot) (rest : List Slot) (i : Nat) :
    privCov (s :: rest) i = ((s.priv && covers s i) || privCov rest i) := by simp [privCov]

/-- a plain `pwrite` is the file layer when no byte of the range is mapped privately -/
theorem writeAt_eq_layFile (file : Bytes) (slots : List Slot) (off : Nat) (d : Bytes) (hlen : off + d.length ≤ file.length)
    (h : ∀ i, off ≤ i → i < off + d.length → privCov slots i = false) : writeAt file off d = layFile file slots off d := by
  apply ext_getD
  · rw [length_writeAt_inside _ _ _ hlen, length_layFile]
  · intro i hi
    rw [length_writeAt_inside _ _ _ hlen] at hi
    rw [writeAt_getD, layFile_getD _ _ _ _ _ hi]
    by_cases hc : off ≤ i ∧ i < off + d.length
    · rw [if_pos hc, if_pos ⟨hc.1, hc.2, h i hc.1 hc.2⟩]
    · rw [if_neg hc, if_neg (by intro hx; exact hc ⟨hx.1, hx.2.1⟩)]

/-! ## a window's part of the request -/

theorem clip_empty (s : Slot) (off : Nat) (d : Bytes)
    (h : d.length = 0 ∨ s.len = 0 ∨ off + d.length ≤ s.off ∨ s.off + s.len ≤ off) :
    (clip s off d).2 = [] := by
  have : min (off + d.length) (s.off + s.len) - max off s.off = 0 := by omega
  simp only [clip, this, List.take_zero]

theorem layOvl_empty (ps : Nat) (file : Bytes) (off : Nat) (d : Bytes) (s : Slot) (h : (clip s off d).2 = []) :
    layOvl ps file off d s = s := by
  unfold layOvl
  rw [h]
  split <;> rfl

theorem cowPage_congr (ps : Nat) (f1 f : Bytes) (t : Slot) (p : Nat)
    (h : readAt f1 (t.off + p * ps) ps = readAt f (t.off + p * ps) ps) : cowPage ps f1 t p = cowPage ps f t p := by
  unfold cowPage; rw [h]

theorem cowFold_congr (ps : Nat) (f1 f : Bytes) (p0 : Nat) : ∀ (cnt : Nat) (t : Slot),
    (∀ p, readAt f1 (t.off + p * ps) ps = readAt f (t.off + p * ps) ps) →
    (List.range cnt).foldl (fun s k => cowPage ps f1 s (p0 + k)) t = (List.range cnt).foldl (fun s k => cowPage ps f s (p0 + k)) t
  | 0, _, _ => rfl
  | cnt + 1, t, h => by
    simp only [List.range_succ, List.foldl_append, List.foldl_cons, List.foldl_nil]
    rw [cowFold_congr ps f1 f p0 cnt t h]
    apply cowPage_congr
    have := cowFold_geom ps f p0 cnt t
    simp only [] at this
    rw [this.1]; exact h _

/-- the window a store leaves depends on the file only through the pages of that window -/
theorem slotWrite_fst_congr (ps : Nat) (f1 f : Bytes) (s : Slot) (r : Nat) (d : Bytes)
    (h : ∀ p, readAt f1 (s.off + p * ps) ps = readAt f (s.off + p * ps) ps) :
    (slotWrite ps f1 s r d).1 = (slotWrite ps f s r d).1 := by
  cases d with
  | nil => rfl
  | cons x xs =>
    by_cases hp : s.priv = true
    · simp only [slotWrite, hp, if_true]
      rw [cowFold_congr ps f1 f _ _ s h]
    · have hp' : s.priv = false := by simpa using hp
      rw [slotWrite_shared _ _ _ _ _ hp', slotWrite_shared _ _ _ _ _ hp']

theorem readAt_congr_from (f1 f : Bytes) (a o n : Nat) (h : ∀ i, a ≤ i → f1[i]? = f[i]?) (ha : a ≤ o) :
    readAt f1 o n = readAt f o n := by
  apply List.ext_getElem?
  intro i
  rw [getElem?_readAt, getElem?_readAt, h (o + i) (by omega)]

theorem layOvl_congr (ps : Nat) (f1 f : Bytes) (off : Nat) (d : Bytes) (s : Slot) (h : ∀ i, s.off ≤ i → f1[i]? = f[i]?) :
    layOvl ps f1 off d s = layOvl ps f off d s := by
  unfold layOvl
  split
  · exact slotWrite_fst_congr ps f1 f s _ _ (fun p => readAt_congr_from f1 f s.off _ _ h (by omega))
  · rfl

theorem slotWrite_snd_getD (ps : Nat) (f : Bytes) (s : Slot) (r : Nat) (d : Bytes) (i : Nat) :
    (slotWrite ps f s r d).2.getD i 0 =
      if s.priv = false ∧ s.off + r ≤ i ∧ i < s.off + r + d.length then d.getD (i - (s.off + r)) 0 else f.getD i 0 := by
  by_cases hp : s.priv = true
  · have : (slotWrite ps f s r d).2 = f := by
      cases d with
      | nil => rfl
      | cons x xs => simp [slotWrite, hp]
    rw [this, if_neg (by simp [hp])]
  · have hp' : s.priv = false := by simpa using hp
    rw [slotWrite_shared _ _ _ _ _ hp']
    simp only [writeAt_getD, hp', true_and]

theorem slotWrite_snd_getElem?_ge (ps : Nat) (f : Bytes) (s : Slot) (r : Nat) (d : Bytes) (i : Nat)
    (h : s.off + r + d.length ≤ i) : (slotWrite ps f s r d).2[i]? = f[i]? := by
  by_cases hp : s.priv = true
  · have : (slotWrite ps f s r d).2 = f := by
      cases d with
      | nil => rfl
      | cons x xs => simp [slotWrite, hp]
    rw [this]
  · have hp' : s.priv = false := by simpa using hp
    rw [slotWrite_shared _ _ _ _ _ hp']
    exact writeAt_getElem?_ge _ _ _ _ h

theorem slotWrite_snd_length (ps : Nat) (f : Bytes) (s : Slot) (r : Nat) (d : Bytes) (h : s.off + r + d.length ≤ f.length) :
    (slotWrite ps f s r d).2.length = f.length := by
  by_cases hp : s.priv = true
  · have : (slotWrite ps f s r d).2 = f := by
      cases d with
      | nil => rfl
      | cons x xs => simp [slotWrite, hp]
    rw [this]
  · have hp' : s.priv = false := by simpa using hp
    rw [slotWrite_shared _ _ _ _ _ hp']
    exact length_writeAt_inside _ _ _ h

/-! ## the pieces, re-indexed -/

def shiftSeg (m : Nat) (g : Seg) : Seg := { g with slot := g.slot.map (· + m) }

theorem optSeg_shift (sl : Option Nat) (off len m : Nat) :
    (optSeg sl off len).map (shiftSeg m) = optSeg (sl.map (· + m)) off len := by
  unfold optSeg; split <;> simp [shiftSeg]

theorem segs_shift : ∀ (slots : List Slot) (k m off n : Nat), segs slots (k + m) off n = (segs slots k off n).map (shiftSeg m)
  | [], k, m, off, n => by simp only [segs, optSeg_shift, Option.map_none]
  | s :: rest, k, m, off, n => by
    unfold segs
    by_cases hn : n = 0
    · simp [hn]
    simp only [hn, if_false]
    by_cases hb : s.len = 0 ∨ off + n ≤ s.off
    · simp [hb, shiftSeg]
    simp only [hb, if_false, List.map_append, optSeg_shift, Option.map_none, Option.map_some]
    rw [show k + m + 1 = (k + 1) + m by omega, segs_shift rest (k + 1) m]

theorem writeSeg_shift1 (ps : Nat) (file : Bytes) (s : Slot) (rest : List Slot) (g : Seg) (d : Bytes) :
    writeSeg ps file (s :: rest) (shiftSeg 1 g) d = (s :: (writeSeg ps file rest g d).1, (writeSeg ps file rest g d).2) := by
  unfold writeSeg shiftSeg
  cases g.slot with
  | none => rfl
  | some j =>
    simp only [Option.map_some, List.getElem?_cons_succ]
    cases rest[j]? with
    | none => rfl
    | some t => simp only [List.set_cons_succ]

theorem writeSegs_shift1 (ps : Nat) (s : Slot) : ∀ (gs : List Seg) (d : Bytes) (rest : List Slot) (file : Bytes),
    writeSegs ps (gs.map (shiftSeg 1)) d (s :: rest) file =
      (s :: (writeSegs ps gs d rest file).1, (writeSegs ps gs d rest file).2)
  | [], _, _, _ => rfl
  | g :: gs, d, rest, file => by
    simp only [List.map_cons]
    unfold writeSegs
    rw [writeSeg_shift1]
    simp only []
    rw [show (shiftSeg 1 g).len = g.len from rfl]
    exact writeSegs_shift1 ps s gs _ _ _

theorem writeSegs_optSeg_file (ps : Nat) (off l : Nat) (gs : List Seg) (d : Bytes) (slots : List Slot) (file : Bytes) :
    writeSegs ps (optSeg none off l ++ gs) d slots file = writeSegs ps gs (d.drop l) slots (writeAt file off (d.take l)) := by
  unfold optSeg
  split
  · simp [writeSegs, writeSeg]
  · have : l = 0 := by omega
    subst this
    simp [writeAt_nil]

theorem writeSegs_optSeg_slot (ps : Nat) (o l : Nat) (gs : List Seg) (d : Bytes) (s : Slot) (rest : List Slot) (file : Bytes) :
    writeSegs ps (optSeg (some 0) o l ++ gs) d (s :: rest) file =
      writeSegs ps gs (d.drop l) ((slotWrite ps file s (o - s.off) (d.take l)).1 :: rest)
        (slotWrite ps file s (o - s.off) (d.take l)).2 := by
  unfold optSeg
  split
  · simp [writeSegs, writeSeg]
  · have : l = 0 := by omega
    subst this
    simp [slotWrite]

theorem segs_cons_main (s : Slot) (rest : List Slot) (k off n : Nat) (hn : n ≠ 0) (hb : ¬ (s.len = 0 ∨ off + n ≤ s.off)) :
    segs (s :: rest) k off n =
      optSeg none off (preLen s off n) ++ optSeg (some k) (off + preLen s off n) (midLen s (off + preLen s off n) (n - preLen s off n)) ++
        segs rest (k + 1) (off + preLen s off n + midLen s (off + preLen s off n) (n - preLen s off n))
          (n - preLen s off n - midLen s (off + preLen s off n) (n - preLen s off n)) := by
  conv => lhs; unfold segs
  simp only [hn, hb, if_false]

theorem segs_cons_skip (s : Slot) (rest : List Slot) (k off n : Nat) (hn : n ≠ 0) (hb : s.len = 0 ∨ off + n ≤ s.off) :
    segs (s :: rest) k off n = [⟨none, off, n⟩] := by
  conv => lhs; unfold segs
  simp only [hn, hb, if_false, if_true]

/-- where the loop cuts a request at a window it meets -/
theorem cut_points (s : Slot) (off n : Nat) (hn : n ≠ 0) (hb : ¬ (s.len = 0 ∨ off + n ≤ s.off)) (hin : off < s.off + s.len) :
    off + preLen s off n = max off s.off ∧
    off + preLen s off n + midLen s (off + preLen s off n) (n - preLen s off n) = min (off + n) (s.off + s.len) := by
  unfold preLen midLen
  by_cases h1 : s.off > off
  · simp only [h1, if_true]
    rw [Nat.min_eq_right (by omega)]
    rw [if_pos ⟨by omega, by omega, by omega⟩]
    omega
  · simp only [h1, if_false, Nat.add_zero, Nat.sub_zero]
    rw [if_pos ⟨by omega, by omega, hin⟩]
    omega

theorem map_eq_self {α : Type} (l : List α) (f : α → α) (h : ∀ t ∈ l, f t = t) : l.map f = l := by
  induction l with
  | nil => rfl
  | cons x xs ih =>
    rw [List.map_cons, h x List.mem_cons_self, ih (fun t ht => h t (List.mem_cons_of_mem _ ht))]

theorem layOvl_clip_congr (ps : Nat) (f : Bytes) (o1 o2 : Nat) (d1 d2 : Bytes) (t : Slot) (h : clip t o1 d1 = clip t o2 d2) :
    layOvl ps f o1 d1 t = layOvl ps f o2 d2 t := by
  unfold layOvl; rw [h]

theorem layFile_congr (file : Bytes) (a b : List Slot) (off : Nat) (d : Bytes)
    (h : ∀ i, off ≤ i → i < off + d.length → privCov a i = privCov b i) : layFile file a off d = layFile file b off d := by
  apply ext_getD
  · rw [length_layFile, length_layFile]
  · intro i hi
    rw [length_layFile] at hi
    rw [layFile_getD _ _ _ _ _ hi, layFile_getD _ _ _ _ _ hi]
    by_cases hc : off ≤ i ∧ i < off + d.length
    · rw [h i hc.1 hc.2]
    · rw [if_neg (by intro hx; exact hc ⟨hx.1, hx.2.1⟩), if_neg (by intro hx; exact hc ⟨hx.1, hx.2.1⟩)]

/-- nothing of the request is mapped: one `pwrite`, the windows stay -/
theorem lay_trivial (ps : Nat) (file : Bytes) (slots : List Slot) (off : Nat) (d : Bytes) (hlen : off + d.length ≤ file.length)
    (h : ∀ t ∈ slots, d.length = 0 ∨ t.len = 0 ∨ off + d.length ≤ t.off ∨ t.off + t.len ≤ off) :
    (slots, writeAt file off d) = (slots.map (layOvl ps file off d), layFile file slots off d) := by
  rw [map_eq_self _ _ (fun t ht => layOvl_empty ps file off d t (clip_empty t off d (h t ht)))]
  rw [writeAt_eq_layFile file slots off d hlen]
  intro i h1 h2
  apply privCov_false
  intro t ht
  simp only [covers, Bool.and_eq_false_iff, decide_eq_false_iff_not]
  rcases h t ht with h | h | h | h <;> omega

theorem covers_false_of (t : Slot) (i : Nat) (h : t.len = 0 ∨ i < t.off ∨ t.off + t.len ≤ i) : covers t i = false := by
  simp only [covers, Bool.and_eq_false_iff, decide_eq_false_iff_not]
  omega

theorem drop3 (d : Bytes) (a b c e : Nat) (h : a + b + c = e) : ((d.drop a).drop b).drop c = d.drop e := by
  subst h
  simp only [List.drop_drop]

theorem getD_take (d : Bytes) (l k : Nat) (hk : k < l) : (d.take l).getD k 0 = d.getD k 0 := by
  simp only [List.getD_eq_getElem?_getD, List.getElem?_take, hk, if_true]

theorem getD_drop_drop (d : Bytes) (a b k : Nat) : ((d.drop a).drop b).getD k 0 = d.getD (a + b + k) 0 := by
  simp only [List.getD_eq_getElem?_getD, List.getElem?_drop]
  congr 2; omega

/-- **the request-splitting loop stores exactly the two layers** -/
theorem writeSegs_eq_lay (ps : Nat) : ∀ (slots : List Slot) (fsize off n : Nat) (d file : Bytes),
    WInv slots fsize → d.length = n → off + n ≤ file.length →
    writeSegs ps (segs slots 0 off n) d slots file = (slots.map (layOvl ps file off d), layFile file slots off d)
  | [], fsize, off, n, d, file, _, hd, hlen => by
    have h1 := writeSegs_optSeg_file ps off n [] d [] file
    rw [List.append_nil] at h1
    simp only [segs]
    rw [h1]
    simp only [writeSegs]
    rw [← hd, List.take_length]
    exact lay_trivial ps file [] off d (by omega) (by simp)
  | s :: rest, fsize, off, n, d, file, hw, hd, hlen => by
    have hpw := List.pairwise_cons.mp hw.1
    have hs := hw.2 s List.mem_cons_self
    have hsl := slotLen_le_maxlen s fsize
    have hrest : ∀ t ∈ rest, s.off + s.len ≤ t.off := by
      intro t ht; have := hpw.1 t ht; omega
    by_cases hn : n = 0
    · have hd0 : d = [] := List.eq_nil_of_length_eq_zero (by omega)
      subst hd0
      rw [hn, segs_zero]
      simp only [writeSegs]
      exact lay_trivial ps file (s :: rest) off [] (by simp; omega) (by intro t _; left; rfl)
    by_cases hb : s.len = 0 ∨ off + n ≤ s.off
    · rw [segs_cons_skip s rest 0 off n hn hb]
      simp only [writeSegs, writeSeg]
      rw [← hd, List.take_length]
      apply lay_trivial ps file (s :: rest) off d (by omega)
      intro t ht
      rcases List.mem_cons.mp ht with rfl | ht'
      · rcases hb with h | h
        · exact Or.inr (Or.inl h)
        · exact Or.inr (Or.inr (Or.inl (by omega)))
      · rcases hb with h | h
        · right; left
          rw [(hw.2 t (List.mem_cons_of_mem _ ht')).2]
          exact slotLen_zero_of_ge s t fsize hs.1 (by rw [← hs.2]; exact h) (by have := hrest t ht'; omega)
        · right; right; left; have := hrest t ht'; omega
    rw [segs_cons_main s rest 0 off n hn hb, List.append_assoc, writeSegs_optSeg_file, writeSegs_optSeg_slot,
      segs_shift rest 0 1, writeSegs_shift1]
    by_cases hin : s.off + s.len ≤ off
    · -- the request starts behind the mapped part of this window
      have h1 : preLen s off n = 0 := by unfold preLen; rw [if_neg (by omega)]
      rw [h1]
      simp only [Nat.add_zero, Nat.sub_zero]
      have h2 : midLen s off n = 0 := by unfold midLen; rw [if_neg (by omega)]
      rw [h2]
      simp only [Nat.add_zero, Nat.sub_zero, List.take_zero, List.drop_zero, writeAt_nil, slotWrite]
      rw [writeSegs_eq_lay ps rest fsize off n d file (WInv_tail s rest fsize hw) hd hlen]
      simp only [List.map_cons]
      rw [layOvl_empty ps file off d s (clip_empty s off d (Or.inr (Or.inr (Or.inr hin))))]
      congr 1
      apply layFile_congr
      intro i hi1 _
      rw [privCov_cons, covers_false_of s i (by omega)]
      simp
    · -- the request meets the mapped part of this window
      have hcut := cut_points s off n hn hb (by omega)
      generalize preLen s off n = l1 at hcut ⊢
      generalize midLen s (off + l1) (n - l1) = l2 at hcut ⊢
      obtain ⟨hA, hB⟩ := hcut
      have hlenT : (d.take l1).length = l1 := by rw [List.length_take]; omega
      have hlenD2 : ((d.drop l1).take l2).length = l2 := by rw [List.length_take, List.length_drop]; omega
      have hlenD' : ((d.drop l1).drop l2).length = n - l1 - l2 := by rw [List.length_drop, List.length_drop]; omega
      have hr2 : s.off + (off + l1 - s.off) = off + l1 := by omega
      have hf1len : (writeAt file off (d.take l1)).length = file.length :=
        length_writeAt_inside _ _ _ (by rw [hlenT]; omega)
      have hf2len : (slotWrite ps (writeAt file off (d.take l1)) s (off + l1 - s.off) ((d.drop l1).take l2)).2.length = file.length := by
        rw [slotWrite_snd_length _ _ _ _ _ (by rw [hf1len, hlenD2, hr2]; omega), hf1len]
      -- the file after the two pieces agrees with the file before from any later window on
      have hagree1 : ∀ i, s.off ≤ i → (writeAt file off (d.take l1))[i]? = file[i]? := by
        intro i hi
        by_cases h0 : l1 = 0
        · rw [h0, List.take_zero, writeAt_nil]
        · exact writeAt_getElem?_ge _ _ _ _ (by rw [hlenT]; omega)
      have hagree2 : ∀ i, s.off + s.len ≤ i →
          (slotWrite ps (writeAt file off (d.take l1)) s (off + l1 - s.off) ((d.drop l1).take l2)).2[i]? = file[i]? := by
        intro i hi
        rw [slotWrite_snd_getElem?_ge _ _ _ _ _ _ (by rw [hlenD2, hr2]; omega)]
        exact hagree1 i (by omega)
      rw [writeSegs_eq_lay ps rest fsize _ _ _ _ (WInv_tail s rest fsize hw) hlenD' (by rw [hf2len]; omega)]
      simp only [List.map_cons]
      have hclip : clip s off d = (off + l1 - s.off, (d.drop l1).take l2) := by
        have e1 : max off s.off - s.off = off + l1 - s.off := by omega
        have e2 : max off s.off - off = l1 := by omega
        have e3 : min (off + d.length) (s.off + s.len) - max off s.off = l2 := by omega
        simp only [clip, e1, e2, e3]
      have hfst : (slotWrite ps (writeAt file off (d.take l1)) s (off + l1 - s.off) ((d.drop l1).take l2)).1 =
          layOvl ps file off d s := by
        unfold layOvl
        by_cases hp : s.priv = true
        · rw [if_pos hp, hclip]
          exact slotWrite_fst_congr ps _ file s _ _
            (fun p => readAt_congr_from _ file s.off _ _ hagree1 (by omega))
        · have hp' : s.priv = false := by simpa using hp
          rw [if_neg hp, slotWrite_shared _ _ _ _ _ hp']
      have hrestmap : rest.map (layOvl ps (slotWrite ps (writeAt file off (d.take l1)) s (off + l1 - s.off) ((d.drop l1).take l2)).2
            (off + l1 + l2) ((d.drop l1).drop l2)) = rest.map (layOvl ps file off d) := by
        apply List.map_congr_left
        intro t ht
        have hto := hrest t ht
        rw [layOvl_congr ps _ file _ _ t (fun i hi => hagree2 i (by omega))]
        apply layOvl_clip_congr
        have e1 : max (off + l1 + l2) t.off = max off t.off := by omega
        have e2 : off + l1 + l2 + ((d.drop l1).drop l2).length = off + d.length := by rw [hlenD']; omega
        have e3 : ((d.drop l1).drop l2).drop (max off t.off - (off + l1 + l2)) = d.drop (max off t.off - off) :=
          drop3 d _ _ _ _ (by omega)
        simp only [clip, e1, e2, e3]
      rw [hfst, hrestmap]
      congr 1
      -- the file layer, byte by byte
      apply ext_getD
      · rw [length_layFile, length_layFile, hf2len]
      · intro i hi
        rw [length_layFile, hf2len] at hi
        rw [layFile_getD _ _ _ _ _ (by rw [hf2len]; exact hi), layFile_getD _ _ _ _ _ hi, slotWrite_snd_getD, writeAt_getD,
          privCov_cons, hlenT, hlenD2, hlenD', hr2]
        have hrl : ∀ j, j < s.off + s.len → privCov rest j = false := by
          intro j hj
          apply privCov_false
          intro t ht
          exact covers_false_of t j (by have := hrest t ht; omega)
        by_cases hR1 : i < off ∨ off + n ≤ i
        · rw [if_neg (by omega), if_neg (by omega), if_neg (by omega), if_neg (by omega)]
        · by_cases hR2 : i < off + l1
          · have hcs : covers s i = false := covers_false_of s i (by omega)
            rw [if_neg (by omega), if_neg (by omega), if_pos (by omega), hcs, hrl i (by omega), getD_take _ _ _ (by omega),
              if_pos ⟨by omega, by omega, by simp⟩]
          · by_cases hR3 : i < off + l1 + l2
            · have hcs : covers s i = true := by
                simp only [covers, Bool.and_eq_true, decide_eq_true_eq]; omega
              rw [if_neg (by omega), hcs, hrl i (by omega)]
              by_cases hp : s.priv = true
              · rw [if_neg (by simp [hp]), if_neg (by omega), if_neg (by simp [hp])]
              · have hp' : s.priv = false := by simpa using hp
                rw [if_pos ⟨hp', by omega, by omega⟩, if_pos ⟨by omega, by omega, by simp [hp']⟩,
                  getD_take_drop _ _ _ _ (by omega)]
                congr 1; omega
            · have hcs : covers s i = false := covers_false_of s i (by omega)
              rw [hcs, getD_drop_drop]
              simp only [Bool.and_false, Bool.false_or]
              by_cases hpc : privCov rest i = false
              · rw [if_pos ⟨by omega, by omega, hpc⟩, if_pos ⟨by omega, by omega, hpc⟩]
                congr 1; omega
              · rw [if_neg (by intro hx; exact hpc hx.2.2), if_neg (by omega), if_neg (by omega),
                  if_neg (by intro hx; exact hpc hx.2.2)]

/-! ## the reference machine and the refinement -/

/-- **writes refine the two-layer reference** -/
theorem write_eq_lay (st : St) (off : Int) (d : Bytes) (h : PInv st) : write st off d = layWrite st off d := by
  unfold write layWrite
  split
  · rfl
  · simp only []
    split
    · rfl
    · generalize hr : (if off.toNat + d.length > st.fsize then ensureSize st (off.toNat + d.length) else (Rc.ok, st)) = r
      have hri : PInv r.2 ∧ (r.1 = .ok → off.toNat + d.length ≤ r.2.fsize) := by
        rw [← hr]; split
        · exact ⟨ensureSize_PInv _ _ h, ensureSize_ok_ge _ _ h.size.1⟩
        · exact ⟨h, fun _ => by show off.toNat + d.length ≤ st.fsize; omega⟩
      obtain ⟨rc, st1⟩ := r
      simp only []
      split
      · rfl
      · rename_i hok
        have hok' : rc = .ok := by simpa using hok
        have hb := hri.2 hok'
        have hdisk := hri.1.disk
        simp only [] at hb hdisk
        rw [writeSegs_eq_lay st1.psize st1.slots st1.fsize off.toNat d.length d st1.file hri.1.win rfl (by omega)]

/-- the two-layer reference machine: reads through the view, writes into the two layers, no request splitting; everything
    else (sizes, window management, the single-window stores of `copy`/`mmap`, the file-layer copy) as in the model -/
def layExec (st : St) : Op → St × Rc × Bytes
  | .write off d => let r := layWrite st off d; (r.2.2, r.1, [])
  | .read off n => let r := layRead st off n; (st, r.1, r.2)
  | op => exec st op

def layRun (st : St) : List Op → St × List (Rc × Bytes)
  | [] => (st, [])
  | op :: ops =>
    let r := layExec st op
    let r2 := layRun r.1 ops
    (r2.1, (r.2.1, r.2.2) :: r2.2)

theorem exec_eq_lay (st : St) (op : Op) (h : PInv st) : exec st op = layExec st op := by
  cases op with
  | write off d => simp only [exec, layExec, write_eq_lay _ _ _ h]
  | read off n => simp only [exec, layExec, read_eq_lay _ _ _ h.win h.disk]
  | copy _ _ _ => rfl
  | mmapWrite _ _ _ => rfl
  | truncate _ => rfl
  | ensure _ => rfl
  | addMmap _ _ _ => rfl
  | removeMmap _ => rfl
  | remapAll => rfl

theorem run_eq_layRun : ∀ (ops : List Op) (st : St), PInv st → run st ops = layRun st ops
  | [], _, _ => rfl
  | op :: ops, st, h => by
    have he := exec_eq_lay st op h
    have h' := exec_PInv st op h
    rw [he] at h'
    simp only [run, layRun, he]
    rw [run_eq_layRun ops _ h']

end IwModel.Exf
