import IwModel.Lemmas.FsmRun
import IwModel.Lemmas.FsmIdx
/-! The allocator invariant (`Inv`: index = maximal zero runs of the bitmap, cache valid, reserved blocks set)
and its preservation by the index primitives and by release. -/
namespace IwModel.Fsm

/-- the cached last free extent is either unset or an index entry -/
def LfOk (s : St) : Prop := s.lfoff ≠ 0 → (s.lfoff, s.lflen) ∈ s.tree

/-- index part of the invariant -/
structure IdxOk (s : St) : Prop where
  sorted : s.tree.Pairwise KeyLt
  idx : ∀ o l, (o, l) ∈ s.tree ↔ IsRun s.bits o l
  lf : LfOk s

/-- the allocator invariant -/
structure Inv (s : St) : Prop where
  ix : IdxOk s
  size : s.bits.size = nbits s
  hdr : 0 < hdrBlk s ∧ ∀ i, i < hdrBlk s → bit s.bits i = true
  bm : ∀ i, bmOffBlk s ≤ i → i < bmOffBlk s + bmLenBlk s → bit s.bits i = true
  /-- the bitmap lies behind the header and inside the range it describes -/
  hb : hdrBlk s ≤ bmOffBlk s
  bm_in : bmOffBlk s + bmLenBlk s < nbits s
  bmoff_al : s.bmoff % bsz s = 0
  bmlen_al : s.bmlen % bsz s = 0
  bmlen_pos : 0 < bmLenBlk s
  /-- the page holds at least one block -/
  au : 0 < aunitBlk s
  /-- the page is a whole number of blocks -/
  aunit_al : s.aunit % bsz s = 0
  /-- the bitmap starts on a page boundary, the header ends on a block boundary -/
  bmoff_pg : s.bmoff % s.aunit = 0
  hdr_al : s.hdrlen % bsz s = 0

/-- the geometry of the file is unchanged: everything but index, cache, bitmap content, file size and statistics -/
structure Frame (s s' : St) : Prop where
  bpow : s'.bpow = s.bpow
  aunit : s'.aunit = s.aunit
  hdrlen : s'.hdrlen = s.hdrlen
  bmoff : s'.bmoff = s.bmoff
  bmlen : s'.bmlen = s.bmlen
  strict : s'.strict = s.strict

theorem Frame.refl (s : St) : Frame s s := ⟨rfl, rfl, rfl, rfl, rfl, rfl⟩

theorem Frame.trans {a b c : St} (h1 : Frame a b) (h2 : Frame b c) : Frame a c :=
  ⟨h2.bpow.trans h1.bpow, h2.aunit.trans h1.aunit, h2.hdrlen.trans h1.hdrlen, h2.bmoff.trans h1.bmoff,
   h2.bmlen.trans h1.bmlen, h2.strict.trans h1.strict⟩

theorem Frame.nbits {s s' : St} (h : Frame s s') : Fsm.nbits s' = Fsm.nbits s := by simp [Fsm.nbits, h.bmlen]
theorem Frame.bsz {s s' : St} (h : Frame s s') : bsz s' = bsz s := by simp [Fsm.bsz, h.bpow]
theorem Frame.hdrBlk {s s' : St} (h : Frame s s') : hdrBlk s' = hdrBlk s := by simp [Fsm.hdrBlk, h.hdrlen, h.bsz]
theorem Frame.bmOffBlk {s s' : St} (h : Frame s s') : bmOffBlk s' = bmOffBlk s := by simp [Fsm.bmOffBlk, h.bmoff, h.bsz]
theorem Frame.bmLenBlk {s s' : St} (h : Frame s s') : bmLenBlk s' = bmLenBlk s := by simp [Fsm.bmLenBlk, h.bmlen, h.bsz]
theorem Frame.aunitBlk {s s' : St} (h : Frame s s') : aunitBlk s' = aunitBlk s := by simp [Fsm.aunitBlk, h.aunit, h.bsz]

/-! ### `_fsm_del_fbk`, `_fsm_put_fbk` -/

theorem delFbk_tree (s : St) (o l : Nat) : (delFbk s o l).tree = s.tree.erase (o, l) := by
  unfold delFbk delFbk2
  by_cases h : (o, l) ∈ s.tree
  · simp only [h, if_true]; split <;> rfl
  · simp only [h, if_false]; exact (List.erase_of_not_mem h).symm

theorem delFbk_bits (s : St) (o l : Nat) : (delFbk s o l).bits = s.bits := by
  unfold delFbk delFbk2; repeat' split
  all_goals rfl

theorem delFbk_frame (s : St) (o l : Nat) : Frame s (delFbk s o l) := by
  unfold delFbk delFbk2; repeat' split
  all_goals exact ⟨rfl, rfl, rfl, rfl, rfl, rfl⟩

theorem delFbk_lf {s : St} (hs : s.tree.Pairwise KeyLt) (hl : LfOk s) (o l : Nat) : LfOk (delFbk s o l) := by
  unfold delFbk delFbk2
  by_cases h : (o, l) ∈ s.tree
  · simp only [h, if_true]
    by_cases h2 : o = s.lfoff
    · simp only [h2, if_true]; intro c; exact absurd rfl c
    · simp only [h2, if_false]
      intro c
      have := hl c
      refine (mem_erase_sorted hs _ _).mpr ⟨?_, this⟩
      intro e
      exact h2 (by have := congrArg Prod.fst e; simpa using this.symm)
  · simp only [h, if_false]; exact hl

theorem putFbk_bits (s : St) (o l : Nat) : (putFbk s o l).bits = s.bits := by
  unfold putFbk; repeat' split
  all_goals rfl

theorem putFbk_frame (s : St) (o l : Nat) : Frame s (putFbk s o l) := by
  unfold putFbk; repeat' split
  all_goals exact ⟨rfl, rfl, rfl, rfl, rfl, rfl⟩

theorem mem_putFbk (s : St) (o l : Nat) (x : Ext) : x ∈ (putFbk s o l).tree ↔ x = (o, l) ∨ x ∈ s.tree := by
  unfold putFbk
  by_cases h : (o, l) ∈ s.tree
  · simp only [h, if_true]
    constructor
    · exact Or.inr
    · rintro (e | e)
      · subst e; exact h
      · exact e
  · simp only [h, if_false]
    split <;> exact mem_ins _ _ _

theorem sorted_putFbk {s : St} (hs : s.tree.Pairwise KeyLt) (o l : Nat) : (putFbk s o l).tree.Pairwise KeyLt := by
  unfold putFbk
  split
  · exact hs
  · split <;> exact sorted_ins _ _ hs

theorem putFbk_lf {s : St} (hl : LfOk s) (o l : Nat) : LfOk (putFbk s o l) := by
  unfold putFbk LfOk
  by_cases h : (o, l) ∈ s.tree
  · simp only [h, if_true]; exact hl
  · simp only [h, if_false]
    split
    · intro _; exact (mem_ins _ _ _).mpr (Or.inl rfl)
    · intro c; exact (mem_ins _ _ _).mpr (Or.inr (hl c))

/-- block `i` is allocated and is not one of the bitmap's own blocks: a header block or a block handed out to a caller -/
def UserUsed (s : St) (i : Nat) : Prop :=
  i < s.bits.size ∧ bit s.bits i = true ∧ ¬ (bmOffBlk s ≤ i ∧ i < bmOffBlk s + bmLenBlk s)

end IwModel.Fsm
