import IwModel.Model.ExfLsn
import IwModel.Lemmas.ExfDiverge
/-! Lemmas about the data listener of the extensible file: the functions with events are the functions of
`Model/Exf.lean`; what replaying the events gives. -/
namespace IwModel.Exf
open IwModel

/-! ## forgetting the events -/

theorem truncateL_base (m : Lsn) (st : St) (size : Nat) :
    ((truncateL m st size).1, (truncateL m st size).2.1) = truncate st size := by
  unfold truncateL truncate
  simp only []
  split
  · rfl
  · split
    · split <;> rfl
    · rfl

theorem ensureSizeL_base (m : Lsn) (st : St) (sz : Nat) :
    ((ensureSizeL m st sz).1, (ensureSizeL m st sz).2.1) = ensureSize st sz := by
  unfold ensureSizeL ensureSize
  split
  · rfl
  · simp only []
    split
    · rfl
    · split
      · split
        · rfl
        · exact truncateL_base _ _ _
      · exact truncateL_base _ _ _

theorem writeSegL_base (ps : Nat) (file : Bytes) (slots : List Slot) (g : Seg) (d : Bytes) :
    ((writeSegL ps file slots g d).1, (writeSegL ps file slots g d).2.1) = writeSeg ps file slots g d := by
  unfold writeSegL writeSeg
  cases g.slot with
  | none => rfl
  | some k =>
    simp only []
    cases slots[k]? with
    | none => rfl
    | some s => rfl

theorem writeSegsL_base (ps : Nat) : ∀ (gs : List Seg) (d : Bytes) (slots : List Slot) (file : Bytes),
    ((writeSegsL ps gs d slots file).1, (writeSegsL ps gs d slots file).2.1) = writeSegs ps gs d slots file
  | [], _, _, _ => rfl
  | g :: gs, d, slots, file => by
    unfold writeSegsL writeSegs
    have h := writeSegL_base ps file slots g (d.take g.len)
    rw [← h]
    simp only []
    exact writeSegsL_base ps gs _ _ _

theorem writeL_base (m : Lsn) (st : St) (off : Int) (d : Bytes) :
    ((writeL m st off d).1, (writeL m st off d).2.1, (writeL m st off d).2.2.1) = write st off d := by
  unfold writeL write
  split
  · rfl
  · simp only []
    split
    · rfl
    · by_cases hg : off.toNat + d.length > st.fsize
      · simp only [hg, if_true]
        have h := ensureSizeL_base m st (off.toNat + d.length)
        rw [← h]
        simp only []
        split
        · rfl
        · have h2 := writeSegsL_base (ensureSizeL m st (off.toNat + d.length)).2.1.psize
            (segs (ensureSizeL m st (off.toNat + d.length)).2.1.slots 0 off.toNat d.length) d
            (ensureSizeL m st (off.toNat + d.length)).2.1.slots (ensureSizeL m st (off.toNat + d.length)).2.1.file
          rw [← h2]
      · simp only [hg, if_false, ne_eq, not_true_eq_false]
        have h2 := writeSegsL_base st.psize (segs st.slots 0 off.toNat d.length) d st.slots st.file
        rw [← h2]

theorem fileCopy_zero (cbuf : Nat) (file : Bytes) (off noff : Nat) : fileCopy cbuf file off 0 noff = (.ok, file) := by
  unfold fileCopy
  have : (rangesOverlap off (off + 0) noff (noff + 0) && decide (noff > off)) = false := by
    unfold rangesOverlap
    simp only [Nat.add_zero, Bool.and_eq_false_imp, Bool.or_eq_true, Bool.and_eq_true, decide_eq_true_eq,
      decide_eq_false_iff_not]
    omega
  rw [this]
  simp [copyLoop]

theorem copyL_base (st : St) (off siz noff : Nat) :
    ((copyL st off siz noff).1, (copyL st off siz noff).2.1) = copy st off siz noff := by
  unfold copyL copy fileCopyL
  cases hsl : st.slots with
  | nil => rfl
  | cons s rest =>
    simp only []
    by_cases h : s.off = 0 ∧ s.len ≥ noff + siz ∧ s.len ≥ off + siz
    · by_cases h0 : s.len ≠ 0
      · rw [if_pos ⟨h0, h⟩, if_pos h]
      · -- an unmapped first window: `s->mmap` is null, the call goes through the file; nothing to copy either way
        have hz : s.len = 0 := by omega
        have hs : siz = 0 := by omega
        rw [if_neg (by intro hx; exact h0 hx.1), if_pos h]
        subst hs
        rw [fileCopy_zero]
        have hr : slotRead st.psize st.file s off 0 = [] := by
          unfold slotRead; split <;> simp [readAt]
        rw [hr]
        simp only [slotWrite]
    · rw [if_neg (by intro hx; exact h hx.2), if_neg h]

theorem mmapWriteL_base (st : St) (so rel : Nat) (d : Bytes) (r : Bool) :
    ((mmapWriteL st so rel d r).1, (mmapWriteL st so rel d r).2.1) = mmapWrite st so rel d := rfl

/-- **the model with a listener is the model**: forgetting the listener calls gives `exec` of the same call -/
theorem execL_base (m : Lsn) (st : St) (op : LOp) :
    ((execL m st op).1, (execL m st op).2.1, (execL m st op).2.2.1) = exec st op.base := by
  cases op with
  | mmapWriteR so rel d => rfl
  | op o =>
    cases o with
    | write off d =>
      have h := writeL_base m st off d
      simp only [execL, exec, LOp.base, ← h]
    | read off n => rfl
    | copy off siz noff =>
      have h := copyL_base st off siz noff
      simp only [execL, exec, LOp.base, ← h]
    | truncate size =>
      have h := truncateL_base m st size
      simp only [execL, exec, LOp.base, ← h]
    | ensure size =>
      have h := ensureSizeL_base m st size
      simp only [execL, exec, LOp.base, ← h]
    | addMmap off maxlen priv => rfl
    | removeMmap off => rfl
    | mmapWrite so rel d => rfl
    | remapAll => rfl

theorem execL_state (m : Lsn) (st : St) (op : LOp) : (execL m st op).1 = (exec st op.base).1 := by
  rw [← execL_base m st op]

theorem runL_base (m : Lsn) : ∀ (ops : List LOp) (st : St),
    ((runL m st ops).1, (runL m st ops).2.1) = run st (ops.map LOp.base)
  | [], _ => rfl
  | op :: ops, st => by
    have h1 := execL_base m st op
    have h2 := runL_base m ops (execL m st op).1
    simp only [runL, List.map_cons, run]
    rw [← h1]
    simp only []
    rw [← h2]

/-! ## the events of a write: one `onwrite` per piece -/

/-- the listener calls of the pieces of a request: `onwrite(piece offset, piece bytes)` in order -/
def pieceEvents : List Seg → Bytes → List Ev
  | [], _ => []
  | g :: gs, d => .write g.off (d.take g.len) :: pieceEvents gs (d.drop g.len)

theorem writeSegL_length (ps : Nat) (file : Bytes) (slots : List Slot) (g : Seg) (d : Bytes) :
    (writeSegL ps file slots g d).1.length = slots.length := by
  unfold writeSegL
  cases g.slot with
  | none => rfl
  | some k =>
    simp only []
    cases slots[k]? with
    | none => rfl
    | some s => simp

theorem writeSegL_events (ps : Nat) (file : Bytes) (slots : List Slot) (g : Seg) (d : Bytes)
    (hk : ∀ k, g.slot = some k → k < slots.length) : (writeSegL ps file slots g d).2.2 = [.write g.off d] := by
  unfold writeSegL
  cases hg : g.slot with
  | none => rfl
  | some k =>
    simp only []
    have := hk k hg
    rw [List.getElem?_eq_getElem this]

/-- every piece that names a window names an existing one: each piece is reported -/
theorem writeSegsL_events (ps : Nat) : ∀ (gs : List Seg) (d : Bytes) (slots : List Slot) (file : Bytes),
    (∀ g ∈ gs, ∀ k, g.slot = some k → k < slots.length) → (writeSegsL ps gs d slots file).2.2 = pieceEvents gs d
  | [], _, _, _, _ => rfl
  | g :: gs, d, slots, file, h => by
    unfold writeSegsL pieceEvents
    simp only []
    rw [writeSegL_events ps file slots g _ (h g List.mem_cons_self),
      writeSegsL_events ps gs _ _ _ (fun g' hg' k hk => by
        rw [writeSegL_length]; exact h g' (List.mem_cons_of_mem _ hg') k hk)]
    rfl

theorem segs_index_ok (slots : List Slot) (off n : Nat) :
    ∀ g ∈ segs slots 0 off n, ∀ k, g.slot = some k → k < slots.length := by
  intro g hg k hk
  obtain ⟨s, hs, _, _⟩ := segs_slotPiecesOk slots off n g hg k hk
  exact (List.getElem?_eq_some_iff.mp hs).1

/-! ## replay -/

theorem replay_nil (sh : Shadow) : replay sh [] = sh := rfl
theorem replay_cons (sh : Shadow) (e : Ev) (es : List Ev) : replay sh (e :: es) = replay (e.apply sh) es := rfl
theorem replay_append (sh : Shadow) (a b : List Ev) : replay sh (a ++ b) = replay (replay sh a) b := by
  simp [replay, List.foldl_append]

/-- replaying the piece-wise reports of a request is one write of the whole request -/
theorem replay_pieceEvents : ∀ (gs : List Seg) (off n : Nat) (d V : Bytes) (sz : Nat), Chain off gs n → d.length = n →
    replay ⟨V, sz⟩ (pieceEvents gs d) = ⟨writeAt V off d, sz⟩
  | [], off, n, d, V, sz, hc, hd => by
    simp only [Chain] at hc; subst hc
    have : d = [] := List.eq_nil_of_length_eq_zero hd
    subst this; rfl
  | g :: gs, off, n, d, V, sz, hc, hd => by
    obtain ⟨h1, h2, h3, h4⟩ := hc
    unfold pieceEvents
    rw [replay_cons]
    simp only [Ev.apply]
    rw [replay_pieceEvents gs (off + g.len) (n - g.len) (d.drop g.len) _ sz h4 (by simp [List.length_drop, hd])]
    have hl : (d.take g.len).length = g.len := by simp [List.length_take]; omega
    rw [h1]
    have := writeAt_writeAt_adj V off (d.take g.len) (d.drop g.len)
    rw [hl, List.take_append_drop] at this
    rw [this]

theorem replay_resizeEvents (m : Lsn) (V : Bytes) (sz o n : Nat) :
    replay ⟨V, sz⟩ (resizeEvents m o n) = ⟨resize V n, n⟩ := by
  cases m <;> rfl

/-- the events of `truncate` rebuild its effect on the file and the size -/
theorem truncateL_replay (m : Lsn) (st : St) (size : Nat) :
    replay ⟨st.file, st.fsize⟩ (truncateL m st size).2.2 = ⟨(truncateL m st size).2.1.file, (truncateL m st size).2.1.fsize⟩ := by
  unfold truncateL
  simp only []
  split
  · rfl
  · split
    · split
      · rfl
      · exact replay_resizeEvents _ _ _ _ _
    · exact replay_resizeEvents _ _ _ _ _

theorem ensureSizeL_replay (m : Lsn) (st : St) (sz : Nat) :
    replay ⟨st.file, st.fsize⟩ (ensureSizeL m st sz).2.2 = ⟨(ensureSizeL m st sz).2.1.file, (ensureSizeL m st sz).2.1.fsize⟩ := by
  unfold ensureSizeL
  split
  · rfl
  · simp only []
    split
    · rfl
    · split
      · split
        · rfl
        · exact truncateL_replay m { st with prev := (policy st.psize st.pol st.prev sz st.fsize).2 } _
      · exact truncateL_replay m { st with prev := (policy st.psize st.pol st.prev sz st.fsize).2 } _

/-- shared windows: the pieces change the file exactly as their reports say -/
theorem writeSegsL_shared (ps : Nat) (slots : List Slot) (hs : AllShared slots) (gs : List Seg) (off n : Nat) (d file : Bytes)
    (hc : Chain off gs n) (hd : d.length = n) (hok : SlotPiecesOk slots gs) :
    (writeSegsL ps gs d slots file).2.1 = writeAt file off d := by
  have h := writeSegsL_base ps gs d slots file
  rw [writeSegs_shared ps slots hs gs off n d file hc hd hok] at h
  exact (Prod.mk.inj h).2

theorem writeL_replay (m : Lsn) (st : St) (off : Int) (d : Bytes) (hs : AllShared st.slots) :
    replay ⟨st.file, st.fsize⟩ (writeL m st off d).2.2.2 =
      ⟨(writeL m st off d).2.2.1.file, (writeL m st off d).2.2.1.fsize⟩ := by
  unfold writeL
  split
  · rfl
  · simp only []
    split
    · rfl
    · -- the state after the growth step and its events
      generalize hr : (if off.toNat + d.length > st.fsize then ensureSizeL m st (off.toNat + d.length) else (Rc.ok, st, [])) = r
      have hrep : replay ⟨st.file, st.fsize⟩ r.2.2 = ⟨r.2.1.file, r.2.1.fsize⟩ ∧ AllShared r.2.1.slots := by
        rw [← hr]; split
        · refine ⟨ensureSizeL_replay m st _, ?_⟩
          have := ensureSizeL_base m st (off.toNat + d.length)
          have h2 := ensureSize_allShared st (off.toNat + d.length) hs
          rw [← this] at h2; exact h2
        · exact ⟨rfl, hs⟩
      obtain ⟨rc, st1, e1⟩ := r
      simp only [] at hrep ⊢
      split
      · exact hrep.1
      · simp only []
        rw [replay_append, hrep.1]
        rw [writeSegsL_events _ _ _ _ _ (segs_index_ok st1.slots off.toNat d.length)]
        rw [replay_pieceEvents _ off.toNat d.length d _ _ (segs_chain st1.slots 0 off.toNat d.length) rfl]
        rw [writeSegsL_shared st1.psize st1.slots hrep.2 _ off.toNat d.length d st1.file (segs_chain _ 0 _ _) rfl
          (segs_slotPiecesOk _ _ _)]

theorem fileCopyL_replay (cbuf : Nat) (hc : 0 < cbuf) (F : Bytes) (sz off siz noff : Nat) (hsrc : off + siz ≤ F.length) :
    replay ⟨F, sz⟩ (fileCopyL cbuf F off siz noff).2.2 = ⟨(fileCopyL cbuf F off siz noff).2.1, sz⟩ := by
  unfold fileCopyL
  by_cases h : noff ≤ off ∨ off + siz ≤ noff
  · rw [fileCopy_eq_memmove cbuf hc F off siz noff hsrc h]; rfl
  · rw [fileCopy_forward cbuf F off siz noff (by omega) (by omega)]; rfl

theorem copyL_replay (st : St) (off siz noff : Nat) (hs : AllShared st.slots) (hc : 0 < st.cbuf)
    (hsrc : off + siz ≤ st.file.length) :
    replay ⟨st.file, st.fsize⟩ (copyL st off siz noff).2.2 =
      ⟨(copyL st off siz noff).2.1.file, (copyL st off siz noff).2.1.fsize⟩ := by
  unfold copyL
  cases hsl : st.slots with
  | nil => exact fileCopyL_replay st.cbuf hc st.file st.fsize off siz noff hsrc
  | cons s rest =>
    simp only []
    have hsh : s.priv = false := hs s (by rw [hsl]; exact List.mem_cons_self)
    split
    · rename_i hcond
      rw [slotRead_shared _ _ _ _ _ hsh, slotWrite_shared _ _ _ _ _ hsh, hcond.2.1]
      simp only [Nat.zero_add]
      rfl
    · exact fileCopyL_replay st.cbuf hc st.file st.fsize off siz noff hsrc

theorem findIdx_off (slots : List Slot) (so k : Nat) (s : Slot) (h1 : slots.findIdx? (fun s => s.off == so) = some k)
    (h2 : slots[k]? = some s) : s.off = so := by
  obtain ⟨hk, hp, _⟩ := List.findIdx?_eq_some_iff_getElem.mp h1
  rw [List.getElem?_eq_getElem hk] at h2
  cases h2
  simpa using hp

/-- a store that its caller reports: replay gives the file -/
theorem mmapWriteL_replay (st : St) (so rel : Nat) (d : Bytes) (hs : AllShared st.slots) :
    replay ⟨st.file, st.fsize⟩ (mmapWriteL st so rel d true).2.2 =
      ⟨(mmapWriteL st so rel d true).2.1.file, (mmapWriteL st so rel d true).2.1.fsize⟩ := by
  unfold mmapWriteL
  rw [mmapWrite_eq_flat st so rel d hs]
  unfold flatMmapWrite
  cases h1 : st.slots.findIdx? (fun s => s.off == so) with
  | none => rfl
  | some k =>
    simp only []
    cases h2 : st.slots[k]? with
    | none => rfl
    | some s =>
      simp only []
      split
      · rfl
      · split
        · rw [findIdx_off st.slots so k s h1 h2]; rfl
        · rfl

/-! ## fields no call touches -/

theorem truncate_cbuf (st : St) (n : Nat) : (truncate st n).2.cbuf = st.cbuf := by
  unfold truncate; simp only []; repeat (first | rfl | split)

theorem ensureSize_cbuf (st : St) (n : Nat) : (ensureSize st n).2.cbuf = st.cbuf := by
  unfold ensureSize
  split
  · rfl
  · simp only []
    split
    · rfl
    · split
      · split
        · rfl
        · exact truncate_cbuf { st with prev := (policy st.psize st.pol st.prev n st.fsize).2 } _
      · exact truncate_cbuf { st with prev := (policy st.psize st.pol st.prev n st.fsize).2 } _

theorem write_cbuf (st : St) (off : Int) (d : Bytes) : (write st off d).2.2.cbuf = st.cbuf := by
  unfold write
  split
  · rfl
  · simp only []
    split
    · rfl
    · generalize hr : (if off.toNat + d.length > st.fsize then ensureSize st (off.toNat + d.length) else (Rc.ok, st)) = r
      have : r.2.cbuf = st.cbuf := by
        rw [← hr]; split
        · exact ensureSize_cbuf _ _
        · rfl
      obtain ⟨rc, st1⟩ := r
      simp only [] at this ⊢
      split <;> exact this

theorem copy_cbuf (st : St) (off siz noff : Nat) : (copy st off siz noff).2.cbuf = st.cbuf := by
  unfold copy; repeat (first | rfl | split)

theorem mmapWrite_cbuf (st : St) (so rel : Nat) (d : Bytes) : (mmapWrite st so rel d).2.cbuf = st.cbuf := by
  unfold mmapWrite; repeat (first | rfl | split)

theorem addMmap_keeps (st : St) (off maxlen : Nat) (priv : Bool) :
    (addMmap st off maxlen priv).2.cbuf = st.cbuf ∧ (addMmap st off maxlen priv).2.file = st.file ∧
    (addMmap st off maxlen priv).2.fsize = st.fsize := by
  unfold addMmap
  simp only []
  repeat (first | exact ⟨rfl, rfl, rfl⟩ | split)

theorem removeMmap_keeps (st : St) (off : Nat) :
    (removeMmap st off).2.cbuf = st.cbuf ∧ (removeMmap st off).2.file = st.file ∧ (removeMmap st off).2.fsize = st.fsize := by
  unfold removeMmap
  split <;> exact ⟨rfl, rfl, rfl⟩

theorem exec_cbuf (st : St) (op : Op) : (exec st op).1.cbuf = st.cbuf := by
  cases op with
  | write off d => exact write_cbuf st off d
  | read off n => rfl
  | copy off siz noff => exact copy_cbuf st off siz noff
  | truncate size => exact truncate_cbuf st size
  | ensure size => exact ensureSize_cbuf st size
  | addMmap off maxlen priv => exact (addMmap_keeps st off maxlen priv).1
  | removeMmap off => exact (removeMmap_keeps st off).1
  | mmapWrite so rel d => exact mmapWrite_cbuf st so rel d
  | remapAll => rfl

/-! ## listener completeness, shared windows -/

/-- the calls the completeness theorem speaks about: no store through a mapping that nobody reports, the source of a copy lies
    inside the file on disk, windows are shared -/
def LOp.Covered (st : St) : LOp → Prop
  | .op (.mmapWrite _ _ _) => False
  | .op (.copy off siz _) => off + siz ≤ st.file.length
  | .op (.addMmap _ _ priv) => priv = false
  | _ => True

theorem LOp.Covered.shared {st : St} {op : LOp} (h : op.Covered st) : op.base.shared := by
  cases op with
  | mmapWriteR so rel d => trivial
  | op o => cases o <;> first | exact h | trivial

theorem execL_replay (m : Lsn) (st : St) (op : LOp) (hs : AllShared st.slots) (hc : 0 < st.cbuf) (hcov : op.Covered st) :
    replay ⟨st.file, st.fsize⟩ (execL m st op).2.2.2 = ⟨(execL m st op).1.file, (execL m st op).1.fsize⟩ := by
  cases op with
  | mmapWriteR so rel d => exact mmapWriteL_replay st so rel d hs
  | op o =>
    cases o with
    | write off d => exact writeL_replay m st off d hs
    | read off n => rfl
    | copy off siz noff => exact copyL_replay st off siz noff hs hc hcov
    | truncate size => exact truncateL_replay m st size
    | ensure size => exact ensureSizeL_replay m st size
    | addMmap off maxlen priv =>
      have h := addMmap_keeps st off maxlen priv
      simp only [execL, replay_nil, h.2.1, h.2.2]
    | removeMmap off =>
      have h := removeMmap_keeps st off
      simp only [execL, replay_nil, h.2.1, h.2.2]
    | mmapWrite so rel d => exact absurd hcov (by simp [LOp.Covered])
    | remapAll => rfl

/-- a history all of whose calls are covered, each in the state it is made in -/
def RunCovered (m : Lsn) : St → List LOp → Prop
  | _, [] => True
  | st, op :: ops => op.Covered st ∧ RunCovered m (execL m st op).1 ops

theorem runL_replay (m : Lsn) : ∀ (ops : List LOp) (st : St), AllShared st.slots → 0 < st.cbuf → RunCovered m st ops →
    replay ⟨st.file, st.fsize⟩ (runL m st ops).2.2 = ⟨(runL m st ops).1.file, (runL m st ops).1.fsize⟩
  | [], _, _, _, _ => rfl
  | op :: ops, st, hs, hc, hcov => by
    simp only [runL]
    rw [replay_append, execL_replay m st op hs hc hcov.1]
    have hst := execL_state m st op
    refine runL_replay m ops (execL m st op).1 ?_ ?_ hcov.2
    · rw [hst, exec_eq_flat st op.base hs]; exact flatExec_allShared st op.base hs hcov.1.shared
    · rw [hst, exec_cbuf]; exact hc

/-! ## the events fit the size the listener knows (checked replay) -/

theorem replayChecked_append (sh : Shadow) : ∀ (a b : List Ev) ,
    replayChecked sh (a ++ b) = (replayChecked sh a).bind (fun s => replayChecked s b) := by
  intro a
  induction a generalizing sh with
  | nil => intro b; rfl
  | cons e es ih =>
    intro b
    simp only [List.cons_append, replayChecked]
    split
    · exact ih _ b
    · rfl

theorem replayChecked_cons_fits (sh : Shadow) (e : Ev) (es : List Ev) (h : e.fits sh = true) :
    replayChecked sh (e :: es) = replayChecked (e.apply sh) es := by
  simp [replayChecked, h]

theorem replayChecked_pieceEvents : ∀ (gs : List Seg) (off n : Nat) (d V : Bytes) (sz : Nat), Chain off gs n → d.length = n →
    off + n ≤ sz → replayChecked ⟨V, sz⟩ (pieceEvents gs d) = some ⟨writeAt V off d, sz⟩
  | [], off, n, d, V, sz, hc, hd, _ => by
    simp only [Chain] at hc; subst hc
    have : d = [] := List.eq_nil_of_length_eq_zero hd
    subst this; rfl
  | g :: gs, off, n, d, V, sz, hc, hd, hb => by
    obtain ⟨h1, h2, h3, h4⟩ := hc
    have hl : (d.take g.len).length = g.len := by simp [List.length_take]; omega
    unfold pieceEvents replayChecked
    have hfit : (Ev.write g.off (d.take g.len)).fits ⟨V, sz⟩ = true := by
      simp only [Ev.fits, hl, decide_eq_true_eq]; omega
    rw [if_pos hfit]
    simp only [Ev.apply]
    rw [replayChecked_pieceEvents gs (off + g.len) (n - g.len) (d.drop g.len) _ sz h4 (by simp [List.length_drop, hd]) (by omega)]
    rw [h1]
    have := writeAt_writeAt_adj V off (d.take g.len) (d.drop g.len)
    rw [hl, List.take_append_drop] at this
    rw [this]

theorem replayChecked_resizeEvents (m : Lsn) (V : Bytes) (o n : Nat) :
    replayChecked ⟨V, o⟩ (resizeEvents m o n) = some ⟨resize V n, n⟩ := by
  cases m <;> simp [resizeEvents, replayChecked, Ev.fits, Ev.apply]

theorem truncateL_checked (m : Lsn) (st : St) (size : Nat) :
    replayChecked ⟨st.file, st.fsize⟩ (truncateL m st size).2.2 =
      some ⟨(truncateL m st size).2.1.file, (truncateL m st size).2.1.fsize⟩ := by
  unfold truncateL
  simp only []
  split
  · rfl
  · split
    · split
      · rfl
      · exact replayChecked_resizeEvents _ _ _ _
    · exact replayChecked_resizeEvents _ _ _ _

theorem ensureSizeL_checked (m : Lsn) (st : St) (sz : Nat) :
    replayChecked ⟨st.file, st.fsize⟩ (ensureSizeL m st sz).2.2 =
      some ⟨(ensureSizeL m st sz).2.1.file, (ensureSizeL m st sz).2.1.fsize⟩ := by
  unfold ensureSizeL
  split
  · rfl
  · simp only []
    split
    · rfl
    · split
      · split
        · rfl
        · exact truncateL_checked m { st with prev := (policy st.psize st.pol st.prev sz st.fsize).2 } _
      · exact truncateL_checked m { st with prev := (policy st.psize st.pol st.prev sz st.fsize).2 } _

theorem writeL_checked (m : Lsn) (st : St) (off : Int) (d : Bytes) (hs : AllShared st.slots) (hp : 0 < st.psize) :
    replayChecked ⟨st.file, st.fsize⟩ (writeL m st off d).2.2.2 =
      some ⟨(writeL m st off d).2.2.1.file, (writeL m st off d).2.2.1.fsize⟩ := by
  unfold writeL
  split
  · rfl
  · simp only []
    split
    · rfl
    · generalize hr : (if off.toNat + d.length > st.fsize then ensureSizeL m st (off.toNat + d.length) else (Rc.ok, st, [])) = r
      have hrep : replayChecked ⟨st.file, st.fsize⟩ r.2.2 = some ⟨r.2.1.file, r.2.1.fsize⟩ ∧ AllShared r.2.1.slots ∧
          (r.1 = .ok → off.toNat + d.length ≤ r.2.1.fsize) := by
        rw [← hr]; split
        · have hb := ensureSizeL_base m st (off.toNat + d.length)
          refine ⟨ensureSizeL_checked m st _, ?_, ?_⟩
          · have h2 := ensureSize_allShared st (off.toNat + d.length) hs
            rw [← hb] at h2; exact h2
          · intro hok
            have h2 := ensureSize_ok_ge st (off.toNat + d.length) hp
            rw [← hb] at h2; exact h2 hok
        · exact ⟨rfl, hs, fun _ => by show off.toNat + d.length ≤ st.fsize; omega⟩
      obtain ⟨rc, st1, e1⟩ := r
      simp only [] at hrep ⊢
      split
      · exact hrep.1
      · rename_i hok
        simp only []
        have hok' : rc = .ok := by simpa using hok
        rw [replayChecked_append, hrep.1]
        simp only [Option.bind]
        rw [writeSegsL_events _ _ _ _ _ (segs_index_ok st1.slots off.toNat d.length)]
        rw [replayChecked_pieceEvents _ off.toNat d.length d _ _ (segs_chain st1.slots 0 off.toNat d.length) rfl
          (hrep.2.2 hok')]
        rw [writeSegsL_shared st1.psize st1.slots hrep.2.1 _ off.toNat d.length d st1.file (segs_chain _ 0 _ _) rfl
          (segs_slotPiecesOk _ _ _)]

theorem fileCopyL_checked (cbuf : Nat) (hc : 0 < cbuf) (F : Bytes) (sz off siz noff : Nat) (hlen : sz ≤ F.length)
    (hsrc : off + siz ≤ sz) (hdst : noff + siz ≤ sz) :
    replayChecked ⟨F, sz⟩ (fileCopyL cbuf F off siz noff).2.2 = some ⟨(fileCopyL cbuf F off siz noff).2.1, sz⟩ := by
  unfold fileCopyL
  by_cases h : noff ≤ off ∨ off + siz ≤ noff
  · rw [fileCopy_eq_memmove cbuf hc F off siz noff (by omega) h]
    simp only [if_true]
    rw [replayChecked_cons_fits _ _ _ (by simp only [Ev.fits, Bool.and_eq_true, decide_eq_true_eq]; omega)]
    rfl
  · rw [fileCopy_forward cbuf F off siz noff (by omega) (by omega)]; rfl

theorem copyL_checked (st : St) (off siz noff : Nat) (hs : AllShared st.slots) (hc : 0 < st.cbuf) (hi : Inv st)
    (hsrc : off + siz ≤ st.fsize) (hdst : noff + siz ≤ st.fsize) :
    replayChecked ⟨st.file, st.fsize⟩ (copyL st off siz noff).2.2 =
      some ⟨(copyL st off siz noff).2.1.file, (copyL st off siz noff).2.1.fsize⟩ := by
  unfold copyL
  cases hsl : st.slots with
  | nil => exact fileCopyL_checked st.cbuf hc st.file st.fsize off siz noff (by rw [hi.1]; exact Nat.le_refl _) hsrc hdst
  | cons s rest =>
    simp only []
    have hsh : s.priv = false := hs s (by rw [hsl]; exact List.mem_cons_self)
    split
    · rename_i hcond
      rw [slotRead_shared _ _ _ _ _ hsh, slotWrite_shared _ _ _ _ _ hsh, hcond.2.1]
      simp only [Nat.zero_add]
      rw [replayChecked_cons_fits _ _ _ (by
        simp only [Ev.fits, length_readAt, decide_eq_true_eq]
        have := Nat.min_le_left siz (st.file.length - off)
        have := slotLen_le s st.fsize
        have := hi.2 s (by rw [hsl]; exact List.mem_cons_self)
        omega)]
      rfl
    · exact fileCopyL_checked st.cbuf hc st.file st.fsize off siz noff (by rw [hi.1]; exact Nat.le_refl _) hsrc hdst

theorem mmapWriteL_checked (st : St) (so rel : Nat) (d : Bytes) (hs : AllShared st.slots) (hi : Inv st) :
    replayChecked ⟨st.file, st.fsize⟩ (mmapWriteL st so rel d true).2.2 =
      some ⟨(mmapWriteL st so rel d true).2.1.file, (mmapWriteL st so rel d true).2.1.fsize⟩ := by
  unfold mmapWriteL
  rw [mmapWrite_eq_flat st so rel d hs]
  unfold flatMmapWrite
  cases h1 : st.slots.findIdx? (fun s => s.off == so) with
  | none => rfl
  | some k =>
    simp only []
    cases h2 : st.slots[k]? with
    | none => rfl
    | some s =>
      simp only []
      split
      · rfl
      · rename_i hne
        split
        · rename_i hle
          have hso := findIdx_off st.slots so k s h1 h2
          have hlen := hi.2 s (List.mem_of_getElem? h2)
          have hb : so + rel + d.length ≤ st.fsize := by
            rcases slotLen_le s st.fsize with h | h
            · rw [← hlen] at h; omega
            · rw [← hlen] at h; exact absurd h hne
          rw [hso]
          simp only [and_self, if_true]
          rw [replayChecked_cons_fits _ _ _ (by simp only [Ev.fits, decide_eq_true_eq]; omega)]
          rfl
        · rfl

/-- calls whose events fit: covered, and a copy lies inside the logical size with both ranges -/
def LOp.Inside (st : St) : LOp → Prop
  | .op (.mmapWrite _ _ _) => False
  | .op (.copy off siz noff) => off + siz ≤ st.fsize ∧ noff + siz ≤ st.fsize
  | .op (.addMmap _ _ priv) => priv = false
  | _ => True

theorem LOp.Inside.covered {st : St} {op : LOp} (h : op.Inside st) (hi : Inv st) : op.Covered st := by
  cases op with
  | mmapWriteR so rel d => trivial
  | op o =>
    cases o <;> first | exact h | trivial | skip
    case copy off siz noff => show off + siz ≤ st.file.length; rw [hi.1]; exact h.1

theorem execL_checked (m : Lsn) (st : St) (op : LOp) (hs : AllShared st.slots) (hp : 0 < st.psize) (hc : 0 < st.cbuf)
    (hi : Inv st) (hin : op.Inside st) :
    replayChecked ⟨st.file, st.fsize⟩ (execL m st op).2.2.2 = some ⟨(execL m st op).1.file, (execL m st op).1.fsize⟩ := by
  cases op with
  | mmapWriteR so rel d => exact mmapWriteL_checked st so rel d hs hi
  | op o =>
    cases o with
    | write off d => exact writeL_checked m st off d hs hp
    | read off n => rfl
    | copy off siz noff => exact copyL_checked st off siz noff hs hc hi hin.1 hin.2
    | truncate size => exact truncateL_checked m st size
    | ensure size => exact ensureSizeL_checked m st size
    | addMmap off maxlen priv =>
      have h := addMmap_keeps st off maxlen priv
      simp only [execL, replayChecked, h.2.1, h.2.2]
    | removeMmap off =>
      have h := removeMmap_keeps st off
      simp only [execL, replayChecked, h.2.1, h.2.2]
    | mmapWrite so rel d => exact absurd hin (by simp [LOp.Inside])
    | remapAll => rfl

def RunInside (m : Lsn) : St → List LOp → Prop
  | _, [] => True
  | st, op :: ops => op.Inside st ∧ RunInside m (execL m st op).1 ops

theorem LOp.Inside.flatHyp {st : St} {op : LOp} (h : op.Inside st) :
    match op.base with | .copy _ siz noff => noff + siz ≤ st.fsize | _ => True := by
  cases op with
  | mmapWriteR so rel d => trivial
  | op o => cases o <;> first | exact h.2 | trivial

theorem LOp.Inside.shared {st : St} {op : LOp} (h : op.Inside st) : op.base.shared := by
  cases op with
  | mmapWriteR so rel d => trivial
  | op o => cases o <;> first | exact h | trivial

theorem runL_checked (m : Lsn) : ∀ (ops : List LOp) (st : St), AllShared st.slots → 0 < st.psize → 0 < st.cbuf → Inv st →
    RunInside m st ops →
    replayChecked ⟨st.file, st.fsize⟩ (runL m st ops).2.2 = some ⟨(runL m st ops).1.file, (runL m st ops).1.fsize⟩
  | [], _, _, _, _, _, _ => rfl
  | op :: ops, st, hs, hp, hc, hi, hin => by
    simp only [runL]
    rw [replayChecked_append, execL_checked m st op hs hp hc hi hin.1]
    simp only [Option.bind]
    have hst := execL_state m st op
    refine runL_checked m ops (execL m st op).1 ?_ ?_ ?_ ?_ hin.2
    · rw [hst, exec_eq_flat st op.base hs]; exact flatExec_allShared st op.base hs hin.1.shared
    · rw [hst, exec_eq_flat st op.base hs, flatExec_psize st op.base hs]; exact hp
    · rw [hst, exec_cbuf]; exact hc
    · rw [hst, exec_eq_flat st op.base hs]; exact flatExec_inv st op.base hp hi hin.1.flatHyp

/-! ## what the listener's copy holds, byte by byte: the flat expectation (any windows, private ones included) -/

theorem getD_writeAt (f : Bytes) (off : Nat) (d : Bytes) (i : Nat) :
    (writeAt f off d).getD i 0 = if off ≤ i ∧ i < off + d.length then d.getD (i - off) 0 else f.getD i 0 := by
  by_cases hd : d = []
  · subst hd; simp [writeAt_nil]; omega
  · simp only [List.getD_eq_getElem?_getD, getElem?_writeAt _ _ _ hd]
    by_cases h1 : i < off
    · simp [h1, show ¬ (off ≤ i ∧ i < off + d.length) by omega]
    · by_cases h2 : i < off + d.length
      · simp [h1, h2, show off ≤ i by omega]
      · simp [h1, h2]

theorem getD_resize (f : Bytes) (n i : Nat) (h : i < n) : (resize f n).getD i 0 = f.getD i 0 := by
  simp only [List.getD_eq_getElem?_getD, getElem?_resize, h, if_true, Option.getD_some]

theorem getD_readAt (f : Bytes) (off n j : Nat) (h : j < n) : (readAt f off n).getD j 0 = f.getD (off + j) 0 := by
  simp only [List.getD_eq_getElem?_getD, getElem?_readAt, h, if_true]

theorem truncateL_events_cases (m : Lsn) (st : St) (size : Nat) :
    (truncateL m st size).2.2 = [] ∨
    (truncateL m st size).2.2 = resizeEvents m st.fsize (truncateL m st size).2.1.fsize := by
  unfold truncateL
  simp only []
  split
  · left; rfl
  · split
    · split
      · left; rfl
      · right; rfl
    · right; rfl

theorem ensureSizeL_events_cases (m : Lsn) (st : St) (sz : Nat) :
    (ensureSizeL m st sz).2.2 = [] ∨
    (ensureSizeL m st sz).2.2 = resizeEvents m st.fsize (ensureSizeL m st sz).2.1.fsize := by
  unfold ensureSizeL
  split
  · left; rfl
  · simp only []
    split
    · left; rfl
    · split
      · split
        · left; rfl
        · exact truncateL_events_cases m { st with prev := (policy st.psize st.pol st.prev sz st.fsize).2 } _
      · exact truncateL_events_cases m { st with prev := (policy st.psize st.pol st.prev sz st.fsize).2 } _

/-- resize events leave every byte below the new size alone (bytes the listener never saw read as zero) -/
theorem replay_resize_getD (m : Lsn) (V : Bytes) (sz o n i : Nat) (es : List Ev) (h : es = [] ∨ es = resizeEvents m o n)
    (hi : i < n) : (replay ⟨V, sz⟩ es).bytes.getD i 0 = V.getD i 0 := by
  rcases h with h | h
  · subst h; rfl
  · subst h; rw [replay_resizeEvents]; exact getD_resize V n i hi

theorem writeL_expect (m : Lsn) (st : St) (off : Int) (d V : Bytes) (sz i : Nat)
    (hi' : i < (writeL m st off d).2.2.1.fsize) :
    (replay ⟨V, sz⟩ (writeL m st off d).2.2.2).bytes.getD i 0 =
      if (writeL m st off d).1 = .ok ∧ off.toNat ≤ i ∧ i < off.toNat + d.length then d.getD (i - off.toNat) 0
      else V.getD i 0 := by
  unfold writeL at hi' ⊢
  split at hi' <;> rename_i h1
  · rw [if_pos h1]; simp [replay_nil]
  · rw [if_neg h1]
    simp only [] at hi' ⊢
    split at hi' <;> rename_i h2
    · rw [if_pos h2]; simp [replay_nil]
    · rw [if_neg h2]
      generalize hr : (if off.toNat + d.length > st.fsize then ensureSizeL m st (off.toNat + d.length) else (Rc.ok, st, [])) = r
        at hi' ⊢
      have hev : r.2.2 = [] ∨ r.2.2 = resizeEvents m st.fsize r.2.1.fsize := by
        rw [← hr]; split
        · exact ensureSizeL_events_cases m st _
        · left; rfl
      obtain ⟨rc, st1, e1⟩ := r
      simp only [] at hev hi' ⊢
      by_cases hok : rc = .ok
      · subst hok
        simp only [ne_eq, not_true_eq_false, if_false, true_and] at hi' ⊢
        rw [replay_append, writeSegsL_events _ _ _ _ _ (segs_index_ok st1.slots off.toNat d.length)]
        have hsh : ∃ W s', replay ⟨V, sz⟩ e1 = ⟨W, s'⟩ ∧ W.getD i 0 = V.getD i 0 := by
          refine ⟨(replay ⟨V, sz⟩ e1).bytes, (replay ⟨V, sz⟩ e1).size, rfl, ?_⟩
          exact replay_resize_getD m V sz st.fsize st1.fsize i e1 hev hi'
        obtain ⟨W, s', hW, hWi⟩ := hsh
        rw [hW, replay_pieceEvents _ off.toNat d.length d W s' (segs_chain st1.slots 0 off.toNat d.length) rfl]
        simp only []
        rw [getD_writeAt, hWi]
      · simp only [ne_eq, hok, not_false_eq_true, if_true, false_and, if_false] at hi' ⊢
        exact replay_resize_getD m V sz st.fsize st1.fsize i e1 hev hi'

theorem getD_map_range (f : Nat → Nat) (n k : Nat) (h : k < n) : ((List.range n).map f).getD k 0 = f k := by
  simp [List.getD_eq_getElem?_getD, h]

theorem replay_copy_getD (V : Bytes) (sz off siz noff i : Nat) (hlen : off + siz ≤ V.length) :
    (replay ⟨V, sz⟩ [.copy off siz noff]).bytes.getD i 0 =
      if noff ≤ i ∧ i < noff + siz then V.getD (off + (i - noff)) 0 else V.getD i 0 := by
  simp only [replay, List.foldl_cons, List.foldl_nil, Ev.apply]
  rw [getD_writeAt, length_readAt, Nat.min_eq_left (by omega)]
  split
  · rename_i h; rw [getD_readAt _ _ _ _ (by omega)]
  · rfl

theorem fileCopyL_expect (cbuf : Nat) (F V : Bytes) (sz off siz noff i : Nat) (hlen : off + siz ≤ V.length) :
    (replay ⟨V, sz⟩ (fileCopyL cbuf F off siz noff).2.2).bytes.getD i 0 =
      if (fileCopyL cbuf F off siz noff).1 = .ok ∧ noff ≤ i ∧ i < noff + siz then V.getD (off + (i - noff)) 0
      else V.getD i 0 := by
  unfold fileCopyL
  simp only []
  by_cases hok : (fileCopy cbuf F off siz noff).1 = .ok
  · rw [if_pos hok, replay_copy_getD V sz off siz noff i hlen]
    simp only [hok, true_and]
  · rw [if_neg hok]
    simp only [hok, false_and, if_false]; rfl

theorem copyL_expect (st : St) (off siz noff : Nat) (V : Bytes) (sz i : Nat) (h : PInv st) (hsrc : off + siz ≤ st.fsize)
    (hV : ∀ j, j < st.fsize → V.getD j 0 = view st.psize st.file st.slots j) (hVlen : st.fsize ≤ V.length) :
    (replay ⟨V, sz⟩ (copyL st off siz noff).2.2).bytes.getD i 0 =
      if (copyL st off siz noff).1 = .ok ∧ noff ≤ i ∧ i < noff + siz then V.getD (off + (i - noff)) 0
      else V.getD i 0 := by
  have hw := h.win
  have hd := h.disk
  unfold copyL
  cases hsl : st.slots with
  | nil => exact fileCopyL_expect st.cbuf st.file V sz off siz noff i (by omega)
  | cons s rest =>
    simp only []
    split
    · rename_i hcond
      rw [hsl] at hw hV
      have hrd := slotRead_eq_view st.psize st.file (s :: rest) st.fsize hw s List.mem_cons_self off siz (by omega)
        (by rw [hcond.2.1]; omega)
      simp only [replay, List.foldl_cons, List.foldl_nil, Ev.apply, true_and]
      rw [getD_writeAt, hrd, List.length_map, List.length_range]
      split
      · rename_i hin
        rw [getD_map_range _ _ _ (by omega), hcond.2.1, Nat.zero_add, hV _ (by omega)]
      · rfl
    · exact fileCopyL_expect st.cbuf st.file V sz off siz noff i (by omega)

theorem mmapWriteL_expect (st : St) (so rel : Nat) (d V : Bytes) (sz i : Nat) :
    (replay ⟨V, sz⟩ (mmapWriteL st so rel d true).2.2).bytes.getD i 0 =
      if (mmapWrite st so rel d).1 = .ok ∧ so + rel ≤ i ∧ i < so + rel + d.length then d.getD (i - (so + rel)) 0
      else V.getD i 0 := by
  unfold mmapWriteL
  simp only [and_true]
  by_cases hok : (mmapWrite st so rel d).1 = .ok
  · rw [if_pos hok]
    simp only [replay, List.foldl_cons, List.foldl_nil, Ev.apply, hok, true_and]
    exact getD_writeAt V (so + rel) d i
  · rw [if_neg hok]; simp only [hok, false_and, if_false]; rfl

/-- a call that tells the listener everything it does: not the store through a mapping that nobody reports -/
def LOp.Reported : LOp → Prop
  | .op (.mmapWrite _ _ _) => False
  | _ => True

/-- **the listener's copy is the flat expectation.** Whatever the windows are (private ones included): if the listener's copy
    `V` showed what readers saw before the call, then after replaying the call's events it holds, at every byte below the new
    size, the plain meaning of the call on those bytes (`expect`): the written bytes, the moved bytes, everything else unchanged -/
theorem execL_expect (m : Lsn) (st : St) (op : LOp) (V : Bytes) (sz i : Nat) (h : PInv st) (hrep : op.Reported)
    (hsrc : ∀ off siz noff, op.base = .copy off siz noff → off + siz ≤ st.fsize)
    (hV : ∀ j, j < st.fsize → V.getD j 0 = view st.psize st.file st.slots j) (hVlen : st.fsize ≤ V.length)
    (hi' : i < (execL m st op).1.fsize) :
    (replay ⟨V, sz⟩ (execL m st op).2.2.2).bytes.getD i 0 = expect st op.base (fun j => V.getD j 0) i := by
  cases op with
  | mmapWriteR so rel d => exact mmapWriteL_expect st so rel d V sz i
  | op o =>
    cases o with
    | write off d =>
      have hb := writeL_base m st off d
      have := writeL_expect m st off d V sz i hi'
      simp only [execL, LOp.base, expect] at this ⊢
      rw [this, ← hb]
    | read off n => rfl
    | copy off siz noff =>
      have hb := copyL_base st off siz noff
      have := copyL_expect st off siz noff V sz i h (hsrc off siz noff rfl) hV hVlen
      simp only [execL, LOp.base, expect] at this ⊢
      rw [this, ← hb]
    | truncate size =>
      exact replay_resize_getD m V sz st.fsize _ i _ (truncateL_events_cases m st size) hi'
    | ensure size =>
      exact replay_resize_getD m V sz st.fsize _ i _ (ensureSizeL_events_cases m st size) hi'
    | addMmap off maxlen priv => rfl
    | removeMmap off => rfl
    | mmapWrite so rel d => exact absurd hrep (by simp [LOp.Reported])
    | remapAll => rfl

/-- a store through a mapping that nobody reports leaves the listener's copy as it was, while the file (shared windows) takes
    the bytes -/
theorem mmapWrite_unreported (m : Lsn) (st : St) (so rel : Nat) (d : Bytes) (hs : AllShared st.slots) :
    (execL m st (.op (.mmapWrite so rel d))).2.2.2 = [] ∧
    ((execL m st (.op (.mmapWrite so rel d))).2.1 = .ok →
      (execL m st (.op (.mmapWrite so rel d))).1.file = writeAt st.file (so + rel) d) := by
  refine ⟨by simp [execL, mmapWriteL], ?_⟩
  simp only [execL, mmapWriteL]
  rw [mmapWrite_eq_flat st so rel d hs]
  unfold flatMmapWrite
  cases h1 : st.slots.findIdx? (fun s => s.off == so) with
  | none => simp
  | some k =>
    simp only []
    cases h2 : st.slots[k]? with
    | none => simp
    | some s =>
      simp only []
      split
      · simp
      · split
        · intro _; rw [findIdx_off st.slots so k s h1 h2]
        · simp

end IwModel.Exf
