import IwModel.Model.Format
import IwModel.Lemmas.KvLinks
/-! Bridge from the explicit-link model to the audit of `Model/Format.lean`: a database image whose link
fields (head links, tail link, counters; per node block, level, links, back link, in level-0 order) are those of a
state satisfying `LinkInv` passes the clauses `levelErrs`, `linkErrs` and `tailOk` of `checkDb`. -/
namespace IwModel.KvLinks
open IwModel IwModel.Format

/-- the link fields of a parsed node -/
def linkFields (b : Sblk) : LNode := ⟨b.blk, b.lvl, b.n, b.p0⟩

/-- `d` is an image of the database state `s` as far as links are concerned (flags, ids, metadata, records and
    slot geometry are arbitrary): same database block, head links, tail link, counters, and the nodes of the
    level-0 chain with their block, level, links and back link -/
def ImgOf (s : LDb) (d : DbImg) : Prop :=
  d.blk = s.blk ∧ d.p0 = s.tail ∧ d.n = s.hn ∧ d.c = s.lcnt ∧ d.nodes.map linkFields = (order s).filterMap (node? s)

def toSblk (nd : LNode) : Sblk :=
  { flags := 0, lvl := nd.lvl, lkl := 0, pnum := 0, p0 := nd.p0, kblk := 0, piAll := [], n := nd.n, bpos := 0, lk := [],
    szpow := 0, idxsz := 0, slots := [], blk := nd.id, recs := [] }

/-- the image built from the model -/
def toImg (s : LDb) : DbImg :=
  { flags := 0, id := 0, next := 0, p0 := s.tail, n := s.hn, c := s.lcnt, metaBlk := 0, metaBlkn := 0, blk := s.blk,
    nodes := ((order s).filterMap (node? s)).map toSblk }

theorem imgOf_toImg (s : LDb) : ImgOf s (toImg s) := by
  refine ⟨rfl, rfl, rfl, rfl, ?_⟩
  simp only [toImg, List.map_map]
  conv => rhs; rw [← List.map_id ((order s).filterMap (node? s))]
  apply List.map_congr_left
  intro nd _
  rfl

/-- the nodes of the threading of `S`, the first one pointing back at `d` -/
def canonList (d : Nat) : AL → List LNode
  | [] => []
  | (x, l) :: r => ⟨x, l, (List.range (l + 1)).map (nextAt · r), d⟩ :: canonList x r

theorem Rep.nodes_eq {s : LDb} {L : AL} (h : Rep s L) :
    ∀ (S P : AL), L = P ++ S → (ids S).filterMap (node? s) = canonList (lastId s.blk P) S := by
  intro S
  induction S with
  | nil => intro P _; rfl
  | cons q r ih =>
    intro P hs
    obtain ⟨x, l⟩ := q
    simp only [ids_cons, List.filterMap_cons, h.node P x l r hs, canonList, canonNode]
    have := ih (P ++ [(x, l)]) (by simp [hs])
    rw [lastId_append] at this
    simp only [lastId] at this
    rw [this]

section
variable (nodes : List Sblk)

theorem canon_facts (i : Nat) : ∀ (nodes : List Sblk) (d : Nat) (S : AL), nodes.map linkFields = canonList d S →
    levelChain nodes i = ids (S.filter fun p => decide (i ≤ p.2)) ∧
    (nodes.filter (fun b => decide (b.lvl = i))).length = cnt i S ∧ nodes.map (·.blk) = ids S ∧
    ∀ x ∈ nodes.zip (d :: nodes.map (·.blk)), x.1.p0 = x.2 := by
  intro nodes d S
  induction S generalizing nodes d with
  | nil =>
    intro h
    cases nodes with
    | nil => simp [levelChain, cnt, ids]
    | cons b bs => simp [canonList] at h
  | cons q r ih =>
    intro h
    obtain ⟨x, l⟩ := q
    cases nodes with
    | nil => simp [canonList] at h
    | cons b bs =>
      simp only [List.map_cons, canonList, List.cons.injEq] at h
      obtain ⟨hb, hbs⟩ := h
      have hblk : b.blk = x := congrArg LNode.id hb
      have hlvl : b.lvl = l := congrArg LNode.lvl hb
      have hp0 : b.p0 = d := congrArg LNode.p0 hb
      obtain ⟨h1, h2, h3, h4⟩ := ih bs x hbs
      refine ⟨?_, ?_, ?_, ?_⟩
      · simp only [levelChain, List.filter_cons, hlvl, ge_iff_le] at h1 ⊢
        by_cases hl : i ≤ l
        · simp only [hl, decide_true, if_true, List.map_cons, hblk, ids_cons]; rw [h1]
        · simp only [hl, decide_false, Bool.false_eq_true, if_false]; exact h1
      · rw [cnt_cons, List.filter_cons, hlvl]
        by_cases hl : l = i
        · simp only [hl, decide_true, if_true, List.length_cons]; omega
        · simp only [hl, decide_false, Bool.false_eq_true, if_false]; omega
      · simp only [List.map_cons, hblk, ids_cons, h3]
      · intro y hy
        simp only [List.map_cons, List.zip_cons_cons, List.mem_cons] at hy
        rcases hy with rfl | hy
        · exact hp0
        · rw [hblk] at hy; exact h4 y hy

theorem canon_find : ∀ (nodes : List Sblk) (d : Nat) (pre : AL) (x l : Nat) (post : AL),
    nodes.map linkFields = canonList d (pre ++ (x, l) :: post) → x ∉ ids pre →
    ∃ sb, nodes.find? (fun b => decide (b.blk = x)) = some sb ∧ sb.n = (List.range (l + 1)).map (nextAt · post) := by
  intro nodes d pre
  induction pre generalizing nodes d with
  | nil =>
    intro x l post h _
    cases nodes with
    | nil => simp [canonList] at h
    | cons b bs =>
      simp only [List.nil_append, List.map_cons, canonList, List.cons.injEq] at h
      have hblk : b.blk = x := congrArg LNode.id h.1
      have hn : b.n = _ := congrArg LNode.n h.1
      exact ⟨b, by simp [hblk], hn⟩
  | cons q r ih =>
    intro x l post h hx
    obtain ⟨y, ly⟩ := q
    cases nodes with
    | nil => simp [canonList] at h
    | cons b bs =>
      simp only [List.cons_append, List.map_cons, canonList, List.cons.injEq] at h
      have hblk : b.blk = y := congrArg LNode.id h.1
      have hne : ¬ b.blk = x := by
        rw [hblk]; intro e; apply hx; rw [ids_cons, e]; simp
      obtain ⟨sb, h1, h2⟩ := ih bs y x l post h.2 (fun hm => hx (by rw [ids_cons]; simp [hm]))
      exact ⟨sb, by simp only [List.find?_cons, hne, decide_false]; exact h1, h2⟩

end

theorem Rep.followLevel_eq {s : LDb} {L : AL} (h : Rep s L) (nodes : List Sblk)
    (hn : nodes.map linkFields = canonList s.blk L) (i : Nat) :
    ∀ (S P : AL) (fuel : Nat), L = P ++ S → S.length ≤ fuel →
      followLevel nodes i fuel (nextAt i S) = ids (S.filter fun p => decide (i ≤ p.2)) := by
  intro S
  induction S with
  | nil => intro P fuel _ _; cases fuel <;> simp [followLevel, nextAt, ids]
  | cons q r ih =>
    intro P fuel hs hf
    obtain ⟨x, l⟩ := q
    by_cases hl : i ≤ l
    · cases fuel with
      | zero => simp at hf
      | succ f =>
        have hx := (h.ne_blk hs).1
        have hxP : x ∉ ids P := by
          have := h.nodup; rw [hs] at this; exact (nodup_mid this).2
        obtain ⟨sb, h1, h2⟩ := canon_find nodes s.blk P x l r (hs ▸ hn) hxP
        simp only [nextAt, followLevel, if_neg hx, h1, h2, getD_map_range', if_pos (Nat.lt_succ_of_le hl),
          List.filter_cons, hl, decide_true, if_true, ids_cons]
        exact congrArg _ (ih (P ++ [(x, l)]) f (by simp [hs]) (by simpa using hf))
    · simp only [nextAt, List.filter_cons, hl, decide_false, Bool.false_eq_true, if_false]
      exact ih (P ++ [(x, l)]) fuel (by simp [hs]) (by simp at hf; omega)

/-- **the audit reports nothing**: an image with the link fields of a state that satisfies the link clause has no
    level error (for any level), no back-link error and a good tail link -/
theorem LinkInv.audit_clean {s : LDb} (h : LinkInv s) (d : DbImg) (hd : ImgOf s d) :
    (∀ i, i < SLEVELS → levelErrs d i = []) ∧ linkErrs d = [] ∧ tailOk d = true := by
  have hr := h.rep
  obtain ⟨hblk, hp0, hn, hc, hnodes⟩ := hd
  have hcanon : d.nodes.map linkFields = canonList s.blk (absList s) := by
    rw [hnodes, ← ids_absList s]; exact hr.nodes_eq (absList s) [] rfl
  have hlen : d.nodes.length = (absList s).length := by
    have := congrArg List.length (canon_facts 0 d.nodes s.blk (absList s) hcanon).2.2.1
    simpa [ids] using this
  refine ⟨?_, ?_, ?_⟩
  · intro i hi
    obtain ⟨h1, h2, _, _⟩ := canon_facts i d.nodes s.blk (absList s) hcanon
    have hstart : d.n.getD i 0 = nextAt i (absList s) := by
      rw [hn, hr.hn, getD_map_range', if_pos hi]
    have hfol := hr.followLevel_eq d.nodes hcanon i (absList s) [] (d.nodes.length + 2) rfl (by omega)
    simp only [levelErrs, hstart, hfol, h1, h2, hc, hr.lcnt, getD_map_range', if_pos hi, ne_eq, not_true_eq_false, if_false,
      List.append_nil]
  · obtain ⟨_, _, _, h4⟩ := canon_facts 0 d.nodes s.blk (absList s) hcanon
    simp only [linkErrs, List.flatMap_eq_nil_iff]
    intro x hx
    rw [hblk] at hx
    simp [h4 x hx]
  · obtain ⟨_, _, h3, _⟩ := canon_facts 0 d.nodes s.blk (absList s) hcanon
    simp only [tailOk, h3, hp0, hblk]
    rcases hr.tail with ht | ⟨h1, h2⟩
    · rw [lastId_getLast] at ht
      cases hg : (ids (absList s)).getLast? with
      | none => simp [ht, hg]
      | some b => simp [ht, hg]
    · simp [h1, h2, ids]

end IwModel.KvLinks
