import IwModel.Lemmas.JsonParse
/-! Plumbing for the top-level parse theorem: JSON texts contain no NUL byte; the fuel the parser model needs is
at most twice the text length. -/
namespace IwModel.Json
open IwModel

/-- all bytes are printable ASCII-or-above, in particular not NUL -/
def nz (bs : Bytes) : Prop := ∀ b ∈ bs, b ≠ 0

theorem nz_append (a b : Bytes) : nz (a ++ b) ↔ nz a ∧ nz b := by
  simp only [nz, List.mem_append]
  constructor
  · intro h; exact ⟨fun x hx => h x (Or.inl hx), fun x hx => h x (Or.inr hx)⟩
  · rintro ⟨h1, h2⟩ x (hx | hx); exact h1 x hx; exact h2 x hx

theorem nz_cons (a : Nat) (b : Bytes) : nz (a :: b) ↔ a ≠ 0 ∧ nz b := by
  simp [nz]

theorem nz_nil : nz [] := by simp [nz]

theorem nz_ws (w : Bytes) (h : wsOk w = true) : nz w := by
  intro b hb
  have := (List.all_eq_true.mp h) b hb
  simp only [isWsByte, Bool.or_eq_true, decide_eq_true_eq] at this
  omega

theorem nz_digits (n : Nat) : nz (Conv.digits n) := fun b hb => by have := digits_all n b hb; omega

theorem nz_isDigit (ds : Bytes) (h : ds.all isDigit = true) : nz ds := by
  intro b hb
  have := (List.all_eq_true.mp h) b hb
  simp only [isDigit, Bool.and_eq_true, decide_eq_true_eq] at this
  omega

theorem hexv_nz (c v : Nat) (h : hexv c = some v) : c ≠ 0 := by
  intro hc; subst hc; simp [hexv] at h

theorem hex4_nz (a b c d v : Nat) (h : hex4 a b c d = some v) : a ≠ 0 ∧ b ≠ 0 ∧ c ≠ 0 ∧ d ≠ 0 := by
  unfold hex4 at h
  split at h
  · rename_i h1 h2 h3 h4
    exact ⟨hexv_nz _ _ h1, hexv_nz _ _ h2, hexv_nz _ _ h3, hexv_nz _ _ h4⟩
  · simp at h

theorem nz_spell (sp : Spell) (hv : sp.valid = true) : nz sp.text := by
  cases sp with
  | raw b =>
    simp only [Spell.valid, Bool.and_eq_true, decide_eq_true_eq] at hv
    simp only [Spell.text, nz_cons, nz_nil, and_true]; omega
  | esc l =>
    simp only [Spell.valid] at hv
    have : l ≠ 0 := by intro h; subst h; simp [rfcEsc] at hv
    simp [Spell.text, nz_cons, nz_nil, this]
  | u4 h1 h2 h3 h4 =>
    simp only [Spell.valid] at hv
    cases hx : hex4 h1 h2 h3 h4 with
    | none => simp [hx] at hv
    | some cp =>
      obtain ⟨a, b, c, d⟩ := hex4_nz _ _ _ _ _ hx
      simp [Spell.text, nz_cons, nz_nil, *]
  | pair h1 h2 h3 h4 g1 g2 g3 g4 =>
    simp only [Spell.valid] at hv
    cases hx : hex4 h1 h2 h3 h4 with
    | none => simp [hx] at hv
    | some cp =>
      cases hy : hex4 g1 g2 g3 g4 with
      | none => simp [hx, hy] at hv
      | some cp2 =>
        obtain ⟨a, b, c, d⟩ := hex4_nz _ _ _ _ _ hx
        obtain ⟨a', b', c', d'⟩ := hex4_nz _ _ _ _ _ hy
        simp [Spell.text, nz_cons, nz_nil, *]

theorem nz_strText (s : List Spell) (hv : strValid s = true) : nz (strText s) := by
  induction s with
  | nil => simp [strText, nz_nil]
  | cons sp tl ih =>
    simp only [strValid, List.all_cons, Bool.and_eq_true] at hv
    simp only [strText, List.flatMap_cons, nz_append]
    exact ⟨nz_spell sp hv.1, ih (by simpa [strValid] using hv.2)⟩

theorem nz_quoted (s : List Spell) (hv : strValid s = true) : nz (quoted s) := by
  simp only [quoted, nz_cons, nz_append, nz_nil, and_true]
  exact ⟨by decide, nz_strText s hv, by decide⟩

theorem nz_signText (neg : Bool) : nz (signText neg) := by
  cases neg <;> simp [signText, nz]

theorem nz_numTok (t : NumTok) (hv : t.valid = true) : nz t.text := by
  simp only [NumTok.text, nz_append]
  refine ⟨⟨nz_signText _, nz_digits _⟩, ?_⟩
  unfold NumTok.valid at hv
  simp only [Bool.and_eq_true] at hv
  obtain ⟨⟨hf, he⟩, -⟩ := hv
  unfold NumTok.tail
  rw [nz_append]
  constructor
  · cases h : t.frac with
    | none => exact nz_nil
    | some ds =>
      simp only [h, Bool.and_eq_true] at hf
      simp only [nz_cons]; exact ⟨by decide, nz_isDigit ds hf.2⟩
  · cases h : t.exp with
    | none => exact nz_nil
    | some x =>
      obtain ⟨e, s, ds⟩ := x
      simp only [h, Bool.and_eq_true, Bool.or_eq_true, decide_eq_true_eq] at he
      simp only [nz_cons, nz_append]
      refine ⟨by omega, ?_, nz_isDigit ds he.2⟩
      rcases he.1.1.2 with (h | h) | h <;> simp [h, nz]

mutual
  theorem nz_cst : ∀ (c : Cst), c.valid = true → nz c.text
    | .null, _ => by simp [Cst.text, nz]
    | .tru, _ => by simp [Cst.text, nz]
    | .fals, _ => by simp [Cst.text, nz]
    | .int neg n, _ => by simp only [Cst.text, nz_append]; exact ⟨nz_signText _, nz_digits _⟩
    | .dbl t, hv => nz_numTok t hv
    | .str s, hv => nz_quoted s hv
    | .arr ws0 items, hv => by
      simp only [Cst.valid, Bool.and_eq_true] at hv
      simp only [Cst.text, nz_cons, nz_append, nz_nil, and_true]
      refine ⟨by decide, ⟨?_, nz_items items hv.2⟩, by decide⟩
      split
      · exact nz_ws _ hv.1
      · exact nz_nil
    | .obj ws0 ms, hv => by
      simp only [Cst.valid, Bool.and_eq_true] at hv
      simp only [Cst.text, nz_cons, nz_append, nz_nil, and_true]
      refine ⟨by decide, ⟨?_, nz_members ms hv.2⟩, by decide⟩
      split
      · exact nz_ws _ hv.1
      · exact nz_nil
  theorem nz_items : ∀ (items : Items), items.valid = true → nz items.text
    | .nil, _ => nz_nil
    | .cons w1 v w2 tl, hv => by
      simp only [Items.valid, Bool.and_eq_true] at hv
      simp only [Items.text, nz_append]
      refine ⟨⟨⟨⟨nz_ws _ hv.1.1.1, nz_cst v hv.1.1.2⟩, nz_ws _ hv.1.2⟩, ?_⟩, nz_items tl hv.2⟩
      split
      · exact nz_nil
      · simp [nz]
  theorem nz_members : ∀ (ms : Members), ms.valid = true → nz ms.text
    | .nil, _ => nz_nil
    | .cons w1 k w2 w3 v w4 tl, hv => by
      simp only [Members.valid, Bool.and_eq_true] at hv
      obtain ⟨⟨⟨⟨⟨⟨⟨hw1, hkv⟩, hkz⟩, hw2⟩, hw3⟩, hvv⟩, hw4⟩, htv⟩ := hv
      simp only [Members.text, nz_append]
      refine ⟨⟨⟨⟨⟨⟨⟨⟨nz_ws _ hw1, nz_quoted k hkv⟩, nz_ws _ hw2⟩, by simp [nz]⟩, nz_ws _ hw3⟩, nz_cst v hvv⟩, nz_ws _ hw4⟩, ?_⟩,
        nz_members tl htv⟩
      split
      · exact nz_nil
      · simp [nz]
end

theorem Cst.text_len_pos (c : Cst) : 1 ≤ c.text.length := by
  obtain ⟨b, r, h, -⟩ := c.text_head
  rw [h]; simp

mutual
  theorem need_le : ∀ (c : Cst), c.need ≤ 2 * c.text.length
    | .null => by simp [Cst.need, Cst.text]
    | .tru => by simp [Cst.need, Cst.text]
    | .fals => by simp [Cst.need, Cst.text]
    | .int neg n => by have := Cst.text_len_pos (.int neg n); simp only [Cst.need]; omega
    | .dbl t => by have := Cst.text_len_pos (.dbl t); simp only [Cst.need]; omega
    | .str s => by have := Cst.text_len_pos (.str s); simp only [Cst.need]; omega
    | .arr ws0 items => by
      have := need_items_le items
      simp only [Cst.need, Cst.text, List.length_cons, List.length_append, List.length_nil]
      omega
    | .obj ws0 ms => by
      have := need_members_le ms
      simp only [Cst.need, Cst.text, List.length_cons, List.length_append, List.length_nil]
      omega
  theorem need_items_le : ∀ (items : Items), items.need ≤ 2 * items.text.length + 3
    | .nil => by simp [Items.need, Items.text]
    | .cons w1 v w2 tl => by
      have h1 := need_le v
      have h2 := need_items_le tl
      cases tl with
      | nil =>
        simp only [Items.need, Items.text, Items.isNil, List.length_append, List.length_nil, ↓reduceIte]
        omega
      | cons a b c d =>
        simp only [Items.need, Items.isNil, List.length_append] at *
        rw [Items.text]
        simp only [Items.isNil, Bool.false_eq_true, ↓reduceIte, List.length_append, List.length_cons, List.length_nil]
        omega
  theorem need_members_le : ∀ (ms : Members), ms.need ≤ 2 * ms.text.length + 1
    | .nil => by simp [Members.need, Members.text]
    | .cons w1 k w2 w3 v w4 tl => by
      have h1 := need_le v
      have h2 := need_members_le tl
      simp only [Members.need]
      rw [Members.text]
      simp only [List.length_append, List.length_cons, List.length_nil, quoted]
      omega
end


theorem cstr_nz (t : Bytes) (h : nz t) : cstr t = t := by
  induction t with
  | nil => rfl
  | cons a as ih =>
    rw [nz_cons] at h
    have : (decide (a ≠ 0)) = true := by simp; exact h.1
    simp only [cstr, List.takeWhile, this]
    exact congrArg _ (ih h.2)

theorem delim_ws (post : Bytes) (h : wsOk post = true) : delim post = true := by
  cases post with
  | nil => rfl
  | cons a as =>
    simp only [wsOk, List.all_cons, Bool.and_eq_true] at h
    simp [delim, h.1]

theorem skipBom_ascii (b : Nat) (r : Bytes) (h : b < 128) : skipBom (b :: r) = b :: r := by
  unfold skipBom
  split
  · rename_i h'; simp only [List.cons.injEq] at h'; omega
  · rfl

theorem text_head_ascii (c : Cst) (pre post : Bytes) (hpre : wsOk pre = true) :
    ∃ b r, pre ++ c.text ++ post = b :: r ∧ b < 128 := by
  cases pre with
  | nil =>
    obtain ⟨b, r, h, hb⟩ := c.text_head
    exact ⟨b, r ++ post, by simp [h], by unfold valueHead at hb; omega⟩
  | cons a as =>
    simp only [wsOk, List.all_cons, Bool.and_eq_true] at hpre
    have := hpre.1
    simp only [isWsByte, Bool.or_eq_true, decide_eq_true_eq] at this
    exact ⟨a, as ++ c.text ++ post, by simp, by omega⟩

end IwModel.Json
