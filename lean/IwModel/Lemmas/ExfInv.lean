import IwModel.Lemmas.ExfPriv
/-! The invariant of histories with private windows: sizes, window list shape, page alignment of the windows, disk at least
    as long as the logical size. -/
namespace IwModel.Exf
open IwModel

/-- window geometry is page aligned (`_exfile_add_mmap_lw` checks the offset and rounds the length) -/
def AInv (ps : Nat) (slots : List Slot) : Prop := ∀ s ∈ slots, s.off % ps = 0 ∧ s.maxlen % ps = 0

/-- what every history keeps (private windows, failed calls, copies beyond the size included) -/
structure PInv (st : St) : Prop where
  size : SizeInv st
  win : WInv st.slots st.fsize
  align : AInv st.psize st.slots
  disk : st.fsize ≤ st.file.length

theorem PInv.dinv {st : St} (h : PInv st) : DInv st := ⟨h.disk, fun s hs => (h.win.2 s hs).2⟩

theorem AInv_of_geom (ps : Nat) (a b : List Slot) (h : a.map geom = b.map geom) (hb : AInv ps b) : AInv ps a := by
  intro s hs
  have hm : geom s ∈ b.map geom := by rw [← h]; exact List.mem_map_of_mem hs
  obtain ⟨t, ht, hg⟩ := List.mem_map.mp hm
  simp only [geom, Prod.mk.injEq] at hg
  have := hb t ht
  rw [← hg.1, ← hg.2.1]; exact this

theorem remapAll_AInv (ps fsize : Nat) (slots : List Slot) (h : AInv ps slots) : AInv ps (remapAll fsize slots) := by
  intro s hs
  simp only [remapAll, List.mem_map] at hs
  obtain ⟨s0, hs0, rfl⟩ := hs
  have := h s0 hs0
  unfold remapSlot
  simp only []
  split <;> exact this

theorem truncate_keeps (st : St) (size : Nat) :
    (truncate st size).2.psize = st.psize ∧
    ((truncate st size).2.slots = st.slots ∨ (truncate st size).2.slots = remapAll (truncate st size).2.fsize st.slots) := by
  rcases truncate_cases st size with ⟨e, _⟩ | ⟨e, _⟩ | ⟨e, _⟩ <;> rw [e]
  · exact ⟨rfl, Or.inl rfl⟩
  · exact ⟨rfl, Or.inl rfl⟩
  · exact ⟨rfl, Or.inr rfl⟩

theorem ensureSize_keeps (st : St) (sz : Nat) :
    (ensureSize st sz).2.psize = st.psize ∧
    ((ensureSize st sz).2.slots = st.slots ∨ (ensureSize st sz).2.slots = remapAll (ensureSize st sz).2.fsize st.slots) := by
  rcases ensureSize_cases st sz with ⟨_, e⟩ | ⟨_, e | e | ⟨T, _, e, _, _⟩⟩ <;> rw [e]
  · exact ⟨rfl, Or.inl rfl⟩
  · exact ⟨rfl, Or.inl rfl⟩
  · exact ⟨rfl, Or.inl rfl⟩
  · exact truncate_keeps { st with prev := (policy st.psize st.pol st.prev sz st.fsize).2 } T

theorem truncate_PInv (st : St) (size : Nat) (h : PInv st) : PInv (truncate st size).2 := by
  refine ⟨truncate_sizeInv st size h.size, truncate_WInv st size h.win, ?_, (truncate_disk st size h.dinv).1.1⟩
  have hk := truncate_keeps st size
  rw [hk.1]
  rcases hk.2 with e | e <;> rw [e]
  · exact h.align
  · exact remapAll_AInv _ _ _ h.align

theorem ensureSize_PInv (st : St) (sz : Nat) (h : PInv st) : PInv (ensureSize st sz).2 := by
  refine ⟨ensureSize_sizeInv st sz h.size, ensureSize_WInv st sz h.win, ?_, (ensureSize_disk st sz h.dinv).1.1⟩
  have hk := ensureSize_keeps st sz
  rw [hk.1]
  rcases hk.2 with e | e <;> rw [e]
  · exact h.align
  · exact remapAll_AInv _ _ _ h.align

/-! ## stores never shorten the file -/

theorem slotWrite_length_ge (ps : Nat) (file : Bytes) (s : Slot) (r : Nat) (d : Bytes) :
    file.length ≤ (slotWrite ps file s r d).2.length := by
  cases d with
  | nil => simp [slotWrite]
  | cons x xs =>
    by_cases hp : s.priv = true
    · simp [slotWrite, hp]
    · have hp' : s.priv = false := by simpa using hp
      rw [slotWrite_shared _ _ _ _ _ hp']
      show file.length ≤ (writeAt file (s.off + r) (x :: xs)).length
      exact length_writeAt_ge file _ _

theorem writeSeg_length_ge (ps : Nat) (file : Bytes) (slots : List Slot) (g : Seg) (d : Bytes) :
    file.length ≤ (writeSeg ps file slots g d).2.length := by
  unfold writeSeg
  cases g.slot with
  | none => exact length_writeAt_ge _ _ _
  | some k =>
    simp only []
    cases slots[k]? with
    | none => exact Nat.le_refl _
    | some s => exact slotWrite_length_ge _ _ _ _ _

theorem writeSegs_length_ge (ps : Nat) : ∀ (gs : List Seg) (d : Bytes) (slots : List Slot) (file : Bytes),
    file.length ≤ (writeSegs ps gs d slots file).2.length
  | [], _, _, _ => Nat.le_refl _
  | g :: gs, d, slots, file => by
    unfold writeSegs
    exact Nat.le_trans (writeSeg_length_ge ps file slots g (d.take g.len)) (writeSegs_length_ge ps gs _ _ _)

/-- shape of `write`: either nothing happens, or the (possibly grown) state gets its pieces stored -/
theorem write_shape (st : St) (off : Int) (d : Bytes) :
    (write st off d).2.2 = st ∨
    (∃ r, r = ensureSize st (off.toNat + d.length) ∧ r.1 ≠ .ok ∧ (write st off d).2.2 = r.2) ∨
    ∃ st1, (st1 = st ∧ off.toNat + d.length ≤ st.fsize ∨
            st1 = (ensureSize st (off.toNat + d.length)).2 ∧ (ensureSize st (off.toNat + d.length)).1 = .ok) ∧
      0 ≤ off ∧
      write st off d = (.ok, d.length,
        { st1 with slots := (writeSegs st1.psize (segs st1.slots 0 off.toNat d.length) d st1.slots st1.file).1,
                   file := (writeSegs st1.psize (segs st1.slots 0 off.toNat d.length) d st1.slots st1.file).2 }) := by
  unfold write
  split
  · left; rfl
  · rename_i hb
    simp only []
    split
    · left; rfl
    · by_cases hg : off.toNat + d.length > st.fsize
      · simp only [hg, if_true]
        by_cases hok : (ensureSize st (off.toNat + d.length)).1 = .ok
        · right; right
          refine ⟨_, Or.inr ⟨rfl, hok⟩, by omega, ?_⟩
          generalize ensureSize st (off.toNat + d.length) = r at hok
          obtain ⟨rc, st1⟩ := r
          simp only [] at hok
          subst hok
          simp
        · right; left
          refine ⟨_, rfl, hok, ?_⟩
          generalize ensureSize st (off.toNat + d.length) = r at hok
          obtain ⟨rc, st1⟩ := r
          simp only [] at hok
          simp [hok]
      · right; right
        refine ⟨st, Or.inl ⟨rfl, by omega⟩, by omega, ?_⟩
        simp [hg]

theorem exec_psize (st : St) (op : Op) : (exec st op).1.psize = st.psize := by
  have h1 : core (exec st op).1 = core st ∨ ∃ sz, core (exec st op).1 = core (ensureSize st sz).2 ∨
      core (exec st op).1 = core (truncate st sz).2 := by
    cases op with
    | write off d =>
      rcases write_core st off d with e | e
      · exact Or.inl e
      · exact Or.inr ⟨_, Or.inl e⟩
    | read off n => exact Or.inl rfl
    | copy off siz noff => exact Or.inl (copy_core _ _ _ _)
    | mmapWrite so rel d => exact Or.inl (mmapWrite_core _ _ _ _)
    | truncate size => exact Or.inr ⟨size, Or.inr rfl⟩
    | ensure size => exact Or.inr ⟨size, Or.inl rfl⟩
    | addMmap off maxlen priv => exact Or.inl (addMmap_core _ _ _ _)
    | removeMmap off => exact Or.inl (removeMmap_core _ _)
    | remapAll => exact Or.inl rfl
  rcases h1 with e | ⟨sz, e | e⟩
  · simp only [core, Prod.mk.injEq] at e; exact e.1
  · simp only [core, Prod.mk.injEq] at e; rw [e.1]; exact (ensureSize_keeps st sz).1
  · simp only [core, Prod.mk.injEq] at e; rw [e.1]; exact (truncate_keeps st sz).1

theorem addMmap_aligned (st : St) (off maxlen : Nat) (priv : Bool) (hp : 0 < st.psize) :
    (addMmap st off maxlen priv).2 = st ∨
    ∃ ns out, ns.off % st.psize = 0 ∧ ns.maxlen % st.psize = 0 ∧ insertSlot ns st.slots = some out ∧
      addMmap st off maxlen priv = (.ok, { st with slots := out }) := by
  unfold addMmap
  by_cases h1 : off % st.psize ≠ 0
  · left; simp [h1]
  · simp only [h1, if_false]
    have hal : (if offTMax - off < roundUp (min maxlen (offTMax - off)) st.psize
      then roundDown (min maxlen (offTMax - off)) st.psize else roundUp (min maxlen (offTMax - off)) st.psize) % st.psize = 0 := by
      split
      · unfold roundDown; exact Nat.mul_mod_left _ _
      · exact roundUp_mod _ _
    generalize (if offTMax - off < roundUp (min maxlen (offTMax - off)) st.psize
      then roundDown (min maxlen (offTMax - off)) st.psize else roundUp (min maxlen (offTMax - off)) st.psize) = ml at hal
    by_cases h2 : ml = 0
    · left; simp [h2]
    · simp only [h2, if_false]
      cases hins : insertSlot { off := off, maxlen := ml, len := slotLen { off := off, maxlen := ml, len := 0, priv := priv } st.fsize, priv := priv } st.slots with
      | none => left; rfl
      | some out => right; exact ⟨_, out, by simpa using h1, hal, hins, rfl⟩

/-- **every call keeps the invariant** -/
theorem exec_PInv (st : St) (op : Op) (h : PInv st) : PInv (exec st op).1 := by
  refine ⟨exec_sizeInv st op h.size, exec_WInv st op h.win, ?_, ?_⟩
  · -- alignment
    rw [exec_psize]
    cases op with
    | write off d =>
      simp only [exec]
      obtain ⟨st1, hst1, _, hg⟩ := write_slots st off d
      refine AInv_of_geom _ _ _ hg ?_
      rcases hst1 with rfl | rfl
      · exact h.align
      · have := (ensureSize_PInv st (off.toNat + d.length) h).align
        rw [(ensureSize_keeps st _).1] at this
        exact this
    | read off n => exact h.align
    | copy off siz noff =>
      simp only [exec]
      unfold copy
      split
      · rename_i s rest hsl
        split
        · refine AInv_of_geom _ _ (s :: rest) ?_ (by rw [← hsl]; exact h.align)
          simp only [List.map_cons, slotWrite_geom']
        · exact h.align
      · exact h.align
    | mmapWrite so rel d =>
      simp only [exec]
      unfold mmapWrite
      cases hk : st.slots.findIdx? (fun s => s.off == so) with
      | none => exact h.align
      | some k =>
        simp only []
        cases hsk : st.slots[k]? with
        | none => exact h.align
        | some s =>
          simp only []
          split
          · exact h.align
          · split
            · exact AInv_of_geom _ _ _ (map_set_geom _ _ _ _ hsk (slotWrite_geom' _ _ _ _ _)) h.align
            · exact h.align
    | truncate size =>
      have := (truncate_PInv st size h).align
      rw [(truncate_keeps st size).1] at this
      exact this
    | ensure size =>
      have := (ensureSize_PInv st size h).align
      rw [(ensureSize_keeps st size).1] at this
      exact this
    | addMmap off maxlen priv =>
      simp only [exec]
      rcases addMmap_aligned st off maxlen priv h.size.1 with e | ⟨ns, out, h1, h2, hins, e⟩
      · rw [e]; exact h.align
      · rw [e]
        intro s hs
        rcases insertSlot_mem _ _ _ hins s hs with rfl | hs'
        · exact ⟨h1, h2⟩
        · exact h.align s hs'
    | removeMmap off =>
      simp only [exec, removeMmap]
      split
      · exact h.align
      · rename_i out hout
        exact fun s hs => h.align s (removeFirst_mem _ _ _ hout s hs)
    | remapAll => exact remapAll_AInv _ _ _ h.align
  · -- the disk is at least as long as the logical size
    cases op with
    | write off d =>
      simp only [exec]
      rcases write_shape st off d with e | ⟨r, hr, _, e⟩ | ⟨st1, hst1, _, e⟩
      · rw [e]; exact h.disk
      · rw [e, hr]; exact (ensureSize_PInv st _ h).disk
      · rw [e]
        have h1 : st1.fsize ≤ st1.file.length := by
          rcases hst1 with ⟨rfl, _⟩ | ⟨rfl, _⟩
          · exact h.disk
          · exact (ensureSize_PInv st _ h).disk
        exact Nat.le_trans h1 (writeSegs_length_ge _ _ _ _ _)
    | read off n => exact h.disk
    | copy off siz noff =>
      simp only [exec]
      have hfc : st.file.length ≤ (fileCopy st.cbuf st.file off siz noff).2.length := by
        rw [fileCopy_length]; split <;> omega
      unfold copy
      split
      · split
        · exact Nat.le_trans h.disk (slotWrite_length_ge _ _ _ _ _)
        · exact Nat.le_trans h.disk hfc
      · exact Nat.le_trans h.disk hfc
    | mmapWrite so rel d =>
      simp only [exec]
      unfold mmapWrite
      split
      · split
        · split
          · exact h.disk
          · split
            · exact Nat.le_trans h.disk (slotWrite_length_ge _ _ _ _ _)
            · exact h.disk
        · exact h.disk
      · exact h.disk
    | truncate size => exact (truncate_PInv st size h).disk
    | ensure size => exact (ensureSize_PInv st size h).disk
    | addMmap off maxlen priv =>
      simp only [exec]
      rcases addMmap_cases st off maxlen priv with e | ⟨ns, out, _, _, _, _, e⟩ <;> rw [e]
      · exact h.disk
      · exact h.disk
    | removeMmap off =>
      simp only [exec, removeMmap]
      split <;> exact h.disk
    | remapAll => exact h.disk

theorem run_PInv : ∀ (ops : List Op) (st : St), PInv st → PInv (run st ops).1
  | [], _, h => h
  | op :: ops, st, h => by
    simp only [run]
    exact run_PInv ops _ (exec_PInv st op h)

end IwModel.Exf
