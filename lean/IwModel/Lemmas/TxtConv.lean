import IwModel.Model.Txt
/-! Helper lemmas for the C17 theorems about `iwjson_ftoa`, `iwatoi2`, `iwafcmp`, `iwhex2bin` (core Lean only). -/
namespace IwModel.Txt

theorem numBuf_eq : numBuf = 32 := rfl

/-! ### ftoa -/

theorem snprintfInto_length (buf t : Bytes) (h : buf.length = numBuf) : (snprintfInto buf t).length = numBuf := by
  unfold snprintfInto
  simp only [List.length_append, List.length_take, List.length_drop, List.length_cons, List.length_nil]
  rw [h, numBuf_eq]; omega

theorem commaToDot_length (buf : Bytes) : (commaToDot buf).length = buf.length := by
  induction buf with
  | nil => rfl
  | cons c cs ih =>
    unfold commaToDot
    split
    · rfl
    · split
      · simp
      · simp [ih]

theorem rdBuf_some (buf : Bytes) (i : Nat) (h : buf.length = numBuf) (hi : i < numBuf) : ∃ c, rdBuf buf i = some c := by
  unfold rdBuf; rw [if_pos hi]
  exact ⟨buf[i]'(by omega), by simp [show i < buf.length by omega]⟩

theorem trimZeros_safe (buf : Bytes) (n : Nat) (h : buf.length = numBuf) (hn : n ≤ numBuf) :
    ∃ b l, trimZeros buf n = some (b, l) ∧ b.length = numBuf ∧ l ≤ n := by
  induction n generalizing buf with
  | zero => exact ⟨buf, 0, rfl, h, Nat.le_refl _⟩
  | succ n ih =>
    obtain ⟨c, hc⟩ := rdBuf_some buf n h (by omega)
    unfold trimZeros; rw [hc]; dsimp only
    split
    · obtain ⟨b, l, hb, hl, hle⟩ := ih (buf.set n 0) (by simpa using h) (by omega)
      exact ⟨b, l, hb, hl, by omega⟩
    · exact ⟨buf, n + 1, rfl, h, Nat.le_refl _⟩

theorem ftoaTrim_safe (buf3 : Bytes) (len : Nat) (h3 : buf3.length = numBuf) (hlen : len < numBuf) :
    ftoaTrim buf3 len ≠ .oob := by
  unfold ftoaTrim
  obtain ⟨b, l, hb, hbl, hle⟩ := trimZeros_safe buf3 len h3 (by omega)
  rw [hb]; dsimp only
  split
  · obtain ⟨c, hc⟩ := rdBuf_some b (l - 1) hbl (by omega)
    rw [hc]; dsimp only
    split <;> simp
  · simp

theorem ftoa_safe (t8 t17 : Bytes) : ftoa t8 t17 ≠ .oob := by
  unfold ftoa
  dsimp only
  by_cases hf : t8.length < numBuf
  · have hd : decide (t8.length < numBuf) = true := by simpa using hf
    simp only [hd, ↓reduceIte, Bool.not_true, Bool.false_eq_true]
    split
    · simp
    · apply ftoaTrim_safe
      · rw [commaToDot_length]; simp [snprintfInto_length]
      · exact hf
  · have hd : decide (t8.length < numBuf) = false := by simpa using hf
    simp only [hd, ↓reduceIte, Bool.not_false, Bool.false_eq_true]
    split <;> simp

/-! ### atoi2 -/

theorem atoi2Skip_safe (s : Bytes) (i len : Nat) (h : i + len ≤ s.length) :
    ∃ i' len', atoi2Skip s i len = some (i', len') ∧ i' + len' ≤ s.length := by
  induction len generalizing i with
  | zero => exact ⟨i, 0, rfl, h⟩
  | succ n ih =>
    have hi : i < s.length := by omega
    unfold atoi2Skip
    simp only [List.getElem?_eq_getElem hi]
    split
    · exact ih (i + 1) (by omega)
    · exact ⟨i, n + 1, rfl, h⟩

theorem atoi2Digits_safe (s : Bytes) (i len acc : Nat) (h : i + len ≤ s.length) : atoi2Digits s i len acc ≠ none := by
  induction len generalizing i acc with
  | zero => simp [atoi2Digits]
  | succ n ih =>
    have hi : i < s.length := by omega
    unfold atoi2Digits
    simp only [List.getElem?_eq_getElem hi]
    split
    · simp
    · exact ih (i + 1) _ (by omega)

theorem isInfAt_safe (s : Bytes) (i len : Nat) (h : i + len ≤ s.length) : isInfAt s i len ≠ none := by
  unfold isInfAt
  split
  · next h3 =>
    have h0 : i < s.length := by omega
    have h1 : i + 1 < s.length := by omega
    have h2 : i + 2 < s.length := by omega
    simp [List.getElem?_eq_getElem h0, List.getElem?_eq_getElem h1, List.getElem?_eq_getElem h2]
  · simp

theorem atoi2_safe (s : Bytes) (len : Nat) (h : len ≤ s.length) : atoi2 s len ≠ none := by
  unfold atoi2
  obtain ⟨i, l, hs, hil⟩ := atoi2Skip_safe s 0 len (by omega)
  rw [hs]
  cases l with
  | zero => simp
  | succ l =>
    dsimp only
    have hi : i < s.length := by omega
    simp only [List.getElem?_eq_getElem hi]
    generalize hi2 : (if decide (s[i] = 45 ∨ s[i] = 43) = true then i + 1 else i) = i2
    generalize hl2 : (if decide (s[i] = 45 ∨ s[i] = 43) = true then l else l + 1) = l2
    have hil2 : i2 + l2 ≤ s.length := by
      subst hi2 hl2; split <;> omega
    have hinf := isInfAt_safe s i2 l2 hil2
    cases hx : isInfAt s i2 l2 with
    | none => exact absurd hx hinf
    | some b =>
      cases b with
      | true => simp
      | false =>
        dsimp only
        have hd := atoi2Digits_safe s i2 l2 0 hil2
        cases hy : atoi2Digits s i2 l2 0 with
        | none => exact absurd hy hd
        | some v => simp

/-! ### afcmp -/

theorem afSkip_safe (s : Bytes) (i len : Nat) (h : i + len ≤ s.length) :
    ∃ i' len', afSkip s i len = some (i', len') ∧ i' + len' ≤ s.length := by
  induction len generalizing i with
  | zero => exact ⟨i, 0, rfl, h⟩
  | succ n ih =>
    have hi : i < s.length := by omega
    unfold afSkip
    simp only [List.getElem?_eq_getElem hi]
    split
    · exact ih (i + 1) (by omega)
    · exact ⟨i, n + 1, rfl, h⟩

theorem afDigits_safe (s : Bytes) (i len acc : Nat) (h : i + len ≤ s.length) :
    ∃ i' len' acc', afDigits s i len acc = some (i', len', acc') ∧ i' + len' ≤ s.length := by
  induction len generalizing i acc with
  | zero => exact ⟨i, 0, acc, rfl, h⟩
  | succ n ih =>
    have hi : i < s.length := by omega
    unfold afDigits
    simp only [List.getElem?_eq_getElem hi]
    split
    · exact ⟨i, n + 1, acc, rfl, h⟩
    · exact ih (i + 1) _ (by omega)

theorem afInt_safe (s : Bytes) (len : Nat) (h : len ≤ s.length) :
    ∃ i l sg v, afInt s len = some (i, l, sg, v) ∧ i + l ≤ s.length := by
  unfold afInt
  obtain ⟨i, l, hs, hil⟩ := afSkip_safe s 0 len (by omega)
  rw [hs]; dsimp only
  have hneg : ∃ neg, (if l > 0 then (s[i]?).map (fun c => decide (c = 45)) else some false) = some neg ∧ (neg = true → l > 0) := by
    split
    · next hl =>
      have hi : i < s.length := by omega
      exact ⟨decide (s[i] = 45), by simp [List.getElem?_eq_getElem hi], fun _ => hl⟩
    · exact ⟨false, rfl, by simp⟩
  obtain ⟨neg, hn, hnl⟩ := hneg
  rw [hn]; dsimp only
  have hb : (if neg = true then i + 1 else i) + (if neg = true then l - 1 else l) ≤ s.length := by
    cases neg with
    | true => have := hnl rfl; simp; omega
    | false => simpa using hil
  obtain ⟨i2, l2, acc, hd, hil2⟩ := afDigits_safe s _ _ 0 hb
  rw [hd]
  exact ⟨i2, l2, _, _, rfl, hil2⟩

theorem afHasFrac_safe (s : Bytes) (i len : Nat) (h : i + len ≤ s.length) : ∃ b, afHasFrac s i len = some b ∧ (b = true → len > 1) := by
  unfold afHasFrac
  split
  · next hl =>
    have hi : i < s.length := by omega
    exact ⟨decide (s[i] = 46), by simp [List.getElem?_eq_getElem hi], fun _ => hl⟩
  · exact ⟨false, rfl, by simp⟩

theorem afFracDigits_safe (s : Bytes) (i len : Nat) (acc : List Nat) (h : i + len ≤ s.length) : afFracDigits s i len acc ≠ none := by
  induction len generalizing i acc with
  | zero => simp [afFracDigits]
  | succ n ih =>
    have hi : i < s.length := by omega
    unfold afFracDigits
    simp only [List.getElem?_eq_getElem hi]
    split
    · simp
    · exact ih (i + 1) _ (by omega)

theorem afFrac_safe (s : Bytes) (i len : Nat) (sign : Int) (h : i + len ≤ s.length) : afFrac s i len sign ≠ none := by
  unfold afFrac
  obtain ⟨b, hb, hbl⟩ := afHasFrac_safe s i len h
  rw [hb]
  cases b with
  | false => simp
  | true =>
    dsimp only
    have := hbl rfl
    have hd := afFracDigits_safe s (i + 1) (min (len - 1) numBuf) [] (by omega)
    cases hx : afFracDigits s (i + 1) (min (len - 1) numBuf) [] with
    | none => exact absurd hx hd
    | some ds => simp

theorem afcmp_safe (a : Bytes) (asiz : Nat) (b : Bytes) (bsiz : Nat) (ha : asiz ≤ a.length) (hb : bsiz ≤ b.length) :
    afcmp a asiz b bsiz ≠ none := by
  unfold afcmp
  obtain ⟨ia, la, sa, va, hia, hla⟩ := afInt_safe a asiz ha
  obtain ⟨ib, lb, sb, vb, hib, hlb⟩ := afInt_safe b bsiz hb
  rw [hia, hib]; dsimp only
  split
  · simp
  · split
    · simp
    · obtain ⟨fa, hfa, _⟩ := afHasFrac_safe a ia la hla
      obtain ⟨fb, hfb, _⟩ := afHasFrac_safe b ib lb hlb
      rw [hfa, hfb]; dsimp only
      have hm : ∃ rv, memcmpB a b (min asiz bsiz) = some rv := by
        unfold memcmpB
        rw [if_pos (by constructor <;> omega)]
        exact ⟨_, rfl⟩
      obtain ⟨rv, hrv⟩ := hm
      rw [hrv]; dsimp only
      split
      · have h1 := afFrac_safe a ia la sa hla
        have h2 := afFrac_safe b ib lb sb hlb
        cases hx : afFrac a ia la sa with
        | none => exact absurd hx h1
        | some x =>
          cases hy : afFrac b ib lb sb with
          | none => exact absurd hy h2
          | some y =>
            dsimp only
            split
            · simp
            · split <;> simp
      · simp

/-! ### hex2bin -/

theorem hexStore_some (out : Bytes) (cap a b : Nat) (h : out.length < cap) :
    ∃ o, hexStore out cap a b = some o ∧ o.length = out.length + 1 := by
  unfold hexStore; rw [if_pos h]; exact ⟨_, rfl, by simp⟩

theorem hex2binLoop_safe (hex : Bytes) (hexlen max cap pos : Nat) (out : Bytes)
    (hl : hexlen ≤ hex.length) (hcap : max ≤ cap) (hout : out.length < max)
    (hpar : pos = 0 ∨ (hexlen - pos) % 2 = 0) :
    hex2binLoop hex hexlen max cap pos out ≠ none := by
  fun_induction hex2binLoop hex hexlen max cap pos out
  all_goals first
    | (simp; done)
    | grind [hexStore]

theorem hex2bin_safe (hex : Bytes) (hexlen max cap : Nat) (hl : hexlen ≤ hex.length) (hcap : max ≤ cap) :
    hex2bin hex hexlen max cap ≠ none := by
  unfold hex2bin
  split
  · simp
  · exact hex2binLoop_safe hex hexlen max cap 0 [] hl hcap (by simp; omega) (Or.inl rfl)

end IwModel.Txt
