import IwModel.Model.Arr
/-! Bounds-instrumented memory primitives and the effect of every `iwulist` / `iwlist` call on the live window. -/
set_option linter.unusedSimpArgs false
namespace IwModel.Arr
variable {α : Type}

theorem length_realloc (junk : α) (a : List α) (n : Nat) : (realloc junk a n).length = n := by
  unfold realloc; simp; omega

theorem getElem?_realloc (junk : α) (a : List α) (n j : Nat) :
    (realloc junk a n)[j]? = if j < n then (if j < a.length then a[j]? else some junk) else none := by
  unfold realloc
  rw [List.getElem?_append]
  simp only [List.length_take, List.getElem?_take, List.getElem?_replicate]
  by_cases h1 : j < n <;> by_cases h2 : j < a.length <;> simp [h1, h2] <;> omega

theorem blit_some (a : List α) (dst src n : Nat) (h1 : src + n ≤ a.length) (h2 : dst + n ≤ a.length) :
    ∃ a', blit a dst src n = some a' ∧ a'.length = a.length ∧
      ∀ j, a'[j]? = if dst ≤ j ∧ j < dst + n then a[src + (j - dst)]? else a[j]? := by
  unfold blit
  by_cases hn : n = 0
  · subst hn; exact ⟨a, by simp, rfl, fun j => by simp; intro h1 h2; omega⟩
  · rw [if_neg hn, if_pos ⟨h1, h2⟩]
    refine ⟨_, rfl, by simp; omega, ?_⟩
    intro j
    rw [List.append_assoc, List.getElem?_append]
    simp only [List.length_take, List.getElem?_take, List.getElem?_append, List.getElem?_drop, List.length_drop]
    by_cases c1 : j < dst
    · have : j < min dst a.length := by omega
      simp [this, c1]; intro h; omega
    · have : ¬ j < min dst a.length := by omega
      simp only [this, if_false]
      have hm : min dst a.length = dst := by omega
      rw [hm]
      by_cases c2 : j < dst + n
      · have : j - dst < min n (a.length - src) := by omega
        have d1 : j - dst < n := by omega
        have d2 : dst ≤ j := by omega
        simp [this, c2, d1, d2]
      · have : ¬ j - dst < min n (a.length - src) := by omega
        simp only [this, if_false]
        have hm2 : min n (a.length - src) = n := by omega
        rw [hm2]
        have : ¬ (dst ≤ j ∧ j < dst + n) := by omega
        simp only [this, if_false]
        congr 1; omega

theorem poke_some (a : List α) (i : Nat) (x : α) (h : i < a.length) : poke a i x = some (a.set i x) := by
  unfold poke; rw [if_pos h]

namespace UList

/-- the window lies inside the (non-empty) allocation -/
def Wf (l : UList α) : Prop := l.start + l.num ≤ l.arr.length ∧ 0 < l.arr.length

theorem window_length (l : UList α) (wf : l.Wf) : l.window.length = l.num := by
  unfold window; simp; have := wf.1; omega

theorem window_get (l : UList α) (j : Nat) : l.window[j]? = if j < l.num then l.arr[l.start + j]? else none := by
  unfold window; rw [List.getElem?_take]; split <;> simp [List.getElem?_drop]

/-- close a goal that is a nest of index comparisons over `getElem?` terms -/
macro "idx_cases" : tactic =>
  `(tactic| (repeat' split) <;> first | rfl | omega | (exfalso; omega) | (congr 1; omega) | (simp; done) | (simp; omega))

theorem push_spec (junk : α) (l : UList α) (wf : l.Wf) (x : α) :
    ∃ l', l.push junk x = some l' ∧ l'.Wf ∧ l'.window = l.window ++ [x] := by
  obtain ⟨w1, w2⟩ := wf
  unfold push anum
  by_cases hc : l.start + l.num ≥ l.arr.length
  · simp only [hc, if_true]
    rw [poke_some _ _ _ (by rw [length_realloc]; omega)]
    refine ⟨_, rfl, ⟨by simp [length_realloc]; omega, by simp [length_realloc]⟩, ?_⟩
    apply List.ext_getElem?
    intro j
    rw [window_get, List.getElem?_append, window_get, window_length l ⟨w1, w2⟩]
    simp only [List.getElem?_set, length_realloc, getElem?_realloc, List.getElem?_singleton]
    idx_cases
  · simp only [hc, if_false]
    rw [poke_some _ _ _ (by omega)]
    refine ⟨_, rfl, ⟨by simp; omega, by simp; omega⟩, ?_⟩
    apply List.ext_getElem?
    intro j
    rw [window_get, List.getElem?_append, window_get, window_length l ⟨w1, w2⟩]
    simp only [List.getElem?_set, List.getElem?_singleton]
    idx_cases


theorem alloc_unit_pos : 0 < ALLOC_UNIT := by decide

/-- the shrink step keeps the `n` live cells and yields a window inside a non-empty allocation -/
theorem shrink_spec (junk : α) (arr : List α) (start n : Nat) (h : start + n ≤ arr.length) (h0 : 0 < arr.length) :
    ∃ a' s', shrink junk arr start n = some (a', s') ∧ s' + n ≤ a'.length ∧ 0 < a'.length ∧
      ∀ j, j < n → a'[s' + j]? = arr[start + j]? := by
  have hp := @alloc_unit_pos
  unfold shrink
  split
  · by_cases hs : start ≠ 0
    · obtain ⟨a1, e1, l1, g1⟩ := blit_some arr 0 start n (by omega) (by omega)
      rw [if_pos hs, e1]
      simp only [Option.map_some]
      refine ⟨realloc junk a1 (if n > ALLOC_UNIT then n else ALLOC_UNIT), 0, rfl,
        by rw [length_realloc]; split <;> omega, by rw [length_realloc]; split <;> omega, ?_⟩
      intro j hj
      rw [getElem?_realloc, g1]
      simp only [Nat.zero_add, l1]
      idx_cases
    · have hs0 : start = 0 := by omega
      subst hs0
      rw [if_neg (show ¬ ((0 : Nat) ≠ 0) by simp)]
      simp only [Option.map_some]
      refine ⟨realloc junk arr (if n > ALLOC_UNIT then n else ALLOC_UNIT), 0, rfl,
        by rw [length_realloc]; split <;> omega, by rw [length_realloc]; split <;> omega, ?_⟩
      intro j hj
      rw [getElem?_realloc]
      idx_cases
  · exact ⟨arr, start, rfl, h, h0, fun _ _ => rfl⟩

theorem pop_spec (junk : α) (l : UList α) (wf : l.Wf) :
    ∃ l' ok, l.pop junk = some (l', ok) ∧ l'.Wf ∧ (ok = false ↔ l.window = []) ∧ l'.window = l.window.take (l.num - 1) := by
  obtain ⟨w1, w2⟩ := wf
  unfold pop
  by_cases hn : l.num = 0
  · simp only [hn, if_true]
    have hw : l.window = [] := by unfold window; simp [hn]
    exact ⟨l, false, rfl, ⟨w1, w2⟩, by simp [hw], by simp [hw]⟩
  · simp only [hn, if_false]
    obtain ⟨a', s', e, b1, b2, g⟩ := shrink_spec junk l.arr l.start (l.num - 1) (by omega) w2
    rw [e]
    refine ⟨_, true, rfl, ⟨b1, b2⟩, ?_, ?_⟩
    · simp; intro hw; have := window_length l ⟨w1, w2⟩; rw [hw] at this; simp at this; omega
    · apply List.ext_getElem?
      intro j
      rw [window_get, List.getElem?_take, window_get]
      by_cases hj : j < l.num - 1
      · simp only [hj, if_true]; rw [g j hj]; idx_cases
      · simp only [hj, if_false]

theorem shift_spec (junk : α) (l : UList α) (wf : l.Wf) :
    ∃ l' ok, l.shift junk = some (l', ok) ∧ l'.Wf ∧ (ok = false ↔ l.window = []) ∧ l'.window = l.window.drop 1 := by
  obtain ⟨w1, w2⟩ := wf
  unfold shift
  by_cases hn : l.num = 0
  · simp only [hn, if_true]
    have hw : l.window = [] := by unfold window; simp [hn]
    exact ⟨l, false, rfl, ⟨w1, w2⟩, by simp [hw], by simp [hw]⟩
  · simp only [hn, if_false]
    obtain ⟨a', s', e, b1, b2, g⟩ := shrink_spec junk l.arr (l.start + 1) (l.num - 1) (by omega) w2
    rw [e]
    refine ⟨_, true, rfl, ⟨b1, b2⟩, ?_, ?_⟩
    · simp; intro hw; have := window_length l ⟨w1, w2⟩; rw [hw] at this; simp at this; omega
    · apply List.ext_getElem?
      intro j
      rw [window_get, List.getElem?_drop, window_get]
      by_cases hj : j < l.num - 1
      · simp only [hj, if_true]; rw [g j hj]; idx_cases
      · simp only [hj, if_false]; idx_cases

theorem set_spec (l : UList α) (wf : l.Wf) (i : Nat) (x : α) :
    ∃ l' ok, l.set i x = some (l', ok) ∧ l'.Wf ∧ (ok = true ↔ i < l.window.length) ∧
      l'.window = (if i < l.window.length then l.window.set i x else l.window) := by
  have hl := window_length l wf
  obtain ⟨w1, w2⟩ := wf
  unfold set
  by_cases hi : i ≥ l.num
  · simp only [hi, if_true]
    refine ⟨l, false, rfl, ⟨w1, w2⟩, by simp; omega, ?_⟩
    rw [if_neg (by omega)]
  · simp only [hi, if_false]
    rw [poke_some _ _ _ (by omega)]
    refine ⟨_, true, rfl, ⟨by simp; omega, by simp; omega⟩, by simp; omega, ?_⟩
    rw [if_pos (by omega)]
    apply List.ext_getElem?
    intro j
    simp only [window_get, List.getElem?_set, hl]
    idx_cases

theorem remove_spec (junk : α) (l : UList α) (wf : l.Wf) (i : Nat) :
    ∃ l' ok, l.remove junk i = some (l', ok) ∧ l'.Wf ∧ (ok = true ↔ i < l.window.length) ∧
      l'.window = (if i < l.window.length then l.window.take i ++ l.window.drop (i + 1) else l.window) := by
  have hl := window_length l wf
  obtain ⟨w1, w2⟩ := wf
  unfold remove
  by_cases hi : i ≥ l.num
  · simp only [hi, if_true]
    refine ⟨l, false, rfl, ⟨w1, w2⟩, by simp; omega, ?_⟩
    rw [if_neg (by omega)]
  · simp only [hi, if_false]
    obtain ⟨a1, e1, l1, g1⟩ := blit_some l.arr (l.start + i) (l.start + i + 1) (l.start + (l.num - 1) - (l.start + i)) (by omega) (by omega)
    rw [e1]
    obtain ⟨a', s', e, b1, b2, g⟩ := shrink_spec junk a1 l.start (l.num - 1) (by omega) (by omega)
    simp only [Option.bind_some, e, Option.map_some]
    refine ⟨_, true, rfl, ⟨b1, b2⟩, by simp; omega, ?_⟩
    rw [if_pos (by omega)]
    apply List.ext_getElem?
    intro j
    rw [window_get, List.getElem?_append, List.getElem?_take, List.getElem?_drop, window_get, window_get]
    simp only [List.length_take, hl]
    by_cases hj : j < l.num - 1
    · simp only [hj, if_true]; rw [g j hj, g1]; idx_cases
    · simp only [hj, if_false]; idx_cases

theorem insert_spec (junk : α) (l : UList α) (wf : l.Wf) (i : Nat) (x : α) :
    ∃ l' ok, l.insert junk i x = some (l', ok) ∧ l'.Wf ∧ (ok = true ↔ i ≤ l.window.length) ∧
      l'.window = (if i ≤ l.window.length then l.window.take i ++ x :: l.window.drop i else l.window) := by
  have hl := window_length l wf
  obtain ⟨w1, w2⟩ := wf
  unfold insert anum
  by_cases hi : i > l.num
  · simp only [hi, if_true]
    refine ⟨l, false, rfl, ⟨w1, w2⟩, by simp; omega, ?_⟩
    rw [if_neg (by omega)]
  · simp only [hi, if_false]
    have key : ∀ arr1 : List α, l.start + l.num + 1 ≤ arr1.length → (∀ j, j < l.start + l.num → arr1[j]? = l.arr[j]?) →
        ∃ l' ok, ((blit arr1 (l.start + i + 1) (l.start + i) (l.start + l.num - (l.start + i))).bind fun a =>
            (poke a (l.start + i) x).map fun a' => (({ l with arr := a', num := l.num + 1 } : UList α), true)) = some (l', ok) ∧
          l'.Wf ∧ (ok = true ↔ i ≤ l.window.length) ∧
          l'.window = (if i ≤ l.window.length then l.window.take i ++ x :: l.window.drop i else l.window) := by
      intro arr1 hlen hsame
      obtain ⟨a1, e1, l1, g1⟩ := blit_some arr1 (l.start + i + 1) (l.start + i) (l.start + l.num - (l.start + i)) (by omega) (by omega)
      rw [e1]
      simp only [Option.bind_some]
      rw [poke_some _ _ _ (by omega)]
      refine ⟨_, true, rfl, ⟨by simp; omega, by simp; omega⟩, by simp; omega, ?_⟩
      rw [if_pos (by omega)]
      apply List.ext_getElem?
      intro j
      rw [window_get, List.getElem?_append, List.getElem?_take, window_get]
      simp only [List.getElem?_set, List.length_take, hl, l1, g1, List.getElem?_cons, List.getElem?_drop, window_get]
      by_cases hj : j < l.num + 1
      · simp only [hj, if_true]
        by_cases c1 : j < i
        · have := hsame (l.start + j) (by omega)
          have m1 : min i l.num = i := by omega
          simp only [m1, c1, if_true]
          rw [← this]; idx_cases
        · have m1 : min i l.num = i := by omega
          simp only [m1, c1, if_false]
          by_cases c2 : j = i
          · subst c2; simp; omega
          · have := hsame (l.start + i + (l.start + j - (l.start + i + 1))) (by omega)
            rw [if_neg (by omega)]
            have c3 : ¬ (j - i = 0) := by omega
            simp only [c3, if_false]
            rw [if_pos ⟨by omega, by omega⟩, this]
            rw [if_pos (by omega)]
            congr 1; omega
      · simp only [hj, if_false]
        have m1 : min i l.num = i := by omega
        simp only [m1]
        idx_cases
    by_cases hc : l.start + l.num ≥ l.arr.length
    · simp only [hc, if_true]
      exact key _ (by rw [length_realloc]; omega) (fun j hj => by rw [getElem?_realloc]; idx_cases)
    · simp only [hc, if_false]
      exact key _ (by omega) (fun _ _ => rfl)

theorem unshift_spec (junk : α) (l : UList α) (wf : l.Wf) (x : α) :
    ∃ l', l.unshift junk x = some l' ∧ l'.Wf ∧ l'.window = x :: l.window := by
  have hl := window_length l wf
  obtain ⟨w1, w2⟩ := wf
  unfold unshift anum
  by_cases hs : l.start = 0
  · simp only [hs, if_true]
    have key : ∀ arr1 : List α, l.num < arr1.length → (∀ j, j < l.num → arr1[j]? = l.arr[j]?) →
        ∃ l', (((blit arr1 (arr1.length - l.num) 0 l.num).map fun a => (a, arr1.length - l.num)).bind fun (p : List α × Nat) =>
            if p.2 = 0 then none else (poke p.1 (p.2 - 1) x).map fun a' => ({ arr := a', start := p.2 - 1, num := l.num + 1 } : UList α)) = some l' ∧
          l'.Wf ∧ l'.window = x :: l.window := by
      intro arr1 hlen hsame
      obtain ⟨a1, e1, l1, g1⟩ := blit_some arr1 (arr1.length - l.num) 0 l.num (by omega) (by omega)
      rw [e1]
      simp only [Option.map_some, Option.bind_some]
      rw [if_neg (by omega), poke_some _ _ _ (by omega)]
      refine ⟨_, rfl, ⟨by simp; omega, by simp; omega⟩, ?_⟩
      apply List.ext_getElem?
      intro j
      rw [window_get, List.getElem?_cons, window_get]
      simp only [List.getElem?_set, l1, g1, hs, Nat.zero_add]
      by_cases hj : j < l.num + 1
      · simp only [hj, if_true]
        by_cases c0 : j = 0
        · subst c0; simp; omega
        · simp only [c0, if_false]
          rw [if_neg (by omega), if_pos ⟨by omega, by omega⟩, if_pos (by omega)]
          rw [hsame _ (by omega)]
          congr 1; omega
      · simp only [hj, if_false]
        idx_cases
    by_cases hc : l.num ≥ l.arr.length
    · simp only [hc, if_true]
      exact key _ (by rw [length_realloc]; omega) (fun j hj => by rw [getElem?_realloc]; idx_cases)
    · simp only [hc, if_false]
      exact key _ (by omega) (fun _ _ => rfl)
  · simp only [hs, if_false, Option.bind_some]
    rw [poke_some _ _ _ (by omega)]
    refine ⟨_, rfl, ⟨by simp; omega, by simp; omega⟩, ?_⟩
    apply List.ext_getElem?
    intro j
    rw [window_get, List.getElem?_cons, window_get]
    simp only [List.getElem?_set]
    by_cases c0 : j = 0
    · subst c0; simp; omega
    · simp only [c0, if_false]
      by_cases hj : j < l.num + 1
      · rw [if_pos hj, if_neg (by omega), if_pos (by omega)]; congr 1; omega
      · rw [if_neg hj, if_neg (by omega)]

end UList

namespace PList

def Wf (l : PList α) : Prop := l.start + l.num ≤ l.arr.length ∧ 0 < l.arr.length

theorem window_length (l : PList α) (wf : l.Wf) : l.window.length = l.num := by
  unfold window; simp; have := wf.1; omega

theorem window_get (l : PList α) (j : Nat) : l.window[j]? = if j < l.num then l.arr[l.start + j]? else none := by
  unfold window; rw [List.getElem?_take]; split <;> simp [List.getElem?_drop]

theorem push_spec (junk : α) (l : PList α) (wf : l.Wf) (x : α) :
    ∃ l', l.push junk x = some l' ∧ l'.Wf ∧ l'.window = l.window ++ [x] := by
  obtain ⟨w1, w2⟩ := wf
  unfold push anum
  by_cases hc : l.start + l.num ≥ l.arr.length
  · simp only [hc, if_true]
    rw [poke_some _ _ _ (by rw [length_realloc]; omega)]
    refine ⟨_, rfl, ⟨by simp [length_realloc]; omega, by simp [length_realloc]⟩, ?_⟩
    apply List.ext_getElem?
    intro j
    rw [window_get, List.getElem?_append, window_get, window_length l ⟨w1, w2⟩]
    simp only [List.getElem?_set, length_realloc, getElem?_realloc, List.getElem?_singleton]
    idx_cases
  · simp only [hc, if_false]
    rw [poke_some _ _ _ (by omega)]
    refine ⟨_, rfl, ⟨by simp; omega, by simp; omega⟩, ?_⟩
    apply List.ext_getElem?
    intro j
    rw [window_get, List.getElem?_append, window_get, window_length l ⟨w1, w2⟩]
    simp only [List.getElem?_set, List.getElem?_singleton]
    idx_cases

/-- `iwlist_pop`: the caller receives the last item; the list keeps the rest -/
theorem pop_spec (l : PList α) (wf : l.Wf) :
    l.pop.1.Wf ∧ l.pop.1.window = l.window.take (l.num - 1) ∧
    l.pop.2 = (if l.num = 0 then none else some l.window[l.num - 1]?) := by
  obtain ⟨w1, w2⟩ := wf
  unfold pop
  by_cases hn : l.num = 0
  · simp only [hn, if_true]
    have hw : l.window = [] := by unfold window; simp [hn]
    exact ⟨⟨w1, w2⟩, by simp [hw], by simp⟩
  · simp only [hn, if_false]
    refine ⟨⟨by dsimp only; omega, w2⟩, ?_, ?_⟩
    · apply List.ext_getElem?
      intro j
      rw [window_get, List.getElem?_take, window_get]
      dsimp only
      idx_cases
    · rw [window_get, if_pos (by omega)]
      have : l.start + l.num - 1 = l.start + (l.num - 1) := by omega
      rw [this]

theorem set_spec (l : PList α) (wf : l.Wf) (i : Nat) (x : α) :
    ∃ l' ok, l.set i x = some (l', ok) ∧ l'.Wf ∧ (ok = true ↔ i < l.window.length) ∧
      l'.window = (if i < l.window.length then l.window.set i x else l.window) := by
  have hl := window_length l wf
  obtain ⟨w1, w2⟩ := wf
  unfold set
  by_cases hi : i ≥ l.num
  · simp only [hi, if_true]
    refine ⟨l, false, rfl, ⟨w1, w2⟩, by simp; omega, ?_⟩
    rw [if_neg (by omega)]
  · simp only [hi, if_false]
    rw [poke_some _ _ _ (by omega)]
    refine ⟨_, true, rfl, ⟨by simp; omega, by simp; omega⟩, by simp; omega, ?_⟩
    rw [if_pos (by omega)]
    apply List.ext_getElem?
    intro j
    simp only [window_get, List.getElem?_set, hl]
    idx_cases

/-- `iwlist_remove`: the caller receives item `i`; the list keeps the others in order -/
theorem remove_spec (l : PList α) (wf : l.Wf) (i : Nat) :
    ∃ l' r, l.remove i = some (l', r) ∧ l'.Wf ∧
      r = (if i < l.window.length then some l.window[i]? else none) ∧
      l'.window = (if i < l.window.length then l.window.take i ++ l.window.drop (i + 1) else l.window) := by
  have hl := window_length l wf
  obtain ⟨w1, w2⟩ := wf
  unfold remove
  by_cases hi : i ≥ l.num
  · simp only [hi, if_true]
    refine ⟨l, none, rfl, ⟨w1, w2⟩, by rw [if_neg (by omega)], by rw [if_neg (by omega)]⟩
  · simp only [hi, if_false]
    obtain ⟨a1, e1, l1, g1⟩ := blit_some l.arr (l.start + i) (l.start + i + 1) (l.start + (l.num - 1) - (l.start + i)) (by omega) (by omega)
    rw [e1]
    simp only [Option.map_some]
    refine ⟨_, _, rfl, ⟨by simp; omega, by simp; omega⟩, ?_, ?_⟩
    · rw [if_pos (by omega), window_get, if_pos (by omega)]
    · rw [if_pos (by omega)]
      apply List.ext_getElem?
      intro j
      rw [window_get, List.getElem?_append, List.getElem?_take, List.getElem?_drop, window_get, window_get]
      simp only [List.length_take, hl, g1]
      idx_cases

/-- `iwlist_shift`: the caller receives the first item; compaction (every 256th shift) keeps the rest -/
theorem shift_spec (l : PList α) (wf : l.Wf) :
    ∃ l' r, l.shift = some (l', r) ∧ l'.Wf ∧ l'.window = l.window.drop 1 ∧
      r = (if l.num = 0 then none else some l.window[0]?) := by
  obtain ⟨w1, w2⟩ := wf
  unfold shift
  by_cases hn : l.num = 0
  · simp only [hn, if_true]
    have hw : l.window = [] := by unfold window; simp [hn]
    exact ⟨l, none, rfl, ⟨w1, w2⟩, by simp [hw], rfl⟩
  · simp only [hn, if_false]
    have hr : some l.arr[l.start]? = some l.window[0]? := by rw [window_get, if_pos (by omega)]; simp
    split
    · obtain ⟨a1, e1, l1, g1⟩ := blit_some l.arr 0 (l.start + 1) (l.num - 1) (by omega) (by omega)
      rw [e1]
      simp only [Option.map_some]
      refine ⟨_, _, rfl, ⟨by simp; omega, by simp; omega⟩, ?_, hr⟩
      apply List.ext_getElem?
      intro j
      rw [window_get, List.getElem?_drop, window_get]
      dsimp only
      simp only [g1, Nat.zero_add]
      idx_cases
    · refine ⟨_, _, rfl, ⟨by dsimp only; omega, w2⟩, ?_, hr⟩
      apply List.ext_getElem?
      intro j
      rw [window_get, List.getElem?_drop, window_get]
      dsimp only
      idx_cases

theorem insert_spec (junk : α) (l : PList α) (wf : l.Wf) (i : Nat) (x : α) :
    ∃ l' ok, l.insert junk i x = some (l', ok) ∧ l'.Wf ∧ (ok = true ↔ i ≤ l.window.length) ∧
      l'.window = (if i ≤ l.window.length then l.window.take i ++ x :: l.window.drop i else l.window) := by
  have hl := window_length l wf
  obtain ⟨w1, w2⟩ := wf
  unfold insert anum
  by_cases hi : i > l.num
  · simp only [hi, if_true]
    refine ⟨l, false, rfl, ⟨w1, w2⟩, by simp; omega, ?_⟩
    rw [if_neg (by omega)]
  · simp only [hi, if_false]
    have key : ∀ arr1 : List α, l.start + l.num + 1 ≤ arr1.length → (∀ j, j < l.start + l.num → arr1[j]? = l.arr[j]?) →
        ∃ l' ok, ((blit arr1 (l.start + i + 1) (l.start + i) (l.start + l.num - (l.start + i))).bind fun a =>
            (poke a (l.start + i) x).map fun a' => (({ l with arr := a', num := l.num + 1 } : PList α), true)) = some (l', ok) ∧
          l'.Wf ∧ (ok = true ↔ i ≤ l.window.length) ∧
          l'.window = (if i ≤ l.window.length then l.window.take i ++ x :: l.window.drop i else l.window) := by
      intro arr1 hlen hsame
      obtain ⟨a1, e1, l1, g1⟩ := blit_some arr1 (l.start + i + 1) (l.start + i) (l.start + l.num - (l.start + i)) (by omega) (by omega)
      rw [e1]
      simp only [Option.bind_some]
      rw [poke_some _ _ _ (by omega)]
      refine ⟨_, true, rfl, ⟨by simp; omega, by simp; omega⟩, by simp; omega, ?_⟩
      rw [if_pos (by omega)]
      apply List.ext_getElem?
      intro j
      rw [window_get, List.getElem?_append, List.getElem?_take, window_get]
      simp only [List.getElem?_set, List.length_take, hl, l1, g1, List.getElem?_cons, List.getElem?_drop, window_get]
      by_cases hj : j < l.num + 1
      · simp only [hj, if_true]
        by_cases c1 : j < i
        · have := hsame (l.start + j) (by omega)
          have m1 : min i l.num = i := by omega
          simp only [m1, c1, if_true]
          rw [← this]; idx_cases
        · have m1 : min i l.num = i := by omega
          simp only [m1, c1, if_false]
          by_cases c2 : j = i
          · subst c2; simp; omega
          · have := hsame (l.start + i + (l.start + j - (l.start + i + 1))) (by omega)
            rw [if_neg (by omega)]
            have c3 : ¬ (j - i = 0) := by omega
            simp only [c3, if_false]
            rw [if_pos ⟨by omega, by omega⟩, this]
            rw [if_pos (by omega)]
            congr 1; omega
      · simp only [hj, if_false]
        have m1 : min i l.num = i := by omega
        simp only [m1]
        idx_cases
    by_cases hc : l.start + l.num ≥ l.arr.length
    · simp only [hc, if_true]
      exact key _ (by rw [length_realloc]; omega) (fun j hj => by rw [getElem?_realloc]; idx_cases)
    · simp only [hc, if_false]
      exact key _ (by omega) (fun _ _ => rfl)

theorem unshift_spec (junk : α) (l : PList α) (wf : l.Wf) (x : α) :
    ∃ l', l.unshift junk x = some l' ∧ l'.Wf ∧ l'.window = x :: l.window := by
  have hl := window_length l wf
  obtain ⟨w1, w2⟩ := wf
  unfold unshift anum
  by_cases hs : l.start = 0
  · simp only [hs, if_true]
    have key : ∀ arr1 : List α, l.num < arr1.length → (∀ j, j < l.num → arr1[j]? = l.arr[j]?) →
        ∃ l', (((blit arr1 (arr1.length - l.num) 0 l.num).map fun a => (a, arr1.length - l.num)).bind fun (p : List α × Nat) =>
            if p.2 = 0 then none else (poke p.1 (p.2 - 1) x).map fun a' => ({ arr := a', start := p.2 - 1, num := l.num + 1 } : PList α)) = some l' ∧
          l'.Wf ∧ l'.window = x :: l.window := by
      intro arr1 hlen hsame
      obtain ⟨a1, e1, l1, g1⟩ := blit_some arr1 (arr1.length - l.num) 0 l.num (by omega) (by omega)
      rw [e1]
      simp only [Option.map_some, Option.bind_some]
      rw [if_neg (by omega), poke_some _ _ _ (by omega)]
      refine ⟨_, rfl, ⟨by simp; omega, by simp; omega⟩, ?_⟩
      apply List.ext_getElem?
      intro j
      rw [window_get, List.getElem?_cons, window_get]
      simp only [List.getElem?_set, l1, g1, hs, Nat.zero_add]
      by_cases hj : j < l.num + 1
      · simp only [hj, if_true]
        by_cases c0 : j = 0
        · subst c0; simp; omega
        · simp only [c0, if_false]
          rw [if_neg (by omega), if_pos ⟨by omega, by omega⟩, if_pos (by omega)]
          rw [hsame _ (by omega)]
          congr 1; omega
      · simp only [hj, if_false]
        idx_cases
    by_cases hc : l.num ≥ l.arr.length
    · simp only [hc, if_true]
      exact key _ (by rw [length_realloc]; omega) (fun j hj => by rw [getElem?_realloc]; idx_cases)
    · simp only [hc, if_false]
      exact key _ (by omega) (fun _ _ => rfl)
  · simp only [hs, if_false, Option.bind_some]
    rw [poke_some _ _ _ (by omega)]
    refine ⟨_, rfl, ⟨by simp; omega, by simp; omega⟩, ?_⟩
    apply List.ext_getElem?
    intro j
    rw [window_get, List.getElem?_cons, window_get]
    simp only [List.getElem?_set]
    by_cases c0 : j = 0
    · subst c0; simp; omega
    · simp only [c0, if_false]
      by_cases hj : j < l.num + 1
      · rw [if_pos hj, if_neg (by omega), if_pos (by omega)]; congr 1; omega
      · rw [if_neg hj, if_neg (by omega)]

end PList

/-! ### sorted-array helpers -/

/-- non-decreasing, pointwise -/
def Mono (a : List Int) : Prop := ∀ i j : Nat, i ≤ j → j < a.length → a.getD i 0 ≤ a.getD j 0

theorem mono_of_sorted (a : List Int) (h : a.Pairwise (· ≤ ·)) : Mono a := by
  intro i j hij hj
  rw [List.pairwise_iff_getElem] at h
  have hi : i < a.length := by omega
  simp only [List.getD_eq_getElem?_getD, List.getElem?_eq_getElem hi, List.getElem?_eq_getElem hj, Option.getD_some]
  rcases Nat.lt_or_eq_of_le hij with h1 | h1
  · exact h i j hi hj h1
  · subst h1; exact Int.le_refl _

/-- outcome of the shared binary search -/
def SearchOk (a : List Int) (v : Int) : Sum Nat Nat → Prop
  | .inl i => i < a.length ∧ a.getD i 0 = v
  | .inr i => i ≤ a.length ∧ (∀ j : Nat, j < i → a.getD j 0 < v) ∧ (∀ j : Nat, i ≤ j → j < a.length → v < a.getD j 0)

theorem bsearch_spec (a : List Int) (v : Int) (mono : Mono a) : ∀ (fuel : Nat) (lb ub : Int),
    0 ≤ lb → ub < a.length → lb ≤ ub → ub - lb + 1 < fuel →
    (∀ i : Nat, (i : Int) < lb → a.getD i 0 < v) → (∀ i : Nat, ub < (i : Int) → i < a.length → v < a.getD i 0) →
    SearchOk a v (bsearch a v fuel lb ub) := by
  intro fuel
  induction fuel with
  | zero => intro lb ub _ _ _ hf; omega
  | succ fuel ih =>
    intro lb ub h0 h1 h2 hf hlo hhi
    unfold bsearch
    simp only
    have hidx1 : lb ≤ (ub + lb) / 2 := by omega
    have hidx2 : (ub + lb) / 2 ≤ ub := by omega
    have hlen : ((ub + lb) / 2).toNat < a.length := by omega
    split
    · rename_i hx
      exact ⟨hlen, hx⟩
    · split
      · rename_i hne hx
        have hbelow : ∀ i : Nat, (i : Int) < (ub + lb) / 2 + 1 → a.getD i 0 < v := by
          intro i hi
          have := mono i ((ub + lb) / 2).toNat (by omega) hlen
          omega
        split
        · refine ⟨by omega, ?_, ?_⟩
          · intro j hj; exact hbelow j (by omega)
          · intro j hj hjl; exact hhi j (by omega) hjl
        · exact ih _ _ (by omega) h1 (by omega) (by omega) hbelow hhi
      · rename_i hne hx
        have hgt : v < a.getD ((ub + lb) / 2).toNat 0 := by omega
        have habove : ∀ i : Nat, (ub + lb) / 2 - 1 < (i : Int) → i < a.length → v < a.getD i 0 := by
          intro i hi hil
          have := mono ((ub + lb) / 2).toNat i (by omega) hil
          omega
        split
        · refine ⟨by omega, ?_, ?_⟩
          · intro j hj; exact hlo j (by omega)
          · intro j hj hjl; exact habove j (by omega) hjl
        · exact ih _ _ h0 (by omega) (by omega) (by omega) hlo habove

theorem search_spec (a : List Int) (v : Int) (h : a.Pairwise (· ≤ ·)) : SearchOk a v (search a v) := by
  unfold search
  split
  · rename_i he
    have : a = [] := by simpa using he
    subst this
    exact ⟨by simp, by intro j hj; omega, by intro j _ hj; simp at hj⟩
  · rename_i he
    have hne : 0 < a.length := by
      cases a with
      | nil => simp at he
      | cons _ _ => simp
    exact bsearch_spec a v (mono_of_sorted a h) _ _ _ (by omega) (by omega) (by omega) (by omega)
      (by intro i hi; omega) (by intro i hi hil; omega)

theorem getD_of_mem (a : List Int) (x : Int) (h : x ∈ a) : ∃ i, i < a.length ∧ a.getD i 0 = x := by
  obtain ⟨i, hi, rfl⟩ := List.mem_iff_getElem.1 h
  exact ⟨i, hi, by simp [List.getD_eq_getElem?_getD, List.getElem?_eq_getElem hi]⟩

theorem mem_of_getD (a : List Int) (i : Nat) (hi : i < a.length) : a.getD i 0 ∈ a := by
  simp [List.getD_eq_getElem?_getD, List.getElem?_eq_getElem hi]

/-- inserting `v` at a position with everything before ≤ v and everything from there on ≥ v keeps the order -/
theorem sorted_insert_at (a : List Int) (v : Int) (i : Nat) (h : a.Pairwise (· ≤ ·)) (hi : i ≤ a.length)
    (hb : ∀ j : Nat, j < i → a.getD j 0 ≤ v) (ha : ∀ j : Nat, i ≤ j → j < a.length → v ≤ a.getD j 0) :
    (a.take i ++ v :: a.drop i).Pairwise (· ≤ ·) := by
  rw [List.pairwise_append, List.pairwise_cons]
  refine ⟨h.sublist (List.take_sublist _ _), ⟨?_, h.sublist (List.drop_sublist _ _)⟩, ?_⟩
  · intro x hx
    obtain ⟨j, hj, rfl⟩ := List.mem_iff_getElem.1 hx
    have := ha (i + j) (by omega) (by simp at hj; omega)
    simpa [List.getD_eq_getElem?_getD, List.getElem?_eq_getElem (show i + j < a.length by simp at hj; omega)] using this
  · intro x hx y hy
    obtain ⟨j, hj, rfl⟩ := List.mem_iff_getElem.1 hx
    have hj' : j < i ∧ j < a.length := by simp at hj; omega
    have hxv := hb j hj'.1
    simp only [List.getD_eq_getElem?_getD, List.getElem?_eq_getElem hj'.2, Option.getD_some] at hxv
    rw [List.getElem_take]
    rcases List.mem_cons.1 hy with rfl | hy
    · exact hxv
    · obtain ⟨k, hk, rfl⟩ := List.mem_iff_getElem.1 hy
      have := ha (i + k) (by omega) (by simp at hk; omega)
      simp only [List.getD_eq_getElem?_getD, List.getElem?_eq_getElem (show i + k < a.length by simp at hk; omega), Option.getD_some] at this
      rw [List.getElem_drop]
      omega


end IwModel.Arr
