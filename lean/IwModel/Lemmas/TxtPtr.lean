import IwModel.Lemmas.Txt
/-! Helper lemmas for the C17 theorem about `_jbl_ptr_pool` (core Lean only). -/
namespace IwModel.Txt

/-- index `t` of the path holds a non-NUL byte, and a `~` there is followed by `0` or `1` -/
def GoodAt (path : Bytes) (t : Nat) : Prop :=
  ∃ c, path[t]? = some c ∧ c ≠ 0 ∧ (c = 126 → path[t + 1]? = some 48 ∨ path[t + 1]? = some 49)

/-- what the counting pre-pass has established when it returns `len` -/
def PathOk (path : Bytes) (len : Nat) : Prop :=
  path[len]? = some 0 ∧ ∀ t, t < len → GoodAt path t

theorem ptrPre_safe (strict : Bool) (path : Bytes) (i cnt : Nat) (h : Term path i) : ptrPre strict path i cnt ≠ .oob := by
  fun_induction ptrPre strict path i cnt
  all_goals first
    | (simp; done)
    | grind [→ Term.next, → Term.ne_none]

theorem ptrPre_ok (path : Bytes) (i cnt len cnt' : Nat) (hg : ∀ t, t < i → GoodAt path t)
    (hr : ptrPre true path i cnt = .ok (len, cnt')) : PathOk path len ∧ i ≤ len := by
  fun_induction ptrPre true path i cnt
  all_goals first
    | (simp at hr; done)
    | grind [PathOk, GoodAt]


theorem wr_some {data : Bytes} {idx v : Nat} (h : idx < data.length) : ∃ d', wr data idx v = some d' ∧ d'.length = data.length := by
  refine ⟨data.set idx v, ?_, by simp⟩
  simp [wr, h]

theorem wr_length {data d' : Bytes} {idx v : Nat} (h : wr data idx v = some d') : d'.length = data.length := by
  unfold wr at h; split at h <;> simp at h; subst h; simp

theorem PathOk.rd {path : Bytes} {len i : Nat} (hp : PathOk path len) (hi : i ≤ len) : ∃ c, path[i]? = some c := by
  rcases Nat.lt_or_eq_of_le hi with hlt | heq
  · obtain ⟨c, hc, _⟩ := hp.2 i hlt; exact ⟨c, hc⟩
  · subst heq; exact ⟨0, hp.1⟩

theorem PathOk.ne_none {path : Bytes} {len i : Nat} (hp : PathOk path len) (hi : i ≤ len) : path[i]? ≠ none := by
  obtain ⟨c, hc⟩ := hp.rd hi; simp [hc]

theorem PathOk.nz {path : Bytes} {len i c : Nat} (hp : PathOk path len) (hi : i ≤ len) (hc : path[i]? = some c)
    (h0 : c ≠ 0) : i + 1 ≤ len := by
  rcases Nat.lt_or_eq_of_le hi with hlt | heq
  · omega
  · subst heq; rw [hp.1] at hc; simp at hc; omega

theorem PathOk.tilde {path : Bytes} {len i : Nat} (hp : PathOk path len) (hi : i ≤ len) (hc : path[i]? = some 126) :
    (path[i + 1]? = some 48 ∨ path[i + 1]? = some 49) ∧ i + 2 ≤ len := by
  have hlt : i < len := by have := hp.nz hi hc (by omega); omega
  obtain ⟨c, hc', _, ht⟩ := hp.2 i hlt
  rw [hc] at hc'; simp at hc'; subst hc'
  have h01 := ht rfl
  refine ⟨h01, ?_⟩
  have : i + 1 + 1 ≤ len := by
    rcases h01 with h | h
    · exact hp.nz (by omega) h (by omega)
    · exact hp.nz (by omega) h (by omega)
  omega

/-- The fill loops stay inside the path (reads) and inside the data area (stores): the store index
    `j + k` always trails the read index `i`, and `i` never passes the terminator. -/
theorem ptrFill_safe (path : Bytes) (jpcnt len : Nat) (hp : PathOk path len)
    (i j k cnt : Nat) (data : Bytes) (offs : List Nat)
    (hi : i ≤ len) (hjk : j + k + 1 ≤ i) (hcap : len ≤ data.length) :
    ptrFill path jpcnt i j k cnt data offs ≠ .oob := by
  fun_induction ptrFill path jpcnt i j k cnt data offs
  all_goals first
    | (simp; done)
    | grind [→ PathOk.ne_none, → PathOk.nz, → PathOk.tilde, wr, wr_length]


theorem ptrParse_safe (path : Bytes) (h : Term path 0) : ptrParse path ≠ .oob := by
  unfold ptrParse ptrParseG
  obtain ⟨c0, h0⟩ := h.read
  rw [h0]; dsimp only
  split
  · simp
  · split
    · simp
    · next hz hs =>
      have s1 := ptrPre_safe true path 0 0 h
      cases hpre : ptrPre true path 0 0 with
      | oob => exact absurd hpre s1
      | err e => simp
      | ok r =>
        obtain ⟨len, cnt⟩ := r
        dsimp only
        have hok := (ptrPre_ok path 0 0 len cnt (by intro t ht; omega) hpre).1
        have h1 : 1 ≤ len := hok.nz (Nat.zero_le _) h0 hz
        have hrd : ∃ c, path[len - 1]? = some c := hok.rd (by omega)
        obtain ⟨cl, hcl⟩ := hrd
        have hlast : (if len > 1 then path[len - 1]? else some 1) = some (if len > 1 then cl else 1) := by
          split <;> simp [hcl]
        rw [hlast]; dsimp only
        generalize (if len > 1 then cl else 1) = last
        split
        · simp
        · have s2 := ptrFill_safe path cnt len hok 1 0 0 0
            (List.replicate (Gen.JBL_PTR_SIZEOF - Gen.JBL_PTR_OFF_N + len) ptrFillByte) [0] h1 (by omega) (by simp)
          cases hf : ptrFill path cnt 1 0 0 0 (List.replicate (Gen.JBL_PTR_SIZEOF - Gen.JBL_PTR_OFF_N + len) ptrFillByte) [0] with
          | oob => exact absurd hf s2
          | err e => simp
          | ok r => simp

/-- number of `/` among `path[i .. len)` -/
def slashes (path : Bytes) (i len : Nat) : Nat :=
  if i < len then (if path[i]? = some 47 then 1 else 0) + slashes path (i + 1) len else 0
termination_by len - i

theorem slashes_end (path : Bytes) (i len : Nat) (h : len ≤ i) : slashes path i len = 0 := by
  rw [slashes]; simp; omega

theorem slashes_slash (path : Bytes) (i len : Nat) (h : i < len) (hc : path[i]? = some 47) :
    slashes path i len = 1 + slashes path (i + 1) len := by
  rw [slashes]; simp [h, hc]

theorem slashes_other (path : Bytes) (i len c : Nat) (h : i < len) (hc : path[i]? = some c) (hn : c ≠ 47) :
    slashes path i len = slashes path (i + 1) len := by
  rw [slashes]; simp [h, hc, hn]

theorem ptrPre_count (path : Bytes) (i cnt len cnt' : Nat)
    (hr : ptrPre true path i cnt = .ok (len, cnt')) : cnt' = cnt + slashes path i len ∧ i ≤ len := by
  fun_induction ptrPre true path i cnt
  all_goals first
    | (simp at hr; done)
    | grind [slashes_end, slashes_slash, slashes_other]

theorem PathOk.zero_at {path : Bytes} {len i : Nat} (hp : PathOk path len) (hi : i ≤ len) (hc : path[i]? = some 0) : i = len := by
  rcases Nat.lt_or_eq_of_le hi with hlt | heq
  · obtain ⟨c, hc', hz, _⟩ := hp.2 i hlt
    rw [hc] at hc'; simp at hc'; omega
  · exact heq

theorem ptrFill_assigned (path : Bytes) (jpcnt len : Nat) (hp : PathOk path len)
    (i j k cnt : Nat) (data : Bytes) (offs : List Nat) (hi : i ≤ len)
    (hoff : offs.length = cnt + 1) (hcnt : cnt + 1 + slashes path i len = jpcnt)
    (offs' : List Nat) (data' : Bytes)
    (hr : ptrFill path jpcnt i j k cnt data offs = .ok (offs', data')) : offs'.length = jpcnt := by
  fun_induction ptrFill path jpcnt i j k cnt data offs
  all_goals first
    | (simp at hr; done)
    | grind [→ PathOk.ne_none, → PathOk.nz, → PathOk.tilde, → PathOk.zero_at, slashes_end, slashes_slash, slashes_other]


/-- every `jp->n[]` slot is assigned: the fill loops produce exactly `jp->cnt` segments -/
theorem ptrParse_assigned (path : Bytes) (h : Term path 0) (r : PtrOk) (hr : ptrParse path = .ok r) :
    r.assigned = r.cnt ∧ r.segs.length = r.cnt := by
  unfold ptrParse ptrParseG at hr
  obtain ⟨c0, h0⟩ := h.read
  rw [h0] at hr; dsimp only at hr
  split at hr
  · simp only [R.ok.injEq] at hr; subst hr; simp
  · split at hr
    · simp at hr
    · next hz hs =>
      have hs47 : c0 = 47 := by omega
      subst hs47
      cases hpre : ptrPre true path 0 0 with
      | oob => rw [hpre] at hr; simp at hr
      | err e => rw [hpre] at hr; simp at hr
      | ok pr =>
        obtain ⟨len, cnt⟩ := pr
        rw [hpre] at hr; dsimp only at hr
        have hok := (ptrPre_ok path 0 0 len cnt (by intro t ht; omega) hpre).1
        have hcount := (ptrPre_count path 0 0 len cnt hpre).1
        have h1 : 1 ≤ len := hok.nz (Nat.zero_le _) h0 (by omega)
        have hsl := slashes_slash path 0 len (by omega) h0
        rw [Nat.zero_add] at hsl
        obtain ⟨cl, hcl⟩ := hok.rd (show len - 1 ≤ len by omega)
        have hlast : (if len > 1 then path[len - 1]? else some 1) = some (if len > 1 then cl else 1) := by
          split <;> simp [hcl]
        rw [hlast] at hr; dsimp only at hr
        generalize (if len > 1 then cl else 1) = last at hr
        split at hr
        · simp at hr
        · cases hf : ptrFill path cnt 1 0 0 0 (List.replicate (Gen.JBL_PTR_SIZEOF - Gen.JBL_PTR_OFF_N + len) ptrFillByte) [0] with
          | oob => rw [hf] at hr; simp at hr
          | err e => rw [hf] at hr; simp at hr
          | ok fr =>
            obtain ⟨offs, data⟩ := fr
            rw [hf] at hr; simp only [R.ok.injEq] at hr
            have hlen := ptrFill_assigned path cnt len hok 1 0 0 0 _ [0] h1 (by simp) (by omega) offs data hf
            subst hr
            simp [hlen]

end IwModel.Txt
